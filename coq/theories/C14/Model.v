(* C14 - model of the tick <-> price <-> sqrt-price conversions of
   /repo/x/concentrated-liquidity/math/{tick.go,precompute.go}, osmomath/sqrt.go and the two range helpers of
   /repo/x/concentrated-liquidity/tick.go, function by function, as written.
   BigDec values are raw mantissas (x 10^36), Dec values raw x 10^18 (Base/DecModel.v).
   Go's int64 `/` and `%` truncate toward zero = Z.quot / Z.rem.  All literals of the code come from the
   generated file Gen/C14_consts.v (regenerated from /repo on every run).  Definitions only. *)
From Coq Require Import ZArith Bool List.
Import ListNotations.
From Osmo Require Import Base.DecModel Gen.C14_consts.
Open Scope Z_scope.

(* error values (types/errors.go), projected by the driver to the same small enum *)
Inductive err :=
| ETickMin        (* TickIndexMinimumError *)
| ETickMax        (* TickIndexMaximumError *)
| EPriceBound     (* PriceBoundError *)
| ENegPrice       (* "price must be greater than zero" *)
| ESqrtCalc       (* ErrCalculateSqrtPriceToTick *)
| ESqrtPriceToTick(* SqrtPriceToTickError *)
| ETickBounds     (* TickIndexNotWithinBoundariesError *)
| ETickSpacing    (* TickSpacingError *)
| EInvalidTick    (* InvalidTickError *)
| ELowerUpper     (* InvalidLowerUpperTickError *)
| EOther          (* any other error value (sqrt of a negative number) *)
| EPanic.         (* run-time panic: division by zero, index out of range, nil map entry, Int overflow, out of fuel *)
Inductive result (A : Type) := Ok (a : A) | Err (e : err).
Arguments Ok {A} _.
Arguments Err {A} _.

Definition err_code (e : err) : Z :=
  match e with
  | ETickMin => 1 | ETickMax => 2 | EPriceBound => 3 | ENegPrice => 4 | ESqrtCalc => 5 | ESqrtPriceToTick => 6
  | ETickBounds => 7 | ETickSpacing => 8 | EInvalidTick => 9 | ELowerUpper => 10 | EOther => 98 | EPanic => 99
  end.

Definition int64_min : Z := - 2 ^ 63.
Definition int64_max : Z := 2 ^ 63 - 1.
Definition is_int64 (z : Z) : bool := (int64_min <=? z) && (z <=? int64_max).
(* int64(x) of a uint64 x *)
Definition to_int64 (u : Z) : Z := if u <? 2 ^ 63 then u else u - 2 ^ 64.

(* ---- BigDec Mul / Quo with ONE big division instead of two ----
   Base/DecModel.chop_round calls Z.quot and Z.rem separately (two bit-serial divisions under vm_compute).
   The variants below take both from one Z.quotrem; they are equal to DecModel's bd_mul / bd_quo
   (ProofsPrice.bd_mul_qr_eq, bd_quo_qr_eq - Z.quot/Z.rem are by definition the projections of Z.quotrem). *)
Definition chop_round_qr (p d : Z) : Z :=
  let '(q, r) := Z.quotrem (Z.abs d) p in
  let v := if r =? 0 then q else
           match r ?= Z.quot p 2 with
           | Lt => q
           | Gt => q + 1
           | Eq => if Z.even q then q else q + 1
           end in
  if d <? 0 then - v else v.
Definition bd_mul_qr (a b : Z) : Z := chop_round_qr P36 (a * b).                       (* = bd_mul *)
Definition bd_quo_qr (a b : Z) : Z := chop_round_qr P36 (Z.quot (a * P72) b).          (* = bd_quo *)

(* ---- types/constants.go (derived values; the literals are in Gen/C14_consts.v) ---- *)
Definition MaxSpotPriceBigDec : Z := bd_from_dec MaxSpotPrice.
Definition MinSpotPriceBigDec : Z := bd_from_dec MinSpotPrice.
(* NewBigDecWithPrec(i, prec) = i * 10^(36-prec) *)
Definition MinSpotPriceV2 : Z := fst MinSpotPriceV2_lit * 10 ^ (36 - snd MinSpotPriceV2_lit).

(* ---- osmomath/sqrt.go ---- *)
(* r := Sqrt(v); if r*r < v then r+1 : the least r with r^2 >= v *)
Definition sqrt_ceil (v : Z) : Z := let r := Z.sqrt v in if r * r <? v then r + 1 else r.
Definition monotonic_sqrt (d18 : Z) : result Z :=          (* MonotonicSqrtMut on Dec *)
  if d18 <? 0 then Err EOther else Ok (sqrt_ceil (d18 * P18)).
Definition monotonic_sqrt_big_dec (d : Z) : result Z :=     (* MonotonicSqrtBigDecMut *)
  if d <? 0 then Err EOther else Ok (sqrt_ceil (d * P36)).

Definition MaxSqrtPrice : Z := match monotonic_sqrt MaxSpotPrice with Ok s => s | Err _ => 0 end. (* MustMonotonicSqrt *)
Definition MinSqrtPrice : Z := match monotonic_sqrt MinSpotPrice with Ok s => s | Err _ => 0 end.
Definition MaxSqrtPriceBigDec : Z := bd_from_dec MaxSqrtPrice.
Definition MinSqrtPriceBigDec : Z := bd_from_dec MinSqrtPrice.

(* ---- math/precompute.go ---- *)
(* 9 * NewDec(10).PowerMut(uint64(-ExponentAtPriceOne)).TruncateInt64() *)
Definition geo_dist : Z :=
  geo_dist_factor * d_truncate_int (d_power (d_from_int geo_dist_base) (- ExponentAtPriceOne)).

(* 10^e by square-and-multiply on the binary digits of e (value-equal to Z.pow 10 e, see ProofsPrice.pow10_spec;
   Z.pow iterates e multiplications, too slow for the correspondence run) *)
Fixpoint pow10_pos (p : positive) : Z :=
  match p with
  | xH => 10
  | xO q => let x := pow10_pos q in x * x
  | xI q => let x := pow10_pos q in 10 * (x * x)
  end.
Definition pow10 (e : Z) : Z := match e with Z0 => 1 | Zpos p => pow10_pos p | Zneg _ => 0 end.

(* BigDec.PowerIntegerMut (osmomath/decimal.go), as written: square-and-multiply with rounded MulMut *)
Fixpoint bd_power_loop (fuel : nat) (d tmp i : Z) : Z * Z :=
  match fuel with
  | O => (d, tmp)
  | S f => if 1 <? i then
             let tmp' := if Z.odd i then bd_mul_qr tmp d else tmp in
             bd_power_loop f (bd_mul_qr d d) tmp' (Z.quot i 2)
           else (d, tmp)
  end.
Definition bd_power_integer (d power : Z) : Z :=
  if power =? 0 then P36 else if power =? 1 then d else if power =? 2 then bd_mul_qr d d else
  let '(d', tmp) := bd_power_loop 64 d P36 power in bd_mul_qr d' tmp.

(* init(): bigPowersOfTen[i] = osmomathBigTenDec.PowerInteger(i) for i = 0..308.  The table below holds the exact
   powers 10^i; ProofsPrice.big_powers_as_written shows that PowerInteger, as written above, produces exactly these
   values for every exponent the tick code can reach (0..76) - the products of integer-valued BigDecs are exact. 
   
   bigNegPowersOfTen[i] = One.Quo(10^i) for i = 0..36 (as written).  powTenBigDec indexes them; an index outside the slice panics.
   (The tables are closed constants: the kernel VM evaluates them once per evaluation.) *)
Definition big_powers_of_ten : list Z := map (fun i => pow10 (Z.of_nat i) * P36) (seq 0 309).
Definition big_neg_powers_of_ten : list Z := map (fun i => bd_quo P36 (pow10 (Z.of_nat i) * P36)) (seq 0 37).
Definition pow_ten_big (e : Z) : option Z :=
  if 0 <=? e then nth_error big_powers_of_ten (Z.to_nat e)
  else nth_error big_neg_powers_of_ten (Z.to_nat (- e)).

Record exp_data := mkExp { initialPrice : Z; maxPrice : Z; additiveIncrementPerTick : Z; initialTick : Z }.

(* buildTickExpCache: the positive loop fills indices 0 .. cache_pos_end-1, the negative loop -1 .. cache_neg_end+1.
   The two functions below replay the loop conditions and return the index at which each loop stops. *)
Fixpoint cache_pos_loop (fuel : nat) (maxP idx : Z) : option Z :=
  match fuel with
  | O => None
  | S f => if maxP <? MaxSpotPriceBigDec then cache_pos_loop f (pow10 (idx + 1) * P36) (idx + 1) else Some idx
  end.
Fixpoint cache_neg_loop (fuel : nat) (minP idx : Z) : option Z :=
  match fuel with
  | O => None
  | S f => if minP >? fst cache_low_lit * 10 ^ (36 - snd cache_low_lit)
           then match pow_ten_big idx with Some p => cache_neg_loop f p (idx - 1) | None => None end
           else Some idx
  end.
Definition cache_pos_end : Z := match cache_pos_loop 400 P36 0 with Some i => i | None => 0 end.
Definition cache_neg_end : Z := match cache_neg_loop 400 P36 (-1) with Some i => i | None => -1 end.

Definition cache_has (idx : Z) : bool :=
  ((0 <=? idx) && (idx <? cache_pos_end)) || ((cache_neg_end <? idx) && (idx <? 0)).
Definition tick_exp_cache (idx : Z) : option exp_data :=
  if cache_has idx then
    match pow_ten_big idx, pow_ten_big (idx + 1), pow_ten_big (ExponentAtPriceOne + idx) with
    | Some ip, Some mp, Some inc => Some (mkExp ip mp inc (geo_dist * idx))
    | _, _, _ => None
    end
  else None.
(* one field of an entry (the decade searches read a single field per probe; evaluating the whole
   entry on every probe is what the Go code avoids by precomputing the table) *)
Definition cache_max_price (idx : Z) : option Z := if cache_has idx then pow_ten_big (idx + 1) else None.
Definition cache_initial_price (idx : Z) : option Z := if cache_has idx then pow_ten_big idx else None.

(* ---- math/tick.go ---- *)
Definition is_special_tick (t : Z) : bool := (t =? MinInitializedTickV2) || (t =? MinCurrentTickV2).

Definition tick_to_additive_geometric_indices (t : Z) : result (Z * Z) :=
  if t =? 0 then Ok (0, 0) else
  if is_special_tick t then Ok (0, special_geo_delta) else
  if t <? MinCurrentTickV2 then Err ETickMin else
  if t >? MaxTick then Err ETickMax else
  let g := Z.quot t geo_dist in
  Ok (t - g * geo_dist, g).

Definition tick_to_price (t : Z) : result Z :=
  if t =? 0 then Ok P36 else
  if is_special_tick t then Ok MinSpotPriceV2 else
  match tick_to_additive_geometric_indices t with
  | Err e => Err e
  | Ok (add, g) =>
    let e0 := ExponentAtPriceOne + g in
    let e := if t <? 0 then e0 - 1 else e0 in
    let u := if t <? 0 then unscaled_base * 10 else unscaled_base in
    let u := u + add in
    match pow_ten_big e with
    | None => Err EPanic
    | Some p =>
      let price := bd_mul_int p u in
      if negb (bd_fits price) then Err EPanic else
      if (price >? MaxSpotPriceBigDec) || (price <? MinSpotPriceV2) then Err EPriceBound else Ok price
    end
  end.

Definition tick_to_sqrt_price (t : Z) : result Z :=
  match tick_to_price t with
  | Err e => Err e
  | Ok p =>
    if t >=? MinInitializedTick then
      match monotonic_sqrt (bd_to_dec p) with
      | Err e => Err e
      | Ok s => Ok (bd_from_dec s)
      end
    else monotonic_sqrt_big_dec p
  end.

Definition ticks_to_sqrt_price (lo hi : Z) : result (Z * Z) :=
  if lo >=? hi then Err ELowerUpper else
  match tick_to_sqrt_price hi with
  | Err e => Err e
  | Ok su => match tick_to_sqrt_price lo with Err e => Err e | Ok sl => Ok (sl, su) end
  end.

(* the two decade searches of CalculatePriceToTick (they return the index of the entry found);
   a missing map entry is a nil dereference *)
Fixpoint search_up (fuel : nat) (price idx : Z) : result Z :=
  match cache_max_price idx with
  | None => Err EPanic
  | Some mp => if mp <? price
               then match fuel with O => Err EPanic | S f => search_up f price (idx + 1) end
               else Ok idx
  end.
Fixpoint search_down (fuel : nat) (price idx : Z) : result Z :=
  match cache_initial_price idx with
  | None => Err EPanic
  | Some ip => if ip >? price
               then match fuel with O => Err EPanic | S f => search_down f price (idx - 1) end
               else Ok idx
  end.

Definition calculate_price_to_tick (price : Z) : result Z :=
  if price <? 0 then Err ENegPrice else
  if (price >? MaxSpotPriceBigDec) || (price <? MinSpotPriceV2) then Err EPriceBound else
  if price =? P36 then Ok 0 else
  let price := if price >=? MinSpotPriceBigDec then bd_chop_precision 18 price else price in
  let geo := if price >? P36 then search_up 400 price 0 else search_down 400 price (-1) in
  match geo with
  | Err e => Err e
  | Ok idx =>
    match tick_exp_cache idx with
    | None => Err EPanic
    | Some g =>
      let price_in_this_exponent := bd_sub price (initialPrice g) in
      if additiveIncrementPerTick g =? 0 then Err EPanic else
      let ticks_filled := bd_quo_qr price_in_this_exponent (additiveIncrementPerTick g) in   (* QuoMut *)
      let ti := bd_truncate_int ticks_filled in
      if negb (is_int64 ti) then Err EPanic else Ok (ti + initialTick g)
    end
  end.

Definition calculate_sqrt_price_to_tick (s : Z) : result Z :=
  let price := bd_mul_qr s s in                                   (* sqrtPrice.Mul(sqrtPrice) *)
  if negb (bd_fits price) then Err EPanic else
  match calculate_price_to_tick price with
  | Err e => Err e
  | Ok tick0 =>
    if tick0 <? MinCurrentTick then Err ETickMin else
    let '(tick, oob) :=
      if tick0 <=? MinInitializedTickV2 then (MinInitializedTickV2 + 1, true)
      else if tick0 >=? MaxTick - 1 then (MaxTick - 2, true)
      else (tick0, false) in
    match tick_to_sqrt_price (tick + 1) with
    | Err _ => Err ESqrtCalc
    | Ok sp1 =>
      if s >=? sp1 then
        match tick_to_sqrt_price (tick + 2) with
        | Err _ => Err ESqrtCalc
        | Ok sp2 =>
          if (negb oob && (s >=? sp2)) || (oob && (s >? sp2)) then Err ESqrtPriceToTick else
          if s =? sp2 then Ok (tick + 2) else Ok (tick + 1)
        end
      else
        match tick_to_sqrt_price tick with
        | Err _ => Err ESqrtCalc
        | Ok sp0 =>
          if s >=? sp0 then Ok tick else
          match tick_to_sqrt_price (tick - 1) with
          | Err _ => Err ESqrtCalc
          | Ok spm => if s <? spm then Err ESqrtPriceToTick else Ok (tick - 1)
          end
        end
    end
  end.

(* RoundDownTickToSpacing(tickIndex, tickSpacing int64); `%` is Go's truncated remainder *)
Definition round_down_tick_to_spacing (t sp : Z) : result Z :=
  if sp =? 0 then Err EPanic else
  let m := Z.rem t sp in
  let m := if m <? 0 then m + sp else m in
  let t := if negb (m =? 0) then t - m else t in
  if (t >? MaxTick) || (t <? MinInitializedTickV2) then Err ETickBounds else Ok t.

(* SqrtPriceToTickRoundDownSpacing(sqrtPrice, tickSpacing uint64) *)
Definition sqrt_price_to_tick_round_down_spacing (s : Z) (spacing : Z) : result Z :=
  match calculate_sqrt_price_to_tick s with
  | Err e => Err e
  | Ok t => round_down_tick_to_spacing t (to_int64 spacing)
  end.

(* ---- x/concentrated-liquidity/tick.go ---- *)
Definition validate_tick_range_is_valid (spacing lo hi : Z) : result unit :=
  let sp := to_int64 spacing in
  if sp =? 0 then Err EPanic else
  if negb (Z.rem lo sp =? 0) || negb (Z.rem hi sp =? 0) then Err ETickSpacing else
  if (lo <? MinInitializedTick) || (lo >=? MaxTick) then Err EInvalidTick else
  if (hi >? MaxTick) || (hi <=? MinInitializedTick) then Err EInvalidTick else
  if lo >=? hi then Err ELowerUpper else Ok tt.

Definition round_tick_to_canonical_price_tick (lo hi sl su spacing : Z) : result (Z * Z) :=
  match sqrt_price_to_tick_round_down_spacing sl spacing with
  | Err e => Err e
  | Ok nlo =>
    match sqrt_price_to_tick_round_down_spacing su spacing with
    | Err e => Err e
    | Ok nhi =>
      if negb (lo =? nlo) || negb (hi =? nhi) then
        match validate_tick_range_is_valid spacing nlo nhi with
        | Err e => Err e
        | Ok _ => Ok (nlo, nhi)
        end
      else Ok (nlo, nhi)
    end
  end.
