(* C17 correspondence glue: run the model on a harness case and flatten its observables. *)
From Coq Require Import ZArith List Bool.
Import ListNotations.
From Osmo Require Import Base.Obs C17.Model.
Open Scope Z_scope.

Record case := mkCase {
  c_timers : list (Z * Z * Z);             (* id, start, duration *)
  c_nsubs : nat;
  c_blocks : list (Z * Z);                 (* time, height *)
  c_script : list (list (nat * outcome));  (* k-th entry: (subscriber, outcome) pairs of the k-th invocation; default OOk [] *)
  c_expect : list Z }.                     (* implementation's flattened observations *)

Fixpoint find_sub (l : list (nat * outcome)) (i : nat) : outcome :=
  match l with
  | [] => OOk []
  | (i', o) :: r => if Nat.eqb i i' then o else find_sub r i
  end.
Definition lookup (tbl : list (list (nat * outcome))) (k i : nat) : outcome :=
  match nth_error tbl k with Some l => find_sub l i | None => OOk [] end.
Definition script_of (tbl : list (list (nat * outcome))) : script := fun k i _ => lookup tbl k i.

Definition flat_info (e : einfo) : list Z := [e_cur e; e_cur_start e; b2z (e_started e); e_height e].
Definition flat_block (s : state) : list Z :=
  flat_map flat_info (infos s) ++ [Z.of_nat (h_n (hs s)); b2z (halted s)].
Definition kindz (k : sigkind) : Z := match k with AfterEnd => 0 | BeforeStart => 1 end.
Definition flat_call (c : nat * signal) : list Z :=
  [Z.of_nat (fst c); kindz (s_kind (snd c)); s_id (snd c); s_num (snd c)].
Definition flat_store (st : list (Z * Z)) : list Z :=
  Z.of_nat (length st) :: flat_map (fun kv => [fst kv; snd kv]) st.
Definition flat_final (s : state) : list Z :=
  flat_map flat_call (calls_in_order s) ++ [-1] ++ flat_map flat_store (h_stores (hs s)).

Fixpoint scan (sc : script) (n : nat) (s : state) (bs : list (Z * Z)) : list Z * state :=
  match bs with
  | [] => ([], s)
  | b :: r => let s1 := begin_block sc n s b in
              let '(l, s2) := scan sc n s1 r in (flat_block s1 ++ l, s2)
  end.

Definition model_obs (c : case) : list Z :=
  let sc := script_of (c_script c) in
  let '(l, s) := scan sc (c_nsubs c) (init_state (c_nsubs c) (c_timers c)) (c_blocks c) in
  l ++ [-2] ++ flat_final s.

Definition case_ok (c : case) : bool := zlist_eqb (model_obs c) (c_expect c).
