(* C17 proofs about the model in Model.v *)
From Coq Require Import ZArith List Bool Lia Arith.
Import ListNotations.
From Osmo Require Import C17.Model.
Open Scope Z_scope.

(** * Script classes *)
Definition is_oog (o : outcome) : bool := match o with OOog _ => true | _ => false end.
Definition no_oog (sc : script) : Prop := forall k i sg, is_oog (sc k i sg) = false.

(** * Grid invariant *)
Definition Grid (e : einfo) : Prop :=
  e_started e = true -> e_cur_start e = e_start e + (e_cur e - 1) * e_dur e.

(* what BeginBlocker must do to one timer, as a pure function of (time, info) *)
Definition spec_tick (t height : Z) (e : einfo) : einfo :=
  if t <? e_start e then e
  else if negb (e_started e) then mkE (e_id e) (e_start e) (e_dur e) 1 (e_start e) true height
  else if e_cur_start e + e_dur e <? t
       then mkE (e_id e) (e_start e) (e_dur e) (e_cur e + 1) (e_cur_start e + e_dur e) true height
       else e.

Lemma run_subs_no_oog sc sg : no_oog sc -> forall k i h, snd (run_subs sc sg i k h) = false.
Proof.
  intros Hn k; induction k as [|k IH]; intros i h; cbn [run_subs]; [reflexivity|].
  unfold call_one. specialize (Hn (h_n h) i sg).
  destruct (sc (h_n h) i sg) eqn:Ho; cbn in Hn; try discriminate; cbn; apply IH.
Qed.

Lemma run_sig_no_oog sc n sg h : no_oog sc -> snd (run_sig sc n sg h) = false.
Proof. intros; apply run_subs_no_oog; assumption. Qed.

Lemma tick_one_info_no_oog sc n t ht e h :
  no_oog sc ->
  fst (fst (tick_one sc n t ht e h)) = spec_tick t ht e /\ snd (tick_one sc n t ht e h) = false.
Proof.
  intros Hn. unfold tick_one, spec_tick.
  destruct (t <? e_start e); [split; reflexivity|].
  destruct (e_started e) eqn:Hs; cbn [negb orb].
  - rewrite orb_false_r.
    destruct (e_cur_start e + e_dur e <? t) eqn:Hlt; cbn [negb]; [|split; reflexivity].
    pose proof (run_sig_no_oog sc n (mkSig AfterEnd (e_id e) (e_cur e)) h Hn) as H1.
    destruct (run_sig sc n (mkSig AfterEnd (e_id e) (e_cur e)) h) as [h1 o1]. cbn in H1; subst o1.
    pose proof (run_sig_no_oog sc n (mkSig BeforeStart (e_id e) (e_cur e + 1)) h1 Hn) as H2.
    destruct (run_sig sc n (mkSig BeforeStart (e_id e) (e_cur e + 1)) h1) as [h2 o2]. cbn in H2; subst o2.
    split; reflexivity.
  - rewrite orb_true_r; cbn [negb].
    pose proof (run_sig_no_oog sc n (mkSig BeforeStart (e_id e) 1) h Hn) as H1.
    destruct (run_sig sc n (mkSig BeforeStart (e_id e) 1) h) as [h1 o1]. cbn in H1; subst o1.
    split; reflexivity.
Qed.

(* with or without out-of-gas, the stored info is either untouched or the specified tick *)
Lemma tick_one_info_any sc n t ht e h :
  let e' := fst (fst (tick_one sc n t ht e h)) in e' = e \/ e' = spec_tick t ht e.
Proof.
  unfold tick_one, spec_tick.
  destruct (t <? e_start e); [left; reflexivity|].
  destruct (e_started e) eqn:Hs; cbn [negb orb].
  - rewrite orb_false_r.
    destruct (e_cur_start e + e_dur e <? t) eqn:Hlt; cbn [negb]; [|left; reflexivity].
    destruct (run_sig sc n (mkSig AfterEnd (e_id e) (e_cur e)) h) as [h1 o1].
    destruct o1; [left; reflexivity|].
    destruct (run_sig sc n (mkSig BeforeStart (e_id e) (e_cur e + 1)) h1) as [h2 o2].
    right; reflexivity.
  - rewrite orb_true_r; cbn [negb].
    destruct (run_sig sc n (mkSig BeforeStart (e_id e) 1) h) as [h1 o1]. right; reflexivity.
Qed.

Lemma spec_tick_grid t ht e : Grid e -> Grid (spec_tick t ht e).
Proof.
  unfold Grid, spec_tick; intros G.
  destruct (t <? e_start e); [exact G|].
  destruct (e_started e) eqn:Hs; cbn [negb].
  - destruct (e_cur_start e + e_dur e <? t); [|intros _; apply G; reflexivity]. cbn. intros _. rewrite (G eq_refl). lia.
  - cbn. intros _. lia.
Qed.

Lemma tick_one_grid sc n t ht e h : Grid e -> Grid (fst (fst (tick_one sc n t ht e h))).
Proof.
  intros G. destruct (tick_one_info_any sc n t ht e h) as [H|H]; rewrite H;
    [exact G | apply spec_tick_grid; exact G].
Qed.

Lemma tick_all_grid sc n t ht : forall es h,
  Forall Grid es -> Forall Grid (fst (fst (tick_all sc n t ht es h))).
Proof.
  induction es as [|e r IH]; intros h F; cbn [tick_all]; [constructor|].
  inversion F as [|? ? Ge Fr]; subst.
  pose proof (tick_one_grid sc n t ht e h Ge) as G1.
  destruct (tick_one sc n t ht e h) as [[e' h1] oog]. cbn in G1.
  destruct oog; cbn; [constructor; assumption|].
  specialize (IH h1 Fr). destruct (tick_all sc n t ht r h1) as [[r' h2] o2]. cbn in *.
  constructor; assumption.
Qed.

Lemma begin_block_grid sc n s b : Forall Grid (infos s) -> Forall Grid (infos (begin_block sc n s b)).
Proof.
  intros F. unfold begin_block. destruct (halted s); [exact F|].
  pose proof (tick_all_grid sc n (fst b) (snd b) (infos s) (hs s) F) as G.
  destruct (tick_all sc n (fst b) (snd b) (infos s) (hs s)) as [[es h] o]. exact G.
Qed.

Lemma run_grid sc n bs : forall s, Forall Grid (infos s) -> Forall Grid (infos (run sc n s bs)).
Proof.
  unfold run. induction bs as [|b bs IH]; intros s F; cbn [fold_left]; [exact F|].
  apply IH, begin_block_grid, F.
Qed.

Lemma init_grid n timers : Forall Grid (infos (init_state n timers)).
Proof.
  unfold init_state; cbn. apply Forall_forall. intros e He. apply in_map_iff in He.
  destruct He as [x [<- _]]. unfold Grid, fresh; cbn. discriminate.
Qed.

(** * Tick exactly when specified (no out-of-gas) *)
Lemma tick_all_infos_no_oog sc n t ht : no_oog sc -> forall es h,
  fst (fst (tick_all sc n t ht es h)) = map (spec_tick t ht) es /\ snd (tick_all sc n t ht es h) = false.
Proof.
  intros Hn. induction es as [|e r IH]; intros h; cbn [tick_all map]; [split; reflexivity|].
  destruct (tick_one_info_no_oog sc n t ht e h Hn) as [H1 H2].
  destruct (tick_one sc n t ht e h) as [[e' h1] oog]. cbn in H1, H2. subst.
  destruct (IH h1) as [H3 H4]. destruct (tick_all sc n t ht r h1) as [[r' h2] o2]. cbn in *. subst.
  split; reflexivity.
Qed.

Definition spec_block (es : list einfo) (b : Z * Z) := map (spec_tick (fst b) (snd b)) es.

Lemma begin_block_no_oog sc n s b : no_oog sc -> halted s = false ->
  infos (begin_block sc n s b) = spec_block (infos s) b /\ halted (begin_block sc n s b) = false.
Proof.
  intros Hn Hh. unfold begin_block. rewrite Hh.
  destruct (tick_all_infos_no_oog sc n (fst b) (snd b) Hn (infos s) (hs s)) as [H1 H2].
  destruct (tick_all sc n (fst b) (snd b) (infos s) (hs s)) as [[es h] o]. cbn in *. subst.
  split; reflexivity.
Qed.

Lemma run_infos_no_oog sc n bs : no_oog sc -> forall s, halted s = false ->
  infos (run sc n s bs) = fold_left spec_block bs (infos s) /\ halted (run sc n s bs) = false.
Proof.
  intros Hn. unfold run. induction bs as [|b bs IH]; intros s Hh; cbn [fold_left]; [split; [reflexivity|exact Hh]|].
  destruct (begin_block_no_oog sc n s b Hn Hh) as [H1 H2].
  destruct (IH _ H2) as [H3 H4]. rewrite H3, H1. split; [reflexivity|exact H4].
Qed.

(* containment (i): the timers do not depend on what subscribers do *)
Lemma infos_script_independent sc sc' n n' bs s s' :
  no_oog sc -> no_oog sc' -> halted s = false -> halted s' = false -> infos s = infos s' ->
  infos (run sc n s bs) = infos (run sc' n' s' bs).
Proof.
  intros H1 H2 Hh Hh' Hi.
  rewrite (proj1 (run_infos_no_oog sc n bs H1 s Hh)), (proj1 (run_infos_no_oog sc' n' bs H2 s' Hh')), Hi.
  reflexivity.
Qed.

(* per-timer reading of spec_tick *)
Lemma spec_tick_cases t ht e :
  let e' := spec_tick t ht e in
  e_id e' = e_id e /\ e_start e' = e_start e /\ e_dur e' = e_dur e /\
  ( (t < e_start e /\ e' = e) \/
    (e_start e <= t /\ e_started e = false /\ e_started e' = true /\ e_cur e' = 1 /\ e_cur_start e' = e_start e) \/
    (e_start e <= t /\ e_started e = true /\ e_cur_start e + e_dur e < t /\ e_started e' = true /\
       e_cur e' = e_cur e + 1 /\ e_cur_start e' = e_cur_start e + e_dur e) \/
    (e_start e <= t /\ e_started e = true /\ t <= e_cur_start e + e_dur e /\ e' = e) ).
Proof.
  unfold spec_tick. destruct (Z.ltb_spec t (e_start e)).
  - repeat split; left; split; [lia|reflexivity].
  - destruct (e_started e) eqn:Hs; cbn [negb].
    + destruct (Z.ltb_spec (e_cur_start e + e_dur e) t); cbn.
      * repeat split. right; right; left. repeat split; try lia.
      * repeat split. right; right; right. repeat split; try lia.
    + cbn. repeat split. right; left. repeat split; lia.
Qed.

(** * Hook call log *)
Definition seq_calls (sg : signal) (i k : nat) : list (nat * signal) :=
  map (fun j => (j, sg)) (seq i k).

Lemma run_subs_calls sc sg : no_oog sc -> forall k i h,
  let h' := fst (run_subs sc sg i k h) in
  h_calls h' = rev (seq_calls sg i k) ++ h_calls h /\ h_n h' = (h_n h + k)%nat.
Proof.
  intros Hn k; induction k as [|k IH]; intros i h; cbn [run_subs seq_calls seq map rev].
  - cbn. split; [reflexivity|lia].
  - unfold call_one. pose proof (Hn (h_n h) i sg) as Hq.
    destruct (sc (h_n h) i sg) eqn:Ho; cbn in Hq; try discriminate; cbn [fst snd];
    match goal with |- context [run_subs sc sg (S i) k ?hh] => destruct (IH (S i) hh) as [A B] end;
    cbn [h_calls h_n] in *; rewrite A, B; unfold seq_calls; rewrite <- app_assoc; cbn; split; try reflexivity; lia.
Qed.

(* the sequence of signals every subscriber must see for a timer whose current epoch is n *)
Fixpoint expected_from (k : nat) (from : Z) : list (sigkind * Z) :=
  match k with
  | O => []
  | S k' => (AfterEnd, from) :: (BeforeStart, from + 1) :: expected_from k' (from + 1)
  end.
Definition expected (started : bool) (cur : Z) : list (sigkind * Z) :=
  if started then (BeforeStart, 1) :: expected_from (Z.to_nat (cur - 1)) 1 else [].

Lemma expected_from_snoc k : forall from,
  expected_from (S k) from = expected_from k from ++ [(AfterEnd, from + Z.of_nat k); (BeforeStart, from + Z.of_nat k + 1)].
Proof.
  induction k as [|k IH]; intros from.
  - cbn. replace (from + 0) with from by lia. reflexivity.
  - change (expected_from (S (S k)) from) with ((AfterEnd, from) :: (BeforeStart, from+1) :: expected_from (S k) (from+1)).
    rewrite (IH (from + 1)). cbn [expected_from app].
    replace (from + 1 + Z.of_nat k) with (from + Z.of_nat (S k)) by lia. reflexivity.
Qed.

Lemma signals_of_app id l1 l2 sub : signals_of id (l1 ++ l2) sub = signals_of id l1 sub ++ signals_of id l2 sub.
Proof. unfold signals_of. rewrite filter_app, map_app. reflexivity. Qed.

Ltac nat_bool :=
  repeat match goal with
  | |- context [Nat.leb ?a ?b] => destruct (Nat.leb_spec a b)
  | |- context [Nat.ltb ?a ?b] => destruct (Nat.ltb_spec a b)
  end; cbn [andb app]; try reflexivity; try lia.

Lemma signals_of_seq_calls id sg sub n i :
  signals_of id (seq_calls sg i n) sub =
  if (s_id sg =? id) && (Nat.leb i sub) && (Nat.ltb sub (i + n)) then [(s_kind sg, s_num sg)] else [].
Proof.
  revert i. induction n as [|n IH]; intros i.
  - unfold seq_calls, signals_of. cbn [seq map filter].
    destruct (s_id sg =? id); cbn [andb]; [|reflexivity]. nat_bool.
  - unfold seq_calls, signals_of in *. cbn [seq map filter fst snd].
    destruct (Nat.eqb_spec i sub) as [->|Hne]; cbn [andb].
    + destruct (s_id sg =? id) eqn:Hid; cbn [map andb].
      * rewrite IH. cbn [andb snd]. nat_bool.
      * rewrite IH. reflexivity.
    + rewrite IH. destruct (s_id sg =? id); cbn [andb]; [|reflexivity]. nat_bool.
Qed.

(* invariant tying the call log to the timers *)
Definition LogOK (n : nat) (es : list einfo) (h : hstate) : Prop :=
  forall sub, (sub < n)%nat -> forall e, In e es ->
    signals_of (e_id e) (rev (h_calls h)) sub = expected (e_started e) (e_cur e).
Definition LogOther (n : nat) (ids : list Z) (h : hstate) : Prop :=
  forall sub id, ~ In id ids -> signals_of id (rev (h_calls h)) sub = [].

Lemma run_sig_log sc n sg h : no_oog sc -> forall id sub, (sub < n)%nat ->
  signals_of id (rev (h_calls (fst (run_sig sc n sg h)))) sub =
  signals_of id (rev (h_calls h)) sub ++ (if s_id sg =? id then [(s_kind sg, s_num sg)] else []).
Proof.
  intros Hn id sub Hs. unfold run_sig.
  destruct (run_subs_calls sc sg Hn n 0%nat h) as [A _]. rewrite A.
  rewrite rev_app_distr, rev_involutive, signals_of_app, signals_of_seq_calls.
  f_equal. destruct (s_id sg =? id); cbn [andb]; [|reflexivity]. nat_bool.
Qed.

Definition Pos (e : einfo) : Prop := e_started e = true -> 1 <= e_cur e.
Definition SigInv (n : nat) (h : hstate) (e : einfo) : Prop :=
  forall sub, (sub < n)%nat -> signals_of (e_id e) (rev (h_calls h)) sub = expected (e_started e) (e_cur e).

Lemma expected_succ cur : 1 <= cur ->
  expected true (cur + 1) = expected true cur ++ [(AfterEnd, cur); (BeforeStart, cur + 1)].
Proof.
  intros H. unfold expected. replace (Z.to_nat (cur + 1 - 1)) with (S (Z.to_nat (cur - 1))) by lia.
  rewrite expected_from_snoc. cbn [app]. rewrite Z2Nat.id by lia.
  replace (1 + (cur - 1)) with cur by lia. reflexivity.
Qed.

Lemma tick_one_log sc n t ht e h : no_oog sc ->
  let r := tick_one sc n t ht e h in
  (forall id sub, (sub < n)%nat -> id <> e_id e ->
     signals_of id (rev (h_calls (snd (fst r)))) sub = signals_of id (rev (h_calls h)) sub) /\
  (Pos e -> SigInv n h e -> Pos (fst (fst r)) /\ SigInv n (snd (fst r)) (fst (fst r))) /\
  e_id (fst (fst r)) = e_id e.
Proof.
  intros Hn. unfold tick_one.
  destruct (t <? e_start e); [cbn; repeat split; tauto|].
  destruct (e_started e) eqn:Hs; cbn [negb orb].
  - rewrite orb_false_r.
    destruct (e_cur_start e + e_dur e <? t) eqn:Hlt; cbn [negb]; [|cbn; repeat split; tauto].
    pose proof (run_sig_no_oog sc n (mkSig AfterEnd (e_id e) (e_cur e)) h Hn) as H1.
    pose proof (run_sig_log sc n (mkSig AfterEnd (e_id e) (e_cur e)) h Hn) as L1.
    destruct (run_sig sc n (mkSig AfterEnd (e_id e) (e_cur e)) h) as [h1 o1]. cbn in H1; subst o1.
    pose proof (run_sig_no_oog sc n (mkSig BeforeStart (e_id e) (e_cur e + 1)) h1 Hn) as H2.
    pose proof (run_sig_log sc n (mkSig BeforeStart (e_id e) (e_cur e + 1)) h1 Hn) as L2.
    destruct (run_sig sc n (mkSig BeforeStart (e_id e) (e_cur e + 1)) h1) as [h2 o2]. cbn in H2; subst o2.
    cbn [fst snd] in *. split; [|split; [|reflexivity]].
    + intros id sub Hsub Hid. rewrite L2, L1 by assumption. cbn [s_id].
      destruct (Z.eqb_spec (e_id e) id); [congruence|]. rewrite !app_nil_r. reflexivity.
    + intros P S. unfold Pos, SigInv in *. cbn [e_started e_cur e_id]. rewrite Hs in *.
      specialize (P eq_refl). split; [intros _; lia|].
      intros sub Hsub. rewrite L2, L1, S by assumption. cbn [s_id s_kind s_num]. rewrite Z.eqb_refl.
      rewrite expected_succ by lia. rewrite <- app_assoc. reflexivity.
  - rewrite orb_true_r; cbn [negb].
    pose proof (run_sig_no_oog sc n (mkSig BeforeStart (e_id e) 1) h Hn) as H1.
    pose proof (run_sig_log sc n (mkSig BeforeStart (e_id e) 1) h Hn) as L1.
    destruct (run_sig sc n (mkSig BeforeStart (e_id e) 1) h) as [h1 o1]. cbn in H1; subst o1.
    cbn [fst snd] in *. split; [|split; [|reflexivity]].
    + intros id sub Hsub Hid. rewrite L1 by assumption. cbn [s_id].
      destruct (Z.eqb_spec (e_id e) id); [congruence|]. rewrite app_nil_r. reflexivity.
    + intros P S. unfold Pos, SigInv in *. cbn [e_started e_cur e_id]. rewrite Hs in *.
      split; [intros _; lia|].
      intros sub Hsub. rewrite L1, S by assumption. cbn [s_id s_kind s_num]. rewrite Z.eqb_refl. reflexivity.
Qed.

Lemma tick_all_log sc n t ht : no_oog sc -> forall es h,
  NoDup (map e_id es) -> Forall Pos es -> Forall (SigInv n h) es ->
  let r := tick_all sc n t ht es h in
  Forall Pos (fst (fst r)) /\ Forall (SigInv n (snd (fst r))) (fst (fst r)) /\
  map e_id (fst (fst r)) = map e_id es /\
  (forall id sub, (sub < n)%nat -> ~ In id (map e_id es) ->
     signals_of id (rev (h_calls (snd (fst r)))) sub = signals_of id (rev (h_calls h)) sub).
Proof.
  intros Hn. induction es as [|e r IH]; intros h ND FP FS; cbn [tick_all].
  - cbn. repeat split; auto.
  - inversion ND as [|? ? Hnotin ND']; subst. inversion FP as [|? ? Pe FP']; subst.
    inversion FS as [|? ? Se FS']; subst.
    destruct (tick_one_log sc n t ht e h Hn) as [O1 [I1 Id1]].
    destruct (tick_one_info_no_oog sc n t ht e h Hn) as [_ Hoog].
    destruct (tick_one sc n t ht e h) as [[e' h1] oog]. cbn [fst snd] in *. subst oog.
    destruct (I1 Pe Se) as [Pe' Se'].
    assert (FS1 : Forall (SigInv n h1) r).
    { apply Forall_forall. intros x Hx. rewrite Forall_forall in FS'. intros sub Hsub.
      rewrite O1; [apply FS'; assumption|assumption|].
      intros Heq. apply Hnotin. rewrite <- Heq. apply in_map. exact Hx. }
    specialize (IH h1 ND' FP' FS1).
    destruct (tick_all sc n t ht r h1) as [[r' h2] o2]. cbn [fst snd] in *.
    destruct IH as [A [B [C D]]].
    split; [constructor; assumption|]. split; [|split].
    + constructor; [|assumption]. intros sub Hsub. rewrite D; [apply Se'; assumption|assumption|].
      rewrite Id1. exact Hnotin.
    + cbn [map]. rewrite C, Id1. reflexivity.
    + intros id sub Hsub Hni. cbn [map] in Hni. rewrite D; [apply O1|assumption|]; try assumption.
      * intros ->. apply Hni. left; reflexivity.
      * intros Hin. apply Hni. right; exact Hin.
Qed.

Definition StateInv (n : nat) (s : state) : Prop :=
  NoDup (map e_id (infos s)) /\ Forall Pos (infos s) /\ Forall (SigInv n (hs s)) (infos s).

Lemma begin_block_log sc n s b : no_oog sc -> StateInv n s -> StateInv n (begin_block sc n s b).
Proof.
  intros Hn [ND [FP FS]]. unfold begin_block. destruct (halted s); [repeat split; assumption|].
  pose proof (tick_all_log sc n (fst b) (snd b) Hn (infos s) (hs s) ND FP FS) as H.
  destruct (tick_all sc n (fst b) (snd b) (infos s) (hs s)) as [[es h] o]. cbn [fst snd] in H.
  destruct H as [A [B [C _]]]. unfold StateInv; cbn [infos hs]. rewrite C. repeat split; assumption.
Qed.

Lemma run_log sc n bs : no_oog sc -> forall s, StateInv n s -> StateInv n (run sc n s bs).
Proof.
  intros Hn. unfold run. induction bs as [|b bs IH]; intros s I; cbn [fold_left]; [exact I|].
  apply IH, begin_block_log; assumption.
Qed.

Lemma init_inv n timers : NoDup (map (fun x => fst (fst x)) timers) -> StateInv n (init_state n timers).
Proof.
  intros ND. unfold StateInv, init_state; cbn [infos hs]. rewrite map_map. cbn [fresh e_id].
  split; [exact ND|]. split; apply Forall_forall; intros e He; apply in_map_iff in He;
    destruct He as [x [<- _]].
  - unfold Pos, fresh; cbn. discriminate.
  - unfold SigInv, fresh; cbn. reflexivity.
Qed.

(* signal order, exactly once, every subscriber, whatever the other subscribers do *)
Lemma signal_order sc n timers bs : no_oog sc -> NoDup (map (fun x => fst (fst x)) timers) ->
  let s := run sc n (init_state n timers) bs in
  forall e, In e (infos s) -> forall sub, (sub < n)%nat ->
    signals_of (e_id e) (calls_in_order s) sub = expected (e_started e) (e_cur e).
Proof.
  intros Hn ND s e He sub Hsub.
  destruct (run_log sc n bs Hn _ (init_inv n timers ND)) as [_ [_ FS]].
  rewrite Forall_forall in FS. exact (FS e He sub Hsub).
Qed.

(** * Subscriber stores hold exactly their own successful writes *)
Definition ok_step (sc : script) (i : nat) (acc : nat * list (Z * Z)) (c : nat * signal) : nat * list (Z * Z) :=
  (S (fst acc),
   if Nat.eqb (fst c) i then
     match sc (fst acc) (fst c) (snd c) with OOk ws => apply_writes ws (snd acc) | _ => snd acc end
   else snd acc).
Definition ok_store (sc : script) (i : nat) (l : list (nat * signal)) : list (Z * Z) :=
  snd (fold_left (ok_step sc i) l (0%nat, [])).

Lemma ok_fold_len sc i l : forall acc, fst (fold_left (ok_step sc i) l acc) = (fst acc + length l)%nat.
Proof.
  induction l as [|c l IH]; intros acc; cbn [fold_left length]; [lia|]. rewrite IH. cbn. lia.
Qed.

Lemma ok_store_snoc sc i l c :
  ok_store sc i (l ++ [c]) =
  if Nat.eqb (fst c) i then
    match sc (length l) (fst c) (snd c) with OOk ws => apply_writes ws (ok_store sc i l) | _ => ok_store sc i l end
  else ok_store sc i l.
Proof.
  unfold ok_store. rewrite fold_left_app. cbn [fold_left]. unfold ok_step at 1. cbn [snd].
  rewrite ok_fold_len. cbn [fst]. reflexivity.
Qed.

Lemma nth_upd_nth {A} (f : A -> A) d : forall l i j, (i < length l)%nat ->
  nth j (upd_nth i f l) d = if Nat.eqb j i then f (nth j l d) else nth j l d.
Proof.
  induction l as [|x r IH]; intros i j Hi; cbn in Hi; [lia|].
  destruct i as [|i]; destruct j as [|j]; cbn; try reflexivity. apply IH. lia.
Qed.
Lemma length_upd_nth {A} (f : A -> A) : forall l i, length (upd_nth i f l) = length l.
Proof. induction l as [|x r IH]; intros [|i]; cbn; auto. Qed.

Definition HInv (sc : script) (n : nat) (h : hstate) : Prop :=
  h_n h = length (h_calls h) /\ length (h_stores h) = n /\
  forall j, (j < n)%nat -> nth j (h_stores h) [] = ok_store sc j (rev (h_calls h)).

Lemma call_one_hinv sc n sg i h : (i < n)%nat -> HInv sc n h -> HInv sc n (fst (call_one sc sg i h)).
Proof.
  intros Hi [A [B C]]. unfold call_one.
  assert (K : forall st', length st' = n ->
     (forall j, (j < n)%nat -> nth j st' [] =
        if Nat.eqb i j then match sc (h_n h) i sg with OOk ws => apply_writes ws (ok_store sc j (rev (h_calls h))) | _ => ok_store sc j (rev (h_calls h)) end
        else ok_store sc j (rev (h_calls h))) ->
     HInv sc n (mkH ((i, sg) :: h_calls h) st' (S (h_n h)))).
  { intros st' L Hst. unfold HInv; cbn [h_n h_calls h_stores]. split; [cbn; lia|]. split; [exact L|].
    intros j Hj. cbn [rev]. rewrite ok_store_snoc. cbn [fst snd]. rewrite rev_length, <- A. apply Hst, Hj. }
  destruct (sc (h_n h) i sg) eqn:Ho; cbn [fst].
  - apply K; [rewrite length_upd_nth; exact B|]. intros j Hj.
    rewrite nth_upd_nth by lia. rewrite Nat.eqb_sym. destruct (Nat.eqb_spec i j); [subst; rewrite C by assumption|apply C, Hj]; reflexivity.
  - apply K; [exact B|]. intros j Hj. rewrite C by assumption. destruct (Nat.eqb i j); reflexivity.
  - apply K; [exact B|]. intros j Hj. rewrite C by assumption. destruct (Nat.eqb i j); reflexivity.
  - apply K; [exact B|]. intros j Hj. rewrite C by assumption. destruct (Nat.eqb i j); reflexivity.
Qed.

Lemma run_subs_hinv sc n sg : forall k i h, (i + k <= n)%nat -> HInv sc n h -> HInv sc n (fst (run_subs sc sg i k h)).
Proof.
  induction k as [|k IH]; intros i h Hik H; cbn [run_subs]; [exact H|].
  pose proof (call_one_hinv sc n sg i h ltac:(lia) H) as H1.
  destruct (call_one sc sg i h) as [h1 o]. cbn [fst] in H1. destruct o; [exact H1|]. apply IH; [lia|exact H1].
Qed.
Lemma run_sig_hinv sc n sg h : HInv sc n h -> HInv sc n (fst (run_sig sc n sg h)).
Proof. apply run_subs_hinv. lia. Qed.

Lemma tick_one_hinv sc n t ht e h : HInv sc n h -> HInv sc n (snd (fst (tick_one sc n t ht e h))).
Proof.
  intros H. unfold tick_one.
  destruct (t <? e_start e); [exact H|].
  destruct (negb _); [exact H|].
  destruct (negb (e_started e)).
  - pose proof (run_sig_hinv sc n (mkSig BeforeStart (e_id e) 1) h H) as H1.
    destruct (run_sig sc n (mkSig BeforeStart (e_id e) 1) h). exact H1.
  - pose proof (run_sig_hinv sc n (mkSig AfterEnd (e_id e) (e_cur e)) h H) as H1.
    destruct (run_sig sc n (mkSig AfterEnd (e_id e) (e_cur e)) h) as [h1 o1]. cbn [fst] in H1.
    destruct o1; [exact H1|].
    pose proof (run_sig_hinv sc n (mkSig BeforeStart (e_id e) (e_cur e + 1)) h1 H1) as H2.
    destruct (run_sig sc n (mkSig BeforeStart (e_id e) (e_cur e + 1)) h1). exact H2.
Qed.

Lemma tick_all_hinv sc n t ht : forall es h, HInv sc n h -> HInv sc n (snd (fst (tick_all sc n t ht es h))).
Proof.
  induction es as [|e r IH]; intros h H; cbn [tick_all]; [exact H|].
  pose proof (tick_one_hinv sc n t ht e h H) as H1.
  destruct (tick_one sc n t ht e h) as [[e' h1] o]. cbn [fst snd] in H1. destruct o; [exact H1|].
  specialize (IH h1 H1). destruct (tick_all sc n t ht r h1) as [[r' h2] o2]. exact IH.
Qed.

Lemma run_hinv sc n bs : forall s, HInv sc n (hs s) -> HInv sc n (hs (run sc n s bs)).
Proof.
  unfold run. induction bs as [|b bs IH]; intros s H; cbn [fold_left]; [exact H|]. apply IH.
  unfold begin_block. destruct (halted s); [exact H|].
  pose proof (tick_all_hinv sc n (fst b) (snd b) (infos s) (hs s) H) as H1.
  destruct (tick_all sc n (fst b) (snd b) (infos s) (hs s)) as [[es h] o]. exact H1.
Qed.

Lemma init_hinv sc n : HInv sc n (init_h n).
Proof.
  unfold HInv, init_h; cbn. split; [reflexivity|]. split; [apply repeat_length|].
  intros j Hj. unfold ok_store; cbn. apply nth_repeat.
Qed.

(* containment (ii): whatever the script (errors, panics, even out-of-gas), each subscriber's store is
   the fold of exactly its own successful invocations' writes *)
Lemma stores_contained sc n timers bs j : (j < n)%nat ->
  let s := run sc n (init_state n timers) bs in
  nth j (h_stores (hs s)) [] = ok_store sc j (calls_in_order s).
Proof.
  intros Hj s. destruct (run_hinv sc n bs (init_state n timers) (init_hinv sc n)) as [_ [_ C]].
  apply C, Hj.
Qed.

(** * Out-of-gas propagates and halts *)
Definition head_oog (sc : script) (h : hstate) : bool :=
  match h_calls h with [] => false | (i, sg) :: rest => is_oog (sc (length rest) i sg) end.

Lemma call_one_oog sc sg i h : h_n h = length (h_calls h) ->
  let r := call_one sc sg i h in
  head_oog sc (fst r) = snd r /\ snd r = is_oog (sc (h_n h) i sg) /\ h_n (fst r) = length (h_calls (fst r)).
Proof.
  intros A. unfold call_one, head_oog. destruct (sc (h_n h) i sg) eqn:Ho; cbn [fst snd h_calls h_n];
    rewrite <- A, Ho; cbn; repeat split; lia.
Qed.

Lemma run_subs_oog sc sg : forall k i h, h_n h = length (h_calls h) -> head_oog sc h = false ->
  let r := run_subs sc sg i k h in head_oog sc (fst r) = snd r /\ h_n (fst r) = length (h_calls (fst r)).
Proof.
  induction k as [|k IH]; intros i h A B; cbn [run_subs]; [cbn; split; assumption|].
  destruct (call_one_oog sc sg i h A) as [C [_ D]].
  destruct (call_one sc sg i h) as [h1 o]. cbn [fst snd] in *. destruct o; [cbn; split; assumption|].
  apply IH; assumption.
Qed.

Lemma tick_one_oog sc n t ht e h : h_n h = length (h_calls h) -> head_oog sc h = false ->
  let r := tick_one sc n t ht e h in
  head_oog sc (snd (fst r)) = snd r /\ h_n (snd (fst r)) = length (h_calls (snd (fst r))).
Proof.
  intros A B. unfold tick_one.
  destruct (t <? e_start e); [cbn; split; assumption|].
  destruct (negb _); [cbn; split; assumption|].
  destruct (negb (e_started e)).
  - pose proof (run_subs_oog sc (mkSig BeforeStart (e_id e) 1) n 0%nat h A B) as H1. unfold run_sig.
    destruct (run_subs sc (mkSig BeforeStart (e_id e) 1) 0 n h). exact H1.
  - pose proof (run_subs_oog sc (mkSig AfterEnd (e_id e) (e_cur e)) n 0%nat h A B) as H1. unfold run_sig.
    destruct (run_subs sc (mkSig AfterEnd (e_id e) (e_cur e)) 0 n h) as [h1 o1]. cbn [fst snd] in H1.
    destruct H1 as [H1 H1']. destruct o1; [cbn; split; assumption|].
    pose proof (run_subs_oog sc (mkSig BeforeStart (e_id e) (e_cur e + 1)) n 0%nat h1 H1' H1) as H2.
    destruct (run_subs sc (mkSig BeforeStart (e_id e) (e_cur e + 1)) 0 n h1). exact H2.
Qed.

Lemma tick_all_oog sc n t ht : forall es h, h_n h = length (h_calls h) -> head_oog sc h = false ->
  let r := tick_all sc n t ht es h in
  head_oog sc (snd (fst r)) = snd r /\ h_n (snd (fst r)) = length (h_calls (snd (fst r))).
Proof.
  induction es as [|e r IH]; intros h A B; cbn [tick_all]; [cbn; split; assumption|].
  pose proof (tick_one_oog sc n t ht e h A B) as H1.
  destruct (tick_one sc n t ht e h) as [[e' h1] o]. cbn [fst snd] in H1. destruct H1 as [H1 H1'].
  destruct o; [cbn; split; assumption|].
  specialize (IH h1 H1' H1). destruct (tick_all sc n t ht r h1) as [[r' h2] o2]. exact IH.
Qed.

Definition OogInv (sc : script) (s : state) : Prop :=
  h_n (hs s) = length (h_calls (hs s)) /\ head_oog sc (hs s) = halted s.

Lemma run_ooginv sc n bs : forall s, OogInv sc s -> OogInv sc (run sc n s bs).
Proof.
  unfold run. induction bs as [|b bs IH]; intros s I; cbn [fold_left]; [exact I|]. apply IH.
  destruct I as [A B]. unfold begin_block. destruct (halted s) eqn:Hh; [split; [exact A|rewrite Hh; exact B]|].
  pose proof (tick_all_oog sc n (fst b) (snd b) (infos s) (hs s) A B) as H1.
  destruct (tick_all sc n (fst b) (snd b) (infos s) (hs s)) as [[es h] o]. cbn [fst snd] in H1.
  destruct H1 as [H1 H1']. split; cbn; assumption.
Qed.

(* the chain is halted exactly when the most recent hook invocation ran out of gas *)
Lemma oog_propagates sc n timers bs :
  let s := run sc n (init_state n timers) bs in halted s = head_oog sc (hs s).
Proof.
  intros s. destruct (run_ooginv sc n bs (init_state n timers)) as [_ B]; [split; reflexivity|].
  symmetry; exact B.
Qed.

Lemma halted_stuck sc n bs : forall s, halted s = true -> run sc n s bs = s.
Proof.
  unfold run. induction bs as [|b bs IH]; intros s H; cbn [fold_left]; [reflexivity|].
  unfold begin_block at 2. rewrite H. apply IH, H.
Qed.
