(* C17 model: x/epochs BeginBlocker + MultiEpochHooks + osmoutils.ApplyFuncIfNoError.
   Mirrors /repo/x/epochs/keeper/abci.go, x/epochs/types/hooks.go, osmoutils/cache_ctx.go.
   No proofs in this file. *)
From Coq Require Import ZArith List Bool.
Import ListNotations.
Open Scope Z_scope.

(* times and durations: integer nanoseconds; identifiers: integers in store (byte) order *)
Record einfo := mkE {
  e_id : Z; e_start : Z; e_dur : Z; e_cur : Z; e_cur_start : Z;
  e_started : bool; e_height : Z }.

Inductive sigkind := AfterEnd | BeforeStart.
Record signal := mkSig { s_kind : sigkind; s_id : Z; s_num : Z }.

Definition writes := list (Z * Z).
Inductive outcome :=
| OOk (ws : writes)      (* returns nil: writes committed *)
| OErr (ws : writes)     (* returns an error after partial writes *)
| OPanic (ws : writes)   (* panics (not out-of-gas) after partial writes *)
| OOog (ws : writes).    (* panics with ErrorOutOfGas after partial writes *)

(* the adversary: outcome of the [call]-th hook invocation overall, for subscriber [sub] *)
Definition script := nat -> nat -> signal -> outcome.

(* a subscriber's private store: sorted association list *)
Fixpoint kv_set (k v : Z) (l : list (Z * Z)) : list (Z * Z) :=
  match l with
  | [] => [(k, v)]
  | (k', v') :: r =>
      if k <? k' then (k, v) :: l
      else if k =? k' then (k, v) :: r
      else (k', v') :: kv_set k v r
  end.
Definition apply_writes (ws : writes) (st : list (Z * Z)) : list (Z * Z) :=
  fold_left (fun s kv => kv_set (fst kv) (snd kv) s) ws st.

Record hstate := mkH {
  h_calls : list (nat * signal);        (* every hook invocation, newest first *)
  h_stores : list (list (Z * Z));       (* one private store per subscriber *)
  h_n : nat }.                          (* number of invocations so far *)

Fixpoint upd_nth {A} (n : nat) (f : A -> A) (l : list A) : list A :=
  match l, n with
  | [], _ => []
  | x :: r, O => f x :: r
  | x :: r, S n' => x :: upd_nth n' f r
  end.

(* panicCatchingEpochHook / ApplyFuncIfNoError for subscriber [i]: returns new hook state and
   whether an out-of-gas panic escapes *)
Definition call_one (sc : script) (sg : signal) (i : nat) (h : hstate) : hstate * bool :=
  let o := sc (h_n h) i sg in
  let h' := mkH ((i, sg) :: h_calls h) (h_stores h) (S (h_n h)) in
  match o with
  | OOk ws => (mkH (h_calls h') (upd_nth i (apply_writes ws) (h_stores h)) (h_n h'), false)
  | OErr _ => (h', false)
  | OPanic _ => (h', false)
  | OOog _ => (h', true)
  end.

(* MultiEpochHooks.{AfterEpochEnd,BeforeEpochStart}: subscribers i, i+1, ..., in array order *)
Fixpoint run_subs (sc : script) (sg : signal) (i : nat) (k : nat) (h : hstate) : hstate * bool :=
  match k with
  | O => (h, false)
  | S k' =>
      let '(h1, oog) := call_one sc sg i h in
      if oog then (h1, true) else run_subs sc sg (S i) k' h1
  end.
Definition run_sig (sc : script) (nsubs : nat) (sg : signal) (h : hstate) : hstate * bool :=
  run_subs sc sg 0%nat nsubs h.

(* one iteration of the IterateEpochInfo callback in BeginBlocker.
   Result: stored epoch info after the iteration, hook state, out-of-gas flag *)
Definition tick_one (sc : script) (nsubs : nat) (t height : Z) (e : einfo) (h : hstate)
  : einfo * hstate * bool :=
  if t <? e_start e then (e, h, false) else
  let initial := negb (e_started e) in
  let endt := e_cur_start e + e_dur e in
  if negb ((endt <? t) || initial) then (e, h, false) else
  if initial then
    let e' := mkE (e_id e) (e_start e) (e_dur e) 1 (e_start e) true height in
    let '(h1, oog) := run_sig sc nsubs (mkSig BeforeStart (e_id e) 1) h in
    (e', h1, oog)                          (* setEpochInfo precedes BeforeEpochStart *)
  else
    let '(h1, oog1) := run_sig sc nsubs (mkSig AfterEnd (e_id e) (e_cur e)) h in
    if oog1 then (e, h1, true) else        (* panic before setEpochInfo: stored info unchanged *)
    let e' := mkE (e_id e) (e_start e) (e_dur e) (e_cur e + 1) (e_cur_start e + e_dur e) true height in
    let '(h2, oog2) := run_sig sc nsubs (mkSig BeforeStart (e_id e) (e_cur e + 1)) h1 in
    (e', h2, oog2).

Fixpoint tick_all (sc : script) (nsubs : nat) (t height : Z) (es : list einfo) (h : hstate)
  : list einfo * hstate * bool :=
  match es with
  | [] => ([], h, false)
  | e :: r =>
      let '(e', h1, oog) := tick_one sc nsubs t height e h in
      if oog then (e' :: r, h1, true) else
      let '(r', h2, oog2) := tick_all sc nsubs t height r h1 in
      (e' :: r', h2, oog2)
  end.

Record state := mkS { infos : list einfo; hs : hstate; halted : bool }.

(* a block = (time, height). After an escaped out-of-gas panic the chain is halted. *)
Definition begin_block (sc : script) (nsubs : nat) (s : state) (b : Z * Z) : state :=
  if halted s then s else
  let '(es, h, oog) := tick_all sc nsubs (fst b) (snd b) (infos s) (hs s) in
  mkS es h oog.

Definition run (sc : script) (nsubs : nat) (s : state) (bs : list (Z * Z)) : state :=
  fold_left (begin_block sc nsubs) bs s.

Definition init_h (nsubs : nat) : hstate := mkH [] (repeat [] nsubs) 0.
Definition fresh (id start dur : Z) : einfo := mkE id start dur 0 0 false 0.
Definition init_state (nsubs : nat) (timers : list (Z * Z * Z)) : state :=
  mkS (map (fun x => fresh (fst (fst x)) (snd (fst x)) (snd x)) timers) (init_h nsubs) false.

(* observables *)
Definition calls_in_order (s : state) : list (nat * signal) := rev (h_calls (hs s)).
Definition signals_of (id : Z) (l : list (nat * signal)) (sub : nat) : list (sigkind * Z) :=
  map (fun c => (s_kind (snd c), s_num (snd c)))
      (filter (fun c => (Nat.eqb (fst c) sub) && (s_id (snd c) =? id)) l).
