(* C15 - Reward accumulator pays each position exactly growth times shares held.
   Property theorems only; each is closed by a lemma from C15/Proofs*.v.
   [hist tr st] (C15/Spec.v): st is the store of one accumulator after the calls of tr (newest first), each made
   through an AccumulatorObject that holds the current accumulator value (and, for AddToAccumulator and
   DeletePosition, the current total shares - everything else in the object may be stale), on arguments in the
   property's domain [dom] (well-formed coin lists, non-negative growth, a name is created only while it does
   not exist).  A panicking call aborts the transaction and leaves the store as it was. *)
From Coq Require Import ZArith List Bool Lia.
Import ListNotations.
From Osmo Require Import Base.DecModel C15.Model C15.Spec C15.ProofsMap C15.ProofsInv1.
Open Scope Z_scope.

(* the recorded total shares equal the sum of the position shares, after every history *)
Theorem C15_total_shares_eq_sum : forall tr st, hist tr st ->
  exists c, a_content st = Some c /\ c_total c = sum_shares (a_pos st).
Proof. intros tr st H; destruct (hist_inv1 tr st H) as [c [Hc [_ [Ht _]]]]; eauto. Qed.
Print Assumptions C15_total_shares_eq_sum.

(* a record exists exactly for the names that are live in the history (created and neither deleted nor claimed
   while holding no shares) and carries the share count the history gives *)
Theorem C15_positions_mirror_history : forall tr st, hist tr st -> forall n,
  match p_get n (a_pos st) with
  | Some r => live tr n = true /\ r_shares r = shares tr n
  | None => live tr n = false
  end.
Proof. intros tr st H; destruct (hist_inv1 tr st H) as [c [_ [_ [_ Hp]]]]; exact Hp. Qed.
Print Assumptions C15_positions_mirror_history.
