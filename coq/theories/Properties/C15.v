(* C15 - Reward accumulator pays each position exactly growth times shares held.
   Property theorems only; each is closed by a lemma from C15/Proofs*.v.

   Vocabulary (C15/Spec.v).  A trace [tr] is the list of exported calls made on one accumulator, newest first,
   each with its result; only calls that returned successfully count.  [hist tr st]: st is the accumulator's
   store (content + position records) after tr, where every call was made
     - through an AccumulatorObject that holds the current accumulator value (and, for AddToAccumulator and
       DeletePosition, the current total shares; anything else in the object may be stale) - [recv_ok];
     - on arguments in the property's quantifier [dom]: coin lists sorted by denomination, non-negative growth,
       a name is created only while it does not exist and with a non-negative share amount.
   A panicking call (LegacyDec overflow beyond 2^256, DecCoins.Sub going negative in the interval API) aborts
   the transaction and leaves the store as it was; all statements below are about calls that return.
   Ghost quantities, defined on the trace alone: [shares tr n], [live tr n], [growth tr d],
   [intervals tr n d] = the maximal intervals since n's last reset (creation / claim) during which n held a
   constant share count, as pairs (growth credited in the interval, shares held), the open interval first;
   [claimable tr n d] = sum over these intervals of MulDec(growth, shares) + explicitly added unclaimed rewards;
   [claimable_exact36] = the same with exact products (scaled by 10^18).  For the plain (non-interval) API
   [pl_intervals] / [pl_claimable] take as "growth credited" the sum of the AddToAccumulator increments made
   since the interval began ([since]); for the interval API it is (accumulator value - caller-supplied
   reference point). *)
From Coq Require Import ZArith List Bool Lia.
Import ListNotations.
From Osmo Require Import Base.DecModel C15.Model C15.Spec C15.ProofsMap C15.ProofsStep C15.ProofsInv1
  C15.ProofsCoins C15.ProofsInv2 C15.ProofsSpec C15.ProofsMain C15.ProofsLive C15.Keys C15.ProofsKeys.
Open Scope Z_scope.

(* the recorded total shares equal the sum of the position shares, after every history *)
Theorem C15_total_shares_eq_sum : forall tr st, hist tr st ->
  exists c, a_content st = Some c /\ c_total c = sum_shares (a_pos st).
Proof. intros tr st H; destruct (hist_inv1 tr st H) as [c [Hc [_ [Ht _]]]]; eauto. Qed.
Print Assumptions C15_total_shares_eq_sum.

(* a record exists exactly for the names that are live in the history (created and neither deleted nor claimed
   while holding no shares) and carries the share count the history gives *)
Theorem C15_positions_mirror_history : forall tr st, hist tr st -> forall n,
  match p_get n (a_pos st) with
  | Some r => live tr n = true /\ r_shares r = shares tr n
  | None => live tr n = false
  end.
Proof. intros tr st H; destruct (hist_inv1 tr st H) as [c [_ [_ [_ Hp]]]]; exact Hp. Qed.
Print Assumptions C15_positions_mirror_history.

(* ClaimRewards returns, per denomination, the integer part of [claimable] as coins and its fractional part as
   dust (truncation happens here and only here) *)
Theorem C15_claim_eq_spec : forall tr st rv n tc du, hist tr st -> recv_ok st rv (OClaim n) ->
  o_res (step st rv (OClaim n)) = Ok (RClaim tc du) ->
  forall d, 0 <= claimable tr n d /\ amt d tc = Z.quot (claimable tr n d) P18 /\ amt d du = frac18 (claimable tr n d).
Proof. intros tr st rv n tc du H1 H2 H3; exact (proj2 (proj2 (claim_eq_spec tr st rv n tc du H1 H2 H3))). Qed.
Print Assumptions C15_claim_eq_spec.

(* DeletePosition returns the whole of [claimable] as decimal coins *)
Theorem C15_delete_eq_spec : forall tr st rv n ret, hist tr st -> recv_ok st rv (ODelete n) ->
  o_res (step st rv (ODelete n)) = Ok (RDelete ret) ->
  forall d, amt d ret = claimable tr n d /\ 0 <= claimable tr n d.
Proof. intros tr st rv n ret H1 H2 H3; exact (proj2 (delete_eq_spec tr st rv n ret H1 H2 H3)). Qed.
Print Assumptions C15_delete_eq_spec.

(* plain API: what is paid is the sum, over the intervals of constant shares, of
   MulDec(growth that occurred in the interval, shares held) ... *)
Theorem C15_claim_eq_growth_times_shares : forall tr st rv n tc du, hist tr st -> plain tr ->
  recv_ok st rv (OClaim n) -> o_res (step st rv (OClaim n)) = Ok (RClaim tc du) ->
  forall d, amt d tc = Z.quot (pl_claimable tr n d) P18 /\ amt d du = frac18 (pl_claimable tr n d).
Proof.
  intros tr st rv n tc du H1 Hp H2 H3 d. rewrite (pl_claimable_eq tr Hp n d).
  exact (proj2 (C15_claim_eq_spec tr st rv n tc du H1 H2 H3 d)).
Qed.
Print Assumptions C15_claim_eq_growth_times_shares.

(* ... which is within half a unit of the 18th decimal per interval of the exact rational sum of
   growth * shares (both sides scaled by 10^36): the precise sense of "truncation only at claim time" given that
   DecCoins.MulDec rounds half-even at 18 decimals ... *)
Theorem C15_spec_vs_rational : forall tr n d,
  Z.abs (P18 * pl_claimable tr n d - pl_claimable_exact36 tr n d) <= HALF * Z.of_nat (length (pl_intervals tr n d)) /\
  Z.abs (P18 * claimable tr n d - claimable_exact36 tr n d) <= HALF * Z.of_nat (length (intervals tr n d)).
Proof. intros; split; [apply pl_spec_vs_rational|apply spec_vs_rational]. Qed.
Print Assumptions C15_spec_vs_rational.

(* ... and exact whenever the products need no rounding (e.g. whole share counts with whole growth) *)
Theorem C15_muldec_exact_when_representable : forall g s, (g * s) mod P18 = 0 -> P18 * d_mul g s = g * s.
Proof. exact d_mul_exact. Qed.
Print Assumptions C15_muldec_exact_when_representable.

(* claiming resets exactly the claimer: the accumulator content and every other record are untouched, the
   claimer's record is reset (or removed when it holds no shares), nothing is claimable right afterwards, and
   every other name's claimable amount and shares are what they were *)
Theorem C15_claim_frames_others : forall tr st rv n x, hist tr st -> recv_ok st rv (OClaim n) ->
  o_res (step st rv (OClaim n)) = Ok x ->
  let st' := o_st (step st rv (OClaim n)) in
  a_content st' = a_content st /\
  (forall m, m <> n -> p_get m (a_pos st') = p_get m (a_pos st)) /\
  (exists c, a_content st = Some c /\
     p_get n (a_pos st') = if shares tr n =? 0 then None else Some (mkR (shares tr n) (c_value c) [])) /\
  (forall d, claimable ((OClaim n, Ok x) :: tr) n d = 0) /\
  (forall m d, m <> n -> claimable ((OClaim n, Ok x) :: tr) m d = claimable tr m d /\
                         shares ((OClaim n, Ok x) :: tr) m = shares tr m).
Proof.
  intros tr st rv n x H1 H2 H3. destruct (claim_frames_others tr st rv n x H1 H2 H3) as [A [B C]].
  repeat split; auto using claimable_after_claim; apply claim_ghost_frames; assumption.
Qed.
Print Assumptions C15_claim_frames_others.

(* a deleted position, and a position claimed while holding no shares, disappears; deletion takes its shares out
   of the total and leaves the value and everybody else alone *)
Theorem C15_delete_or_zero_claim_removes : forall tr st rv n x, hist tr st ->
  (recv_ok st rv (ODelete n) -> o_res (step st rv (ODelete n)) = Ok x ->
     let st' := o_st (step st rv (ODelete n)) in
     p_get n (a_pos st') = None /\ (forall m, m <> n -> p_get m (a_pos st') = p_get m (a_pos st)) /\
     exists c c', a_content st = Some c /\ a_content st' = Some c' /\
                  c_value c' = c_value c /\ c_total c' = c_total c - shares tr n) /\
  (recv_ok st rv (OClaim n) -> o_res (step st rv (OClaim n)) = Ok x -> shares tr n = 0 ->
     p_get n (a_pos (o_st (step st rv (OClaim n)))) = None).
Proof. intros tr st rv n x H; split; [apply delete_removes|apply zero_claim_removes]; assumption. Qed.
Print Assumptions C15_delete_or_zero_claim_removes.

(* plain API: a record's reference point never exceeds the accumulator value, so the subtraction in GetTotalRewards
   cannot go negative there (the check the code's TODO asks for is redundant for the non-interval API) *)
Theorem C15_plain_snapshot_below_value : forall tr st, hist tr st -> plain tr ->
  forall n r c, p_get n (a_pos st) = Some r -> a_content st = Some c ->
  forall d, amt d (r_snap r) <= amt d (c_value c).
Proof. exact plain_snapshot_below_value. Qed.
Print Assumptions C15_plain_snapshot_below_value.

(* "can claim": a claim on a live position returns, unless one of the range assertions of LegacyDec (|x| <= 2^256) /
   math.Int (256 bits) fails on the growth difference, its product with the shares, the claimable amount or its
   integer part - or, interval API only, the caller-supplied reference point lies above the accumulator value
   ([pending] negative).  For the plain API that last case cannot occur. *)
Theorem C15_claim_returns_unless_overflow : forall tr st rv n, hist tr st -> recv_ok st rv (OClaim n) -> live tr n = true ->
  (exists tc du, o_res (step st rv (OClaim n)) = Ok (RClaim tc du)) \/
  exists d, pending tr n d < 0 \/ d_fits (pending tr n d) = false \/
            d_fits (d_mul (pending tr n d) (shares tr n)) = false \/ d_fits (claimable tr n d) = false \/
            int_fits (Z.quot (claimable tr n d) P18) = false.
Proof. exact claim_returns_unless_overflow. Qed.
Print Assumptions C15_claim_returns_unless_overflow.
Theorem C15_plain_pending_nonneg : forall tr st, hist tr st -> plain tr -> forall n d, 0 <= pending tr n d.
Proof. exact plain_pending_nonneg. Qed.
Print Assumptions C15_plain_pending_nonneg.

(* a call that returns an error has no effect; the calls that return an error are exactly the ones the property
   lists ([invalid]: unknown name, non-positive share change, removing more than held, negative rewards) *)
Theorem C15_errors_have_no_effect : forall tr st rv o, hist tr st -> dom tr o -> recv_ok st rv o ->
  (forall e, o_res (step st rv o) = Err e -> o_st (step st rv o) = st) /\
  ((exists e, o_res (step st rv o) = Err e) <-> invalid tr o).
Proof.
  intros tr st rv o H1 H2 H3; split; [intros e; apply errors_have_no_effect with (tr := tr); assumption|].
  apply step_err_iff; assumption.
Qed.
Print Assumptions C15_errors_have_no_effect.

(* the three outcomes of any call in the domain: it returns a value (then it was not one of the listed invalid calls),
   or it returns an error (then it was, and nothing changed), or it panics - the transaction aborts - and then one
   of the explicit range assertions of [panic_reason] failed (C15/ProofsLive.v: an addition, subtraction or product
   of the ghost quantities beyond LegacyDec's 2^256, an integer part beyond 256 bits, or an interval-API reference
   point above the accumulator value) *)
Theorem C15_every_call_outcome : forall tr st rv o, hist tr st -> dom tr o -> recv_ok st rv o ->
  match o_res (step st rv o) with
  | Ok _ => ~ invalid tr o
  | Err _ => invalid tr o /\ o_st (step st rv o) = st
  | Panic => ~ invalid tr o /\ panic_reason tr st o
  end.
Proof.
  intros tr st rv o H1 H2 H3. destruct (C15_errors_have_no_effect tr st rv o H1 H2 H3) as [E1 E2].
  pose proof (panic_has_reason tr st rv o H1 H2 H3) as P.
  destruct (o_res (step st rv o)) eqn:E.
  - intros K. apply E2 in K. destruct K as [e K]. discriminate.
  - split; [apply E2; eauto|eapply E1; reflexivity].
  - split; [intros K; apply E2 in K; destruct K as [e K]; discriminate|apply P; reflexivity].
Qed.
Print Assumptions C15_every_call_outcome.

(* several accumulators in one store.  The world model [wstep] identifies accumulators and positions by abstract
   ids, i.e. it assumes that different (accumulator, position) pairs have different store keys.  For the key layout
   of prefix.go (C15/Keys.v, constants regenerated from /repo) this holds when accumulator names contain no '|'
   ([C15_keys_injective_without_bar]) but NOT for all names that setAccumulator accepts ([C15_keys_full_refuted],
   witness "acc|"/"p0" vs "acc"/"|p0" - finding C15-F1, replayed on the Go code by corpus/C15/key_collision.json).
   Under that hypothesis: a call on one accumulator leaves every other accumulator alone, and a call made through a
   freshly fetched AccumulatorObject (GetAccumulator, as every caller in /repo does) is a [hist] step *)
Definition C15_keys_full : Prop := forall a1 n1 a2 n2,
  accum_name_ok a1 = true -> accum_name_ok a2 = true ->
  format_position_prefix_key a1 n1 = format_position_prefix_key a2 n2 -> a1 = a2 /\ n1 = n2.
Theorem C15_keys_full_refuted : ~ C15_keys_full.
Proof.
  intros H. destruct position_keys_collide as [H1 [H2 [H3 H4]]].
  destruct (H _ _ _ _ H1 H2 H4) as [E _]. exact (H3 E).
Qed.
Print Assumptions C15_keys_full_refuted.
Theorem C15_keys_injective_without_bar : forall a1 n1 a2 n2, ~ In BAR a1 -> ~ In BAR a2 ->
  (format_position_prefix_key a1 n1 = format_position_prefix_key a2 n2 -> a1 = a2 /\ n1 = n2) /\
  (format_accum_prefix_key a1 = format_accum_prefix_key a2 -> a1 = a2) /\
  format_accum_prefix_key a1 <> format_position_prefix_key a2 n2.
Proof.
  intros a1 n1 a2 n2 H1 H2. split; [apply position_keys_injective; assumption|].
  split; [apply accum_keys_injective|apply accum_key_not_position_key].
Qed.
Print Assumptions C15_keys_injective_without_bar.
Theorem C15_accumulators_independent : forall w o a b,
  match o with WMake a' _ => a' = a | WOp a' _ _ _ => a' = a end -> b <> a ->
  acc_get b (w_accs (snd (wstep w o))) = acc_get b (w_accs w).
Proof. exact wstep_frames_other_accumulators. Qed.
Print Assumptions C15_accumulators_independent.
Theorem C15_fresh_handle_is_admissible : forall w a h o tr, hist tr (acc_get a (w_accs w)) ->
  let st := acc_get a (w_accs w) in
  recv_ok st (fresh_rv st) o /\
  fst (wstep w (WOp a h true o)) = fst (apply st (fresh_rv st) o) /\
  acc_get a (w_accs (snd (wstep w (WOp a h true o)))) = snd (apply st (fresh_rv st) o).
Proof.
  intros w a h o tr Hh st. split; [eapply fresh_recv_ok; exact Hh|].
  destruct (hist_inv1 tr _ Hh) as [c [Hc _]]. exact (wstep_fresh_is_apply w a h o c Hc).
Qed.
Print Assumptions C15_fresh_handle_is_admissible.

(* the several-accumulator world with long-lived AccumulatorObject handles (the model that the correspondence run
   compares with the Go package) stays inside [hist]: after any sequence of world calls in which every call's
   receiver - the stored handle or a freshly fetched one - is admissible and the arguments are in the domain, every
   accumulator is either not yet made or the end state of some history, so all theorems above apply to it *)
Theorem C15_world_stays_in_hist : forall ops, wadmissible_all init_world ops ->
  forall a, acc_get a (w_accs (wrun init_world ops)) = empty_astore \/
            exists tr, hist tr (acc_get a (w_accs (wrun init_world ops))).
Proof. intros ops H; exact (wrun_wgood ops init_world init_wgood H). Qed.
Print Assumptions C15_world_stays_in_hist.

(* the whole property in one statement *)
Definition C15_full : Prop := forall tr st, hist tr st ->
  (exists c, a_content st = Some c /\ c_total c = sum_shares (a_pos st)) /\
  (forall n, match p_get n (a_pos st) with
             | Some r => live tr n = true /\ r_shares r = shares tr n
             | None => live tr n = false end) /\
  (forall n d, Z.abs (P18 * claimable tr n d - claimable_exact36 tr n d) <= HALF * Z.of_nat (length (intervals tr n d))) /\
  (plain tr -> forall n d, claimable tr n d = pl_claimable tr n d /\ claimable_exact36 tr n d = pl_claimable_exact36 tr n d) /\
  forall rv o, dom tr o -> recv_ok st rv o ->
    let r := step st rv o in
    (forall e, o_res r = Err e -> o_st r = st) /\
    ((exists e, o_res r = Err e) <-> invalid tr o) /\
    (forall n tc du, o = OClaim n -> o_res r = Ok (RClaim tc du) ->
       (forall d, 0 <= claimable tr n d /\ amt d tc = Z.quot (claimable tr n d) P18 /\ amt d du = frac18 (claimable tr n d)) /\
       a_content (o_st r) = a_content st /\
       (forall m, m <> n -> p_get m (a_pos (o_st r)) = p_get m (a_pos st)) /\
       (shares tr n = 0 -> p_get n (a_pos (o_st r)) = None)) /\
    (forall n ret, o = ODelete n -> o_res r = Ok (RDelete ret) ->
       (forall d, amt d ret = claimable tr n d) /\ p_get n (a_pos (o_st r)) = None).

Theorem C15_full_holds : C15_full.
Proof.
  intros tr st H. split; [exact (C15_total_shares_eq_sum tr st H)|]. split; [exact (C15_positions_mirror_history tr st H)|].
  split; [intros n d; apply spec_vs_rational|].
  split; [intros Hp n d; rewrite (pl_claimable_eq tr Hp n d), (pl_exact_eq tr Hp n d); auto|].
  intros rv o Hd Hrv r. subst r.
  destruct (C15_errors_have_no_effect tr st rv o H Hd Hrv) as [E1 E2]. split; [exact E1|]. split; [exact E2|]. split.
  - intros n tc du -> Hres. split; [exact (C15_claim_eq_spec tr st rv n tc du H Hrv Hres)|].
    destruct (claim_frames_others tr st rv n _ H Hrv Hres) as [A [B _]]. split; [exact A|]. split; [exact B|].
    intros Hz. exact (zero_claim_removes tr st rv n _ H Hrv Hres Hz).
  - intros n ret -> Hres. split; [intros d; exact (proj1 (C15_delete_eq_spec tr st rv n ret H Hrv Hres d))|].
    exact (proj1 (delete_removes tr st rv n _ H Hrv Hres)).
Qed.
Print Assumptions C15_full_holds.

(* non-vacuity: two names, two denominations; growth, share increase and decrease, explicitly added rewards, a
   failing call in between; name 1 then claims.  The history is a [hist], it is plain, the claim succeeds and pays
   floor(pl_claimable) = 41 and 7 whole coins with dust 5e-18 and 20e-18, and the spec has three intervals for name 1. *)
Definition nv_ops : list op :=
  [ ONew 1 (3 * P18); OGrow [(0, 2 * P18 + 1); (2, 5)]; ONew 2 (1 * P18); OAdd 1 (P18 / 2);
    OGrow [(0, 10 * P18)]; ORemove 1 (10 * P18); ORemove 1 (1 * P18 + 7); OAddUnclaimed 1 [(2, 7 * P18 + 3)];
    OGrow [(0, 1); (2, 1)] ].
Definition nv_run := run_fresh nv_ops [] init_store.
Example C15_nonvacuous :
  hist (fst nv_run) (snd nv_run) /\ plain (fst nv_run) /\
  recv_ok (snd nv_run) (fresh_rv (snd nv_run)) (OClaim 1) /\
  o_res (step (snd nv_run) (fresh_rv (snd nv_run)) (OClaim 1)) =
    Ok (RClaim [(0, 41); (2, 7)] [(0, 5); (2, 20)]) /\
  pl_claimable (fst nv_run) 1 0 = 41 * P18 + 5 /\
  length (pl_intervals (fst nv_run) 1 0) = 3%nat /\
  invalid (fst nv_run) (ORemove 1 (10 * P18)) /\ ~ invalid (fst nv_run) (OClaim 1).
Proof.
  assert (Hh : hist (fst nv_run) (snd nv_run)).
  { apply run_fresh_hist; [constructor|]. vm_compute. repeat split; try discriminate; auto; repeat constructor; discriminate. }
  split; [exact Hh|]. split.
  { vm_compute. repeat constructor. }
  split; [eapply fresh_recv_ok; exact Hh|].
  split; [vm_compute; reflexivity|]. split; [vm_compute; reflexivity|]. split; [vm_compute; reflexivity|].
  split; [right; right; vm_compute; reflexivity|]. vm_compute. discriminate.
Qed.

(* non-vacuity of the world theorem with a stale handle: handle 0 creates name 1 (5 shares), handle 1 creates name 2
   (3 shares), then handle 0 - whose copy of the total still says 5 - adds 2 shares to name 1: admissible, because
   the code re-reads the total from the store; the recorded total is 10 *)
Definition nv_wops : list wop :=
  [ WMake 0 false; WOp 0 0 true (ONew 1 (5 * P18)); WOp 0 1 true (ONew 2 (3 * P18)); WOp 0 0 false (OAdd 1 (2 * P18)) ].
Example C15_world_nonvacuous :
  wadmissible_all init_world nv_wops /\
  option_map v_total (h_get 0 0 (w_handles (wrun init_world (firstn 3 nv_wops)))) = Some (5 * P18) /\
  option_map c_total (a_content (acc_get 0 (w_accs (wrun init_world (firstn 3 nv_wops))))) = Some (8 * P18) /\
  option_map c_total (a_content (acc_get 0 (w_accs (wrun init_world nv_wops)))) = Some (10 * P18).
Proof.
  split; [|repeat split; vm_compute; reflexivity].
  cbn [nv_wops wadmissible_all]. split; [exact I|]. split; [|split; [|split; [|exact I]]].
  all: intros rv H; vm_compute in H; injection H as <-; split;
    [eexists; split; [vm_compute; reflexivity|split; intros K; vm_compute in K |- *; first [reflexivity|discriminate K]]
    |vm_compute; repeat split; auto; discriminate].
Qed.
