(* C09 - Incentive gauges pay pro-rata, on schedule, and never more than they hold.
   Property theorems only. (first version: the pipeline core; the full set follows) *)
From Coq Require Import ZArith List Bool.
Import ListNotations.
From Osmo Require Import Gen.C09_consts C09.Model C09.Proofs.
Open Scope Z_scope.

(* finding F6 replayed on the model: a 2-epoch gauge is finished after ONE paying epoch, half of its coins stranded *)
Theorem C09_finish_witness :
  refs_all (s_fin w_final) = [1] /\ refs_all (s_act w_final) = [] /\
  map g_filled (s_gauges w_final) = [1] /\ map g_n (s_gauges w_final) = [2] /\
  map (fun g => amount_of (g_dist g) 0) (s_gauges w_final) = [5 * 10 ^ 9] /\
  s_bank w_final MODULE 0 = 5 * 10 ^ 9.
Proof. exact witness_F6. Qed.
Print Assumptions C09_finish_witness.
