(* C09 - Incentive gauges pay pro-rata, on schedule, and never more than they hold.
   Property theorems only; each is closed by a lemma of C09/Proofs*.v.
   Model: C09/Model.v (lock-based ByDuration gauges, and external NoLock gauges in their minimal form: per-epoch amount
   floor(remaining / remaining epochs) handed to the pool, zero per-epoch amounts skipped; group, internal NoLock and
   synthetic-lock gauges are out of scope).
   Standing assumption on the chain configuration: [cfg_ok cfg] - every lockable duration exceeds the 1 ms that
   getDistributeToBaseLocks uses as its cache query (true of every deployed configuration: 1 s, 1 h, 3 h, 7 h, ...).
   Histories are arbitrary lists of operations from the initial state; a failing operation leaves the state
   unchanged (baseapp atomicity, DESIGN 1.5). *)
From Coq Require Import ZArith List Bool Lia.
Import ListNotations.
From Osmo Require Import Gen.C09_consts C09.Model C09.Spec C09.ProofsCoins C09.ProofsDistr C09.ProofsLoop
  C09.ProofsInv C09.ProofsLife C09.ProofsShare C09.ProofsShare2 C09.ProofsLive C09.Proofs.
Open Scope Z_scope.

(* ---- never over-pays: DistributedCoins <= Coins coin-wise, for every gauge, after every history *)
Theorem C09_never_overpays : forall cfg funds ops g d, cfg_ok cfg ->
  In g (s_gauges (run cfg (init_state funds) ops)) -> amount_of (g_dist g) d <= amount_of (g_coins g) d.
Proof. exact never_overpays. Qed.
Print Assumptions C09_never_overpays.

(* the arithmetic heart of it: the floors of the pro-rata shares of R over E epochs sum to at most R *)
Theorem C09_sum_of_floors : forall Sm E R ls, Sm = sum_amt ls -> 0 < Sm -> E <> 0 -> 0 <= R -> locks_pos ls ->
  sum_q (Sm * E) R ls <= R.
Proof. exact sum_q_le. Qed.
Print Assumptions C09_sum_of_floors.

(* ---- the module account holds EXACTLY the undistributed remainders of all gauges, hence at least those of the
   unfinished (upcoming or active) ones *)
Theorem C09_module_covers_remainder : forall cfg funds ops d, cfg_ok cfg ->
  let s := run cfg (init_state funds) ops in
  s_bank s MODULE d = sum_rem (s_gauges s) d /\ unfinished_remainder s d <= s_bank s MODULE d.
Proof. intros; apply module_covers, reachable_inv; assumption. Qed.
Print Assumptions C09_module_covers_remainder.

(* ---- lifecycle *)
(* the three sets partition the gauges at all times *)
Theorem C09_sets_partition : forall cfg funds ops id, cfg_ok cfg ->
  let s := run cfg (init_state funds) ops in
  cnt_all (s_up s) id + cnt_all (s_act s) id + cnt_all (s_fin s) id = if in_range s id then 1 else 0.
Proof. intros; apply I_part, reachable_inv; assumption. Qed.
Print Assumptions C09_sets_partition.

(* active from the first epoch end with t >= start: such a gauge takes part in this very distribution and is
   active or finished afterwards; before its start time it stays upcoming and untouched *)
Theorem C09_activation : forall cfg funds ops thr s' g, cfg_ok cfg ->
  let s := run cfg (init_state funds) ops in
  after_epoch_end cfg thr s = Ok s' -> In g (s_gauges s) -> In (g_id g) (refs_all (s_up s)) ->
  (g_start g <= s_now s -> takes_part s g /\ ~ In (g_id g) (refs_all (s_up s')) /\
                           (In (g_id g) (refs_all (s_act s')) \/ In (g_id g) (refs_all (s_fin s')))) /\
  (s_now s < g_start g -> In (g_id g) (refs_all (s_up s')) /\ get_gauge (s_gauges s') (g_id g) = Some g).
Proof. intros; eapply activation; eauto; apply reachable_inv; assumption. Qed.
Print Assumptions C09_activation.

(* finished gauges pay nothing (they are not even written) and stay finished *)
Theorem C09_finished_pay_nothing : forall cfg funds ops thr s' g, cfg_ok cfg ->
  let s := run cfg (init_state funds) ops in
  after_epoch_end cfg thr s = Ok s' -> In g (s_gauges s) -> In (g_id g) (refs_all (s_fin s)) ->
  get_gauge (s_gauges s') (g_id g) = Some g /\ In (g_id g) (refs_all (s_fin s')).
Proof. intros; eapply finished_pays_nothing; eauto; apply reachable_inv; assumption. Qed.
Print Assumptions C09_finished_pay_nothing.

(* a gauge that does not take part is untouched; one that takes part is run through distributeInternal on its
   pre-epoch value with exactly the qualifying locks, and only its bookkeeping fields change *)
Theorem C09_epoch_gauge_result : forall cfg funds ops thr s' g, cfg_ok cfg ->
  let s := run cfg (init_state funds) ops in
  after_epoch_end cfg thr s = Ok s' -> In g (s_gauges s) ->
  (~ takes_part s g -> get_gauge (s_gauges s') (g_id g) = Some g) /\
  (takes_part s g -> exists di0 cache0 w di1 cache1,
        distribute_internal cfg thr g (elig (s_locks s) g) di0 cache0 = Ok (w, di1, cache1) /\
        get_gauge (s_gauges s') (g_id g) = Some (match w with Some g' => g' | None => g end)).
Proof. intros; eapply epoch_gauge_result; eauto; apply reachable_inv; assumption. Qed.
Print Assumptions C09_epoch_gauge_result.

(* ---- the finishing rule *)
(* FULL statement of the property's clause "non-perpetual gauges finish after exactly their number of paying
   epochs": in every reachable state a finished non-perpetual gauge has FilledEpochs = NumEpochsPaidOver. *)
Definition C09_finish_full : Prop :=
  forall cfg funds ops, cfg_ok cfg -> FinExact (run cfg (init_state funds) ops).

(* It is FALSE of the faithful model (finding F6): checkFinishDistribution uses the pre-distribution FilledEpochs. *)
Theorem C09_finish_refuted : ~ C09_finish_full.
Proof. exact finish_full_refuted. Qed.
Print Assumptions C09_finish_refuted.

(* the witness in numbers: 10^10 over 2 epochs, one lock at epoch 1, withdrawn before epoch 2 => finished 1/2,
   5*10^9 paid, 5*10^9 left in the module for ever; and a 1-epoch gauge nobody qualifies for => finished 0/1 *)
Theorem C09_finish_witness :
  refs_all (s_fin w_final) = [1] /\ refs_all (s_act w_final) = [] /\
  map g_filled (s_gauges w_final) = [1] /\ map g_n (s_gauges w_final) = [2] /\
  map (fun g => amount_of (g_dist g) 0) (s_gauges w_final) = [5 * 10 ^ 9] /\
  s_bank w_final MODULE 0 = 5 * 10 ^ 9.
Proof. exact witness_F6. Qed.
Print Assumptions C09_finish_witness.
Theorem C09_finish_witness_one_epoch :
  refs_all (s_fin w6b_final) = [1] /\ map g_filled (s_gauges w6b_final) = [0] /\ s_bank w6b_final MODULE 0 = 5 * 10 ^ 9.
Proof. exact witness_F6b. Qed.
Print Assumptions C09_finish_witness_one_epoch.

(* CONDITIONAL theorem: it holds when at every epoch end every non-perpetual gauge that takes part has a
   qualifying lock (and lock sums fit 256 bits, as the SDK's integers guarantee) *)
Theorem C09_finishes_after_exactly_N_paying_epochs : forall cfg funds ops, cfg_ok cfg ->
  all_qualified cfg (init_state funds) ops -> FinExact (run cfg (init_state funds) ops).
Proof. exact finishes_after_exactly_N. Qed.
Print Assumptions C09_finishes_after_exactly_N_paying_epochs.

(* and in every reachable state, unconditionally: an upcoming non-perpetual gauge has paid 0 epochs, an active one
   fewer than N, a finished one at most N; perpetual gauges never finish *)
Theorem C09_filled_bounds : forall cfg funds ops g, cfg_ok cfg ->
  let s := run cfg (init_state funds) ops in In g (s_gauges s) -> fill_ok s g.
Proof. exact filled_bounds. Qed.
Print Assumptions C09_filled_bounds.

(* one epoch end, exactly: FilledEpochs grows by one iff a lock qualified (always for a NoLock gauge, g_pool <> 0);
   the gauge is finished iff N <= filled_before + 1 *)
Theorem C09_finish_step : forall cfg funds ops thr s' g, cfg_ok cfg ->
  let s := run cfg (init_state funds) ops in
  after_epoch_end cfg thr s = Ok s' ->
  takes_part s g -> g_perp g = false -> sum_locks (elig (s_locks s) g) < 2 ^ max_int_bits ->
  exists g', get_gauge (s_gauges s') (g_id g) = Some g' /\ g_n g' = g_n g /\ g_perp g' = false /\
    g_filled g < g_n g /\
    (g_pool g <> 0 \/ elig (s_locks s) g <> [] -> g_filled g' = g_filled g + 1) /\
    (g_pool g = 0 -> elig (s_locks s) g = [] -> g' = g) /\
    (In (g_id g) (refs_all (s_fin s')) <-> g_n g <= g_filled g + 1) /\
    (In (g_id g) (refs_all (s_act s')) <-> g_filled g + 1 < g_n g).
Proof. intros; eapply finish_step; eauto; apply reachable_inv; assumption. Qed.
Print Assumptions C09_finish_step.

(* EXACT characterisation of F6: a gauge ends an epoch finished with unpaid epochs iff it is a lock gauge, no lock
   qualified at that epoch end and it had exactly one epoch left *)
Theorem C09_finish_characterisation : forall cfg funds ops thr s' g, cfg_ok cfg ->
  let s := run cfg (init_state funds) ops in
  after_epoch_end cfg thr s = Ok s' ->
  takes_part s g -> g_perp g = false -> sum_locks (elig (s_locks s) g) < 2 ^ max_int_bits ->
  exists g', get_gauge (s_gauges s') (g_id g) = Some g' /\
    ((In (g_id g) (refs_all (s_fin s')) /\ g_filled g' < g_n g')
     <-> (g_pool g = 0 /\ elig (s_locks s) g = [] /\ g_filled g = g_n g - 1)).
Proof. intros; eapply finish_characterisation; eauto; apply reachable_inv; assumption. Qed.
Print Assumptions C09_finish_characterisation.

(* ---- per-epoch shares *)
(* FULL statement: at every successful epoch end every user (non-negative address) is credited exactly the floors of the pro-rata shares
   of the locks whose reward receiver it is (nothing for amounts not worth the minimum) *)
Definition C09_share_full : Prop :=
  forall cfg funds ops thr s', cfg_ok cfg -> thr_positive thr ->
  let s := run cfg (init_state funds) ops in
  after_epoch_end cfg thr s = Ok s' ->
  forall a d, 0 <= a -> s_bank s' a d - s_bank s a d = ideal_credit cfg thr s a d.

(* It is FALSE of the faithful model, for two independent reasons. *)
(* finding C09-F2: skipSpamGaugeDistribute's hard-coded filter (one remaining coin of at most 100 units) *)
Theorem C09_share_refuted_small_gauge :
  after_epoch_end w_cfg w_thr w2_pre = Ok (epoch_of w_cfg w_thr w2_pre) /\
  s_bank (epoch_of w_cfg w_thr w2_pre) 1 0 - s_bank w2_pre 1 0 = 0 /\
  ideal_credit w_cfg w_thr w2_pre 1 0 = 100 /\
  map g_filled (s_gauges (epoch_of w_cfg w_thr w2_pre)) = [1] /\ refs_all (s_fin (epoch_of w_cfg w_thr w2_pre)) = [1].
Proof. exact witness_F2. Qed.
Print Assumptions C09_share_refuted_small_gauge.

(* finding C09-F4: distributionInfo is keyed by the lock OWNER and keeps the receiver of the owner's first lock *)
Theorem C09_share_refuted_receiver :
  after_epoch_end w_cfg w_thr w4_pre = Ok (epoch_of w_cfg w_thr w4_pre) /\
  s_bank (epoch_of w_cfg w_thr w4_pre) 2 0 - s_bank w4_pre 2 0 = 1000 /\
  s_bank (epoch_of w_cfg w_thr w4_pre) 3 0 - s_bank w4_pre 3 0 = 0 /\
  ideal_credit w_cfg w_thr w4_pre 2 0 = 250 /\ ideal_credit w_cfg w_thr w4_pre 3 0 = 750.
Proof. exact witness_F4. Qed.
Print Assumptions C09_share_refuted_receiver.

Theorem C09_share_refuted : ~ C09_share_full.
Proof. exact share_full_refuted. Qed.
Print Assumptions C09_share_refuted.

(* PROVED PART (what is missing for the full statement is exactly the two findings): under the hypotheses
     - [consistent_receivers]: locks of one owner have one reward receiver            (excludes C09-F4)
     - [share_hyp]: no gauge with qualifying locks falls under the small-gauge filter   (excludes C09-F2),
       lock sums fit 256 bits and epoch counts fit 63 bits (the SDK's integer ranges)
     - [thr_positive]: a successful min-value quote is at least 1 (the pools return an error otherwise)
   every user (non-negative address; pools' incentives addresses are negative) is credited, at every successful epoch end after every history,
   EXACTLY the sum over the gauges that take part and over the qualifying locks it is the receiver of, of
   floor(remaining * lockAmount / (totalLocked * epochsLeft)) when that is positive and worth the minimum, else 0;
   epochsLeft = 1 for perpetual gauges (they pay everything each epoch). *)
Theorem C09_per_epoch_share_partial : forall cfg funds ops thr s', cfg_ok cfg -> thr_positive thr ->
  let s := run cfg (init_state funds) ops in
  consistent_receivers (s_locks s) ->
  (forall g, takes_part s g -> share_hyp cfg (s_locks s) g) ->
  after_epoch_end cfg thr s = Ok s' ->
  forall a d, 0 <= a -> s_bank s' a d - s_bank s a d = ideal_credit cfg thr s a d.
Proof. exact share_credit_reachable. Qed.
Print Assumptions C09_per_epoch_share_partial.

(* the same at the level of one lock and one gauge, WITHOUT the two hypotheses about findings: what distributeInternal
   adds for a lock is, coin by coin, the floor share when positive and worth the minimum, else nothing *)
Theorem C09_lock_share : forall cfg thr den a remain cache acc dc cache', thr_positive thr -> cache_ok thr cache ->
  lock_coins cfg thr den a remain cache acc = Ok (dc, cache') ->
  cache_ok thr cache' /\ forall d, amount_of dc d = amount_of acc d + row_exact cfg thr den a remain d.
Proof. exact lock_coins_exact. Qed.
Print Assumptions C09_lock_share.

(* perpetual gauges pay everything each epoch, up to rounding dust: the floors of the shares of R among n locks sum to
   more than R - n and at most R *)
Theorem C09_perpetual_pays_everything : forall R ls, 0 <= R -> locks_pos ls -> ls <> [] ->
  R - sum_div R (sum_amt ls) ls < Z.of_nat (length ls) /\ sum_div R (sum_amt ls) ls <= R.
Proof. exact perpetual_dust. Qed.
Print Assumptions C09_perpetual_pays_everything.

(* ---- every epoch end distributes *)
(* FULL statement implied by "at each epoch an active gauge pays every qualifying lock": the epoch end does not fail *)
Definition C09_epoch_succeeds_full : Prop :=
  forall cfg funds ops thr, cfg_ok cfg -> thr_positive thr ->
  exists s', after_epoch_end cfg thr (run cfg (init_state funds) ops) = Ok s'.

(* finding C09-F3: an error of the min-value quote for ONE reward denom aborts the distribution of ALL gauges *)
Theorem C09_epoch_aborted_witness :
  after_epoch_end w_cfg w3_thr w3_pre = Err E_EPOCH /\ 0 < ideal_credit w_cfg w3_thr w3_pre 1 0.
Proof. exact witness_F3. Qed.
Print Assumptions C09_epoch_aborted_witness.

Theorem C09_epoch_succeeds_refuted : ~ C09_epoch_succeeds_full.
Proof. exact epoch_succeeds_full_refuted. Qed.
Print Assumptions C09_epoch_succeeds_refuted.

(* PROVED PART, and exact characterisation of C09-F3: an error of the injected min-value quote is the ONLY way an epoch
   end can fail. Without one, AfterEpochEnd succeeds after every history - lock gauges and NoLock gauges alike (no
   Coins.Sub panic, no failing send, no inconsistent reference list, no "gauge is not active", and - since /repo commit
   5be8fedaa6 - no rejected zero-amount incentive: finding C09-F5 is fixed) *)
Theorem C09_epoch_succeeds_partial : forall cfg funds ops thr, cfg_ok cfg -> thr_no_error thr ->
  exists s', after_epoch_end cfg thr (run cfg (init_state funds) ops) = Ok s'.
Proof. exact epoch_fails_only_by_quote_error. Qed.
Print Assumptions C09_epoch_succeeds_partial.

(* regression witness of the fixed finding C09-F5: next to a NoLock gauge of 2 uosmo over 3 epochs (per-epoch amount 0)
   the epoch end succeeds, user 1 is paid the 5*10^8 the lock gauge owes, the NoLock gauge counts the epoch, hands out
   nothing now and 1 uosmo at each of the next two epoch ends, and finishes with 3 of 3 *)
Theorem C09_nolock_zero_amount_skipped :
  is_ok (after_epoch_end w_cfg w_thr w5_pre) = true /\
  s_bank (epoch_of w_cfg w_thr w5_pre) 1 0 - s_bank w5_pre 1 0 = 500000000 /\
  ideal_credit w_cfg w_thr w5_pre 1 0 = 500000000 /\
  map (fun g => (amount_of (g_dist g) 0, g_filled g)) (s_gauges (epoch_of w_cfg w_thr w5_pre)) = [(10 ^ 9, 2); (0, 1)] /\
  refs_all (s_fin (epoch_of w_cfg w_thr w5_pre)) = [1] /\ refs_all (s_act (epoch_of w_cfg w_thr w5_pre)) = [2] /\
  map (fun g => (amount_of (g_dist g) 0, g_filled g)) (s_gauges w5_end) = [(10 ^ 9, 2); (2, 3)] /\
  refs_all (s_fin w5_end) = [1; 2] /\ s_bank w5_end MODULE 0 = 0 /\ s_bank w5_end (pool_addr 1) 0 - w_funds (pool_addr 1) 0 = 2.
Proof. exact regression_F5. Qed.
Print Assumptions C09_nolock_zero_amount_skipped.

(* ---- non-vacuity (the concrete histories nv_ops, nv2_ops are defined in C09/Proofs.v) *)
(* a history that meets the hypothesis of the conditional finishing theorem, on which the gauge really pays twice and
   finishes with 2 of 2 epochs *)
Example C09_nonvacuous :
  cfg_ok w_cfg /\ all_qualified w_cfg (init_state w_funds) nv_ops /\
  let s := run w_cfg (init_state w_funds) nv_ops in
  refs_all (s_fin s) = [1] /\ map g_filled (s_gauges s) = [2] /\
  map (fun g => amount_of (g_dist g) 0) (s_gauges s) = [10 ^ 10] /\
  s_bank s 1 0 - w_funds 1 0 = 2500000000 /\ s_bank s 2 0 - w_funds 2 0 = 7500000000.
Proof. exact nonvacuous_finish. Qed.

(* a reachable state that meets every hypothesis of the share / lifecycle / finishing-step / liveness theorems: the
   gauge is upcoming with its start time reached, takes part with qualifying locks, the epoch end succeeds and the
   credits are the floors 10^10/2 * 1000/4000 and 10^10/2 * 3000/4000 *)
Example C09_share_nonvacuous :
  cfg_ok w_cfg /\ thr_positive w_thr /\ thr_no_error w_thr /\ consistent_receivers (s_locks nv2_pre) /\
  (forall g, takes_part nv2_pre g -> share_hyp w_cfg (s_locks nv2_pre) g) /\
  (exists g, takes_part nv2_pre g /\ g_perp g = false /\ elig (s_locks nv2_pre) g <> [] /\
             In (g_id g) (refs_all (s_up nv2_pre)) /\ g_start g <= s_now nv2_pre) /\
  after_epoch_end w_cfg w_thr nv2_pre = Ok (epoch_of w_cfg w_thr nv2_pre) /\
  ideal_credit w_cfg w_thr nv2_pre 1 0 = 1250000000 /\ ideal_credit w_cfg w_thr nv2_pre 2 0 = 3750000000.
Proof. exact nonvacuous_share. Qed.

(* a reachable state in which a NoLock gauge takes part: the epoch end succeeds and floor(10/3) = 3 uosmo move from the
   module account to the pool's incentives address *)
Example C09_nolock_nonvacuous :
  (exists g, takes_part nv3_pre g /\ g_pool g = 1) /\
  after_epoch_end w_cfg w_thr nv3_pre = Ok (epoch_of w_cfg w_thr nv3_pre) /\
  s_bank nv3_pre MODULE 0 = 10 /\ s_bank (epoch_of w_cfg w_thr nv3_pre) MODULE 0 = 7 /\
  s_bank (epoch_of w_cfg w_thr nv3_pre) (pool_addr 1) 0 - s_bank nv3_pre (pool_addr 1) 0 = 3 /\
  map (fun g => (amount_of (g_dist g) 0, g_filled g)) (s_gauges (epoch_of w_cfg w_thr nv3_pre)) = [(3, 1)].
Proof. exact nonvacuous_nolock. Qed.
