(* C14 - Tick and price conversions are monotone, in bounds, and mutually inverse.
   Property theorems only; each is closed by a lemma from C14/Proofs*.v.  All statements are about the
   Gallina model C14/Model.v (tied to /repo by the correspondence run) and use the constants generated
   from /repo (Gen/C14_consts.v).  BigDec values are raw mantissas (x 10^36). *)
From Coq Require Import ZArith List Bool Lia.
Import ListNotations.
From Osmo Require Import Base.DecModel Gen.C14_consts C14.Model C14.ProofsPrice C14.ProofsSqrt C14.ProofsRound C14.ProofsBucket C14.ProofsMain.
Open Scope Z_scope.

(* the documented geometric/additive formula, exactly, for every tick of the supported range:
   with t = geo_dist*q + r (Go's truncated division, geo_dist = 9*10^6),
   price = (10^6 * [10 if t<0] + r) * 10^(q - 6 - [t<0])        (as a raw mantissa: x 10^36) *)
Theorem C14_tick_to_price_formula : forall t, MinCurrentTickV2 < t <= MaxTick -> t <> MinInitializedTickV2 ->
  let q := Z.quot t geo_dist in let r := Z.rem t geo_dist in
  tick_to_price t = Ok (if t <? 0 then (10 ^ 7 + r) * 10 ^ (36 + q - 7) else (10 ^ 6 + r) * 10 ^ (36 + q - 6)).
Proof. intros t H Hs. rewrite geo_dist_val. apply tick_to_price_formula_gen; assumption. Qed.
Print Assumptions C14_tick_to_price_formula.

(* the two special ticks at the bottom of the extended range both give MinSpotPriceV2 = 10^-30
   (for MinInitializedTickV2 this is also the value of the formula, read as a rational) *)
Theorem C14_tick_to_price_special : forall t, t = MinInitializedTickV2 \/ t = MinCurrentTickV2 ->
  tick_to_price t = Ok MinSpotPriceV2 /\ MinSpotPriceV2 = 10 ^ 6.
Proof. intros t H. split; [apply tick_to_price_special, H|reflexivity]. Qed.
Print Assumptions C14_tick_to_price_special.

(* strictly increasing over the whole initialisable range (extended low range included) *)
Theorem C14_tick_to_price_strict_mono : forall t1 t2 p1 p2,
  MinInitializedTickV2 <= t1 -> t1 < t2 -> t2 <= MaxTick ->
  tick_to_price t1 = Ok p1 -> tick_to_price t2 = Ok p2 -> p1 < p2.
Proof. exact tick_to_price_strict_mono. Qed.
Print Assumptions C14_tick_to_price_strict_mono.

(* every tick of the range has a price, inside [MinSpotPriceV2, MaxSpotPrice] *)
Theorem C14_tick_to_price_total_in_bounds : forall t, MinInitializedTickV2 <= t <= MaxTick ->
  exists p, tick_to_price t = Ok p /\ MinSpotPriceV2 <= p <= MaxSpotPriceBigDec.
Proof. exact tick_to_price_total. Qed.
Print Assumptions C14_tick_to_price_total_in_bounds.

(* out-of-range ticks are rejected *)
Theorem C14_tick_to_price_rejects : forall t,
  (t < MinCurrentTickV2 -> tick_to_price t = Err ETickMin) /\ (MaxTick < t -> tick_to_price t = Err ETickMax).
Proof. intros t; split; [apply tick_to_price_rejects_low|apply tick_to_price_rejects_high]. Qed.
Print Assumptions C14_tick_to_price_rejects.

Example C14_price_nonvacuous :
  MinCurrentTickV2 < -107999999 <= MaxTick /\ -107999999 <> MinInitializedTickV2 /\
  tick_to_price (-107999999) = Ok 1000001000000000000000000 /\
  tick_to_price 342000000 = Ok MaxSpotPriceBigDec /\ tick_to_price (-9000000) = Ok (P36 / 10).
Proof. vm_compute. repeat split; intro; discriminate. Qed.

(* ---- tick -> sqrt price ---- *)
(* non-decreasing over the whole supported range (MinCurrentTickV2 shares the value of MinInitializedTickV2) ... *)
Theorem C14_tick_to_sqrt_price_mono : forall t1 t2 s1 s2,
  MinCurrentTickV2 <= t1 -> t1 <= t2 -> t2 <= MaxTick ->
  tick_to_sqrt_price t1 = Ok s1 -> tick_to_sqrt_price t2 = Ok s2 -> s1 <= s2.
Proof. exact tick_to_sqrt_price_mono. Qed.
Print Assumptions C14_tick_to_sqrt_price_mono.

(* ... and in fact strictly increasing on [MinInitializedTickV2, MaxTick], in both precision regimes and across
   their junction at MinInitializedTick (the 18-digit root separates neighbouring ticks: gap lemma) *)
Theorem C14_tick_to_sqrt_price_strict_mono : forall t1 t2 s1 s2,
  MinInitializedTickV2 <= t1 -> t1 < t2 -> t2 <= MaxTick ->
  tick_to_sqrt_price t1 = Ok s1 -> tick_to_sqrt_price t2 = Ok s2 -> s1 < s2.
Proof. exact tick_to_sqrt_price_strict_mono. Qed.
Print Assumptions C14_tick_to_sqrt_price_strict_mono.

(* inside the supported sqrt-price bounds on the swap-reachable range; below MinSqrtPrice (and at least
   sqrt(10^-30)) on the extended low range *)
Theorem C14_tick_to_sqrt_price_in_bounds : forall t, MinInitializedTick <= t <= MaxTick ->
  exists s, tick_to_sqrt_price t = Ok s /\ MinSqrtPriceBigDec <= s <= MaxSqrtPriceBigDec.
Proof. exact tick_to_sqrt_price_in_bounds. Qed.
Print Assumptions C14_tick_to_sqrt_price_in_bounds.
Theorem C14_tick_to_sqrt_price_in_bounds_low : forall t, MinCurrentTickV2 <= t < MinInitializedTick ->
  exists s, tick_to_sqrt_price t = Ok s /\ 10 ^ 21 <= s < MinSqrtPriceBigDec.
Proof. exact tick_to_sqrt_price_in_bounds_v2. Qed.
Print Assumptions C14_tick_to_sqrt_price_in_bounds_low.

Theorem C14_tick_to_sqrt_price_rejects : forall t,
  (t < MinCurrentTickV2 -> tick_to_sqrt_price t = Err ETickMin) /\ (MaxTick < t -> tick_to_sqrt_price t = Err ETickMax).
Proof. exact tick_to_sqrt_price_rejects. Qed.
Print Assumptions C14_tick_to_sqrt_price_rejects.

Example C14_sqrt_nonvacuous :
  tick_to_sqrt_price (-108000001) = Ok 999999949999998749999937499997 /\      (* 36-digit regime *)
  tick_to_sqrt_price (-108000000) = Ok MinSqrtPriceBigDec /\                  (* 18-digit regime *)
  tick_to_sqrt_price (-107999999) = Ok 1000000500000000000000000000000 /\
  tick_to_sqrt_price 342000000 = Ok MaxSqrtPriceBigDec.
Proof. vm_compute. repeat split; reflexivity. Qed.

(* ---- price -> tick ---- *)
(* tick -> price -> tick is the identity on the whole initialisable range, extended low range included
   (unchopped 36-decimal prices below 10^-12) *)
Theorem C14_price_round_trip : forall t p, MinInitializedTickV2 <= t <= MaxTick ->
  tick_to_price t = Ok p -> calculate_price_to_tick p = Ok t.
Proof. exact price_round_trip_main. Qed.
Print Assumptions C14_price_round_trip.

(* the candidate mechanism: for EVERY price of a tick's bucket (not only tick prices, any of the 10^36 grid)
   CalculatePriceToTick returns that tick or its successor - never further off *)
Theorem C14_price_to_tick_candidate : forall u p pu pu1, MinInitializedTickV2 <= u < MaxTick ->
  tick_to_price u = Ok pu -> tick_to_price (u + 1) = Ok pu1 -> pu <= p < pu1 ->
  calculate_price_to_tick p = Ok u \/ calculate_price_to_tick p = Ok (u + 1).
Proof. exact price_to_tick_near_main. Qed.
Print Assumptions C14_price_to_tick_candidate.
(* "or its successor" cannot be dropped.  NOT a clause of property C14 and not a finding (the only caller is
   CalculateSqrtPriceToTick, which corrects the candidate) - recorded because it is why the correction is needed:
   above 10^25 QuoMut rounds half-even before TruncateInt64, e.g. price(270000005) - 10^-18 maps to 270000005 *)
Definition C14_price_to_tick_floor_claim : Prop := forall u p pu pu1, MinInitializedTickV2 <= u < MaxTick ->
  tick_to_price u = Ok pu -> tick_to_price (u + 1) = Ok pu1 -> pu <= p < pu1 -> calculate_price_to_tick p = Ok u.
Theorem C14_price_to_tick_is_not_floor : exists u p pu pu1, MinInitializedTickV2 <= u < MaxTick /\
  tick_to_price u = Ok pu /\ tick_to_price (u + 1) = Ok pu1 /\ pu <= p < pu1 /\ calculate_price_to_tick p <> Ok u.
Proof. exact price_to_tick_floor_refuted. Qed.
Print Assumptions C14_price_to_tick_is_not_floor.

(* ---- sqrt price -> tick ---- *)
(* bucket mapping on the swap-reachable range, for EVERY sqrt price between adjacent ticks: lower edge inclusive,
   upper edge exclusive.  (Proof: the candidate computed from the half-even rounded square, chopped to 18 decimals,
   searched in the decade table and divided by the increment is the true tick or its successor - parametric in the
   decade exponent, no enumeration; the +-1 correction then selects the true tick because the sqrt price is
   strictly increasing.) *)
Theorem C14_sqrt_price_to_tick_bucket : forall t s st st1, MinInitializedTick <= t < MaxTick ->
  tick_to_sqrt_price t = Ok st -> tick_to_sqrt_price (t + 1) = Ok st1 -> st <= s < st1 ->
  calculate_sqrt_price_to_tick s = Ok t.
Proof. exact bucket_main. Qed.
Print Assumptions C14_sqrt_price_to_tick_bucket.

(* the same for the bucket of MinCurrentTick = MinInitializedTick - 1, whose lower edge is a 36-digit root *)
Theorem C14_sqrt_price_to_tick_bucket_min_current : forall s st st1,
  tick_to_sqrt_price MinCurrentTick = Ok st -> tick_to_sqrt_price MinInitializedTick = Ok st1 -> st <= s < st1 ->
  calculate_sqrt_price_to_tick s = Ok MinCurrentTick.
Proof. exact bucket_min_current_main. Qed.
Print Assumptions C14_sqrt_price_to_tick_bucket_min_current.

(* the top edge is inclusive: the sqrt price of MaxTick maps to MaxTick *)
Theorem C14_sqrt_price_to_tick_top_edge : forall sm,
  tick_to_sqrt_price MaxTick = Ok sm -> calculate_sqrt_price_to_tick sm = Ok MaxTick.
Proof. exact top_edge_main. Qed.
Print Assumptions C14_sqrt_price_to_tick_top_edge.

(* round trip on the swap-reachable range *)
Theorem C14_round_trip : forall t st, MinInitializedTick <= t <= MaxTick ->
  tick_to_sqrt_price t = Ok st -> calculate_sqrt_price_to_tick st = Ok t.
Proof. exact round_trip_main. Qed.
Print Assumptions C14_round_trip.

(* soundness for ALL inputs: a returned tick is the tick whose bucket contains the sqrt price
   (top edge inclusive only at MaxTick), and it lies in [MinCurrentTick - 1, MaxTick] *)
Theorem C14_sqrt_price_to_tick_sound : forall s T, calculate_sqrt_price_to_tick s = Ok T ->
  MinCurrentTick - 1 <= T <= MaxTick /\
  exists sT, tick_to_sqrt_price T = Ok sT /\ sT <= s /\
    ((T < MaxTick /\ exists sT1, tick_to_sqrt_price (T + 1) = Ok sT1 /\ s < sT1) \/ (T = MaxTick /\ s = sT)).
Proof. exact sound_main. Qed.
Print Assumptions C14_sqrt_price_to_tick_sound.

(* out-of-range sqrt prices are rejected: everything above TickToSqrtPrice(MaxTick), and everything below
   TickToSqrtPrice(MinCurrentTick - 1) - in particular zero and all negative values *)
Theorem C14_sqrt_price_rejects : forall s lo hi,
  tick_to_sqrt_price (MinCurrentTick - 1) = Ok lo -> tick_to_sqrt_price MaxTick = Ok hi ->
  0 < lo /\ (s < lo \/ hi < s -> exists e, calculate_sqrt_price_to_tick s = Err e).
Proof. exact rejects_stmt. Qed.
Print Assumptions C14_sqrt_price_rejects.

(* out-of-range prices are rejected by CalculatePriceToTick *)
Theorem C14_price_to_tick_rejects : forall p,
  (p < 0 -> calculate_price_to_tick p = Err ENegPrice) /\
  (0 <= p < MinSpotPriceV2 \/ MaxSpotPriceBigDec < p -> calculate_price_to_tick p = Err EPriceBound).
Proof. exact price_to_tick_rejects. Qed.
Print Assumptions C14_price_to_tick_rejects.

(* FULL rejection claim for the low end (a sqrt price below the bucket of MinCurrentTick is rejected, i.e. every
   returned tick is at least MinCurrentTick) is FALSE of the faithful model and of the code (known finding C14-F1):
   the minimum-tick guard is applied to the candidate before the -1 correction.  The witness is replayed on the
   Go code by the correspondence run (props/c14.py generates the sqrt prices TickToSqrtPrice(MinCurrentTick) - 1, -2 ulp). *)
Definition C14_low_rejection_full : Prop :=
  forall s T, calculate_sqrt_price_to_tick s = Ok T -> MinCurrentTick <= T.
Theorem C14_low_rejection_refuted : exists s T, calculate_sqrt_price_to_tick s = Ok T /\ ~ MinCurrentTick <= T.
Proof. exact low_rejection_refuted. Qed.
Print Assumptions C14_low_rejection_refuted.

(* ---- spacing ---- *)
(* RoundDownTickToSpacing (positive spacing): never up, by less than one spacing, onto a multiple, never out of
   range; what it rejects is exactly a floor outside [MinInitializedTickV2, MaxTick] *)
Theorem C14_round_down_spacing : forall t sp, 0 < sp ->
  (forall r, round_down_tick_to_spacing t sp = Ok r ->
     r <= t /\ t - r < sp /\ Z.rem r sp = 0 /\ r = sp * (t / sp) /\ MinInitializedTickV2 <= r <= MaxTick) /\
  (forall e, round_down_tick_to_spacing t sp = Err e ->
     e = ETickBounds /\ (sp * (t / sp) > MaxTick \/ sp * (t / sp) < MinInitializedTickV2)).
Proof. exact round_down_stmt. Qed.
Print Assumptions C14_round_down_spacing.

(* no tick of the range is rejected for an authorised spacing; ticks outside are (beyond one spacing above) *)
Theorem C14_round_down_spacing_total : forall t sp, In sp AuthorizedTickSpacing ->
  (MinInitializedTickV2 <= t <= MaxTick -> exists r, round_down_tick_to_spacing t sp = Ok r) /\
  (t < MinInitializedTickV2 \/ MaxTick + sp <= t -> round_down_tick_to_spacing t sp = Err ETickBounds).
Proof. exact round_down_total_stmt. Qed.
Print Assumptions C14_round_down_spacing_total.

(* SqrtPriceToTickRoundDownSpacing on the swap-reachable range: defined for every sqrt price of a bucket, and the
   result is the bucket's tick rounded down to the spacing, still at or above MinInitializedTick *)
Theorem C14_sqrt_price_to_tick_round_down_spacing : forall t s st st1 sp,
  In sp AuthorizedTickSpacing -> MinInitializedTick <= t < MaxTick ->
  tick_to_sqrt_price t = Ok st -> tick_to_sqrt_price (t + 1) = Ok st1 -> st <= s < st1 ->
  exists r, sqrt_price_to_tick_round_down_spacing s sp = Ok r /\
    r <= t /\ t - r < sp /\ Z.rem r sp = 0 /\ MinInitializedTick <= r.
Proof. exact sqrt_round_down_total. Qed.
Print Assumptions C14_sqrt_price_to_tick_round_down_spacing.

(* ---- range validation ---- *)
Theorem C14_validate_tick_range : forall sp lo hi, 0 < sp < 2 ^ 63 ->
  (validate_tick_range_is_valid sp lo hi = Ok tt <->
   Z.rem lo sp = 0 /\ Z.rem hi sp = 0 /\ MinInitializedTick <= lo /\ lo < hi /\ hi <= MaxTick).
Proof. exact validate_spec. Qed.
Print Assumptions C14_validate_tick_range.
Theorem C14_validate_tick_range_rejects : forall sp lo hi e, 0 < sp < 2 ^ 63 ->
  validate_tick_range_is_valid sp lo hi = Err e ->
  (e = ETickSpacing /\ (Z.rem lo sp <> 0 \/ Z.rem hi sp <> 0)) \/
  (e = EInvalidTick /\ (lo < MinInitializedTick \/ MaxTick <= lo \/ MaxTick < hi \/ hi <= MinInitializedTick)) \/
  (e = ELowerUpper /\ hi <= lo).
Proof. exact validate_rejects. Qed.
Print Assumptions C14_validate_tick_range_rejects.

(* on the swap-reachable range every tick is its own canonical tick: roundTickToCanonicalPriceTick (as called by
   lp.go after TicksToSqrtPrice) returns a valid range unchanged *)
Theorem C14_canonical_tick_fixed : forall sp lo hi, In sp AuthorizedTickSpacing ->
  validate_tick_range_is_valid sp lo hi = Ok tt ->
  exists sl su, ticks_to_sqrt_price lo hi = Ok (sl, su) /\
                round_tick_to_canonical_price_tick lo hi sl su sp = Ok (lo, hi).
Proof. exact canonical_fixed. Qed.
Print Assumptions C14_canonical_tick_fixed.

Example C14_bucket_nonvacuous :
  MinInitializedTick <= 161795100 < MaxTick /\
  tick_to_sqrt_price 161795100 = Ok 989701975344093167481857300000000000000000000 /\
  tick_to_sqrt_price 161795101 = Ok 989702025864350749536406063000000000000000000 /\
  calculate_sqrt_price_to_tick 989702025864350749536406062999999999999999999 = Ok 161795100 /\
  calculate_sqrt_price_to_tick 989702025864350749536406063000000000000000000 = Ok 161795101 /\
  In 100 AuthorizedTickSpacing /\
  sqrt_price_to_tick_round_down_spacing 989702025864350749536406062999999999999999999 1000 = Ok 161795000 /\
  validate_tick_range_is_valid 100 (-108000000) 342000000 = Ok tt /\
  round_down_tick_to_spacing (-17) 10 = Ok (-20).
Proof. vm_compute. repeat split; try discriminate; auto. Qed.
