(* C14 - Tick and price conversions are monotone, in bounds, and mutually inverse.
   Property theorems only; each is closed by a lemma from C14/Proofs*.v.  All statements are about the
   Gallina model C14/Model.v (tied to /repo by the correspondence run) and use the constants generated
   from /repo (Gen/C14_consts.v).  BigDec values are raw mantissas (x 10^36). *)
From Coq Require Import ZArith List Bool Lia.
Import ListNotations.
From Osmo Require Import Base.DecModel Gen.C14_consts C14.Model C14.ProofsPrice.
Open Scope Z_scope.

(* the documented geometric/additive formula, exactly, for every tick of the supported range:
   with t = geo_dist*q + r (Go's truncated division, geo_dist = 9*10^6),
   price = (10^6 * [10 if t<0] + r) * 10^(q - 6 - [t<0])        (as a raw mantissa: x 10^36) *)
Theorem C14_tick_to_price_formula : forall t, MinCurrentTickV2 < t <= MaxTick -> t <> MinInitializedTickV2 ->
  let q := Z.quot t geo_dist in let r := Z.rem t geo_dist in
  tick_to_price t = Ok (if t <? 0 then (10 ^ 7 + r) * 10 ^ (36 + q - 7) else (10 ^ 6 + r) * 10 ^ (36 + q - 6)).
Proof. intros t H Hs. rewrite geo_dist_val. apply tick_to_price_formula_gen; assumption. Qed.
Print Assumptions C14_tick_to_price_formula.

(* the two special ticks at the bottom of the extended range both give MinSpotPriceV2 = 10^-30
   (for MinInitializedTickV2 this is also the value of the formula, read as a rational) *)
Theorem C14_tick_to_price_special : forall t, t = MinInitializedTickV2 \/ t = MinCurrentTickV2 ->
  tick_to_price t = Ok MinSpotPriceV2 /\ MinSpotPriceV2 = 10 ^ 6.
Proof. intros t H. split; [apply tick_to_price_special, H|reflexivity]. Qed.
Print Assumptions C14_tick_to_price_special.

(* strictly increasing over the whole initialisable range (extended low range included) *)
Theorem C14_tick_to_price_strict_mono : forall t1 t2 p1 p2,
  MinInitializedTickV2 <= t1 -> t1 < t2 -> t2 <= MaxTick ->
  tick_to_price t1 = Ok p1 -> tick_to_price t2 = Ok p2 -> p1 < p2.
Proof. exact tick_to_price_strict_mono. Qed.
Print Assumptions C14_tick_to_price_strict_mono.

(* every tick of the range has a price, inside [MinSpotPriceV2, MaxSpotPrice] *)
Theorem C14_tick_to_price_total_in_bounds : forall t, MinInitializedTickV2 <= t <= MaxTick ->
  exists p, tick_to_price t = Ok p /\ MinSpotPriceV2 <= p <= MaxSpotPriceBigDec.
Proof. exact tick_to_price_total. Qed.
Print Assumptions C14_tick_to_price_total_in_bounds.

(* out-of-range ticks are rejected *)
Theorem C14_tick_to_price_rejects : forall t,
  (t < MinCurrentTickV2 -> tick_to_price t = Err ETickMin) /\ (MaxTick < t -> tick_to_price t = Err ETickMax).
Proof. intros t; split; [apply tick_to_price_rejects_low|apply tick_to_price_rejects_high]. Qed.
Print Assumptions C14_tick_to_price_rejects.

Example C14_price_nonvacuous :
  MinCurrentTickV2 < -107999999 <= MaxTick /\ -107999999 <> MinInitializedTickV2 /\
  tick_to_price (-107999999) = Ok 1000001000000000000000000 /\
  tick_to_price 342000000 = Ok MaxSpotPriceBigDec /\ tick_to_price (-9000000) = Ok (P36 / 10).
Proof. vm_compute. repeat split; intro; discriminate. Qed.
