(* C14 - Tick and price conversions are monotone, in bounds, and mutually inverse.
   Property theorems only; each is closed by a lemma from C14/Proofs*.v.  All statements are about the
   Gallina model C14/Model.v (tied to /repo by the correspondence run) and use the constants generated
   from /repo (Gen/C14_consts.v).  BigDec values are raw mantissas (x 10^36). *)
From Coq Require Import ZArith List Bool Lia.
Import ListNotations.
From Osmo Require Import Base.DecModel Gen.C14_consts C14.Model C14.ProofsPrice C14.ProofsSqrt.
Open Scope Z_scope.

(* the documented geometric/additive formula, exactly, for every tick of the supported range:
   with t = geo_dist*q + r (Go's truncated division, geo_dist = 9*10^6),
   price = (10^6 * [10 if t<0] + r) * 10^(q - 6 - [t<0])        (as a raw mantissa: x 10^36) *)
Theorem C14_tick_to_price_formula : forall t, MinCurrentTickV2 < t <= MaxTick -> t <> MinInitializedTickV2 ->
  let q := Z.quot t geo_dist in let r := Z.rem t geo_dist in
  tick_to_price t = Ok (if t <? 0 then (10 ^ 7 + r) * 10 ^ (36 + q - 7) else (10 ^ 6 + r) * 10 ^ (36 + q - 6)).
Proof. intros t H Hs. rewrite geo_dist_val. apply tick_to_price_formula_gen; assumption. Qed.
Print Assumptions C14_tick_to_price_formula.

(* the two special ticks at the bottom of the extended range both give MinSpotPriceV2 = 10^-30
   (for MinInitializedTickV2 this is also the value of the formula, read as a rational) *)
Theorem C14_tick_to_price_special : forall t, t = MinInitializedTickV2 \/ t = MinCurrentTickV2 ->
  tick_to_price t = Ok MinSpotPriceV2 /\ MinSpotPriceV2 = 10 ^ 6.
Proof. intros t H. split; [apply tick_to_price_special, H|reflexivity]. Qed.
Print Assumptions C14_tick_to_price_special.

(* strictly increasing over the whole initialisable range (extended low range included) *)
Theorem C14_tick_to_price_strict_mono : forall t1 t2 p1 p2,
  MinInitializedTickV2 <= t1 -> t1 < t2 -> t2 <= MaxTick ->
  tick_to_price t1 = Ok p1 -> tick_to_price t2 = Ok p2 -> p1 < p2.
Proof. exact tick_to_price_strict_mono. Qed.
Print Assumptions C14_tick_to_price_strict_mono.

(* every tick of the range has a price, inside [MinSpotPriceV2, MaxSpotPrice] *)
Theorem C14_tick_to_price_total_in_bounds : forall t, MinInitializedTickV2 <= t <= MaxTick ->
  exists p, tick_to_price t = Ok p /\ MinSpotPriceV2 <= p <= MaxSpotPriceBigDec.
Proof. exact tick_to_price_total. Qed.
Print Assumptions C14_tick_to_price_total_in_bounds.

(* out-of-range ticks are rejected *)
Theorem C14_tick_to_price_rejects : forall t,
  (t < MinCurrentTickV2 -> tick_to_price t = Err ETickMin) /\ (MaxTick < t -> tick_to_price t = Err ETickMax).
Proof. intros t; split; [apply tick_to_price_rejects_low|apply tick_to_price_rejects_high]. Qed.
Print Assumptions C14_tick_to_price_rejects.

Example C14_price_nonvacuous :
  MinCurrentTickV2 < -107999999 <= MaxTick /\ -107999999 <> MinInitializedTickV2 /\
  tick_to_price (-107999999) = Ok 1000001000000000000000000 /\
  tick_to_price 342000000 = Ok MaxSpotPriceBigDec /\ tick_to_price (-9000000) = Ok (P36 / 10).
Proof. vm_compute. repeat split; intro; discriminate. Qed.

(* ---- tick -> sqrt price ---- *)
(* non-decreasing over the whole supported range (MinCurrentTickV2 shares the value of MinInitializedTickV2) ... *)
Theorem C14_tick_to_sqrt_price_mono : forall t1 t2 s1 s2,
  MinCurrentTickV2 <= t1 -> t1 <= t2 -> t2 <= MaxTick ->
  tick_to_sqrt_price t1 = Ok s1 -> tick_to_sqrt_price t2 = Ok s2 -> s1 <= s2.
Proof. exact tick_to_sqrt_price_mono. Qed.
Print Assumptions C14_tick_to_sqrt_price_mono.

(* ... and in fact strictly increasing on [MinInitializedTickV2, MaxTick], in both precision regimes and across
   their junction at MinInitializedTick (the 18-digit root separates neighbouring ticks: gap lemma) *)
Theorem C14_tick_to_sqrt_price_strict_mono : forall t1 t2 s1 s2,
  MinInitializedTickV2 <= t1 -> t1 < t2 -> t2 <= MaxTick ->
  tick_to_sqrt_price t1 = Ok s1 -> tick_to_sqrt_price t2 = Ok s2 -> s1 < s2.
Proof. exact tick_to_sqrt_price_strict_mono. Qed.
Print Assumptions C14_tick_to_sqrt_price_strict_mono.

(* inside the supported sqrt-price bounds on the swap-reachable range; below MinSqrtPrice (and at least
   sqrt(10^-30)) on the extended low range *)
Theorem C14_tick_to_sqrt_price_in_bounds : forall t, MinInitializedTick <= t <= MaxTick ->
  exists s, tick_to_sqrt_price t = Ok s /\ MinSqrtPriceBigDec <= s <= MaxSqrtPriceBigDec.
Proof. exact tick_to_sqrt_price_in_bounds. Qed.
Print Assumptions C14_tick_to_sqrt_price_in_bounds.
Theorem C14_tick_to_sqrt_price_in_bounds_low : forall t, MinCurrentTickV2 <= t < MinInitializedTick ->
  exists s, tick_to_sqrt_price t = Ok s /\ 10 ^ 21 <= s < MinSqrtPriceBigDec.
Proof. exact tick_to_sqrt_price_in_bounds_v2. Qed.
Print Assumptions C14_tick_to_sqrt_price_in_bounds_low.

Theorem C14_tick_to_sqrt_price_rejects : forall t,
  (t < MinCurrentTickV2 -> tick_to_sqrt_price t = Err ETickMin) /\ (MaxTick < t -> tick_to_sqrt_price t = Err ETickMax).
Proof. exact tick_to_sqrt_price_rejects. Qed.
Print Assumptions C14_tick_to_sqrt_price_rejects.

Example C14_sqrt_nonvacuous :
  tick_to_sqrt_price (-108000001) = Ok 999999949999998749999937499997 /\      (* 36-digit regime *)
  tick_to_sqrt_price (-108000000) = Ok MinSqrtPriceBigDec /\                  (* 18-digit regime *)
  tick_to_sqrt_price (-107999999) = Ok 1000000500000000000000000000000 /\
  tick_to_sqrt_price 342000000 = Ok MaxSqrtPriceBigDec.
Proof. vm_compute. repeat split; reflexivity. Qed.
