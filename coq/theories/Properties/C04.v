(* C04 - Balancer and stableswap pool math never gives value away.
   Property theorems only; each is closed by a lemma from C04/Proofs*.v. *)
From Coq Require Import ZArith List Bool Lia.
Import ListNotations.
From Coq Require Import QArith Reals.
From Osmo Require Import Base.DecModel C04.Common C04.Lp C04.MathLib C04.Balancer C04.Stableswap C04.ProofsLp C04.ProofsPools C04.ProofsBalancer C04.ProofsBalancerReal C04.ProofsStable C04.BridgeC13 Gen.C04_consts.
Open Scope Z_scope.

(* ------------------------------------------------------------------------------------------
   Proportional joins and exits (cfmm_common/lp.go; integer arithmetic only, fully proved)
   ------------------------------------------------------------------------------------------ *)

(* proportional joins mint at most the proportional share count: for every coin,
   numShares / totalShares <= joined_i / reserve_i, where joined_i = provided_i - remainder_i in [0, provided_i] *)
Theorem C04_join_mints_at_most_proportional : forall R S A ns rem,
  Forall (fun r => 0 < r) R -> Forall (fun a => 0 <= a) A -> length A = length R -> 0 <= S ->
  maximal_exact_ratio_join R S A = Ok (ns, rem) ->
  0 <= ns /\
  Forall2 (fun ar rm => 0 <= rm <= fst ar /\ ns * snd ar <= S * (fst ar - rm)) (zip A R) rem.
Proof. exact join_shares_le_proportional. Qed.
Print Assumptions C04_join_mints_at_most_proportional.

(* the mechanism: one ratio mn (18 decimals, truncated), shares = floor(mn * S), and the tokens needed of every coin
   are rounded up: mn * R_i <= joined_i, and joined_i < mn * R_i + 1 unless the coin is taken in full *)
Theorem C04_join_tokens_needed_rounded_up : forall R S A ns rem,
  Forall (fun r => 0 < r) R -> Forall (fun a => 0 <= a) A -> length A = length R -> 0 <= S ->
  maximal_exact_ratio_join R S A = Ok (ns, rem) ->
  exists mn, 0 <= mn /\ 0 <= ns /\ ns * P18 <= mn * S /\ mn * S < (ns + 1) * P18 /\
    Forall2 (fun ar rm => join_coin_ok mn ar rm /\ join_coin_ceil mn ar rm) (zip A R) rem.
Proof. exact maximal_exact_ratio_join_spec. Qed.
Print Assumptions C04_join_tokens_needed_rounded_up.

(* exits pay at most the proportional reserves (and never a whole reserve), for every exit fee in [0, 1] *)
Theorem C04_exit_pays_at_most_proportional : forall R S ex fee outs,
  Forall (fun r => 0 < r) R -> 0 <= ex -> 0 <= fee <= P18 ->
  calc_exit_pool R S ex fee = Ok outs ->
  Forall2 (fun r o => 0 <= o < r /\ o * S <= ex * r) R outs.
Proof. exact exit_le_proportional. Qed.
Print Assumptions C04_exit_pays_at_most_proportional.

Theorem C04_exit_after_fee : forall R S ex fee outs,
  Forall (fun r => 0 < r) R -> 0 <= ex -> 0 <= fee <= P18 ->
  calc_exit_pool R S ex fee = Ok outs ->
  ex < S /\ Forall2 (fun r o => 0 <= o < r /\ o * S * P18 <= ex * (P18 - fee) * r) R outs.
Proof. exact calc_exit_pool_spec. Qed.
Print Assumptions C04_exit_after_fee.

(* pool level, both pool kinds: a successful JoinPoolNoSwap / ExitPool never lowers any reserve per share *)
Theorem C04_balancer_join_no_swap : forall p amts ns p',
  Forall (fun r => 0 < r) (b_res p) -> 0 <= b_shares p -> Forall (fun a => 0 <= a) amts ->
  b_join_no_swap p amts = Ok (ns, p') ->
  0 <= ns /\ b_shares p' = b_shares p + ns /\ b_w p' = b_w p /\
  per_share_up (b_res p) (b_shares p) (b_res p') (b_shares p').
Proof. exact b_join_no_swap_sound. Qed.
Print Assumptions C04_balancer_join_no_swap.

Theorem C04_balancer_exit : forall p sh fee coins p',
  Forall (fun r => 0 < r) (b_res p) -> 0 <= sh -> 0 <= fee <= P18 ->
  b_exit p sh fee = Ok (coins, p') ->
  sh < b_shares p /\ b_shares p' = b_shares p - sh /\ b_w p' = b_w p /\ b_res p' = sub_vec (b_res p) coins /\
  Forall2 (fun r o => 0 <= o < r /\ o * b_shares p <= sh * r) (b_res p) coins /\
  per_share_down (b_res p) (b_shares p) (b_res p') (b_shares p').
Proof. exact b_exit_sound. Qed.
Print Assumptions C04_balancer_exit.

Theorem C04_stableswap_join_no_swap : forall p amts ns p',
  Forall (fun r => 0 < r) (s_res p) -> 0 <= s_shares p -> Forall (fun a => 0 <= a) amts ->
  s_join_no_swap p amts = Ok (ns, p') ->
  0 <= ns /\ s_shares p' = s_shares p + ns /\ s_sf p' = s_sf p /\
  per_share_up (s_res p) (s_shares p) (s_res p') (s_shares p').
Proof. exact s_join_no_swap_sound. Qed.
Print Assumptions C04_stableswap_join_no_swap.

Theorem C04_stableswap_exit : forall p sh fee coins p',
  Forall (fun r => 0 < r) (s_res p) -> 0 <= sh -> 0 <= fee <= P18 ->
  s_exit p sh fee = Ok (coins, p') ->
  sh < s_shares p /\ s_shares p' = s_shares p - sh /\ s_sf p' = s_sf p /\ s_res p' = sub_vec (s_res p) coins /\
  Forall2 (fun r o => 0 <= o < r /\ o * s_shares p <= sh * r) (s_res p) coins /\
  per_share_down (s_res p) (s_shares p) (s_res p') (s_shares p').
Proof. exact s_exit_sound. Qed.
Print Assumptions C04_stableswap_exit.

(* ------------------------------------------------------------------------------------------
   Balancer (weighted) pools: swap / single-asset join / single-asset exit results are the rounded images
   (Truncate what the pool pays, Ceil what it charges) of the constant-weighted-product formula evaluated
   with osmomath.Pow on operands rounded to 18 decimals.  [cfi_image b1 b2 wf bu wu r] says
   r = bu * (1 - Pow(b1/b2, wf/wu)) with every operation as the code rounds it.
   ------------------------------------------------------------------------------------------ *)
Theorem C04_balancer_swap_out_is_truncated_formula : forall p i j a fee out,
  b_calc_out_given_in p i j a fee = Ok out ->
  exists r, cfi_image (dec_of_int (nthZ (b_res p) i))
                      (d_mul (dec_of_int a) (P18 - fee) + dec_of_int (nthZ (b_res p) i))
                      (dec_of_int (nthZ (b_w p) i)) (dec_of_int (nthZ (b_res p) j)) (dec_of_int (nthZ (b_w p) j)) r /\
            out = Z.quot r P18 /\ 0 < out.
Proof. exact b_calc_out_rounded_image. Qed.
Print Assumptions C04_balancer_swap_out_is_truncated_formula.

Theorem C04_balancer_swap_in_is_ceiled_formula : forall p i j o fee tin,
  b_calc_in_given_out p i j o fee = Ok tin ->
  exists r, cfi_image (dec_of_int (nthZ (b_res p) i)) (dec_of_int (nthZ (b_res p) i) - dec_of_int o)
                      (dec_of_int (nthZ (b_w p) i)) (dec_of_int (nthZ (b_res p) j)) (dec_of_int (nthZ (b_w p) j)) r /\
            P18 - fee <> 0 /\ tin = Z.quot (d_ceil (d_quo (- r) (P18 - fee))) P18 /\ 0 < tin.
Proof. exact b_calc_in_rounded_image. Qed.
Print Assumptions C04_balancer_swap_in_is_ceiled_formula.

Theorem C04_balancer_single_join_is_truncated_formula : forall p bal w a fee ts s,
  b_calc_single_asset_join p bal w a fee ts = Ok s ->
  exists nw fr r, b_total_weight p <> 0 /\ nw = d_quo (dec_of_int w) (dec_of_int (b_total_weight p)) /\
    fee_ratio nw fee = Ok fr /\
    cfi_image (dec_of_int bal + d_mul (dec_of_int a) fr) (dec_of_int bal) nw (dec_of_int ts) P18 r /\
    s = Z.quot (- r) P18.
Proof. exact b_single_asset_join_rounded_image. Qed.
Print Assumptions C04_balancer_single_join_is_truncated_formula.

(* the single-asset exit TRUNCATES the shares it burns (the user's favour, by less than one share unit) *)
Theorem C04_balancer_single_exit_is_truncated_formula : forall p i amt fee ef s p',
  b_exit_swap_out p i amt fee ef = Ok (s, p') ->
  exists nw fr r, nw = d_quo (dec_of_int (nthZ (b_w p) i)) (dec_of_int (b_total_weight p)) /\ fee_ratio nw fee = Ok fr /\ fr <> 0 /\
    cfi_image (dec_of_int (nthZ (b_res p) i) - d_quo (dec_of_int amt) fr) (dec_of_int (nthZ (b_res p) i)) nw (dec_of_int (b_shares p)) P18 r /\
    P18 - ef <> 0 /\ s = Z.quot (d_quo r (P18 - ef)) P18 /\ 0 < s /\ b_shares p' = b_shares p - s /\ 0 <= b_shares p'.
Proof. exact b_exit_swap_out_rounded_image. Qed.
Print Assumptions C04_balancer_single_exit_is_truncated_formula.

(* the integer core of an exact-in swap: token out = floor( Bout * (1 - Pow(y, wr)) ) exactly, for the 18-decimal operands
   y = Bin / (Bin + in (1 - fee)), wr = wIn / wOut the code computes *)
Theorem C04_balancer_swap_out_floor : forall p i j a fee out,
  b_calc_out_given_in p i j a fee = Ok out ->
  exists y wr pw,
    y = d_quo (dec_of_int (nthZ (b_res p) i)) (d_mul (dec_of_int a) (P18 - fee) + dec_of_int (nthZ (b_res p) i)) /\
    wr = d_quo (dec_of_int (nthZ (b_w p) i)) (dec_of_int (nthZ (b_w p) j)) /\
    pow y wr = Ok pw /\
    0 < out /\ out * P18 <= (P18 - pw) * nthZ (b_res p) j < (out + 1) * P18.
Proof. exact b_calc_out_floor. Qed.
Print Assumptions C04_balancer_swap_out_floor.

(* the integer core of the single-asset join: shares = Truncate( S * (Pow(y, nw) - 1) ), y = (B + in * feeRatio) / B *)
Theorem C04_balancer_single_join_floor : forall p bal w a fee ts s,
  b_calc_single_asset_join p bal w a fee ts = Ok s ->
  exists nw fr y pw,
    nw = d_quo (dec_of_int w) (dec_of_int (b_total_weight p)) /\ fee_ratio nw fee = Ok fr /\
    y = d_quo (dec_of_int bal + d_mul (dec_of_int a) fr) (dec_of_int bal) /\
    pow y nw = Ok pw /\ s = Z.quot ((pw - P18) * ts) P18.
Proof. exact b_single_asset_join_floor. Qed.
Print Assumptions C04_balancer_single_join_floor.

(* |result - exact formula| <= eps * reserve + 1: if the power the code computed is within eps of the true power of the
   18-decimal operands y, wr it used, the amount paid out is within eps * Bout + 1 of Bout * (1 - y^wr) *)
Theorem C04_balancer_swap_out_formula_error : forall p i j a fee out (eps : R),
  b_calc_out_given_in p i j a fee = Ok out -> (0 <= nthZ (b_res p) j)%Z ->
  exists y wr pw : Z,
    y = d_quo (dec_of_int (nthZ (b_res p) i)) (d_mul (dec_of_int a) (P18 - fee) + dec_of_int (nthZ (b_res p) i)) /\
    wr = d_quo (dec_of_int (nthZ (b_w p) i)) (dec_of_int (nthZ (b_w p) j)) /\ pow y wr = Ok pw /\
    (Rabs (IZR pw / D18 - Rpower (IZR y / D18) (IZR wr / D18)) <= eps ->
     Rabs (IZR out - IZR (nthZ (b_res p) j) * (1 - Rpower (IZR y / D18) (IZR wr / D18))) <= eps * IZR (nthZ (b_res p) j) + 1)%R.
Proof. exact swap_out_formula_error. Qed.
Print Assumptions C04_balancer_swap_out_formula_error.

(* value function, real analysis only: paying out at most Bout (1 - y^(wi/wj) (1 - e)) lowers Bin^wi Bout^wj by at most (1 - e)^wj *)
Theorem C04_value_monotone_abstract : forall Bi Bj a' out wi wj eps : R,
  (0 < Bi -> 0 < Bj -> 0 <= a' -> 0 < wi -> 0 < wj -> 0 <= eps < 1 ->
  out <= Bj * (1 - Rpower (Bi / (Bi + a')) (wi / wj) * (1 - eps)) ->
  Rpower Bi wi * Rpower Bj wj * Rpower (1 - eps) wj <= Rpower (Bi + a') wi * Rpower (Bj - out) wj)%R.
Proof. exact value_monotone_abstract. Qed.
Print Assumptions C04_value_monotone_abstract.

(* PARTIAL (value function of the weighted pool under an exact-in swap).  Hypotheses, all explicit:
   - [pow_accurate]: on the base range [1/2, 1] the computed power is not below the true power of its 18-decimal operands by
     more than eps (the documented precision; C13's finding F4 shows it fails for smaller bases - and this tree lets them occur), for
     exponents with an integer part of at most 2^28 (balancer weight ratios are below 2^20);
   - the Pow base of THIS swap lies in [1/2, 1];
   - the 18-decimal rounding of the two operands costs at most the factor (1 - eta) on the power.
   Conclusion: Bin^wi * Bout^wj (all other reserves and the share total are untouched) falls by at most the factor
   (1 - e')^wj with the explicit e' = eta + eps / y^(wi/wj).  What is missing for the full statement: a proof of [pow_accurate]
   (C13's territory), a bound on eta (it is about (wr + 1) * 10^-18 / y), and the same argument for exact-out swaps and
   single-asset joins / exits (same structure; only the integer cores above are proved for them). *)
Theorem C04_balancer_swap_value_partial : forall eps : R,
  (forall b e r : Z, (P18 / 2 <= b <= P18)%Z -> (0 <= e)%Z -> (Z.quot e P18 <= 2 ^ 28)%Z -> pow b e = Ok r ->
     Rpower (IZR b / D18) (IZR e / D18) - eps <= IZR r / D18)%R ->
  forall (p : bpool) (i j : nat) (a fee out : Z) (eta : R),
  b_calc_out_given_in p i j a fee = Ok out ->
  let Bi := IZR (nthZ (b_res p) i) in
  let Bj := IZR (nthZ (b_res p) j) in
  let wi := IZR (nthZ (b_w p) i) in
  let wj := IZR (nthZ (b_w p) j) in
  let a' := (IZR a * (1 - IZR fee / D18))%R in
  let yd := d_quo (dec_of_int (nthZ (b_res p) i)) (d_mul (dec_of_int a) (P18 - fee) + dec_of_int (nthZ (b_res p) i)) in
  let wrd := d_quo (dec_of_int (nthZ (b_w p) i)) (dec_of_int (nthZ (b_w p) j)) in
  let pt := Rpower (Bi / (Bi + a')) (wi / wj) in
  (0 < Bi)%R -> (0 < Bj)%R -> (0 <= IZR a)%R -> (0 < wi)%R -> (0 < wj)%R -> (0 <= IZR fee / D18 <= 1)%R ->
  (P18 / 2 <= yd <= P18)%Z -> (0 <= wrd)%Z -> (Z.quot wrd P18 <= 2 ^ 28)%Z ->
  (pt * (1 - eta) <= Rpower (IZR yd / D18) (IZR wrd / D18))%R ->
  (0 <= eta + eps / pt < 1)%R ->
  (Rpower Bi wi * Rpower Bj wj * Rpower (1 - (eta + eps / pt)) wj <= Rpower (Bi + IZR a) wi * Rpower (Bj - IZR out) wj)%R.
Proof. exact swap_out_value_partial. Qed.
Print Assumptions C04_balancer_swap_value_partial.


(* PARTIAL (single-asset join).  Hypotheses: on bases in [1, 2) the computed power is not ABOVE the true power of its 18-decimal
   operands by more than eps >= 0; the base of THIS join lies in [1, 2); the operand rounding adds at most the factor (1 + eta).
   Conclusion: B^nw / S - the joined asset's contribution to the value per share, nothing else changes - falls by at most the
   factor 1 / (1 + eta + eps / y^nw), y = (B + a) / B. *)
Theorem C04_balancer_single_join_value_partial : forall eps : R, (0 <= eps)%R ->
  (forall b e r : Z, (P18 <= b < 2 * P18)%Z -> (0 <= e < P18)%Z -> pow b e = Ok r ->
     IZR r / D18 <= Rpower (IZR b / D18) (IZR e / D18) + eps)%R ->
  forall (p : bpool) (bal w a fee ts s : Z) (eta : R),
  b_calc_single_asset_join p bal w a fee ts = Ok s ->
  let nwd := d_quo (dec_of_int w) (dec_of_int (b_total_weight p)) in
  forall fr : Z, fee_ratio nwd fee = Ok fr ->
  let yd := d_quo (dec_of_int bal + d_mul (dec_of_int a) fr) (dec_of_int bal) in
  let B := IZR bal in let S := IZR ts in let nw := (IZR nwd / D18)%R in
  let pt := Rpower ((B + IZR a) / B) nw in
  (0 < B)%R -> (0 <= IZR a)%R -> (0 < nw)%R -> (0 < S)%R -> (0 <= s)%Z ->
  (P18 <= yd < 2 * P18)%Z -> (0 <= nwd < P18)%Z ->
  (Rpower (IZR yd / D18) nw <= pt * (1 + eta))%R -> (0 <= eta)%R ->
  (Rpower B nw / S <= (1 + (eta + eps / pt)) * (Rpower (B + IZR a) nw / (S + IZR s)))%R.
Proof. exact single_join_value_partial. Qed.
Print Assumptions C04_balancer_single_join_value_partial.

(* ---- with C13's PROVED Pow bounds (C04/BridgeC13.v: the C04 copies of Pow / PowApprox / ApproxSqrt compute what C13's models
   compute, so C13_pow_bound / C13_pow_approx_bound apply): no hypothesis about Pow is left on the base range [1/2, 2) ---- *)

(* the C04 copy of Pow returns what C13's model returns *)
Theorem C04_pow_is_C13_pow : forall base exp r,
  P18 <= 2 * base -> base < 2 * P18 -> 0 <= exp -> pow base exp = Ok r -> C13.Pow.pow base exp = C13.Common.Ok r.
Proof. exact pow_agree. Qed.
Print Assumptions C04_pow_is_C13_pow.

(* Pow accuracy as the pool math uses it: exponent below 1 (normalised weights) on bases in [1/2, 2): 1e-8 + 1e-12;
   any exponent with integer part <= 2^28 (weight ratios) on bases in [1/2, 1]: eps_swap = 1e-8 + 1e-12 + 5*2^28*1e-18 + 0.5e-18 *)
Theorem C04_pow_accuracy : forall b e r, pow b e = Ok r ->
  ((P18 <= 2 * b)%Z -> (b < 2 * P18)%Z -> (0 <= e < P18)%Z ->
     Rabs (IZR r / D18 - Rpower (IZR b / D18) (IZR e / D18)) <= eps_frac)%R /\
  ((P18 <= 2 * b)%Z -> (b <= P18)%Z -> (0 <= e)%Z -> (Z.quot e P18 <= 2 ^ 28)%Z ->
     Rabs (IZR r / D18 - Rpower (IZR b / D18) (IZR e / D18)) <= eps_swap)%R.
Proof.
  intros b e r H. split; intros; [apply c04_pow_frac_bound|apply c04_pow_le_one_bound]; assumption.
Qed.
Print Assumptions C04_pow_accuracy.

(* exact-in swap with Pow base in [1/2, 1] (i.e. the tokens in, after the spread factor, do not exceed the in-reserve):
   |out - Bout (1 - y^wr)| <= eps_swap * Bout + 1 on the 18-decimal operands y, wr *)
Theorem C04_balancer_swap_out_formula_error_on_half_to_one : forall p i j a fee out,
  b_calc_out_given_in p i j a fee = Ok out -> (0 <= nthZ (b_res p) j)%Z ->
  let y := d_quo (dec_of_int (nthZ (b_res p) i)) (d_mul (dec_of_int a) (P18 - fee) + dec_of_int (nthZ (b_res p) i)) in
  let wr := d_quo (dec_of_int (nthZ (b_w p) i)) (dec_of_int (nthZ (b_w p) j)) in
  (P18 / 2 <= y <= P18)%Z -> (0 <= wr)%Z -> (Z.quot wr P18 <= 2 ^ 28)%Z ->
  (Rabs (IZR out - IZR (nthZ (b_res p) j) * (1 - Rpower (IZR y / D18) (IZR wr / D18))) <= eps_swap * IZR (nthZ (b_res p) j) + 1)%R.
Proof. exact swap_out_formula_error_on_half_to_one. Qed.
Print Assumptions C04_balancer_swap_out_formula_error_on_half_to_one.

(* value function under an exact-in swap with Pow base in [1/2, 1]: Bin^wi * Bout^wj falls by at most the factor
   (1 - (eta + eps_swap / y^(wi/wj)))^wj; the only premise left besides the ranges is the factor (1 - eta) that rounding the two
   operands to 18 decimals costs on the power (about (wr + 1) * 1e-18 / y; not bounded in Coq) *)
Theorem C04_balancer_swap_value_on_half_to_one : forall p i j a fee out (eta : R),
  b_calc_out_given_in p i j a fee = Ok out ->
  let Bi := IZR (nthZ (b_res p) i) in let Bj := IZR (nthZ (b_res p) j) in
  let wi := IZR (nthZ (b_w p) i) in let wj := IZR (nthZ (b_w p) j) in
  let a' := (IZR a * (1 - IZR fee / D18))%R in
  let yd := d_quo (dec_of_int (nthZ (b_res p) i)) (d_mul (dec_of_int a) (P18 - fee) + dec_of_int (nthZ (b_res p) i)) in
  let wrd := d_quo (dec_of_int (nthZ (b_w p) i)) (dec_of_int (nthZ (b_w p) j)) in
  let pt := Rpower (Bi / (Bi + a')) (wi / wj) in
  (0 < Bi)%R -> (0 < Bj)%R -> (0 <= IZR a)%R -> (0 < wi)%R -> (0 < wj)%R -> (0 <= IZR fee / D18 <= 1)%R ->
  (P18 / 2 <= yd <= P18)%Z -> (0 <= wrd)%Z -> (Z.quot wrd P18 <= 2 ^ 28)%Z ->
  (pt * (1 - eta) <= Rpower (IZR yd / D18) (IZR wrd / D18))%R ->
  (0 <= eta + eps_swap / pt < 1)%R ->
  (Rpower Bi wi * Rpower Bj wj * Rpower (1 - (eta + eps_swap / pt)) wj <= Rpower (Bi + IZR a) wi * Rpower (Bj - IZR out) wj)%R.
Proof. exact swap_value_on_half_to_one. Qed.
Print Assumptions C04_balancer_swap_value_on_half_to_one.

(* single-asset join with Pow base in [1, 2) (the tokens in do not exceed the reserve): B^nw / S falls by at most the factor
   1 / (1 + eta + eps_frac / y^nw) *)
Theorem C04_balancer_single_join_value_on_one_to_two : forall (p : bpool) (bal w a fee ts s : Z) (eta : R),
  b_calc_single_asset_join p bal w a fee ts = Ok s ->
  let nwd := d_quo (dec_of_int w) (dec_of_int (b_total_weight p)) in
  forall fr : Z, fee_ratio nwd fee = Ok fr ->
  let yd := d_quo (dec_of_int bal + d_mul (dec_of_int a) fr) (dec_of_int bal) in
  let B := IZR bal in let S := IZR ts in let nw := (IZR nwd / D18)%R in
  let pt := Rpower ((B + IZR a) / B) nw in
  (0 < B)%R -> (0 <= IZR a)%R -> (0 < nw)%R -> (0 < S)%R -> (0 <= s)%Z ->
  (P18 <= yd < 2 * P18)%Z -> (0 <= nwd < P18)%Z ->
  (Rpower (IZR yd / D18) nw <= pt * (1 + eta))%R -> (0 <= eta)%R ->
  (Rpower B nw / S <= (1 + (eta + eps_frac / pt)) * (Rpower (B + IZR a) nw / (S + IZR s)))%R.
Proof. exact single_join_value_on_one_to_two. Qed.
Print Assumptions C04_balancer_single_join_value_on_one_to_two.

(* The full statement for balancer pools - "within the documented power precision for every trade size up to the solver's
   domain limit" - is FALSE of the faithful model, because this tree has no MaxInRatio / MaxOutRatio guard and Pow is used
   with bases down to 0 (C13's finding F4).  Two machine-checked witnesses, both replayed on the Go code: *)
Definition C04_balancer_quote_below_reserve_full : Prop := forall p i j a fee out,
  b_calc_out_given_in p i j a fee = Ok out -> out < nthZ (b_res p) j.     (* the curve never empties a reserve *)
Theorem C04_balancer_quote_below_reserve_refuted : ~ C04_balancer_quote_below_reserve_full.
Proof.
  intros H. destruct witness_quote_whole_reserve as [Hq _].
  specialize (H _ _ _ _ _ _ Hq). clear Hq. vm_compute in H. discriminate H.
Qed.
Print Assumptions C04_balancer_quote_below_reserve_refuted.
(* ... but since the repo's fix e9b34e9409 no EXECUTED swap takes a whole reserve *)
Theorem C04_balancer_executed_swap_keeps_reserve_positive : forall p i j a fee out p',
  b_swap_out_given_in p i j a fee = Ok (out, p') -> 0 < nthZ (b_res p) j - out.
Proof.
  intros p i j a fee out p' H. unfold b_swap_out_given_in in H.
  apply bind_ok in H as (o & Ho & H). apply bind_ok in H as (q & Hq & H). inversion H; subst o q; clear H.
  unfold b_apply_swap in Hq. apply bind_ok in Hq as (ni & Hni & Hq). apply bind_ok in Hq as (nj & Hnj & Hq).
  apply int_check_ok in Hnj. subst nj. destruct (_ <=? 0) eqn:E; [discriminate|]. apply Z.leb_gt in E. exact E.
Qed.
Print Assumptions C04_balancer_executed_swap_keeps_reserve_positive.

(* single-asset exit, Pow base 1/16 < 1/2, normalised weight exactly 1/4: the exact formula burns shares/2; the code burns
   1.27e-7 of the share total less - beyond the documented precision 1e-8 *)
Definition C04_balancer_exit_within_precision_full : Prop :=
  forall w r S amt s p', let p := mkB [r; r; r; r + amt * 15] [w; w; w; w] S in
  0 < w -> 0 < r -> 0 < S -> (r + amt * 15 - amt * 16) * 16 = r + amt * 15 ->   (* base (B - out)/B = 1/16 *)
  b_exit_swap_out p 3 (amt * 16) 0 0 = Ok (s, p') -> S / 2 - s <= S / 10 ^ 8 + 1.
Theorem C04_balancer_exit_within_precision_refuted :
  exists s p', b_exit_swap_out (mkB [1600000000000; 1000000000000; 1000000000000; 1000000000000] [G; G; G; G] 100000000000000000000)
                               0 1500000000000 0 0 = Ok (s, p') /\
    100000000000000000000 / 2 - s > 100000000000000000000 / 10 ^ 8.
Proof. destruct witness_exit_precision as (s & p' & H & _ & _ & _ & Hgt). exists s, p'. split; assumption. Qed.
Print Assumptions C04_balancer_exit_within_precision_refuted.

(* ------------------------------------------------------------------------------------------
   Stableswap pools
   ------------------------------------------------------------------------------------------ *)
(* the binary search returns only a probe that passed the tolerance comparison *)
Theorem C04_stable_search_postcondition : forall f lo hi target t n x,
  binary_search_bigdec f lo hi target t n = Ok x ->
  exists lo' hi' out, x = Z.shiftr (lo' + hi') 1 /\ f x = Ok out /\ compare_bigdec t target out = Ok 0.
Proof. exact binary_search_bigdec_post. Qed.
Print Assumptions C04_stable_search_postcondition.

(* in exact arithmetic the comparison the solver makes IS "k does not fall":
   yf * (iterK(xf) - targetK) = k(xf, yf) - k(x0, y0) for k = x y (x^2 + y^2 + w) *)
Theorem C04_stable_swap_k_exact : forall x0 y0 w yf xf : Z,
  0 < yf -> kf x0 y0 w <= yf * (iter_k_exact x0 w yf xf + x0 * (yf * yf + w + x0 * x0)) ->
  kf x0 y0 w <= kf xf yf w.
Proof. exact swap_k_nondecreasing_exact. Qed.
Print Assumptions C04_stable_swap_k_exact.

(* swap_k_nondecreasing_partial: with the 36-decimal roundings of the ~12 BigDec operations, whatever the solver returns
   satisfies k(after) >= k(before) - delta_k with the explicit rounding term delta_k (raw 10^36 scale: in value terms about
   (3.5 X0 Yf + X0 Y0 + 2 Yf + Y0/2 + 1/2) * 10^-36 against k ~ X Y (X^2 + Y^2 + W)) *)
Theorem C04_stable_swap_k_partial : forall x y w yin xout,
  solve_cfmm_multi x y w yin = Ok xout ->
  (0 < y + yin)%Z /\ (0 < x - xout < 2 * x)%Z /\
  (Khat x y w - delta_k x y (y + yin) <= Khat (x - xout) (y + yin) w)%Q.
Proof. exact swap_k_nondecreasing_partial. Qed.
Print Assumptions C04_stable_swap_k_partial.

(* no decrease at integer-token granularity: once the output that the truncations keep in the pool (s raw units of the
   out-reserve) is worth more than delta_k, k does not fall at all *)
Theorem C04_stable_swap_k_token_level : forall x y w yin xout s,
  solve_cfmm_multi x y w yin = Ok xout -> (0 <= w)%Z -> (0 <= s)%Z ->
  (delta_k x y (y + yin) <=
    inject_Z s * (inject_Z (y + yin) * ((inject_Z (x - xout) * inject_Z (x - xout) + inject_Z (y + yin) * inject_Z (y + yin)) * iu + inject_Z w) * iu * iu))%Q ->
  (Khat x y w <= Khat (x - xout + s) (y + yin) w)%Q.
Proof. exact swap_k_nondecreasing_token_level. Qed.
Print Assumptions C04_stable_swap_k_token_level.

(* inputs are scaled down, outputs are scaled in the pool's favour (exact-in swaps) *)
Theorem C04_stable_swap_out_rounding_direction : forall p i j a fee out,
  length (s_sf p) = length (s_res p) -> 0 <= a -> Forall (fun r => 0 <= r) (s_res p) -> Forall (fun f => 0 < f) (s_sf p) ->
  s_calc_out_given_in p i j a fee = Ok out ->
  exists x y rem w tin xout,
    scaled_sorted_reserves p i j = Ok (y :: x :: rem) /\ sum_squares rem 0 = Ok w /\
    y * nth i (s_sf p) 1 <= nthZ (s_res p) i * P36 /\ x * nth j (s_sf p) 1 <= nthZ (s_res p) j * P36 /\
    tin * nth i (s_sf p) 1 <= a * P36 /\
    solve_cfmm_multi x y w (bd_mul tin (one_minus fee)) = Ok xout /\
    0 < out /\ out * P36 <= xout * nthZ (s_sf p) j.
Proof. exact s_calc_out_direction. Qed.
Print Assumptions C04_stable_swap_out_rounding_direction.

(* exact-out swaps: everything is rounded against the trader except BigDec.Dec(), which truncates to 18 decimals before the
   Ceil and can forgive less than 10^-18 of a token *)
Theorem C04_stable_swap_in_rounding_direction : forall p i j o fee tin,
  length (s_sf p) = length (s_res p) -> 0 <= o -> Forall (fun r => 0 <= r) (s_res p) -> Forall (fun f => 0 < f) (s_sf p) ->
  0 <= fee < P18 ->
  s_calc_in_given_out p i j o fee = Ok tin ->
  exists x y rem w tout xout in_amt,
    scaled_sorted_reserves p j i = Ok (x :: y :: rem) /\ sum_squares rem 0 = Ok w /\
    x * nth j (s_sf p) 1 <= nthZ (s_res p) j * P36 /\ y * nth i (s_sf p) 1 <= nthZ (s_res p) i * P36 /\
    o * P36 <= tout * nth i (s_sf p) 1 /\
    solve_cfmm_multi x y w (- tout) = Ok xout /\
    (- xout) * P36 <= in_amt * one_minus fee /\
    0 < tin /\ in_amt * nthZ (s_sf p) j < tin * P36 + P18.
Proof. exact s_calc_in_direction. Qed.
Print Assumptions C04_stable_swap_in_rounding_direction.

(* single-asset join (binary search over share counts): the minted share count is a probe whose estimate - exit those shares
   from the enlarged pool at zero exit fee and swap every other token back into the joined token at zero spread factor, with the
   pool's own integer arithmetic - is at most the tokens paid in (after the join's spread factor) and within one unit of them:
   the round trip join -> exit -> swap back never returns more than was paid *)
Theorem C04_stable_single_join_estimate_le_paid : forall p i a s,
  binary_search_single_asset_join p i a = Ok s ->
  exists out, estimate_coin_out p i a s = Ok out /\ out <= a <= out + 1.
Proof. exact single_join_estimate_le_paid. Qed.
Print Assumptions C04_stable_single_join_estimate_le_paid.

(* "for every stableswap pool a swap never lowers the pool's invariant at all": the full statement, on the exact invariant
   prod(R_i/sf_i) * sum((R_i/sf_i)^2) of the recorded reserves ... *)
Definition C04_stable_full : Prop := forall p i j amt fee r p',
  Forall (fun x => 0 < x) (s_res p) -> Forall (fun f => 0 < f) (s_sf p) -> length (s_sf p) = length (s_res p) -> 0 <= fee < P18 ->
  (s_swap_out_given_in p i j amt fee = Ok (r, p') \/ s_swap_in_given_out p i j amt fee = Ok (r, p')) ->
  (ss_k (s_res p) (s_sf p) <= ss_k (s_res p') (s_sf p'))%Q.
(* ... is refuted at the ulp level: when the curve's correction to a 1:1 trade is below the 36-decimal resolution the pool
   charges exactly what it pays (witness replayed on the Go code: known finding C04-F3; the loss is bounded by C04_stable_swap_k_partial) *)
Theorem C04_stable_full_refuted : ~ C04_stable_full.
Proof.
  intros H. destruct witness_stable_invariant_falls as (p' & Hs & _ & Hlt).
  set (p := mkS [f3_reserve; f3_reserve] [1024; 1024] 100000000000000000000) in *.
  assert (Hle : (ss_k (s_res p) (s_sf p) <= ss_k (s_res p') (s_sf p'))%Q).
  { apply (H p 0%nat 1%nat 1 0 1 p').
    - unfold p; cbn [s_res]. constructor; [reflexivity|constructor; [reflexivity|constructor]].
    - unfold p; cbn [s_sf]. constructor; [reflexivity|constructor; [reflexivity|constructor]].
    - reflexivity.
    - split; [discriminate|reflexivity].
    - right; exact Hs. }
  apply Qle_not_lt in Hle. apply Hle. exact Hlt.
Qed.
Print Assumptions C04_stable_full_refuted.

(* ------------------------------------------------------------------------------------------
   Sequences
   ------------------------------------------------------------------------------------------ *)
(* no_profit_sequence for sequences of ANY length made of no-swap joins and exits (and their Calc variants; failed calls are
   rolled back): the reserve of every token per outstanding share never falls, so nobody can be diluted by such a sequence *)
Theorem C04_no_profit_sequence_proportional : forall fee ef ops p,
  wf_b p -> Forall prop_op_valid ops -> 0 <= ef <= P18 ->
  wf_b (b_run fee ef p ops) /\ no_dilution p (b_run fee ef p ops).
Proof. intros; apply no_profit_sequence_proportional; assumption. Qed.
Print Assumptions C04_no_profit_sequence_proportional.

(* the round trip join -> exit of the minted shares returns at most what was joined, token by token *)
Theorem C04_no_profit_join_exit : forall p amts ns p' ef coins p'',
  wf_b p -> Forall (fun a => 0 <= a) amts -> 0 <= ef <= P18 ->
  b_join_no_swap p amts = Ok (ns, p') -> b_exit p' ns ef = Ok (coins, p'') ->
  Forall2 (fun rr o => o <= snd rr - fst rr) (zip (b_res p) (b_res p')) coins.
Proof. exact no_profit_join_exit. Qed.
Print Assumptions C04_no_profit_join_exit.

(* C04_full: the whole property (every operation of both pool kinds, every history) as one statement is NOT proved; what is
   proved is listed above.  Remaining gaps: (1) sequences that contain swaps or single-asset joins/exits - for balancer they
   rest on the Pow accuracy hypothesis (C04_balancer_swap_value_partial covers one exact-in swap), for stableswap on the
   explicit rounding term of C04_stable_swap_k_partial; the oracle checks them on executed round trips instead;
   (2) the stableswap single-asset join: only the search's post-condition (C04_stable_single_join_estimate_le_paid) is proved,
   not a bound on the invariant per share (the oracle checks one with unit slack). *)

(* non-vacuity: an unbalanced 3-asset pool, a join that is not in ratio (two coins leave a remainder),
   an exit with a 1% exit fee *)
Example C04_join_nonvacuous :
  maximal_exact_ratio_join [1000000; 3; 70000000000000] 100000000000000000000 [1234; 2; 98765432109]
  = Ok (123400000000000000, [0; 1; 12385432109]).
Proof. vm_compute. reflexivity. Qed.
Example C04_exit_nonvacuous :
  calc_exit_pool [1000000; 3; 70000000000000] 100000000000000000000 33333333333333333333 10000000000000000
  = Ok [329999; 0; 23099999999999].
Proof. vm_compute. reflexivity. Qed.
Example C04_pool_nonvacuous :
  match b_join_no_swap (mkB [1000000; 2000000] [1; 3] 100000000000000000000) [100; 300] with
  | Ok (ns, p') => 0 < ns /\ b_res p' = [1000100; 2000200] /\
                   match b_exit p' 1000000000000000000 0 with Ok (c, _) => c = [9999; 19999] | Err _ => False end
  | Err _ => False
  end.
Proof. vm_compute. repeat split; reflexivity. Qed.
