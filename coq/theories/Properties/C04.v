(* C04 - Balancer and stableswap pool math never gives value away.
   Property theorems only; each is closed by a lemma from C04/Proofs*.v. *)
From Coq Require Import ZArith List Bool Lia.
Import ListNotations.
From Osmo Require Import Base.DecModel C04.Common C04.Lp C04.Balancer C04.Stableswap C04.ProofsLp C04.ProofsPools.
Open Scope Z_scope.

(* ------------------------------------------------------------------------------------------
   Proportional joins and exits (cfmm_common/lp.go; integer arithmetic only, fully proved)
   ------------------------------------------------------------------------------------------ *)

(* proportional joins mint at most the proportional share count: for every coin,
   numShares / totalShares <= joined_i / reserve_i, where joined_i = provided_i - remainder_i in [0, provided_i] *)
Theorem C04_join_mints_at_most_proportional : forall R S A ns rem,
  Forall (fun r => 0 < r) R -> Forall (fun a => 0 <= a) A -> length A = length R -> 0 <= S ->
  maximal_exact_ratio_join R S A = Ok (ns, rem) ->
  0 <= ns /\
  Forall2 (fun ar rm => 0 <= rm <= fst ar /\ ns * snd ar <= S * (fst ar - rm)) (zip A R) rem.
Proof. exact join_shares_le_proportional. Qed.
Print Assumptions C04_join_mints_at_most_proportional.

(* the mechanism: one ratio mn (18 decimals, truncated), shares = floor(mn * S), and the tokens needed of every coin
   are rounded up: mn * R_i <= joined_i, and joined_i < mn * R_i + 1 unless the coin is taken in full *)
Theorem C04_join_tokens_needed_rounded_up : forall R S A ns rem,
  Forall (fun r => 0 < r) R -> Forall (fun a => 0 <= a) A -> length A = length R -> 0 <= S ->
  maximal_exact_ratio_join R S A = Ok (ns, rem) ->
  exists mn, 0 <= mn /\ 0 <= ns /\ ns * P18 <= mn * S /\ mn * S < (ns + 1) * P18 /\
    Forall2 (fun ar rm => join_coin_ok mn ar rm /\ join_coin_ceil mn ar rm) (zip A R) rem.
Proof. exact maximal_exact_ratio_join_spec. Qed.
Print Assumptions C04_join_tokens_needed_rounded_up.

(* exits pay at most the proportional reserves (and never a whole reserve), for every exit fee in [0, 1] *)
Theorem C04_exit_pays_at_most_proportional : forall R S ex fee outs,
  Forall (fun r => 0 < r) R -> 0 <= ex -> 0 <= fee <= P18 ->
  calc_exit_pool R S ex fee = Ok outs ->
  Forall2 (fun r o => 0 <= o < r /\ o * S <= ex * r) R outs.
Proof. exact exit_le_proportional. Qed.
Print Assumptions C04_exit_pays_at_most_proportional.

Theorem C04_exit_after_fee : forall R S ex fee outs,
  Forall (fun r => 0 < r) R -> 0 <= ex -> 0 <= fee <= P18 ->
  calc_exit_pool R S ex fee = Ok outs ->
  ex < S /\ Forall2 (fun r o => 0 <= o < r /\ o * S * P18 <= ex * (P18 - fee) * r) R outs.
Proof. exact calc_exit_pool_spec. Qed.
Print Assumptions C04_exit_after_fee.

(* pool level, both pool kinds: a successful JoinPoolNoSwap / ExitPool never lowers any reserve per share *)
Theorem C04_balancer_join_no_swap : forall p amts ns p',
  Forall (fun r => 0 < r) (b_res p) -> 0 <= b_shares p -> Forall (fun a => 0 <= a) amts ->
  b_join_no_swap p amts = Ok (ns, p') ->
  0 <= ns /\ b_shares p' = b_shares p + ns /\ b_w p' = b_w p /\
  per_share_up (b_res p) (b_shares p) (b_res p') (b_shares p').
Proof. exact b_join_no_swap_sound. Qed.
Print Assumptions C04_balancer_join_no_swap.

Theorem C04_balancer_exit : forall p sh fee coins p',
  Forall (fun r => 0 < r) (b_res p) -> 0 <= sh -> 0 <= fee <= P18 ->
  b_exit p sh fee = Ok (coins, p') ->
  sh < b_shares p /\ b_shares p' = b_shares p - sh /\ b_w p' = b_w p /\ b_res p' = sub_vec (b_res p) coins /\
  Forall2 (fun r o => 0 <= o < r /\ o * b_shares p <= sh * r) (b_res p) coins /\
  per_share_down (b_res p) (b_shares p) (b_res p') (b_shares p').
Proof. exact b_exit_sound. Qed.
Print Assumptions C04_balancer_exit.

Theorem C04_stableswap_join_no_swap : forall p amts ns p',
  Forall (fun r => 0 < r) (s_res p) -> 0 <= s_shares p -> Forall (fun a => 0 <= a) amts ->
  s_join_no_swap p amts = Ok (ns, p') ->
  0 <= ns /\ s_shares p' = s_shares p + ns /\ s_sf p' = s_sf p /\
  per_share_up (s_res p) (s_shares p) (s_res p') (s_shares p').
Proof. exact s_join_no_swap_sound. Qed.
Print Assumptions C04_stableswap_join_no_swap.

Theorem C04_stableswap_exit : forall p sh fee coins p',
  Forall (fun r => 0 < r) (s_res p) -> 0 <= sh -> 0 <= fee <= P18 ->
  s_exit p sh fee = Ok (coins, p') ->
  sh < s_shares p /\ s_shares p' = s_shares p - sh /\ s_sf p' = s_sf p /\ s_res p' = sub_vec (s_res p) coins /\
  Forall2 (fun r o => 0 <= o < r /\ o * s_shares p <= sh * r) (s_res p) coins /\
  per_share_down (s_res p) (s_shares p) (s_res p') (s_shares p').
Proof. exact s_exit_sound. Qed.
Print Assumptions C04_stableswap_exit.

(* non-vacuity: an unbalanced 3-asset pool, a join that is not in ratio (two coins leave a remainder),
   an exit with a 1% exit fee *)
Example C04_join_nonvacuous :
  maximal_exact_ratio_join [1000000; 3; 70000000000000] 100000000000000000000 [1234; 2; 98765432109]
  = Ok (123400000000000000, [0; 1; 12385432109]).
Proof. vm_compute. reflexivity. Qed.
Example C04_exit_nonvacuous :
  calc_exit_pool [1000000; 3; 70000000000000] 100000000000000000000 33333333333333333333 10000000000000000
  = Ok [329999; 0; 23099999999999].
Proof. vm_compute. reflexivity. Qed.
Example C04_pool_nonvacuous :
  match b_join_no_swap (mkB [1000000; 2000000] [1; 3] 100000000000000000000) [100; 300] with
  | Ok (ns, p') => 0 < ns /\ b_res p' = [1000100; 2000200] /\
                   match b_exit p' 1000000000000000000 0 with Ok (c, _) => c = [9999; 19999] | Err _ => False end
  | Err _ => False
  end.
Proof. vm_compute. repeat split; reflexivity. Qed.
