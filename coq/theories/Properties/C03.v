(* C03 - Concentrated swaps follow the curve, round in the pool's favour, match quotes.
   Theorem file: every theorem is closed by lemmas of C03/{Rounding,Steps,Path,Whole,Estimate}.v and C07.
   The ideal is CL/Ideal.v: the exact amounts (in Q) of a price move a -> b at liquidity L,
       token0:  L * |1/b - 1/a|      token1:  L * |a - b|,
   a swap being compared with the chain of such moves through the buckets it actually traverses ("walked through the same
   initialised ticks"): every segment's liquidity is the total liquidity of the positions in range at the segment's tick
   (seg_ok, via the C07 invariant), its amount out is within the exact amount of its move and its amount in plus spread charge,
   less the spread factor, covers the exact amount in of its move.

   What is proved / not proved of the property's clauses:
   * "amount paid out never exceeds, amount charged never less than the exact curve prescribes": C03_exact_in_vs_ideal,
     C03_exact_out_vs_ideal (all reachable states, both directions, any amount, estimate and execution), with one exception that is
     a (microscopic) fact about the code: a token1 amount going IN is computed by CalcAmount1Delta(roundUp) = MulDec (half-even) then
     Ceil, which can fall short of the exact amount by less than 1/2 * 10^-36 token per bucket step (C03_amount1_round_up_refuted is the
     witness; the theorems carry the slack explicitly as in_slack).
   * per-step lemmas: C03_step_exact_in, C03_step_exact_out (amount in >=, amount out <=, fee >=), C03_fee_ge_ideal, the four
     C03_next_price_* direction lemmas, and the two-sided per-step error bound C03_step_error_bounded_in/out (amount in < exact + 1 token
     + tiny, amount out > exact - 10^-18 token - tiny).
   * "whenever a swap executes, its result equals the estimate": C03_estimate_eq_execute_in/out; the estimate cannot touch state (it
     is a function of the state returning a number; for the implementation the driver compares store digests).  The converse is
     refuted (C03_estimate_converse_refuted), as DESIGN.md says it must be.
   * "swapping there and straight back never returns more than was put in": C03_there_and_back_le, for every state satisfying the
     C07 invariant (hence every reachable one), both directions, any number of buckets crossed on the way there and back, any
     amounts (uses the exact-rational potentials of C01: C01.Potential.bucket_potential, C01.SwapSolvent.chain_potential).
   * "... and only by a bounded rounding amount", whole exact-in swaps (C03_exact_in_lower, C03_exact_in_sandwich_lower): with the exact
     curve given by the potentials of C01 (Ein / Eout: the exact amounts all positions hold at a price), a swap that consumed A_in and
     paid A_out over k loop iterations moved the price at least as far as (A_in - 1)(1 - f) - A_in 10^-18 - k (1 + 10^-18 + 2 10^-24) - U
     pays for on the exact curve, and paid out more than the exact proceeds of that move - 1 - k (10^-18 + 10^-36 + 2 10^-24); U is the
     sum over the iterations of the input-token value of one unit (10^-36) of the sqrt price (ulp_in: L 10^-36 / (p_a p_b) token0,
     L 10^-36 token1; below 10^-12 at any realistic liquidity), k <= 2 * #ticks + 108.
   * the same for exact-OUT swaps, other way round (C03_exact_out_upper, C03_exact_out_sandwich_upper): the exact proceeds of the price move
     made are less than A_out + 1 + k (10^-18 + 10^-36 + 2 10^-24) + U_out (U_out: the same price-unit value in the output token), and
     (A_in - 1)(1 - f) - A_in 10^-18 - k (1 + 10^-18 + 2 10^-24) is less than the exact cost of that move: the swap does not charge more
     than the exact curve asks for delivering A_out (plus the allowances).
   * NOT proved: the equivalence of the tick-by-tick ideal walk of CL/Ideal.v with the potentials (C03_error_bounded_walk_form). *)
From Coq Require Import ZArith QArith List Bool.
Import ListNotations.
From Osmo Require Import Base.DecModel Gen.CL_consts CL.TickMath CL.CLMath CL.CLPool CL.CLSwap CL.CLStep CL.Ideal.
From Osmo Require Import C07.Base C07.LP C07.SwapDir C07.Swap C07.Proofs.
From Osmo Require Import C03.Rounding C03.Steps C03.ErrorBound C03.Path C03.Whole C03.Estimate C03.ThereBack C03.Lower C03.Sandwich.
From Osmo Require Import C01.Exact C01.Solvent C01.SwapSolvent.
Open Scope Z_scope.

Definition reach (sp spf sc t0 : Z) (users : list (Z * Z)) (ops : list op) : state :=
  run (init_state sp spf sc users t0) ops.
Lemma reach_inv : forall sp spf sc t0 users ops,
  In sp cl_AuthorizedTickSpacing -> In spf cl_AuthorizedSpreadFactors -> Inv (reach sp spf sc t0 users ops).
Proof. intros. apply run_inv, init_inv; [apply authorised_spacing_pos|apply authorised_spread_bounds]; assumption. Qed.

(* ---------- per bucket step ---------- *)
(* exact-in step: amounts non-negative, amount out within the exact amount of the move, amount in + spread charge covers it *)
Theorem C03_step_exact_in : forall zfo spf cur target liq remaining next ain aout fee,
  compute_out_given_in zfo spf cur target liq remaining = Some (next, ain, aout, fee) ->
  0 <= liq -> 0 < cur -> 0 < next -> 1 < remaining -> 0 <= spf <= 500000000000000000 -> (zfo = true -> 10 ^ 30 <= cur) ->
  0 <= ain /\ 0 <= aout /\ 0 <= fee /\
  out_within zfo liq cur next aout /\ in_covers zfo spf liq cur next (ain + fee).
Proof. exact out_given_in_step. Qed.
Print Assumptions C03_step_exact_in.

Theorem C03_step_exact_out : forall zfo spf cur target liq remaining next aout ain fee,
  compute_in_given_out zfo spf cur target liq remaining = Some (next, aout, ain, fee) ->
  0 <= liq -> 0 < cur -> 0 < next -> 0 <= remaining -> 0 <= spf < P18 ->
  0 <= ain /\ 0 <= aout /\ 0 <= fee /\ aout <= remaining /\
  out_within zfo liq cur next aout /\ in_covers zfo spf liq cur next (ain + fee).
Proof. exact in_given_out_step. Qed.
Print Assumptions C03_step_exact_out.

(* ... and only by a bounded rounding amount: the amount in is less than one token (+ 10^36/(a*b) + 1/min(a,b) units of the 36th
   decimal, i.e. < 10^-24 token for sqrt prices >= 10^-6) above the exact amount of the move, the amount out less than 10^-18 token
   (+ the same tiny term) below it; an exact-out step pays out either that or exactly what is still requested *)
Theorem C03_step_error_bounded_in : forall zfo spf cur target liq remaining next ain aout fee,
  compute_out_given_in zfo spf cur target liq remaining = Some (next, ain, aout, fee) ->
  0 <= liq -> 0 < cur -> 0 < next ->
  in_at_most zfo liq cur next ain /\ out_at_least zfo liq cur next aout.
Proof. exact out_given_in_step_error. Qed.
Theorem C03_step_error_bounded_out : forall zfo spf cur target liq remaining next aout ain fee,
  compute_in_given_out zfo spf cur target liq remaining = Some (next, aout, ain, fee) ->
  0 <= liq -> 0 < cur -> 0 < next -> 0 <= remaining ->
  in_at_most zfo liq cur next ain /\ (aout = remaining \/ out_at_least zfo liq cur next aout).
Proof. exact in_given_out_step_error. Qed.
Print Assumptions C03_step_error_bounded_in. Print Assumptions C03_step_error_bounded_out.

(* the spread charge on an amount in is at least amount * f / (1 - f) *)
Theorem C03_fee_ge_ideal : forall ain spf fee, 0 <= ain -> 0 <= spf < P18 ->
  fee_from_amount_in ain spf = Some fee -> ain * spf <= fee * (P18 - spf) /\ 0 <= fee.
Proof. exact fee_from_amount_in_spec. Qed.
Print Assumptions C03_fee_ge_ideal.

(* the next sqrt price is rounded so that the price never moves the wrong way ... *)
Theorem C03_next_price_amount0_in : forall cur liq36 amt36 next,
  0 < liq36 -> 10 ^ 30 <= cur -> 10 ^ 18 <= amt36 ->
  next_sqrt_price_amount0_in_round_up cur liq36 amt36 = Some next -> next <= cur.
Proof. exact dir_amount0_in. Qed.
Theorem C03_next_price_amount1_in : forall cur liq amt next, 0 < liq -> 0 <= amt ->
  next_sqrt_price_amount1_in_round_down cur liq amt = Some next -> cur <= next.
Proof. exact dir_amount1_in. Qed.
Theorem C03_next_price_amount1_out : forall cur liq amt next, 0 < liq -> 0 <= amt ->
  next_sqrt_price_amount1_out_round_down cur liq amt = Some next -> next <= cur.
Proof. exact dir_amount1_out. Qed.
Theorem C03_next_price_amount0_out : forall cur liq36 amt18 next, 0 < liq36 -> 0 < cur -> 0 <= amt18 ->
  next_sqrt_price_amount0_out_round_up cur liq36 amt18 = Some next -> cur <= next \/ next <= 0.
Proof. exact dir_amount0_out. Qed.
(* ... and, for exact-in, never further than the amount pays for (rounded toward the current price) *)
Theorem C03_next_price_amount0_in_cost : forall cur liq36 amt next, 0 < liq36 -> 0 < cur -> 0 <= amt ->
  next_sqrt_price_amount0_in_round_up cur liq36 amt = Some next ->
  liq36 * (cur - next) * P36 <= amt * next * cur /\ 0 < next.
Proof. exact next_amount0_in_cost. Qed.
Theorem C03_next_price_amount1_in_cost : forall cur liq amt next, 0 < liq -> 0 <= amt ->
  next_sqrt_price_amount1_in_round_down cur liq amt = Some next -> liq * (next - cur) <= amt * P18 /\ cur <= next.
Proof. exact next_amount1_in_cost. Qed.
Print Assumptions C03_next_price_amount0_in. Print Assumptions C03_next_price_amount0_out.
Print Assumptions C03_next_price_amount0_in_cost.

(* CalcAmount1Delta(roundUp = true) is NOT always >= the exact amount (MulDec rounds half-even before the Ceil):
   liquidity 0.4, sqrt prices 1 and 3.5 + 10^-36 need 1 + 0.4 * 10^-36 tokens, the function returns 1 *)
Theorem C03_amount1_round_up_refuted : exists liq a b x, 0 <= liq /\
  calc_amount1_delta liq a b true = Some x /\ x * P18 < liq * Z.abs (b - a).
Proof. exact amount1_up_exact_refuted. Qed.
Print Assumptions C03_amount1_round_up_refuted.

(* ---------- whole swaps, every reachable state ---------- *)
Theorem C03_exact_in_vs_ideal : forall sp spf sc t0 users ops zfo accum amt r,
  In sp cl_AuthorizedTickSpacing -> In spf cl_AuthorizedSpreadFactors -> 0 <= amt ->
  let s := reach sp spf sc t0 users ops in
  compute_out_amt_given_in s zfo accum amt = Some r ->
  exists tr, chain (p_sqrt (s_pool s)) tr (sr_sqrt r) /\ Forall (seg_ok s zfo) tr /\
    (qz (sr_out r) <= qsum (ideal_out_of zfo) tr)%Q /\
    (qsum (ideal_in_of zfo) tr - in_slack zfo * qz (Z.of_nat (length tr)) <= qz (sr_in r) * (1 - spread_q s))%Q /\
    sr_in r <= amt.
Proof. intros sp spf sc t0 users ops zfo accum amt r H1 H2 Ha s H. eapply exact_in_vs_ideal; [apply reach_inv; assumption|assumption|exact H]. Qed.
Print Assumptions C03_exact_in_vs_ideal.

Theorem C03_exact_out_vs_ideal : forall sp spf sc t0 users ops zfo accum amt r,
  In sp cl_AuthorizedTickSpacing -> In spf cl_AuthorizedSpreadFactors -> 0 <= amt ->
  let s := reach sp spf sc t0 users ops in
  compute_in_amt_given_out s zfo accum amt = Some r ->
  exists tr, chain (p_sqrt (s_pool s)) tr (sr_sqrt r) /\ Forall (seg_ok s zfo) tr /\
    (qz (sr_out r) <= qsum (ideal_out_of zfo) tr)%Q /\
    (qsum (ideal_in_of zfo) tr - in_slack zfo * qz (Z.of_nat (length tr)) <= qz (sr_in r) * (1 - spread_q s))%Q /\
    sr_out r <= amt.
Proof. intros sp spf sc t0 users ops zfo accum amt r H1 H2 Ha s H. eapply exact_out_vs_ideal; [apply reach_inv; assumption|assumption|exact H]. Qed.
Print Assumptions C03_exact_out_vs_ideal.

(* ---------- estimate = execution ---------- *)
Theorem C03_estimate_eq_execute_in : forall s sender zfo amt min_out s' out,
  swap_exact_in s sender zfo amt min_out = Some (s', out) -> calc_out_given_in s zfo amt = Some out.
Proof. exact estimate_eq_execute_in. Qed.
Theorem C03_estimate_eq_execute_out : forall s sender zfo amt max_in s' tin,
  swap_exact_out s sender zfo amt max_in = Some (s', tin) -> calc_in_given_out s zfo amt = Some tin.
Proof. exact estimate_eq_execute_out. Qed.
Print Assumptions C03_estimate_eq_execute_in. Print Assumptions C03_estimate_eq_execute_out.

(* the converse does not hold (and is not claimed): 1 unit in gives an estimate of 0 while the execution is rejected *)
Definition cv_state : state :=
  run (init_state 100 3000000000000000 (10 ^ 45) [(10 ^ 30, 10 ^ 30); (10 ^ 30, 10 ^ 30); (10 ^ 30, 10 ^ 30)] 1000)
      [OCreate 0 1000000 1000000 0 0 (-1000) 2000].
Theorem C03_estimate_converse_refuted :
  calc_out_given_in cv_state true 1 = Some 0 /\ forall sender, swap_exact_in cv_state sender true 1 1 = None.
Proof. split; [vm_compute; reflexivity|]. intro sender. vm_compute. reflexivity. Qed.
Print Assumptions C03_estimate_converse_refuted.

(* ---------- the full property ---------- *)
(* "bounded rounding amount", as first written down with the tick-by-tick ideal walk of CL/Ideal.v: NOT proved in this form (it needs the
   equivalence of that walk with the potentials); superseded by C03_error_bounded_full below, which states the same with the exact curve
   given by the potentials *)
Definition C03_error_bounded_walk_form : Prop :=
  forall s zfo amt r, Inv s -> compute_out_amt_given_in s zfo true amt = Some r ->
    forall tr, chain (p_sqrt (s_pool s)) tr (sr_sqrt r) -> Forall (seg_ok s zfo) tr ->
    let slack := Z.of_nat (length tr) + 1 + amt / 10 ^ 18 in
    (ideal_out_given_in s zfo (amt - slack) - 1 <= qz (sr_out r))%Q.

(* the exact curve as potentials: Ein zfo s c / Eout zfo s c = the exact amount of the input / output token that all positions of s
   hold when the sqrt price is c (C01.SwapSolvent; sums of C01.Exact.val0 / val1).  Moving the price from c0 to c costs
   Ein c - Ein c0 and yields Eout c0 - Eout c.
   The clause: every price c' that costs no more than what the swap consumed, less the rounding allowance `paid_for`
       (A_in - 1) (1 - f) - A_in / 10^18 - k (1 + 2/10^24 + 1/10^18) - sum of ulp_in over the k iterations,
   yields less than what the swap paid out plus the allowance  1 + k (1/10^18 + 1/10^36 + 2/10^24). *)
Definition C03_error_bounded_full : Prop :=
  forall s zfo accum amt r, Inv s -> 0 <= amt -> compute_out_amt_given_in s zfo accum amt = Some r ->
    exists tr, chain (p_sqrt (s_pool s)) tr (sr_sqrt r) /\ Forall (seg_ok s zfo) tr /\ (length tr <= swap_fuel (s_ticks s))%nat /\
      forall c', (Ein zfo s c' - Ein zfo s (p_sqrt (s_pool s)) <= paid_for s zfo (sr_in r) tr)%Q ->
                 (Eout zfo s (p_sqrt (s_pool s)) - Eout zfo s c' < pays_at_most (sr_out r) tr)%Q.

(* the two inequalities behind it, at the price the swap actually reached *)
Theorem C03_exact_in_lower : forall s zfo accum amt r, Inv s -> 0 <= amt ->
  compute_out_amt_given_in s zfo accum amt = Some r ->
  exists tr, chain (p_sqrt (s_pool s)) tr (sr_sqrt r) /\ Forall (seg_ok s zfo) tr /\ (length tr <= swap_fuel (s_ticks s))%nat /\
    (paid_for s zfo (sr_in r) tr < Ein zfo s (sr_sqrt r) - Ein zfo s (p_sqrt (s_pool s)))%Q /\
    (Eout zfo s (p_sqrt (s_pool s)) - Eout zfo s (sr_sqrt r) < pays_at_most (sr_out r) tr)%Q.
Proof. exact exact_in_lower. Qed.
Print Assumptions C03_exact_in_lower.
Theorem C03_exact_in_sandwich_lower : C03_error_bounded_full.
Proof. exact exact_in_sandwich_lower. Qed.
Print Assumptions C03_exact_in_sandwich_lower.
(* the allowances spelled out *)
Theorem C03_allowances : forall s zfo tin tout tr,
  (paid_for s zfo tin tr == (qz tin - 1) * (1 - qz (p_spread (s_pool s)) / q18) - qz tin / q18
                            - qz (Z.of_nat (length tr)) * (1 + 2 / qz (10 ^ 24) + 1 / q18) - qsum (ulp_in zfo) tr)%Q /\
  (pays_at_most tout tr == qz tout + 1 + qz (Z.of_nat (length tr)) * (1 / q18 + 1 / (q18 * q18) + 2 / qz (10 ^ 24)))%Q /\
  (forall sg, ulp_in zfo sg == if zfo then qz (sg_liq sg) * q18 / (qz (sg_a sg) * qz (sg_b sg)) else qz (sg_liq sg) / (q18 * (q18 * q18)))%Q.
Proof. intros. split; [reflexivity|]. split; [reflexivity|]. intros sg. destruct zfo; reflexivity. Qed.
(* the per-step facts: the spread charge is less than amount * f/(1-f) + amount * 10^-18 + 10^-18; the next price does not stop short *)
Theorem C03_fee_lt : forall ain spf fee, 0 <= ain -> 0 <= spf < P18 ->
  fee_from_amount_in ain spf = Some fee -> (ain + fee) * (P18 - spf) < ain * P18 + ain + P18.
Proof. exact fee_from_amount_in_ub. Qed.
Theorem C03_next_price_amount0_in_rev : forall cur liq36 amt next, 0 < liq36 -> 0 < cur -> 0 <= amt ->
  next_sqrt_price_amount0_in_round_up cur liq36 amt = Some next ->
  amt * next * cur < liq36 * (cur - next) * P36 + P36 * (next + P36 + liq36) + amt * cur.
Proof. exact next_amount0_in_rev. Qed.
Theorem C03_next_price_amount1_in_rev : forall cur liq amt next, 0 < liq -> 0 <= amt ->
  next_sqrt_price_amount1_in_round_down cur liq amt = Some next -> amt * P18 < liq * (next - cur) + liq.
Proof. exact next_amount1_in_rev. Qed.
Print Assumptions C03_fee_lt. Print Assumptions C03_next_price_amount0_in_rev.

(* exact-out: every price c' that yields at least what the swap delivered plus the allowance `delivers_at_most`
       A_out + 1 + k (1/10^18 + 1/10^36 + 2/10^24) + sum of ulp_out over the k iterations
   costs more than what the swap charged less the allowance `charged_for` = (A_in - 1)(1 - f) - A_in/10^18 - k (1 + 2/10^24 + 1/10^18) *)
Definition C03_error_bounded_out_full : Prop :=
  forall s zfo accum amt r, Inv s -> 0 <= amt -> compute_in_amt_given_out s zfo accum amt = Some r ->
    exists tr, chain (p_sqrt (s_pool s)) tr (sr_sqrt r) /\ Forall (seg_ok s zfo) tr /\ (length tr <= swap_fuel (s_ticks s))%nat /\
      forall c', (delivers_at_most zfo (sr_out r) tr <= Eout zfo s (p_sqrt (s_pool s)) - Eout zfo s c')%Q ->
                 (charged_for s (sr_in r) tr < Ein zfo s c' - Ein zfo s (p_sqrt (s_pool s)))%Q.
Theorem C03_exact_out_upper : forall s zfo accum amt r, Inv s -> 0 <= amt ->
  compute_in_amt_given_out s zfo accum amt = Some r ->
  exists tr, chain (p_sqrt (s_pool s)) tr (sr_sqrt r) /\ Forall (seg_ok s zfo) tr /\ (length tr <= swap_fuel (s_ticks s))%nat /\
    (Eout zfo s (p_sqrt (s_pool s)) - Eout zfo s (sr_sqrt r) < delivers_at_most zfo (sr_out r) tr)%Q /\
    (charged_for s (sr_in r) tr < Ein zfo s (sr_sqrt r) - Ein zfo s (p_sqrt (s_pool s)))%Q.
Proof. exact exact_out_upper. Qed.
Print Assumptions C03_exact_out_upper.
Theorem C03_exact_out_sandwich_upper : C03_error_bounded_out_full.
Proof. exact exact_out_sandwich_upper. Qed.
Print Assumptions C03_exact_out_sandwich_upper.
Theorem C03_allowances_out : forall s zfo tin tout tr,
  (charged_for s tin tr == (qz tin - 1) * (1 - qz (p_spread (s_pool s)) / q18) - qz tin / q18
                           - qz (Z.of_nat (length tr)) * (1 + 2 / qz (10 ^ 24) + 1 / q18))%Q /\
  (delivers_at_most zfo tout tr == qz tout + 1 + qz (Z.of_nat (length tr)) * (1 / q18 + 1 / (q18 * q18) + 2 / qz (10 ^ 24)) + qsum (ulp_out zfo) tr)%Q /\
  (forall sg, ulp_out zfo sg == if zfo then qz (sg_liq sg) / (q18 * (q18 * q18)) else qz (sg_liq sg) * q18 / (qz (sg_a sg) * qz (sg_b sg)))%Q.
Proof. intros. split; [reflexivity|]. split; [reflexivity|]. intros sg. destruct zfo; reflexivity. Qed.
(* the exact-out next-price formulas do not move further than one price unit beyond what delivers the amount *)
Theorem C03_next_price_amount1_out_rev : forall cur liq amt next, 0 < liq -> 0 <= amt ->
  next_sqrt_price_amount1_out_round_down cur liq amt = Some next -> liq * (cur - next) < amt * P18 + liq.
Proof. exact next_amount1_out_rev. Qed.
Theorem C03_next_price_amount0_out_rev : forall cur liq36 amt18 next, 0 < liq36 -> 0 < cur -> 0 <= amt18 -> 0 < next ->
  next_sqrt_price_amount0_out_round_up cur liq36 amt18 = Some next ->
  liq36 * (next - cur) * P36 < amt18 * P18 * next * cur + P36 * (next + P36 + liq36).
Proof. exact next_amount0_out_rev. Qed.
Print Assumptions C03_next_price_amount0_out_rev.

Definition C03_there_and_back_full : Prop :=
  forall s sender zfo amt s1 out s2 back, Inv s ->
    swap_exact_in s sender zfo amt 1 = Some (s1, out) -> swap_exact_in s1 sender (negb zfo) out 1 = Some (s2, back) -> back <= amt.

(* there and back: proved, in a more general form (any senders, any minimum-out limits) *)
Theorem C03_there_and_back_le : forall s sender zfo amt m1 s1 out sender2 m2 s2 back, Inv s ->
  swap_exact_in s sender zfo amt m1 = Some (s1, out) ->
  swap_exact_in s1 sender2 (negb zfo) out m2 = Some (s2, back) ->
  back <= amt.
Proof. exact there_and_back_le. Qed.
Print Assumptions C03_there_and_back_le.
Theorem C03_there_and_back : C03_there_and_back_full.
Proof. intros s sender zfo amt s1 out s2 back I H1 H2. eapply there_and_back_le; eassumption. Qed.
(* ... in particular after every history *)
Theorem C03_there_and_back_reachable : forall sp spf sc t0 users ops sender zfo amt m1 s1 out sender2 m2 s2 back,
  In sp cl_AuthorizedTickSpacing -> In spf cl_AuthorizedSpreadFactors ->
  swap_exact_in (reach sp spf sc t0 users ops) sender zfo amt m1 = Some (s1, out) ->
  swap_exact_in s1 sender2 (negb zfo) out m2 = Some (s2, back) -> back <= amt.
Proof. intros sp spf sc t0 users ops sender zfo amt m1 s1 out sender2 m2 s2 back H1 H2. apply there_and_back_le. apply reach_inv; assumption. Qed.
Print Assumptions C03_there_and_back_reachable.

Definition C03_full : Prop :=
  (forall sp spf sc t0 users ops zfo accum amt r,
     In sp cl_AuthorizedTickSpacing -> In spf cl_AuthorizedSpreadFactors -> 0 <= amt ->
     compute_out_amt_given_in (reach sp spf sc t0 users ops) zfo accum amt = Some r ->
     exists tr, chain (p_sqrt (s_pool (reach sp spf sc t0 users ops))) tr (sr_sqrt r) /\ Forall (seg_ok (reach sp spf sc t0 users ops) zfo) tr /\
       (qz (sr_out r) <= qsum (ideal_out_of zfo) tr)%Q /\
       (qsum (ideal_in_of zfo) tr - in_slack zfo * qz (Z.of_nat (length tr)) <= qz (sr_in r) * (1 - spread_q (reach sp spf sc t0 users ops)))%Q) /\
  (forall s sender zfo amt min_out s' out, swap_exact_in s sender zfo amt min_out = Some (s', out) -> calc_out_given_in s zfo amt = Some out) /\
  (forall s sender zfo amt max_in s' tin, swap_exact_out s sender zfo amt max_in = Some (s', tin) -> calc_in_given_out s zfo amt = Some tin) /\
  C03_error_bounded_full /\ C03_error_bounded_out_full /\ C03_there_and_back_full.

(* every clause is proved (the error-bound clauses in the potential form above) *)
Theorem C03_full_proved : C03_full.
Proof.
  split; [|split; [exact estimate_eq_execute_in|split; [exact estimate_eq_execute_out|split; [exact exact_in_sandwich_lower|split; [exact exact_out_sandwich_upper|exact C03_there_and_back]]]]].
  intros sp spf sc t0 users ops zfo accum amt r H1 H2 Ha H.
  destruct (exact_in_vs_ideal _ _ _ _ _ (reach_inv _ _ _ _ _ _ H1 H2) Ha H) as [tr [A [B [C [D _]]]]].
  exists tr. repeat split; assumption.
Qed.
Print Assumptions C03_full_proved.

(* ---------- non-vacuity ---------- *)
(* a pool with two overlapping positions and a third, disjoint one (spacing 100, spread 0.3 %): an exact-in swap of 1 700 000 token1
   executes, crosses three initialised ticks and a liquidity gap, and pays out 1 693 121 token0; the estimate says the same *)
Definition nv_users : list (Z * Z) := [(10 ^ 30, 10 ^ 30); (10 ^ 30, 10 ^ 30); (10 ^ 30, 10 ^ 30)].
Definition nv_state : state :=
  reach 100 3000000000000000 (10 ^ 45) 1000 nv_users
    [ OCreate 0 1000000 1000000 0 0 (-1000) 2000; OCreate 1 500000 500000 0 0 (-500) 500; OCreate 1 500000 0 0 0 3000 5000 ].
Example C03_nonvacuous :
  In 100 cl_AuthorizedTickSpacing /\ In 3000000000000000 cl_AuthorizedSpreadFactors /\
  (exists r, compute_out_amt_given_in nv_state false true 1700000 = Some r /\ sr_out r = 1693121 /\ sr_in r = 1700000 /\ sr_tick r = 3771) /\
  (exists s', swap_exact_in nv_state 2 false 1700000 1 = Some (s', 1693121)) /\
  calc_out_given_in nv_state false 1700000 = Some 1693121.
Proof.
  split; [vm_compute; auto 10|]. split; [vm_compute; auto 10|]. split; [|split].
  - eexists. split; [vm_compute; reflexivity|]. vm_compute. auto.
  - eexists. vm_compute. reflexivity.
  - vm_compute. reflexivity.
Qed.
