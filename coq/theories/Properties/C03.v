(* C03 - Concentrated swaps follow the curve, round in the pool's favour, match quotes.  Theorem file (first instalment). *)
From Coq Require Import ZArith List Bool.
Import ListNotations.
From Osmo Require Import CL.CLPool CL.CLSwap CL.CLStep C07.Proofs.
Open Scope Z_scope.

Theorem C03_failed_step_unchanged : forall s o s', step s o = (s', None) -> s' = s.
Proof. exact step_failed_unchanged. Qed.
Print Assumptions C03_failed_step_unchanged.
