(* C17 - Epoch timers tick once per elapsed period and hook failures stay contained.
   Property theorems only; each is closed by [exact] of a lemma from C17/Proofs.v. *)
From Coq Require Import ZArith List Bool.
Import ListNotations.
From Osmo Require Import C17.Model C17.Proofs.
Open Scope Z_scope.

(* grid: epoch start times stay on start + (n-1)*duration, for every block-time sequence and every
   subscriber behaviour, including out-of-gas *)
Theorem C17_grid : forall sc n timers bs,
  Forall Grid (infos (run sc n (init_state n timers) bs)).
Proof. intros; apply run_grid, init_grid. Qed.
Print Assumptions C17_grid.

(* tick rule: without out-of-gas the timers are the block-by-block image of [spec_tick] ... *)
Theorem C17_ticks : forall sc n timers bs, no_oog sc ->
  let s := run sc n (init_state n timers) bs in
  infos s = fold_left spec_block bs (infos (init_state n timers)) /\ halted s = false.
Proof. intros sc n timers bs H; apply run_infos_no_oog; [exact H|reflexivity]. Qed.
Print Assumptions C17_ticks.

(* ... and [spec_tick] starts a timer at the first block with t >= start (epoch 1, start time = start),
   then advances by exactly one epoch per block exactly when t is strictly after the epoch's end *)
Theorem C17_tick_rule : forall t ht e,
  let e' := spec_tick t ht e in
  e_id e' = e_id e /\ e_start e' = e_start e /\ e_dur e' = e_dur e /\
  ( (t < e_start e /\ e' = e) \/
    (e_start e <= t /\ e_started e = false /\ e_started e' = true /\ e_cur e' = 1 /\ e_cur_start e' = e_start e) \/
    (e_start e <= t /\ e_started e = true /\ e_cur_start e + e_dur e < t /\ e_started e' = true /\
       e_cur e' = e_cur e + 1 /\ e_cur_start e' = e_cur_start e + e_dur e) \/
    (e_start e <= t /\ e_started e = true /\ t <= e_cur_start e + e_dur e /\ e' = e) ).
Proof. exact spec_tick_cases. Qed.
Print Assumptions C17_tick_rule.

(* signal order: every subscriber sees, for every timer, exactly
   Start 1; End 1; Start 2; ...; End (n-1); Start n - each once, End n before Start n+1 -
   whatever the outcomes (ok / error / panic, partial writes) of all subscribers *)
Theorem C17_signal_order : forall sc n timers bs, no_oog sc ->
  NoDup (map (fun x => fst (fst x)) timers) ->
  let s := run sc n (init_state n timers) bs in
  forall e, In e (infos s) -> forall sub, (sub < n)%nat ->
    signals_of (e_id e) (calls_in_order s) sub = expected (e_started e) (e_cur e).
Proof. exact signal_order. Qed.
Print Assumptions C17_signal_order.

(* containment: timers do not depend on subscriber behaviour *)
Theorem C17_timers_independent_of_subscribers : forall sc sc' n n' timers bs,
  no_oog sc -> no_oog sc' ->
  infos (run sc n (init_state n timers) bs) = infos (run sc' n' (init_state n' timers) bs).
Proof. intros; apply infos_script_independent; auto. Qed.
Print Assumptions C17_timers_independent_of_subscribers.

(* containment: a subscriber's store is the fold of its own successful invocations only *)
Theorem C17_stores_contained : forall sc n timers bs j, (j < n)%nat ->
  let s := run sc n (init_state n timers) bs in
  nth j (h_stores (hs s)) [] = ok_store sc j (calls_in_order s).
Proof. exact stores_contained. Qed.
Print Assumptions C17_stores_contained.

(* out-of-gas is propagated: the chain halts exactly when the latest invocation ran out of gas,
   and a halted chain stays as it is *)
Theorem C17_oog_propagates : forall sc n timers bs,
  let s := run sc n (init_state n timers) bs in halted s = head_oog sc (hs s).
Proof. exact oog_propagates. Qed.
Print Assumptions C17_oog_propagates.
Theorem C17_halted_stuck : forall sc n bs s, halted s = true -> run sc n s bs = s.
Proof. intros; apply halted_stuck; assumption. Qed.
Print Assumptions C17_halted_stuck.

(* non-vacuity: three timers, jittered block times with a multi-epoch gap, a subscriber that errors,
   one that panics - the hypotheses are met and the timers really advance *)
Definition nv_script : script := fun k i _ =>
  if Nat.eqb i 1 then OErr [(1, 1)] else if Nat.even k then OOk [(Z.of_nat k, 7)] else OPanic [(2, 2)].
Definition nv_timers := [(0, 100, 10); (1, 105, 7); (2, 1000, 5)].
Definition nv_blocks := [(90, 1); (100, 2); (111, 3); (112, 4); (160, 5); (161, 6); (162, 7); (163, 8)].
Example C17_nonvacuous :
  no_oog nv_script /\ NoDup (map (fun x => fst (fst x)) nv_timers) /\
  map e_cur (infos (run nv_script 3 (init_state 3 nv_timers) nv_blocks)) = [6; 5; 0] /\
  length (calls_in_order (run nv_script 3 (init_state 3 nv_timers) nv_blocks)) = 60%nat.
Proof.
  split; [intros k i sg; unfold nv_script; destruct (Nat.eqb i 1), (Nat.even k); reflexivity|].
  split; [repeat constructor; cbn; intuition discriminate|].
  split; vm_compute; reflexivity.
Qed.
