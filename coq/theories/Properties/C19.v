(* C19 - State is a deterministic function of history and survives export/import (PARTIAL, see the end of the file).
   Property theorems only; each is closed by a lemma from C19/*.v. *)
From Coq Require Import ZArith List Bool Permutation Lia.
Import ListNotations.
From Osmo Require Import C19.Perm.
Open Scope Z_scope.

(* a site that sorts the keys it ranged over before using them cannot leak the iteration order *)
Theorem C19_sorted_site_perm_invariant : forall {A} (f : list Z -> A) o o',
  Permutation o o' -> f (isort o) = f (isort o').
Proof. intros; now apply sorted_then_perm_invariant. Qed.
Print Assumptions C19_sorted_site_perm_invariant.

(* a site whose body commutes cannot leak the iteration order *)
Theorem C19_commutative_site_perm_invariant : forall {S K} (step : S -> K -> S),
  (forall s a b, step (step s a) b = step (step s b) a) ->
  forall o o', Permutation o o' -> forall s, fold_left step o s = fold_left step o' s.
Proof. intros S K step C o o' H s; now apply fold_comm_perm. Qed.
Print Assumptions C19_commutative_site_perm_invariant.

Example C19_sorted_nonvacuous : Permutation [3; 1; 2] [2; 3; 1] /\ isort [3; 1; 2] = [1; 2; 3] /\ [3; 1; 2] <> [2; 3; 1].
Proof.
  split; [|split; [reflexivity|discriminate]].
  apply NoDup_Permutation; [repeat constructor; cbn; intuition lia..|intros x; cbn; intuition].
Qed.
