(* C19 - State is a deterministic function of history and survives export/import.  PARTIAL (see C19_full below).
   Property theorems only; each is closed by a lemma from C19/*.v. *)
From Coq Require Import ZArith String List Bool Permutation Lia.
Import ListNotations.
From Osmo Require Import C17.Model C19.Perm C19.Sites C19.SiteTypes C19.Caches Gen.C19_sites Gen.C19_caches C19.Classify C19.Genesis C19.LockupShapeTypes Gen.C19_lockup_shape C19.LockupGenesis.
Open Scope Z_scope.

(* ------------------------------------------------------------------------------------------------------------
   The full property, for an arbitrary node semantics: [exec sch n b] executes block b on node state n under the
   runtime schedule / map-iteration seed / clock [sch] and yields the new state with the block's results and events.
   (i) the outcome does not depend on sch; (ii) a node imported from another's export reports the same and, fed the
   same history, produces the same results.
   This is a definition, not a theorem: Go's scheduler, its randomised map iteration and the wall clock cannot be
   exhibited by an executable Gallina model, and most modules are not modelled. What IS proved below:
     - for the map-iteration sites of /repo (inventory regenerated from the sources on every run): the iteration order,
       taken as an adversarial permutation, cannot change what the site computes (sorted keys / commuting bodies),
       and every site of the inventory is covered ([C19_sites_classified]);
     - for the modelled module states (x/epochs as in C17; a generic keyed-records + counter + derived-total module
       standing for lockup / incentives / twap-like stores): the export/import round trip and the equality of all later
       results ([C19_export_import_partial]).
   Everything else (all other modules, ante/post handlers, IAVL commitment, goroutines, wall clock) is covered only by
   the dynamic two-process / export-import correspondence of props/c19.py on the real application. *)
Definition C19_full (Sched Node Block Out Genesis Obs : Type)
    (exec : Sched -> Node -> Block -> Node * Out) (export : Node -> Genesis) (import : Genesis -> Node)
    (obs : Node -> Obs) : Prop :=
  (forall sch sch' n b, exec sch n b = exec sch' n b) /\
  (forall sch n, obs (import (export n)) = obs n /\
     forall bs, let run := fold_left (fun (acc : Node * list Out) b => let '(n', o) := exec sch (fst acc) b in (n', (snd acc ++ [o])%list)) bs in
       snd (run (import (export n), [])) = snd (run (n, []))).

(* ---------------- (a) map-iteration sites ---------------- *)

(* a site that sorts the keys it ranged over before using them *)
Theorem C19_sorted_site_perm_invariant : forall {A} (f : list Z -> A) o o',
  Permutation o o' -> f (isort o) = f (isort o').
Proof. intros; now apply sorted_then_perm_invariant. Qed.
Print Assumptions C19_sorted_site_perm_invariant.

(* the scanner's collect_sorted class: filter / map the keys into a slice, sort it (forceTransfer, UpdateDistrRecords,
   writeDurationValuesToAccumTree, UpdateMigrationRecords, InitializeAllSyntheticLocks, isSuperset, upgrade handlers) *)
Theorem C19_collect_sorted_site_perm_invariant : forall p g o o',
  Permutation o o' -> collect_sorted_site p g o = collect_sorted_site p g o'.
Proof. exact collect_sorted_perm_invariant. Qed.
Print Assumptions C19_collect_sorted_site_perm_invariant.

(* a site whose body commutes *)
Theorem C19_commutative_site_perm_invariant : forall {S K} (step : S -> K -> S),
  (forall s a b, step (step s a) b = step (step s b) a) ->
  forall o o', Permutation o o' -> forall s, fold_left step o s = fold_left step o' s.
Proof. intros S K step C o o' H s; now apply fold_comm_perm. Qed.
Print Assumptions C19_commutative_site_perm_invariant.

(* incentives distributeSyntheticInternal: locks written at their own precomputed indices *)
Theorem C19_site_distribute_synthetic : forall idx lock,
  (forall a b, a <> b -> 0 <= idx a -> 0 <= idx b -> idx a <> idx b) ->
  forall init o o', NoDup o -> Permutation o o' ->
  distribute_synthetic_site idx lock init o = distribute_synthetic_site idx lock init o'.
Proof. exact distribute_synthetic_perm_invariant. Qed.
Print Assumptions C19_site_distribute_synthetic.

(* incentives GetRewardsEst *)
Theorem C19_site_rewards_est : forall gauges_of bad est o o',
  Permutation o o' -> rewards_est_site gauges_of bad est o = rewards_est_site gauges_of bad est o'.
Proof. exact rewards_est_perm_invariant. Qed.
Print Assumptions C19_site_rewards_est.

(* lockup RebuildSuperfluidAccumulationStoresForDenom, protorev UpdatePools (both loops): one store entry per pair of keys *)
Theorem C19_site_keyed_writes : forall enc value,
  (forall a b c d, enc a b = enc c d -> a = c /\ b = d) ->
  forall s0 o o' oi oi', NoDup o -> (forall b, NoDup (oi b)) ->
  Permutation o o' -> (forall b, Permutation (oi b) (oi' b)) ->
  keyed_writes_site enc value s0 o oi = keyed_writes_site enc value s0 o' oi'.
Proof. exact keyed_writes_perm_invariant. Qed.
Print Assumptions C19_site_keyed_writes.

(* smart-account checkForFloats, dag hasIncomingEdge *)
Theorem C19_site_exists : forall p o o', Permutation o o' -> exists_site p o = exists_site p o'.
Proof. exact exists_site_perm_invariant. Qed.
Print Assumptions C19_site_exists.

(* osmoutils DisjointArrays *)
Theorem C19_site_disjoint_arrays : forall in1 in2 o1 o1' o2 o2',
  Permutation o1 o1' -> Permutation o2 o2' ->
  disjoint_arrays_site in1 in2 o1 o2 = disjoint_arrays_site in1 in2 o1' o2'.
Proof. exact disjoint_arrays_perm_invariant. Qed.
Print Assumptions C19_site_disjoint_arrays.

(* totality: every site of the inventory generated from /repo is either discharged by the scanner's syntactic
   criterion (Pure / CollectSorted) or has a hand-written table entry; and no table entry is stale *)
Theorem C19_sites_classified :
  scan_ok = true /\ forallb classified sites = true /\ stale = [] /\
  (forall s, In s sites -> s_class s = Escaping ->
     exists e, In e table /\ e_file e = s_file s /\ e_func e = s_func s /\ e_hash e = s_hash s).
Proof.
  split; [exact scan_succeeded|]. split; [exact all_sites_classified|]. split; [exact table_entries_exist|].
  exact escaping_sites_have_entries.
Qed.
Print Assumptions C19_sites_classified.

(* ---------------- (a') in-memory state that outlives a transaction ---------------- *)

(* every keeper field / package variable of map or sync.Map type (and every package-level variable) that is written at
   run time is classified, under its current set of writing statements; no entry is stale *)
Theorem C19_caches_classified : forallb cclassified caches = true /\ cstale = [].
Proof. split; [exact all_caches_classified|exact cache_entries_exist]. Qed.
Print Assumptions C19_caches_classified.

(* poolmanager's route cache: a committed SetPoolRoute leaves no stale entry ... *)
Theorem C19_pool_route_cache_invalidated_by_committed_create : forall n id ty,
  pget id (cache (set_pool_route n id ty)) = None.
Proof. exact set_pool_route_invalidates. Qed.
Print Assumptions C19_pool_route_cache_invalidated_by_committed_create.

(* ... but a ROLLED-BACK pool creation leaves one behind: on the same committed state a node that kept running and a
   node that was restarted answer the same swap with different gas (finding F19-16, reproduced on the real application) *)
Theorem C19_pool_route_cache_restart_refuted :
  exists n id ty,
    let a := failed_create_and_swap n id ty in
    routes a = routes (restart a) /\ pools a = pools (restart a) /\
    fst (fst (swap a id)) = fst (fst (swap (restart a) id)) /\
    snd (fst (swap a id)) <> snd (fst (swap (restart a) id)).
Proof. exact pool_route_cache_restart_refuted. Qed.
Print Assumptions C19_pool_route_cache_restart_refuted.

(* ---------------- (b) export / import ---------------- *)

Theorem C19_export_import_partial :
  (* x/epochs: the re-imported timers report the same apart from the start heights, and every later block calls the
     same hooks with the same outcomes *)
  (forall sc n h t s hst bs, ids_distinct s -> start_set s ->
     exists s', import_epochs h t (export_epochs s) = Some s' /\
       let a := run sc n (mkS s hst false) bs in let b := run sc n (mkS s' hst false) bs in
       epochs_obs_eq (infos a) (infos b) /\ hs a = hs b /\ halted a = halted b) /\
  (* keyed records + counter + rebuilt total: exact round trip after any history, same results for any continuation *)
  (forall h1 h2, let s := fst (krun kinit h1) in
     kimport (kexport s) = s /\ krun (kimport (kexport s)) h2 = krun s h2).
Proof. split; [exact epochs_run_import_export|exact krun_import_export]. Qed.
Print Assumptions C19_export_import_partial.

(* x/lockup InitGenesis as written (InitializeAllLocks + InitializeAllSyntheticLocks; the duration expressions that key the
   map read / write / literal are regenerated from lock.go on every run): after import (export s), for every denom - native
   or synthetic - and every duration d, the accumulation from d up is the sum over the exported locks / synthetic locks of
   that denom with duration >= d *)
Theorem C19_lockup_import_accumulation : forall g t, import_lockup (export_lockup g) = Some t ->
  forall dn d, tree_acc t dn d = expected g dn d.
Proof. exact lockup_import_accumulation. Qed.
Print Assumptions C19_lockup_import_accumulation.

(* the shape of the Go code the previous theorem is about *)
Theorem C19_lockup_import_shape :
  locks_read_key = KUnder /\ locks_write_key = KUnder /\ locks_init_key = KUnder /\
  synth_read_key = KSynth /\ synth_write_key = KSynth /\ synth_init_key = KSynth /\
  locks_denom_ok = true /\ locks_adds_found = true /\ synth_denom_ok = true /\ synth_adds_found = true.
Proof. exact lockup_shape_ok. Qed.
Print Assumptions C19_lockup_import_shape.

(* the RUNNING chain's incremental bookkeeping does not keep that equation (finding F19-17): CreateSyntheticLockup adds under
   the synthetic lock's duration, DeleteSyntheticLockup subtracts under the underlying lock's duration *)
Theorem C19_lockup_running_accumulation_refuted :
  exists (l : plock) (s : slock) (amt dn d : Z) (t : tree),
    let running := delete_synthetic (create_synthetic [] l s amt) l s amt in
    let g := mkG [l] [] in
    import_lockup (export_lockup g) = Some t /\ tree_acc t dn d = expected g dn d /\ tree_acc running dn d <> expected g dn d.
Proof. exact running_accumulation_refuted. Qed.
Print Assumptions C19_lockup_running_accumulation_refuted.

(* the epochs round trip is not exact (finding F19-2): the start height is overwritten at import *)
Theorem C19_epochs_roundtrip_exact_refuted :
  exists h t s, ids_distinct s /\ start_set s /\ import_epochs h t (export_epochs s) <> Some s.
Proof. exact epochs_import_export_exact_refuted. Qed.
Print Assumptions C19_epochs_roundtrip_exact_refuted.

(* ---------------- non-vacuity ---------------- *)
Example C19_sorted_nonvacuous : Permutation [3; 1; 2] [2; 3; 1] /\ isort [3; 1; 2] = [1; 2; 3] /\ [3; 1; 2] <> [2; 3; 1].
Proof.
  split; [|split; [reflexivity|discriminate]].
  apply NoDup_Permutation; [repeat constructor; cbn; intuition lia..|intros x; cbn; intuition].
Qed.

(* two different iteration orders of a three-key map through the keyed-writes site: same store *)
Example C19_keyed_writes_nonvacuous :
  let enc := fun a b => a * 1000 + b in
  keyed_writes_site enc (fun a b => a + b) [] [2; 1] (fun b => if b =? 1 then [7; 5] else [9]) =
  keyed_writes_site enc (fun a b => a + b) [] [1; 2] (fun b => if b =? 1 then [5; 7] else [9]) /\
  keyed_writes_site enc (fun a b => a + b) [] [2; 1] (fun b => if b =? 1 then [7; 5] else [9]) = [(1005, 6); (1007, 8); (2009, 11)].
Proof. split; vm_compute; reflexivity. Qed.

(* export after a history with creates, an update and a delete; the continuation allocates the same ids *)
Example C19_keyed_module_nonvacuous :
  let s := fst (krun kinit [KCreate 5; KCreate 7; KUpdate 1 6; KCreate 1; KDelete 2]) in
  s = mkK [(1, 6); (3, 1)] 3 7 /\ kimport (kexport s) = s /\
  snd (krun (kimport (kexport s)) [KCreate 4; KDelete 2]) = [KOk 4; KErr].
Proof. repeat split; vm_compute; reflexivity. Qed.

(* three locks of one LP denom (100/200/400) superfluid-delegated to one validator, underlying locks longer than the synthetic
   ones: the import reports 700 for the synthetic denom (the seeded fault C19c made it 400) *)
Example C19_lockup_import_nonvacuous :
  let g := mkG [mkL 1 30 [(7, 100)]; mkL 2 30 [(7, 200)]; mkL 3 30 [(7, 400)]] [mkSL 1 9 20; mkSL 2 9 20; mkSL 3 9 20] in
  exists t, import_lockup (export_lockup g) = Some t /\ tree_acc t 9 20 = 700 /\ tree_acc t 9 21 = 0 /\ tree_acc t 7 0 = 700.
Proof. eexists; split; [vm_compute; reflexivity|]. repeat split; vm_compute; reflexivity. Qed.

Example C19_epochs_nonvacuous :
  import_epochs 21 1000 (export_epochs [mkE 1 100 10 3 120 true 12; mkE 2 100 70 1 100 true 1]) =
    Some [mkE 1 100 10 3 120 true 21; mkE 2 100 70 1 100 true 21].
Proof. vm_compute; reflexivity. Qed.
