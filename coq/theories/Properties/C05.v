(* C05 - Router: multi-hop equals composition, estimates equal execution, limits hold.
   Property theorems only; each is closed by a lemma of C05/Proofs.v. *)
From Coq Require Import ZArith List Bool.
Import ListNotations.
From Osmo Require Import C05.Model C05.Proofs.
Open Scope Z_scope.

(* limits, exact-in: a routed swap that succeeds delivers at least the caller's minimum (for every pool interface) *)
Theorem C05_min_out : forall P route s sender dIn amt minOut s' out,
  route_exact_in P s sender route dIn amt minOut = Ok (s', out) -> minOut <= out /\ 0 < out.
Proof. exact route_in_min_out. Qed.
Print Assumptions C05_min_out.
