(* C05 - Router: multi-hop equals composition, estimates equal execution, limits hold.
   Property theorems only; each is closed by a lemma of C05/Proofs.v (parametric in the pool interface P; where the
   two pool laws are needed they appear as the hypothesis [PoolLaws P], which is PROVED for the concrete pool
   C05/Instance.v CP - see the instantiated corollaries and the runnable examples at the end - and measured on the
   real balancer / stableswap / concentrated pools by the correspondence run). *)
From Coq Require Import ZArith List Bool Lia.
Import ListNotations.
From Osmo Require Import Base.DecModel Gen.C05_consts C05.Model C05.Proofs C05.Instance.
Open Scope Z_scope.

(* ------------------------------------------------------------------ multi-hop = composition (exact-in) *)
(* the routed result is the left fold of "taker fee, then the pool's swap" over the hops, with the caller's minimum on
   the last hop only and 1 before; then TakerFeeSkim validates the share agreements of the route's denoms *)
Theorem C05_route_in_eq_fold : forall P route s sender dIn amt minOut, route <> [] ->
  route_exact_in P s sender route dIn amt minOut =
  match fold_left (in_step P sender) (combine route (hop_mins route minOut)) (Ok (s, (dIn, amt))) with
  | Err e => Err e
  | Ok (s', (_, out)) => if skim_ok P s' (dIn :: map snd route) then Ok (s', out) else Err ESkim
  end.
Proof. exact route_in_eq_fold. Qed.
Print Assumptions C05_route_in_eq_fold.

(* ... and, at message level: a multi-hop MsgSwapExactAmountIn is exactly the single-hop message for the first hop
   followed by the message for the rest of the route fed with the first hop's output (any pools, repeated or not) -
   provided the taker-fee share agreements let the route and its two parts through (always the case when the route's
   denoms have no agreement, or agreements adding up to at most 100 %; otherwise see C05_compose_skim_refuted) *)
Theorem C05_route_in_compose : forall P s sender h rest dIn amt minOut, rest <> [] -> 0 < minOut ->
  skim_ok P s (dIn :: map snd (h :: rest)) = true -> skim_ok P s [dIn; snd h] = true ->
  skim_ok P s (snd h :: map snd rest) = true ->
  handle P s (MSwapIn sender (h :: rest) dIn amt minOut) =
  match handle P s (MSwapIn sender [h] dIn amt hop_min_out) with
  | Err e => Err e
  | Ok (s1, out) => handle P s1 (MSwapIn sender rest (snd h) out minOut)
  end.
Proof. exact swap_in_msg_compose. Qed.
Print Assumptions C05_route_in_compose.

(* ------------------------------------------------------------------ multi-hop = composition (exact-out) *)
(* the routed result is: the backward pre-computation of the required inputs (createMultihopExpectedSwapOuts), then
   the left fold over the hops of "swap for the next hop's required input with the per-hop maximum, then the taker fee
   on top"; the amount returned is the first hop's *)
Theorem C05_route_out_eq_fold : forall P, PoolLaws P -> forall route s sender maxIn dOutF amtF, route <> [] ->
  match exp_ins_val P s route dOutF amtF with
  | Err e => route_exact_out P s sender route maxIn dOutF amtF = Err e
  | Ok ins =>
    match fold_left (out_step P sender) (out_hops true route (maxIn :: tl ins) dOutF amtF) (Ok (s, [])) with
    | Err e => route_exact_out P s sender route maxIn dOutF amtF = Err e
    | Ok (s', ts) => route_exact_out P s sender route maxIn dOutF amtF =
                     if skim_ok P s' (dOutF :: map snd route) then Ok (s', hd 0 ts) else Err ESkim
    end
  end.
Proof. exact route_out_eq_fold. Qed.
Print Assumptions C05_route_out_eq_fold.

(* ... and, at message level: a multi-hop MsgSwapExactAmountOut is the single-hop message for the first hop, buying
   exactly the estimated input of the rest of the route, followed by the message for the rest of the route with that
   estimate as its maximum (fee-paying sender; the first pool does not occur again) *)
Theorem C05_route_out_compose : forall P, PoolLaws P -> forall s sender pid dIn rest maxIn dOutF amtF s' t,
  rest <> [] -> fee_neutral P s sender -> ~ In pid (map fst rest) ->
  skim_ok P s [snd (hd (0, 0) rest); dIn] = true -> skim_ok P s (dOutF :: map snd rest) = true ->
  handle P s (MSwapOut sender ((pid, dIn) :: rest) maxIn dOutF amtF) = Ok (s', t) ->
  exists a1 s1 t',
    estimate_out P s rest dOutF amtF = (s, Ok a1) /\
    handle P s (MSwapOut sender [(pid, dIn)] maxIn (snd (hd (0, 0) rest)) a1) = Ok (s1, t) /\
    handle P s1 (MSwapOut sender rest a1 dOutF amtF) = Ok (s', t').
Proof. exact swap_out_msg_compose. Qed.
Print Assumptions C05_route_out_compose.

(* REFUTED without the share-agreement condition (finding C05-F3): with taker-fee share agreements of 60 % on the first
   and on the last denom of a two-hop route, each hop alone passes TakerFeeSkim (60 %), the routed swap does not (120 %):
   the routed swap fails as a whole although performing the hops one after another succeeds *)
Theorem C05_compose_skim_refuted :
  ~ (forall s sender h rest dIn amt minOut, rest <> [] -> 0 < minOut ->
       handle CP s (MSwapIn sender (h :: rest) dIn amt minOut) =
       match handle CP s (MSwapIn sender [h] dIn amt 1) with
       | Err e => Err e
       | Ok (s1, out) => handle CP s1 (MSwapIn sender rest (snd h) out minOut)
       end).
Proof.
  intro H. destruct skim_witness as (A & B).
  pose proof (H ex_state_skim (Trader 0) (1, 2) [(2, 3)] 1 10000 1 ltac:(discriminate) ltac:(reflexivity)) as E.
  apply (f_equal res_err) in E. cbn [snd] in E. rewrite A, B in E. discriminate E.
Qed.
Print Assumptions C05_compose_skim_refuted.

(* ------------------------------------------------------------------ the per-hop taker fee is exactly rounded *)
(* exact-in: the amount swapped is floor(tokenIn * (1 - fee)), the fee is the rest, between 0 and tokenIn *)
Theorem C05_taker_fee_exact_in : forall amt f, 0 <= amt -> 0 <= f <= DecModel.P18 ->
  let a := fst (calc_fee_in amt f) in let fee := snd (calc_fee_in amt f) in
  a * DecModel.P18 <= (DecModel.P18 - f) * amt < (a + 1) * DecModel.P18 /\ fee = amt - a /\ 0 <= fee <= amt.
Proof. exact calc_fee_in_floor. Qed.
Print Assumptions C05_taker_fee_exact_in.

(* exact-out: the amount charged is exactly ceil(tokenIn / (1 - fee)) - although the code rounds the 18-decimal quotient
   half-even before taking the ceiling, that rounding can never reach the integer below *)
Theorem C05_taker_fee_exact_out : forall amt f, 0 <= amt -> 0 <= f < DecModel.P18 ->
  exists c, calc_fee_out amt f = Ok (c, c - amt) /\
            (c - 1) * (DecModel.P18 - f) < amt * DecModel.P18 <= c * (DecModel.P18 - f).
Proof. exact calc_fee_out_ceil. Qed.
Print Assumptions C05_taker_fee_exact_out.

(* ------------------------------------------------------------------ split = sum of the legs *)
Theorem C05_split_in_eq_sum : forall P s sender legs dIn minOut s' total,
  split_exact_in P s sender legs dIn minOut = Ok (s', total) <->
  validate_split last_denom (map fst legs) = true /\
  exists outs, fold_left (leg_in_step P sender dIn) legs (Ok (s, [])) = Ok (s', outs) /\
               total = zsum outs /\ 0 < total /\ minOut <= total.
Proof. exact split_in_eq_sum. Qed.
Print Assumptions C05_split_in_eq_sum.

Theorem C05_split_out_eq_sum : forall P s sender legs dOut maxIn s' total,
  split_exact_out P s sender legs dOut maxIn = Ok (s', total) <->
  validate_split first_denom (map fst legs) = true /\
  exists ins, fold_left (leg_out_step P sender dOut) legs (Ok (s, [])) = Ok (s', ins) /\
              total = zsum ins /\ 0 < total /\ total <= maxIn.
Proof. exact split_out_eq_sum. Qed.
Print Assumptions C05_split_out_eq_sum.

(* a leg (internal minimum split_leg_min = 0) is the same as a routed swap with the smallest minimum a message may carry *)
Theorem C05_split_leg_is_routed_swap : forall P route s sender dIn amt,
  route_exact_in P s sender route dIn amt split_leg_min = route_exact_in P s sender route dIn amt 1.
Proof. exact route_in_min01. Qed.
Print Assumptions C05_split_leg_is_routed_swap.

(* ------------------------------------------------------------------ estimate = execution *)
(* FULL statement of the property (every sender, whitelisted or not): *)
Definition C05_estimate_full : Prop :=
  forall P, PoolLaws P -> forall route s sender dIn amt minOut s' out,
    NoDup (map fst route) ->
    route_exact_in P s sender route dIn amt minOut = Ok (s', out) ->
    estimate_in P s route dIn amt = (s, Ok out).

(* PROVED PART: senders that pay exactly the fees of the taker-fee table ([fee_neutral]: not on the reduced-fee
   whitelist, or all taker fees zero).  Missing for the full statement: whitelisted senders under a non-zero taker
   fee - for them the statement is FALSE (next theorem; known finding C05-F2). *)
Theorem C05_estimate_in_eq_execute_partial : forall P, PoolLaws P -> forall route s sender dIn amt minOut s' out,
  NoDup (map fst route) -> fee_neutral P s sender ->
  route_exact_in P s sender route dIn amt minOut = Ok (s', out) ->
  estimate_in P s route dIn amt = (s, Ok out).
Proof. exact estimate_in_eq_execute. Qed.
Print Assumptions C05_estimate_in_eq_execute_partial.

(* exact-out: no "each pool at most once" hypothesis is needed (the charged amount is fixed by the first executed
   hop, which runs on the state the estimate saw) *)
Theorem C05_estimate_out_eq_execute_partial : forall P, PoolLaws P -> forall route s sender maxIn dOutF amtF s' t,
  fee_neutral P s sender ->
  route_exact_out P s sender route maxIn dOutF amtF = Ok (s', t) ->
  estimate_out P s route dOutF amtF = (s, Ok t).
Proof. exact estimate_out_eq_execute. Qed.
Print Assumptions C05_estimate_out_eq_execute_partial.

(* the estimates leave the state unchanged - always *)
Theorem C05_estimate_pure : forall P, PoolLaws P -> forall route s d amt,
  fst (estimate_in P s route d amt) = s /\ fst (estimate_out P s route d amt) = s.
Proof. intros; split; [apply estimate_in_pure|apply estimate_out_pure]; assumption. Qed.
Print Assumptions C05_estimate_pure.

(* REFUTED: the full statement fails for a sender on the reduced-fee whitelist (finding C05-F2; replayed on the real
   code by corpus/C05/f2_whitelisted_estimate.json): three hops, taker fees 0.15 % / 1 % / 0 - the estimate says 2951,
   the whitelisted execution delivers 2985 *)
Theorem C05_estimate_full_refuted : ~ C05_estimate_full.
Proof.
  intro H. destruct whitelisted_witness as (s' & E & N).
  rewrite (H CP CP_laws wl_route ex_state (Trader 7) 1 10000 1 s' 2985 nodup_wl_route E) in N. discriminate N.
Qed.
Print Assumptions C05_estimate_full_refuted.

(* REFUTED (documented reason for the "each pool at most once" restriction): through the same pool twice, the
   execution's second hop sees the reserves the first hop left, the estimate does not - even for a fee-neutral sender *)
Theorem C05_estimate_repeated_pool_refuted :
  ~ (forall route s sender dIn amt minOut s' out, fee_neutral CP s sender ->
       route_exact_in CP s sender route dIn amt minOut = Ok (s', out) ->
       estimate_in CP s route dIn amt = (s, Ok out)).
Proof.
  intro H. destruct repeated_pool_witness as (s' & E & N).
  rewrite (H [(1, 2); (1, 1)] ex_state (Trader 0) 1 100000 1 s' 99702 (or_introl eq_refl) E) in N. discriminate N.
Qed.
Print Assumptions C05_estimate_repeated_pool_refuted.

(* ------------------------------------------------------------------ limits *)
(* every message: success respects the caller's limit; failure leaves the whole state unchanged (baseapp atomicity) *)
Theorem C05_limits : forall P s m s' r, step P s m = (s', r) ->
  match r with
  | Ok v => match m with
            | MSwapIn _ _ _ _ minOut => minOut <= v
            | MSwapOut _ _ maxIn _ _ => v <= maxIn
            | MSplitIn _ _ _ minOut => minOut <= v
            | MSplitOut _ _ _ maxIn => v <= maxIn
            end
  | Err _ => s' = s
  end.
Proof. exact step_limits. Qed.
Print Assumptions C05_limits.

(* ... and the limits are about money that really moves: over pairwise different denoms the trader's balance of the
   final denom grows by exactly the reported output (which is at least the minimum), and the trader's balance of the
   first denom shrinks by exactly the reported input (which is at most the maximum) *)
Theorem C05_min_out_is_delivered : forall P route s n dIn amt minOut s' out,
  NoDup (dIn :: map snd route) ->
  route_exact_in P s (Trader n) route dIn amt minOut = Ok (s', out) ->
  bal s' (Trader n) (last_denom route) = bal s (Trader n) (last_denom route) + out /\ minOut <= out.
Proof. intros. split; [eapply route_in_delivers; eauto|eapply route_in_min_out; eauto]. Qed.
Print Assumptions C05_min_out_is_delivered.

Theorem C05_max_in_is_charged : forall P route s n maxIn dOutF amtF s' t,
  NoDup (map snd route ++ [dOutF]) ->
  route_exact_out P s (Trader n) route maxIn dOutF amtF = Ok (s', t) ->
  bal s' (Trader n) (first_denom route) = bal s (Trader n) (first_denom route) - t /\ t <= maxIn.
Proof. intros. split; [eapply route_out_charges; eauto|eapply route_out_max_in; eauto]. Qed.
Print Assumptions C05_max_in_is_charged.

(* ------------------------------------------------------------------ the laws hold for a concrete executable pool *)
Theorem C05_cp_laws : PoolLaws CP.
Proof. exact CP_laws. Qed.
Print Assumptions C05_cp_laws.

Theorem C05_cp_estimate_in_eq_execute : forall route s sender dIn amt minOut s' out,
  NoDup (map fst route) -> fee_neutral CP s sender ->
  route_exact_in CP s sender route dIn amt minOut = Ok (s', out) -> estimate_in CP s route dIn amt = (s, Ok out).
Proof. exact (estimate_in_eq_execute CP CP_laws). Qed.
Print Assumptions C05_cp_estimate_in_eq_execute.

(* non-vacuity, by running the model: a three-hop exact-in route with three different taker fees executes and the
   estimate agrees; a two-hop exact-out route executes, estimate agrees, a maximum between the pool's input and the
   fee-inclusive total is refused (the repaired C05-F1); a split route is the sum of its legs *)
Example C05_nonvacuous :
  NoDup (map fst wl_route) /\ fee_neutral CP ex_state (Trader 0) /\
  res_val (route_exact_in CP ex_state (Trader 0) wl_route 1 10000 2951) = 2951 /\
  res_err (route_exact_in CP ex_state (Trader 0) wl_route 1 10000 2952) = Some ELimit /\
  snd (estimate_in CP ex_state wl_route 1 10000) = Ok 2951 /\
  res_val (route_exact_out CP ex_state (Trader 0) [(1, 1); (2, 2)] 4223 3 5000) = 4223 /\
  snd (estimate_out CP ex_state [(1, 1); (2, 2)] 3 5000) = Ok 4223 /\
  res_err (route_exact_out CP ex_state (Trader 0) [(1, 1); (2, 2)] 4222 3 5000) = Some ELimit /\
  res_val (split_exact_in CP ex_state (Trader 0) [([(1, 2); (2, 3)], 10000); ([(4, 3)], 20000)] 1 37426) = 37426 /\
  res_val (route_exact_in CP ex_state (Trader 0) [(1, 2); (2, 3)] 1 10000 1) = 11824 /\
  res_val (split_exact_out CP ex_state (Trader 0) [([(1, 1); (2, 2)], 5000); ([(4, 1)], 7000)] 3 9681) = 9681.
Proof. exact nonvacuous_witness. Qed.
