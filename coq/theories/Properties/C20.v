(* C20 - Only the owner or admin can move or alter what they own.
   Property theorems only; each is closed by a lemma of C20/Proofs.v or C20/Inventory.v.

   [step e s sender m] is one message [m] from [sender] run through its handler under baseapp's atomic wrapper;
   [authorised s m sender] is the set of senders the handlers admit in state [s]: the position owner (or the
   governance module account for TransferPositions), the lock owner (who must also be on the
   ForceUnlockAllowedAddresses list for ForceUnlock), the denom's current admin; messages that address no object by
   id act on the sender's own locks / namespace and are open to everybody. All statements hold for every state [s]
   - reachable or not - so they hold after every history, in particular after ownership transfers, admin changes
   and renouncement. [e] supplies the pool arithmetic the model does not compute; every statement is for all [e]. *)
From Coq Require Import ZArith List Bool Lia.
Import ListNotations.
From Osmo Require Import Gen.C20_msgs C20.Model C20.Proofs C20.Frame C20.Inventory.
Open Scope Z_scope.

(* a message from a sender outside the authorised set fails and leaves every balance and record as it was *)
Theorem C20_unauthorised_fails_unchanged : forall e s m sender,
  authorised s m sender = false -> exists x, step e s sender m = (s, Err x).
Proof. exact unauthorised_fails_unchanged. Qed.
Print Assumptions C20_unauthorised_fails_unchanged.

(* equivalently: a message succeeds only when sent from the authorised set *)
Theorem C20_accepted_was_authorised : forall e s m sender s',
  step e s sender m = (s', Ok) -> authorised s m sender = true.
Proof. exact accepted_was_authorised. Qed.
Print Assumptions C20_accepted_was_authorised.

(* a failing message changes nothing (the wrapper) *)
Theorem C20_error_leaves_state : forall e s m sender s' x, step e s sender m = (s', Err x) -> s' = s.
Proof. exact error_leaves_state. Qed.
Print Assumptions C20_error_leaves_state.

(* after the admin is renounced (authority metadata admin = ""), every admin message on the denom fails for every sender *)
Theorem C20_renounced_admin_powerless : forall e s d m sender,
  admin_of s d = None -> admin_msg_on m d -> exists x, step e s sender m = (s, Err x).
Proof. exact renounced_admin_powerless. Qed.
Print Assumptions C20_renounced_admin_powerless.

(* namespace: CreateDenom adds exactly factory/{sender}/{sub} with the sender as admin, only if it did not exist ... *)
Theorem C20_namespace : forall e s sender sub wf s',
  step e s sender (MCreateDenom sub wf) = (s', Ok) ->
  denoms s' = denoms s ++ [mkDenom sender sub (Some sender) None 0] /\ find_denom s (DFactory sender sub) = None.
Proof. exact create_denom_namespace. Qed.
Print Assumptions C20_namespace.
(* ... so nobody creates a token in someone else's namespace *)
Theorem C20_namespace_only_own : forall e s sender sub wf s',
  step e s sender (MCreateDenom sub wf) = (s', Ok) ->
  forall x, In x (denoms s') -> In x (denoms s) \/ (d_creator x = sender /\ d_admin x = Some sender).
Proof. exact create_denom_only_own_namespace. Qed.
Print Assumptions C20_namespace_only_own.

(* mint-to / burn-from / force-transfer never move the funds of a protected module account, whoever sends them *)
Theorem C20_module_accounts_protected : forall e s sender m s',
  step e s sender m = (s', Ok) -> tf_bank_msg m ->
  forall a d, In a (protected s) -> bal_of (bals s') a d = bal_of (bals s) a d.
Proof. exact module_accounts_protected. Qed.
Print Assumptions C20_module_accounts_protected.
Theorem C20_mint_to_module_fails : forall e s sender d amt a,
  In a (protected s) -> exists x, step e s sender (MMint d amt (Some a)) = (s, Err x).
Proof. exact mint_to_module_fails. Qed.
Print Assumptions C20_mint_to_module_fails.
Theorem C20_burn_from_module_fails : forall e s sender d amt a,
  In a (protected s) -> exists x, step e s sender (MBurn d amt (Some a)) = (s, Err x).
Proof. exact burn_from_module_fails. Qed.
Print Assumptions C20_burn_from_module_fails.
Theorem C20_force_transfer_module_fails : forall e s sender d amt from to,
  In from (protected s) \/ In to (protected s) -> exists x, step e s sender (MForceTransfer d amt from to) = (s, Err x).
Proof. exact force_transfer_module_fails. Qed.
Print Assumptions C20_force_transfer_module_fails.

(* frame: an accepted message leaves everything that is not its sender's exactly as it was. [frame a m s s']:
   every lock that is not [a]'s is found unchanged under its id afterwards and every lock that is not [a]'s afterwards
   was there before, identically (so nothing foreign is altered, removed, created or handed over); the same for
   positions - except that TransferPositions touches exactly the listed ids (whose owner or the governance module
   account sent it, by C20_accepted_was_authorised) - and for denom records - except that ChangeAdmin touches exactly
   the addressed denom; the configuration the guards read is unchanged. [wf] is the id discipline of reachable states
   (ids below their counters, lock ids distinct); it holds for empty tables and is preserved by every step. *)
Theorem C20_accepted_touches_only_own : forall e s a m s',
  wf s -> step e s a m = (s', Ok) -> frame a m s s'.
Proof. exact accepted_touches_only_own. Qed.
Print Assumptions C20_accepted_touches_only_own.

Theorem C20_wf_invariant : forall s0 h, empty_tables s0 -> wf (run s0 h).
Proof. intros s0 h H. apply run_wf, empty_wf, H. Qed.
Print Assumptions C20_wf_invariant.

(* ... hence after every history from empty tables *)
Theorem C20_frame_after_any_history : forall s0 h e a m s',
  empty_tables s0 -> step e (run s0 h) a m = (s', Ok) -> frame a m (run s0 h) s'.
Proof. intros s0 h e a m s' H0 H. apply (accepted_touches_only_own e); [apply run_wf, empty_wf, H0|exact H]. Qed.
Print Assumptions C20_frame_after_any_history.

(* consequences: no message ever changes the owner of a lock; a position changes hands only through a
   TransferPositions that names it; a denom that appears is in the sender's namespace, whatever the message *)
Theorem C20_lock_owner_never_changes : forall e s a m s',
  wf s -> step e s a m = (s', Ok) ->
  forall id l l', find_lock s id = Some l -> find_lock s' id = Some l' -> l_owner l' = l_owner l.
Proof. exact lock_owner_never_changes. Qed.
Print Assumptions C20_lock_owner_never_changes.
Theorem C20_position_owner_changes_only_by_transfer : forall e s a m s',
  wf s -> step e s a m = (s', Ok) ->
  forall id p p', find_pos s id = Some p -> find_pos s' id = Some p' -> p_owner p' <> p_owner p ->
  exists ids rcp, m = MTransferPositions ids rcp /\ In id ids.
Proof. exact position_owner_changes_only_by_transfer. Qed.
Print Assumptions C20_position_owner_changes_only_by_transfer.
Theorem C20_new_denoms_in_senders_namespace : forall e s a m s',
  wf s -> step e s a m = (s', Ok) ->
  forall c sub x, find_denom s' (DFactory c sub) = Some x -> find_denom s (DFactory c sub) = None -> c = a.
Proof. exact new_denoms_in_senders_namespace. Qed.
Print Assumptions C20_new_denoms_in_senders_namespace.

(* handing over: after an accepted TransferPositions the listed positions belong to the new owner and to nobody else -
   the previous owner has lost the authority (combine with C20_unauthorised_fails_unchanged); after an accepted
   ChangeAdmin the denom's admin is the new one, and anybody else, the previous admin included, is powerless *)
Theorem C20_transfer_hands_over : forall e s a ids rcp s',
  step e s a (MTransferPositions ids rcp) = (s', Ok) ->
  forall id, In id ids -> forall x, owns_pos s' x id = (x =? rcp).
Proof. exact transfer_hands_over. Qed.
Print Assumptions C20_transfer_hands_over.
Theorem C20_change_admin_hands_over : forall e s a d new s',
  step e s a (MChangeAdmin d new) = (s', Ok) -> admin_of s' d = new.
Proof. exact change_admin_hands_over. Qed.
Print Assumptions C20_change_admin_hands_over.
Theorem C20_previous_admin_powerless : forall e s a d new s' x,
  step e s a (MChangeAdmin d new) = (s', Ok) -> new <> Some x -> is_admin s' d x = false.
Proof. exact change_admin_previous_admin_powerless. Qed.
Print Assumptions C20_previous_admin_powerless.

(* the inventory: every Msg-service method of the four modules found in /repo (Gen/C20_msgs.v, regenerated on every
   run) is classified - modelled by a constructor of [msg] or explicitly not acting on an existing owned object -,
   no row is stale, and every constructor models a method that exists *)
Theorem C20_inventory_total : forallb classified c20_msgs = true.
Proof. exact inventory_total. Qed.
Print Assumptions C20_inventory_total.
Theorem C20_inventory_exact :
  forallb (fun row => known (fst row)) table = true /\ forallb has_row all_tags = true /\ (forall t, exists m, tag_of m = t).
Proof. exact (conj inventory_no_stale_rows (conj constructors_all_used tag_of_onto)). Qed.
Print Assumptions C20_inventory_exact.

(* non-vacuity: a state with a position of account 1, a lock of account 1 (account 5 is on the force-unlock list),
   a denom created by 1 whose admin was changed to 2, and a renounced denom; module accounts 7 (lockup) and 8.
   The authorised sender succeeds and the state really changes; everybody else fails. *)
Definition nv_state : state :=
  mkState [mkPos 1 1 3 1000 0 false; mkPos 2 4 3 500 0 false] 3
          [mkLock 1 1 None (DNative 1) 100 10 false SNone None; mkLock 2 5 None (DNative 1) 70 10 false SNone None] 2
          [mkDenom 1 1 (Some 2) None 0; mkDenom 1 2 None None 0]
          [(3, DFactory 1 1, 50); (7, DNative 1, 170)]
          6 7 10 [6; 7; 8; 10] [5] 20 [DNative 1] [0; 1] 0 (DNative 9) [] [] [] [] [] [].
Definition nv_env : env := mkEnv 777 0 [].

Example C20_nonvacuous_wf : wf nv_state /\ (exists s0, empty_tables s0).
Proof.
  split; [|exists (mkState [] 1 [] 0 [] [] 6 7 10 [] [] 0 [] [] 0 (DNative 0) [] [] [] [] [] []); split; reflexivity].
  unfold wf, nv_state. cbn [locks positions last_lock next_pos]. split; [|split].
  - intros l [<-|[<-|[]]]; cbn; lia.
  - cbn. repeat constructor; cbn; intuition lia.
  - intros p [<-|[<-|[]]]; cbn; lia.
Qed.

Example C20_nonvacuous :
  (* hypotheses of the theorems are met by concrete messages ... *)
  authorised nv_state (MWithdrawPosition 1 400) 4 = false /\
  authorised nv_state (MTransferPositions [1] 4) 6 = true /\
  authorised nv_state (MForceUnlock 1 None) 1 = false /\          (* owner, but not on the allow list *)
  authorised nv_state (MForceUnlock 2 None) 5 = true /\
  authorised nv_state (MMint (DFactory 1 1) 5 None) 1 = false /\   (* creator and previous admin *)
  admin_of nv_state (DFactory 1 2) = None /\
  (* ... authorised senders are served and the state moves ... *)
  map p_liq (positions (fst (step nv_env nv_state 1 (MWithdrawPosition 1 400)))) = [600; 500] /\
  map p_owner (positions (fst (step nv_env nv_state 6 (MTransferPositions [1] 4)))) = [4; 4] /\
  map l_id (locks (fst (step nv_env nv_state 5 (MForceUnlock 2 None)))) = [1] /\
  bal_of (bals (fst (step nv_env nv_state 2 (MForceTransfer (DFactory 1 1) 20 3 4)))) 4 (DFactory 1 1) = 20 /\
  snd (step nv_env nv_state 2 (MMint (DFactory 1 1) 5 (Some 3))) = Ok /\
  map d_creator (denoms (fst (step nv_env nv_state 4 (MCreateDenom 1 true)))) = [1; 1; 4] /\
  (* ... and the others are not *)
  step nv_env nv_state 4 (MWithdrawPosition 1 400) = (nv_state, Err EAuth) /\
  step nv_env nv_state 1 (MForceUnlock 1 None) = (nv_state, Err EAuth) /\
  step nv_env nv_state 1 (MMint (DFactory 1 1) 5 None) = (nv_state, Err EAuth) /\
  step nv_env nv_state 1 (MChangeAdmin (DFactory 1 2) (Some 1)) = (nv_state, Err EAuth) /\
  step nv_env nv_state 2 (MMint (DFactory 1 1) 5 (Some 7)) = (nv_state, Err EOther) /\
  step nv_env nv_state 2 (MBurn (DFactory 1 1) 5 (Some 8)) = (nv_state, Err EOther).
Proof. vm_compute. repeat split; reflexivity. Qed.
