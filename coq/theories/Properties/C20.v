(* C20 - placeholder while the correspondence is brought up; replaced by the theorem file. *)
From Coq Require Import ZArith List Bool.
From Osmo Require Import C20.Model C20.Inventory.
Theorem C20_inventory_total : forallb classified Gen.C20_msgs.c20_msgs = true.
Proof. exact inventory_total. Qed.
Print Assumptions C20_inventory_total.
