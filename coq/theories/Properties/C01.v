(* C01 - Concentrated-liquidity pools stay solvent under every operation history.  Theorem file. *)
From Coq Require Import ZArith List Bool.
Import ListNotations.
From Osmo Require Import CL.CLPool CL.CLSwap CL.CLStep CLR.RSwap CLR.RStep C08.Proj.
Open Scope Z_scope.

Theorem C01_failed_step_unchanged : forall rs o rs', rstep rs o = (rs', None) -> rs' = rs.
Proof. exact rstep_failed_unchanged. Qed.
Print Assumptions C01_failed_step_unchanged.
