(* C01 - Concentrated-liquidity pools stay solvent under every operation history.  Theorem file.
   Model: CL/*.v (shared pool model, b-cl) + CLR/*.v (reward bookkeeping); proofs: C01/*.v on top of C07 (invariants of the pool
   model), C03 (per-step rounding directions) and C08 (reachable-state invariant of the reward model).  See C01/STATUS.md.

   What is proved: the PRINCIPAL part of DESIGN's invariant, in every state reachable from a fresh pool by any history of
   create / withdraw / add-to-position / transfer / swap-exact-in / swap-exact-out (both directions) / time / collect spread
   rewards / collect incentives / create incentive:
       bal0 >= E0     and     bal1 >= E1 - n * (1/2) 10^-36
   where E0, E1 are the exact rational values of all open positions at the current sqrt price and n (hist_cost) counts the
   created positions and the steps of one-for-zero swaps of the history.  The slack on token1 is not an artefact: the code's
   CalcAmount1Delta(roundUp) is MulDec (half-even at the 36th decimal) followed by Ceil, which under-charges by up to half a
   unit of the 36th decimal (Properties/C03.v has the witness); it never reaches one token unit while n < 2 * 10^36, which
   is what the corollaries need.  Also proved: no operation creates or destroys funds (the three module accounts plus the
   users are a closed system).
   The SPREAD-REWARD ACCOUNT conjunct is proved in the form of DESIGN 9.2 (C01_spread_covered_partial): whenever the claim queries
   succeed, the sum of all claimable spread rewards is at most the account's balance, provided the number of MulDec roundings of
   the history (two per withdrawal, one per collected position) plus the number of open positions is below 2 x scaling factor.
   The INCENTIVE ACCOUNT conjunct is proved in the same form (C01_inc_covered_partial): the collected + forfeitable incentives of all
   open positions are at most the account's balance (and, in Properties/C08.v, together with what the incentive records still have
   to emit: < balance + 1), provided (roundings + open positions) x 6 < 2 x incentive scaling factor.
   NOT proved (see C01_full below): that claim queries never fail, the exact (non-integer) remaining-emission term of the
   incentive conjunct, and the success of the exit sequence itself. *)
From Coq Require Import ZArith QArith List Bool Lia Sorting.Permutation.
Import ListNotations.
From Osmo Require Import Base.DecModel CL.TickMath CL.CLMath CL.CLPool CL.CLSwap CL.CLStep CL.Ideal
  CLR.Accum CLR.Rewards CLR.RSwap CLR.RStep C07.Base C07.LP C08.Proj C08.Dom
  C08.PaidOps C08.PaidHist C08.Inc C08.IncHist C08.ClaimInv C08.ClaimIncTime C01.Funds C01.Exact C01.Solvent C01.SwapPath C01.Potential C01.SwapSolvent C01.History C01.Full C01.SpreadAcc C01.Exit C01.ExitHist.
Open Scope Z_scope.

(* ==== the full statement (DESIGN.md section 5, C01) ==== *)
Definition C01_full : Prop :=
  forall sp spf ssc isc users t ops, 0 < sp -> 0 <= spf <= 500000000000000000 ->
  let rs := rrun (rinit sp spf ssc isc users t) ops in
  Solv rs /\ withdraw_all_succeeds rs.

(* ==== atomicity and conservation ==== *)
Theorem C01_failed_step_unchanged : forall rs o rs', rstep rs o = (rs', None) -> rs' = rs.
Proof. exact rstep_failed_unchanged. Qed.
Print Assumptions C01_failed_step_unchanged.

(* pool + spread-reward + incentive account + all users: constant, per denom, through every operation *)
Theorem C01_funds_conserved : forall d ops rs, rtotal d (rrun rs ops) = rtotal d rs.
Proof. exact funds_conserved_run. Qed.
Print Assumptions C01_funds_conserved.

(* ==== rounding directions of the amounts CreatePosition charges / WithdrawPosition pays, against the exact values ==== *)
Theorem C01_actual_amounts_charged : forall p lo hi L a0 a1, (0 < p_spacing p)%Z -> price_consistent p -> (0 < p_sqrt p)%Z ->
  validate_tick_range (p_spacing p) lo hi = true -> (0 < L)%Z ->
  calc_actual_amounts p lo hi L = Some (a0, a1) ->
  (val0 (p_sqrt p) L lo hi <= qz (d_truncate_int a0))%Q /\ (val1 (p_sqrt p) L lo hi - eps36 <= qz (d_truncate_int a1))%Q
  /\ (0 <= d_truncate_int a0)%Z /\ (0 <= d_truncate_int a1)%Z.
Proof. exact actual_amounts_charged. Qed.
Print Assumptions C01_actual_amounts_charged.

Theorem C01_actual_amounts_paid : forall p lo hi L a0 a1, (0 < p_spacing p)%Z -> price_consistent p -> (0 < p_sqrt p)%Z ->
  validate_tick_range (p_spacing p) lo hi = true -> (0 < L)%Z ->
  calc_actual_amounts p lo hi (- L) = Some (a0, a1) ->
  (qz (- d_truncate_int a0) <= val0 (p_sqrt p) L lo hi)%Q /\ (qz (- d_truncate_int a1) <= val1 (p_sqrt p) L lo hi)%Q
  /\ (0 <= - d_truncate_int a0)%Z /\ (0 <= - d_truncate_int a1)%Z.
Proof. exact actual_amounts_paid. Qed.
Print Assumptions C01_actual_amounts_paid.

(* ==== one operation ==== *)
Theorem C01_create_solvent : forall s owner a0 a1 m0 m1 lo hi s' c n, Inv s -> SolvP s n ->
  create_position s owner a0 a1 m0 m1 lo hi = Some (s', c) -> SolvP s' (n + 1).
Proof. exact create_solvent. Qed.
Print Assumptions C01_create_solvent.

Theorem C01_withdraw_solvent : forall s owner id liq s' amts n, Inv s -> SolvP s n -> (0 <= n)%Z ->
  withdraw_position s owner id liq = Some (s', amts) -> SolvP s' n.
Proof. exact withdraw_solvent. Qed.
Print Assumptions C01_withdraw_solvent.

Theorem C01_add_solvent : forall s owner id a0 a1 m0 m1 s' r n, Inv s -> SolvP s n -> (0 <= n)%Z ->
  add_to_position s owner id a0 a1 m0 m1 = Some (s', r) -> SolvP s' (n + 1).
Proof. exact add_solvent. Qed.
Print Assumptions C01_add_solvent.

(* the potential function: moving the price inside one bucket changes the exact values by the exact amounts of the move at the
   total liquidity of the positions in range (C07's active liquidity) - item (iii)/(iv) of DESIGN 9.2 *)
Theorem C01_bucket_potential : forall s t x y, Inv s -> 0 < x -> x <= y ->
  (price_consistent_at (p_spacing (s_pool s)) t x \/ b_side_ok s t x) ->
  (price_consistent_at (p_spacing (s_pool s)) t y \/ b_side_ok s t y) ->
  (qsum_pos (pval0 x) (s_pos s) - qsum_pos (pval0 y) (s_pos s) == seg_amount0 (sum_liq (f_range t) (s_pos s)) x y /\
   qsum_pos (pval1 y) (s_pos s) - qsum_pos (pval1 x) (s_pos s) == seg_amount1 (sum_liq (f_range t) (s_pos s)) x y)%Q.
Proof. exact bucket_potential. Qed.
Print Assumptions C01_bucket_potential.

Theorem C01_swap_in_solvent : forall s n sender zfo amt mo s' out, Inv s -> SolvP s n ->
  swap_exact_in s sender zfo amt mo = Some (s', out) -> SolvP s' (n + swap_cost s zfo).
Proof. exact swap_in_solvent. Qed.
Print Assumptions C01_swap_in_solvent.

Theorem C01_swap_out_solvent : forall s n sender zfo amt mi s' tin, Inv s -> SolvP s n ->
  swap_exact_out s sender zfo amt mi = Some (s', tin) -> SolvP s' (n + swap_cost s zfo).
Proof. exact swap_out_solvent. Qed.
Print Assumptions C01_swap_out_solvent.

(* every operation of the reward-aware model (solv_step, principal part) *)
Theorem C01_solv_step_principal_partial : forall rs o n, RInv rs -> (0 <= n)%Z -> SolvP (r_base rs) n ->
  SolvP (r_base (fst (rstep rs o))) (n + op_cost (r_base rs) o).
Proof. exact solv_step. Qed.
Print Assumptions C01_solv_step_principal_partial.

(* ==== all histories (solv_reachable, principal part).  PARTIAL with respect to C01_full: the spread-reward and incentive
   account conjuncts of Solv are not proved, and the token1 bound carries the slack hist_cost * (1/2) 10^-36 ==== *)
Theorem C01_solv_reachable_principal_partial : forall sp spf ssc isc users t ops, 0 < sp -> 0 <= spf <= 500000000000000000 ->
  let rs0 := rinit sp spf ssc isc users t in
  SolvP (r_base (rrun rs0 ops)) (hist_cost rs0 ops).
Proof. exact solvent_reachable. Qed.
Print Assumptions C01_solv_reachable_principal_partial.

(* withdraw_all_succeeds, PARTIAL: in every reachable state the amounts a full withdrawal of any open position pays are covered
   by the pool account (so the bank never refuses the principal); since withdrawals are operations of the history this holds
   again after each exit, in any order.  Not proved: that WithdrawPosition passes its other checks and that the reward
   accounts can pay what the withdrawal collects on the way. *)
Theorem C01_withdraw_all_covered_partial : forall sp spf ssc isc users t ops q x0 x1, 0 < sp -> 0 <= spf <= 500000000000000000 ->
  let rs0 := rinit sp spf ssc isc users t in
  let s := r_base (rrun rs0 ops) in
  hist_cost rs0 ops < 2 * 10 ^ 36 -> In q (s_pos s) ->
  calc_actual_amounts (s_pool s) (ps_lower q) (ps_upper q) (- ps_liq q) = Some (x0, x1) ->
  - d_truncate_int x0 <= fst (b_pool (s_bank s)) /\ - d_truncate_int x1 <= snd (b_pool (s_bank s)).
Proof. exact withdraw_all_covered. Qed.
Print Assumptions C01_withdraw_all_covered_partial.

(* dust_nonneg, PARTIAL (pool account only): the pool account is never negative, in particular after everybody has left *)
Theorem C01_dust_nonneg_pool_partial : forall sp spf ssc isc users t ops, 0 < sp -> 0 <= spf <= 500000000000000000 ->
  let rs0 := rinit sp spf ssc isc users t in
  let s := r_base (rrun rs0 ops) in
  hist_cost rs0 ops < 2 * 10 ^ 36 ->
  0 <= fst (b_pool (s_bank s)) /\ 0 <= snd (b_pool (s_bank s)).
Proof. exact dust_nonneg. Qed.
Print Assumptions C01_dust_nonneg_pool_partial.

(* withdraw_all_succeeds, SUCCESS of the principal half, PARTIAL (it is the principal transfer: CL's WithdrawPosition proper, i.e. all
   its validity checks, CalcActualAmounts' BigDec bit-length checks and the transfer out of the pool account; the reward collection
   that the keeper performs inside the same message is not covered).  In every reachable state whose positions carry a valid
   LegacyDec liquidity (<= 2^256 10^18 - 1 raw: the Go code panics beyond, the model's tick bookkeeping is unbounded) and whose
   position owners are bank users of the model (finite user list; transfers do not check the recipient), withdrawing ALL positions
   fully, in ANY order, never fails and never hits the insufficient-balance branch of the pool account; nothing is left open and
   the pool account ends >= 0.  [exit_seq] = iterate CL's withdraw_position over the ids (C01/Exit.v). *)
Theorem C01_withdraw_all_succeeds_partial : forall sp spf ssc isc users t ops ids, 0 < sp -> 0 <= spf <= 500000000000000000 ->
  let rs0 := rinit sp spf ssc isc users t in
  let s := r_base (rrun rs0 ops) in
  hist_cost rs0 ops < 2 * 10 ^ 36 -> liq_bounded s -> owners_have_accounts s ->
  Permutation ids (map ps_id (s_pos s)) ->
  exists s', exit_seq s ids = Some s' /\ s_pos s' = [] /\
    0 <= fst (b_pool (s_bank s')) /\ 0 <= snd (b_pool (s_bank s')).
Proof. exact exit_all_base_reachable. Qed.
Print Assumptions C01_withdraw_all_succeeds_partial.

(* the same on the reward-aware exit sequence of C01_full (Full.withdraw_seq = WithdrawPosition with its reward bookkeeping):
   after ANY successful prefix of ANY exit sequence, for every position still open the principal part of its full withdrawal
   succeeds - so [withdraw_seq] can only fail inside the reward bookkeeping (claim of incentives / spread rewards) *)
Theorem C01_exit_principal_succeeds_partial : forall sp spf ssc isc users t ops ids rs' q, 0 < sp -> 0 <= spf <= 500000000000000000 ->
  let rs0 := rinit sp spf ssc isc users t in
  let rs := rrun rs0 ops in
  hist_cost rs0 ops < 2 * 10 ^ 36 -> liq_bounded (r_base rs) -> owners_have_accounts (r_base rs) ->
  withdraw_seq rs ids = Some rs' -> In q (s_pos (r_base rs')) ->
  exists s'' amts, withdraw_position (r_base rs') (ps_owner q) (ps_id q) (ps_liq q) = Some (s'', amts).
Proof.
  intros sp spf ssc isc users t ops ids rs' q Hsp Hspf rs0 rs Hc LB UA H QIn.
  eapply (exit_principal_succeeds rs (hist_cost rs0 ops)); [split; [apply hist_cost_nonneg|exact Hc]| |exact H|exact QIn].
  apply exit_ok_reachable; assumption.
Qed.
Print Assumptions C01_exit_principal_succeeds_partial.

(* the arithmetic behind it: CalcActualAmounts never fails for the removal of a valid amount of liquidity from a valid range *)
Theorem C01_calc_actual_amounts_total : forall p lo hi L, 0 < p_spacing p -> price_consistent p -> 0 < p_sqrt p ->
  validate_tick_range (p_spacing p) lo hi = true -> 0 < L <= liq_max ->
  exists x0 x1, calc_actual_amounts p lo hi (- L) = Some (x0, x1).
Proof. exact calc_actual_amounts_total. Qed.
Print Assumptions C01_calc_actual_amounts_total.

(* spread-reward account conjunct of Solv, PARTIAL: under the explicit rounding budget, and for states whose claim queries succeed *)
Theorem C01_spread_covered_partial : forall sp spf ssc isc users t ops c, 0 < sp -> 0 <= spf <= 500000000000000000 -> 0 < ssc ->
  let rs0 := rinit sp spf ssc isc users t in
  let rs := rrun rs0 ops in
  hist_pcost rs0 ops + Z.of_nat (length (s_pos (r_base rs))) < 2 * ssc ->
  spread_claims rs = Some c ->
  fst c <= fst (b_spread (s_bank (r_base rs))) /\ snd c <= snd (b_spread (s_bank (r_base rs))).
Proof. exact spread_covered_reachable. Qed.
Print Assumptions C01_spread_covered_partial.

(* the spread conjunct of Solv AS WRITTEN in Full.v (the claim queries succeed AND their sum is covered), PARTIAL only in its two explicit
   arithmetic hypotheses: the rounding budget, and the LegacyDec range of the accumulator and of each claim ([spread_range_ok], C08/ClaimInv.v).
   "Claim queries never fail" is discharged for spread rewards: the sign conditions are invariants (C08_spread_sign_conditions_reachable) *)
Theorem C01_spread_covered_total_partial : forall sp spf ssc isc users t ops, 0 < sp -> 0 <= spf <= 500000000000000000 -> P18 <= ssc ->
  let rs0 := rinit sp spf ssc isc users t in
  let rs := rrun rs0 ops in
  hist_pcost rs0 ops + Z.of_nat (length (s_pos (r_base rs))) < 2 * ssc ->
  (forall p, In p (s_pos (r_base rs)) -> spread_range_ok rs p) ->
  spread_covered rs.
Proof. exact spread_covered_total. Qed.
Print Assumptions C01_spread_covered_total_partial.

(* the incentive claims likewise: in every state reachable by a history without negative time steps all incentive claim queries succeed
   and their sum (collected + forfeitable) is covered by the incentive account - PARTIAL only in the explicit arithmetic hypotheses: the
   rounding budget and the LegacyDec range [inc_range_ok] (C08/ClaimIncTime.v).  (The exact "+ remaining emission" term of Full.inc_covered
   is still only bounded by < balance + 1 token: C08_incentives_and_remaining_covered.) *)
Theorem C01_inc_claims_covered_total_partial : forall sp spf ssc isc users t ops, 0 < sp -> 0 <= spf <= 500000000000000000 -> P18 <= isc ->
  let rs0 := rinit sp spf ssc isc users t in
  let rs := rrun rs0 ops in
  hist_time_ok ops ->
  (hist_icost rs0 ops + Z.of_nat (length (s_pos (r_base rs)))) * Z.of_nat NU < 2 * isc ->
  (forall p, In p (s_pos (r_base rs)) -> inc_range_ok rs p) ->
  exists c, inc_claims rs = Some c /\ fst c <= fst (b_inc (s_bank (r_base rs))) /\ snd c <= snd (b_inc (s_bank (r_base rs))).
Proof. exact inc_claims_covered_total. Qed.
Print Assumptions C01_inc_claims_covered_total_partial.

(* ... hence every single collect of spread rewards is affordable, in any order (PARTIAL: same hypotheses) *)
Theorem C01_each_spread_claim_affordable_partial : forall sp spf ssc isc users t ops d q, 0 < sp -> 0 <= spf <= 500000000000000000 -> 0 < ssc ->
  let rs0 := rinit sp spf ssc isc users t in
  let rs := rrun rs0 ops in
  (forall p, In p (s_pos (r_base rs)) -> claimable_spread rs (ps_id p) <> None) ->
  hist_pcost rs0 ops + Z.of_nat (length (s_pos (r_base rs))) < 2 * ssc ->
  In q (s_pos (r_base rs)) -> claim_of d rs q <= spread_bal d rs.
Proof. exact each_spread_claim_affordable. Qed.
Print Assumptions C01_each_spread_claim_affordable_partial.

(* incentive account conjunct of Solv, PARTIAL: integer-robust form (claims only), explicit rounding budget, successful queries *)
Theorem C01_inc_covered_partial : forall sp spf ssc isc users t ops c, 0 < sp -> 0 <= spf <= 500000000000000000 -> 0 < isc ->
  let rs0 := rinit sp spf ssc isc users t in
  let rs := rrun rs0 ops in
  (hist_icost rs0 ops + Z.of_nat (length (s_pos (r_base rs)))) * Z.of_nat NU < 2 * isc ->
  inc_claims rs = Some c ->
  fst c <= fst (b_inc (s_bank (r_base rs))) /\ snd c <= snd (b_inc (s_bank (r_base rs))).
Proof. exact inc_covered_reachable. Qed.
Print Assumptions C01_inc_covered_partial.

(* a history with two positions, a one-for-zero swap that crosses tick 1000, a swap back, an incentive and a partial withdrawal:
   the slack counter is positive and far below the bound, position 1 is open and its full withdrawal pays both tokens *)
Definition ex_init : rstate :=
  rinit 0x64 0x71afd498d0000 0x2cd76fe086b93ce2f768a00b22a00000000000 0x2cd76fe086b93ce2f768a00b22a00000000000
    [(0xc9f2c9cd04674edea40000000, 0xc9f2c9cd04674edea40000000); (0xc9f2c9cd04674edea40000000, 0xc9f2c9cd04674edea40000000);
     (0xc9f2c9cd04674edea40000000, 0xc9f2c9cd04674edea40000000)] 0x6553f100.
Definition ex_hist : list rop :=
  [RBase (OCreate 0x0 0x3b9aca00 0x3b9aca00 0x0 0x0 (-0x186a0) 0x186a0);
   RBase (OCreate 0x1 0x989680 0x0 0x0 0x0 0x3e8 0xbb8);
   RIncentive 0x2 0x0 0xf4240 0xde0b6b3a7640000 0x0 0x0;
   RBase (OTime 0x64);
   RBase (OSwapIn 0x2 false 0x1c9c380 0x1);
   RBase (OSwapOut 0x2 true 0x989680 0xffffffffffff);
   RBase (OWithdraw 0x1 0x2 0x3e8)].
Example C01_solv_reachable_nonvacuous :
  let s := r_base (rrun ex_init ex_hist) in
  0 < hist_cost ex_init ex_hist < 2 * 10 ^ 36 /\ length (s_pos s) = 2%nat /\
  0 < fst (b_pool (s_bank s)) /\ 0 < snd (b_pool (s_bank s)) /\
  (exists q x0 x1, In q (s_pos s) /\ calc_actual_amounts (s_pool s) (ps_lower q) (ps_upper q) (- ps_liq q) = Some (x0, x1)
    /\ d_truncate_int x0 < 0 /\ d_truncate_int x1 < 0) /\
  hist_pcost ex_init ex_hist = 2 /\ (exists c, spread_claims (rrun ex_init ex_hist) = Some c /\ 0 < fst c /\ 0 < snd c) /\
  hist_icost ex_init ex_hist = 4 /\ exists c, inc_claims (rrun ex_init ex_hist) = Some c /\ 0 < fst c.
Proof.
  intro s. let v := eval vm_compute in (r_base (rrun ex_init ex_hist)) in assert (E : s = v) by (vm_compute; reflexivity).
  clearbody s. subst s.
  split; [split; vm_compute; reflexivity|]. split; [reflexivity|].
  split; [vm_compute; reflexivity|]. split; [vm_compute; reflexivity|].
  split; [eexists; eexists; eexists; split; [left; reflexivity|]; split; [vm_compute; reflexivity|]; split; vm_compute; reflexivity|].
  split; [vm_compute; reflexivity|]. split; [eexists; split; [vm_compute; reflexivity|]; split; vm_compute; reflexivity|].
  split; [vm_compute; reflexivity|]. eexists. split; [vm_compute; reflexivity|]. vm_compute; reflexivity.
Qed.

(* the hypotheses of C01_withdraw_all_succeeds_partial hold in the example state, and there the whole reward-aware exit
   sequence (not only its principal part) succeeds in both orders *)
Definition ex_rs : rstate := Eval vm_compute in rrun ex_init ex_hist.
Example C01_exit_nonvacuous :
  ex_rs = rrun ex_init ex_hist /\
  liq_bounded (r_base ex_rs) /\ owners_have_accounts (r_base ex_rs) /\
  (exists rs', withdraw_seq ex_rs (open_ids ex_rs) = Some rs' /\ s_pos (r_base rs') = []) /\
  (exists rs', withdraw_seq ex_rs (rev (open_ids ex_rs)) = Some rs' /\ s_pos (r_base rs') = []).
Proof.
  split; [vm_compute; reflexivity|].
  split.
  { intros q QIn. unfold ex_rs in QIn. cbn [r_base s_pos] in QIn. destruct QIn as [H|[H|[]]]; subst q; vm_compute; discriminate. }
  split.
  { intros q QIn. unfold ex_rs in QIn. cbn [r_base s_pos] in QIn.
    destruct QIn as [H|[H|[]]]; subst q; vm_compute; (split; [discriminate|reflexivity]). }
  split; eexists; (split; [vm_compute; reflexivity|reflexivity]).
Qed.
