(* C12 - Fixed-point arithmetic is exactly rounded in the documented direction.
   Property theorems only; each is closed by a lemma of C12/*.v.  Constants are the generated
   names of Gen/C12_consts.v (regenerated from /repo on every run). *)
From Coq Require Import ZArith List Bool.
Import ListNotations.
From Osmo Require Import Base.DecModel Gen.C12_consts C12.Rounding C12.Direction C12.Consts.
Open Scope Z_scope.

(* what the three directions mean (characterising bounds of C12/Rounding.v) *)
Theorem C12_ceil_is_ceiling : forall n d, 0 < d -> d * (rceil n d - 1) < n <= d * rceil n d.
Proof. exact rceil_spec. Qed.
Print Assumptions C12_ceil_is_ceiling.
Theorem C12_ceil_is_ceiling_negative_divisor : forall n d, d < 0 -> d * rceil n d <= n < d * (rceil n d - 1).
Proof. exact rceil_spec_neg. Qed.
Print Assumptions C12_ceil_is_ceiling_negative_divisor.
Theorem C12_trunc_is_toward_zero : forall n d, 0 < d ->
  d * Z.abs (rtz n d) <= Z.abs n < d * (Z.abs (rtz n d) + 1) /\ 0 <= n * rtz n d.
Proof. exact rtz_abs. Qed.
Print Assumptions C12_trunc_is_toward_zero.
Theorem C12_half_even_is_nearest_even : forall n d, 0 < d ->
  2 * Z.abs (d * rhe n d - n) <= d /\ (2 * Z.abs (d * rhe n d - n) = d -> Z.even (rhe n d) = true).
Proof. exact rhe_spec. Qed.
Print Assumptions C12_half_even_is_nearest_even.
Theorem C12_exact_when_representable : forall n d, 0 < d -> (d | n) ->
  rhe n d = n / d /\ rtz n d = n / d /\ rceil n d = n / d /\ rfloor n d = n / d.
Proof. exact round_exact. Qed.
Print Assumptions C12_exact_when_representable.

(* round-up division: the ceiling of the exact quotient for all four sign combinations *)
Theorem C12_bd_quo_round_up_all_signs : forall a b, b <> 0 ->
  bd_quo_round_up a b = rceil (a * 10 ^ BigDecPrecision) b.
Proof. intros; rewrite <- P36_gen; apply bd_quo_round_up_dir; assumption. Qed.
Print Assumptions C12_bd_quo_round_up_all_signs.

Example C12_bd_quo_round_up_nonvacuous :
  bd_quo_round_up P36 (-3 * P36) = -333333333333333333333333333333333333 /\
  bd_quo_round_up (- P36) (-3 * P36) = 333333333333333333333333333333333334.
Proof. split; vm_compute; reflexivity. Qed.
