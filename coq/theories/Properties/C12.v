(* C12 - Fixed-point arithmetic is exactly rounded in the documented direction.

   Property theorems only; each is closed by a lemma of C12/*.v.  Constants are the generated names
   of Gen/C12_consts.v (read from osmomath/decimal.go, int.go and the aliased SDK decimal on every
   run): U36 = 10^BigDecPrecision, U18 = 10^DecPrecision, UDiff = 10^(BigDecPrecision-DecPrecision).
   A decimal is its raw mantissa (value * 10^36 resp. 10^18); rceil / rtz / rhe n d are the exact
   rational n/d rounded toward +infinity / toward zero / to nearest with ties to even.

   Layers:  values  - the functions of Base/DecModel.v (what each operation returns);
            cells   - C12/Model.v, Go's pointer semantics (who is written, aliasing, panics);
            codecs  - C12/Codec.v.
   The full statement of the property is [C12_full] at the end; it is FALSE of the faithful model
   ([C12_full_refuted]: five clauses each fail for a specific function, all replayed on /repo and listed
   in known_findings.json), so what is proved is named _partial or is stated for the functions it holds for. *)
From Coq Require Import ZArith List Bool Lia.
Import ListNotations.
From Osmo Require Import Base.DecModel Gen.C12_consts C12.Rounding C12.Direction C12.Consts
  C12.Model C12.Heap C12.Frame C12.Refine C12.Corr C12.Codec C12.CodecProofs C12.Main.
Open Scope Z_scope.

(* ================================================================== 1. what the three directions mean *)
Theorem C12_ceil_is_ceiling : forall n d, 0 < d -> d * (rceil n d - 1) < n <= d * rceil n d.
Proof. exact rceil_spec. Qed.
Print Assumptions C12_ceil_is_ceiling.
Theorem C12_ceil_is_ceiling_negative_divisor : forall n d, d < 0 -> d * rceil n d <= n < d * (rceil n d - 1).
Proof. exact rceil_spec_neg. Qed.
Print Assumptions C12_ceil_is_ceiling_negative_divisor.
Theorem C12_trunc_is_toward_zero : forall n d, 0 < d ->
  d * Z.abs (rtz n d) <= Z.abs n < d * (Z.abs (rtz n d) + 1) /\ 0 <= n * rtz n d.
Proof. exact rtz_abs. Qed.
Print Assumptions C12_trunc_is_toward_zero.
Theorem C12_half_even_is_nearest_even : forall n d, 0 < d ->
  2 * Z.abs (d * rhe n d - n) <= d /\ (2 * Z.abs (d * rhe n d - n) = d -> Z.even (rhe n d) = true).
Proof. exact rhe_spec. Qed.
Print Assumptions C12_half_even_is_nearest_even.
(* the bounds determine the value: each operator is the unique neighbouring representable value of its kind *)
Theorem C12_directions_unique : forall n d r, 0 < d ->
  (d * (r - 1) < n <= d * r -> r = rceil n d) /\
  ((0 <= n -> d * r <= n < d * (r + 1)) -> (n <= 0 -> d * (r - 1) < n <= d * r) -> r = rtz n d) /\
  (2 * Z.abs (d * r - n) <= d -> (2 * Z.abs (d * r - n) = d -> Z.even r = true) -> r = rhe n d).
Proof. intros n d r Hd; repeat split; [apply rceil_unique|apply rtz_unique|apply rhe_unique]; assumption. Qed.
Print Assumptions C12_directions_unique.
Theorem C12_exact_when_representable : forall n d, 0 < d -> (d | n) ->
  rhe n d = n / d /\ rtz n d = n / d /\ rceil n d = n / d /\ rfloor n d = n / d.
Proof. exact round_exact. Qed.
Print Assumptions C12_exact_when_representable.
Theorem C12_directions_monotone : forall n m d, 0 < d -> n <= m ->
  rceil n d <= rceil m d /\ rtz n d <= rtz m d /\ rhe n d <= rhe m d.
Proof. intros; repeat split; [apply rceil_mono|apply rtz_mono|apply rhe_mono]; assumption. Qed.
Print Assumptions C12_directions_monotone.

(* ================================================================== 2. every operation rounds as its name says (values) *)
Theorem C12_bigdec_binary_directions : forall a b,
  bd_add a b = a + b /\ bd_sub a b = a - b /\ bd_mul_int a b = a * b /\
  bd_mul a b = rhe (a * b) U36 /\ bd_mul_dec a b = rhe (a * b) U18 /\
  bd_mul_truncate a b = rtz (a * b) U36 /\ bd_mul_truncate_dec a b = rtz (a * b) U18 /\
  bd_mul_round_up a b = rceil (a * b) U36 /\ bd_mul_round_up_dec a b = rceil (a * b) U18 /\
  bd_quo a b = rhe (rtz (a * (U36 * U36)) b) U36 /\ bd_quo_raw a b = rhe (rtz (a * U36) b) U36 /\
  bd_quo_truncate a b = rtz (a * U36) b /\ bd_quo_truncate_dec a b = rtz (a * U18) b /\
  bd_quo_int a b = rtz a b /\ bd_from_dec_mul_dec a b = a * b.
Proof. exact bigdec_binary_directions. Qed.
Print Assumptions C12_bigdec_binary_directions.
(* the round-up divisions and conversion: ceiling of the exact quotient for all four sign combinations *)
Theorem C12_bigdec_round_up_division_all_signs : forall a b, b <> 0 ->
  bd_quo_round_up a b = rceil (a * U36) b /\ bd_quo_by_dec_round_up a b = rceil (a * U18) b /\
  bd_quo_round_up_mut a b = rceil (a * U36) b /\ bd_quo_round_up_next_int_mut a b = rceil a b * U36.
Proof. exact bigdec_round_up_division_all_signs. Qed.
Print Assumptions C12_bigdec_round_up_division_all_signs.
Theorem C12_bigdec_unary_directions : forall a,
  bd_ceil a = rceil a U36 * U36 /\ bd_truncate_int a = rtz a U36 /\ bd_truncate_dec a = rtz a U36 * U36 /\
  bd_round_int a = rhe a U36 /\ bd_to_dec a = rtz a UDiff /\ bd_to_dec_round_up a = rceil a UDiff /\
  bd_from_dec a = a * UDiff /\ bd_from_int a = a * U36 /\
  (forall k, bd_chop_precision k a = rtz a (10 ^ (BigDecPrecision - k)) * 10 ^ (BigDecPrecision - k)) /\
  (forall k, bd_dec_with_precision k a = rtz a (10 ^ (BigDecPrecision - k)) * 10 ^ (DecPrecision - k)).
Proof. exact bigdec_unary_directions. Qed.
Print Assumptions C12_bigdec_unary_directions.
Theorem C12_precision_conversion_exact : forall d, bd_to_dec (bd_from_dec d) = d /\ bd_to_dec_round_up (bd_from_dec d) = d.
Proof. exact precision_conversion_exact. Qed.
Print Assumptions C12_precision_conversion_exact.
Theorem C12_dec_directions : forall a b,
  d_mul a b = rhe (a * b) U18 /\ d_mul_truncate a b = rtz (a * b) U18 /\ d_mul_round_up a b = rceil (a * b) U18 /\
  d_mul_int a b = a * b /\ d_quo a b = rhe (rtz (a * (U18 * U18)) b) U18 /\ d_quo_truncate a b = rtz (a * U18) b /\
  d_quo_int a b = rtz a b /\ d_ceil a = rceil a U18 * U18 /\ d_truncate_int a = rtz a U18 /\
  d_truncate_dec a = rtz a U18 * U18 /\ d_round_int a = rhe a U18.
Proof. exact dec_directions. Qed.
Print Assumptions C12_dec_directions.
(* the dependency's 18-decimal QuoRoundUp: ceiling when the exact quotient is >= 0 ... *)
Theorem C12_dec_quo_round_up_partial : forall a b, b <> 0 -> 0 <= a * b -> d_quo_round_up a b = rceil (a * U18) b.
Proof. exact dec_quo_round_up_partial. Qed.
Print Assumptions C12_dec_quo_round_up_partial.
(* ... one unit above it for an inexact negative quotient (missing for the full statement: finding F5, not repairable from /repo) *)
Theorem C12_dec_quo_round_up_opposite_signs : forall a b, b <> 0 -> a * b < 0 -> Z.rem (a * U18) b <> 0 ->
  Z.quot (a * U18) b <> 0 -> d_quo_round_up a b = rceil (a * U18) b + 1.
Proof. exact dec_quo_round_up_opposite_signs. Qed.
Print Assumptions C12_dec_quo_round_up_opposite_signs.
Theorem C12_dec_quo_round_up_refuted : exists a b, b <> 0 /\ d_quo_round_up a b <> rceil (a * P18) b.
Proof. exact d_quo_round_up_refuted. Qed.
Print Assumptions C12_dec_quo_round_up_refuted.

(* ================================================================== 3. cells: the code computes those values, fails loudly, frames *)
(* mut_spec / nonmut_spec m f chk dv (C12/Refine.v): on any heap, for receiver and argument cells (distinct for the
   mutating form, arbitrary for the non-mutating one), m returns f a b - in the receiver resp. in a fresh cell - when
   chk (f a b) holds, panics with the overflow panic when it does not (never a wrapped value), and with the
   division panic iff dv and b = 0. *)
Theorem C12_bigdec_cells_refine_values :
  mut_spec AddMut bd_add bd_fits false /\ nonmut_spec Add bd_add bd_fits false /\
  mut_spec SubMut bd_sub bd_fits false /\ nonmut_spec Sub bd_sub bd_fits false /\
  mut_spec MulMut bd_mul bd_fits false /\ nonmut_spec Mul bd_mul bd_fits false /\
  mut_spec MulDecMut bd_mul_dec bd_fits false /\ nonmut_spec MulDec bd_mul_dec bd_fits false /\
  nonmut_spec MulTruncate bd_mul_truncate bd_fits false /\ nonmut_spec MulTruncateDec bd_mul_truncate_dec bd_fits false /\
  nonmut_spec MulRoundUp bd_mul_round_up bd_fits false /\ nonmut_spec MulRoundUpDec bd_mul_round_up_dec bd_fits false /\
  nonmut_spec MulInt bd_mul_int bd_fits false /\
  mut_spec QuoMut bd_quo bd_fits true /\ nonmut_spec Quo bd_quo bd_fits true /\
  mut_spec QuoTruncateMut bd_quo_truncate bd_fits true /\ nonmut_spec QuoTruncate bd_quo_truncate bd_fits true /\
  mut_spec QuoTruncateDecMut bd_quo_truncate_dec bd_fits true /\ nonmut_spec QuoTruncateDec bd_quo_truncate_dec bd_fits true /\
  mut_spec QuoRoundUpMut bd_quo_round_up_mut bd_fits true /\ nonmut_spec QuoRoundUp bd_quo_round_up bd_fits true /\
  nonmut_spec QuoByDecRoundUp bd_quo_by_dec_round_up bd_fits true /\
  mut_spec QuoRoundUpNextIntMut bd_quo_round_up_next_int_mut bd_fits true /\
  nonmut_spec QuoInt bd_quo_int always_fits true /\
  nonmut_spec NewBigDecFromDecMulDec bd_from_dec_mul_dec always_fits false.
Proof. exact bigdec_cells_refine_values. Qed.
Print Assumptions C12_bigdec_cells_refine_values.
Theorem C12_bigdec_unary_cells_refine_values :
  un_mut_spec NegMut (fun a => ok_out (- a)) /\ un_nonmut_spec Neg (fun a => ok_out (- a)) /\
  un_mut_spec AbsMut (fun a => ok_out (Z.abs a)) /\ un_nonmut_spec Abs (fun a => ok_out (Z.abs a)) /\
  un_mut_spec CeilMut (fun a => ok_out (bd_ceil a)) /\ un_nonmut_spec Ceil (fun a => ok_out (bd_ceil a)) /\
  un_nonmut_spec TruncateInt (fun a => chk_out fits1024 (bd_truncate_int a)) /\
  un_nonmut_spec TruncateDec (fun a => ok_out (bd_truncate_dec a)) /\
  un_nonmut_spec RoundInt (fun a => chk_out fits1024 (bd_round_int a)) /\
  un_nonmut_spec ToDec (fun a => ok_out (bd_to_dec a)) /\
  un_nonmut_spec DecRoundUp (fun a => ok_out (bd_to_dec_round_up a)) /\
  un_nonmut_spec BigDecFromDec (fun a => ok_out (bd_from_dec a)) /\
  un_mut_spec BigDecFromDecMut (fun a => ok_out (bd_from_dec a)) /\
  (forall i, un_nonmut_spec (fun d => MulInt64 d i) (fun a => expected bd_mul_int bd_fits false a i)) /\
  (forall i, un_nonmut_spec (fun d => QuoRaw d i) (fun a => expected bd_quo_raw bd_fits true a i)) /\
  (forall i, un_nonmut_spec (fun d => QuoInt64 d i) (fun a => expected bd_quo_int always_fits true a i)) /\
  (forall k, 0 <= k -> un_mut_spec (fun d => ChopPrecisionMut d k) (fun a => if 36 <? k then (3, 0) else ok_out (bd_chop_precision k a))) /\
  (forall k, 0 <= k -> un_nonmut_spec (fun d => ChopPrecision d k) (fun a => if 36 <? k then (3, 0) else ok_out (bd_chop_precision k a))) /\
  (forall k, 0 <= k -> un_nonmut_spec (fun d => DecWithPrecision d k) (fun a => if 18 <? k then (3, 0) else ok_out (bd_dec_with_precision k a))).
Proof. exact bigdec_unary_cells_refine_values. Qed.
Print Assumptions C12_bigdec_unary_cells_refine_values.
Theorem C12_dec_cells_refine_values :
  mut_spec D_AddMut Z.add d_fits false /\ nonmut_spec (ImmutOp D_AddMut) Z.add d_fits false /\
  mut_spec D_SubMut Z.sub d_fits false /\ nonmut_spec (ImmutOp D_SubMut) Z.sub d_fits false /\
  mut_spec D_MulMut d_mul d_fits false /\ nonmut_spec (ImmutOp D_MulMut) d_mul d_fits false /\
  mut_spec D_MulTruncateMut d_mul_truncate d_fits false /\ nonmut_spec (ImmutOp D_MulTruncateMut) d_mul_truncate d_fits false /\
  mut_spec D_MulRoundUpMut d_mul_round_up d_fits false /\ nonmut_spec (ImmutOp D_MulRoundUpMut) d_mul_round_up d_fits false /\
  mut_spec D_MulIntMut d_mul_int d_fits false /\ nonmut_spec (ImmutOp D_MulIntMut) d_mul_int d_fits false /\
  mut_spec D_QuoMut d_quo d_fits true /\ nonmut_spec (ImmutOp D_QuoMut) d_quo d_fits true /\
  mut_spec D_QuoTruncateMut d_quo_truncate d_fits true /\ nonmut_spec (ImmutOp D_QuoTruncateMut) d_quo_truncate d_fits true /\
  mut_spec D_QuoRoundupMut d_quo_round_up d_fits true /\ nonmut_spec (ImmutOp D_QuoRoundupMut) d_quo_round_up d_fits true /\
  mut_spec D_QuoIntMut d_quo_int always_fits true /\ nonmut_spec (ImmutOp D_QuoIntMut) d_quo_int always_fits true /\
  un_nonmut_spec D_Ceil (fun a => chk_out d_fits (d_ceil a)) /\
  un_nonmut_spec D_TruncateInt (fun a => chk_out fits256 (d_truncate_int a)) /\
  un_nonmut_spec D_RoundInt (fun a => chk_out fits256 (d_round_int a)) /\
  un_nonmut_spec D_TruncateDec (fun a => ok_out (d_truncate_dec a)).
Proof. exact dec_cells_refine_values. Qed.
Print Assumptions C12_dec_cells_refine_values.
Theorem C12_bigint_cells_refine_values :
  nonmut_spec BI_Add Z.add fits1024 false /\ nonmut_spec BI_Sub Z.sub fits1024 false /\
  nonmut_spec BI_Quo Z.quot always_fits true /\ nonmut_spec BI_Mod emod always_fits true /\
  (forall h d d2, (d < next h)%nat -> (d2 < next h)%nat -> bitlen (rd h d) <= max_bit_len -> bitlen (rd h d2) <= max_bit_len ->
     spec (BI_Mul d d2) h
       (fun h' r => (next h <= r)%nat /\ obs_of (Ok h' r) = expected Z.mul fits1024 false (rd h d) (rd h d2))
       (fun e h' => obs_of (Panic e h') = expected Z.mul fits1024 false (rd h d) (rd h d2))).
Proof. exact bigint_cells_refine_values. Qed.
Print Assumptions C12_bigint_cells_refine_values.

(* PowerInteger / Dec.Power: the square-and-multiply loops, which call d.MulMut(d) on the receiver itself, compute the
   value-level loop power_loop_v (a range assertion after every rounded multiplication); PowerInteger = PowerIntegerMut *)
Theorem C12_power_cells_refine_values : forall k h d, (d < next h)%nat ->
  spec (PowerIntegerMut d k) h (fun h' r => bd_power_v (rd h d) k = Some (rd h' r) /\ (k <> 0 -> r = d))
                               (fun e h' => bd_power_v (rd h d) k = None) /\
  spec (PowerInteger d k) h (fun h' r => bd_power_v (rd h d) k = Some (rd h' r)) (fun e h' => bd_power_v (rd h d) k = None) /\
  spec (D_PowerMut d k) h (fun h' r => d_power_v (rd h d) k = Some (rd h' r) /\ r = d) (fun e h' => d_power_v (rd h d) k = None) /\
  spec (D_Power d k) h (fun h' r => d_power_v (rd h d) k = Some (rd h' r)) (fun e h' => d_power_v (rd h d) k = None) /\
  same_outcome (PowerIntegerMut d k h) (PowerInteger d k h) /\ same_outcome (D_PowerMut d k h) (D_Power d k h).
Proof. exact power_cells_refine_values. Qed.
Print Assumptions C12_power_cells_refine_values.

(* when it does not fail, Dec.Power is the unchecked value function d_power of Base/DecModel.v (the one other properties use) *)
Theorem C12_dec_power_is_decmodel_power : forall d p v, 0 <= p < 2 ^ 64 -> d_power_v d p = Some v -> v = d_power d p.
Proof. exact d_power_v_unchecked. Qed.
Print Assumptions C12_dec_power_is_decmodel_power.

(* mutating and non-mutating forms return the same outcome (value or panic kind) on distinct cells *)
Theorem C12_bigdec_mut_forms_agree : forall h d d2, valid2 h d d2 ->
  obs_of (AddMut d d2 h) = obs_of (Add d d2 h) /\
  obs_of (SubMut d d2 h) = obs_of (Sub d d2 h) /\
  obs_of (MulMut d d2 h) = obs_of (Mul d d2 h) /\
  obs_of (MulDecMut d d2 h) = obs_of (MulDec d d2 h) /\
  obs_of (QuoMut d d2 h) = obs_of (Quo d d2 h) /\
  obs_of (QuoTruncateMut d d2 h) = obs_of (QuoTruncate d d2 h) /\
  obs_of (QuoTruncateDecMut d d2 h) = obs_of (QuoTruncateDec d d2 h) /\
  obs_of (QuoRoundUpMut d d2 h) = obs_of (QuoRoundUp d d2 h) /\
  obs_of (NegMut d h) = obs_of (Neg d h) /\
  obs_of (AbsMut d h) = obs_of (Abs d h) /\
  obs_of (CeilMut d h) = obs_of (Ceil d h) /\
  obs_of (BigDecFromDecMut d h) = obs_of (BigDecFromDec d h).
Proof. exact bigdec_mut_forms_agree. Qed.
Print Assumptions C12_bigdec_mut_forms_agree.
Theorem C12_chop_precision_forms_agree : forall k h d, 0 <= k -> (d < next h)%nat ->
  obs_of (ChopPrecisionMut d k h) = obs_of (ChopPrecision d k h).
Proof. exact chop_precision_forms_agree. Qed.
Print Assumptions C12_chop_precision_forms_agree.
Theorem C12_dec_mut_forms_agree : forall h d d2, valid2 h d d2 ->
  obs_of (D_AddMut d d2 h) = obs_of (ImmutOp D_AddMut d d2 h) /\
  obs_of (D_SubMut d d2 h) = obs_of (ImmutOp D_SubMut d d2 h) /\
  obs_of (D_MulMut d d2 h) = obs_of (ImmutOp D_MulMut d d2 h) /\
  obs_of (D_MulTruncateMut d d2 h) = obs_of (ImmutOp D_MulTruncateMut d d2 h) /\
  obs_of (D_MulRoundUpMut d d2 h) = obs_of (ImmutOp D_MulRoundUpMut d d2 h) /\
  obs_of (D_MulIntMut d d2 h) = obs_of (ImmutOp D_MulIntMut d d2 h) /\
  obs_of (D_QuoMut d d2 h) = obs_of (ImmutOp D_QuoMut d d2 h) /\
  obs_of (D_QuoTruncateMut d d2 h) = obs_of (ImmutOp D_QuoTruncateMut d d2 h) /\
  obs_of (D_QuoRoundupMut d d2 h) = obs_of (ImmutOp D_QuoRoundupMut d d2 h) /\
  obs_of (D_QuoIntMut d d2 h) = obs_of (ImmutOp D_QuoIntMut d d2 h).
Proof. exact dec_mut_forms_agree. Qed.
Print Assumptions C12_dec_mut_forms_agree.
(* aliased receiver = argument: fine for Add/Sub/Mul ... *)
Theorem C12_aliased_mut_agree_partial : forall h d, (d < next h)%nat ->
  obs_of (AddMut d d h) = obs_of (Add d d h) /\ obs_of (SubMut d d h) = obs_of (Sub d d h) /\
  obs_of (MulMut d d h) = obs_of (Mul d d h).
Proof. exact aliased_mut_agree. Qed.
Print Assumptions C12_aliased_mut_agree_partial.
(* ... missing for the full statement: the mutating divisions (finding C12-ALIAS; x.QuoMut(x) = 0, x.Quo(x) = 1) *)
Theorem C12_aliased_quo_mut_refuted :
  obs_of (QuoMut 0 0 h5) = (0, 0) /\ obs_of (Quo 0 0 h5) = (0, P36) /\
  obs_of (QuoTruncateMut 0 0 h5) = (0, 1) /\ obs_of (QuoTruncate 0 0 h5) = (0, P36) /\
  obs_of (QuoRoundUpMut 0 0 h5) = (0, 1) /\ obs_of (QuoRoundUp 0 0 h5) = (0, P36) /\
  obs_of (D_QuoMut 0 0 (init_heap (5 * P18) 0)) = (0, 0) /\ obs_of (ImmutOp D_QuoMut 0 0 (init_heap (5 * P18) 0)) = (0, P18).
Proof. exact aliased_quo_mut_refuted. Qed.
Print Assumptions C12_aliased_quo_mut_refuted.

(* non-mutating forms leave operands (and every other existing cell) untouched, on every heap, for every method
   listed by nonmut_op, whether the call returns or panics; mutating forms write their receiver only *)
Theorem C12_nonmut_forms_leave_operands_untouched : forall o x y a b k h,
  nonmut_op o = true -> untouched h (exec o x y a b k h).
Proof. exact nonmut_frame. Qed.
Print Assumptions C12_nonmut_forms_leave_operands_untouched.
Theorem C12_mut_forms_write_receiver_only : forall o x y a b k h,
  mut_op o = true -> only_cell x h (exec o x y a b k h).
Proof. exact mut_frame. Qed.
Print Assumptions C12_mut_forms_write_receiver_only.
(* missing for the full statement: SigFigRound is not in nonmut_op - it multiplies its operand in place (finding C12-SIGFIG-MUT) *)
Theorem C12_sigfig_mutates_operand_refuted :
  match SigFigRound 0 1 (init_heap (5 * 10 ^ 16) 100) with
  | Ok h' r => rd h' r = 5 * 10 ^ 16 /\ rd h' 0%nat = 5 * 10 ^ 17
  | Panic _ _ => False
  end.
Proof. exact sigfig_mutates_operand_refuted. Qed.
Print Assumptions C12_sigfig_mutates_operand_refuted.
(* missing for the full statement: results beyond the bound that do not fail (finding C12-UNCHECKED), and a wrapping
   conversion of the uint64 divisor (finding C12-DIVU64) *)
Theorem C12_ceil_unchecked_refuted :
  let a := 2 ^ 1144 - 1 in bd_fits a = true /\ obs_of (Ceil 0 (init_heap a 0)) = (0, bd_ceil a) /\ bd_fits (bd_ceil a) = false.
Proof. exact ceil_unchecked_refuted. Qed.
Print Assumptions C12_ceil_unchecked_refuted.
Theorem C12_dec_conversion_unchecked_refuted :
  let a := 2 ^ 400 in bd_fits a = true /\ obs_of (ToDec 0 (init_heap a 0)) = (0, bd_to_dec a) /\ d_fits (bd_to_dec a) = false.
Proof. exact dec_conversion_unchecked_refuted. Qed.
Print Assumptions C12_dec_conversion_unchecked_refuted.
Theorem C12_div_u64_wraps_refuted :
  obs_of (DivIntByU64ToBigDec 0 (2 ^ 63) 1 (init_heap 10 0)) = (0, -1084202172485504434) /\
  rceil (10 * P36) (2 ^ 63) = 1084202172485504435.
Proof. exact div_u64_wraps_refuted. Qed.
Print Assumptions C12_div_u64_wraps_refuted.

(* ================================================================== 4. encodings *)
(* text, binary and JSON round trips of every BigDec the parsers' own bound admits (bitlen <= 1024) ... *)
Theorem C12_codec_roundtrip_partial : forall d, bitlen d <= from_str_bound -> bitlen d <= unmarshal_bound ->
  bd_from_str (bd_string d) = DOk d /\ bd_unmarshal (bd_marshal d) = DOk d /\ bd_unmarshal_json (bd_marshal_json d) = DOk d.
Proof. exact codec_roundtrip_partial. Qed.
Print Assumptions C12_codec_roundtrip_partial.
(* ... missing for the full statement: every value above that bound - arithmetic produces them up to 1144 bits - is
   rejected by all three decoders (finding F8) *)
Theorem C12_codec_roundtrip_above_bound_refuted : forall d, from_str_bound < bitlen d ->
  bd_from_str (bd_string d) = DErr /\ bd_unmarshal (bd_marshal d) = DErr /\ bd_unmarshal_json (bd_marshal_json d) = DErr.
Proof. exact codec_roundtrip_above_bound_refuted. Qed.
Print Assumptions C12_codec_roundtrip_above_bound_refuted.
Theorem C12_codec_roundtrip_refuted : exists d, bitlen d <= assert_bound /\ bd_from_str (bd_string d) <> DOk d.
Proof. exact codec_roundtrip_refuted. Qed.
Print Assumptions C12_codec_roundtrip_refuted.
(* the 18-decimal type and BigInt round-trip every representable value *)
Theorem C12_dec_codec_roundtrip : forall d, d_fits d = true ->
  d_from_str (d_string d) = DOk d /\ d_unmarshal (int_text d) = DOk d /\ d_unmarshal_json (d_marshal_json d) = DOk d.
Proof. exact dec_codec_roundtrip. Qed.
Print Assumptions C12_dec_codec_roundtrip.
Theorem C12_bigint_codec_roundtrip : forall i, bitlen i <= maxBitLen ->
  bi_from_string (int_text i) = DOk i /\ bi_unmarshal (int_text i) = DOk i /\ bi_unmarshal_json (bi_marshal_json i) = DOk i.
Proof. exact bigint_codec_roundtrip. Qed.
Print Assumptions C12_bigint_codec_roundtrip.
(* malformed text is rejected: empty, a lone sign, two decimal points, more decimals than the precision *)
Theorem C12_malformed_text_rejected : forall prec fits,
  dec_from_str prec fits [] = DErr /\ dec_from_str prec fits [c_minus] = DErr /\
  (forall s, (2 <= count_occ Z.eq_dec s c_dot)%nat -> dec_from_str prec fits s = DErr) /\
  (forall i f, Forall is_digit i -> i <> [] -> Forall is_digit f -> (prec < length f)%nat ->
     dec_from_str prec fits (i ++ c_dot :: f) = DErr /\ dec_from_str prec fits (c_minus :: i ++ c_dot :: f) = DErr).
Proof.
  intros; repeat split; [apply reject_two_dots|apply reject_too_many_decimals|apply reject_too_many_decimals]; assumption.
Qed.
Print Assumptions C12_malformed_text_rejected.

(* ================================================================== 5. the full statement *)
Definition C12_directions_full : Prop :=
  (forall a b, b <> 0 -> d_quo_round_up a b = rceil (a * U18) b) /\           (* fails: F5 *)
  (forall a b, b <> 0 -> bd_quo_round_up a b = rceil (a * U36) b).            (* holds (F1 repaired) *)
Definition C12_mut_eq_full : Prop :=
  forall h d d2, (d < next h)%nat -> (d2 < next h)%nat ->                      (* d = d2 allowed: fails, C12-ALIAS *)
  obs_of (QuoMut d d2 h) = obs_of (Quo d d2 h) /\ obs_of (MulMut d d2 h) = obs_of (Mul d d2 h).
Definition C12_frame_full : Prop :=
  forall h d t, (d < next h)%nat -> (t < next h)%nat -> untouched h (SigFigRound d t h).   (* fails: C12-SIGFIG-MUT *)
Definition C12_overflow_full : Prop :=
  forall h d, (d < next h)%nat -> bd_fits (rd h d) = true ->                  (* fails: C12-UNCHECKED *)
  match Ceil d h with Ok h' r => bd_fits (rd h' r) = true | Panic _ _ => True end.
Definition C12_codec_full : Prop :=
  forall d, bd_fits d = true -> bd_from_str (bd_string d) = DOk d.            (* fails: F8 *)
Definition C12_full : Prop :=
  C12_directions_full /\ C12_mut_eq_full /\ C12_frame_full /\ C12_overflow_full /\ C12_codec_full.

Theorem C12_full_refuted :
  ~ C12_directions_full /\ ~ C12_mut_eq_full /\ ~ C12_frame_full /\ ~ C12_overflow_full /\ ~ C12_codec_full.
Proof. exact full_refuted. Qed.
Print Assumptions C12_full_refuted.

(* ================================================================== non-vacuity *)
Example C12_round_up_division_nonvacuous :
  bd_quo_round_up P36 (-3 * P36) = -333333333333333333333333333333333333 /\
  bd_quo_round_up (- P36) (-3 * P36) = 333333333333333333333333333333333334 /\
  bd_quo_round_up_next_int_mut (-7 * P36) (2 * P36) = -3 * P36 /\ bd_to_dec_round_up (-15 * 10 ^ 17) = -1.
Proof. repeat split; vm_compute; reflexivity. Qed.
Example C12_half_even_nonvacuous :
  bd_mul (5 * 10 ^ 35) 1 = 0 /\ bd_mul (5 * 10 ^ 35) 3 = 2 /\ bd_mul (5 * 10 ^ 35) (-3) = -2 /\ bd_mul (5 * 10 ^ 35) 5 = 2 /\
  bd_quo 1 (2 * P36) = 0 /\ bd_quo 3 (2 * P36) = 2.
Proof. repeat split; vm_compute; reflexivity. Qed.
Example C12_cells_nonvacuous :
  valid2 (init_heap (3 * P36) (-7 * P36)) 0 1 /\
  obs_of (QuoMut 0 1 (init_heap (3 * P36) (-7 * P36))) = (0, -428571428571428571428571428571428571) /\
  obs_of (MulMut 0 1 (init_heap (2 ^ 1100) (2 ^ 200))) = (1, 0) /\
  obs_of (Quo 0 1 (init_heap 5 0)) = (2, 0) /\
  nonmut_op OBD_QuoRoundUp = true /\ mut_op OBD_QuoRoundUpMut = true /\
  bd_power_v (2 * P36) 10 = Some (1024 * P36) /\ d_power_v (15 * 10 ^ 17) 3 = Some (3375 * 10 ^ 15) /\
  bd_power_v (2 ^ 600) 5 = None.
Proof. repeat split; try (vm_compute; reflexivity); cbn; try lia; discriminate. Qed.
Example C12_codec_nonvacuous :
  bitlen (- (2 ^ 1024 - 1)) <= from_str_bound /\
  bd_string (-15 * 10 ^ 35 - 1) = [45; 49; 46; 53] ++ repeat 48 34 ++ [49] /\
  bd_from_str [45; 48; 46; 48] = DOk 0.
Proof. repeat split; vm_compute; try reflexivity; discriminate. Qed.
