(* C10 - TWAP equals the time-weighted mean of the recorded spot prices.
   Property theorems only; each is closed by a lemma of C10/Proofs*.v.

   Vocabulary (C10/Spec.v): a history of one (pool, asset pair) is its creation (block time t0, height h0, raw spot
   prices w0 w1 as returned by the pool manager) followed by a list [evs] of end-of-block updates [PUpd now height w0 w1]
   (blocks in which the pool was marked as changed) and pruning passes [PPrune keep budget]; [history ... p G] says that
   running the model (C10/Model.v, tied to x/twap by the correspondence check) over it yields the pair state p.
   [spec_events] is the list of (block time, end-of-block prices) the history prescribes, [price_at] the price in force
   on a millisecond slot (the price of the last event at or before it), [integral] the sum over millisecond slots.
   The statements hold for every logarithm / power function [lg], [ex] plugged into the model. *)
From Coq Require Import ZArith List Bool Lia.
Import ListNotations.
From Osmo Require Import Base.DecModel Gen.C10_consts C10.Model C10.Spec C10.ProofsList C10.ProofsChain C10.ProofsTwap.
Open Scope Z_scope.

(* arithmetic TWAP = the code's rounding (truncating division) of  sum p_i * dt_i / (end - start), for every history,
   every interval inside the retention window (start at or after creation and after every keep time used so far) *)
Theorem C10_arith_eq_weighted_mean : forall lg ex t0 h0 w0 w1 evs p G now q0 start stop f v,
  history lg t0 h0 w0 w1 evs p G -> r_time (p_recent p) <= now ->
  t0 <= start -> max_keep t0 evs <= start -> ms start < ms stop ->
  twap_between lg ex now p q0 false start stop = QVal f v ->
  v = Z.quot (integral (price_at (spec_events t0 w0 w1 evs) q0 0) (ms start) (ms stop)) (ms stop - ms start).
Proof. exact arith_eq_weighted_mean. Qed.
Print Assumptions C10_arith_eq_weighted_mean.

(* ... and lies between the minimum and the maximum price in force during the interval *)
Theorem C10_arith_between_min_max : forall lg ex t0 h0 w0 w1 evs p G now q0 start stop f v lo hi,
  history lg t0 h0 w0 w1 evs p G -> r_time (p_recent p) <= now ->
  t0 <= start -> max_keep t0 evs <= start -> ms start < ms stop ->
  twap_between lg ex now p q0 false start stop = QVal f v ->
  (forall tau, ms start <= tau < ms stop -> lo <= price_at (spec_events t0 w0 w1 evs) q0 0 tau <= hi) ->
  lo <= v <= hi.
Proof. exact arith_between_min_max. Qed.
Print Assumptions C10_arith_between_min_max.

(* geometric TWAP: the accumulator difference is exactly sum log2(p_i) * dt_i (log2 as the code computes it, nothing added
   while the price is zero); a zero difference returns 0, otherwise the result is the code's rounding of Exp2 |mean| or of
   its reciprocal, chosen by the sign of the mean and the quote side *)
Theorem C10_geom_structure : forall lg ex t0 h0 w0 w1 evs p G now q0 start stop f v,
  history lg t0 h0 w0 w1 evs p G -> r_time (p_recent p) <= now ->
  t0 <= start -> max_keep t0 evs <= start -> ms start < ms stop ->
  twap_between lg ex now p q0 true start stop = QVal f v ->
  let diff := integral (fun tau => glogv lg (price_at (spec_events t0 w0 w1 evs) true 0 tau)) (ms start) (ms stop) in
  let m := Z.quot diff (ms stop - ms start) in
  (diff = 0 /\ v = 0) \/
  (diff <> 0 /\ exists E, ex (bd_from_dec (Z.abs m)) = Some E /\
     let invert := ((m <? 0) && q0) || (negb (m <? 0) && negb q0) in
     sigfig_round (bd_to_dec (if invert then bd_quo P36 E else E)) = Some v).
Proof. exact geom_structure. Qed.
Print Assumptions C10_geom_structure.

(* an interval touching a spot-price error (pool error or out-of-range price at creation or at a block end) is flagged *)
Theorem C10_error_flagged : forall lg ex t0 h0 w0 w1 evs p G now q0 geom start stop f v te,
  history lg t0 h0 w0 w1 evs p G -> r_time (p_recent p) <= now -> max_keep t0 evs <= start ->
  twap_between lg ex now p q0 geom start stop = QVal f v ->
  error_at t0 w0 w1 evs te -> start <= te <= stop ->
  f = true.
Proof. exact error_flagged. Qed.
Print Assumptions C10_error_flagged.

(* pruning never changes an answer whose interval starts at or after the keep time (any budget, any state whose index is
   sorted - which every reachable state is, see C10_reachable_sorted) *)
Theorem C10_prune_invisible : forall lg ex p keep budget now q0 geom start stop,
  tsorted (p_hist p) -> keep <= start ->
  twap_between lg ex now (mkPair (p_recent p) (fst (prune_pair keep budget (p_hist p)))) q0 geom start stop =
  twap_between lg ex now p q0 geom start stop.
Proof. exact prune_invisible_pair. Qed.
Print Assumptions C10_prune_invisible.

Theorem C10_reachable_sorted : forall lg t0 h0 w0 w1 evs p G,
  history lg t0 h0 w0 w1 evs p G -> tsorted (p_hist p).
Proof. intros lg t0 h0 w0 w1 evs p G H. destruct (history_inv _ _ _ _ _ _ _ _ H) as ((_ & _ & Hs & _) & _). exact Hs. Qed.
Print Assumptions C10_reachable_sorted.

(* non-vacuity: a pool at price 2 / 0.5, moved to 3 / 0.333 after 10 s and to 1.5 / 0.666 after 15 s, pruned with keep
   time 12 s; the interval [13 s, 21 s] is answered with the mean (2*3 s... ) computed below *)
Definition nv_raw (v : Z) : raw := mkRaw false false (v * P18).
Definition nv_t0 : Z := 1700000000 * 1000000000.
Definition nv_evs : list pev :=
  [ PUpd nv_t0 5 (nv_raw 2000000000000000000) (nv_raw 500000000000000000);
    PUpd (nv_t0 + 10000000000) 6 (nv_raw 3000000000000000000) (nv_raw 333333330000000000);
    PUpd (nv_t0 + 15000000000) 7 (nv_raw 1500000000000000000) (nv_raw 666666670000000000);
    PPrune (nv_t0 + 12000000000) 200 ].
Definition nv_lg (_ : Z) : option Z := Some 0.
Definition nv_ex (_ : Z) : option Z := None.
Example C10_nonvacuous :
  exists p G, history nv_lg nv_t0 5 (nv_raw 2000000000000000000) (nv_raw 500000000000000000) nv_evs p G /\
    max_keep nv_t0 nv_evs = nv_t0 + 12000000000 /\
    length (p_hist p) = 2%nat /\ length G = 4%nat /\
    twap_between nv_lg nv_ex (nv_t0 + 30000000000) p true false (nv_t0 + 13000000000) (nv_t0 + 21000000000)
      = QVal false 1875000000000000000.
Proof.
  eexists. eexists. split; [split; [|split]|].
  - vm_compute; discriminate.
  - cbn [wf_from nv_evs]. repeat split; try (left; repeat split; reflexivity); right; unfold nv_t0; lia.
  - vm_compute. reflexivity.
  - vm_compute. repeat split; reflexivity.
Qed.
