(* C10 - TWAP equals the time-weighted mean of the recorded spot prices.
   Property theorems only; each is closed by a lemma of C10/Proofs*.v.

   Vocabulary (C10/Spec.v): a history of one (pool, asset pair) is its creation (block time t0, height h0, raw spot
   prices w0 w1 as returned by the pool manager) followed by a list [evs] of end-of-block updates [PUpd now height w0 w1]
   (blocks in which the pool was marked as changed) and pruning passes [PPrune keep budget]; [history ... p G] says that
   running the model (C10/Model.v, tied to x/twap by the correspondence check) over it yields the pair state p.
   [spec_events] is the list of (block time, end-of-block prices) the history prescribes, [price_at] the price in force
   on a millisecond slot (the price of the last event at or before it), [integral] the sum over millisecond slots.
   The statements hold for every logarithm / power function [lg], [ex] plugged into the model. *)
From Coq Require Import ZArith List Bool Lia Reals.
Import ListNotations.
From Osmo Require Import Base.DecModel Gen.C10_consts C10.Model C10.LogExp C10.Spec C10.ProofsSum C10.ProofsList C10.ProofsChain C10.ProofsTwap C10.ProofsLog C10.ProofsAnswer C10.ProofsFlag C10.ProofsFull C10.Lift C10.Corr C10.CorrLink C10.GeomBound C10.GeomReal C10.GeomMean.
Open Scope Z_scope.

(* arithmetic TWAP = the code's rounding (truncating division) of  sum p_i * dt_i / (end - start), for every history,
   every interval inside the retention window (start at or after creation and after every keep time used so far) *)
Theorem C10_arith_eq_weighted_mean : forall lg ex t0 h0 w0 w1 evs p G now q0 start stop f v,
  history lg t0 h0 w0 w1 evs p G -> r_time (p_recent p) <= now ->
  t0 <= start -> max_keep t0 evs <= start -> ms start < ms stop ->
  twap_between lg ex now p q0 false start stop = QVal f v ->
  v = Z.quot (integral (price_at (spec_events t0 w0 w1 evs) q0 0) (ms start) (ms stop)) (ms stop - ms start).
Proof. exact arith_eq_weighted_mean. Qed.
Print Assumptions C10_arith_eq_weighted_mean.

(* ... and lies between the minimum and the maximum price in force during the interval *)
Theorem C10_arith_between_min_max : forall lg ex t0 h0 w0 w1 evs p G now q0 start stop f v lo hi,
  history lg t0 h0 w0 w1 evs p G -> r_time (p_recent p) <= now ->
  t0 <= start -> max_keep t0 evs <= start -> ms start < ms stop ->
  twap_between lg ex now p q0 false start stop = QVal f v ->
  (forall tau, ms start <= tau < ms stop -> lo <= price_at (spec_events t0 w0 w1 evs) q0 0 tau <= hi) ->
  lo <= v <= hi.
Proof. exact arith_between_min_max. Qed.
Print Assumptions C10_arith_between_min_max.

(* geometric TWAP: the accumulator difference is exactly sum log2(p_i) * dt_i (log2 as the code computes it, nothing added
   while the price is zero); a zero difference returns 0, otherwise the result is the code's rounding of Exp2 |mean| or of
   its reciprocal, chosen by the sign of the mean and the quote side *)
Theorem C10_geom_structure : forall lg ex t0 h0 w0 w1 evs p G now q0 start stop f v,
  history lg t0 h0 w0 w1 evs p G -> r_time (p_recent p) <= now ->
  t0 <= start -> max_keep t0 evs <= start -> ms start < ms stop ->
  twap_between lg ex now p q0 true start stop = QVal f v ->
  let diff := integral (fun tau => glogv lg (price_at (spec_events t0 w0 w1 evs) true 0 tau)) (ms start) (ms stop) in
  let m := Z.quot diff (ms stop - ms start) in
  (diff = 0 /\ v = 0) \/
  (diff <> 0 /\ exists E, ex (bd_from_dec (Z.abs m)) = Some E /\
     let invert := ((m <? 0) && q0) || (negb (m <? 0) && negb q0) in
     sigfig_round (bd_to_dec (if invert then bd_quo P36 E else E)) = Some v).
Proof. exact geom_structure. Qed.
Print Assumptions C10_geom_structure.

(* an interval touching a spot-price error (pool error or out-of-range price at creation or at a block end) is flagged *)
Theorem C10_error_flagged : forall lg ex t0 h0 w0 w1 evs p G now q0 geom start stop f v te,
  history lg t0 h0 w0 w1 evs p G -> r_time (p_recent p) <= now -> max_keep t0 evs <= start ->
  twap_between lg ex now p q0 geom start stop = QVal f v ->
  error_at t0 w0 w1 evs te -> start <= te <= stop ->
  f = true.
Proof. exact error_flagged. Qed.
Print Assumptions C10_error_flagged.

(* ... and only then: a flagged answer has a reason among the records G ever stored for the pair - an error record
   (last error time = its own time, i.e. the pool's spot price errored or was out of range at that block end / at creation)
   inside [start, stop], an error record or a zero asset-0 price in force at start, or a zero asset-0 price in force at stop *)
Theorem C10_flag_has_reason : forall lg ex t0 h0 w0 w1 evs p G now q0 geom start stop v,
  history lg t0 h0 w0 w1 evs p G -> r_time (p_recent p) <= now -> max_keep t0 evs <= start -> zero_time < start ->
  twap_between lg ex now p q0 geom start stop = QVal true v ->
  (exists r, In r G /\ r_err r = r_time r /\ start <= r_time r <= stop) \/
  (exists xs, hist_at_or_before G start = Some xs /\ (r_err xs = r_time xs \/ r_p0 xs = 0)) \/
  (exists xe, hist_at_or_before G stop = Some xe /\ r_p0 xe = 0).
Proof. exact flag_has_reason_history. Qed.
Print Assumptions C10_flag_has_reason.

(* pruning never changes an answer whose interval starts at or after the keep time (any budget, any state whose index is
   sorted - which every reachable state is, see C10_reachable_sorted) *)
Theorem C10_prune_invisible : forall lg ex p keep budget now q0 geom start stop,
  tsorted (p_hist p) -> keep <= start ->
  twap_between lg ex now (mkPair (p_recent p) (fst (prune_pair keep budget (p_hist p)))) q0 geom start stop =
  twap_between lg ex now p q0 geom start stop.
Proof. exact prune_invisible_pair. Qed.
Print Assumptions C10_prune_invisible.

Theorem C10_reachable_sorted : forall lg t0 h0 w0 w1 evs p G,
  history lg t0 h0 w0 w1 evs p G -> tsorted (p_hist p).
Proof. intros lg t0 h0 w0 w1 evs p G H. destruct (history_inv _ _ _ _ _ _ _ _ H) as ((_ & _ & Hs & _) & _). exact Hs. Qed.
Print Assumptions C10_reachable_sorted.

(* the exponent that C10_geom_structure hands to Exp2 - the truncated mean m of the logarithms - lies between the smallest
   and the largest log2 of the prices in force (the integer core of "geometric TWAP between min and max") *)
Theorem C10_geom_exponent_between : forall lg evs a b lo hi, a < b ->
  (forall tau, a <= tau < b -> lo <= glogv lg (price_at evs true 0 tau) <= hi) ->
  lo <= Z.quot (integral (fun tau => glogv lg (price_at evs true 0 tau)) a b) (b - a) <= hi.
Proof. intros lg evs a b lo hi Hab H. apply mean_between; assumption. Qed.
Print Assumptions C10_geom_exponent_between.

(* the two quote directions of the geometric TWAP come from one and the same Exp2 value E: one is the code's rounding of E,
   the other of the rounded reciprocal 10^72/E (bd_quo), which satisfies |E * recip - 10^72| <= E/2 + E/10^36 *)
Theorem C10_geom_reciprocal : forall lg ex t0 h0 w0 w1 evs p G now start stop f0 v0 f1 v1,
  history lg t0 h0 w0 w1 evs p G -> r_time (p_recent p) <= now ->
  t0 <= start -> max_keep t0 evs <= start -> ms start < ms stop ->
  twap_between lg ex now p true true start stop = QVal f0 v0 ->
  twap_between lg ex now p false true start stop = QVal f1 v1 ->
  let diff := integral (fun tau => glogv lg (price_at (spec_events t0 w0 w1 evs) true 0 tau)) (ms start) (ms stop) in
  let m := Z.quot diff (ms stop - ms start) in
  (diff = 0 /\ v0 = 0 /\ v1 = 0) \/
  (diff <> 0 /\ exists E, ex (bd_from_dec (Z.abs m)) = Some E /\
     sigfig_round (bd_to_dec (if m <? 0 then bd_quo P36 E else E)) = Some v0 /\
     sigfig_round (bd_to_dec (if m <? 0 then E else bd_quo P36 E)) = Some v1).
Proof. exact geom_reciprocal. Qed.
Print Assumptions C10_geom_reciprocal.

Theorem C10_reciprocal_rounding : forall E, 0 < E ->
  Z.abs (bd_quo P36 E * E * P36 - P36 * P72) * 2 <= E * P36 + 2 * E.
Proof. exact bd_quo_recip. Qed.
Print Assumptions C10_reciprocal_rounding.

(* the evaluation shortcuts used by the correspondence check compute the faithful LogBase2 *)
Theorem C10_log_table_faithful : forall ps p, lg_cached (build_tab ps) p = twap_log p.
Proof. exact lg_cached_correct. Qed.
Print Assumptions C10_log_table_faithful.

(* ---- the full statement, and where the faithful model refutes it ----
   [C10_geom_full] (C10/ProofsFull.v): every answered geometric query inside the window returns [geom_answer] - the code's
   rounding of Exp2 |diff/n| or of its reciprocal - with no side condition; [C10_answers_full]: every query over
   start < end inside the window is answered. *)
(* C10 at full strength = the theorems above (arithmetic mean, min/max, error flag, pruning, reciprocity) together with
   [C10_geom_full], [C10_answers_full] and the real-analysis reading of geom_answer (|geom / 2^(mean log2 p) - 1| <= eps,
   between min and max up to eps).  Proved: everything except the three items below.
   - C10_geom_full is FALSE of the faithful model (finding F7): proved under the side condition diff <> 0
     (C10_geom_conditional), refuted at price == 1 (C10_geom_full_refuted).
   - C10_answers_full is FALSE of the faithful model (finding C10-SUBMS): an interval inside one millisecond panics
     (C10_answers_full_refuted); for ms start < ms stop the arithmetic TWAP is always answered (C10_arith_answered); for
     the geometric TWAP the remaining failure cause, Exp2's exponent bound 2^9, is not excluded here (partial).
   - the real-analysis bounds need error bounds for LogBase2 and Exp2 (property C13): not proved here (partial). *)
Definition C10_full : Prop := C10_geom_full twap_log exp2 /\ C10_answers_full twap_log exp2.

Theorem C10_geom_conditional : forall lg ex t0 h0 w0 w1 evs p G now q0 start stop f v,
  history lg t0 h0 w0 w1 evs p G -> r_time (p_recent p) <= now ->
  t0 <= start -> max_keep t0 evs <= start -> ms start < ms stop ->
  twap_between lg ex now p q0 true start stop = QVal f v ->
  integral (fun tau => glogv lg (price_at (spec_events t0 w0 w1 evs) true 0 tau)) (ms start) (ms stop) <> 0 ->
  geom_answer ex (integral (fun tau => glogv lg (price_at (spec_events t0 w0 w1 evs) true 0 tau)) (ms start) (ms stop))
              (ms stop - ms start) q0 v.
Proof. exact geom_conditional. Qed.
Print Assumptions C10_geom_conditional.

(* F7 witness (replayed on the real chain by props/c10.py f7_witness): a pool whose spot price is exactly 1, blocks at 0, 5
   and 10 ms; the geometric TWAP over [1 ms, 4 ms] is 0, whereas Exp2 0 = 1 rounds to 1.000000000000000000 *)
Theorem C10_geom_full_refuted : ~ C10_geom_full twap_log exp2.
Proof. exact geom_full_refuted. Qed.
Print Assumptions C10_geom_full_refuted.

(* C10-SUBMS witness: the same pool; the interval [1 ns, 2 ns] lies inside one millisecond and the arithmetic query panics *)
Theorem C10_answers_full_refuted : ~ C10_answers_full twap_log exp2.
Proof. exact answers_full_refuted. Qed.
Print Assumptions C10_answers_full_refuted.

(* the positive part of C10_answers_full for the arithmetic TWAP: with the real twapLog, non-negative pool prices and a
   history of at most 2^63 ms, every arithmetic query over ms start < ms stop inside the window IS answered with a value
   (which C10_arith_eq_weighted_mean identifies) - no panic, no error *)
Theorem C10_arith_answered : forall ex t0 h0 w0 w1 evs p G now q0 start stop,
  history twap_log t0 h0 w0 w1 evs p G -> raw_nonneg w0 -> raw_nonneg w1 -> evs_nonneg evs ->
  r_time (p_recent p) <= now -> t0 <= start -> max_keep t0 evs <= start -> start <= stop <= now ->
  ms start < ms stop -> ms now - ms t0 <= span_max ->
  exists f v, twap_between twap_log ex now p q0 false start stop = QVal f v.
Proof. exact arith_answered_real. Qed.
Print Assumptions C10_arith_answered.

(* the value of the geometric TWAP as a real number (dR = value of an 18-decimal Dec, bR = value of a 36-decimal BigDec):
   for ANY Exp2 that is accurate to a relative eta <= 1e-18 on the exponents it accepts (osmomath documents 1e-18; C13 proves
   1e-19 for its model of the same code), an answer of the form [geom_answer] - which is what C10_geom_conditional
   establishes for every history whenever the accumulator difference is non-zero - is 2^(+-m) up to a relative 5.1e-8
   (SigFigRound keeps 8 digits) plus 3e-18, m = the truncated time-weighted mean of the accumulated 18-decimal logarithms.
   _partial: the step from m to the true mean of log2(price) needs LogBase2's error bound (C13, not available yet).
   Depends on the standard library's axioms for the real numbers. *)
Theorem C10_geom_value_partial : forall (ex : Z -> option Z) (eta : R),
  (0 <= eta <= 1 / 10 ^ 18)%R ->
  (forall e E, ex e = Some E -> 0 <= e -> (Rabs (bR E - Rpower 2 (bR e)) <= eta * Rpower 2 (bR e))%R) ->
  forall diff n q0 v, geom_answer ex diff n q0 v ->
  let m := Z.quot diff n in
  let T := Rpower 2 (dR (Z.abs m)) in
  let invert := ((m <? 0) && q0) || (negb (m <? 0) && negb q0) in
  let target := if invert then (/ T)%R else T in
  (Rabs (dR v - target) <= 51 / 10 ^ 9 * target + 3 / 10 ^ 18)%R.
Proof. exact geom_value. Qed.
Print Assumptions C10_geom_value_partial.

(* ... and against the TRUE time-weighted mean M of log2(price) over the millisecond slots of the interval: for every history,
   any Exp2 accurate to eta <= 1e-18 and any twapLog that is defined and delta-accurate (delta <= 1e-9) on the prices in force,
       |geom - 2^(+-M)| <= (5.1e-8 + 3 (delta + 1e-18)) * 2^(+-M) + 3e-18      (+ for quote = asset 0, - for asset 1).
   The Exp2 hypothesis holds for the model's own exp2 with eta = 1e-19: C10/BridgeC13.v [exp2_accurate] proves it from C13's
   Exp2 theorem through [exp2_agree : exp2 e = Some r -> C13.Exp2.exp2 e = Ok r]; that file is compiled with the whole development
   (./check --setup) but kept out of this theorem file's dependency cone (it pulls in Coq-Interval, which makes coqchk take > 30 min).
   _partial: delta-accuracy of the model's own twap_log (LogBase2 cut to 18 decimals: delta = 1e-18 + LogBase2's error)
   is C13's LogBase2 theorem, not available as a committed result when this was written. *)
Theorem C10_geom_twap_true_mean_partial : forall (lg ex : Z -> option Z) (eta delta : R) (admissible : Z -> Prop),
  (0 <= eta <= 1 / 10 ^ 18)%R -> (0 <= delta <= 1 / 10 ^ 9)%R ->
  (forall e E, ex e = Some E -> 0 <= e -> (Rabs (bR E - Rpower 2 (bR e)) <= eta * Rpower 2 (bR e))%R) ->
  (forall p, admissible p -> 0 < p /\ exists l, lg p = Some l /\ (Rabs (dR l - log2R (dR p)) <= delta)%R) ->
  forall t0 h0 w0 w1 evs p G now q0 start stop f v,
  history lg t0 h0 w0 w1 evs p G -> r_time (p_recent p) <= now ->
  t0 <= start -> max_keep t0 evs <= start -> ms start < ms stop ->
  twap_between lg ex now p q0 true start stop = QVal f v ->
  let price := price_at (spec_events t0 w0 w1 evs) true 0 in
  integral (fun tau => glogv lg (price tau)) (ms start) (ms stop) <> 0 ->
  (forall tau, ms start <= tau < ms stop -> admissible (price tau)) ->
  let M := (rintegral (fun tau => log2R (dR (price tau))) (ms start) (ms stop) / IZR (ms stop - ms start))%R in
  let target := Rpower 2 (if q0 then M else (- M)%R) in
  (Rabs (dR v - target) <= (51 / 10 ^ 9 + 3 * (delta + 1 / 10 ^ 18)) * target + 3 / 10 ^ 18)%R.
Proof. exact geom_twap_true_mean. Qed.
Print Assumptions C10_geom_twap_true_mean_partial.

(* ... and for the model's own twap_log and exp2: given the two accuracy statements
     exp2_accuracy_stmt      |Exp2 e - 2^e| <= 1e-19 * 2^e wherever exp2 answers
     twap_log_accuracy_stmt  twap_log is defined and within 2e-18 of log2 on every price in (0, 2^128 - 1]
   - both PROVED in C10/BridgeC13.v [accuracy_statements] from C13's theorems C13_exp2_relative_error and C13_log2_error through
   bridges exp2_agree / log_base2_agree (C10's copies return what C13's models return); that file is compiled with the whole
   development (./check --setup) but kept out of this file's dependency cone because Coq-Interval makes coqchk run > 30 min -
   the geometric TWAP of every history, over every interval inside the window on which the recorded prices are positive and the
   accumulator difference is non-zero, is within 5.1e-8 relative + 3e-18 of two to the TRUE time-weighted mean of log2(price):
   "equals two to the time-weighted mean of their base-2 logarithms, to the stated precision" (SigFigRound keeps 8 digits). *)
Theorem C10_geom_twap_model_partial :
  exp2_accuracy_stmt -> twap_log_accuracy_stmt ->
  forall t0 h0 w0 w1 evs p G now q0 start stop f v,
  history twap_log t0 h0 w0 w1 evs p G -> r_time (p_recent p) <= now ->
  t0 <= start -> max_keep t0 evs <= start -> ms start < ms stop ->
  twap_between twap_log exp2 now p q0 true start stop = QVal f v ->
  let price := price_at (spec_events t0 w0 w1 evs) true 0 in
  integral (fun tau => glogv twap_log (price tau)) (ms start) (ms stop) <> 0 ->
  (forall tau, ms start <= tau < ms stop -> 0 < price tau <= maxp) ->
  let M := (rintegral (fun tau => log2R (dR (price tau))) (ms start) (ms stop) / IZR (ms stop - ms start))%R in
  let target := Rpower 2 (if q0 then M else (- M)%R) in
  (Rabs (dR v - target) <= (51 / 10 ^ 9 + 9 / 10 ^ 18) * target + 3 / 10 ^ 18)%R.
Proof. exact geom_twap_model. Qed.
Print Assumptions C10_geom_twap_model_partial.

(* the integer facts behind it: SigFigRound(d, 10^8) stays within d/(2*10^7) + 1 units of d *)
Theorem C10_sigfig_round_close : forall d v, sigfig_round d = Some v -> 0 < d ->
  Z.abs (v - d) * (2 * 10 ^ 7) <= d + 2 * 10 ^ 7.
Proof. exact sigfig_round_close. Qed.
Print Assumptions C10_sigfig_round_close.

(* ---- the module as a whole ----
   [grun lg (ginit t0 h0 limit keep_period) zero_time ops = (st, km)]: the module state after any sequence of pool creations,
   price-affecting operations (trackChangedPool), block ends (EndBlock over the changed pools, then the pruning pass with its
   per-block limit), pruning-state settings and epoch hooks; km = the largest keep time ever put into the pruning state.
   Every pair of every reachable state is the result of a well-formed pair history, so all theorems above apply to it. *)
Theorem C10_module_pair_history : forall lg ops t0 h0 limit kp st km id k p,
  zero_time <= t0 -> positive_dts ops -> grun lg (ginit t0 h0 limit kp) zero_time ops = (st, km) ->
  pair_of st id k = Some p ->
  exists tc hc w0 w1 evs G, history lg tc hc w0 w1 evs p G /\
    (forall keep b, In (PPrune keep b) evs -> keep <= km) /\ r_time (p_recent p) <= s_now st.
Proof. exact module_pair_history. Qed.
Print Assumptions C10_module_pair_history.

Theorem C10_module_query_is_pair_query : forall lg ex st id k q0 geom tonow start stop f v,
  query lg ex st (QPair id k q0) geom tonow start stop = QVal f v ->
  exists p, pair_of st id k = Some p /\
    twap_between lg ex (s_now st) p q0 geom start (if tonow then s_now st else stop) = QVal f v.
Proof. exact module_query_pair. Qed.
Print Assumptions C10_module_query_is_pair_query.

(* the flagship statement on the module model: GetArithmeticTwap(+ToNow) = truncated time-weighted mean, for every module
   history and every interval starting at or after every keep time (creation of the pair included: an answered query
   cannot start before it) *)
Theorem C10_module_arith_eq_weighted_mean : forall lg ex ops t0 h0 limit kp st km id k q0 tonow start stop f v,
  zero_time <= t0 -> positive_dts ops -> grun lg (ginit t0 h0 limit kp) zero_time ops = (st, km) ->
  query lg ex st (QPair id k q0) false tonow start stop = QVal f v ->
  km <= start ->
  let stop' := if tonow then s_now st else stop in
  ms start < ms stop' ->
  exists tc hc w0 w1 evs p G, pair_of st id k = Some p /\ history lg tc hc w0 w1 evs p G /\
    v = Z.quot (integral (price_at (spec_events tc w0 w1 evs) q0 0) (ms start) (ms stop')) (ms stop' - ms start).
Proof. exact module_arith_eq_weighted_mean. Qed.
Print Assumptions C10_module_arith_eq_weighted_mean.

(* the transitions and answers evaluated by the correspondence check are these very functions *)
Theorem C10_corresponded_model : forall lg ex g st o,
  fst (step lg ex g st o) = match gop_of o with Some go => gstep lg st go | None => st end.
Proof. exact step_is_gstep. Qed.
Print Assumptions C10_corresponded_model.

(* non-vacuity: a pool at price 2 / 0.5, moved to 3 / 0.333 after 10 s and to 1.5 / 0.666 after 15 s, pruned with keep
   time 12 s; the interval [13 s, 21 s] is answered with the mean (2*3 s... ) computed below *)
Definition nv_raw (v : Z) : raw := mkRaw false false (v * P18).
Definition nv_t0 : Z := 1700000000 * 1000000000.
Definition nv_evs : list pev :=
  [ PUpd nv_t0 5 (nv_raw 2000000000000000000) (nv_raw 500000000000000000);
    PUpd (nv_t0 + 10000000000) 6 (nv_raw 3000000000000000000) (nv_raw 333333330000000000);
    PUpd (nv_t0 + 15000000000) 7 (nv_raw 1500000000000000000) (nv_raw 666666670000000000);
    PPrune (nv_t0 + 12000000000) 200 ].
Definition nv_lg (_ : Z) : option Z := Some 0.
Definition nv_ex (_ : Z) : option Z := None.
Example C10_nonvacuous :
  exists p G, history nv_lg nv_t0 5 (nv_raw 2000000000000000000) (nv_raw 500000000000000000) nv_evs p G /\
    max_keep nv_t0 nv_evs = nv_t0 + 12000000000 /\
    length (p_hist p) = 2%nat /\ length G = 4%nat /\
    twap_between nv_lg nv_ex (nv_t0 + 30000000000) p true false (nv_t0 + 13000000000) (nv_t0 + 21000000000)
      = QVal false 1875000000000000000.
Proof.
  eexists. eexists. split; [split; [|split]|].
  - vm_compute; discriminate.
  - cbn [wf_from nv_evs]. repeat split; try (left; repeat split; reflexivity); right; unfold nv_t0; lia.
  - vm_compute. reflexivity.
  - vm_compute. repeat split; reflexivity.
Qed.
