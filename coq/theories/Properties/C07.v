(* C07 - Concentrated pool bookkeeping always agrees with its positions.
   Theorem file: every theorem is closed by lemmas of C07/{LP,Swap,Proofs}.v.  All statements are over ALL finite
   histories [ops] of the operations of CL/CLStep.v (create / withdraw partial or full / add-to-position / transfer /
   swap exact-in / swap exact-out in both directions / time advance; arbitrary arguments; successful or failing)
   on a pool with any authorised tick spacing and spread factor (the lists are the generated Gen/CL_consts.v names,
   re-read from /repo on every run), any accounts and balances.  "After every operation" = for every [ops], since
   [run s0 ops] ranges over every prefix of every history.  The swap cases (crossing initialised ticks upwards and
   downwards, landing inside a bucket, no-progress steps, liquidity gaps) are proved in full: C07/Swap.v. *)
From Coq Require Import ZArith List Bool.
Import ListNotations.
From Osmo Require Import Base.DecModel Gen.CL_consts CL.TickMath CL.CLPool CL.CLSwap CL.CLStep.
From Osmo Require Import C07.Base C07.LP C07.Proofs.
Open Scope Z_scope.

Definition reach (sp spf sc t0 : Z) (users : list (Z * Z)) (ops : list op) : state :=
  run (init_state sp spf sc users t0) ops.

(* the inductive invariant holds after every history *)
Theorem C07_invariant : forall sp spf sc t0 users ops,
  In sp cl_AuthorizedTickSpacing -> In spf cl_AuthorizedSpreadFactors -> Inv (reach sp spf sc t0 users ops).
Proof. intros. apply run_inv, init_inv; [apply authorised_spacing_pos|apply authorised_spread_bounds]; assumption. Qed.
Print Assumptions C07_invariant.

(* active liquidity = total liquidity of the positions whose range contains the current tick *)
Theorem C07_active_liq_eq : forall sp spf sc t0 users ops,
  In sp cl_AuthorizedTickSpacing -> In spf cl_AuthorizedSpreadFactors ->
  let s := reach sp spf sc t0 users ops in
  p_liq (s_pool s) = sum_liq (fun lo hi => (lo <=? p_tick (s_pool s)) && (p_tick (s_pool s) <? hi)) (s_pos s).
Proof. intros sp spf sc t0 users ops H1 H2. apply (inv_active _ (C07_invariant sp spf sc t0 users ops H1 H2)). Qed.
Print Assumptions C07_active_liq_eq.

(* stored ticks are exactly the boundaries in use, each with gross = sum of L over the positions using it and
   net = sum of +L (as lower boundary) and -L (as upper boundary); no tick is stored twice (strictly sorted list) *)
Theorem C07_tick_sums : forall sp spf sc t0 users ops,
  In sp cl_AuthorizedTickSpacing -> In spf cl_AuthorizedSpreadFactors ->
  let s := reach sp spf sc t0 users ops in
  keys_sorted (s_ticks s) /\
  forall b, tick_get (s_ticks s) b =
            if uses b (s_pos s) then Some (mkTick (gross_at b (s_pos s)) (net_at b (s_pos s))) else None.
Proof.
  intros sp spf sc t0 users ops H1 H2. pose proof (C07_invariant sp spf sc t0 users ops H1 H2) as I.
  split; [apply (inv_ticks_sorted _ I)|]. intro b. rewrite (inv_tick_sums _ I).
  apply tick_expected_uses. apply (pos_ok_liq _ _ _ (inv_pos_ok _ I)).
Qed.
Print Assumptions C07_tick_sums.

(* price and tick agree about every multiple b of the pool's tick spacing in the initialisable range:
   b <= tick -> S(b) <= sqrtP, and tick < b -> sqrtP <= S(b), with S = TickToSqrtPrice *)
Theorem C07_price_tick_consistent : forall sp spf sc t0 users ops,
  In sp cl_AuthorizedTickSpacing -> In spf cl_AuthorizedSpreadFactors ->
  let s := reach sp spf sc t0 users ops in
  s_pos s <> [] ->
  0 < p_sqrt (s_pool s) /\
  forall b sb, Z.rem b sp = 0 -> MinInitializedTick <= b <= MaxTick -> tick_to_sqrt_price b = Some sb ->
    (b <= p_tick (s_pool s) -> sb <= p_sqrt (s_pool s)) /\ (p_tick (s_pool s) < b -> p_sqrt (s_pool s) <= sb).
Proof.
  intros sp spf sc t0 users ops H1 H2 s Hne. pose proof (C07_invariant sp spf sc t0 users ops H1 H2) as I.
  destruct (inv_price _ I Hne) as [Pos PC]. split; [exact Pos|].
  unfold price_consistent, price_consistent_at in PC. unfold reach in PC.
  rewrite run_spacing in PC by (apply init_inv; [apply authorised_spacing_pos|apply authorised_spread_bounds]; assumption).
  exact PC.
Qed.
Print Assumptions C07_price_tick_consistent.

(* ... in particular about every position: below, inside or above its range *)
Theorem C07_price_agrees_with_every_position : forall sp spf sc t0 users ops,
  In sp cl_AuthorizedTickSpacing -> In spf cl_AuthorizedSpreadFactors ->
  let s := reach sp spf sc t0 users ops in
  forall p sl su, In p (s_pos s) -> tick_to_sqrt_price (ps_lower p) = Some sl -> tick_to_sqrt_price (ps_upper p) = Some su ->
    (p_tick (s_pool s) < ps_lower p -> p_sqrt (s_pool s) <= sl) /\
    (ps_lower p <= p_tick (s_pool s) < ps_upper p -> sl <= p_sqrt (s_pool s) <= su) /\
    (ps_upper p <= p_tick (s_pool s) -> su <= p_sqrt (s_pool s)).
Proof.
  intros sp spf sc t0 users ops H1 H2 s p sl su Hp Sl Su. pose proof (C07_invariant sp spf sc t0 users ops H1 H2) as I.
  assert (Hne : s_pos s <> []) by (intro E; rewrite E in Hp; contradiction).
  destruct (C07_price_tick_consistent sp spf sc t0 users ops H1 H2 Hne) as [_ PC].
  pose proof (inv_pos_ok _ I) as POK. rewrite Forall_forall in POK. destruct (POK _ Hp) as [_ [_ V]].
  unfold reach in V. rewrite run_spacing in V by (apply init_inv; [apply authorised_spacing_pos|apply authorised_spread_bounds]; assumption).
  simpl in V. destruct (validate_tick_range_spec _ _ _ V) as [_ [Rl [Rh [Bl [Bh _]]]]].
  destruct (PC _ _ Rl ltac:(split; [apply Bl|apply Z.lt_le_incl, Bl]) Sl) as [A1 A2].
  destruct (PC _ _ Rh ltac:(split; [apply Z.lt_le_incl, Bh|apply Bh]) Su) as [B1 B2].
  split; [exact A2|]. split; [|exact B1]. intros [X Y]. split; [apply A1; exact X|apply B2; exact Y].
Qed.
Print Assumptions C07_price_agrees_with_every_position.

(* a pool with no positions has no price (and no liquidity and no ticks) *)
Theorem C07_empty_pool_no_price : forall sp spf sc t0 users ops,
  In sp cl_AuthorizedTickSpacing -> In spf cl_AuthorizedSpreadFactors ->
  let s := reach sp spf sc t0 users ops in
  s_pos s = [] -> p_sqrt (s_pool s) = 0 /\ p_tick (s_pool s) = 0 /\ p_liq (s_pool s) = 0 /\ s_ticks s = [].
Proof.
  intros sp spf sc t0 users ops H1 H2. cbv zeta. intro E. pose proof (C07_invariant sp spf sc t0 users ops H1 H2) as I.
  destruct (inv_empty _ I E) as [A B]. split; [exact A|]. split; [exact B|]. split.
  - rewrite (inv_active _ I). rewrite E. reflexivity.
  - apply tick_get_all_none. intro b. rewrite (inv_tick_sums _ I). rewrite E. reflexivity.
Qed.
Print Assumptions C07_empty_pool_no_price.

(* one operation: a surviving position keeps its range; its owner changes only by a TransferPositions message that is sent by
   the current owner and names the position; a position that appears gets a never-used id (next id counter only grows) *)
Theorem C07_ids_owners_ranges_stable : forall sp spf sc t0 users ops o,
  In sp cl_AuthorizedTickSpacing -> In spf cl_AuthorizedSpreadFactors ->
  let s := reach sp spf sc t0 users ops in
  let s' := fst (step s o) in
  s_next_id s <= s_next_id s' /\
  (forall id q q', pos_get (s_pos s) id = Some q -> pos_get (s_pos s') id = Some q' ->
     ps_lower q' = ps_lower q /\ ps_upper q' = ps_upper q /\
     (ps_owner q' <> ps_owner q -> exists ids, o = OTransfer (ps_owner q) ids (ps_owner q') /\ In id ids)) /\
  (forall id q', pos_get (s_pos s) id = None -> pos_get (s_pos s') id = Some q' -> s_next_id s <= id < s_next_id s') /\
  (forall q, In q (s_pos s) -> 0 < ps_id q < s_next_id s) /\ ids_sorted (s_pos s).
Proof.
  intros sp spf sc t0 users ops o H1 H2 s s'. pose proof (C07_invariant sp spf sc t0 users ops H1 H2) as I.
  destruct (step_inv _ o I) as [_ [A [B C]]]. split; [exact A|]. split; [exact B|]. split; [exact C|]. split.
  - intros q Hq. pose proof (inv_pos_ok _ I) as POK. rewrite Forall_forall in POK. apply (POK _ Hq).
  - apply (inv_pos_sorted _ I).
Qed.
Print Assumptions C07_ids_owners_ranges_stable.

(* whole histories: an id that has been removed never comes back, and an id keeps its range for as long as it exists *)
Theorem C07_ids_never_reused : forall sp spf sc t0 users ops ops' id,
  In sp cl_AuthorizedTickSpacing -> In spf cl_AuthorizedSpreadFactors ->
  let s := reach sp spf sc t0 users ops in
  pos_get (s_pos s) id = None -> id < s_next_id s -> pos_get (s_pos (run s ops')) id = None.
Proof. intros sp spf sc t0 users ops ops' id H1 H2 s A B. apply absent_stays; [apply C07_invariant|..]; assumption. Qed.
Print Assumptions C07_ids_never_reused.

Theorem C07_ranges_stable_forever : forall sp spf sc t0 users ops ops' id q q',
  In sp cl_AuthorizedTickSpacing -> In spf cl_AuthorizedSpreadFactors ->
  let s := reach sp spf sc t0 users ops in
  pos_get (s_pos s) id = Some q -> pos_get (s_pos (run s ops')) id = Some q' ->
  ps_lower q' = ps_lower q /\ ps_upper q' = ps_upper q.
Proof. intros sp spf sc t0 users ops ops' id q q' H1 H2 s A B. eapply ranges_stable_run; [apply C07_invariant|..]; eassumption. Qed.
Print Assumptions C07_ranges_stable_forever.

(* failed messages leave no trace (baseapp atomicity, part of the model's step) *)
Theorem C07_failed_step_unchanged : forall s o s', step s o = (s', None) -> s' = s.
Proof. exact step_failed_unchanged. Qed.
Print Assumptions C07_failed_step_unchanged.

(* the full statement of the property, as proved *)
Definition C07_full : Prop := forall sp spf sc t0 users ops,
  In sp cl_AuthorizedTickSpacing -> In spf cl_AuthorizedSpreadFactors -> Inv (reach sp spf sc t0 users ops).
Theorem C07_full_proved : C07_full.
Proof. exact C07_invariant. Qed.
Print Assumptions C07_full_proved.

(* non-vacuity: a concrete history (spacing 100, spread 0.3 %) with two overlapping positions and a third, disjoint one, a swap that
   crosses an initialised tick upwards into a liquidity gap and on into the third range, a swap back down across it, a partial and a
   full withdrawal and a transfer: the operations succeed, the price moves, ticks are created and deleted. *)
Definition nv_users : list (Z * Z) := [(10 ^ 30, 10 ^ 30); (10 ^ 30, 10 ^ 30); (10 ^ 30, 10 ^ 30)].
Definition nv_ops : list op :=
  [ OCreate 0 1000000 1000000 0 0 (-1000) 2000;
    OCreate 1 500000 500000 0 0 (-500) 500;
    OCreate 1 500000 0 0 0 3000 5000;
    OSwapIn 2 false 1700000 1;
    OSwapOut 2 true 1000000 (10 ^ 20);
    OWithdraw 0 1 500749875124843813046785138;
    OTransfer 1 [2] 2;
    OWithdraw 2 2 2000749968757805641718864737 ].
Definition nv_state := reach 100 3000000000000000 (10 ^ 45) 1000 nv_users nv_ops.
Example C07_nonvacuous :
  In 100 cl_AuthorizedTickSpacing /\ In 3000000000000000 cl_AuthorizedSpreadFactors /\
  map ps_id (s_pos nv_state) = [1; 3] /\ map fst (s_ticks nv_state) = [-1000; 2000; 3000; 5000] /\
  p_tick (s_pool (reach 100 3000000000000000 (10 ^ 45) 1000 nv_users (firstn 4 nv_ops))) = 3771 /\
  p_tick (s_pool nv_state) = 462 /\ p_liq (s_pool nv_state) = 500749875124843813046785139.
Proof. vm_compute. repeat split; auto 10. Qed.
