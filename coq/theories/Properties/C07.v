(* C07 - Concentrated pool bookkeeping always agrees with its positions.  Theorem file. *)
From Coq Require Import ZArith List Bool.
Import ListNotations.
From Osmo Require Import CL.CLPool CL.CLStep C07.Proofs.
Open Scope Z_scope.

Theorem C07_failed_step_unchanged : forall s o s', step s o = (s', None) -> s' = s.
Proof. exact step_failed_unchanged. Qed.
Print Assumptions C07_failed_step_unchanged.
