(* C16 - Sum-tree answers every range-sum query like a sorted map would.
   Property theorems only; each is closed by a lemma from C16/*.v.

   The full statement [C16_full] is FALSE of the faithful model and of the real code (finding F2): see the
   [_refuted] theorems; the witnesses are replayed on the Go driver on every run (props/c16.py WITNESSES). *)
From Coq Require Import ZArith List Bool Lia.
Import ListNotations.
From Osmo Require Import C16.Model C16.Spec C16.Statement C16.Layout C16.Refuted.
Open Scope Z_scope.

(* the full statement: every history of set / increase / decrease / remove, every fan-out >= 2: no panic, the well-formedness
   invariant holds and every query (point lookup, three-way split, subset sum, prefix sum, total, ordered iteration)
   answers like the sorted map with the same contents *)
Definition C16_full : Prop := C16_full_statement.

Theorem C16_full_refuted : ~ C16_full.
Proof. exact full_refuted. Qed.
Print Assumptions C16_full_refuted.

(* F2a: TotalAccumulatedValue after a single Set on a fresh tree is 0, the map's total is 16 *)
Theorem C16_total_refuted : exists st, run_new 2 w_total_ops = Ok st /\
  total_acc st = Ok 0 /\ sm_total (sm_run sm_init w_total_ops) = 16.
Proof. exact w_total. Qed.
Print Assumptions C16_total_refuted.

(* F2b: after Remove of a node's first entry a split below the surviving first entry indexes Children[-1] *)
Theorem C16_split_panic_refuted : exists st, run_new 2 w_panic_ops = Ok st /\
  split_acc st kB = Err EIndex /\ sm_split (sm_run sm_init w_panic_ops) kB = (1, 0, 3).
Proof. exact w_panic. Qed.
Print Assumptions C16_split_panic_refuted.

(* F2c: the merge branch of pull reports the pre-merge sum upward: a split at "" returns right = 14, the map has 23 *)
Theorem C16_merge_stale_refuted : exists st, run_new 3 w_stale_ops = Ok st /\
  split_acc st [] = Ok (0, 0, 14) /\ sm_split (sm_run sm_init w_stale_ops) [] = (0, 0, 23).
Proof. exact w_stale. Qed.
Print Assumptions C16_merge_stale_refuted.

(* F2d: Remove of the empty key on a fresh tree empties the store, every query then dereferences a nil root; and with the
   left-most level-1 node gone a later Set creates a node its parent level does not list *)
Theorem C16_empty_tree_refuted : exists st, run_new 2 w_empty_ops = Ok st /\ st = [] /\ split_acc st [] = Err ENilDeref.
Proof. exact w_empty. Qed.
Print Assumptions C16_empty_tree_refuted.
Theorem C16_orphan_refuted : exists st, run_new 2 w_orphan_ops = Ok st /\
  split_acc st kC = Ok (0, 3, 0) /\ sm_split (sm_run sm_init w_orphan_ops) kC = (5, 3, 0).
Proof. exact w_orphan. Qed.
Print Assumptions C16_orphan_refuted.

(* byte layout: the raw store keys "node/" ++ be16(level) ++ key compare exactly like the (level, key) pairs the model's
   store is keyed by; every key of a level is below PrefixEndBytes(nodeKey(level, nil)), no key of a higher level is *)
Theorem C16_layout_order : forall l1 k1 l2 k2,
  key_cmp (raw_key l1 k1) (raw_key l2 k2) = skey_cmp (l1, k1) (l2, k2).
Proof. exact raw_key_order. Qed.
Print Assumptions C16_layout_order.
Theorem C16_layout_prefix_end : forall level k,
  key_cmp (raw_key level k) (prefix_end level) = Lt /\
  forall l' k', (level < l')%nat -> key_cmp (raw_key l' k') (prefix_end level) <> Lt.
Proof. intros; split; [apply prefix_end_upper | intros; apply prefix_end_lower; assumption]. Qed.
Print Assumptions C16_layout_prefix_end.
