(* C16 - Sum-tree answers every range-sum query like a sorted map would.
   Property theorems only; each is closed by a lemma from C16/*.v.

   The full statement [C16_full] is FALSE of the faithful model and of the real code (findings F2b-F2d, all in Remove; F2a -
   TotalAccumulatedValue - was repaired in /repo by 9b85b1164c and is now part of the proved theorem): see the
   [_refuted] theorems; the witnesses are replayed on the Go driver on every run (props/c16.py WITNESSES). *)
From Coq Require Import ZArith List Bool Lia.
Import ListNotations.
From Osmo Require Import Gen.C16_consts.
From Osmo Require Import C16.Model C16.Spec C16.Statement C16.Layout C16.Refuted C16.SetProof C16.Refine C16.FrameProof.
Open Scope Z_scope.

(* the full statement: every history of set / increase / decrease / remove, every fan-out >= 2: no panic, the well-formedness
   invariant holds and every query (point lookup, three-way split, subset sum, prefix sum, total, ordered iteration)
   answers like the sorted map with the same contents *)
Definition C16_full : Prop := C16_full_statement.

Theorem C16_full_refuted : ~ C16_full.
Proof. exact full_refuted. Qed.
Print Assumptions C16_full_refuted.

(* F2b: after Remove of a node's first entry a split below the surviving first entry indexes Children[-1] *)
Theorem C16_split_panic_refuted : exists st, run_new 2 w_panic_ops = Ok st /\
  split_acc st kB = Err EIndex /\ sm_split (sm_run sm_init w_panic_ops) kB = (1, 0, 3).
Proof. exact w_panic. Qed.
Print Assumptions C16_split_panic_refuted.

(* F2c: the merge branch of pull reports the pre-merge sum upward: a split at "" returns right = 14, the map has 23 *)
Theorem C16_merge_stale_refuted : exists st, run_new 3 w_stale_ops = Ok st /\
  split_acc st [] = Ok (0, 0, 14) /\ sm_split (sm_run sm_init w_stale_ops) [] = (0, 0, 23).
Proof. exact w_stale. Qed.
Print Assumptions C16_merge_stale_refuted.

(* F2d: Remove of the empty key on a fresh tree empties the store, every query then dereferences a nil root; and with the
   left-most level-1 node gone a later Set creates a node its parent level does not list *)
Theorem C16_empty_tree_refuted : exists st, run_new 2 w_empty_ops = Ok st /\ st = [] /\ split_acc st [] = Err ENilDeref.
Proof. exact w_empty. Qed.
Print Assumptions C16_empty_tree_refuted.
Theorem C16_orphan_refuted : exists st, run_new 2 w_orphan_ops = Ok st /\
  split_acc st kC = Ok (0, 3, 0) /\ sm_split (sm_run sm_init w_orphan_ops) kC = (5, 3, 0).
Proof. exact w_orphan. Qed.
Print Assumptions C16_orphan_refuted.

(* PROVED PART.  set_only_refines: for every fan-out m >= 2 and every history of Set / Increase / Decrease (any keys, any
   integers, any length) on a fresh tree: no panic, no fuel exhaustion; the well-formedness invariant WF (DESIGN 9.4) holds;
   and every query answers like the sorted map with the same contents - point lookup, three-way split, subset sum (for
   start <= end or one open end), prefix sum, TotalAccumulatedValue = the sum of all values, ordered forward / reverse /
   ranged iteration.  (SubsetAccumulation is also characterised for the arguments outside its documented domain,
   [an_subset_code]: (nil, nil) gives the empty key's value, start > end minus the sum strictly between.)
   [op_ok]: an operation's nil-slice flag is only set for the empty key.
   The split position is the generated constant pair (gen_split_div, gen_split_add) read from node.go on every run; the
   translator also refuses to run unless TotalAccumulatedValue has the repaired body the model mirrors. *)
Theorem set_only_refines : forall m ops, (2 <= m)%nat -> Forall op_ok ops -> set_only ops ->
  exists st, run_new m ops = Ok st /\ WF m st /\ answers_actual st (sm_run sm_init ops).
Proof. exact set_only_refines_lemma. Qed.
Print Assumptions set_only_refines.

(* remove_safe_partial - what survives Remove.  For EVERY fan-out and EVERY history of set / increase / decrease / REMOVE that
   does not panic: the stored leaves are exactly the sorted map's contents (push / updateAccumulation / pull never write
   below level 1 - frame lemmas in C16/FrameProof.v), hence point lookups and ordered forward / reverse / ranged iteration
   answer like the sorted map even in the states that finding F2 damages; and whenever the store still satisfies WF (in
   particular: every node still keyed by its first entry, the left-most node of every level still there) every other query
   (split, subset sum, prefix sum, total) does too.
   NOT proved, and false (C16_split_panic_refuted, C16_merge_stale_refuted, C16_orphan_refuted): that WF survives Remove. *)
Theorem remove_safe_partial : forall m ops st, run_new m ops = Ok st ->
  abs st = sm_run sm_init ops /\
  (forall k, tree_get st k = sm_get (sm_run sm_init ops) k) /\
  (forall b e, iterate st b e = sm_iter (sm_run sm_init ops) b e) /\
  (forall b e, rev_iterate st b e = sm_rev_iter (sm_run sm_init ops) b e) /\
  (WF m st -> answers_actual st (sm_run sm_init ops)).
Proof. exact leaves_tracked. Qed.
Print Assumptions remove_safe_partial.

(* the query half on its own: ANY store that satisfies WF - however it was reached - answers every query like the sorted map
   of its leaves *)
Theorem C16_wf_store_answers : forall m st, WF m st -> answers_actual st (abs st).
Proof. exact wf_answers. Qed.
Print Assumptions C16_wf_store_answers.

(* non-vacuity of remove_safe_partial: the F2b witness history (Set a, b, c; Remove b) does not panic, its store is NOT
   well-formed any more (a split at "b" panics), and Get / iteration are still the map's *)
Example remove_safe_partial_nonvacuous :
  exists st, run_new 2 w_panic_ops = Ok st /\ split_acc st kB = Err EIndex /\
    tree_get st kC = 3 /\ iterate st [] None = [([], 0); (kA, 1); (kC, 3)] /\
    sm_run sm_init w_panic_ops = [([], 0); (kA, 1); (kC, 3)].
Proof. eexists; split; [vm_compute; reflexivity|]. vm_compute. repeat split; reflexivity. Qed.

(* NewTree establishes the invariant; one Set / Increase / Decrease preserves it and acts on the leaves like the map's set *)
Theorem C16_new_tree_wf : forall m, (2 <= m)%nat -> new_tree m = Ok store0 /\ WF m store0 /\ abs store0 = sm_init.
Proof. intros m Hm. split; [apply new_tree_eq|apply store0_wf; exact Hm]. Qed.
Print Assumptions C16_new_tree_wf.
Theorem C16_step_preserves : forall m st o, (2 <= m)%nat -> WF m st -> op_ok o -> is_remove o = false ->
  exists st', apply_op m st o = Ok st' /\ WF m st' /\ abs st' = sm_apply (abs st) o.
Proof. exact apply_op_wf. Qed.
Print Assumptions C16_step_preserves.

(* the former F2a witness (one Set on a fresh tree) now yields the true total *)
Example C16_total_repaired : exists st, run_new 2 w_total_ops = Ok st /\
  total_acc st = Ok 16 /\ sm_total (sm_run sm_init w_total_ops) = 16.
Proof. exact w_total_fixed. Qed.

(* the generated constants are the ones the proofs were carried out for *)
Example C16_consts_checked : gen_split_div = 2%nat /\ gen_split_add = 1%nat /\ gen_node_prefix = [110; 111; 100; 101; 47].
Proof. repeat split; reflexivity. Qed.

(* non-vacuity: m = 2, ten operations inserting in outside-in order with an update, a decrease below zero and the nil key:
   the hypotheses hold, the tree has grown to 31 nodes (root at level 6), and the concrete answers are the map's *)
Definition nv_ops : list op :=
  [OSet [98] false 5; OSet [255] false 7; OSet [97; 0] false 11; OInc [254] false 13; OSet [97] false 17;
   ODec [99; 99] false 40; OSet [] true 3; OInc [98] false 100; OSet [98; 0] false 1; OSet [0] false 2].
Example set_only_refines_nonvacuous :
  Forall op_ok nv_ops /\ set_only nv_ops /\
  exists st, run_new 2 nv_ops = Ok st /\ root st = Some (mkPtr 6 [] false) /\ length st = 31%nat /\
    split_acc st [98] = Ok (33, 105, -19) /\ sm_split (sm_run sm_init nv_ops) [98] = (33, 105, -19) /\
    total_acc st = Ok 119 /\ sm_total (sm_run sm_init nv_ops) = 119.
Proof.
  split; [repeat constructor; unfold nil_flag_ok; try discriminate; auto|]. split; [reflexivity|].
  eexists; split; [vm_compute; reflexivity|]. vm_compute. repeat split; reflexivity.
Qed.

(* byte layout: the raw store keys "node/" ++ be16(level) ++ key compare exactly like the (level, key) pairs the model's
   store is keyed by; every key of a level is below PrefixEndBytes(nodeKey(level, nil)), no key of a higher level is *)
Theorem C16_layout_order : forall l1 k1 l2 k2,
  key_cmp (raw_key l1 k1) (raw_key l2 k2) = skey_cmp (l1, k1) (l2, k2).
Proof. exact raw_key_order. Qed.
Print Assumptions C16_layout_order.
Theorem C16_layout_prefix_end : forall level k,
  key_cmp (raw_key level k) (prefix_end level) = Lt /\
  forall l' k', (level < l')%nat -> key_cmp (raw_key l' k') (prefix_end level) <> Lt.
Proof. intros; split; [apply prefix_end_upper | intros; apply prefix_end_lower; assumption]. Qed.
Print Assumptions C16_layout_prefix_end.
