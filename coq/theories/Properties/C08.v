(* C08 - Spread rewards and incentives reach exactly the liquidity that earned them.  Theorem file. *)
From Coq Require Import ZArith List Bool.
Import ListNotations.
From Osmo Require Import CL.CLPool CL.CLSwap CL.CLStep CLR.RSwap CLR.RStep C08.Proj.
Open Scope Z_scope.

Theorem C08_failed_step_unchanged : forall rs o rs', rstep rs o = (rs', None) -> rs' = rs.
Proof. exact rstep_failed_unchanged. Qed.
Print Assumptions C08_failed_step_unchanged.

Theorem C08_event_loop_is_swap_loop_out : forall fuel zfo accum spf scaling limit st iter noprog,
  fst (eloop_out_given_in fuel zfo accum spf scaling limit st iter noprog)
  = loop_out_given_in fuel zfo accum spf scaling limit st iter noprog.
Proof. exact eloop_out_fst. Qed.
Print Assumptions C08_event_loop_is_swap_loop_out.

Theorem C08_event_loop_is_swap_loop_in : forall fuel zfo accum spf scaling limit st iter noprog,
  fst (eloop_in_given_out fuel zfo accum spf scaling limit st iter noprog)
  = loop_in_given_out fuel zfo accum spf scaling limit st iter noprog.
Proof. exact eloop_in_fst. Qed.
Print Assumptions C08_event_loop_is_swap_loop_in.
