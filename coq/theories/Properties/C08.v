(* C08 - Spread rewards and incentives reach exactly the liquidity that earned them.  Theorem file.
   Model: CL/*.v (shared pool model) + CLR/*.v (reward bookkeeping); proofs: C08/*.v.  See C08/STATUS.md. *)
From Coq Require Import ZArith List Bool Lia.
Import ListNotations.
From Osmo Require Import CL.CLPool CL.CLSwap CL.CLStep CLR.Accum CLR.Rewards CLR.RSwap CLR.RStep
  C08.Proj C08.Telescope C08.View C08.Static C08.Ops C08.OpInside C08.SwapTrace C08.Crux C08.Check.
Open Scope Z_scope.

(* ---- the reward model extends the shared pool model conservatively ---- *)
Theorem C08_failed_step_unchanged : forall rs o rs', rstep rs o = (rs', None) -> rs' = rs.
Proof. exact rstep_failed_unchanged. Qed.
Print Assumptions C08_failed_step_unchanged.

Theorem C08_event_loop_is_swap_loop_out : forall fuel zfo accum spf scaling limit st iter noprog,
  fst (eloop_out_given_in fuel zfo accum spf scaling limit st iter noprog)
  = loop_out_given_in fuel zfo accum spf scaling limit st iter noprog.
Proof. exact eloop_out_fst. Qed.
Print Assumptions C08_event_loop_is_swap_loop_out.

Theorem C08_event_loop_is_swap_loop_in : forall fuel zfo accum spf scaling limit st iter noprog,
  fst (eloop_in_given_out fuel zfo accum spf scaling limit st iter noprog)
  = loop_in_given_out fuel zfo accum spf scaling limit st iter noprog.
Proof. exact eloop_in_fst. Qed.
Print Assumptions C08_event_loop_is_swap_loop_in.

(* ---- the crux: tick-snapshot invariant and telescoping, abstract machine (one scalar accumulator component) ---- *)
Theorem C08_tick_snapshot_telescopes : forall evs s l u, l < u -> tm_sorted (a_O s) -> keys s l -> keys s u ->
  evs_wf s evs -> evs_keep evs l -> evs_keep evs u ->
  a_inside (a_run s evs) l u = a_inside s l u + in_range_growth s evs l u.
Proof. exact a_telescope. Qed.
Print Assumptions C08_tick_snapshot_telescopes.

Example C08_tick_snapshot_telescopes_nonvacuous :
  let s := mkA 5 100 [(0, 100); (10, 0)] in
  let evs := [AGrow 7; ACross 10 10; AGrow 5; ACross 10 9; AGrow 3; AInit 20; ARemove 20] in
  0 < 10 /\ tm_sorted (a_O s) /\ keys s 0 /\ keys s 10 /\ evs_wf s evs /\ evs_keep evs 0 /\ evs_keep evs 10
  /\ in_range_growth s evs 0 10 = 10 /\ a_inside (a_run s evs) 0 10 = a_inside s 0 10 + 10.
Proof.
  intros s evs. split; [lia|]. split; [apply tm_sorted_b_ok; reflexivity|].
  split; [unfold keys; simpl; discriminate|]. split; [unfold keys; simpl; discriminate|].
  split; [apply evs_wf_b_ok; vm_compute; reflexivity|].
  split; [simpl; repeat split; lia|]. split; [simpl; repeat split; lia|].
  split; vm_compute; reflexivity.
Qed.

(* ---- growth_inside_telescopes for the model: every history of operations, every component, every kept tick pair ---- *)
Theorem C08_growth_inside_telescopes : forall ops k rs l u, l < u -> tt_ok k rs l u -> hist_ok k rs ops l u ->
  a_inside (rview k (rrun rs ops)) l u = a_inside (rview k rs) l u + hist_growth k rs ops l u.
Proof. exact growth_inside_telescopes. Qed.
Print Assumptions C08_growth_inside_telescopes.

(* the model's own growth-inside values are the abstract ones *)
Theorem C08_spread_growth_inside_is_abstract : forall d w cur lo hi out ins, spread_growth_outside w cur lo hi = Some out ->
  dc_safe_sub (ac_value (rw_spread w)) out = Some ins ->
  dsel d ins = a_inside (view (CS d) w cur dc0) lo hi.
Proof. exact spread_growth_inside_view. Qed.
Print Assumptions C08_spread_growth_inside_is_abstract.

Theorem C08_uptime_growth_inside_is_abstract : forall u d w cur lo hi ins, lo < hi -> (u < length (rw_up w))%nat ->
  uptime_growth_inside w cur lo hi = Some ins ->
  dsel d (nth u ins dc0) = a_inside (view (CU u d) w cur dc0) lo hi.
Proof. exact uptime_growth_inside_view. Qed.
Print Assumptions C08_uptime_growth_inside_is_abstract.

(* one non-swap operation: the whole growth if the current tick is in range, nothing otherwise *)
Theorem C08_growth_inside_static_op : forall k rs o rs' r l u,
  rhandler rs o = Some (rs', r) -> is_swap o = false -> cur_tick rs' = cur_tick rs -> mid_tick_ok rs o ->
  l < u -> tm_sorted (vmap k (rw_tt (r_rw rs))) ->
  tt_get (rw_tt (r_rw rs)) l <> None -> tt_get (rw_tt (r_rw rs)) u <> None ->
  ~ In l (touched rs o) -> ~ In u (touched rs o) ->
  a_inside (rview k rs') l u =
    a_inside (rview k rs) l u
    + (if (l <=? cur_tick rs) && (cur_tick rs <? u) then sel_G k (r_rw rs') - sel_G k (r_rw rs) else 0).
Proof. exact op_inside_static. Qed.
Print Assumptions C08_growth_inside_static_op.

(* a history with two crossings of tick 1000 (up, then down) by swaps, an incentive, time advances and a collect: position 2
   on [1000, 3000) - out of range at first - earns exactly the growth that accrued while the tick was inside *)
Definition ex_rs0 : rstate :=
  rrun (rinit 0x64 0x71afd498d0000 0x2cd76fe086b93ce2f768a00b22a00000000000 0x2cd76fe086b93ce2f768a00b22a00000000000
          [(0xc9f2c9cd04674edea40000000, 0xc9f2c9cd04674edea40000000); (0xc9f2c9cd04674edea40000000, 0xc9f2c9cd04674edea40000000);
           (0xc9f2c9cd04674edea40000000, 0xc9f2c9cd04674edea40000000)] 0x6553f100)
       [RBase (OCreate 0x0 0x3b9aca00 0x3b9aca00 0x0 0x0 (-0x186a0) 0x186a0);
        RBase (OCreate 0x1 0x989680 0x0 0x0 0x0 0x3e8 0xbb8)].
Definition ex_ops : list rop :=
  [RIncentive 0x2 0x0 0xf4240 0xde0b6b3a7640000 0x0 0x0;
   RBase (OTime 0x64);
   RBase (OSwapIn 0x2 false 0x1c9c380 0x1);
   RBase (OTime 0x32);
   RBase (OSwapIn 0x2 true 0x3938700 0x1);
   RCollectSpread 0x0 [0x1]].
Example C08_growth_inside_telescopes_nonvacuous :
  tt_ok (CS true) ex_rs0 1000 3000 /\ hist_ok (CS true) ex_rs0 ex_ops 1000 3000
  /\ 0 < hist_growth (CS true) ex_rs0 ex_ops 1000 3000
  /\ tt_ok (CU 0 false) ex_rs0 1000 3000 /\ hist_ok (CU 0 false) ex_rs0 ex_ops 1000 3000
  /\ 0 < hist_growth (CU 0 false) ex_rs0 ex_ops 1000 3000
  /\ hist_growth (CS true) ex_rs0 ex_ops 1000 3000 < hist_growth (CS true) ex_rs0 ex_ops (-100000) 100000.
Proof.
  split; [apply tt_ok_b_ok; vm_compute; reflexivity|].
  split; [apply hist_ok_b_ok; vm_compute; reflexivity|].
  split; [vm_compute; reflexivity|].
  split; [apply tt_ok_b_ok; vm_compute; reflexivity|].
  split; [apply hist_ok_b_ok; vm_compute; reflexivity|].
  split; vm_compute; reflexivity.
Qed.
