(* C08 - Spread rewards and incentives reach exactly the liquidity that earned them.  Theorem file.
   Model: CL/*.v (shared pool model) + CLR/*.v (reward bookkeeping); proofs: C08/*.v.  See C08/STATUS.md. *)
From Coq Require Import ZArith List Bool Lia.
Import ListNotations.
From Osmo Require Import Base.DecModel CL.CLPool CL.CLSwap CL.CLStep CLR.Accum CLR.Rewards CLR.RSwap CLR.RStep C07.LP
  C08.Proj C08.Telescope C08.View C08.Static C08.Ops C08.OpInside C08.SwapTrace C08.Crux C08.Check
  C08.Claim C08.Conseq C08.Frame C08.Never C08.SwapWf C08.Dom C08.StaticOk C08.Final
  C07.Base C08.Paid C08.PaidOps C08.PaidSwap C08.PaidHist C08.Modify C08.Twins
  C08.IncAcc C08.Inc C08.IncList C08.IncStage C08.IncOps C08.IncSwap C08.IncHist C08.UpNever C08.UpTwins C08.ClaimOk C08.ClaimInv C08.ClaimIncInv C08.ClaimIncOk C08.ClaimIncTime.
Open Scope Z_scope.

(* ---- the reward model extends the shared pool model conservatively ---- *)
Theorem C08_failed_step_unchanged : forall rs o rs', rstep rs o = (rs', None) -> rs' = rs.
Proof. exact rstep_failed_unchanged. Qed.
Print Assumptions C08_failed_step_unchanged.

Theorem C08_event_loop_is_swap_loop_out : forall fuel zfo accum spf scaling limit st iter noprog,
  fst (eloop_out_given_in fuel zfo accum spf scaling limit st iter noprog)
  = loop_out_given_in fuel zfo accum spf scaling limit st iter noprog.
Proof. exact eloop_out_fst. Qed.
Print Assumptions C08_event_loop_is_swap_loop_out.

Theorem C08_event_loop_is_swap_loop_in : forall fuel zfo accum spf scaling limit st iter noprog,
  fst (eloop_in_given_out fuel zfo accum spf scaling limit st iter noprog)
  = loop_in_given_out fuel zfo accum spf scaling limit st iter noprog.
Proof. exact eloop_in_fst. Qed.
Print Assumptions C08_event_loop_is_swap_loop_in.

(* ---- the crux: tick-snapshot invariant and telescoping, abstract machine (one scalar accumulator component) ---- *)
Theorem C08_tick_snapshot_telescopes : forall evs s l u, l < u -> tm_sorted (a_O s) -> keys s l -> keys s u ->
  evs_wf s evs -> evs_keep evs l -> evs_keep evs u ->
  a_inside (a_run s evs) l u = a_inside s l u + in_range_growth s evs l u.
Proof. exact a_telescope. Qed.
Print Assumptions C08_tick_snapshot_telescopes.

Example C08_tick_snapshot_telescopes_nonvacuous :
  let s := mkA 5 100 [(0, 100); (10, 0)] in
  let evs := [AGrow 7; ACross 10 10; AGrow 5; ACross 10 9; AGrow 3; AInit 20; ARemove 20] in
  0 < 10 /\ tm_sorted (a_O s) /\ keys s 0 /\ keys s 10 /\ evs_wf s evs /\ evs_keep evs 0 /\ evs_keep evs 10
  /\ in_range_growth s evs 0 10 = 10 /\ a_inside (a_run s evs) 0 10 = a_inside s 0 10 + 10.
Proof.
  intros s evs. split; [lia|]. split; [apply tm_sorted_b_ok; reflexivity|].
  split; [unfold keys; simpl; discriminate|]. split; [unfold keys; simpl; discriminate|].
  split; [apply evs_wf_b_ok; vm_compute; reflexivity|].
  split; [simpl; repeat split; lia|]. split; [simpl; repeat split; lia|].
  split; vm_compute; reflexivity.
Qed.

(* ---- growth_inside_telescopes for the model: every history of operations, every component, every kept tick pair ---- *)
Theorem C08_growth_inside_telescopes : forall ops k rs l u, l < u -> tt_ok k rs l u -> hist_ok k rs ops l u ->
  a_inside (rview k (rrun rs ops)) l u = a_inside (rview k rs) l u + hist_growth k rs ops l u.
Proof. exact growth_inside_telescopes. Qed.
Print Assumptions C08_growth_inside_telescopes.

(* the model's own growth-inside values are the abstract ones *)
Theorem C08_spread_growth_inside_is_abstract : forall d w cur lo hi out ins, spread_growth_outside w cur lo hi = Some out ->
  dc_safe_sub (ac_value (rw_spread w)) out = Some ins ->
  dsel d ins = a_inside (view (CS d) w cur dc0) lo hi.
Proof. exact spread_growth_inside_view. Qed.
Print Assumptions C08_spread_growth_inside_is_abstract.

Theorem C08_uptime_growth_inside_is_abstract : forall u d w cur lo hi ins, lo < hi -> (u < length (rw_up w))%nat ->
  uptime_growth_inside w cur lo hi = Some ins ->
  dsel d (nth u ins dc0) = a_inside (view (CU u d) w cur dc0) lo hi.
Proof. exact uptime_growth_inside_view. Qed.
Print Assumptions C08_uptime_growth_inside_is_abstract.

(* one non-swap operation: the whole growth if the current tick is in range, nothing otherwise *)
Theorem C08_growth_inside_static_op : forall k rs o rs' r l u,
  rhandler rs o = Some (rs', r) -> is_swap o = false -> cur_tick rs' = cur_tick rs -> mid_tick_ok rs o ->
  l < u -> tm_sorted (vmap k (rw_tt (r_rw rs))) ->
  tt_get (rw_tt (r_rw rs)) l <> None -> tt_get (rw_tt (r_rw rs)) u <> None ->
  ~ In l (touched rs o) -> ~ In u (touched rs o) ->
  a_inside (rview k rs') l u =
    a_inside (rview k rs) l u
    + (if (l <=? cur_tick rs) && (cur_tick rs <? u) then sel_G k (r_rw rs') - sel_G k (r_rw rs) else 0).
Proof. exact op_inside_static. Qed.
Print Assumptions C08_growth_inside_static_op.

(* a history with two crossings of tick 1000 (up, then down) by swaps, an incentive, time advances and a collect: position 2
   on [1000, 3000) - out of range at first - earns exactly the growth that accrued while the tick was inside *)
Definition ex_rs0 : rstate :=
  rrun (rinit 0x64 0x71afd498d0000 0x2cd76fe086b93ce2f768a00b22a00000000000 0x2cd76fe086b93ce2f768a00b22a00000000000
          [(0xc9f2c9cd04674edea40000000, 0xc9f2c9cd04674edea40000000); (0xc9f2c9cd04674edea40000000, 0xc9f2c9cd04674edea40000000);
           (0xc9f2c9cd04674edea40000000, 0xc9f2c9cd04674edea40000000)] 0x6553f100)
       [RBase (OCreate 0x0 0x3b9aca00 0x3b9aca00 0x0 0x0 (-0x186a0) 0x186a0);
        RBase (OCreate 0x1 0x989680 0x0 0x0 0x0 0x3e8 0xbb8)].
Definition ex_ops : list rop :=
  [RIncentive 0x2 0x0 0xf4240 0xde0b6b3a7640000 0x0 0x0;
   RBase (OTime 0x64);
   RBase (OSwapIn 0x2 false 0x1c9c380 0x1);
   RBase (OTime 0x32);
   RBase (OSwapIn 0x2 true 0x3938700 0x1);
   RCollectSpread 0x0 [0x1]].
Example C08_growth_inside_telescopes_nonvacuous :
  tt_ok (CS true) ex_rs0 1000 3000 /\ hist_ok (CS true) ex_rs0 ex_ops 1000 3000
  /\ 0 < hist_growth (CS true) ex_rs0 ex_ops 1000 3000
  /\ tt_ok (CU 0 false) ex_rs0 1000 3000 /\ hist_ok (CU 0 false) ex_rs0 ex_ops 1000 3000
  /\ 0 < hist_growth (CU 0 false) ex_rs0 ex_ops 1000 3000
  /\ hist_growth (CS true) ex_rs0 ex_ops 1000 3000 < hist_growth (CS true) ex_rs0 ex_ops (-100000) 100000.
Proof.
  split; [apply tt_ok_b_ok; vm_compute; reflexivity|].
  split; [apply hist_ok_b_ok; vm_compute; reflexivity|].
  split; [vm_compute; reflexivity|].
  split; [apply tt_ok_b_ok; vm_compute; reflexivity|].
  split; [apply hist_ok_b_ok; vm_compute; reflexivity|].
  split; vm_compute; reflexivity.
Qed.

(* ==== the side conditions discharged: invariants of all reachable states ==== *)
Theorem C08_invariants_reachable : forall sp spf ssc isc users t ops, 0 < sp -> 0 <= spf <= 500000000000000000 ->
  RInv (rrun (rinit sp spf ssc isc users t) ops).
Proof. intros. apply rinv_run. apply rinv_init; assumption. Qed.
Print Assumptions C08_invariants_reachable.

(* every executed swap, in every reachable state, has a well-formed trace for every component (rests on C07's swap-loop invariant) *)
Theorem C08_reachable_swap_trace_wf : forall sp spf ssc isc users t ops k o rs' r,
  0 < sp -> 0 <= spf <= 500000000000000000 ->
  let rs := rrun (rinit sp spf ssc isc users t) ops in
  rhandler rs o = Some (rs', r) -> is_swap o = true -> evs_wf (rview k rs) (op_trace k rs o).
Proof. exact reachable_swap_wf. Qed.
Print Assumptions C08_reachable_swap_trace_wf.

(* GROWTH_INSIDE_TELESCOPES, FULL: no side conditions beyond "the position stays open" *)
Theorem C08_growth_inside_telescopes_full : forall sp spf ssc isc users t pre ops k id l u,
  0 < sp -> 0 <= spf <= 500000000000000000 ->
  let rs := rrun (rinit sp spf ssc isc users t) pre in
  live_through rs ops id l u ->
  a_inside (rview k (rrun rs ops)) l u = a_inside (rview k rs) l u + hist_growth k rs ops l u.
Proof. exact growth_inside_telescopes_reachable. Qed.
Print Assumptions C08_growth_inside_telescopes_full.

Example C08_growth_inside_telescopes_full_nonvacuous :
  live_through ex_rs0 ex_ops 2 1000 3000 /\ 0 < hist_growth (CS true) ex_rs0 ex_ops 1000 3000.
Proof.
  split; [|vm_compute; reflexivity].
  unfold live_through, ex_ops. repeat split; (eexists; split; [vm_compute; reflexivity|split; reflexivity]).
Qed.

(* ==== the claim formula and its consequences ==== *)
Theorem C08_claimable_spread_formula : forall w sc cur lo hi id w' c,
  prepare_claimable_spread w sc cur lo hi id = Some (w', c) ->
  exists r, acc_get (rw_spread w) id = Some r /\
    forall d, let g := a_inside (view (CS d) w cur dc0) lo hi - dsel d (ar_snap r) in
      0 <= g /\
      pr_sel d c = (if sc =? Base.DecModel.P18 then claim_scaled (dsel d (ar_unclaimed r)) g (ar_shares r)
                    else unscale sc (claim_scaled (dsel d (ar_unclaimed r)) g (ar_shares r))).
Proof. exact claimable_spread_formula. Qed.
Print Assumptions C08_claimable_spread_formula.

Theorem C08_identical_positions_identical_rewards : forall w sc cur lo hi id1 id2 w1 c1 w2 c2 r,
  prepare_claimable_spread w sc cur lo hi id1 = Some (w1, c1) ->
  prepare_claimable_spread w sc cur lo hi id2 = Some (w2, c2) ->
  acc_get (rw_spread w) id1 = Some r -> acc_get (rw_spread w) id2 = Some r -> c1 = c2.
Proof. exact identical_positions_identical_spread_rewards. Qed.
Print Assumptions C08_identical_positions_identical_rewards.

Theorem C08_k_times_liquidity : forall sc g sh k, sc = Base.DecModel.P18 \/ sc = big_scaling -> 0 <= g -> 0 <= sh -> 1 <= k <= Base.DecModel.P18 ->
  let reward s := if sc =? Base.DecModel.P18 then claim_scaled 0 g s else unscale sc (claim_scaled 0 g s) in
  -1 <= reward (k * sh) - k * reward sh <= k.
Proof. exact k_times_liquidity. Qed.
Print Assumptions C08_k_times_liquidity.
Example C08_k_times_liquidity_nonvacuous :
  claim_scaled 0 46537410754407684560993611493051731169 (3 * 21488088481701515466327046914)
  - 3 * claim_scaled 0 46537410754407684560993611493051731169 21488088481701515466327046914 = 2.
Proof. vm_compute. reflexivity. Qed.

Theorem C08_unmet_uptime_not_paid : forall ups outs uts id age scaling ups' col forf byup,
  claim_uptimes ups outs uts id age scaling = Some (ups', col, forf, byup) ->
  col = sum_sel (fun ut => ut <=? age) uts (uptime_coins ups outs id scaling) /\
  forf = sum_sel (fun ut => age <? ut) uts (uptime_coins ups outs id scaling).
Proof. exact unmet_uptime_not_paid. Qed.
Print Assumptions C08_unmet_uptime_not_paid.

(* NEVER_IN_RANGE_EARNS_ZERO (spread rewards) over histories, side conditions discharged *)
Theorem C08_never_in_range_earns_zero : forall ops rs id l u c, RInv rs -> live_through rs ops id l u -> hist_outside rs ops l u ->
  zero_rec rs id l u -> claimable_spread (rrun rs ops) id = Some c -> c = (0, 0).
Proof. exact never_in_range_earns_zero_live. Qed.
Print Assumptions C08_never_in_range_earns_zero.

Theorem C08_new_position_claims_nothing : forall rs owner a0 a1 m0 m1 lo hi rs' c, RInv rs ->
  r_create rs owner a0 a1 m0 m1 lo hi = Some (rs', c) -> acc_get (rw_spread (r_rw rs)) (cr_id c) = None ->
  zero_rec rs' (cr_id c) (cr_lower c) (cr_upper c).
Proof. exact create_zero_rec. Qed.
Print Assumptions C08_new_position_claims_nothing.

(* What is NOT proved (kept as definitions so that the gap is visible):
   - the uptime-accumulator analogue of C08_never_in_range_earns_zero, of the claim formula and of total_claimable_le_paid
     (the proofs would repeat C08/Never.v and C08/Paid*.v for upd_uptime_accs / claim_uptimes / accrue_one; the telescoping
     theorem itself covers all 14 components);
   - shortfall_bounded (the lower bound: how much dust can stay in the account);
   - total_claimable_le_paid in the unconditional form below: what IS proved (C08_total_claimable_le_paid_partial, further down) has
     the explicit hypotheses of DESIGN 9.2: every claim query succeeds and the number of MulDec roundings of the history plus the
     number of open positions stays below 2 x scaling factor (>= 2 * 10^18). *)
Definition C08_total_claimable_le_paid_full : Prop :=
  forall sp spf ssc isc users t ops, 0 < sp -> 0 <= spf <= 500000000000000000 ->
    let rs := rrun (rinit sp spf ssc isc users t) ops in
    forall d, fold_right (fun p acc => acc + match claimable_spread rs (ps_id p) with Some c => pr_sel d c | None => 0 end) 0 (s_pos (r_base rs))
              <= pr_sel d (b_spread (s_bank (r_base rs))).


(* ==== the spread-reward account covers what the positions can claim (C08/Paid*.v) ==== *)
(* one swap: (growth per unit of liquidity added at each step) x (liquidity in range at that step), summed, is at most
   (total spread charge) x (scaling factor); the account receives ceil(total spread charge) *)
Theorem C08_swap_growth_le_fee_exact_in : forall s zfo amt evs r, Inv s -> 0 < p_scaling (s_pool s) ->
  swap_events s true zfo amt = Some evs -> compute_out_amt_given_in s zfo true amt = Some r ->
  0 <= evalue (s_pos s) zfo (p_tick (s_pool s)) evs <= sr_fee r * p_scaling (s_pool s).
Proof. exact swap_in_value. Qed.
Print Assumptions C08_swap_growth_le_fee_exact_in.

Theorem C08_swap_growth_le_fee_exact_out : forall s zfo amt evs r, Inv s -> 0 < p_scaling (s_pool s) -> 0 <= amt ->
  swap_events s false zfo amt = Some evs -> compute_in_amt_given_out s zfo true amt = Some r ->
  0 <= evalue (s_pos s) zfo (p_tick (s_pool s)) evs <= sr_fee r * p_scaling (s_pool s).
Proof. exact swap_out_value. Qed.
Print Assumptions C08_swap_growth_le_fee_exact_out.

(* every operation: the bookkeeping invariant PI (records = positions, total shares = total liquidity) is preserved and the potential
   2 * (sum over positions of unclaimed * 10^18 + (growth inside - snapshot) * shares) - 2 * balance * scaling * 10^18
   grows by at most 10^18 per MulDec rounding (two per withdrawal, one per collected position, none otherwise) *)
Theorem C08_spread_account_step : forall rs o rs' r, PI rs -> 0 < sc_of rs -> rhandler rs o = Some (rs', r) ->
  PI rs' /\ sc_of rs' = sc_of rs /\ forall d, Phi d rs' <= Phi d rs + pcost o * P18.
Proof. exact paid_handler. Qed.
Print Assumptions C08_spread_account_step.

(* TOTAL_CLAIMABLE_LE_PAID, spread rewards, all histories.  PARTIAL with respect to C08_total_claimable_le_paid_full: explicit
   hypotheses (claim queries succeed; roundings + open positions < 2 x scaling factor), and spread rewards only. *)
Theorem C08_total_claimable_le_paid_partial : forall sp spf ssc isc users t ops d, 0 < sp -> 0 <= spf <= 500000000000000000 -> 0 < ssc ->
  let rs0 := rinit sp spf ssc isc users t in
  let rs := rrun rs0 ops in
  (forall p, In p (s_pos (r_base rs)) -> claimable_spread rs (ps_id p) <> None) ->
  hist_pcost rs0 ops + Z.of_nat (length (s_pos (r_base rs))) < 2 * ssc ->
  zsum (claim_of d rs) (s_pos (r_base rs)) <= spread_bal d rs.
Proof. exact total_claimable_le_paid. Qed.
Print Assumptions C08_total_claimable_le_paid_partial.

(* the crossing history of above, continued by a partial withdrawal and a collect: all claim queries succeed, three roundings,
   and the positions can claim something *)
Example C08_total_claimable_le_paid_nonvacuous :
  let rs0 := rinit 0x64 0x71afd498d0000 0x2cd76fe086b93ce2f768a00b22a00000000000 0x2cd76fe086b93ce2f768a00b22a00000000000
          [(0xc9f2c9cd04674edea40000000, 0xc9f2c9cd04674edea40000000); (0xc9f2c9cd04674edea40000000, 0xc9f2c9cd04674edea40000000);
           (0xc9f2c9cd04674edea40000000, 0xc9f2c9cd04674edea40000000)] 0x6553f100 in
  let ops := [RBase (OCreate 0x0 0x3b9aca00 0x3b9aca00 0x0 0x0 (-0x186a0) 0x186a0);
              RBase (OCreate 0x1 0x989680 0x0 0x0 0x0 0x3e8 0xbb8);
              RBase (OSwapIn 0x2 false 0x1c9c380 0x1);
              RBase (OWithdraw 0x0 0x1 0x3e8);
              RBase (OSwapIn 0x2 true 0x3938700 0x1);
              RCollectSpread 0x1 [0x2];
              RBase (OSwapIn 0x2 false 0x1c9c380 0x1)] in
  let rs := rrun rs0 ops in
  (forall p, In p (s_pos (r_base rs)) -> claimable_spread rs (ps_id p) <> None) /\
  hist_pcost rs0 ops = 3 /\ length (s_pos (r_base rs)) = 2%nat /\
  0 < zsum (claim_of true rs) (s_pos (r_base rs)) <= spread_bal true rs /\ 0 < zsum (claim_of false rs) (s_pos (r_base rs)).
Proof.
  intros rs0 ops rs.
  let v := eval vm_compute in rs in assert (E : rs = v) by (vm_compute; reflexivity).
  split.
  - rewrite E. intros p [H|[H|[]]]; subst p; vm_compute; discriminate.
  - split; [vm_compute; reflexivity|]. rewrite E. split; [reflexivity|]. split; [split|]; vm_compute; try reflexivity; discriminate.
Qed.

(* MODIFY_PRESERVES_MATURED (spread rewards): a partial withdrawal leaves what the position can claim exactly unchanged, in every
   reachable state (the accrued amount moves into the record's unclaimed rewards; the snapshot is reset to the growth inside now) *)
Theorem C08_modify_preserves_matured : forall sp spf ssc isc users t ops owner id liq rs' amts q c c',
  0 < sp -> 0 <= spf <= 500000000000000000 -> 0 < ssc ->
  let rs := rrun (rinit sp spf ssc isc users t) ops in
  r_withdraw rs owner id liq = Some (rs', amts) -> pos_get (s_pos (r_base rs)) id = Some q -> liq <> ps_liq q ->
  claimable_spread rs id = Some c -> claimable_spread rs' id = Some c' -> c' = c.
Proof. exact modify_preserves_matured_reachable. Qed.
Print Assumptions C08_modify_preserves_matured.

Example C08_modify_preserves_matured_nonvacuous :
  let rs := rrun (rinit 0x64 0x71afd498d0000 0x2cd76fe086b93ce2f768a00b22a00000000000 0x2cd76fe086b93ce2f768a00b22a00000000000
          [(0xc9f2c9cd04674edea40000000, 0xc9f2c9cd04674edea40000000); (0xc9f2c9cd04674edea40000000, 0xc9f2c9cd04674edea40000000);
           (0xc9f2c9cd04674edea40000000, 0xc9f2c9cd04674edea40000000)] 0x6553f100)
       [RBase (OCreate 0x0 0x3b9aca00 0x3b9aca00 0x0 0x0 (-0x186a0) 0x186a0);
        RBase (OSwapIn 0x2 false 0x1c9c380 0x1); RBase (OSwapIn 0x2 true 0x3938700 0x1)] in
  exists rs' amts q c, r_withdraw rs 0 1 1000 = Some (rs', amts) /\ pos_get (s_pos (r_base rs)) 1 = Some q /\ 1000 <> ps_liq q /\
    claimable_spread rs 1 = Some c /\ claimable_spread rs' 1 = Some c /\ 0 < fst c /\ 0 < snd c.
Proof.
  intro rs. let v := eval vm_compute in rs in assert (E : rs = v) by (vm_compute; reflexivity). rewrite E.
  eexists. eexists. eexists. eexists. split; [vm_compute; reflexivity|]. split; [vm_compute; reflexivity|].
  split; [vm_compute; discriminate|]. split; [vm_compute; reflexivity|]. split; [vm_compute; reflexivity|]. split; vm_compute; reflexivity.
Qed.

(* ==== twins and k-multiples over histories (spread rewards; C08/Twins.v) ==== *)
(* a position's spread-reward record is written only by a withdrawal from / add to / collect on that position *)
Theorem C08_record_frame : forall ops rs id, RInv rs -> hist_untouched ops id = true -> id < s_next_id (r_base rs) ->
  acc_get (rw_spread (r_rw (rrun rs ops))) id = acc_get (rw_spread (r_rw rs)) id /\ id < s_next_id (r_base (rrun rs ops)).
Proof. exact run_rec_frame. Qed.
Print Assumptions C08_record_frame.

(* two creations in a row on the same range: same snapshot, nothing unclaimed *)
Theorem C08_created_together_same_snapshot : forall rs o1 a0 a1 m0 m1 lo hi rs1 c1 o2 b0 b1 n0 n1 rs2 c2, PI rs ->
  r_create rs o1 a0 a1 m0 m1 lo hi = Some (rs1, c1) -> r_create rs1 o2 b0 b1 n0 n1 lo hi = Some (rs2, c2) ->
  cr_lower c2 = cr_lower c1 -> cr_upper c2 = cr_upper c1 ->
  exists snap, acc_get (rw_spread (r_rw rs2)) (cr_id c1) = Some (mkARec (cr_liq c1) snap dc0) /\
               acc_get (rw_spread (r_rw rs2)) (cr_id c2) = Some (mkARec (cr_liq c2) snap dc0).
Proof. exact created_together. Qed.
Print Assumptions C08_created_together_same_snapshot.

(* IDENTICAL_POSITIONS_IDENTICAL_REWARDS over histories *)
Theorem C08_identical_positions_over_history : forall ops rs id1 id2 r q1 q2 c1 c2, RInv rs ->
  id1 < s_next_id (r_base rs) -> id2 < s_next_id (r_base rs) ->
  acc_get (rw_spread (r_rw rs)) id1 = Some r -> acc_get (rw_spread (r_rw rs)) id2 = Some r ->
  hist_untouched ops id1 = true -> hist_untouched ops id2 = true ->
  let rs' := rrun rs ops in
  pos_get (s_pos (r_base rs')) id1 = Some q1 -> pos_get (s_pos (r_base rs')) id2 = Some q2 ->
  ps_lower q1 = ps_lower q2 -> ps_upper q1 = ps_upper q2 ->
  claimable_spread rs' id1 = Some c1 -> claimable_spread rs' id2 = Some c2 -> c1 = c2.
Proof. exact identical_positions_over_history. Qed.
Print Assumptions C08_identical_positions_over_history.

(* K_TIMES_LIQUIDITY over histories *)
Theorem C08_k_times_over_history : forall ops rs id1 idk L k snap q1 qk c1 ck d, RInv rs ->
  id1 < s_next_id (r_base rs) -> idk < s_next_id (r_base rs) ->
  acc_get (rw_spread (r_rw rs)) id1 = Some (mkARec L snap dc0) -> acc_get (rw_spread (r_rw rs)) idk = Some (mkARec (k * L) snap dc0) ->
  0 <= L -> 1 <= k <= P18 ->
  hist_untouched ops id1 = true -> hist_untouched ops idk = true ->
  let rs' := rrun rs ops in
  p_scaling (s_pool (r_base rs')) = P18 \/ p_scaling (s_pool (r_base rs')) = big_scaling ->
  pos_get (s_pos (r_base rs')) id1 = Some q1 -> pos_get (s_pos (r_base rs')) idk = Some qk ->
  ps_lower q1 = ps_lower qk -> ps_upper q1 = ps_upper qk ->
  claimable_spread rs' id1 = Some c1 -> claimable_spread rs' idk = Some ck ->
  -1 <= pr_sel d ck - k * pr_sel d c1 <= k.
Proof. exact k_times_over_history. Qed.
Print Assumptions C08_k_times_over_history.

(* twins created in the same block on [-1000, 2000), then crossings, a third party's withdrawal and collect: equal records at the
   start, untouched, and they claim the same non-zero amount at the end *)
Example C08_identical_positions_over_history_nonvacuous :
  let rs := rrun (rinit 0x64 0x71afd498d0000 0x2cd76fe086b93ce2f768a00b22a00000000000 0x2cd76fe086b93ce2f768a00b22a00000000000
          [(0xc9f2c9cd04674edea40000000, 0xc9f2c9cd04674edea40000000); (0xc9f2c9cd04674edea40000000, 0xc9f2c9cd04674edea40000000);
           (0xc9f2c9cd04674edea40000000, 0xc9f2c9cd04674edea40000000)] 0x6553f100)
       [RBase (OCreate 0x0 0x3b9aca00 0x3b9aca00 0x0 0x0 (-0x186a0) 0x186a0);
        RBase (OCreate 0x1 0x989680 0x989680 0x0 0x0 (-0x3e8) 0x7d0);
        RBase (OCreate 0x2 0x989680 0x989680 0x0 0x0 (-0x3e8) 0x7d0)] in
  let ops := [RBase (OSwapIn 0x2 false 0x1c9c380 0x1); RBase (OWithdraw 0x0 0x1 0x3e8); RBase (OSwapIn 0x2 true 0x3938700 0x1);
              RCollectSpread 0x0 [0x1]; RBase (OTime 0x64)] in
  (exists r, acc_get (rw_spread (r_rw rs)) 2 = Some r /\ acc_get (rw_spread (r_rw rs)) 3 = Some r) /\
  hist_untouched ops 2 = true /\ hist_untouched ops 3 = true /\
  exists c, claimable_spread (rrun rs ops) 2 = Some c /\ claimable_spread (rrun rs ops) 3 = Some c /\ 0 < fst c /\ 0 < snd c.
Proof.
  intros rs ops. let v := eval vm_compute in rs in assert (E : rs = v) by (vm_compute; reflexivity). rewrite E.
  split; [eexists; split; vm_compute; reflexivity|]. split; [reflexivity|]. split; [reflexivity|].
  eexists. split; [vm_compute; reflexivity|]. split; [vm_compute; reflexivity|]. split; vm_compute; reflexivity.
Qed.

(* ==== the incentive account covers what the positions can claim and what the records still have to emit (C08/Inc*.v) ==== *)
(* bringing the uptime accumulators up to the block time: (growth per unit of liquidity, summed over the six accumulators) x
   liquidity + (remaining emission afterwards) x scaling  <=  (remaining emission before) x scaling *)
Theorem C08_uptime_accrual_le_emitted : forall w liq now w' d, update_uptime w liq now = Some w' -> recs_ok (rw_recs w) -> 0 < rw_inc_scaling w ->
  usum (length (rw_up w)) (fun u => sel_G (CU u d) w' - sel_G (CU u d) w) * liq + remD d (rw_recs w') * rw_inc_scaling w
    <= remD d (rw_recs w) * rw_inc_scaling w.
Proof. intros w liq now w' d H OK Hi. destruct (update_uptime_spec _ _ _ _ d H OK Hi) as [_ [_ [_ [_ [_ [SM _]]]]]]. exact SM. Qed.
Print Assumptions C08_uptime_accrual_le_emitted.

(* every operation: invariant PII (every open position has a record with shares = liquidity and non-negative unclaimed rewards in each
   of the six uptime accumulators; incentive records have positive rates and non-negative remaining amounts) and the potential
   2 * (sum owed over accumulators and positions + remaining emission x scaling) - 2 * balance x scaling x 10^18 *)
Theorem C08_incentive_account_step : forall rs o rs' r d, PII rs -> rhandler rs o = Some (rs', r) ->
  PII rs' /\ isc_of rs' = isc_of rs /\ PhiI d rs' <= PhiI d rs + icost o * (Z.of_nat NU * P18).
Proof. exact inc_handler. Qed.
Print Assumptions C08_incentive_account_step.

(* TOTAL_CLAIMABLE_LE_PAID, incentives, all histories: collected + forfeitable incentives of all open positions <= incentive account.
   PARTIAL in the same sense as the spread-reward statement: claim queries succeed; (roundings + open positions) x 6 < 2 x scaling. *)
Theorem C08_total_incentives_le_paid_partial : forall sp spf ssc isc users t ops d, 0 < sp -> 0 <= spf <= 500000000000000000 -> 0 < isc ->
  let rs0 := rinit sp spf ssc isc users t in
  let rs := rrun rs0 ops in
  (forall p, In p (s_pos (r_base rs)) -> claimable_incentives rs (ps_id p) <> None) ->
  (hist_icost rs0 ops + Z.of_nat (length (s_pos (r_base rs)))) * Z.of_nat NU < 2 * isc ->
  zsum (iclaim_of d rs) (s_pos (r_base rs)) <= inc_bal d rs.
Proof. exact total_incentives_le_paid. Qed.
Print Assumptions C08_total_incentives_le_paid_partial.

(* ... together with what the incentive records still have to emit (after they are brought up to the block time, as every claim
   query does): strictly less than balance + 1 token *)
Theorem C08_incentives_and_remaining_covered : forall rs d K, PII rs -> PhiI d rs <= K * (Z.of_nat NU * P18) ->
  (forall p, In p (s_pos (r_base rs)) -> claimable_incentives rs (ps_id p) <> None) ->
  0 <= K -> (K + Z.of_nat (length (s_pos (r_base rs)))) * Z.of_nat NU < 2 * isc_of rs ->
  s_pos (r_base rs) <> [] ->
  exists w1, update_uptime (r_rw rs) (p_liq (s_pool (r_base rs))) (s_time (r_base rs)) = Some w1 /\
    zsum (iclaim_of d rs) (s_pos (r_base rs)) * P18 + remD d (rw_recs w1) < (inc_bal d rs + 1) * P18.
Proof. exact inc_claims_remaining_covered. Qed.
Print Assumptions C08_incentives_and_remaining_covered.

(* two positions, two incentives on different uptimes, time, a crossing swap, a collect before the uptime is met (finding C08-F1: the
   forfeited amount stays in the account), a partial withdrawal: all queries succeed, the cost counter is small, claims are positive *)
Example C08_total_incentives_le_paid_nonvacuous :
  let rs0 := rinit 0x64 0x71afd498d0000 0x2cd76fe086b93ce2f768a00b22a00000000000 0x2cd76fe086b93ce2f768a00b22a00000000000
          [(0xc9f2c9cd04674edea40000000, 0xc9f2c9cd04674edea40000000); (0xc9f2c9cd04674edea40000000, 0xc9f2c9cd04674edea40000000);
           (0xc9f2c9cd04674edea40000000, 0xc9f2c9cd04674edea40000000)] 0x6553f100 in
  let ops := [RBase (OCreate 0x0 0x3b9aca00 0x3b9aca00 0x0 0x0 (-0x186a0) 0x186a0);
              RBase (OCreate 0x1 0x989680 0x0 0x0 0x0 0x3e8 0xbb8);
              RIncentive 0x2 0x0 0xf4240 0xde0b6b3a7640000 0x0 0x0;
              RIncentive 0x2 0x1 0xf4240 0xde0b6b3a7640000 0x0 0x3;
              RBase (OTime 0x64);
              RBase (OSwapIn 0x2 false 0x1c9c380 0x1);
              RBase (OTime 0x32);
              RCollectInc 0x0 [0x1];
              RBase (OWithdraw 0x0 0x1 0x3e8);
              RBase (OTime 0xa)] in
  let rs := rrun rs0 ops in
  (forall p, In p (s_pos (r_base rs)) -> claimable_incentives rs (ps_id p) <> None) /\
  hist_icost rs0 ops = 5 /\ length (s_pos (r_base rs)) = 2%nat /\
  0 < zsum (iclaim_of false rs) (s_pos (r_base rs)) <= inc_bal false rs /\ 0 < zsum (iclaim_of true rs) (s_pos (r_base rs)) <= inc_bal true rs.
Proof.
  intros rs0 ops rs.
  let v := eval vm_compute in rs in assert (E : rs = v) by (vm_compute; reflexivity).
  split.
  - rewrite E. intros p [H|[H|[]]]; subst p; vm_compute; discriminate.
  - split; [vm_compute; reflexivity|]. rewrite E. split; [reflexivity|]. split; split; vm_compute; try reflexivity; discriminate.
Qed.

(* ==== never in range => no incentives (C08/UpNever.v) ==== *)
(* the uptime-accumulator records of a position are written only by a withdrawal from / add to / incentive collection on that position *)
Theorem C08_uptime_record_frame : forall ops rs id, RInv rs -> hist_untouchedI ops id = true -> id < s_next_id (r_base rs) ->
  forall u, acc_get (acc_u u (r_rw (rrun rs ops))) id = acc_get (acc_u u (r_rw rs)) id.
Proof. exact run_urec_frame. Qed.
Print Assumptions C08_uptime_record_frame.

(* NEVER_IN_RANGE_EARNS_ZERO for incentives: records that claim nothing (nothing unclaimed, snapshot = growth inside), the position left
   alone, the current tick never inside [l, h) - at any operation, at any step of any swap - and outside at the end: the claim query
   reports nothing collected and nothing forfeited, whatever incentives were created and however much time passed *)
Theorem C08_never_in_range_no_incentives : forall ops rs id l h c f, RInv rs -> length (rw_up (r_rw rs)) = NU ->
  live_through rs ops id l h -> hist_outside rs ops l h -> hist_untouchedI ops id = true -> id < s_next_id (r_base rs) ->
  zero_urec rs id l h ->
  let rs' := rrun rs ops in
  length (rw_up (r_rw rs')) = NU -> in_rng l h (cur_tick rs') = false ->
  claimable_incentives rs' id = Some (c, f) -> c = (0, 0) /\ f = (0, 0).
Proof. exact never_in_range_no_incentives. Qed.
Print Assumptions C08_never_in_range_no_incentives.

(* position 2 on [1000, 3000) while the tick stays near 0: an incentive on the shortest uptime, time, a swap inside the bucket, more time,
   a collect on the other position, more time: position 2 can claim neither spread rewards nor incentives, position 1 can *)
Definition ex_rs1 : rstate :=
  rrun (rinit 0x64 0x71afd498d0000 0x2cd76fe086b93ce2f768a00b22a00000000000 0x2cd76fe086b93ce2f768a00b22a00000000000
          [(0xc9f2c9cd04674edea40000000, 0xc9f2c9cd04674edea40000000); (0xc9f2c9cd04674edea40000000, 0xc9f2c9cd04674edea40000000);
           (0xc9f2c9cd04674edea40000000, 0xc9f2c9cd04674edea40000000)] 0x6553f100)
       [RBase (OCreate 0x0 0x3b9aca00 0x3b9aca00 0x0 0x0 (-0x186a0) 0x186a0);
        RBase (OCreate 0x1 0x989680 0x0 0x0 0x0 0x3e8 0xbb8)].
Definition ex_ops1 : list rop :=
  [RIncentive 0x2 0x0 0xf4240 0xde0b6b3a7640000 0x0 0x0; RBase (OTime 0x64); RBase (OSwapIn 0x2 false 0xf4240 0x1);
   RBase (OTime 0x32); RCollectInc 0x0 [0x1]; RBase (OTime 0x10)].
Example C08_never_in_range_nonvacuous :
  RInv ex_rs1 /\ length (rw_up (r_rw ex_rs1)) = NU /\ live_through ex_rs1 ex_ops1 2 1000 3000 /\ hist_outside ex_rs1 ex_ops1 1000 3000 /\
  hist_untouchedI ex_ops1 2 = true /\ 2 < s_next_id (r_base ex_rs1) /\ zero_urec ex_rs1 2 1000 3000 /\ zero_rec ex_rs1 2 1000 3000 /\
  length (rw_up (r_rw (rrun ex_rs1 ex_ops1))) = NU /\ in_rng 1000 3000 (cur_tick (rrun ex_rs1 ex_ops1)) = false /\
  claimable_incentives (rrun ex_rs1 ex_ops1) 2 = Some ((0, 0), (0, 0)) /\ claimable_spread (rrun ex_rs1 ex_ops1) 2 = Some (0, 0) /\
  (exists c f, claimable_incentives (rrun ex_rs1 ex_ops1) 1 = Some (c, f) /\ 0 < fst c + fst f) /\
  (exists c, claimable_spread (rrun ex_rs1 ex_ops1) 1 = Some c /\ 0 < snd c).
Proof.
  split; [apply rinv_run; apply rinv_init; lia|]. split; [vm_compute; reflexivity|].
  split; [unfold live_through, ex_ops1; repeat split; (eexists; split; [vm_compute; reflexivity|split; reflexivity])|].
  split.
  { unfold ex_ops1. cbn [hist_outside]. split; [vm_compute; reflexivity|]. split; [vm_compute; reflexivity|].
    split; [vm_compute; intros c' HC; repeat (destruct HC as [HC|HC]; [subst c'; reflexivity|]); destruct HC|].
    split; [vm_compute; reflexivity|]. split; [vm_compute; reflexivity|]. split; [vm_compute; reflexivity|exact Logic.I]. }
  split; [reflexivity|]. split; [vm_compute; reflexivity|].
  split.
  { intros u r Hu R. assert (H6 : NU = 6%nat) by reflexivity. rewrite H6 in Hu. clear H6.
    do 6 (destruct u as [|u]; [vm_compute in R; inversion R; subst r; split; [reflexivity|intros [|]; vm_compute; reflexivity]|]).
    exfalso. do 6 (apply <- Nat.succ_lt_mono in Hu). inversion Hu. }
  split.
  { eexists. eexists. split; [eexists; split; [vm_compute; reflexivity|split; [reflexivity|split; reflexivity]]|].
    split; [vm_compute; reflexivity|]. split; [vm_compute; reflexivity|]. split; [reflexivity|]. split; [reflexivity|]. intros [|]; vm_compute; reflexivity. }
  split; [vm_compute; reflexivity|]. split; [vm_compute; reflexivity|]. split; [vm_compute; reflexivity|]. split; [vm_compute; reflexivity|].
  split; [eexists; eexists; split; [vm_compute; reflexivity|vm_compute; reflexivity]|].
  eexists; split; [vm_compute; reflexivity|vm_compute; reflexivity].
Qed.

(* a position that was just created has zero records in all six uptime accumulators (nothing unclaimed, snapshot = growth inside now) *)
Theorem C08_new_position_no_incentives_yet : forall rs owner a0 a1 m0 m1 lo hi rs' c, PII rs ->
  r_create rs owner a0 a1 m0 m1 lo hi = Some (rs', c) -> zero_urec rs' (cr_id c) (cr_lower c) (cr_upper c).
Proof. exact create_zero_urec. Qed.
Print Assumptions C08_new_position_no_incentives_yet.

(* ==== identical positions, identical incentives (C08/UpTwins.v) ==== *)
Theorem C08_identical_positions_identical_incentives : forall rs id1 id2 q1 q2 x1 x2,
  pos_get (s_pos (r_base rs)) id1 = Some q1 -> pos_get (s_pos (r_base rs)) id2 = Some q2 ->
  ps_lower q1 = ps_lower q2 -> ps_upper q1 = ps_upper q2 -> ps_join q1 = ps_join q2 ->
  (forall u, acc_get (acc_u u (r_rw rs)) id1 = acc_get (acc_u u (r_rw rs)) id2) ->
  claimable_incentives rs id1 = Some x1 -> claimable_incentives rs id2 = Some x2 -> x1 = x2.
Proof. exact identical_positions_identical_incentives. Qed.
Print Assumptions C08_identical_positions_identical_incentives.

Theorem C08_identical_incentives_over_history : forall ops rs id1 id2 q1 q2 x1 x2, RInv rs ->
  id1 < s_next_id (r_base rs) -> id2 < s_next_id (r_base rs) ->
  (forall u, acc_get (acc_u u (r_rw rs)) id1 = acc_get (acc_u u (r_rw rs)) id2) ->
  hist_untouchedI ops id1 = true -> hist_untouchedI ops id2 = true ->
  let rs' := rrun rs ops in
  pos_get (s_pos (r_base rs')) id1 = Some q1 -> pos_get (s_pos (r_base rs')) id2 = Some q2 ->
  ps_lower q1 = ps_lower q2 -> ps_upper q1 = ps_upper q2 -> ps_join q1 = ps_join q2 ->
  claimable_incentives rs' id1 = Some x1 -> claimable_incentives rs' id2 = Some x2 -> x1 = x2.
Proof. exact identical_incentives_over_history. Qed.
Print Assumptions C08_identical_incentives_over_history.

(* twins created in the same block; two incentives on different uptimes, time, a crossing swap, a third party's collect: equal records at
   the start (all six accumulators), untouched, and the same non-zero incentives offered at the end *)
Definition ex_rs2 : rstate :=
  rrun (rinit 0x64 0x71afd498d0000 0x2cd76fe086b93ce2f768a00b22a00000000000 0x2cd76fe086b93ce2f768a00b22a00000000000
          [(0xc9f2c9cd04674edea40000000, 0xc9f2c9cd04674edea40000000); (0xc9f2c9cd04674edea40000000, 0xc9f2c9cd04674edea40000000);
           (0xc9f2c9cd04674edea40000000, 0xc9f2c9cd04674edea40000000)] 0x6553f100)
       [RBase (OCreate 0x0 0x3b9aca00 0x3b9aca00 0x0 0x0 (-0x186a0) 0x186a0);
        RBase (OCreate 0x1 0x989680 0x989680 0x0 0x0 (-0x3e8) 0x7d0);
        RBase (OCreate 0x2 0x989680 0x989680 0x0 0x0 (-0x3e8) 0x7d0)].
Definition ex_ops2 : list rop :=
  [RIncentive 0x2 0x0 0xf4240 0xde0b6b3a7640000 0x0 0x0; RIncentive 0x2 0x1 0xf4240 0xde0b6b3a7640000 0x0 0x3; RBase (OTime 0x64);
   RBase (OSwapIn 0x2 false 0x1c9c380 0x1); RBase (OTime 0x32); RCollectInc 0x0 [0x1]; RBase (OTime 0x10)].
Example C08_identical_incentives_nonvacuous :
  (forall u, acc_get (acc_u u (r_rw ex_rs2)) 2 = acc_get (acc_u u (r_rw ex_rs2)) 3) /\
  hist_untouchedI ex_ops2 2 = true /\ hist_untouchedI ex_ops2 3 = true /\
  exists x, claimable_incentives (rrun ex_rs2 ex_ops2) 2 = Some x /\ claimable_incentives (rrun ex_rs2 ex_ops2) 3 = Some x /\
            0 < fst (fst x) + fst (snd x) /\ 0 < snd (fst x) + snd (snd x).
Proof.
  split.
  { intro u. do 6 (destruct u as [|u]; [vm_compute; reflexivity|]). vm_compute. destruct u; reflexivity. }
  split; [reflexivity|]. split; [reflexivity|].
  eexists. split; [vm_compute; reflexivity|]. split; [vm_compute; reflexivity|]. split; vm_compute; reflexivity.
Qed.

(* ==== CLAIM QUERIES NEVER FAIL (spread rewards): reduced to the LegacyDec range ==== *)
(* forward direction of the claim: prepareClaimableSpreadRewards returns a result as soon as the sign conditions (trackers in
   [0, accumulator value], snapshot in [- accumulator value, growth inside], nothing unclaimed negative) and the range conditions
   (3 x accumulator value + 1 <= LegacyDec limit, unclaimed + 2 x value x shares + 1 within the limit, scaling factor >= 1) hold *)
Theorem C08_prepare_claimable_spread_ok : forall w sc cur l u id r, acc_get (rw_spread w) id = Some r ->
  spread_claim_ok w sc cur l u r -> exists w' c, prepare_claimable_spread w sc cur l u id = Some (w', c).
Proof. exact prepare_claimable_spread_ok. Qed.
Print Assumptions C08_prepare_claimable_spread_ok.

(* the sign conditions are invariants: in every reachable state every stored growth-outside tracker of the spread accumulator lies in
   [0, accumulator value], and for every open position the snapshot of its record lies in [- accumulator value, growth inside its range]
   and nothing unclaimed is negative - "negative coin amount" cannot happen on the claim path *)
Theorem C08_spread_sign_conditions_reachable : forall sp spf ssc isc users t ops, 0 < sp -> 0 <= spf <= 500000000000000000 -> 0 < ssc ->
  let rs := rrun (rinit sp spf ssc isc users t) ops in
  TBv (r_rw rs) /\ forall id l u, livep (r_base rs) id l u -> srec (r_rw rs) (cur_tick rs) id l u.
Proof.
  intros sp spf ssc isc users t ops Hsp Hspf Hsc rs.
  destruct (CI_run ops _ (CI_init sp spf ssc isc users t Hsp Hspf) Hsc) as [[_ [A B]] _]. split; assumption.
Qed.
Print Assumptions C08_spread_sign_conditions_reachable.

(* hence the spread-reward claim query of an open position can only fail by LegacyDec overflow.  PARTIAL: the range condition
   [spread_range_ok] (3 x accumulator value + 10^36 <= 2^256 10^18 - 1 and unclaimed x 10^18 + 2 x value x liquidity + 10^18 within the
   limit x 10^18, per denomination) remains as the explicit arithmetic hypothesis; incentives are not covered *)
Theorem C08_spread_claim_succeeds_partial : forall sp spf ssc isc users t ops p, 0 < sp -> 0 <= spf <= 500000000000000000 -> P18 <= ssc ->
  let rs := rrun (rinit sp spf ssc isc users t) ops in
  In p (s_pos (r_base rs)) -> spread_range_ok rs p -> exists c, claimable_spread rs (ps_id p) = Some c.
Proof. exact claimable_spread_succeeds_reachable. Qed.
Print Assumptions C08_spread_claim_succeeds_partial.

(* the range condition holds for both positions of the example state *)
Example C08_spread_range_nonvacuous : forall p, In p (s_pos (r_base (rrun ex_rs2 ex_ops2))) -> spread_range_ok (rrun ex_rs2 ex_ops2) p.
Proof.
  assert (E : exists rs, rs = rrun ex_rs2 ex_ops2) by (eexists; reflexivity). destruct E as [rs E].
  rewrite <- E. vm_compute in E. subst rs. intros p HIn. cbn [r_base s_pos] in HIn.
  repeat (destruct HIn as [HIn|HIn]; [subst p; intros r R; vm_compute in R; inversion R; subst r; intros [|]; split; vm_compute; discriminate|]).
  destruct HIn.
Qed.

(* ==== the sign conditions of the INCENTIVE claim are invariants too ==== *)
(* in every reachable state, for every supported uptime u and denomination d: every stored uptime growth-outside tracker lies in
   [0, value of the u-th uptime accumulator] (so "global - tracker" in GetUptimeGrowthInsideRange / crossTick and "global - inside" in
   GetUptimeGrowthOutsideRange never go negative), and the snapshot of every open position's record in the u-th accumulator lies in
   [- value, uptime growth inside its range] (so GetTotalRewards' "value - snapshot" never goes negative); unclaimed amounts are >= 0 by
   PII.  The uptime accumulators only grow: accrual and the re-deposit of forfeited incentives add non-negative amounts.
   What remains for "incentive claim queries never fail" is range / time arithmetic only: LegacyDec range of the accrual and of the claim,
   block time >= last liquidity update and >= join time (the model's OTime accepts negative steps), and the length of the tracker lists. *)
Theorem C08_incentive_sign_conditions_reachable : forall sp spf ssc isc users t ops, 0 < sp -> 0 <= spf <= 500000000000000000 -> 0 < isc ->
  let rs := rrun (rinit sp spf ssc isc users t) ops in
  TBU (r_rw rs) /\ forall id l h, livep (r_base rs) id l h -> srecU (r_rw rs) (cur_tick rs) id l h.
Proof.
  intros sp spf ssc isc users t ops Hsp Hspf Hisc rs.
  destruct (CII_run ops _ (CII_init sp spf ssc isc users t Hsp Hspf Hisc)) as [_ [A B]]. split; assumption.
Qed.
Print Assumptions C08_incentive_sign_conditions_reachable.

(* forward direction of the incentive claim: prepareClaimAllIncentivesForPosition returns a result under [inc_claim_ok]: the sign
   conditions (invariants above), block time >= last liquidity update and >= join time, one tracker per uptime accumulator on every
   stored tick, and the range conditions on B = accumulator value x 10^18 + remaining incentives x scaling factor (an upper bound of the
   value after the accrual): 3 B + 10^54 <= limit x 10^18 and unclaimed x 10^36 + 2 B x shares + 10^36 <= limit x 10^36 *)
Theorem C08_prepare_claim_all_incentives_ok : forall w cur pl now lo hi id join, inc_claim_ok w cur now lo hi id join ->
  exists res, prepare_claim_all_incentives w cur pl now lo hi id join = Some res.
Proof. exact prepare_claim_all_incentives_ok. Qed.
Print Assumptions C08_prepare_claim_all_incentives_ok.

(* the time and shape conditions are invariants of histories without a negative time step (the model's OTime accepts any dt) *)
Theorem C08_time_shape_reachable : forall sp spf ssc isc users t ops, 0 < sp -> 0 <= spf <= 500000000000000000 -> hist_time_ok ops ->
  TW (rrun (rinit sp spf ssc isc users t) ops).
Proof.
  intros sp spf ssc isc users t ops Hsp Hspf HT. apply TW_run; [apply rinv_init; assumption|exact HT|apply TW_init].
Qed.
Print Assumptions C08_time_shape_reachable.

(* CLAIM QUERIES NEVER FAIL, incentives: in every state reachable by a history without negative time steps the incentive claim query
   of every open position succeeds, provided the explicit range condition [inc_range_ok] (LegacyDec overflow of the accrual / of
   the claim).  PARTIAL: that range hypothesis *)
Theorem C08_incentive_claim_succeeds_partial : forall sp spf ssc isc users t ops p, 0 < sp -> 0 <= spf <= 500000000000000000 -> P18 <= isc ->
  hist_time_ok ops ->
  let rs := rrun (rinit sp spf ssc isc users t) ops in
  In p (s_pos (r_base rs)) -> inc_range_ok rs p -> exists x, claimable_incentives rs (ps_id p) = Some x.
Proof. exact claimable_incentives_succeeds_reachable. Qed.
Print Assumptions C08_incentive_claim_succeeds_partial.

(* the range condition holds for the positions of the example state, whose history has no negative time step *)
Example C08_inc_range_nonvacuous : hist_time_ok ex_ops2 /\
  forall p, In p (s_pos (r_base (rrun ex_rs2 ex_ops2))) -> inc_range_ok (rrun ex_rs2 ex_ops2) p.
Proof.
  split; [unfold ex_ops2; simpl; repeat split; lia|].
  assert (E : exists rs, rs = rrun ex_rs2 ex_ops2) by (eexists; reflexivity). destruct E as [rs E].
  rewrite <- E. vm_compute in E. subst rs. intros p HIn. cbn [r_base s_pos] in HIn.
  assert (NUv : NU = 6%nat) by (vm_compute; reflexivity).
  repeat (destruct HIn as [HIn|HIn]; [subst p; split; [repeat constructor; vm_compute; discriminate|];
    intros u d Hu; rewrite NUv in Hu; do 6 (destruct u as [|u]; [destruct d; (split; [vm_compute; discriminate|intros r R; vm_compute in R; inversion R; subst r; vm_compute; discriminate])|]); lia|]).
  destruct HIn.
Qed.
