(* C02 - Classic pools and the swap router neither create nor lose funds.  Property theorems only. *)
From Coq Require Import ZArith List Bool.
Import ListNotations.
From Osmo Require Import C05.Model C02.Model C02.Proofs.
Open Scope Z_scope.

(* a failed message leaves the whole state (balances, supply, pool records) unchanged *)
Theorem C02_failed_message_changes_nothing : forall M s m s' e, gstep M s m = (s', Err e) -> s' = s.
Proof. exact gstep_err_unchanged. Qed.
Print Assumptions C02_failed_message_changes_nothing.
