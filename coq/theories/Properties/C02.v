(* C02 - Classic pools and the swap router neither create nor lose funds.
   Property theorems only; each is closed by a lemma of C02/Proofs*.v.  The model (C02/Model.v on top of C05/Model.v)
   is parametric in the pool math M; [MathLaws M] - the all-asset join of exactly the needed liquidity leaves no
   remainder, exits never take a whole reserve - are hypotheses about that math, PROVED for the concrete math PM of
   C02/Instance.v and measured on the real balancer / stableswap pools by the oracle on every run. *)
From Coq Require Import ZArith List Bool Lia.
Import ListNotations.
From Osmo Require Import C05.Model C05.Proofs C02.Model C02.Proofs C02.Proofs2 C02.Proofs3 C02.Proofs4 C02.Proofs5 C02.Proofs6 C02.Instance.
Open Scope Z_scope.

(* the invariant holds on a chain without pools *)
Theorem C02_genesis : forall M s, pools (rs M s) = [] -> next_id M s = 1 ->
  (forall id d, direct M s id d = bal (rs M s) (PoolAcc id) d) ->
  (forall id, 1 <= id -> supply M s (share_denom id) = 0) -> Inv M s.
Proof. exact Inv_genesis. Qed.
Print Assumptions C02_genesis.

(* after ANY history of pool creations, joins (all-asset, single-asset, exact-shares), exits (proportional,
   single-asset by shares or by amount), routed swaps (exact-in, exact-out, split; any number of hops) and plain bank
   sends by ordinary accounts: *)

(* (1) the tokens held by each pool's account equal the reserves the pool reports, plus what was sent to it directly *)
Theorem C02_pool_bank_eq_reserves : forall M, MathLaws M -> forall s0 ms, Inv M s0 -> Forall gmsg_wf ms ->
  let s := grun M s0 ms in
  forall id p, get_pool (GP M) (pools (rs M s)) id = Some p ->
  forall d, bal (rs M s) (PoolAcc id) d = res p d + direct M s id d.
Proof. intros M ML s0 ms I W s id p G d. destruct (grun_Good M ML ms s0 W I) as [J _]. eapply (inv_bank M); eauto. Qed.
Print Assumptions C02_pool_bank_eq_reserves.

(* (2) the circulating supply of each pool's share token equals the share total the pool reports *)
Theorem C02_share_supply_eq_total_shares : forall M, MathLaws M -> forall s0 ms, Inv M s0 -> Forall gmsg_wf ms ->
  let s := grun M s0 ms in
  forall id p, get_pool (GP M) (pools (rs M s)) id = Some p -> supply M s (share_denom id) = gp_shares p.
Proof. intros M ML s0 ms I W s id p G. destruct (grun_Good M ML ms s0 W I) as [J _]. eapply (inv_shares M); eauto. Qed.
Print Assumptions C02_share_supply_eq_total_shares.

(* (3) the total supply of every non-share token is unchanged (ordinary denominations are 0..99, share denoms 101..) *)
Theorem C02_non_share_supply_constant : forall M, MathLaws M -> forall s0 ms, Inv M s0 -> Forall gmsg_wf ms ->
  forall x, x <= 100 -> supply M (grun M s0 ms) x = supply M s0 x.
Proof. intros M ML s0 ms I W x Hx. destruct (grun_Good M ML ms s0 W I) as [_ S]. apply S; assumption. Qed.
Print Assumptions C02_non_share_supply_constant.

(* (4) payer accounting, for every single message: over any duplicate-free set L of accounts containing the sender, the
   recipient of a send, every pool address, the taker-fee collector and the community pool, the balance changes cancel
   against the supply change (minted / burnt shares; zero for every ordinary denom); nobody outside L is touched *)
Theorem C02_payer_accounting : forall M, MathLaws M -> forall s m s' v L,
  gmsg_wf m -> Inv M s -> ghandle M s m = Ok (s', v) ->
  NoDup L -> closed_for M L s m ->
  (forall x, sumL L (bal (rs M s')) x - supply M s' x = sumL L (bal (rs M s)) x - supply M s x) /\
  (forall a x, inL L a = false -> bal (rs M s') a x = bal (rs M s) a x).
Proof. exact step_accounting. Qed.
Print Assumptions C02_payer_accounting.

(* ... and every unit of tokenIn of a single-hop exact-in swap lands in exactly one place: the taker-fee collector
   (the fee) or the pool (the rest); the trader pays exactly tokenIn *)
Theorem C02_token_in_lands_once : forall M r n pid dIn amt dOut minOut r' out fee,
  pm_swap_exact_in (GP M) r (Trader n) pid dIn amt dOut minOut = Ok (r', (out, fee)) ->
  bal r' (Trader n) dIn = bal r (Trader n) dIn - amt /\
  bal r' Collector dIn = bal r Collector dIn + fee /\
  bal r' (PoolAcc pid) dIn = bal r (PoolAcc pid) dIn + (amt - fee) /\ 0 <= fee.
Proof. exact token_in_lands_once. Qed.
Print Assumptions C02_token_in_lands_once.

(* a failed message leaves everything - balances, supply, pool records - unchanged (baseapp atomicity) *)
Theorem C02_failed_message_changes_nothing : forall M s m s' e, gstep M s m = (s', Err e) -> s' = s.
Proof. exact gstep_err_unchanged. Qed.
Print Assumptions C02_failed_message_changes_nothing.

(* the math laws hold for a concrete executable math *)
Theorem C02_pm_laws : MathLaws PM.
Proof. exact PM_laws. Qed.
Print Assumptions C02_pm_laws.

(* non-vacuity, by running the model on a ten-message history over two pools (the last message fails): the genesis state
   satisfies the invariant, all senders are ordinary accounts, and the final state shows the equalities concretely *)
Example C02_nonvacuous :
  Inv PM g0 /\ Forall gmsg_wf history /\
  let s := grun PM g0 history in
  map (fun d => bal (rs PM s) (PoolAcc 1) d) [0; 1; 2; 3] = [5311826; 6526590; 7700000; 777] /\
  option_map (fun p => (gp_liq p, gp_shares p)) (get_pool (GP PM) (pools (rs PM s)) 1)
    = Some ([(0, 5311826); (1, 6526590); (2, 7700000)], 104534793991599966858) /\
  direct PM s 1 3 = 777 /\ supply PM s 101 = 104534793991599966858 /\
  supply PM s 0 = 3000000000 /\ bal (rs PM s) Collector 0 = 96 /\ bal (rs PM s) Community 5 = 2000.
Proof. exact nonvacuous_witness. Qed.
