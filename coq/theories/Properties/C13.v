(* C13 - Approximate math functions meet their stated error bounds and are monotone.
   Property theorems only; each is closed by a lemma of C13/*Proofs.v.  Raw mantissas throughout:
   a Dec value v is the integer v*10^18 (P18), a BigDec value the integer v*10^36 (P36). *)
From Coq Require Import ZArith List Bool.
Import ListNotations.
From Osmo Require Import Base.DecModel C13.Common C13.Sqrt C13.SqrtProofs.
Open Scope Z_scope.

(* ---------- monotone square roots (integers only, axiom-free) ---------- *)

(* MonotonicSqrt returns the least representable (non-negative, 18-decimal) value whose square is at least the
   input: with raw mantissas, (r/10^18)^2 >= d/10^18  <->  r*r >= d*10^18 *)
Theorem C13_sqrt_least : forall d, 0 <= d -> exists r, monotonic_sqrt d = Ok r /\
  0 <= r /\ d * P18 <= r * r /\ (forall s, 0 <= s -> d * P18 <= s * s -> r <= s) /\ (0 < r -> (r - 1) * (r - 1) < d * P18).
Proof. exact monotonic_sqrt_ok. Qed.
Print Assumptions C13_sqrt_least.

Theorem C13_sqrt_monotone : forall d1 d2 r1 r2, d1 <= d2 ->
  monotonic_sqrt d1 = Ok r1 -> monotonic_sqrt d2 = Ok r2 -> r1 <= r2.
Proof. exact monotonic_sqrt_mono. Qed.
Print Assumptions C13_sqrt_monotone.

Theorem C13_sqrt_negative_fails : forall d, d < 0 -> monotonic_sqrt d = Err ENegSqrt.
Proof. exact monotonic_sqrt_neg. Qed.
Print Assumptions C13_sqrt_negative_fails.

Theorem C13_sqrt_bigdec_least : forall d, 0 <= d -> exists r, monotonic_sqrt_bigdec d = Ok r /\
  0 <= r /\ d * P36 <= r * r /\ (forall s, 0 <= s -> d * P36 <= s * s -> r <= s) /\ (0 < r -> (r - 1) * (r - 1) < d * P36).
Proof. exact monotonic_sqrt_bigdec_ok. Qed.
Print Assumptions C13_sqrt_bigdec_least.

Theorem C13_sqrt_bigdec_monotone : forall d1 d2 r1 r2, d1 <= d2 ->
  monotonic_sqrt_bigdec d1 = Ok r1 -> monotonic_sqrt_bigdec d2 = Ok r2 -> r1 <= r2.
Proof. exact monotonic_sqrt_bigdec_mono. Qed.
Print Assumptions C13_sqrt_bigdec_monotone.

Theorem C13_sqrt_bigdec_negative_fails : forall d, d < 0 -> monotonic_sqrt_bigdec d = Err ENegSqrt.
Proof. exact monotonic_sqrt_bigdec_neg. Qed.
Print Assumptions C13_sqrt_bigdec_negative_fails.

Example C13_sqrt_nonvacuous :
  monotonic_sqrt (2 * P18) = Ok 1414213562373095049 /\ monotonic_sqrt (4 * P18) = Ok (2 * P18) /\
  monotonic_sqrt 1 = Ok (10 ^ 9) /\ monotonic_sqrt 0 = Ok 0 /\
  monotonic_sqrt_bigdec (2 * P36) = Ok 1414213562373095048801688724209698079 /\
  monotonic_sqrt (-1) = Err ENegSqrt.
Proof. vm_compute. repeat split. Qed.
