(* C13 - Approximate math functions meet their stated error bounds and are monotone.
   Property theorems only; each is closed by a lemma of C13/*Proofs.v.  Raw mantissas throughout:
   a Dec value v is the integer v*10^18 (P18), a BigDec value the integer v*10^36 (P36). *)
From Coq Require Import ZArith List Bool.
Import ListNotations.
From Osmo Require Import Base.DecModel C13.Common C13.Sqrt C13.SqrtProofs C13.SigFig C13.SigFigProofs.
Open Scope Z_scope.

(* ---------- monotone square roots (integers only, axiom-free) ---------- *)

(* MonotonicSqrt returns the least representable (non-negative, 18-decimal) value whose square is at least the
   input: with raw mantissas, (r/10^18)^2 >= d/10^18  <->  r*r >= d*10^18 *)
Theorem C13_sqrt_least : forall d, 0 <= d -> exists r, monotonic_sqrt d = Ok r /\
  0 <= r /\ d * P18 <= r * r /\ (forall s, 0 <= s -> d * P18 <= s * s -> r <= s) /\ (0 < r -> (r - 1) * (r - 1) < d * P18).
Proof. exact monotonic_sqrt_ok. Qed.
Print Assumptions C13_sqrt_least.

Theorem C13_sqrt_monotone : forall d1 d2 r1 r2, d1 <= d2 ->
  monotonic_sqrt d1 = Ok r1 -> monotonic_sqrt d2 = Ok r2 -> r1 <= r2.
Proof. exact monotonic_sqrt_mono. Qed.
Print Assumptions C13_sqrt_monotone.

Theorem C13_sqrt_negative_fails : forall d, d < 0 -> monotonic_sqrt d = Err ENegSqrt.
Proof. exact monotonic_sqrt_neg. Qed.
Print Assumptions C13_sqrt_negative_fails.

Theorem C13_sqrt_bigdec_least : forall d, 0 <= d -> exists r, monotonic_sqrt_bigdec d = Ok r /\
  0 <= r /\ d * P36 <= r * r /\ (forall s, 0 <= s -> d * P36 <= s * s -> r <= s) /\ (0 < r -> (r - 1) * (r - 1) < d * P36).
Proof. exact monotonic_sqrt_bigdec_ok. Qed.
Print Assumptions C13_sqrt_bigdec_least.

Theorem C13_sqrt_bigdec_monotone : forall d1 d2 r1 r2, d1 <= d2 ->
  monotonic_sqrt_bigdec d1 = Ok r1 -> monotonic_sqrt_bigdec d2 = Ok r2 -> r1 <= r2.
Proof. exact monotonic_sqrt_bigdec_mono. Qed.
Print Assumptions C13_sqrt_bigdec_monotone.

Theorem C13_sqrt_bigdec_negative_fails : forall d, d < 0 -> monotonic_sqrt_bigdec d = Err ENegSqrt.
Proof. exact monotonic_sqrt_bigdec_neg. Qed.
Print Assumptions C13_sqrt_bigdec_negative_fails.

Example C13_sqrt_nonvacuous :
  monotonic_sqrt (2 * P18) = Ok 1414213562373095049 /\ monotonic_sqrt (4 * P18) = Ok (2 * P18) /\
  monotonic_sqrt 1 = Ok (10 ^ 9) /\ monotonic_sqrt 0 = Ok 0 /\
  monotonic_sqrt_bigdec (2 * P36) = Ok 1414213562373095048801688724209698079 /\
  monotonic_sqrt (-1) = Err ENegSqrt.
Proof. vm_compute. repeat split. Qed.

(* ---------- significant-figure rounding (integers only, axiom-free) ---------- *)

(* SigFigRound d 10^s, d > 0.  With k the number of x10 scalings the loop performs - the least k with d*10^k >= 0.1
   (10^17 raw) - the last kept digit has unit 10^18/(10^s*10^k) raw units; the result r differs from d by at most half
   of it, and keeps no digit below it.  The only possible failure is the loud range panic. *)
Theorem C13_sigfig_half_unit : forall d s, 0 < d -> 0 <= s ->
  match sigfig_round d (10 ^ s) with
  | Ok r => exists k, 0 <= k <= 17 /\ 10 ^ 17 <= d * 10 ^ k /\ (0 < k -> d * 10 ^ (k - 1) < 10 ^ 17) /\
                      2 * (10 ^ s * 10 ^ k) * Z.abs (r - d) <= P18 /\
                      (s + k <= 18 -> exists m, r = m * 10 ^ (18 - s - k))
  | Err e => e = EOverflow
  end.
Proof. exact sigfig_round_bound. Qed.
Print Assumptions C13_sigfig_half_unit.

Theorem C13_sigfig_returns_in_range : forall d s, 0 < d -> 0 <= s <= 58 -> d * 10 ^ s <= 2 ^ 250 * P18 ->
  exists r, sigfig_round d (10 ^ s) = Ok r.
Proof. exact sigfig_round_ok. Qed.
Print Assumptions C13_sigfig_returns_in_range.

Theorem C13_sigfig_zero : forall s, sigfig_round 0 s = Ok 0.
Proof. exact sigfig_round_zero. Qed.
Print Assumptions C13_sigfig_zero.

(* a negative argument never leaves the scaling loop normally: the function panics ("Int overflow") *)
Theorem C13_sigfig_negative_fails : forall d s, d < 0 -> sigfig_round d s = Err EOverflow.
Proof. exact sigfig_round_negative_fails. Qed.
Print Assumptions C13_sigfig_negative_fails.

Example C13_sigfig_nonvacuous :
  sigfig_round 12345678912345678 (10 ^ 3) = Ok 12300000000000000 /\          (* 0.0123456... -> 0.0123 (k = 1) *)
  sigfig_round 1234500000000000000 (10 ^ 3) = Ok 1234000000000000000 /\      (* tie 1.2345 -> 1.234 (half-even) *)
  sigfig_round 1235500000000000000 (10 ^ 3) = Ok 1236000000000000000 /\
  sigfig_round 1 (10 ^ 30) = Ok 1 /\ sigfig_round (-5) 100 = Err EOverflow.
Proof. vm_compute. repeat split. Qed.
