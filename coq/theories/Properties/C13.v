(* C13 - Approximate math functions meet their stated error bounds and are monotone.
   Property theorems only; each is closed by a lemma of C13/*Proofs.v.  Raw mantissas throughout:
   a Dec value v is the integer v*10^18 (P18), a BigDec value the integer v*10^36 (P36). *)
From Coq Require Import ZArith List Bool Reals.
Import ListNotations.
From Osmo Require Import Base.DecModel C13.Common C13.Sqrt C13.SqrtProofs C13.SigFig C13.SigFigProofs
  C13.BinSearch C13.BinSearchProofs C13.Exp2 C13.Exp2Real C13.Exp2Proofs
  C13.Log2 C13.Log2Proofs C13.Log2Total C13.Pow C13.PowProofs Gen.C13_consts.
Open Scope Z_scope.
(* one line per axiom in the Print Assumptions output, so that the check's parser sees every name *)
Set Printing Width 4000.

(* ---------- monotone square roots (integers only, axiom-free) ---------- *)

(* MonotonicSqrt returns the least representable (non-negative, 18-decimal) value whose square is at least the
   input: with raw mantissas, (r/10^18)^2 >= d/10^18  <->  r*r >= d*10^18 *)
Theorem C13_sqrt_least : forall d, 0 <= d -> exists r, monotonic_sqrt d = Ok r /\
  0 <= r /\ d * P18 <= r * r /\ (forall s, 0 <= s -> d * P18 <= s * s -> r <= s) /\ (0 < r -> (r - 1) * (r - 1) < d * P18).
Proof. exact monotonic_sqrt_ok. Qed.
Print Assumptions C13_sqrt_least.

Theorem C13_sqrt_monotone : forall d1 d2 r1 r2, d1 <= d2 ->
  monotonic_sqrt d1 = Ok r1 -> monotonic_sqrt d2 = Ok r2 -> r1 <= r2.
Proof. exact monotonic_sqrt_mono. Qed.
Print Assumptions C13_sqrt_monotone.

Theorem C13_sqrt_negative_fails : forall d, d < 0 -> monotonic_sqrt d = Err ENegSqrt.
Proof. exact monotonic_sqrt_neg. Qed.
Print Assumptions C13_sqrt_negative_fails.

Theorem C13_sqrt_bigdec_least : forall d, 0 <= d -> exists r, monotonic_sqrt_bigdec d = Ok r /\
  0 <= r /\ d * P36 <= r * r /\ (forall s, 0 <= s -> d * P36 <= s * s -> r <= s) /\ (0 < r -> (r - 1) * (r - 1) < d * P36).
Proof. exact monotonic_sqrt_bigdec_ok. Qed.
Print Assumptions C13_sqrt_bigdec_least.

Theorem C13_sqrt_bigdec_monotone : forall d1 d2 r1 r2, d1 <= d2 ->
  monotonic_sqrt_bigdec d1 = Ok r1 -> monotonic_sqrt_bigdec d2 = Ok r2 -> r1 <= r2.
Proof. exact monotonic_sqrt_bigdec_mono. Qed.
Print Assumptions C13_sqrt_bigdec_monotone.

Theorem C13_sqrt_bigdec_negative_fails : forall d, d < 0 -> monotonic_sqrt_bigdec d = Err ENegSqrt.
Proof. exact monotonic_sqrt_bigdec_neg. Qed.
Print Assumptions C13_sqrt_bigdec_negative_fails.

Example C13_sqrt_nonvacuous :
  monotonic_sqrt (2 * P18) = Ok 1414213562373095049 /\ monotonic_sqrt (4 * P18) = Ok (2 * P18) /\
  monotonic_sqrt 1 = Ok (10 ^ 9) /\ monotonic_sqrt 0 = Ok 0 /\
  monotonic_sqrt_bigdec (2 * P36) = Ok 1414213562373095048801688724209698079 /\
  monotonic_sqrt (-1) = Err ENegSqrt.
Proof. vm_compute. repeat split. Qed.

(* ---------- significant-figure rounding (integers only, axiom-free) ---------- *)

(* SigFigRound d 10^s, d > 0.  With k the number of x10 scalings the loop performs - the least k with d*10^k >= 0.1
   (10^17 raw) - the last kept digit has unit 10^18/(10^s*10^k) raw units; the result r differs from d by at most half
   of it, and keeps no digit below it.  The only possible failure is the loud range panic. *)
Theorem C13_sigfig_half_unit : forall d s, 0 < d -> 0 <= s ->
  match sigfig_round d (10 ^ s) with
  | Ok r => exists k, 0 <= k <= 17 /\ 10 ^ 17 <= d * 10 ^ k /\ (0 < k -> d * 10 ^ (k - 1) < 10 ^ 17) /\
                      2 * (10 ^ s * 10 ^ k) * Z.abs (r - d) <= P18 /\
                      (s + k <= 18 -> exists m, r = m * 10 ^ (18 - s - k))
  | Err e => e = EOverflow
  end.
Proof. exact sigfig_round_bound. Qed.
Print Assumptions C13_sigfig_half_unit.

Theorem C13_sigfig_returns_in_range : forall d s, 0 < d -> 0 <= s <= 58 -> d * 10 ^ s <= 2 ^ 250 * P18 ->
  exists r, sigfig_round d (10 ^ s) = Ok r.
Proof. exact sigfig_round_ok. Qed.
Print Assumptions C13_sigfig_returns_in_range.

Theorem C13_sigfig_zero : forall s, sigfig_round 0 s = Ok 0.
Proof. exact sigfig_round_zero. Qed.
Print Assumptions C13_sigfig_zero.

(* a negative argument never leaves the scaling loop normally: the function panics ("Int overflow") *)
Theorem C13_sigfig_negative_fails : forall d s, d < 0 -> sigfig_round d s = Err EOverflow.
Proof. exact sigfig_round_negative_fails. Qed.
Print Assumptions C13_sigfig_negative_fails.

Example C13_sigfig_nonvacuous :
  sigfig_round 12345678912345678 (10 ^ 3) = Ok 12300000000000000 /\          (* 0.0123456... -> 0.0123 (k = 1) *)
  sigfig_round 1234500000000000000 (10 ^ 3) = Ok 1234000000000000000 /\      (* tie 1.2345 -> 1.234 (half-even) *)
  sigfig_round 1235500000000000000 (10 ^ 3) = Ok 1236000000000000000 /\
  sigfig_round 1 (10 ^ 30) = Ok 1 /\ sigfig_round (-5) 100 = Err EOverflow.
Proof. vm_compute. repeat split. Qed.

(* ---------- tolerance comparison and binary searches (integers only, axiom-free) ---------- *)

(* [meets_tolerance unit ulp_den tol expected actual] (C13/BinSearchProofs.v) is the property's "meets the requested
   tolerance on the requested side": RoundDown -> actual <= expected; RoundUp -> expected <= actual; and, unless the two
   are equal, |expected-actual| <= AdditiveTolerance and |expected-actual|/min(|expected|,|actual|) < MultiplicativeTolerance
   + one ulp of the compared type (the implementation rounds the ratio before comparing).  Nil tolerances impose nothing. *)
Theorem C13_compare_int_sound : forall tol e a, compare_int tol e a = Ok 0 -> meets_tolerance 1 P18 tol e a.
Proof. exact compare_int_zero. Qed.
Print Assumptions C13_compare_int_sound.
Theorem C13_compare_dec_sound : forall tol e a, compare_dec tol e a = Ok 0 -> meets_tolerance P18 P18 tol e a.
Proof. exact compare_dec_zero. Qed.
Print Assumptions C13_compare_dec_sound.
Theorem C13_compare_bigdec_sound : forall tol e a, compare_bigdec tol e a = Ok 0 -> meets_tolerance P36 P36 tol e a.
Proof. exact compare_bigdec_zero. Qed.
Print Assumptions C13_compare_bigdec_sound.

(* for EVERY searched function f (monotone or not, failing or not), every bound pair, target, tolerance and iteration count:
   a returned input has an image that meets the tolerance on the requested side ... *)
Theorem C13_binary_search_sound : forall f n lo hi target tol x,
  binary_search f n lo hi target tol = Ok x ->
  exists y, f x = Ok y /\ compare_int tol target y = Ok 0 /\ meets_tolerance 1 P18 tol target y.
Proof. exact binary_search_ok. Qed.
Print Assumptions C13_binary_search_sound.
Theorem C13_binary_search_bigdec_sound : forall f n lo hi target tol x,
  binary_search_bigdec f n lo hi target tol = Ok x ->
  exists y, f x = Ok y /\ compare_bigdec tol target y = Ok 0 /\ meets_tolerance P36 P36 tol target y.
Proof. exact binary_search_bigdec_ok. Qed.
Print Assumptions C13_binary_search_bigdec_sound.

(* ... and lies between the bounds *)
Theorem C13_binary_search_in_range : forall f n lo hi target tol x, lo <= hi ->
  binary_search f n lo hi target tol = Ok x -> lo <= x <= hi.
Proof. exact binary_search_in_range. Qed.
Print Assumptions C13_binary_search_in_range.
Theorem C13_binary_search_bigdec_in_range : forall f n lo hi target tol x, lo <= hi ->
  binary_search_bigdec f n lo hi target tol = Ok x -> lo <= x <= hi.
Proof. exact binary_search_bigdec_in_range. Qed.
Print Assumptions C13_binary_search_bigdec_in_range.

(* non-convergence is reported only after exactly maxIterations probes, each of which was answered "outside the tolerance"
   (f's own failures and range panics are reported as such, not as non-convergence) *)
Theorem C13_binary_search_nonconvergence : forall f, (forall x, f x <> Err ENoConverge) -> forall n lo hi target tol,
  binary_search f n lo hi target tol = Err ENoConverge ->
  length (probes_int f n lo hi target tol) = n /\
  Forall (fun x => exists y c, f x = Ok y /\ compare_int tol target y = Ok c /\ c <> 0) (probes_int f n lo hi target tol).
Proof. exact binary_search_noconv. Qed.
Print Assumptions C13_binary_search_nonconvergence.
Theorem C13_binary_search_bigdec_nonconvergence : forall f, (forall x, f x <> Err ENoConverge) -> forall n lo hi target tol,
  binary_search_bigdec f n lo hi target tol = Err ENoConverge ->
  length (probes_bigdec f n lo hi target tol) = n /\
  Forall (fun x => exists y c, f x = Ok y /\ compare_bigdec tol target y = Ok c /\ c <> 0) (probes_bigdec f n lo hi target tol).
Proof. exact binary_search_bigdec_noconv. Qed.
Print Assumptions C13_binary_search_bigdec_nonconvergence.

Example C13_binary_search_nonvacuous :
  (* 3x+1 = 1501 on [0,1000], exact hit required: found x = 500 *)
  binary_search (search_fn_int 0 3 1 0) 50 0 1000 1501 (mkTol (Some 0) None RoundUnconstrained) = Ok 500 /\
  (* x^3 close to 10^9+5 within 1 percent from below (RoundDown: target >= image) *)
  binary_search (search_fn_int 1 1 0 0) 50 0 100000 (10 ^ 9 + 5) (mkTol None (Some (10 ^ 16)) RoundDown) = Ok 1000 /\
  (* no x with 3x+1 = 1500: non-convergence after 50 probes *)
  binary_search (search_fn_int 0 3 1 0) 50 0 1000 1500 (mkTol (Some 0) None RoundUnconstrained) = Err ENoConverge /\
  length (probes_int (search_fn_int 0 3 1 0) 50 0 1000 1500 (mkTol (Some 0) None RoundUnconstrained)) = 50%nat /\
  (* BigDec: 2.5*x = 10 within 10^-9 additive *)
  binary_search_bigdec (search_fn_bigdec 0 (25 * 10 ^ 35) 0 0) 100 0 (100 * P36) (10 * P36) (mkTol (Some (10 ^ 9)) None RoundUp)
    = Ok 4000000000087311491370201110839843750 /\
  (forall x, search_fn_int 0 3 1 0 x <> Err ENoConverge).
Proof.
  repeat split; try (vm_compute; reflexivity).
  intros x. unfold search_fn_int, int_check. cbn [Z.eqb]. destruct (int_fits _); discriminate.
Qed.

(* ---------- Exp2 (real analysis: the standard library's real-number axioms) ---------- *)

(* bdR z = IZR z / 10^36, the value of a raw BigDec mantissa; Rpower 2 y = exp (y * ln 2) = 2^y.
   On the whole documented domain 0 <= e <= 2^9 the result is within a relative 10^-19 (< the documented 10^-18) of 2^e:
   (a) Coq-Interval on the real rational function with the GENERATED coefficients (|h/(p 2^x) - 1| <= 10^-20 on [0,1]),
   (b) fixed-point error analysis of the 6 MulMut / 12 Mul / 12 AddMut / QuoMut of the model (<= 33 ulps of 10^-36),
   (c) the exact left shift by the integer part. *)
Theorem C13_exp2_relative_error : 
  (forall e r, exp2 e = Ok r ->
     (0 <= e <= 512 * P36)%Z /\ (Rabs (bdR r - Rpower 2 (bdR e)) <= 1 / 10 ^ 19 * Rpower 2 (bdR e))%R) /\
  (* ... and inside the documented domain Exp2 always returns: no bit-length assertion fires, the denominator is positive *)
  (forall e, 0 <= e <= 512 * P36 -> exists r, exp2 e = Ok r).
Proof. split; [exact exp2_bound|exact exp2_total]. Qed.
Print Assumptions C13_exp2_relative_error.

Theorem C13_exp2_negative_fails : forall e, e < 0 -> exp2 e = Err ENegExponent.
Proof. exact exp2_negative. Qed.
Print Assumptions C13_exp2_negative_fails.
Theorem C13_exp2_too_large_fails : forall e, 512 * P36 < e -> exp2 e = Err EExpTooLarge.
Proof. exact exp2_too_large. Qed.
Print Assumptions C13_exp2_too_large_fails.

Example C13_exp2_nonvacuous :
  exp2 (15 * 10 ^ 35) = Ok 2828427124746190097603377448419396158 /\          (* 2^1.5 = 2.8284271247461900976033774484193961571... *)
  exp2 0 = Ok P36 /\ exp2 (512 * P36) = Ok (2 ^ 512 * P36) /\ exp2 (512 * P36 + 1) = Err EExpTooLarge /\ exp2 (-1) = Err ENegExponent.
Proof. vm_compute. repeat split. Qed.

(* ---------- LogBase2 and the derived logarithms (real analysis) ---------- *)

(* log2R x = ln x / ln 2.  For every representable positive argument (bit length of the mantissa <= 1144, the bound
   osmomath asserts) the digit-by-digit logarithm is within 3300 ulps = 3.3e-33 of log2 x - inside the documented 1e-32:
   exact left-normalisation, <= 2 ulps per right-normalisation shift (<= 1144 shifts), and per squaring round one ulp for
   the truncated bit value plus the correctly rounded square; 2^-maxLog2Iterations for the unread tail. *)
Theorem C13_log2_error : forall x r, log_base2 x = Ok r -> (bitlen x <= 1144)%Z ->
  (0 < x)%Z /\ (Rabs (bdR r - log2R (bdR x)) <= 3300 * u36)%R /\ (Rabs (bdR r - log2R (bdR x)) <= 1 / 10 ^ 32)%R.
Proof.
  intros x r H Hb. destruct (log_base2_err x r H Hb) as [A B]. split; [exact A|split; [exact B|exact (log_base2_err_documented x r H Hb)]].
Qed.
Print Assumptions C13_log2_error.

(* derived logarithms = Quo by log2(base): the base-2 error scaled by the base change, with the divisor's own error
   (1 ulp for the stored constants - proved correctly rounded by Interval -, 3300 ulps for a computed one), plus one ulp
   for the final rounding *)
Theorem C13_derived_logs_error :
  (forall x r, ln_bigdec x = Ok r -> (bitlen x <= 1144)%Z ->
     (0 < x)%Z /\ (Rabs (bdR r - ln (bdR x)) <= (3300 * u36 + Rabs (ln (bdR x)) * u36) / (1 / ln 2 - u36) + u36)%R) /\
  (forall x r, tick_log x = Ok r -> (bitlen x <= 1144)%Z ->
     let C0 := log2R (10001 / 10000) in
     (0 < x)%Z /\ (Rabs (bdR r - log2R (bdR x) / C0) <= (3300 * u36 + Rabs (log2R (bdR x) / C0) * u36) / (C0 - u36) + u36)%R) /\
  (forall x base r, custom_base_log x base = Ok r -> (bitlen x <= 1144)%Z -> (bitlen base <= 1144)%Z ->
     let C0 := log2R (bdR base) in
     (0 < x)%Z /\ (0 < base)%Z /\ base <> P36 /\
     ((3300 * u36 < Rabs C0)%R ->
      (Rabs (bdR r - log2R (bdR x) / C0) <= (3300 * u36 + Rabs (log2R (bdR x) / C0) * (3300 * u36)) / (Rabs C0 - 3300 * u36) + u36)%R)).
Proof. split; [exact ln_bigdec_err|split; [exact tick_log_err|exact custom_base_log_err]]. Qed.
Print Assumptions C13_derived_logs_error.

Theorem C13_log2_domain_fails : forall x, x <= 0 -> log_base2 x = Err ELogDomain /\ ln_bigdec x = Err ELogDomain /\ tick_log x = Err ELogDomain.
Proof. intros x H. split; [apply log_base2_domain|split; [apply ln_bigdec_domain|apply tick_log_domain]]; assumption. Qed.
Print Assumptions C13_log2_domain_fails.
Theorem C13_custom_base_log_domain_fails : forall x base,
  (base <= 0 \/ base = P36 -> custom_base_log x base = Err ELogBase) /\
  (x <= 0 -> 0 < base -> base <> P36 -> custom_base_log x base = Err ELogDomain).
Proof. intros x base. split; [apply custom_base_log_base_domain|apply custom_base_log_arg_domain]. Qed.
Print Assumptions C13_custom_base_log_domain_fails.

(* every representable positive argument gets an answer: no range assertion fires, no loop bound of the model is hit
   (integers only, axiom-free) *)
Theorem C13_log2_total : forall x, 0 < x -> bitlen x <= 1144 ->
  (exists r, log_base2 x = Ok r) /\ (exists r, ln_bigdec x = Ok r) /\ (exists r, tick_log x = Ok r) /\
  (* CustomBaseLog returns too, unless the computed log2(base) is exactly 0 (base within 2^-119 of 1): then the division
     panics - loudly *)
  (forall base, 0 < base -> base <> P36 -> bitlen base <= 1144 ->
     exists r, custom_base_log x base = Ok r \/ (custom_base_log x base = Err EDivZero /\ log_base2 base = Ok 0)).
Proof.
  intros x H1 H2. split; [exact (log_base2_total x H1 H2)|split; [exact (ln_total x H1 H2)|split; [exact (tick_log_total x H1 H2)|]]].
  intros base H3 H4 H5. exact (custom_base_log_total x base H1 H2 H3 H4 H5).
Qed.
Print Assumptions C13_log2_total.

Example C13_log2_nonvacuous :
  log_base2 (3 * P36) = Ok 1584962500721156181453738943947816490 /\       (* log2 3 = 1.58496250072115618145373894394781650875... *)
  bitlen (3 * P36) <= 1144 /\ log_base2 0 = Err ELogDomain /\ custom_base_log 5 P36 = Err ELogBase.
Proof. vm_compute. repeat split; discriminate. Qed.

(* ---------- Pow / PowApprox ---------- *)

(* the full statement for Pow - "fractional power to the documented power precision" on the documented domain 0 < base < 2 -
   is FALSE of the faithful model (and of the implementation: finding F4): the series is stopped when the last added term
   is below 10^-8, which bounds the remainder only for base >= 0.5 *)
Definition C13_pow_full : Prop := C13_pow_full_statement.
(* and "outside the domain the functions fail loudly instead of returning a wrong number" is false for exponents <= -1
   (finding F9): Pow(0.5, -1) = 0 *)
Definition C13_pow_fails_loudly : Prop := C13_pow_negative_exponent_statement.
Theorem C13_pow_full_refuted : ~ C13_pow_full /\ ~ C13_pow_fails_loudly.
Proof. split; [exact pow_full_refuted|exact pow_negative_exponent_refuted]. Qed.
Print Assumptions C13_pow_full_refuted.

(* what IS proved about Pow (partial: no error bound for 0.5 <= base < 2 is proved in Coq - it would need the binomial
   series identity and an accumulation bound for up to powIterationLimit rounded rounds; that range is covered by the
   oracle against a 700-bit reference on every run, and by bit-exact correspondence of this model): *)
Theorem C13_pow_domain_partial : forall base exp,
  (base <= 0 -> pow base exp = Err EPowBaseLE0) /\ (2 * P18 <= base -> pow base exp = Err EPowBaseGE2) /\
  (forall prec, base <= 0 -> pow_approx base exp prec = Err EPowBaseLE0).
Proof.
  intros base exp. split; [apply pow_base_nonpositive|split; [apply pow_base_ge_two|intros; apply pow_approx_base_nonpositive; assumption]].
Qed.
Print Assumptions C13_pow_domain_partial.

(* the series loop stops by itself (precision reached, term rounded to zero, or the loud iteration-limit panic):
   the model's fuel is never exhausted, for any argument *)
Theorem C13_pow_series_terminates : forall exp x xneg prec st,
  loop_pos (Z.to_pos pow_iteration_limit) (pow_step exp x xneg prec) (1, P18, P18, false) <> inl st.
Proof. exact pow_series_never_out_of_fuel. Qed.
Print Assumptions C13_pow_series_terminates.

(* an exponent without fractional part: exactly the LegacyDec square-and-multiply power *)
Theorem C13_pow_integer_exponent : forall base n, 0 < base < 2 * P18 -> 0 <= n < 2 ^ 63 ->
  pow base (n * P18) = dc_power base n.
Proof. exact pow_integer_exponent. Qed.
Print Assumptions C13_pow_integer_exponent.

Example C13_pow_nonvacuous :
  pow (15 * 10 ^ 17) (15 * 10 ^ 17) = Ok 1837117307087383574 /\        (* 1.5^1.5 = 1.8371173070873836 *)
  pow (3 * 10 ^ 17) (3 * 10 ^ 17) = Ok 696845320001282408 /\             (* F4 witness: 0.3^0.3 = 0.696845301935949..., off by 1.8e-8 *)
  pow (5 * 10 ^ 17) (- P18) = Ok 0 /\                                   (* F9 witness *)
  pow (2 * P18) P18 = Err EPowBaseGE2 /\ pow 0 P18 = Err EPowBaseLE0 /\
  pow (15 * 10 ^ 17) (3 * P18) = dc_power (15 * 10 ^ 17) 3.
Proof. vm_compute. repeat split. Qed.

(* ---------- Pow / PowApprox: error bound for 1/2 <= base < 2 (C13/PowSeries.v PowBound.v PowSqrt.v PowInt.v PowLift.v) ----------
   This supersedes the remark above that no error bound is proved on that range.  Route: the real binomial series
   (1+x)^a = sum_n C(a,n) x^n (|x| < 1, 0 <= a <= 1; Coquelicot power series, ODE (1+x) S' = a S, mean value theorem) with the
   remainder below the first omitted term for 0 <= x < 1 (alternating) and below twice it for -1/2 <= x <= 0 (geometric);
   every round of the loop adds at most 2 ulp to the signed term, and the error of the running sum after k rounds is at most
   2k ulp (x >= 0: consecutive sum errors bracket the next one) resp. 4k ulp (x < 0); k < powIterationLimit.
   The exponent-1/2 shortcut (LegacyDec.ApproxSqrt, Newton) is within 5 ulp.  The integer power LegacyDec.Power(n) is within
   2 n max(1,b)^n ulp for n <= 2^28. *)
From Osmo Require Import C13.PowSeries C13.PowBound C13.PowSqrt C13.PowInt C13.PowLift.
Open Scope Z_scope.

(* PowApprox(base, exp, precision), contract 0 <= exp < 1, for 1/2 <= base < 2 and any precision in [0, 1]: a returned value
   is within precision + 1e-12 of base^exp (all exponents, including the ApproxSqrt shortcut at exp = 1/2).  The "Ok" premise
   is essential: for base close to 2 the loop panics loudly at powIterationLimit. *)
Theorem C13_pow_approx_bound : forall base exp prec r,
  P18 <= 2 * base -> base < 2 * P18 -> 0 <= exp < P18 -> 0 <= prec <= P18 ->
  pow_approx base exp prec = Ok r ->
  (Rabs (dR r - Rpower (dR base) (dR exp)) <= dR prec + / 10 ^ 12)%R.
Proof. exact pow_approx_bound_all. Qed.
Print Assumptions C13_pow_approx_bound.

(* Pow(base, exp) for 1/2 <= base < 2, exp >= 0:
   (1) exp < 1: within 1e-8 + 1e-12 of base^exp  (the documented power precision 1e-8, up to accumulated rounding);
   (2) integer part n <= 2^28: within max(1,base)^n * (1e-8 + 1e-12 + 5 n ulp) + 1/2 ulp of base^exp
       - "the documented precision scaled by the integer power";
   (3) any exp >= 0: Pow is the rounded product of the LegacyDec integer power ip = base.Power(n) and a fractional power within
       1e-8 + 1e-12 of base^frac(exp). *)
Theorem C13_pow_bound : forall base exp r,
  P18 <= 2 * base -> base < 2 * P18 -> 0 <= exp -> pow base exp = Ok r ->
  (exp < P18 -> (Rabs (dR r - Rpower (dR base) (dR exp)) <= 1 / 10 ^ 8 + 1 / 10 ^ 12)%R) /\
  (Z.quot exp P18 <= 2 ^ 28 ->
     let n := Z.to_nat (Z.quot exp P18) in
     (Rabs (dR r - Rpower (dR base) (dR exp)) <=
      Rmax 1 (dR base) ^ n * (1 / 10 ^ 8 + 1 / 10 ^ 12 + 5 * INR n * / 10 ^ 18) + / 10 ^ 18 / 2)%R) /\
  (exists ip, dc_power base (Z.quot exp P18) = Ok ip /\
     (Rabs (dR r - dR ip * Rpower (dR base) (dR (Z.rem exp P18))) <=
      Rabs (dR ip) * (1 / 10 ^ 8 + 1 / 10 ^ 12) + / 10 ^ 18 / 2)%R).
Proof.
  intros base exp r H1 H2 H3 H. rewrite <- pow_err_val. replace (/ 10 ^ 18)%R with u18 by (unfold u18; rewrite T18_val; reflexivity).
  split; [intros H4; apply pow_bound_fractional; try assumption; split; assumption|].
  split; [intros H4; apply pow_bound_full; assumption|apply pow_bound_product; assumption].
Qed.
Print Assumptions C13_pow_bound.

(* the two ingredients with their own (much smaller) bounds: the ApproxSqrt shortcut and the integer power *)
Theorem C13_pow_parts_bound :
  (forall d r, P18 <= 2 * d -> d < 2 * P18 -> approx_sqrt d = Ok r ->
     (Rabs (dR r - sqrt (dR d)) <= 5 * / 10 ^ 18)%R) /\
  (forall base n ip, 0 < base -> 0 < n <= 2 ^ 28 -> dc_power base n = Ok ip ->
     (Rabs (dR ip - dR base ^ Z.to_nat n) <= 2 * IZR n * Rmax 1 (dR base) ^ Z.to_nat n * / 10 ^ 18)%R).
Proof.
  replace (/ 10 ^ 18)%R with u18 by (unfold u18; rewrite T18_val; reflexivity).
  split; [exact approx_sqrt_bound|intros base n ip Hb Hn; exact (dc_power_bound base Hb n Hn ip)].
Qed.
Print Assumptions C13_pow_parts_bound.

Example C13_pow_bound_nonvacuous :
  pow (5 * 10 ^ 17) (3 * 10 ^ 17) = Ok 812252404908473209 /\            (* 0.5^0.3 = 0.81225239635623..., off by 8.5e-9 *)
  pow_approx (199 * 10 ^ 16) (3 * 10 ^ 17) pow_precision = Ok 1229294450848366842 /\  (* 1.99^0.3 = 1.22929445578315..., off by 4.9e-9 *)
  pow_approx (15 * 10 ^ 17) pow_one_half pow_precision = Ok 1224744871391589049 /\    (* sqrt 1.5 = 1.2247448713915890490986... *)
  pow (15 * 10 ^ 17) (25 * 10 ^ 17) = Ok 2755675960631075360 /\         (* 1.5^2.5 = 2.75567596063107536047..., integer part 2 *)
  P18 <= 2 * (5 * 10 ^ 17) /\ 199 * 10 ^ 16 < 2 * P18 /\ 0 <= pow_precision <= P18.
Proof. vm_compute. repeat split; discriminate. Qed.
