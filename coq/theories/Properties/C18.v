(* C18 - Minting follows the emission schedule and every minted coin is allocated.
   Property theorems only; each is closed by a lemma from C18/Proofs.v or C18/ProofsRun.v.

   Model (C18/Model.v): [step cfg s (same_id, epoch)] is one AfterEpochEnd call of the mint keeper run atomically
   (state unchanged on error), [run] folds it over a history of calls.  [valid_cfg] is Params.Validate
   (proportions sum to one, weights positive and summing to one, factor in [0,1], period > 0, start >= 0).
   All theorems hold for every configuration, every initial state with a non-negative provision and every history. *)
From Coq Require Import ZArith List Bool.
Import ListNotations.
From Osmo Require Import Base.DecModel C18.Model C18.Proofs C18.ProofsRun C18.Witness C18.Liveness C18.AllOk.
Open Scope Z_scope.

(* ------------------------------------------------------------------------------------------------------------ *)
(* nothing is minted, moved or rescheduled before the start epoch, nor for a foreign epoch identifier *)
Theorem C18_nothing_before_start : forall cfg s same_id e,
  same_id = false \/ e < p_start cfg -> step cfg s (same_id, e) = (s, 0).
Proof. exact step_before_start. Qed.
Print Assumptions C18_nothing_before_start.

(* the mint module account is empty after every call of every history (it keeps whatever it held, i.e. nothing) *)
Theorem C18_mint_account_empty_after : forall cfg s calls,
  valid_cfg cfg -> 0 <= s_prov s -> bal (s_bank s) AMint = 0 ->
  bal (s_bank (run cfg s calls)) AMint = 0.
Proof. intros cfg s calls V Hp H0. rewrite run_mint_account by assumption. exact H0. Qed.
Print Assumptions C18_mint_account_empty_after.

(* split_amounts: at every call of every history that is a mint epoch end at or after the start epoch and succeeds,
   with M = integer part of the current provision (after a reduction that is due), dev = trunc(M * developer proportion):
   when DistributeMintedCoin reaches its hook (bank [b1]) the fee collector got exactly trunc(M*staking), the
   pool-incentives account exactly trunc(M*pool), every receiver address exactly the sum of trunc(dev*w) over its
   entries, the vesting account paid exactly these, and the community pool got the remainder
   M - staking - pool - dev (>= its own truncated share) plus the developer parts addressed to "" (all of dev when
   there are no receivers); the mint account is as before; the hook then only forwards pool-incentives funds
   ([hook_rel]: other accounts, supply and offset untouched, pool + incentives + distribution conserved). *)
Theorem C18_split_amounts : forall cfg s calls pre c post,
  valid_cfg cfg -> 0 <= s_prov s -> calls = pre ++ c :: post ->
  let sj := run cfg s pre in
  let sj' := fst (step cfg sj c) in
  fst c = true -> p_start cfg <= snd c -> snd (step cfg sj c) = 0 ->
  let M := minted_at cfg sj (snd c) in
  M = d_truncate_int (s_prov sj') /\
  exists b1, minted_epoch cfg M (s_bank sj) b1 (s_bank sj').
Proof. exact split_amounts. Qed.
Print Assumptions C18_split_amounts.
Print minted_epoch.
Print hook_rel.

(* the same, read off the final state of the call: exact amounts for staking rewards, receivers and the vesting
   account; pool incentives + incentives + community pool together hold the rest *)
Theorem C18_split_final : forall cfg s e s',
  valid_cfg cfg -> 0 <= s_prov s -> p_start cfg <= e -> after_epoch_end cfg s true e = Ok s' ->
  let M := minted_at cfg s e in
  let b := s_bank s in let b' := s_bank s' in
  bal b' AFee = bal b AFee + share M (p_staking cfg) /\
  (forall i, bal b' (ARecv i) = bal b (ARecv i) + paid_to i (dev_of cfg M) (p_recv cfg)) /\
  bal b' AVest = bal b AVest - dev_paid cfg (dev_of cfg M) /\
  bal b' APool + bal b' AInc + bal b' ADistr =
    bal b APool + bal b AInc + bal b ADistr + share M (p_pool cfg) + comm_of cfg M + dev_to_community cfg (dev_of cfg M) /\
  cpool b' - bal b' ADistr = cpool b - bal b ADistr /\
  share M (p_comm cfg) <= comm_of cfg M /\
  bal b' AMint = bal b AMint.
Proof. exact split_final. Qed.
Print Assumptions C18_split_final.

(* the community pool really keeps the remainder: in the final state of a successful minting epoch the distribution
   module account and its community-pool entry hold at least remainder + developer parts addressed to it, the remainder
   is at least the pool's own truncated share, and the hook only moves pool-incentives funds onwards *)
Theorem C18_community_gets_remainder : forall cfg s e s',
  valid_cfg cfg -> 0 <= s_prov s -> p_start cfg <= e -> 0 <= bal (s_bank s) APool ->
  after_epoch_end cfg s true e = Ok s' ->
  let M := minted_at cfg s e in
  let b := s_bank s in let b' := s_bank s' in
  bal b ADistr + comm_of cfg M + dev_to_community cfg (dev_of cfg M) <= bal b' ADistr /\
  cpool b + comm_of cfg M + dev_to_community cfg (dev_of cfg M) <= cpool b' /\
  share M (p_comm cfg) <= comm_of cfg M /\
  bal b AInc <= bal b' AInc /\ 0 <= bal b' APool <= bal b APool + share M (p_pool cfg).
Proof. exact community_gets_remainder. Qed.
Print Assumptions C18_community_gets_remainder.

(* reduction_exactly_at: over consecutive successful epochs e0, e0+1, ... beginning no later than the start epoch
   (or within the first period after it with the marker on the start epoch: start epoch 0, first epoch 1),
   the provision is multiplied by the reduction factor at the epochs start + k*period (k >= 1) and at no other;
   after epoch e the provision is the initial one reduced (e - start) / period times and the marker sits on the grid *)
Theorem C18_reduction_exactly_at : forall cfg s e0 n,
  valid_cfg cfg -> history_start_ok cfg s e0 -> all_ok cfg s (consec e0 (S n)) ->
  let e := e0 + Z.of_nat n in
  let before := run cfg s (consec e0 n) in
  let after := run cfg s (consec e0 (S n)) in
  p_start cfg <= e ->
  (reduces cfg before e = true <-> exists k, 1 <= k /\ e = p_start cfg + k * p_period cfg) /\
  s_prov after = (if reduces cfg before e then d_mul (s_prov before) (p_factor cfg) else s_prov before) /\
  s_last after = p_start cfg + reductions_until cfg e * p_period cfg /\
  s_prov after = iter_reduce (Z.to_nat (reductions_until cfg e)) (p_factor cfg) (s_prov s).
Proof. exact reduction_exactly_at. Qed.
Print Assumptions C18_reduction_exactly_at.

(* the same with hypotheses on the initial state only: no or one pool-incentives record, creditable receivers, non-negative
   mint / pool-incentives balances and a vesting balance of at least (n+1) first developer shares make every one of the
   n+1 consecutive calls succeed (provisions never grow: factor <= 1) *)
Theorem C18_funded_history_succeeds : forall cfg, valid_cfg cfg -> simple_hook cfg -> no_blocked (p_recv cfg) ->
  forall n s e0, funded cfg s (Z.of_nat n) -> all_ok cfg s (consec e0 n).
Proof. exact funded_history_succeeds. Qed.
Print Assumptions C18_funded_history_succeeds.
Print funded.

Theorem C18_schedule_from_initial_state : forall cfg s e0 n,
  valid_cfg cfg -> simple_hook cfg -> no_blocked (p_recv cfg) ->
  history_start_ok cfg s e0 -> funded cfg s (Z.of_nat (S n)) ->
  let e := e0 + Z.of_nat n in
  let before := run cfg s (consec e0 n) in
  let after := run cfg s (consec e0 (S n)) in
  p_start cfg <= e ->
  (reduces cfg before e = true <-> exists k, 1 <= k /\ e = p_start cfg + k * p_period cfg) /\
  s_prov after = (if reduces cfg before e then d_mul (s_prov before) (p_factor cfg) else s_prov before) /\
  s_last after = p_start cfg + reductions_until cfg e * p_period cfg /\
  s_prov after = iter_reduce (Z.to_nat (reductions_until cfg e)) (p_factor cfg) (s_prov s).
Proof. exact schedule_from_initial_state. Qed.
Print Assumptions C18_schedule_from_initial_state.

(* bank_supply_delta and reported_supply_delta for one successful minting epoch:
   bank supply grows by minted - dev (the developer share is burnt and paid from the vesting account);
   supply + offset grows by minted - r with r = dev - sum_i trunc(dev * w_i), 0 <= r < #receivers, r = 0 without receivers *)
Theorem C18_bank_supply_delta : forall cfg s e s',
  valid_cfg cfg -> 0 <= s_prov s -> p_start cfg <= e -> after_epoch_end cfg s true e = Ok s' ->
  supply (s_bank s') = supply (s_bank s) + minted_at cfg s e - dev_of cfg (minted_at cfg s e).
Proof. exact bank_supply_delta. Qed.
Print Assumptions C18_bank_supply_delta.

Theorem supply_growth_partial : forall cfg s e s',
  valid_cfg cfg -> 0 <= s_prov s -> p_start cfg <= e -> after_epoch_end cfg s true e = Ok s' ->
  let M := minted_at cfg s e in
  let r := dev_of cfg M - dev_paid cfg (dev_of cfg M) in
  reported s' = reported s + M - r /\
  0 <= r /\ (p_recv cfg = [] -> r = 0) /\ (p_recv cfg <> [] -> r < Z.of_nat (length (p_recv cfg))).
Proof. exact reported_supply_delta. Qed.
Print Assumptions supply_growth_partial.

(* the same summed over any history: with m = total minted, d = total developer share, rr = total remainder and
   k minting epochs, supply = supply0 + m - d, supply + offset = reported0 + m - rr, 0 <= rr <= k * (#receivers - 1) *)
Theorem C18_cumulative_supply : forall cfg calls s,
  valid_cfg cfg -> 0 <= s_prov s ->
  let '(m, d, rr, k) := totals cfg s calls in
  supply (s_bank (run cfg s calls)) = supply (s_bank s) + m - d /\
  reported (run cfg s calls) = reported s + m - rr /\
  0 <= rr /\ (p_recv cfg = [] -> rr = 0) /\
  rr <= k * (Z.of_nat (length (p_recv cfg)) - 1) + (if p_recv cfg then k else 0) /\ 0 <= k.
Proof. exact cumulative_supply. Qed.
Print Assumptions C18_cumulative_supply.

(* "exactly the integer part ... is put into circulation" also needs the call to succeed: with a valid configuration,
   non-negative mint / pool-incentives balances, creditable receivers, a vesting balance covering the developer share,
   and pool-incentives allocations that fit into what the module then holds, AfterEpochEnd cannot fail *)
Theorem C18_no_spurious_failure : forall cfg s e,
  valid_cfg cfg -> 0 <= s_prov s -> p_start cfg <= e ->
  let M := minted_at cfg s e in
  let b := s_bank s in
  0 <= bal b AMint -> 0 <= bal b APool ->
  no_blocked (p_recv cfg) ->
  dev_of cfg M <= bal b AVest ->
  hook_fits cfg (bal b APool + share M (p_pool cfg)) ->
  exists s', after_epoch_end cfg s true e = Ok s'.
Proof. exact no_spurious_failure. Qed.
Print Assumptions C18_no_spurious_failure.

(* the hook hypothesis holds when there are no records or a single record ... *)
Theorem C18_hook_fits_simple : forall cfg asset,
  (d_total cfg = 0 -> hook_fits cfg asset) /\
  (forall g w, d_records cfg = [(g, w)] -> d_total cfg = w -> 0 < w -> 0 <= asset -> hook_fits cfg asset).
Proof. intros cfg asset; split; [apply no_records_fits|intros g w; apply single_record_fits]. Qed.
Print Assumptions C18_hook_fits_simple.

(* ... and cannot be dropped: finding F9 (three records 535/2/3, provisions 10^19: the hook panics, nothing is minted) *)
Theorem C18_hook_hypothesis_needed : ~ succeeds_given_vesting.
Proof. exact succeeds_given_vesting_refuted. Qed.
Print Assumptions C18_hook_hypothesis_needed.

(* ------------------------------------------------------------------------------------------------------------ *)
(* The property as stated: every call of every history behaves as above AND the reported supply grows by exactly the
   minted amount.  The last conjunct is false of the faithful model (finding F3). *)
Definition exact_supply_growth : Prop :=
  forall cfg s calls pre c post,
    valid_cfg cfg -> 0 <= s_prov s -> calls = pre ++ c :: post ->
    let sj := run cfg s pre in
    mints cfg sj c = true ->
    reported (fst (step cfg sj c)) = reported sj + minted_at cfg sj (snd c).

Definition C18_full : Prop :=
  (forall cfg s calls pre c post, valid_cfg cfg -> 0 <= s_prov s -> calls = pre ++ c :: post ->
     call_spec cfg (run cfg s pre) c) /\
  (forall cfg s calls, valid_cfg cfg -> 0 <= s_prov s -> bal (s_bank s) AMint = 0 ->
     bal (s_bank (run cfg s calls)) AMint = 0) /\
  (forall cfg s e0 n, valid_cfg cfg -> history_start_ok cfg s e0 -> all_ok cfg s (consec e0 (S n)) ->
     let e := e0 + Z.of_nat n in p_start cfg <= e ->
     (reduces cfg (run cfg s (consec e0 n)) e = true <-> exists k, 1 <= k /\ e = p_start cfg + k * p_period cfg)) /\
  exact_supply_growth.

(* everything except the last conjunct is proved (the last one is replaced by supply_growth_partial with the tight
   bound 0 <= r < #receivers) *)
Theorem C18_partial :
  (forall cfg s calls pre c post, valid_cfg cfg -> 0 <= s_prov s -> calls = pre ++ c :: post ->
     call_spec cfg (run cfg s pre) c) /\
  (forall cfg s calls, valid_cfg cfg -> 0 <= s_prov s -> bal (s_bank s) AMint = 0 ->
     bal (s_bank (run cfg s calls)) AMint = 0) /\
  (forall cfg s e0 n, valid_cfg cfg -> history_start_ok cfg s e0 -> all_ok cfg s (consec e0 (S n)) ->
     let e := e0 + Z.of_nat n in p_start cfg <= e ->
     (reduces cfg (run cfg s (consec e0 n)) e = true <-> exists k, 1 <= k /\ e = p_start cfg + k * p_period cfg)).
Proof.
  split; [intros; eapply every_call_of_every_history; eassumption|].
  split; [exact C18_mint_account_empty_after|].
  intros cfg s e0 n V He0 Hok e Hs. apply (reduction_exactly_at cfg s e0 n V He0 Hok Hs).
Qed.
Print Assumptions C18_partial.

(* witness of finding F3 (C18/Witness.v): default proportions 0.4/0.3/0.2/0.1, three receivers with weights
   0.333333333333333333 / 0.333333333333333333 / 0.333333333333333334, provisions 1000003.7:
   minted 1000003, dev 200000, each receiver 66666, r = 2: supply + offset grows by 1000001.
   The same case is replayed on the implementation on every run (props/c18.py WITNESS). *)
Theorem supply_exact_refuted : ~ exact_supply_growth.
Proof.
  intros H. specialize (H w_cfg w_state [(true, 1)] [] (true, 1) [] w_cfg_valid w_prov eq_refl w_mints).
  cbn [run snd] in H. rewrite w_reported_after, w_reported_expected in H. discriminate H.
Qed.
Print Assumptions supply_exact_refuted.

Theorem C18_full_refuted : ~ C18_full.
Proof. intros [_ [_ [_ H]]]. exact (supply_exact_refuted H). Qed.
Print Assumptions C18_full_refuted.

(* ------------------------------------------------------------------------------------------------------------ *)
(* non-vacuity *)

(* the hypotheses of the per-epoch theorems are met by the witness, the call succeeds, and the split is non-trivial *)
Example C18_nonvacuous_epoch :
  valid_cfg w_cfg /\ 0 <= s_prov w_state /\ p_start w_cfg <= 1 /\
  (exists s', after_epoch_end w_cfg w_state true 1 = Ok s' /\
     bal (s_bank s') AFee = 400001 /\ bal (s_bank s') (ARecv 2) = 66666 /\ cpool (s_bank s') = 400002 /\
     bal (s_bank s') AMint = 0 /\ supply (s_bank s') = 225000000800003) /\
  minted_at w_cfg w_state 1 = 1000003 /\ dev_remainder w_cfg 1000003 = 2.
Proof. exact w_epoch. Qed.

(* a schedule that really reduces: start 2, period 3, factor 0.666666666666666667, history of 12 consecutive epochs
   from epoch 1; all calls succeed, reductions fall on epochs 5, 8 and 11 and on no other *)
Example C18_nonvacuous_schedule :
  valid_cfg nv_cfg /\ 1 <= p_start nv_cfg /\ all_ok nv_cfg nv_state (consec 1 12) /\
  map (fun n => reduces nv_cfg (run nv_cfg nv_state (consec 1 n)) (1 + Z.of_nat n)) (seq 0 12)
    = [false; false; false; false; true; false; false; true; false; false; true; false] /\
  s_prov (run nv_cfg nv_state (consec 1 12)) = 243531202435312024718417 /\
  s_last (run nv_cfg nv_state (consec 1 12)) = 11.
Proof. exact nv_schedule. Qed.

(* the default-chain shape (start epoch 0, first epoch 1, marker 0): the history starts after the start epoch, the
   generalised starting condition holds, reductions fall on epochs 2, 4, 6 *)
Example C18_nonvacuous_schedule_default_chain :
  valid_cfg nv0_cfg /\ history_start_ok nv0_cfg w_state 1 /\ ~ 1 <= p_start nv0_cfg /\
  all_ok nv0_cfg w_state (consec 1 6) /\
  map (fun n => reduces nv0_cfg (run nv0_cfg w_state (consec 1 n)) (1 + Z.of_nat n)) (seq 0 6)
    = [false; true; false; true; false; true] /\
  s_prov (run nv0_cfg w_state (consec 1 6)) = 125000462500000000000000.
Proof. exact nv0_schedule. Qed.

(* the hypotheses of C18_schedule_from_initial_state are met by the F3 witness state for 1000 consecutive epochs *)
Example C18_nonvacuous_funded : valid_cfg w_cfg /\ simple_hook w_cfg /\ no_blocked (p_recv w_cfg) /\
  history_start_ok w_cfg w_state 1 /\ funded w_cfg w_state 1000.
Proof. exact w_funded. Qed.
