(* C18 - Minting follows the emission schedule and every minted coin is allocated.
   Property theorems only; each is closed by a lemma from C18/Proofs.v. *)
From Coq Require Import ZArith List Bool.
Import ListNotations.
From Osmo Require Import Base.DecModel C18.Model C18.Proofs.
Open Scope Z_scope.

(* nothing is minted, moved or rescheduled before the start epoch, nor for a foreign epoch identifier *)
Theorem C18_nothing_before_start : forall cfg s same_id e,
  same_id = false \/ e < p_start cfg -> step cfg s (same_id, e) = (s, 0).
Proof. exact step_before_start. Qed.
Print Assumptions C18_nothing_before_start.
