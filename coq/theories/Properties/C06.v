(* C06 - Lockup: locked funds are safe, time-locked, and exactly indexed.
   Property theorems only; each is closed by a lemma from C06/Proofs*.v.

   Histories: any finite list of operations (Model.op: MsgLockTokens incl. the add-to-existing-lock path,
   AddTokensToLockByID, MsgExtendLockup, MsgBeginUnlocking full / partial (SplitLock), MsgBeginUnlockingAll,
   UnlockMaturedLock, WithdrawMaturedLocks, EndBlocker, MsgSetRewardReceiverAddress, MsgForceUnlock, block-time
   advance - a block-time decrease is refused, so block times are monotone) by any senders other than the module
   account, with any arguments, from any genesis with funded accounts and nothing locked; every handler runs
   atomically ([step]).  [reachable t0 fund allowed ops] is the state after the history. *)
From Coq Require Import ZArith List Bool Lia.
Import ListNotations.
From Osmo Require Import C06.Model C06.Proofs C06.ProofsAcc C06.ProofsRefs C06.ProofsQuery C06.ProofsCons C06.ProofsTime C06.ProofsEvol C06.ProofsRelease C06.ProofsGenesis.
Open Scope Z_scope.

(* the lockup module account holds exactly the sum of all live locks' coins *)
Theorem C06_module_balance_eq_sum_locks : forall t0 fund allowed ops dn, Forall op_sender_ok ops ->
  let s := run (init_state t0 fund allowed) ops in
  s_bal s module_acc dn = coins_of (s_locks s) dn.
Proof. exact module_balance_eq_sum_locks. Qed.
Print Assumptions C06_module_balance_eq_sum_locks.

(* for every denomination (not the empty string, which is no denomination) and every duration d >= 0:
   GetPeriodLocksAccumulation(denom, d) = sum over the live locks of that denomination with duration >= d *)
Theorem C06_accum_eq : forall t0 fund allowed ops dn d, Forall op_sender_ok ops -> dn <> 0 -> 0 <= d ->
  let s := run (init_state t0 fund allowed) ops in
  get_period_locks_accumulation s dn d = locked_longer (s_locks s) dn d.
Proof. exact accum_eq. Qed.
Print Assumptions C06_accum_eq.

(* the reference entries are exactly (key, id) for the live locks id and the keys lockRefKeys / durationLockRefKeys
   generate for them under the unlocking / not-unlocking prefix; no entry twice *)
Theorem C06_refs_exact : forall t0 fund allowed ops, 0 < t0 -> Forall op_sender_ok ops ->
  let s := reachable t0 fund allowed ops in
  NoDup (s_refs s) /\
  forall k id, In (k, id) (s_refs s) <-> exists l, In l (s_locks s) /\ l_id l = id /\ In k (ref_keys l).
Proof. exact refs_exact. Qed.
Print Assumptions C06_refs_exact.

(* hence every iterator of iterator.go - each is [iterate] over one key family (unlocking?, kind, account, denom) with a
   value predicate (all / end time after t / end time <= t / duration = d / >= d / < d) - returns exactly, and once each,
   the live locks that match, and getLocksFromIterator finds a record for every returned id (never panics) *)
Theorem C06_queries_exact : forall t0 fund allowed ops unl kd acc dn p, 0 < t0 -> Forall op_sender_ok ops ->
  let s := reachable t0 fund allowed ops in
  (forall id, In id (iterate (s_refs s) unl kd acc dn p) <-> In id (map l_id (filter (matches unl kd acc dn p) (s_locks s))))
  /\ NoDup (iterate (s_refs s) unl kd acc dn p)
  /\ exists ls, locks_of_ids s (iterate (s_refs s) unl kd acc dn p) = Ok ls /\ map l_id ls = iterate (s_refs s) unl kd acc dn p.
Proof. exact queries_exact. Qed.
Print Assumptions C06_queries_exact.

(* the invariant behind these statements holds in every reachable state ... *)
Theorem C06_invariant_reachable : forall t0 fund allowed ops, 0 < t0 -> Forall op_sender_ok ops -> Inv (reachable t0 fund allowed ops).
Proof. exact reachable_Inv. Qed.
Print Assumptions C06_invariant_reachable.

(* ... and under it the query functions of store.go (each concatenates the locks of one or two iterators) never fail and return
   exactly the locks of those iterators *)
Theorem C06_store_queries : forall s a dn d t, Inv s ->
  (exists ls, q_account_locked_past_time s a t = Ok ls /\
     map l_id ls = it_acc_longer_duration s false a (past_duration s t) ++ it_acc_after_time s a t) /\
  (exists ls, q_account_locked_past_time_denom s a dn t = Ok ls /\
     map l_id ls = it_acc_longer_duration_denom s false a dn (past_duration s t) ++ it_acc_after_time_denom s a dn t) /\
  (exists ls, q_account_unlocked_before_time s a t = Ok ls /\
     map l_id ls = if t <? s_now s then it_acc_before_time s a t
                   else it_acc_shorter_duration s false a (t - s_now s) ++ it_acc_before_time s a t) /\
  (exists ls, q_account_locked_longer_duration s a d = Ok ls /\
     map l_id ls = it_acc_longer_duration s false a d ++ it_acc_longer_duration s true a d) /\
  (exists ls, q_account_locked_duration s a d = Ok ls /\
     map l_id ls = it_acc_duration s true a d ++ it_acc_duration s false a d) /\
  (exists ls, q_account_locked_longer_duration_denom s a dn d = Ok ls /\
     map l_id ls = it_acc_longer_duration_denom s false a dn d ++ it_acc_longer_duration_denom s true a dn d) /\
  (exists ls, q_account_locked_duration_not_unlocking_only s a dn d = Ok ls /\
     map l_id ls = it_acc_duration_denom s false a dn d) /\
  (exists ls, q_locks_past_time_denom s dn t = Ok ls /\
     map l_id ls = it_lock_longer_duration_denom s false dn (past_duration s t) ++ it_lock_after_time_denom s dn t) /\
  (exists ls, q_locks_longer_than_duration_denom s dn d = Ok ls /\
     map l_id ls = it_lock_longer_duration_denom s false dn d ++ it_lock_longer_duration_denom s true dn d) /\
  (exists ls, q_period_locks s = Ok ls /\ map l_id ls = it_lock s false ++ it_lock s true) /\
  (exists ls, q_account_period_locks s a = Ok ls /\ map l_id ls = it_acc s false a ++ it_acc s true a) /\
  (exists ls, q_account_locked_coins s a = Ok ls /\ map l_id ls = it_acc s false a ++ it_acc_after_time s a (s_now s)) /\
  (exists ls, q_account_unlockable_coins s a = Ok ls /\ map l_id ls = it_acc_before_time s a (s_now s)) /\
  (exists ls, q_account_unlocking_coins s a = Ok ls /\ map l_id ls = it_acc_after_time s a (s_now s)) /\
  (exists ls, q_module_locked_coins s = Ok ls /\ map l_id ls = it_lock s false ++ it_lock_after_time s (s_now s)).
Proof. exact store_queries_ok. Qed.
Print Assumptions C06_store_queries.

(* the ids of a composite = concatenation of a not-unlocking and an unlocking iterator: every lock matching either, exactly once *)
Theorem C06_composite_exact : forall s u1 k1 a1 d1 p1 k2 a2 d2 p2, Inv s ->
  let ids := iterate (s_refs s) u1 k1 a1 d1 p1 ++ iterate (s_refs s) (negb u1) k2 a2 d2 p2 in
  NoDup ids /\
  forall id, In id ids <-> In id (map l_id (filter (fun l => matches u1 k1 a1 d1 p1 l || matches (negb u1) k2 a2 d2 p2 l) (s_locks s))).
Proof. exact concat_exact. Qed.
Print Assumptions C06_composite_exact.

(* spelled out for GetLocksLongerThanDurationDenom, the query the module's own accumulation invariant sums over *)
Theorem C06_locks_longer_than_duration_denom : forall s dn d, Inv s ->
  exists ls, q_locks_longer_than_duration_denom s dn d = Ok ls /\ NoDup (map l_id ls) /\
  forall l, In l ls <-> In l (s_locks s) /\ l_denom l = dn /\ dur_key d <= dur_key (l_dur l).
Proof. exact locks_longer_than_duration_denom_exact. Qed.
Print Assumptions C06_locks_longer_than_duration_denom.

(* two instances spelled out: AccountLockIteratorLongerDurationDenom and LockIteratorBeforeTime *)
Theorem C06_account_longer_duration_denom : forall t0 fund allowed ops unl a dn d id, 0 < t0 -> Forall op_sender_ok ops ->
  let s := reachable t0 fund allowed ops in
  In id (it_acc_longer_duration_denom s unl a dn d) <->
  exists l, In l (s_locks s) /\ l_id l = id /\ is_unlocking l = unl /\ l_owner l = a /\ l_denom l = dn /\ dur_key d <= dur_key (l_dur l).
Proof. exact account_longer_duration_denom_exact. Qed.
Print Assumptions C06_account_longer_duration_denom.

Theorem C06_lock_iterator_before_time : forall t0 fund allowed ops t id, 0 < t0 -> Forall op_sender_ok ops ->
  let s := reachable t0 fund allowed ops in
  In id (it_lock_before_time s t) <->
  exists l, In l (s_locks s) /\ l_id l = id /\ is_unlocking l = true /\ l_end l <= t.
Proof. exact lock_iterator_before_time_exact. Qed.
Print Assumptions C06_lock_iterator_before_time.

(* conservation: for every ordinary account and denomination, liquid balance + coins of its own live locks stays what it
   was funded with (a history contains no transfers other than locking and unlocking); one step and whole histories *)
Theorem C06_conservation_step : forall s o a dn, Inv0 s -> op_sender_ok o -> a <> module_acc ->
  wealth (fst (step s o)) a dn = wealth s a dn.
Proof. exact step_conservation. Qed.
Print Assumptions C06_conservation_step.
Theorem C06_conservation : forall t0 fund allowed ops a dn, Forall op_sender_ok ops -> a <> module_acc ->
  let s := run (init_state t0 fund allowed) ops in
  s_bal s a dn + lsum (co a dn) (s_locks s) = fund a dn.
Proof. exact conservation. Qed.
Print Assumptions C06_conservation.

(* owner only and not early: in any one operation after any history - except a force-unlock sent by a itself - the balance of
   account a grows by at most the coins of a's own locks that are unlocking and whose end time is <= the block time.
   (With conservation and module_balance: coins leave the module account only towards the owner of a matured lock.) *)
Theorem C06_owner_only_and_not_early : forall t0 fund allowed ops o a dn, 0 < t0 -> Forall op_sender_ok ops -> op_sender_ok o ->
  a <> module_acc -> (forall id dn0 amt, o <> OForce a id dn0 amt) ->
  let s := reachable t0 fund allowed ops in
  s_bal (fst (step s o)) a dn <= s_bal s a dn + matured_amount s a dn.
Proof. exact not_early. Qed.
Print Assumptions C06_owner_only_and_not_early.

(* how a lock record may change in one operation, for every id i (x = record before, x' = record after):
   released, or: same owner and denomination; duration never shorter; a lock that was unlocking keeps end time and duration;
   a lock that was not unlocking either still is not, or its end time is now exactly block time + its duration;
   an id that did not exist is larger than every id used so far and is either not unlocking or ends at block time + duration.
   So an end time is set once, to (begin-unlock block time + duration), and a matured release ([C06_owner_only_and_not_early])
   cannot come before it. *)
Theorem C06_lock_evolution : forall t0 fund allowed ops o, Forall op_sender_ok ops ->
  let s := reachable t0 fund allowed ops in Evol s (fst (step s o)).
Proof. exact lock_evolution. Qed.
Print Assumptions C06_lock_evolution.

(* per lock: an operation other than a force-unlock makes a lock disappear only if it was unlocking and its end time has passed *)
Theorem C06_release_only_matured : forall s o s', handle s o = Ok s' -> (forall a id dn amt, o <> OForce a id dn amt) ->
  forall i l, get_lock (s_locks s) i = Some l -> get_lock (s_locks s') i = None ->
  is_unlocking l = true /\ l_end l <= s_now s.
Proof. exact handle_release. Qed.
Print Assumptions C06_release_only_matured.

(* the time-lock in one statement. [trace] runs a history and records for every lock id the block time bt(id) of the operation in
   which it (last) went from "absent or not unlocking" to "unlocking". After any history: if an operation other than a
   force-unlock makes lock i disappear, lock i was unlocking and block time >= bt(i) + its duration. *)
Theorem C06_time_lock : forall t0 fund allowed ops o i l, Forall op_sender_ok ops ->
  (forall a id dn amt, o <> OForce a id dn amt) ->
  let s := fst (trace (init_state t0 fund allowed) (fun _ => 0) ops) in
  let bt := snd (trace (init_state t0 fund allowed) (fun _ => 0) ops) in
  get_lock (s_locks s) i = Some l -> get_lock (s_locks (fst (step s o))) i = None ->
  is_unlocking l = true /\ bt i + l_dur l <= s_now s.
Proof. exact time_lock. Qed.
Print Assumptions C06_time_lock.

(* the exception is guarded: a force-unlock succeeds only for the lock's owner and only if the owner is on the allowed list *)
Theorem C06_force_only_allowed : forall s a id dn amt s', handle s (OForce a id dn amt) = Ok s' ->
  In a (s_allowed s) /\ exists l, get_lock (s_locks s) id = Some l /\ l_owner l = a.
Proof. exact force_only_allowed. Qed.
Print Assumptions C06_force_only_allowed.

(* UnlockMaturedLock is refused while block time < end time *)
Theorem C06_unlock_refused_early : forall s id l, get_lock (s_locks s) id = Some l -> s_now s < l_end l ->
  exists e, unlock_matured_lock s id = Err e.
Proof. exact unlock_refused_early. Qed.
Print Assumptions C06_unlock_refused_early.

(* begin-unlock of the whole lock: same id and coins, end time = block time + duration, nothing else changes *)
Theorem C06_begin_unlock_sets_end_time : forall s o id dn amt s' l,
  msg_begin_unlocking s o id dn amt = Ok s' -> get_lock (s_locks s) id = Some l -> is_partial dn amt l = false ->
  l_owner l = o /\ is_unlocking l = false /\ s_last s' = s_last s /\ s_bal s' = s_bal s /\
  forall i, get_lock (s_locks s') i = if id =? i then Some (with_end l (s_now s + l_dur l)) else get_lock (s_locks s) i.
Proof. exact begin_full_spec. Qed.
Print Assumptions C06_begin_unlock_sets_end_time.

(* partial unlock splits the lock: sum of coins, owner and duration preserved, the new id is fresh, the split-off part ends at
   block time + duration, balances and all other locks unchanged *)
Theorem C06_split_preserves : forall s o id dn amt s' l, Inv0 s ->
  msg_begin_unlocking s o id dn amt = Ok s' -> get_lock (s_locks s) id = Some l -> is_partial dn amt l = true ->
  let id2 := s_last s + 1 in
  let rest := with_amt l (l_amt l - amt) in
  let part := mkLock id2 (l_owner l) (l_denom l) amt (l_dur l) (s_now s + l_dur l) (norm_rr (l_owner l) (l_rr l)) in
  l_owner l = o /\ is_unlocking l = false /\ 0 < amt < l_amt l /\ l_amt rest + l_amt part = l_amt l /\
  get_lock (s_locks s) id2 = None /\ s_last s' = id2 /\ s_bal s' = s_bal s /\
  forall i, get_lock (s_locks s') i = if id2 =? i then Some part else if id =? i then Some rest else get_lock (s_locks s) i.
Proof. exact split_preserves. Qed.
Print Assumptions C06_split_preserves.

(* the same statements for histories from any well-formed genesis: keeper.InitGenesis (SetLastLockID + InitializeAllLocks) over a
   bank genesis in which the module account holds the genesis locks' coins; well-formed = unique ids in 1..last, owners are
   ordinary accounts, positive durations and amounts *)
Theorem C06_from_genesis : forall t0 fund allowed last ls s0 ops,
  0 < t0 -> 0 <= last -> genesis_ok last ls -> genesis_state t0 fund allowed last ls = Ok s0 -> Forall op_sender_ok ops ->
  let s := run s0 ops in
  Inv s /\ amt_pos s /\
  (forall dn, s_bal s module_acc dn = coins_of (s_locks s) dn) /\
  (forall dn d, dn <> 0 -> 0 <= d -> get_period_locks_accumulation s dn d = locked_longer (s_locks s) dn d) /\
  (forall a dn, a <> module_acc -> wealth s a dn = fund a dn + lsum (co a dn) ls) /\
  (forall o a dn, op_sender_ok o -> a <> module_acc -> (forall id dn0 amt, o <> OForce a id dn0 amt) ->
     s_bal (fst (step s o)) a dn <= s_bal s a dn + matured_amount s a dn) /\
  (forall o, Evol s (fst (step s o))).
Proof. exact from_genesis. Qed.
Print Assumptions C06_from_genesis.

(* non-vacuity: two owners, locks sharing a duration, add-to-existing, partial unlock (split), maturity, withdrawal,
   extension, partial force-unlock of an unlocking lock, end-block *)
Definition nv_fund (a dn : Z) : Z := 1000.
Definition nv_ops : list op :=
  [ OLock 1 1 100 5; OLock 2 1 70 5; OLock 1 1 30 5; OLock 1 2 40 9; OBegin 1 1 1 50; OTime 14; OBegin 2 2 1 0;
    OTime 15; OWithdraw 0; OExtend 1 3 20; OForce 2 2 1 10; OTime 100; OEndBlock 120 ].
Example C06_nonvacuous :
  Forall op_sender_ok nv_ops /\ 0 < 10 /\
  let s := reachable 10 nv_fund [2] nv_ops in
  map l_id (s_locks s) = [1; 3] /\ s_bal s module_acc 1 = 80 /\ s_bal s module_acc 2 = 40 /\
  s_bal s 1 1 = 920 /\ s_bal s 2 1 = 1000 /\ s_last s = 5 /\ length (s_refs s) = 8%nat /\
  get_period_locks_accumulation s 1 5 = 80 /\ get_period_locks_accumulation s 2 10 = 40 /\
  it_acc_longer_duration_denom s false 1 2 10 = [3].
Proof.
  split; [repeat constructor; cbn; discriminate|]. split; [reflexivity|]. vm_compute. repeat split.
Qed.

(* non-vacuity of the per-operation statements: concrete states and operations that meet their hypotheses *)
Definition nv_s1 : state := reachable 10 nv_fund [2] [OLock 1 1 100 5; OLock 2 1 70 5].
Example C06_nonvacuous_split :
  Inv0 nv_s1 /\ exists s' l, msg_begin_unlocking nv_s1 1 1 1 40 = Ok s' /\ get_lock (s_locks nv_s1) 1 = Some l /\
    is_partial 1 40 l = true /\ map l_amt (s_locks s') = [60; 70; 40] /\ map l_end (s_locks s') = [0; 0; 15].
Proof.
  split; [apply run_Inv0; [apply init_Inv0|repeat constructor; cbn; discriminate]|].
  eexists. eexists. split; [vm_compute; reflexivity|]. split; [vm_compute; reflexivity|]. vm_compute. repeat split.
Qed.
Example C06_nonvacuous_begin_full :
  exists s' l, msg_begin_unlocking nv_s1 2 2 1 70 = Ok s' /\ get_lock (s_locks nv_s1) 2 = Some l /\ is_partial 1 70 l = false /\
    map l_end (s_locks s') = [0; 15].
Proof. eexists. eexists. split; [vm_compute; reflexivity|]. split; [vm_compute; reflexivity|]. vm_compute. repeat split. Qed.
Example C06_nonvacuous_force :
  (exists s', handle nv_s1 (OForce 2 2 1 30) = Ok s' /\ s_bal s' 2 1 = 960 /\ map l_amt (s_locks s') = [100; 40]) /\
  (exists e, handle nv_s1 (OForce 1 1 1 30) = Err e).
Proof. split; eexists; vm_compute; repeat split. Qed.
Example C06_nonvacuous_refused_early :
  exists s' l, msg_begin_unlocking nv_s1 1 1 1 0 = Ok s' /\ get_lock (s_locks s') 1 = Some l /\ s_now s' < l_end l /\
    unlock_matured_lock s' 1 = Err ENotMatured /\
    s_bal (fst (step (fst (step s' (OTime 15))) (OUnlock 1))) 1 1 = 1000.
Proof. eexists. eexists. split; [vm_compute; reflexivity|]. split; [vm_compute; reflexivity|]. vm_compute. repeat split. Qed.
Definition nv_ops2 : list op := [OLock 1 1 100 5; OTime 12; OBegin 1 1 1 0; OTime 17].
Example C06_nonvacuous_time_lock :
  Forall op_sender_ok nv_ops2 /\
  let s := fst (trace (init_state 10 nv_fund []) (fun _ => 0) nv_ops2) in
  let bt := snd (trace (init_state 10 nv_fund []) (fun _ => 0) nv_ops2) in
  bt 1 = 12 /\ s_now s = 17 /\ map l_end (s_locks s) = [17] /\ get_lock (s_locks (fst (step s (OUnlock 1)))) 1 = None /\
  s_bal (fst (step s (OUnlock 1))) 1 1 = 1000.
Proof. split; [repeat constructor; cbn; discriminate|]. vm_compute. repeat split. Qed.
Definition nv_gen : list lock := [mkLock 2 1 1 50 5 0 0; mkLock 5 2 2 30 9 12 3].
Example C06_nonvacuous_genesis :
  genesis_ok 7 nv_gen /\
  exists s0, genesis_state 20 nv_fund [] 7 nv_gen = Ok s0 /\
    let s := run s0 [OLock 1 1 20 5; OWithdraw 0; OLock 2 2 5 9] in
    map l_id (s_locks s) = [2; 8] /\ map l_amt (s_locks s) = [70; 5] /\ s_bal s 2 2 = 1025 /\ s_bal s module_acc 1 = 70 /\ s_last s = 8.
Proof.
  split; [split; [repeat constructor; cbn; intuition discriminate|repeat constructor; cbn; try lia; discriminate]|].
  eexists. split; [vm_compute; reflexivity|]. vm_compute. repeat split.
Qed.
