(* C06 - Lockup: locked funds are safe, time-locked, and exactly indexed.
   Property theorems only; each is closed by a lemma from C06/Proofs*.v. *)
From Coq Require Import ZArith List Bool.
Import ListNotations.
From Osmo Require Import C06.Model C06.Proofs.
Open Scope Z_scope.

(* histories: any list of operations whose senders are ordinary accounts (the module account signs nothing) *)

(* the lockup module account holds exactly the sum of all live locks' coins, after every history *)
Theorem C06_module_balance_eq_sum_locks : forall t0 fund allowed ops dn, Forall op_sender_ok ops ->
  let s := run (init_state t0 fund allowed) ops in
  s_bal s module_acc dn = coins_of (s_locks s) dn.
Proof. exact module_balance_eq_sum_locks. Qed.
Print Assumptions C06_module_balance_eq_sum_locks.

(* non-vacuity: two owners, locks sharing a duration, add-to-existing, partial unlock (split), maturity, withdrawal *)
Definition nv_fund (a dn : Z) : Z := 1000.
Definition nv_ops : list op :=
  [ OLock 1 1 100 5; OLock 2 1 70 5; OLock 1 1 30 5; OLock 1 2 40 9; OBegin 1 1 1 50; OTime 14; OBegin 2 2 1 0;
    OTime 15; OWithdraw 0; OExtend 1 3 20; OForce 2 2 1 10; OTime 100; OEndBlock 120 ].
Example C06_nonvacuous :
  Forall op_sender_ok nv_ops /\
  let s := run (init_state 10 nv_fund [2]) nv_ops in
  map l_id (s_locks s) = [1; 3] /\ s_bal s module_acc 1 = 80 /\ s_bal s module_acc 2 = 40 /\
  s_bal s 1 1 = 920 /\ s_bal s 2 1 = 1000 /\ s_last s = 5.
Proof.
  split; [repeat constructor; cbn; discriminate|]. vm_compute. repeat split.
Qed.
