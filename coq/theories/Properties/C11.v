(* C11 - Superfluid staking: stake tracks locks, supply is neutral, locks stay bonded.
   Property theorems only; each is closed by a lemma of C11/{Proofs,Supply,LStep}.v.

   STATUS: PARTIAL by design.  The theorems are about the Gallina model C11/Model.v, which
     - has NO slashing (x/superfluid/keeper/slash.go is not modelled),
     - contains a hand-written model of the SDK's x/staking (bonded validators, Delegate, ValidateUnbondAmount,
       InstantUndelegate/Unbond, validator share arithmetic) and of the bank's supply / supply offset,
     - takes the per-epoch multipliers (the twap price input) as arguments of the epoch operation.
   The model is tied to /repo by the correspondence run of props/c11.py on the real app.
   Theorems whose statement depends on the staking model's exchange rate (refresh_exact, between_epochs_drift) carry the
   suffix _partial and the hypothesis [init_ok] (validators start at exchange rate 1:1).
   The literal reading of the in-between bound is refuted ([C11_drift_literal_refuted], finding C11-F1).

   Histories: [run cfg st ops] applies any list of operations (lock, top-up, superfluid delegate / undelegate /
   unbond / undelegate-and-unbond, begin-unlock, withdraw, time advance, end-block cleanup, epoch with arbitrary
   multipliers) with message atomicity ([apply]: a failing message leaves the state unchanged). *)
From Coq Require Import ZArith List Bool Lia.
Import ListNotations.
From Osmo Require Import Base.DecModel C11.Model C11.Arith C11.Basics C11.LInv C11.LStep C11.Supply C11.Proofs C11.SInv C11.Drift C11.History.
Open Scope Z_scope.

(* [reachable cfg st] (C11/Proofs.v): st = erun cfg (init_state t0 vals mults supply offset bonded) es for some history [es]
   of operations AND validator slashes (Model.v [slash], fractions up to 1/2), some positive start time and ANY validators /
   multipliers / supply.  So the marker / unlock / withdraw / accumulator theorems below also hold when validators are
   slashed in between; [run_reachable]: every slash-free history is such a history. *)

(* supply_neutral: the OSMO supply reported to users (bank supply + supply offset) is the same after any history,
   from ANY starting state and for any validator exchange rates *)
Theorem C11_supply_neutral : forall cfg st ops,
  s_supply (run cfg st ops) + s_offset (run cfg st ops) = s_supply st + s_offset st.
Proof. intros. apply (run_tot cfg ops st). Qed.
Print Assumptions C11_supply_neutral.

(* markers (1): a lock is connected to an intermediary account (delegated) exactly when it carries exactly one
   synthetic lock and that one is the staking marker of the same denom / validator *)
Theorem C11_markers_delegated : forall cfg st id d v, wf_cfg cfg -> reachable cfg st ->
  (s_conn st id = Some (d, v) <-> s_synths st id = [mkSynth Staking d v 0 (c_unb cfg)]).
Proof. intros. apply marker_delegated_iff. apply reachable_linv; assumption. Qed.
Print Assumptions C11_markers_delegated.

(* markers (2): a lock never carries two synthetic locks; a staking marker has no end time and belongs to a connected
   lock; an unstaking marker belongs to an unconnected lock and ends at most one unbonding period from now *)
Theorem C11_markers_exclusive : forall cfg st id y, wf_cfg cfg -> reachable cfg st -> In y (s_synths st id) ->
  s_synths st id = [y] /\ y_dur y = c_unb cfg /\
  match y_kind y with
  | Staking => s_conn st id = Some (y_denom y, y_val y) /\ y_end y = 0
  | Unstaking => s_conn st id = None /\ 0 < y_end y <= s_now st + c_unb cfg
  end.
Proof. intros. apply marker_kinds; [apply reachable_linv|]; assumption. Qed.
Print Assumptions C11_markers_exclusive.

(* markers (3): a successful undelegation disconnects the lock and leaves exactly the unstaking marker with
   end = time of undelegation + unbonding time *)
Theorem C11_markers_undelegating : forall cfg st sender id st' n, wf_cfg cfg -> reachable cfg st ->
  step cfg st (OUndelegate sender id) = Ok (st', n) ->
  exists d v, s_conn st id = Some (d, v) /\ s_conn st' id = None /\
    s_synths st' id = [mkSynth Unstaking d v (s_now st + c_unb cfg) (c_unb cfg)].
Proof. intros. eapply undelegate_marks; try eassumption. apply reachable_linv; assumption. Qed.
Print Assumptions C11_markers_undelegating.

(* ... and so does undelegate-and-unbond, on the lock id it reports (the lock itself, or the split-off part),
   which is unlocking from now on *)
Theorem C11_markers_undelegating_unbond : forall cfg st sender id amt st' n, wf_cfg cfg -> reachable cfg st ->
  step cfg st (OUndelegateAndUnbond sender id amt) = Ok (st', n) ->
  exists d v, s_conn st id = Some (d, v) /\ s_conn st' n = None /\
    s_synths st' n = [mkSynth Unstaking d v (s_now st + c_unb cfg) (c_unb cfg)] /\
    exists l, s_locks st' n = Some l /\ l_end l = s_now st + l_dur l.
Proof. intros. eapply undelegate_and_unbond_marks; try eassumption. apply reachable_linv; assumption. Qed.
Print Assumptions C11_markers_undelegating_unbond.

(* markers (4): the unstaking marker lasts the unbonding period - whatever happens (any operation, by anybody, including
   the end-block cleanup and epochs), it is still there, unchanged, as long as the block time is before its end time.
   One exception by design: MsgUnbondConvertAndStake on that lock takes the lock itself out of lockup and stakes the
   proceeds (see C11_conversion_stays_staked); lock and marker disappear together. *)
Theorem C11_markers_undelegating_lasts : forall cfg st o st' n id y, wf_cfg cfg -> reachable cfg st ->
  step cfg st o = Ok (st', n) -> s_synths st id = [y] -> y_kind y = Unstaking -> s_now st' < y_end y ->
  s_synths st' id = [y] \/
  (exists sender v x e, o = OConvert sender id v x e /\ s_locks st' id = None /\ s_synths st' id = []).
Proof. intros. eapply unstaking_marker_lasts; try eassumption. apply reachable_linv; assumption. Qed.
Print Assumptions C11_markers_undelegating_lasts.

(* the conversion message does not release anything: the amount it reports is positive and is added to the stake of the
   chosen validator (as the owner's own, real delegation) *)
Theorem C11_conversion_stays_staked : forall cfg st sender id v x e st' n, wf_cfg cfg -> reachable cfg st ->
  step cfg st (OConvert sender id v x e) = Ok (st', n) ->
  n = x /\ 0 <= x /\ exists val val', s_vals st' v = Some val' /\
    (s_conn st id = None -> s_vals st v = Some val /\ v_tokens val' = v_tokens val + x).
Proof. intros. eapply convert_stakes; try eassumption. apply reachable_linv; assumption. Qed.
Print Assumptions C11_conversion_stays_staked.

(* cannot_unlock_while_delegated: a delegated lock is not unlocking, and BeginUnlocking is refused (by whoever it is
   sent) - the state is left as it was; the same holds for a lock that carries any marker *)
Theorem C11_cannot_unlock_while_delegated : forall cfg st id k sender, wf_cfg cfg -> reachable cfg st ->
  s_conn st id = Some k ->
  (exists l, s_locks st id = Some l /\ l_end l = 0) /\
  next cfg st (OBeginUnlock sender id) = st /\ exists e, step cfg st (OBeginUnlock sender id) = Err e.
Proof.
  intros cfg st id k sender W R H. pose proof (reachable_linv _ _ W R) as I. split.
  - eapply delegated_lock_bonded; eassumption.
  - eapply begin_unlock_refused_delegated; eassumption.
Qed.
Print Assumptions C11_cannot_unlock_while_delegated.

Theorem C11_cannot_unlock_while_marked : forall cfg st id sender, wf_cfg cfg -> reachable cfg st ->
  s_synths st id <> [] -> exists e, step cfg st (OBeginUnlock sender id) = Err e.
Proof. intros. apply begin_unlock_refused; [apply reachable_linv|]; assumption. Qed.
Print Assumptions C11_cannot_unlock_while_marked.

(* ... and for every other entry point that starts unlocking: MsgBeginUnlocking with coins (part of a lock),
   MsgBeginUnlockingAll of the owner (refused as a whole while one of the owner's bonded locks carries a marker),
   MsgForceUnlock (even for whitelisted owners) *)
Theorem C11_cannot_unlock_partially_while_marked : forall cfg st id sender amt,
  s_synths st id <> [] -> exists e, step cfg st (OBeginUnlockPartial sender id amt) = Err e.
Proof. intros. apply begin_unlock_partial_refused. assumption. Qed.
Print Assumptions C11_cannot_unlock_partially_while_marked.

Theorem C11_cannot_unlock_all_while_marked : forall cfg st id l, wf_cfg cfg -> reachable cfg st ->
  s_locks st id = Some l -> s_synths st id <> [] -> l_end l = 0 ->
  exists e, step cfg st (OBeginUnlockAll (l_owner l)) = Err e.
Proof. intros. eapply begin_unlock_all_refused; try eassumption. apply reachable_linv; assumption. Qed.
Print Assumptions C11_cannot_unlock_all_while_marked.

Theorem C11_cannot_force_unlock_while_marked : forall cfg st id sender, wf_cfg cfg -> reachable cfg st ->
  s_synths st id <> [] -> exists e, step cfg st (OForceUnlock sender id) = Err e.
Proof. intros. apply force_unlock_refused; [apply reachable_linv|]; assumption. Qed.
Print Assumptions C11_cannot_force_unlock_while_marked.

(* cannot_withdraw_before_matured: while the unstaking marker of a lock has not reached its end time, withdrawing the
   lock is refused and the end-block cleanup leaves the lock in place *)
Theorem C11_cannot_withdraw_before_matured : forall cfg st id y, wf_cfg cfg -> reachable cfg st ->
  In y (s_synths st id) -> y_kind y = Unstaking -> s_now st < y_end y ->
  (exists e, step cfg st (OWithdraw id) = Err e) /\
  (forall st' n, step cfg st OCleanup = Ok (st', n) -> s_locks st' id = s_locks st id).
Proof.
  intros cfg st id y W R Hy Hk Hn. pose proof (reachable_linv _ _ W R) as I. split.
  - eapply withdraw_refused; eassumption.
  - intros st' n H. eapply cleanup_keeps_undelegating; eassumption.
Qed.
Print Assumptions C11_cannot_withdraw_before_matured.

(* the accumulator read by the epoch refresh is exactly the total of the locks connected to the account *)
Theorem C11_accumulator_tracks_locks : forall cfg st d v, wf_cfg cfg -> reachable cfg st ->
  s_accum st Staking d v = conn_amt st d v.
Proof. intros cfg st d v W R. apply (L_accum cfg). apply reachable_linv; assumption. Qed.
Print Assumptions C11_accumulator_tracks_locks.

(* refresh_exact (PARTIAL: exchange rate 1:1 at the start - preserved by every modelled operation - and no slashing):
   immediately after the epoch refresh, for every intermediary account, delegation(acc) = GetExpectedDelegationAmount(acc)
   = the risk-adjusted value of the total amount of exactly the locks connected to acc *)
Theorem C11_refresh_exact_partial : forall cfg t0 vals mults sup off bnd ops ins order st' n,
  wf_cfg cfg -> 0 < t0 -> init_ok vals mults ->
  step cfg (run cfg (init_state t0 vals mults sup off bnd) ops) (OEpoch ins order) = Ok (st', n) ->
  forall d v, In (d, v) (s_accs st') ->
    delegation_tokens st' d v = Ok (value (s_mult st' d) (c_rf cfg) (conn_amt st' d v)) /\
    expected_delegation cfg st' d v = Ok (value (s_mult st' d) (c_rf cfg) (conn_amt st' d v)).
Proof. exact refresh_exact_history. Qed.
Print Assumptions C11_refresh_exact_partial.

(* between_epochs_drift (PARTIAL, same hypotheses): at every point of every history
     | delegation(acc) - sum over the locks connected to acc of their risk-adjusted values | <= budget(acc)
   where the budget ([snd (grun ...)], see [budget_next]) is 0 at the start, is set by every successful epoch to the number
   of locks connected to acc at that refresh, grows by 2 with every successful top-up of a lock connected to acc, and is
   unchanged by every other operation *)
Theorem C11_between_epochs_drift_partial : forall cfg t0 vals mults sup off bnd ops,
  wf_cfg cfg -> 0 < t0 -> init_ok vals mults ->
  let r := grun cfg (init_state t0 vals mults sup off bnd) (fun _ _ => 0) ops in
  fst r = run cfg (init_state t0 vals mults sup off bnd) ops /\
  forall d v, delegation_tokens (fst r) d v = Ok (dtok (fst r) d v) /\
              Z.abs (dtok (fst r) d v - conn_val cfg (fst r) d v) <= snd r d v.
Proof. exact drift_history. Qed.
Print Assumptions C11_between_epochs_drift_partial.

(* how the budget evolves (by definition) *)
Theorem C11_budget_rule : forall cfg st B o st',
  let topup id := match s_conn st id with Some (d, v) => upd2 B d v (B d v + 2) | None => B end in
  let locktokens owner d dur :=
    match find_existing st owner d dur (ids_upto (s_last st)) with Some id => topup id | None => B end in
  budget_next cfg st B o st' =
  match o with
  | OEpoch _ _ => conn_cnt st'
  | OTopUp _ id _ => topup id
  | OLockTokens owner d _ dur => locktokens owner d dur           (* MsgLockTokens tops up a matching lock if there is one *)
  | OLockAndDelegate owner d _ _ => locktokens owner d (c_unb cfg)
  | _ => B
  end.
Proof. intros. destruct o; reflexivity. Qed.
Print Assumptions C11_budget_rule.

(* the arithmetic core: the value of a total is within one unit per summand of the total of the values *)
Theorem C11_value_of_sum : forall m rf l, 0 <= m -> 0 <= rf <= P18 -> Forall (fun a => 0 <= a) l ->
  Z.abs (value m rf (zsum l) - zsum (map (value m rf) l)) <= Z.of_nat (length l).
Proof. intros. apply value_sum_bound; assumption. Qed.
Print Assumptions C11_value_of_sum.

(* The property text's literal in-between bound - at most one base unit per CURRENTLY delegated lock - is FALSE of the
   faithful model (and of the implementation: finding C11-F1): the residue of the refresh stays when locks leave. *)
Definition C11_drift_literal : Prop := forall cfg t0 vals mults sup off bnd ops,
  wf_cfg cfg -> 0 < t0 -> init_ok vals mults ->
  let st := run cfg (init_state t0 vals mults sup off bnd) ops in
  forall d v, Z.abs (dtok st d v - conn_val cfg st d v) <= conn_cnt st d v.

Definition rf_cfg := mkCfg 100 (P18 / 2) [0] [] [0].
Definition rf_vals := [(0, mkVal 1000000 (1000000 * P18))].
Definition rf_ops := [OLock 0 0 3 100; OLock 1 0 3 100; OLock 2 0 3 100;
  ODelegate 0 1 0; ODelegate 1 2 0; ODelegate 2 3 0; OEpoch [(0, MDirect P18)] []; OUndelegate 0 1; OUndelegate 1 2].
Theorem C11_drift_literal_refuted : ~ C11_drift_literal.
Proof.
  intros H. specialize (H rf_cfg 1000 rf_vals [(0, P18)] 0 0 0 rf_ops).
  assert (W : wf_cfg rf_cfg) by (unfold wf_cfg; vm_compute; repeat split; discriminate).
  assert (Hi : init_ok rf_vals [(0, P18)]).
  { split; repeat constructor; vm_compute; discriminate. }
  specialize (H W eq_refl Hi 0 0). vm_compute in H. apply H. reflexivity.
Qed.
Print Assumptions C11_drift_literal_refuted.

(* OBSERVATION OUTSIDE THE PROPERTY (validator slashing is not a step of the property's histories, and the burn is x/staking's):
   recorded because the correspondence run ties [slash] (Model.v) to slash.go and x/staking Slash.  The slash burns the slashed
   share of the intermediary accounts' stake - which the superfluid module had minted behind the supply offset - and nothing
   corrects the offset, so the reported supply falls by more than the real OSMO that was slashed. *)
Definition stake_of (st : state) (k : Z * Z) : Z := match delegation_tokens st (fst k) (snd k) with Ok t => t | Err _ => 0 end.
(* change of the reported supply across a slash, and the real (non-synthetic) OSMO burnt by it *)
Definition reported_change (st st' : state) : Z := (s_supply st' + s_offset st') - (s_supply st + s_offset st).
Definition real_burn (st st' : state) (v : Z) : Z :=
  match s_vals st v, s_vals st' v with Some a, Some b => v_tokens a - v_tokens b | _, _ => 0 end
  - zsum (map (fun k => if snd k =? v then stake_of st k - stake_of st' k else 0) (s_accs st)).
Definition supply_neutral_under_slash : Prop := forall cfg st order v f st', wf_cfg cfg -> reachable cfg st ->
  slash st order v f = Ok st' -> reported_change st st' = - real_burn st st' v.

Definition sl_cfg := mkCfg 100 (P18 / 2) [0] [] [0].
Definition sl_st := run sl_cfg (init_state 1000 [(0, mkVal 1000000 (1000000 * P18))] [(0, 20 * P18)] 0 0 0)
                        [OLock 0 0 1000000 100; ODelegate 0 1 0].
Definition sl_check : bool :=
  match slash sl_st [] 0 (P18 / 10) with Ok st' => reported_change sl_st st' =? - real_burn sl_st st' 0 | Err _ => true end.
Theorem C11_observation_slash_moves_reported_supply : ~ supply_neutral_under_slash.
Proof.
  intros H. assert (X : sl_check = true).
  { unfold sl_check. destruct (slash sl_st [] 0 (P18 / 10)) as [st'|] eqn:E; [|reflexivity]. apply Z.eqb_eq.
    apply (H sl_cfg sl_st [] 0 (P18 / 10) st'); [unfold wf_cfg; vm_compute; repeat split; discriminate| |exact E].
    apply run_reachable. reflexivity. }
  (* reported supply moved by -1,100,000; the real OSMO slashed is 100,000 *)
  assert (Y : sl_check = false) by (vm_compute; reflexivity). rewrite Y in X. discriminate X.
Qed.
Print Assumptions C11_observation_slash_moves_reported_supply.

(* The property at full strength, read literally: everything proved above PLUS the in-between bound counted in currently
   delegated locks.  It is false (of the model and of the code): the extra conjunct is the refuted one (finding C11-F1); what is
   proved instead is C11_between_epochs_drift_partial with the budget of C11_budget_rule. *)
Definition C11_full : Prop := C11_drift_literal.
Theorem C11_full_refuted : ~ C11_full.
Proof. exact C11_drift_literal_refuted. Qed.
Print Assumptions C11_full_refuted.

(* non-vacuity of the slashing part of [reachable]: the state after the 10% slash of the example above is reachable, the lock
   lost 10% and kept its staking marker *)
Definition sl_es := [EOp (OLock 0 0 1000000 100); EOp (ODelegate 0 1 0); ESlash [] 0 (P18 / 10)].
Definition sl_st2 := erun sl_cfg (init_state 1000 [(0, mkVal 1000000 (1000000 * P18))] [(0, 20 * P18)] 0 0 0) sl_es.
Example C11_nonvacuous_slash :
  reachable sl_cfg sl_st2 /\ s_locks sl_st2 1 = Some (mkLock 0 0 900000 100 0) /\
  s_synths sl_st2 1 = [mkSynth Staking 0 0 0 100] /\ s_accum sl_st2 Staking 0 0 = 900000.
Proof.
  split.
  - exists 1000, [(0, mkVal 1000000 (1000000 * P18))], [(0, 20 * P18)], 0, 0, 0, sl_es.
    split; [reflexivity|]. split; [|reflexivity].
    unfold sl_es. repeat constructor; vm_compute; discriminate.
  - vm_compute. repeat split; reflexivity.
Qed.

(* non-vacuity: three owners lock 3 shares each (multiplier 1, risk factor 0.5) and delegate to validator 0; an epoch
   refreshes; two undelegate, one of them unbonds; time passes; cleanup; the third is topped up *)
Definition nv_cfg := mkCfg 100 (P18 / 2) [0] [2] [0].
Definition nv_init := init_state 1000 [(0, mkVal 1000000 (1000000 * P18)); (1, mkVal 5 (5 * P18))] [(0, P18)] 7000000 (-500) 1000005.
Definition nv_ops := [OLock 0 0 3 100; OLock 1 0 3 100; OLock 2 0 3 150;
  ODelegate 0 1 0; ODelegate 1 2 0; ODelegate 2 3 0; OEpoch [(0, MDirect P18)] [];
  OUndelegate 0 1; OUndelegate 1 2; OUnbondLock 0 1; OAdvance 60; OBeginUnlock 2 3; OWithdraw 1; OAdvance 40; OCleanup;
  OTopUp 2 3 7; OUndelegateAndUnbond 2 3 4; OBeginUnlockAll 2; OForceUnlock 2 3; OBeginUnlockPartial 2 3 1;
  OLock 2 0 9 10; OBeginUnlockPartial 2 5 4; OForceUnlock 2 5;
  OLockTokens 1 0 11 100; OLockTokens 1 0 5 100; OLockAndDelegate 0 0 8 1; OCreateAndDelegate 0 0 20 0;
  OConvert 1 2 1 777 true].
Example C11_nonvacuous :
  wf_cfg nv_cfg /\ reachable nv_cfg (run nv_cfg nv_init nv_ops) /\
  let st := run nv_cfg nv_init nv_ops in
  s_conn st 3 = Some (0, 0) /\ s_synths st 3 = [mkSynth Staking 0 0 0 100] /\
  s_synths st 4 = [mkSynth Unstaking 0 0 1200 100] /\ s_locks st 1 = None /\ s_locks st 5 = None /\
  s_locks st 6 = Some (mkLock 2 0 4 10 1110) /\ s_locks st 2 = None /\ s_vals st 1 = Some (mkVal 786 (786 * P18)) /\
  s_conn st 7 = Some (0, 1) /\ s_conn st 8 = Some (0, 0) /\
  s_deleg st 0 0 = Some (14 * P18) /\ s_supply st + s_offset st = 7000000 - 500 /\ s_supply st = 7000018 /\
  init_ok [(0, mkVal 1000000 (1000000 * P18)); (1, mkVal 5 (5 * P18))] [(0, P18)] /\
  snd (grun nv_cfg nv_init (fun _ _ => 0) nv_ops) 0 0 = 5 /\ conn_val nv_cfg st 0 0 = 13.
Proof.
  split; [unfold wf_cfg; vm_compute; repeat split; discriminate|].
  split; [apply run_reachable; reflexivity|].
  vm_compute. repeat split; try reflexivity; try discriminate; repeat constructor; discriminate.
Qed.
