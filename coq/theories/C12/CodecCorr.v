(* C12 correspondence glue for the codecs (C12/Codec.v). *)
From Coq Require Import ZArith List Bool.
Import ListNotations.
From Osmo Require Import Base.Obs Base.DecModel C12.Codec C12.Corr.
Open Scope Z_scope.

Inductive ckind := KBD | KD | KBI.

(* texts travel as one number (big-endian bytes) plus a length; observed texts as (length, polynomial hash) *)
Fixpoint bytes_of (len : nat) (z : Z) (acc : list Z) : list Z :=
  match len with O => acc | S n => bytes_of n (Z.shiftr z 8) (Z.land z 255 :: acc) end.
(* the text read as a big-endian base-256 number, modulo the fingerprint prime (the length is sent too) *)
(* reduction modulo the Mersenne prime 2^127 - 1 by folding the high bits (x < 2^254) *)
Definition mred (x : Z) : Z :=
  let y := Z.land x fp_mod + Z.shiftr x 127 in if fp_mod <=? y then y - fp_mod else y.
Definition thash (s : list Z) : Z := fold_left (fun acc c => mred (Z.shiftl acc 8 + c)) s 0.
Definition enc_text (s : list Z) : list Z := [Z.of_nat (length s); thash s].
Definition enc_dres (r : dres) : list Z :=
  match r with
  | DOk z => 0 :: fp z
  | DErr => [4; 0; 0; 0]
  | DNil => [5; 0; 0; 0]
  | DUnmodelled => [7; 0; 0; 0]
  end.

Definition text_of (k : ckind) (a : Z) : list Z := match k with KBD => bd_string a | KD => d_string a | KBI => int_text a end.
Definition bin_of (k : ckind) (a : Z) : list Z := int_text a.
Definition json_of (k : ckind) (a : Z) : list Z :=
  match k with KBD => bd_marshal_json a | KD => d_marshal_json a | KBI => bi_marshal_json a end.
Definition parse_text (k : ckind) (s : list Z) : dres :=
  match k with KBD => bd_from_str s | KD => d_from_str s | KBI => bi_from_string s end.
Definition parse_bin (k : ckind) (s : list Z) : dres :=
  match k with KBD => bd_unmarshal s | KD => d_unmarshal s | KBI => bi_unmarshal s end.
Definition parse_json (k : ckind) (s : list Z) : dres :=
  match k with KBD => bd_unmarshal_json s | KD => d_unmarshal_json s | KBI => bi_unmarshal_json s end.

(* value case: the three encodings and what each decoder makes of them *)
Definition value_obs (k : ckind) (a : Z) : list Z :=
  let s := text_of k a in let m := bin_of k a in let j := json_of k a in
  enc_text s ++ enc_text m ++ enc_text j ++ enc_dres (parse_text k s) ++ enc_dres (parse_bin k m) ++ enc_dres (parse_json k j).
(* text case: the three decoders on one text *)
Definition parse_obs (k : ckind) (len : nat) (t : Z) : list Z :=
  let s := bytes_of len t [] in
  enc_dres (parse_text k s) ++ enc_dres (parse_bin k s) ++ enc_dres (parse_json k s).

(* decoder slots are 4 wide; a slot the model declares unmodelled (7) is not compared *)
Fixpoint slots_eqb (m e : list Z) : bool :=
  match m, e with
  | [], [] => true
  | 7 :: _ :: _ :: _ :: m', _ :: _ :: _ :: _ :: e' => slots_eqb m' e'
  | a :: b :: c :: d :: m', a' :: b' :: c' :: d' :: e' =>
      (a =? a') && (b =? b') && (c =? c') && (d =? d') && slots_eqb m' e'
  | _, _ => false
  end.

Inductive ccase :=
| CV (k : ckind) (a : Z) (expect : list Z)              (* expect: 6 text numbers ++ 3 slots *)
| CP (k : ckind) (len : nat) (t : Z) (expect : list Z). (* expect: 3 slots *)

Definition ccase_ok (c : ccase) : bool :=
  match c with
  | CV k a ex => let o := value_obs k a in
                 zlist_eqb (firstn 6 o) (firstn 6 ex) && slots_eqb (skipn 6 o) (skipn 6 ex)
  | CP k len t ex => slots_eqb (parse_obs k len t) ex
  end.
