(* C12/Consts.v - ties the literal constants of Base/DecModel.v and C12/Model.v to the constants the
   translator reads from /repo (Gen/C12_consts.v, regenerated on every run): if a constant of the
   source changes, these lemmas (and everything stated through them) stop compiling. *)
From Coq Require Import ZArith Lia.
From Osmo Require Import Base.DecModel Gen.C12_consts C12.Model.
Open Scope Z_scope.

(* the translator found the source in the shape the model assumes *)
Lemma translator_shape_ok_gen : translator_shape_ok = true. Proof. reflexivity. Qed.
Lemma P36_gen : P36 = 10 ^ BigDecPrecision. Proof. reflexivity. Qed.
Lemma P18_gen : P18 = 10 ^ DecPrecision. Proof. reflexivity. Qed.
Lemma P72_gen : P72 = 10 ^ (2 * BigDecPrecision). Proof. reflexivity. Qed.
Lemma sq36_gen : sq36 = 10 ^ (2 * BigDecPrecision). Proof. reflexivity. Qed.
Lemma sq18_gen : sq18 = 10 ^ (2 * DecPrecision). Proof. reflexivity. Qed.
Lemma factor_diff_gen : factor_diff = 10 ^ (BigDecPrecision - DecPrecision). Proof. reflexivity. Qed.
Lemma max_bit_len_gen : max_bit_len = maxBitLen. Proof. reflexivity. Qed.
Lemma max_dec_bit_len_gen : max_dec_bit_len = maxDecBitLen. Proof. reflexivity. Qed.
Lemma max_int_bit_len_gen : max_int_bit_len = sdkMaxBitLen. Proof. reflexivity. Qed.
(* which bound each guard of decimal.go uses *)
Lemma assert_bound_gen : assert_bound = max_dec_bit_len. Proof. reflexivity. Qed.
Lemma from_str_bound_gen : from_str_bound = max_bit_len. Proof. reflexivity. Qed.
Lemma unmarshal_bound_gen : unmarshal_bound = max_bit_len. Proof. reflexivity. Qed.
(* BigDecimalPrecisionBits is "Ceiling[Log2[10**Precision - 1]]": one unit of 36 decimals fits 120 bits *)
Lemma precision_bits_gen : 2 ^ (BigDecimalPrecisionBits - 1) <= 10 ^ BigDecPrecision - 1 < 2 ^ BigDecimalPrecisionBits.
Proof. vm_compute. split; [discriminate|reflexivity]. Qed.
(* hence an integer of at most maxBitLen bits times 10^36 never exceeds maxDecBitLen bits *)
Lemma upper_limit18_gen : upper_limit18 = 2 ^ sdkMaxBitLen * 10 ^ DecPrecision - 1. Proof. reflexivity. Qed.
