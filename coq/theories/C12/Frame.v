(* C12/Frame.v - which cells each method may write.
   [X_pres : W n S d -> pres n S (XMut d d2) (W n S)]: a mutating method writes only its receiver (and
   cells it allocates); [pres n S (X d d2) (W n S)] with no premise: a non-mutating method writes only cells
   it allocates - taking S empty and n = next h, every pre-existing cell keeps its value (op_nonmut_frame),
   also on the panic path. *)
From Coq Require Import ZArith List Bool Lia.
Import ListNotations.
From Osmo Require Import Base.DecModel C12.Model C12.Heap.
Open Scope Z_scope.

Ltac pres_auto :=
  lazymatch goal with
  | |- pres _ _ (bind _ _) _ => eapply pres_bind; [pres_auto | cbn beta; intros; pres_auto]
  | |- pres _ _ (if ?c then _ else _) _ => destruct c; pres_auto
  | |- pres _ _ (match ?c with Eq => _ | Lt => _ | Gt => _ end) _ => destruct c; pres_auto
  | |- _ =>
      first
        [ apply pres_get | apply pres_bnew
        | apply pres_bop1; solve [auto with pres] | apply pres_bop2; solve [auto with pres]
        | apply pres_bquo; solve [auto with pres] | apply pres_brem; solve [auto with pres]
        | apply pres_bmod; solve [auto with pres] | apply pres_bquorem; solve [auto with pres]
        | pres_leaf ]
  end.

Section Frames.
Variables (n : nat) (S : nat -> Prop).
Notation Wn := (W n S).

Lemma assertMaxBitLen_pres : forall i, pres n S (assertMaxBitLen i) (fun _ => True).
Proof. intros; unfold assertMaxBitLen; pres_auto. Qed.
Lemma assertInValidRange_pres : forall i, pres n S (assertInValidRange i) (fun _ => True).
Proof. intros; unfold assertInValidRange; pres_auto. Qed.
Hint Resolve assertMaxBitLen_pres assertInValidRange_pres : pres.

Lemma chopPR_core_pres : forall p half d, Wn d -> pres n S (chopPR_core p half d) Wn.
Proof. intros; unfold chopPR_core; pres_auto. Qed.
Hint Resolve chopPR_core_pres : pres.
Lemma chopPrecisionAndRoundP_pres : forall p half d, Wn d -> pres n S (chopPrecisionAndRoundP p half d) Wn.
Proof. intros; unfold chopPrecisionAndRoundP; pres_auto. Qed.
Hint Resolve chopPrecisionAndRoundP_pres : pres.
Lemma chopPrecisionAndRound_pres : forall d, Wn d -> pres n S (chopPrecisionAndRound d) Wn.
Proof. intros; unfold chopPrecisionAndRound; auto with pres. Qed.
Lemma chopPrecisionAndRoundSdkDec_pres : forall d, Wn d -> pres n S (chopPrecisionAndRoundSdkDec d) Wn.
Proof. intros; unfold chopPrecisionAndRoundSdkDec; auto with pres. Qed.
Hint Resolve chopPrecisionAndRound_pres chopPrecisionAndRoundSdkDec_pres : pres.
Lemma incBasedOnRem_pres : forall rem d, Wn d -> pres n S (incBasedOnRem rem d) Wn.
Proof. intros; unfold incBasedOnRem; pres_auto. Qed.
Lemma incBasedOnRemAndDivisor_pres : forall rem dv d, Wn d -> pres n S (incBasedOnRemAndDivisor rem dv d) Wn.
Proof. intros; unfold incBasedOnRemAndDivisor; pres_auto. Qed.
Lemma chopPrecisionAndTruncateMut_pres : forall d p, Wn d -> pres n S (chopPrecisionAndTruncateMut d p) Wn.
Proof. intros; unfold chopPrecisionAndTruncateMut; pres_auto. Qed.
Hint Resolve incBasedOnRem_pres incBasedOnRemAndDivisor_pres chopPrecisionAndTruncateMut_pres : pres.
Lemma chopPrecisionAndRoundUpMut_pres : forall d p, Wn d -> pres n S (chopPrecisionAndRoundUpMut d p) Wn.
Proof. intros; unfold chopPrecisionAndRoundUpMut; pres_auto. Qed.
Hint Resolve chopPrecisionAndRoundUpMut_pres : pres.

Lemma Clone_pres : forall d, pres n S (Clone d) Wn.
Proof. intros; unfold Clone; pres_auto. Qed.
Hint Resolve Clone_pres : pres.
Lemma precisionMultiplier_pres : forall k, pres n S (precisionMultiplier k) (fun _ => True).
Proof. intros; unfold precisionMultiplier; pres_auto. Qed.
Lemma legacyPrecisionMultiplier_pres : forall k, pres n S (legacyPrecisionMultiplier k) (fun _ => True).
Proof. intros; unfold legacyPrecisionMultiplier; pres_auto. Qed.
Hint Resolve precisionMultiplier_pres legacyPrecisionMultiplier_pres : pres.
Lemma NewBigDecFromBigIntMutWithPrec_pres : forall i k, Wn i -> pres n S (NewBigDecFromBigIntMutWithPrec i k) Wn.
Proof. intros; unfold NewBigDecFromBigIntMutWithPrec; pres_auto. Qed.
Lemma NewBigDecFromBigIntWithPrec_pres : forall i k, pres n S (NewBigDecFromBigIntWithPrec i k) Wn.
Proof. intros; unfold NewBigDecFromBigIntWithPrec; pres_auto. Qed.
Hint Resolve NewBigDecFromBigIntMutWithPrec_pres NewBigDecFromBigIntWithPrec_pres : pres.

(* mutating forms: only the receiver *)
Lemma AddMut_pres : forall d d2, Wn d -> pres n S (AddMut d d2) Wn.
Proof. intros; unfold AddMut; pres_auto. Qed.
Lemma SubMut_pres : forall d d2, Wn d -> pres n S (SubMut d d2) Wn.
Proof. intros; unfold SubMut; pres_auto. Qed.
Lemma NegMut_pres : forall d, Wn d -> pres n S (NegMut d) Wn.
Proof. intros; unfold NegMut; pres_auto. Qed.
Lemma AbsMut_pres : forall d, Wn d -> pres n S (AbsMut d) Wn.
Proof. intros; unfold AbsMut; pres_auto. Qed.
Lemma MulMut_pres : forall d d2, Wn d -> pres n S (MulMut d d2) Wn.
Proof. intros; unfold MulMut; pres_auto. Qed.
Lemma MulDecMut_pres : forall d d2, Wn d -> pres n S (MulDecMut d d2) Wn.
Proof. intros; unfold MulDecMut; pres_auto. Qed.
Lemma QuoMut_pres : forall d d2, Wn d -> pres n S (QuoMut d d2) Wn.
Proof. intros; unfold QuoMut; pres_auto. Qed.
Lemma QuoTruncateMutP_pres : forall p d d2, Wn d -> pres n S (QuoTruncateMutP p d d2) Wn.
Proof. intros; unfold QuoTruncateMutP; pres_auto. Qed.
Lemma QuoRoundUpMut_pres : forall d d2, Wn d -> pres n S (QuoRoundUpMut d d2) Wn.
Proof. intros; unfold QuoRoundUpMut; pres_auto. Qed.
Lemma QuoRoundUpNextIntMut_pres : forall d d2, Wn d -> pres n S (QuoRoundUpNextIntMut d d2) Wn.
Proof. intros; unfold QuoRoundUpNextIntMut; pres_auto. Qed.
Lemma CeilMut_pres : forall d, Wn d -> pres n S (CeilMut d) Wn.
Proof. intros; unfold CeilMut; pres_auto. Qed.
Lemma ChopPrecisionMut_pres : forall d k, Wn d -> pres n S (ChopPrecisionMut d k) Wn.
Proof. intros; unfold ChopPrecisionMut; pres_auto. Qed.
Hint Resolve AddMut_pres SubMut_pres NegMut_pres AbsMut_pres MulMut_pres MulDecMut_pres QuoMut_pres
  QuoTruncateMutP_pres QuoRoundUpMut_pres QuoRoundUpNextIntMut_pres CeilMut_pres ChopPrecisionMut_pres : pres.

(* non-mutating forms: nothing that existed before *)
Lemma Add_pres : forall d d2, pres n S (Add d d2) Wn.
Proof. intros; unfold Add; pres_auto. Qed.
Lemma Sub_pres : forall d d2, pres n S (Sub d d2) Wn.
Proof. intros; unfold Sub; pres_auto. Qed.
Lemma Neg_pres : forall d, pres n S (Neg d) Wn.
Proof. intros; unfold Neg; pres_auto. Qed.
Lemma Abs_pres : forall d, pres n S (Abs d) Wn.
Proof. intros; unfold Abs; pres_auto. Qed.
Lemma Mul_pres : forall d d2, pres n S (Mul d d2) Wn.
Proof. intros; unfold Mul; pres_auto. Qed.
Lemma MulDec_pres : forall d d2, pres n S (MulDec d d2) Wn.
Proof. intros; unfold MulDec; pres_auto. Qed.
Lemma MulTruncateP_pres : forall p d d2, pres n S (MulTruncateP p d d2) Wn.
Proof. intros; unfold MulTruncateP; pres_auto. Qed.
Lemma MulRoundUpP_pres : forall p d d2, pres n S (MulRoundUpP p d d2) Wn.
Proof. intros; unfold MulRoundUpP; pres_auto. Qed.
Lemma MulInt_pres : forall d i, pres n S (MulInt d i) Wn.
Proof. intros; unfold MulInt; pres_auto. Qed.
Lemma MulInt64_pres : forall d i, pres n S (MulInt64 d i) Wn.
Proof. intros; unfold MulInt64; pres_auto. Qed.
Lemma Quo_pres : forall d d2, pres n S (Quo d d2) Wn.
Proof. intros; unfold Quo; pres_auto. Qed.
Lemma QuoRaw_pres : forall d i, pres n S (QuoRaw d i) Wn.
Proof. intros; unfold QuoRaw; pres_auto. Qed.
Lemma QuoTruncateP_pres : forall p d d2, pres n S (QuoTruncateP p d d2) Wn.
Proof. intros; unfold QuoTruncateP; pres_auto. Qed.
Lemma QuoRoundUpP_pres : forall p d d2, pres n S (QuoRoundUpP p d d2) Wn.
Proof. intros; unfold QuoRoundUpP; pres_auto. Qed.
Lemma QuoInt_pres : forall d i, pres n S (QuoInt d i) Wn.
Proof. intros; unfold QuoInt; pres_auto. Qed.
Lemma QuoInt64_pres : forall d i, pres n S (QuoInt64 d i) Wn.
Proof. intros; unfold QuoInt64; pres_auto. Qed.
Lemma Ceil_pres : forall d, pres n S (Ceil d) Wn.
Proof. intros; unfold Ceil; pres_auto. Qed.
Lemma chopPrecisionAndTruncate_pres : forall d p, pres n S (chopPrecisionAndTruncate d p) Wn.
Proof. intros; unfold chopPrecisionAndTruncate; pres_auto. Qed.
Lemma NewBigIntFromBigInt_pres : forall i, Wn i -> pres n S (NewBigIntFromBigInt i) Wn.
Proof. intros; unfold NewBigIntFromBigInt; pres_auto. Qed.
Lemma chopPrecisionAndRoundNonMutative_pres : forall d, pres n S (chopPrecisionAndRoundNonMutative d) Wn.
Proof. intros; unfold chopPrecisionAndRoundNonMutative; pres_auto. Qed.
Lemma assertInt64_pres : forall c, Wn c -> pres n S (assertInt64 c) Wn.
Proof. intros; unfold assertInt64; pres_auto. Qed.
Hint Resolve chopPrecisionAndTruncate_pres NewBigIntFromBigInt_pres chopPrecisionAndRoundNonMutative_pres assertInt64_pres : pres.
Lemma TruncateInt_pres : forall d, pres n S (TruncateInt d) Wn.
Proof. intros; unfold TruncateInt; pres_auto. Qed.
Lemma TruncateDec_pres : forall d, pres n S (TruncateDec d) Wn.
Proof. intros; unfold TruncateDec; pres_auto. Qed.
Lemma RoundInt_pres : forall d, pres n S (RoundInt d) Wn.
Proof. intros; unfold RoundInt; pres_auto. Qed.
Lemma ToDec_pres : forall d, pres n S (ToDec d) Wn.
Proof. intros; unfold ToDec; pres_auto. Qed.
Lemma DecRoundUp_pres : forall d, pres n S (DecRoundUp d) Wn.
Proof. intros; unfold DecRoundUp; pres_auto. Qed.
Lemma DecWithPrecision_pres : forall d k, pres n S (DecWithPrecision d k) Wn.
Proof. intros; unfold DecWithPrecision; pres_auto. Qed.
Lemma ChopPrecision_pres : forall d k, pres n S (ChopPrecision d k) Wn.
Proof. intros; unfold ChopPrecision; pres_auto. Qed.
Lemma BigDecFromDec_pres : forall d, pres n S (BigDecFromDec d) Wn.
Proof. intros; unfold BigDecFromDec; pres_auto. Qed.
Lemma NewBigDecFromDecMulDec_pres : forall a b, pres n S (NewBigDecFromDecMulDec a b) Wn.
Proof. intros; unfold NewBigDecFromDecMulDec; pres_auto. Qed.

(* PowerInteger: the loop only ever writes the receiver and its own accumulator *)
Lemma power_loop_pres : forall mulmut, (forall d d2, Wn d -> pres n S (mulmut d d2) Wn) ->
  forall fuel d tmp i, Wn d -> Wn tmp -> pres n S (power_loop mulmut fuel d tmp i) Wn.
Proof.
  intros mulmut Hm. induction fuel as [|f IH]; intros d tmp i Hd Ht; cbn [power_loop].
  - apply pres_panic.
  - destruct (1 <? i); [|apply pres_ret; assumption].
    eapply pres_bind with (R := fun _ => True).
    + destruct (Z.odd i).
      * eapply pres_bind; [apply Hm; assumption|intros; apply pres_ret; exact I].
      * apply pres_ret; exact I.
    + intros _ _. eapply pres_bind; [apply Hm; assumption|]. intros d' Hd'. apply IH; assumption.
Qed.
Lemma PowerIntegerMut_pres : forall d k, Wn d -> pres n S (PowerIntegerMut d k) Wn.
Proof.
  intros d k Hd. unfold PowerIntegerMut, OneBigDec.
  destruct (k =? 0); [eapply pres_weaken; [apply pres_bnew|intros; auto with pres]|].
  destruct (k =? 1); [apply pres_ret; assumption|].
  destruct (k =? 2); [apply MulMut_pres; assumption|].
  eapply pres_bind; [apply pres_bnew|]. intros tmp Ht.
  eapply pres_bind; [apply power_loop_pres; auto using MulMut_pres with pres|].
  intros d' Hd'. apply MulMut_pres; assumption.
Qed.
Lemma PowerInteger_pres : forall d k, pres n S (PowerInteger d k) Wn.
Proof.
  intros; unfold PowerInteger. eapply pres_bind; [apply Clone_pres|]. intros c Hc. apply PowerIntegerMut_pres; assumption.
Qed.

(* 18-decimal *)
Lemma ImmutOp_pres : forall op, (forall d d2, Wn d -> pres n S (op d d2) Wn) -> forall d d2, pres n S (ImmutOp op d d2) Wn.
Proof. intros op H d d2. unfold ImmutOp. eapply pres_bind; [apply Clone_pres|]. intros c Hc. apply H; assumption. Qed.
Lemma D_AddMut_pres : forall d d2, Wn d -> pres n S (D_AddMut d d2) Wn.
Proof. intros; unfold D_AddMut; pres_auto. Qed.
Lemma D_SubMut_pres : forall d d2, Wn d -> pres n S (D_SubMut d d2) Wn.
Proof. intros; unfold D_SubMut; pres_auto. Qed.
Lemma D_MulMut_pres : forall d d2, Wn d -> pres n S (D_MulMut d d2) Wn.
Proof. intros; unfold D_MulMut; pres_auto. Qed.
Lemma D_MulTruncateMut_pres : forall d d2, Wn d -> pres n S (D_MulTruncateMut d d2) Wn.
Proof. intros; unfold D_MulTruncateMut; pres_auto. Qed.
Lemma D_chopPrecisionAndRoundUp_pres : forall d, Wn d -> pres n S (D_chopPrecisionAndRoundUp d) Wn.
Proof. intros; unfold D_chopPrecisionAndRoundUp; pres_auto. Qed.
Hint Resolve D_chopPrecisionAndRoundUp_pres : pres.
Lemma D_MulRoundUpMut_pres : forall d d2, Wn d -> pres n S (D_MulRoundUpMut d d2) Wn.
Proof. intros; unfold D_MulRoundUpMut; pres_auto. Qed.
Lemma D_MulIntMut_pres : forall d i, Wn d -> pres n S (D_MulIntMut d i) Wn.
Proof. intros; unfold D_MulIntMut; pres_auto. Qed.
Lemma D_QuoMut_pres : forall d d2, Wn d -> pres n S (D_QuoMut d d2) Wn.
Proof. intros; unfold D_QuoMut; pres_auto. Qed.
Lemma D_QuoTruncateMut_pres : forall d d2, Wn d -> pres n S (D_QuoTruncateMut d d2) Wn.
Proof. intros; unfold D_QuoTruncateMut; pres_auto. Qed.
Lemma D_QuoRoundupMut_pres : forall d d2, Wn d -> pres n S (D_QuoRoundupMut d d2) Wn.
Proof. intros; unfold D_QuoRoundupMut; pres_auto. Qed.
Lemma D_QuoIntMut_pres : forall d i, Wn d -> pres n S (D_QuoIntMut d i) Wn.
Proof. intros; unfold D_QuoIntMut; pres_auto. Qed.
Lemma LegacyNewDecFromBigInt_pres : forall i, pres n S (LegacyNewDecFromBigInt i) Wn.
Proof. intros; unfold LegacyNewDecFromBigInt; pres_auto. Qed.
Lemma NewIntFromBigIntMut_pres : forall i, Wn i -> pres n S (NewIntFromBigIntMut i) Wn.
Proof. intros; unfold NewIntFromBigIntMut; pres_auto. Qed.
Lemma D_copy_pres : forall d, pres n S (D_copy d) Wn.
Proof. intros; unfold D_copy; pres_auto. Qed.
Hint Resolve LegacyNewDecFromBigInt_pres NewIntFromBigIntMut_pres D_copy_pres : pres.
Lemma D_Ceil_pres : forall d, pres n S (D_Ceil d) Wn.
Proof. intros; unfold D_Ceil; pres_auto. Qed.
Lemma D_RoundInt_pres : forall d, pres n S (D_RoundInt d) Wn.
Proof. intros; unfold D_RoundInt; pres_auto. Qed.
Lemma D_TruncateInt_pres : forall d, pres n S (D_TruncateInt d) Wn.
Proof. intros; unfold D_TruncateInt; pres_auto. Qed.
Lemma D_TruncateDec_pres : forall d, pres n S (D_TruncateDec d) Wn.
Proof. intros; unfold D_TruncateDec; pres_auto. Qed.

(* BigInt: every operation allocates its result *)
Lemma checkBI_pres : forall c, Wn c -> pres n S (checkBI c) Wn.
Proof. intros; unfold checkBI; pres_auto. Qed.
Hint Resolve checkBI_pres : pres.
Lemma BI_Add_pres : forall i i2, pres n S (BI_Add i i2) Wn.
Proof. intros; unfold BI_Add; pres_auto. Qed.
Lemma BI_Sub_pres : forall i i2, pres n S (BI_Sub i i2) Wn.
Proof. intros; unfold BI_Sub; pres_auto. Qed.
Lemma BI_Mul_pres : forall i i2, pres n S (BI_Mul i i2) Wn.
Proof. intros; unfold BI_Mul; pres_auto. Qed.
Lemma BI_Quo_pres : forall i i2, pres n S (BI_Quo i i2) Wn.
Proof. intros; unfold BI_Quo; pres_auto. Qed.
Lemma BI_Mod_pres : forall i i2, pres n S (BI_Mod i i2) Wn.
Proof. intros; unfold BI_Mod; pres_auto. Qed.
Lemma BI_Neg_pres : forall i, pres n S (BI_Neg i) Wn.
Proof. intros; unfold BI_Neg; pres_auto. Qed.
Lemma BI_Abs_pres : forall i, pres n S (BI_Abs i) Wn.
Proof. intros; unfold BI_Abs; pres_auto. Qed.
Lemma BI_Raw_pres : forall op, (forall i i2, pres n S (op i i2) Wn) -> forall i v, pres n S (BI_Raw op i v) Wn.
Proof. intros op H i v. unfold BI_Raw. eapply pres_bind; [apply pres_bnew|]. intros t Ht. apply H. Qed.
Lemma BI_Min_pres : forall i i2, pres n S (BI_Min i i2) Wn.
Proof. intros; unfold BI_Min; pres_auto. Qed.
Lemma BI_Max_pres : forall i i2, pres n S (BI_Max i i2) Wn.
Proof. intros; unfold BI_Max; pres_auto. Qed.
Lemma BI_ToDec_pres : forall i, pres n S (BI_ToDec i) Wn.
Proof. intros; unfold BI_ToDec; pres_auto. Qed.
Lemma BI_Int64_pres : forall i, pres n S (BI_Int64 i) Wn.
Proof. intros; unfold BI_Int64; pres_auto. Qed.
Lemma BI_Uint64_pres : forall i, pres n S (BI_Uint64 i) Wn.
Proof. intros; unfold BI_Uint64; pres_auto. Qed.
Lemma TruncateInt64_pres : forall d, pres n S (TruncateInt64 d) Wn.
Proof. intros; unfold TruncateInt64; pres_auto. Qed.
Lemma RoundInt64_pres : forall d, pres n S (RoundInt64 d) Wn.
Proof. intros; unfold RoundInt64; pres_auto. Qed.
Lemma IsInteger_pres : forall d, pres n S (IsInteger d) Wn.
Proof. intros; unfold IsInteger; pres_auto. Qed.
Lemma D_IsInteger_pres : forall d, pres n S (D_IsInteger d) Wn.
Proof. intros; unfold D_IsInteger; pres_auto. Qed.
Lemma D_RoundInt64_pres : forall d, pres n S (D_RoundInt64 d) Wn.
Proof. intros; unfold D_RoundInt64; pres_auto. Qed.
Lemma D_TruncateInt64_pres : forall d, pres n S (D_TruncateInt64 d) Wn.
Proof. intros; unfold D_TruncateInt64; pres_auto. Qed.
Lemma D_MulInt64Mut_pres : forall d i, Wn d -> pres n S (D_MulInt64Mut d i) Wn.
Proof. intros; unfold D_MulInt64Mut; pres_auto. Qed.
Lemma D_QuoInt64Mut_pres : forall d i, Wn d -> pres n S (D_QuoInt64Mut d i) Wn.
Proof. intros; unfold D_QuoInt64Mut; pres_auto. Qed.
Lemma ImmutOpZ_pres : forall op, (forall d i, Wn d -> pres n S (op d i) Wn) -> forall d i, pres n S (ImmutOpZ op d i) Wn.
Proof. intros op H d i. unfold ImmutOpZ. eapply pres_bind; [apply Clone_pres|]. intros c Hc. apply H; assumption. Qed.
Lemma D_PowerMut_pres : forall d k, Wn d -> pres n S (D_PowerMut d k) Wn.
Proof.
  intros d k Hd. unfold D_PowerMut.
  destruct (k =? 0); [pres_auto|].
  eapply pres_bind; [apply pres_bnew|]. intros tmp Ht.
  eapply pres_bind; [apply power_loop_pres; auto using D_MulMut_pres with pres|].
  intros d' Hd'. apply D_MulMut_pres; assumption.
Qed.
Lemma D_Power_pres : forall d k, pres n S (D_Power d k) Wn.
Proof. intros; unfold D_Power. eapply pres_bind; [apply D_copy_pres|]. intros c Hc. apply D_PowerMut_pres; assumption. Qed.
Lemma MinBigDec_pres : forall d d2, pres n S (MinBigDec d d2) (fun _ => True).
Proof. intros; unfold MinBigDec; pres_auto. Qed.
Lemma MaxBigDec_pres : forall d d2, pres n S (MaxBigDec d d2) (fun _ => True).
Proof. intros; unfold MaxBigDec; pres_auto. Qed.
Lemma NewBigDecWithPrec_pres : forall i k, pres n S (NewBigDecWithPrec i k) Wn.
Proof. intros; unfold NewBigDecWithPrec; pres_auto. Qed.
Lemma NewBigIntWithDecimal_pres : forall i k, pres n S (NewBigIntWithDecimal i k) Wn.
Proof. intros; unfold NewBigIntWithDecimal; pres_auto. Qed.
Hint Resolve LegacyNewDecFromBigInt_pres NewBigDecWithPrec_pres QuoRoundUpP_pres QuoInt64_pres Quo_pres : pres.
Lemma BigDecFromDecMut_pres : forall d, Wn d -> pres n S (BigDecFromDecMut d) Wn.
Proof. intros; unfold BigDecFromDecMut; auto with pres. Qed.
Hint Resolve BigDecFromDecMut_pres : pres.
Lemma DivIntByU64ToBigDec_pres : forall i u r, pres n S (DivIntByU64ToBigDec i u r) Wn.
Proof. intros; unfold DivIntByU64ToBigDec, QuoRoundUp; pres_auto. Qed.
End Frames.
