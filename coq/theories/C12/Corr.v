(* C12 correspondence glue: run the cell-level model (C12/Model.v) on a harness case and flatten
   its observables; additionally evaluate the value-level functions of Base/DecModel.v (the
   functions other properties build on) and require them to agree with the implementation too. *)
From Coq Require Import ZArith List Bool.
Import ListNotations.
From Osmo Require Import Base.Obs Base.DecModel C12.Model.
Open Scope Z_scope.

Inductive op :=
| OBD_Add | OBD_AddMut | OBD_Sub | OBD_SubMut | OBD_Neg | OBD_NegMut | OBD_Abs | OBD_AbsMut | OBD_Clone
| OBD_Mul | OBD_MulMut | OBD_MulDec | OBD_MulDecMut | OBD_MulTruncate | OBD_MulTruncateDec
| OBD_MulRoundUp | OBD_MulRoundUpDec | OBD_MulInt | OBD_MulInt64
| OBD_Quo | OBD_QuoMut | OBD_QuoRaw | OBD_QuoTruncate | OBD_QuoTruncateMut | OBD_QuoTruncateDec | OBD_QuoTruncateDecMut
| OBD_QuoRoundUp | OBD_QuoByDecRoundUp | OBD_QuoRoundUpMut | OBD_QuoRoundUpNextIntMut | OBD_QuoInt | OBD_QuoInt64
| OBD_Ceil | OBD_CeilMut | OBD_TruncateInt | OBD_TruncateInt64 | OBD_TruncateDec | OBD_RoundInt | OBD_RoundInt64
| OBD_Dec | OBD_DecRoundUp | OBD_DecWithPrecision | OBD_ChopPrecision | OBD_ChopPrecisionMut
| OBD_PowerInteger | OBD_PowerIntegerMut | OBD_IsInteger | OBD_Cmp | OBD_Min | OBD_Max
| OD_Add | OD_AddMut | OD_Sub | OD_SubMut | OD_Neg | OD_NegMut | OD_Abs | OD_AbsMut
| OD_Mul | OD_MulMut | OD_MulTruncate | OD_MulTruncateMut | OD_MulRoundUp | OD_MulRoundUpMut
| OD_MulInt | OD_MulIntMut | OD_MulInt64 | OD_MulInt64Mut
| OD_Quo | OD_QuoMut | OD_QuoTruncate | OD_QuoTruncateMut | OD_QuoRoundUp | OD_QuoRoundupMut
| OD_QuoInt | OD_QuoIntMut | OD_QuoInt64 | OD_QuoInt64Mut
| OD_Ceil | OD_RoundInt | OD_RoundInt64 | OD_TruncateInt | OD_TruncateInt64 | OD_TruncateDec
| OD_Power | OD_PowerMut | OD_IsInteger | OD_ToBigDec | OD_ToBigDecMut | OD_MulDecToBigDec | OD_SigFigRound
| OBI_New | OBI_Add | OBI_AddRaw | OBI_Sub | OBI_SubRaw | OBI_Mul | OBI_MulRaw | OBI_Quo | OBI_QuoRaw
| OBI_Mod | OBI_ModRaw | OBI_Neg | OBI_Abs | OBI_Min | OBI_Max | OBI_ToDec | OBI_Int64 | OBI_Uint64 | OBI_Cmp
| OF_NewBigDec | OF_NewBigDecWithPrec | OF_NewBigDecFromBigInt | OF_NewBigDecFromBigIntMut
| OF_NewBigDecFromBigIntWithPrec | OF_NewBigDecFromBigIntMutWithPrec | OF_NewBigDecFromInt
| OF_NewBigDecFromIntWithPrec | OF_BigDecFromSDKInt | OF_NewBigIntWithDecimal | OF_DivIntByU64ToBigDec
| OF_Zero | OF_One | OF_Smallest.

(* x = receiver cell, y = argument cell (= x for an aliased call), b = the argument as an immediate
   (int64 / uint64 parameters), k = small integer parameter *)
Definition exec (o : op) (x y : nat) (a b k : Z) : M nat :=
  match o with
  | OBD_Add => Add x y | OBD_AddMut => AddMut x y | OBD_Sub => Sub x y | OBD_SubMut => SubMut x y
  | OBD_Neg => Neg x | OBD_NegMut => NegMut x | OBD_Abs => Abs x | OBD_AbsMut => AbsMut x | OBD_Clone => Clone x
  | OBD_Mul => Mul x y | OBD_MulMut => MulMut x y | OBD_MulDec => MulDec x y | OBD_MulDecMut => MulDecMut x y
  | OBD_MulTruncate => MulTruncate x y | OBD_MulTruncateDec => MulTruncateDec x y
  | OBD_MulRoundUp => MulRoundUp x y | OBD_MulRoundUpDec => MulRoundUpDec x y
  | OBD_MulInt => MulInt x y | OBD_MulInt64 => MulInt64 x b
  | OBD_Quo => Quo x y | OBD_QuoMut => QuoMut x y | OBD_QuoRaw => QuoRaw x b
  | OBD_QuoTruncate => QuoTruncate x y | OBD_QuoTruncateMut => QuoTruncateMut x y
  | OBD_QuoTruncateDec => QuoTruncateDec x y | OBD_QuoTruncateDecMut => QuoTruncateDecMut x y
  | OBD_QuoRoundUp => QuoRoundUp x y | OBD_QuoByDecRoundUp => QuoByDecRoundUp x y
  | OBD_QuoRoundUpMut => QuoRoundUpMut x y | OBD_QuoRoundUpNextIntMut => QuoRoundUpNextIntMut x y
  | OBD_QuoInt => QuoInt x y | OBD_QuoInt64 => QuoInt64 x b
  | OBD_Ceil => Ceil x | OBD_CeilMut => CeilMut x
  | OBD_TruncateInt => TruncateInt x | OBD_TruncateInt64 => TruncateInt64 x | OBD_TruncateDec => TruncateDec x
  | OBD_RoundInt => RoundInt x | OBD_RoundInt64 => RoundInt64 x
  | OBD_Dec => ToDec x | OBD_DecRoundUp => DecRoundUp x | OBD_DecWithPrecision => DecWithPrecision x k
  | OBD_ChopPrecision => ChopPrecision x k | OBD_ChopPrecisionMut => ChopPrecisionMut x k
  | OBD_PowerInteger => PowerInteger x k | OBD_PowerIntegerMut => PowerIntegerMut x k
  | OBD_IsInteger => IsInteger x
  | OBD_Cmp => u <- get (L x) ;; v <- get (L y) ;; bnew (cmp_bits u v)
  | OBD_Min => MinBigDec x y | OBD_Max => MaxBigDec x y
  | OD_Add => ImmutOp D_AddMut x y | OD_AddMut => D_AddMut x y
  | OD_Sub => ImmutOp D_SubMut x y | OD_SubMut => D_SubMut x y
  | OD_Neg => Neg x | OD_NegMut => NegMut x | OD_Abs => Abs x | OD_AbsMut => AbsMut x
  | OD_Mul => ImmutOp D_MulMut x y | OD_MulMut => D_MulMut x y
  | OD_MulTruncate => ImmutOp D_MulTruncateMut x y | OD_MulTruncateMut => D_MulTruncateMut x y
  | OD_MulRoundUp => ImmutOp D_MulRoundUpMut x y | OD_MulRoundUpMut => D_MulRoundUpMut x y
  | OD_MulInt => ImmutOp D_MulIntMut x y | OD_MulIntMut => D_MulIntMut x y
  | OD_MulInt64 => ImmutOpZ D_MulInt64Mut x b | OD_MulInt64Mut => D_MulInt64Mut x b
  | OD_Quo => ImmutOp D_QuoMut x y | OD_QuoMut => D_QuoMut x y
  | OD_QuoTruncate => ImmutOp D_QuoTruncateMut x y | OD_QuoTruncateMut => D_QuoTruncateMut x y
  | OD_QuoRoundUp => ImmutOp D_QuoRoundupMut x y | OD_QuoRoundupMut => D_QuoRoundupMut x y
  | OD_QuoInt => ImmutOp D_QuoIntMut x y | OD_QuoIntMut => D_QuoIntMut x y
  | OD_QuoInt64 => ImmutOpZ D_QuoInt64Mut x b | OD_QuoInt64Mut => D_QuoInt64Mut x b
  | OD_Ceil => D_Ceil x | OD_RoundInt => D_RoundInt x | OD_RoundInt64 => D_RoundInt64 x
  | OD_TruncateInt => D_TruncateInt x | OD_TruncateInt64 => D_TruncateInt64 x | OD_TruncateDec => D_TruncateDec x
  | OD_Power => D_Power x k | OD_PowerMut => D_PowerMut x k | OD_IsInteger => D_IsInteger x
  | OD_ToBigDec => BigDecFromDec x | OD_ToBigDecMut => BigDecFromDecMut x
  | OD_MulDecToBigDec => NewBigDecFromDecMulDec x y
  | OD_SigFigRound => SigFigRound x y
  | OBI_New => D_copy x
  | OBI_Add => BI_Add x y | OBI_AddRaw => BI_Raw BI_Add x b | OBI_Sub => BI_Sub x y | OBI_SubRaw => BI_Raw BI_Sub x b
  | OBI_Mul => BI_Mul x y | OBI_MulRaw => BI_Raw BI_Mul x b | OBI_Quo => BI_Quo x y | OBI_QuoRaw => BI_Raw BI_Quo x b
  | OBI_Mod => BI_Mod x y | OBI_ModRaw => BI_Raw BI_Mod x b | OBI_Neg => BI_Neg x | OBI_Abs => BI_Abs x
  | OBI_Min => BI_Min x y | OBI_Max => BI_Max x y | OBI_ToDec => BI_ToDec x
  | OBI_Int64 => BI_Int64 x | OBI_Uint64 => BI_Uint64 x
  | OBI_Cmp => u <- get (L x) ;; v <- get (L y) ;; bnew (cmp_bits u v)
  | OF_NewBigDec => NewBigDecWithPrec a 0
  | OF_NewBigDecWithPrec => NewBigDecWithPrec a k
  | OF_NewBigDecFromBigInt => NewBigDecFromBigIntWithPrec (L x) 0
  | OF_NewBigDecFromBigIntMut => NewBigDecFromBigIntMutWithPrec x 0
  | OF_NewBigDecFromBigIntWithPrec => NewBigDecFromBigIntWithPrec (L x) k
  | OF_NewBigDecFromBigIntMutWithPrec => NewBigDecFromBigIntMutWithPrec x k
  | OF_NewBigDecFromInt => c <- D_copy x ;; NewBigDecFromBigIntWithPrec (L c) 0
  | OF_NewBigDecFromIntWithPrec => c <- D_copy x ;; NewBigDecFromBigIntWithPrec (L c) k
  | OF_BigDecFromSDKInt => NewBigDecFromBigIntWithPrec (L x) 0
  | OF_NewBigIntWithDecimal => NewBigIntWithDecimal a k
  | OF_DivIntByU64ToBigDec => DivIntByU64ToBigDec x b k
  | OF_Zero => bnew 0 | OF_One => OneBigDec | OF_Smallest => bnew 1
  end.

Definition perr_z (e : perr) : Z :=
  match e with EOverflow => 1 | EDivZero => 2 | EPrec => 3 | EFuel => 8 | EOther => 9 end.

Definition init_heap (a b : Z) : heap :=
  mkHeap 2 (fun l => match l with O => a | S O => b | _ => 0 end).

(* raw observation of the cell-level model:
   (panic enum, result, receiver cell after, argument cell after, result shares the receiver's cell) *)
Definition run_raw (o : op) (alias : bool) (a b k : Z) : Z * Z * Z * Z * Z :=
  let y := if alias then 0%nat else 1%nat in
  match exec o 0%nat y a b k (init_heap a b) with
  | Ok h r => (0, rd h r, rd h 0%nat, rd h y, b2z (Nat.eqb r 0))
  | Panic e h => (perr_z e, 0, rd h 0%nat, rd h y, 0)
  end.

(* Encoding of big values in case files.  Parsing a 1144-bit literal costs Coq ~15 ms, so the harness
   sends the operands once per group of forms, and sends each observed big value either in full
   ([full] cases, about one in six) or as a fingerprint: sign, bit length and residue modulo the prime
   2^127 - 1.  Operand values after the call are sent as 0 (unchanged), 1 (equal to the result) or 2 followed
   by the value / fingerprint. *)
Definition fp_mod : Z := 2 ^ 127 - 1.
Definition fp (z : Z) : list Z := [Z.sgn z; bitlen z; Z.abs z mod fp_mod].
Definition enc_val (full : bool) (z : Z) : list Z := if full then [z] else fp z.
Definition enc_after (full : bool) (orig r v : Z) : list Z :=
  if v =? orig then [0] else if v =? r then [1] else 2 :: enc_val full v.

(* Failures are compared as a class only: 0 = the call returned, 1 = it panicked / returned an error.  The kind of a
   failure (overflow, division by zero, precision ...) is what the driver guesses from the panic *text*; the property
   only says that such calls fail, so a reworded message must not count as a disagreement.  The driver's fine kind is
   kept in the evidence as a diagnostic. *)
Definition fail_class (p : Z) : Z := if p =? 0 then 0 else 1.
Definition run_obs (full : bool) (o : op) (alias : bool) (a b k : Z) : list Z :=
  let '(p, r, a2, b2, ra) := run_raw o alias a b k in
  let b0 := if alias then a else b in
  [fail_class p] ++ enc_val full r ++ enc_after full a r a2 ++ enc_after full b0 r b2 ++ [ra].

(* ---- value level: Base/DecModel.v functions with the guards of the code ([p; r]) ---- *)
Definition chk (fits : Z -> bool) (v : Z) : Z * Z := if fits v then (0, v) else (1, 0).
Definition chk_bd := chk bd_fits.
Definition chk_d := chk d_fits.
Definition fits_bits (n : Z) (v : Z) : bool := bitlen v <=? n.
Definition nz (b : Z) (r : Z * Z) : Z * Z := if b =? 0 then (2, 0) else r.
Definition nofail (v : Z) : Z * Z := (0, v).

Definition vspec (o : op) (a b k : Z) : option (Z * Z) :=
  match o with
  | OBD_Add | OBD_AddMut => Some (chk_bd (bd_add a b))
  | OBD_Sub | OBD_SubMut => Some (chk_bd (bd_sub a b))
  | OBD_Mul | OBD_MulMut => Some (chk_bd (bd_mul a b))
  | OBD_MulDec | OBD_MulDecMut => Some (chk_bd (bd_mul_dec a b))
  | OBD_MulTruncate => Some (chk_bd (bd_mul_truncate a b))
  | OBD_MulTruncateDec => Some (chk_bd (bd_mul_truncate_dec a b))
  | OBD_MulRoundUp => Some (chk_bd (bd_mul_round_up a b))
  | OBD_MulRoundUpDec => Some (chk_bd (bd_mul_round_up_dec a b))
  | OBD_MulInt | OBD_MulInt64 => Some (chk_bd (bd_mul_int a b))
  | OBD_Quo | OBD_QuoMut => Some (nz b (chk_bd (bd_quo a b)))
  | OBD_QuoRaw => Some (nz b (chk_bd (bd_quo_raw a b)))
  | OBD_QuoTruncate | OBD_QuoTruncateMut => Some (nz b (chk_bd (bd_quo_truncate a b)))
  | OBD_QuoTruncateDec | OBD_QuoTruncateDecMut => Some (nz b (chk_bd (bd_quo_truncate_dec a b)))
  | OBD_QuoRoundUp => Some (nz b (chk_bd (bd_quo_round_up a b)))
  | OBD_QuoByDecRoundUp => Some (nz b (chk_bd (bd_quo_by_dec_round_up a b)))
  | OBD_QuoRoundUpMut => Some (nz b (chk_bd (bd_quo_round_up_mut a b)))
  | OBD_QuoRoundUpNextIntMut => Some (nz b (chk_bd (bd_quo_round_up_next_int_mut a b)))
  | OBD_QuoInt | OBD_QuoInt64 => Some (nz b (nofail (bd_quo_int a b)))
  | OBD_Ceil | OBD_CeilMut => Some (nofail (bd_ceil a))
  | OBD_TruncateInt => Some (chk (fits_bits max_bit_len) (bd_truncate_int a))
  | OBD_TruncateDec => Some (nofail (bd_truncate_dec a))
  | OBD_RoundInt => Some (chk (fits_bits max_bit_len) (bd_round_int a))
  | OBD_Dec => Some (nofail (bd_to_dec a))
  | OBD_DecRoundUp => Some (nofail (bd_to_dec_round_up a))
  | OBD_DecWithPrecision => Some (if 18 <? k then (3, 0) else nofail (bd_dec_with_precision k a))
  | OBD_ChopPrecision | OBD_ChopPrecisionMut => Some (if 36 <? k then (3, 0) else nofail (bd_chop_precision k a))
  | OD_ToBigDec | OD_ToBigDecMut => Some (nofail (bd_from_dec a))
  | OD_MulDecToBigDec => Some (nofail (bd_from_dec_mul_dec a b))
  | OBI_ToDec | OF_NewBigDecFromBigInt | OF_NewBigDecFromBigIntMut | OF_NewBigDecFromInt | OF_BigDecFromSDKInt
  | OF_NewBigDec => Some (nofail (bd_from_int a))
  | OD_Mul | OD_MulMut => Some (chk_d (d_mul a b))
  | OD_MulTruncate | OD_MulTruncateMut => Some (chk_d (d_mul_truncate a b))
  | OD_MulRoundUp | OD_MulRoundUpMut => Some (chk_d (d_mul_round_up a b))
  | OD_MulInt | OD_MulIntMut | OD_MulInt64 | OD_MulInt64Mut => Some (chk_d (d_mul_int a b))
  | OD_Quo | OD_QuoMut => Some (nz b (chk_d (d_quo a b)))
  | OD_QuoTruncate | OD_QuoTruncateMut => Some (nz b (chk_d (d_quo_truncate a b)))
  | OD_QuoRoundUp | OD_QuoRoundupMut => Some (nz b (chk_d (d_quo_round_up a b)))
  | OD_QuoInt | OD_QuoIntMut | OD_QuoInt64 | OD_QuoInt64Mut => Some (nz b (nofail (d_quo_int a b)))
  | OD_Ceil => Some (chk_d (d_ceil a))
  | OD_TruncateInt => Some (chk (fits_bits max_int_bit_len) (d_truncate_int a))
  | OD_RoundInt => Some (chk (fits_bits max_int_bit_len) (d_round_int a))
  | OD_TruncateDec => Some (nofail (d_truncate_dec a))
  | _ => None
  end.

(* mutating divisions called with the receiver as argument divide the already-scaled receiver by itself:
   there the value-level function (which is what the non-mutating form computes) does not apply *)
Definition is_mut (o : op) : bool :=
  match o with
  | OBD_AddMut | OBD_SubMut | OBD_MulMut | OBD_MulDecMut | OBD_QuoMut | OBD_QuoTruncateMut | OBD_QuoTruncateDecMut
  | OBD_QuoRoundUpMut | OBD_QuoRoundUpNextIntMut | OD_AddMut | OD_SubMut | OD_MulMut | OD_MulTruncateMut
  | OD_MulRoundUpMut | OD_QuoMut | OD_QuoTruncateMut | OD_QuoRoundupMut => true
  | _ => false
  end.

Record case := mkC {
  c_op : op; c_alias : bool; c_full : bool; c_a : Z; c_b : Z; c_k : Z;
  c_expect : list Z }.               (* implementation: [fail_class p] ++ enc r ++ enc_after a ++ enc_after b ++ [ra] *)

Definition model_obs (c : case) : list Z := run_obs (c_full c) (c_op c) (c_alias c) (c_a c) (c_b c) (c_k c).

Fixpoint zlist_prefix (a b : list Z) : bool :=
  match a, b with
  | [], _ => true
  | x :: a', y :: b' => (x =? y) && zlist_prefix a' b'
  | _, [] => false
  end.

Definition spec_ok (c : case) : bool :=
  if c_alias c && is_mut (c_op c) then true else
  match vspec (c_op c) (c_a c) (if c_alias c then c_a c else c_b c) (c_k c) with
  | Some (p, r) => zlist_prefix ([fail_class p] ++ enc_val (c_full c) r) (c_expect c)
  | None => true
  end.

Definition case_ok (c : case) : bool := zlist_eqb (model_obs c) (c_expect c) && spec_ok c.

(* a group: the operands once, then the forms run on them *)
Record group := mkG { g_a : Z; g_b : Z; g_k : Z; g_forms : list (op * bool * bool * list Z) }.
Definition expand1 (g : group) : list case :=
  map (fun f => let '(o, al, fu, ex) := f in mkC o al fu (g_a g) (g_b g) (g_k g) ex) (g_forms g).
Definition expand (gs : list group) : list case := flat_map expand1 gs.
