(* C12/CodecProofs.v - round trips of the encodings of C12/Codec.v and rejection of malformed text. *)
From Coq Require Import ZArith List Bool Lia DecimalPos DecimalN DecimalFacts.
Import ListNotations.
From Osmo Require Import Base.DecModel C12.Codec.
Open Scope Z_scope.

Definition is_digit (c : Z) : Prop := 48 <= c <= 57.

Lemma digit_val_digit : forall c, is_digit c -> digit_val c = Some (c - 48).
Proof.
  intros c [H1 H2]. unfold digit_val.
  destruct (Z.leb_spec 48 c); [|lia]. destruct (Z.leb_spec c 57); [|lia]. reflexivity.
Qed.

Lemma digits_val_step : forall c r acc, is_digit c ->
  digits_val 10 (c :: r) acc = digits_val 10 r (acc * 10 + (c - 48)).
Proof.
  intros c r acc H. cbn [digits_val]. rewrite digit_val_digit by assumption.
  destruct (Z.ltb_spec (c - 48) 10); [reflexivity|unfold is_digit in H; lia].
Qed.

Lemma uint_bytes_digits : forall u, Forall is_digit (uint_bytes u).
Proof. induction u; cbn; constructor; try assumption; unfold is_digit; lia. Qed.

(* scanning the digits of a Decimal.uint computes Pos.of_uint_acc / Pos.of_uint *)
Lemma digits_val_acc : forall u acc,
  digits_val 10 (uint_bytes u) (Z.pos acc) = Some (Z.pos (Pos.of_uint_acc u acc)).
Proof.
  induction u; intros acc; cbn [uint_bytes Pos.of_uint_acc]; try reflexivity;
    rewrite digits_val_step by (unfold is_digit; lia);
    match goal with |- digits_val 10 _ ?x = Some (Z.pos (Pos.of_uint_acc _ ?y)) =>
      replace x with (Z.pos y) by lia end; apply IHu.
Qed.
Lemma digits_val_of_uint : forall u, digits_val 10 (uint_bytes u) 0 = Some (Z.of_N (Pos.of_uint u)).
Proof.
  induction u; cbn [uint_bytes Pos.of_uint]; try reflexivity;
    rewrite digits_val_step by (unfold is_digit; lia); cbn [Z.mul Z.add Z.sub Z.opp Z.pos_sub Pos.pred_double];
    first [exact IHu | apply digits_val_acc].
Qed.
Lemma digits_val_nat_text : forall n, 0 <= n -> digits_val 10 (nat_text n) 0 = Some n.
Proof.
  intros n Hn. unfold nat_text. rewrite digits_val_of_uint.
  change (Pos.of_uint (N.to_uint (Z.to_N n))) with (N.of_uint (N.to_uint (Z.to_N n))).
  rewrite DecimalN.Unsigned.of_to. rewrite Z2N.id by assumption. reflexivity.
Qed.
Lemma nat_text_digits : forall n, Forall is_digit (nat_text n).
Proof. intros; apply uint_bytes_digits. Qed.
Lemma uint_bytes_nonnil : forall u, u <> Decimal.Nil -> uint_bytes u <> [].
Proof. destruct u; cbn; congruence. Qed.
Lemma nat_text_nonnil : forall n, nat_text n <> [].
Proof.
  intros n. unfold nat_text. apply uint_bytes_nonnil.
  destruct (Z.to_N n); cbn; [discriminate|]. apply DecimalPos.Unsigned.to_uint_nonnil.
Qed.

(* no leading zero: the text of n > 0 does not start with '0' *)
Lemma unorm_head : forall d,
  match Decimal.unorm d with Decimal.Nil => False | Decimal.D0 Decimal.Nil => True | Decimal.D0 _ => False | _ => True end.
Proof.
  intros d. unfold Decimal.unorm. induction d; cbn; auto.
Qed.
Lemma pos_to_uint_head : forall p,
  match Pos.to_uint p with Decimal.Nil | Decimal.D0 _ => False | _ => True end.
Proof.
  intros p. pose proof (DecimalPos.Unsigned.to_of (Pos.to_uint p)) as H.
  rewrite DecimalPos.Unsigned.of_to in H. cbn [N.to_uint] in H.
  pose proof (unorm_head (Pos.to_uint p)) as U. rewrite <- H in U.
  destruct (Pos.to_uint p) as [|u| | | | | | | | | ] eqn:E; auto.
  destruct u; auto.
  (* Pos.to_uint p = D0 Nil would give of_uint = 0 *)
  pose proof (DecimalPos.Unsigned.of_to p) as O. rewrite E in O. cbn in O. discriminate.
Qed.
Lemma nat_text_head : forall n, 0 < n -> exists c r, nat_text n = c :: r /\ c <> 48.
Proof.
  intros n Hn. unfold nat_text. destruct (Z.to_N n) eqn:E; [lia|]. cbn [N.to_uint].
  pose proof (pos_to_uint_head p) as H.
  destruct (Pos.to_uint p); cbn [uint_bytes]; try contradiction; eexists; eexists; (split; [reflexivity|lia]).
Qed.
Lemma nat_text_0 : nat_text 0 = [48].
Proof. reflexivity. Qed.

(* generic facts on digit strings *)
Lemma digits_val_app : forall base s1 s2 acc,
  digits_val base (s1 ++ s2) acc =
  match digits_val base s1 acc with Some v => digits_val base s2 v | None => None end.
Proof.
  induction s1; intros s2 acc; cbn [app digits_val]; [reflexivity|].
  destruct (digit_val a); [|reflexivity]. destruct (z <? base); [apply IHs1|reflexivity].
Qed.
Lemma digits_val_zeros : forall k acc, digits_val 10 (repeat 48 k) acc = Some (acc * 10 ^ Z.of_nat k).
Proof.
  induction k; intros acc; cbn [repeat]; [cbn; f_equal; lia|].
  rewrite digits_val_step by (unfold is_digit; lia). rewrite IHk. f_equal.
  rewrite Nat2Z.inj_succ, Z.pow_succ_r by lia. lia.
Qed.
Lemma digits_val_leading_zeros : forall k s, digits_val 10 (repeat 48 k ++ s) 0 = digits_val 10 s 0.
Proof. intros. rewrite digits_val_app, digits_val_zeros. reflexivity. Qed.

Lemma split_on_no : forall c s cur, ~ In c s -> split_on c s cur = [rev cur ++ s].
Proof.
  induction s; intros cur H; cbn [split_on]; [rewrite List.app_nil_r; reflexivity|].
  destruct (Z.eqb_spec a c); [exfalso; apply H; left; auto|].
  rewrite IHs by (intro; apply H; right; assumption). cbn [rev]. rewrite <- List.app_assoc. reflexivity.
Qed.
Lemma split_on_one : forall c s1 s2, ~ In c s1 -> ~ In c s2 -> split_on c (s1 ++ c :: s2) [] = [s1; s2].
Proof.
  intros c s1 s2 H1 H2. assert (G : forall cur, split_on c (s1 ++ c :: s2) cur = [rev cur ++ s1; s2]).
  { induction s1; intros cur; cbn [app split_on].
    - rewrite Z.eqb_refl, List.app_nil_r. rewrite split_on_no by assumption. reflexivity.
    - destruct (Z.eqb_spec a c); [exfalso; apply H1; left; auto|].
      rewrite IHs1 by (intro; apply H1; right; assumption). cbn [rev]. rewrite <- List.app_assoc. reflexivity. }
  apply G.
Qed.
Lemma digits_not_in : forall c s, Forall is_digit s -> ~ is_digit c -> ~ In c s.
Proof. intros c s F N I. rewrite Forall_forall in F. apply N, F, I. Qed.

(* ---- String / FromStr ---- *)
Definition dec_body (prec : nat) (a : Z) : list Z :=
  let bz := nat_text a in let n := length bz in
  if (n <=? prec)%nat then [c_zero; c_dot] ++ repeat c_zero (prec - n) ++ bz
  else firstn (n - prec) bz ++ [c_dot] ++ skipn (n - prec) bz.
Lemma dec_string_body : forall prec d,
  dec_string prec d = if d <? 0 then c_minus :: dec_body prec (Z.abs d) else dec_body prec (Z.abs d).
Proof. reflexivity. Qed.

Lemma Forall_firstn : forall A (P : A -> Prop) n l, Forall P l -> Forall P (firstn n l).
Proof.
  intros A P n. induction n; intros l H; cbn; [constructor|].
  destruct l; [constructor|]. inversion H; subst. constructor; auto.
Qed.
Lemma Forall_skipn : forall A (P : A -> Prop) n l, Forall P l -> Forall P (skipn n l).
Proof.
  intros A P n. induction n; intros l H; cbn; [assumption|].
  destruct l; [constructor|]. inversion H; subst. auto.
Qed.
Lemma Forall_repeat : forall A (P : A -> Prop) x n, P x -> Forall P (repeat x n).
Proof. intros A P x n H. induction n; cbn; constructor; auto. Qed.

Lemma dec_body_shape : forall prec a, (0 < prec)%nat -> 0 <= a ->
  exists i f, dec_body prec a = i ++ c_dot :: f /\ Forall is_digit i /\ Forall is_digit f /\
              i <> [] /\ length f = prec /\ digits_val 10 (i ++ f) 0 = Some a.
Proof.
  intros prec a Hp Ha. unfold dec_body.
  pose proof (nat_text_digits a) as Dg. pose proof (nat_text_nonnil a) as Nn.
  pose proof (digits_val_nat_text a Ha) as V.
  set (bz := nat_text a) in *. set (n := length bz).
  destruct (Nat.leb_spec n prec) as [L|L].
  - exists [c_zero], (repeat c_zero (prec - n) ++ bz). repeat split.
    + constructor; [unfold is_digit, c_zero; lia|constructor].
    + apply Forall_app; split; [apply Forall_repeat; unfold is_digit, c_zero; lia|assumption].
    + discriminate.
    + rewrite app_length, repeat_length. unfold n. lia.
    + change ([c_zero] ++ repeat c_zero (prec - n) ++ bz) with (repeat 48 (Datatypes.S (prec - n)) ++ bz).
      rewrite digits_val_leading_zeros. exact V.
  - exists (firstn (n - prec) bz), (skipn (n - prec) bz). repeat split.
    + apply Forall_firstn; assumption.
    + apply Forall_skipn; assumption.
    + intro E. apply (f_equal (@length Z)) in E. rewrite firstn_length in E. cbn in E. unfold n in *. lia.
    + rewrite skipn_length. unfold n. lia.
    + rewrite firstn_skipn. exact V.
Qed.

Lemma set_string10_digits : forall s, Forall is_digit s -> s <> [] ->
  set_string 10 s = of_opt (digits_val 10 s 0).
Proof.
  intros s F N. destruct s as [|c r]; [contradiction|]. inversion F; subst.
  unfold set_string. destruct (Z.eqb_spec c c_minus); [unfold is_digit, c_minus in *; lia|].
  destruct (Z.eqb_spec c c_plus); [unfold is_digit, c_plus in *; lia|].
  reflexivity.
Qed.

Lemma parse_unsigned_body : forall prec fits neg a, (0 < prec)%nat -> 0 <= a ->
  dec_parse_unsigned prec fits neg (dec_body prec a) =
  if fits a then DOk (if neg then - a else a) else DErr.
Proof.
  intros prec fits neg a Hp Ha.
  destruct (dec_body_shape prec a Hp Ha) as (i & f & Eb & Di & Df & Ni & Lf & V).
  unfold dec_parse_unsigned. rewrite Eb.
  destruct i as [|i0 ir]; [contradiction|]. cbn [app]. cbv zeta.
  change (i0 :: ir ++ c_dot :: f) with ((i0 :: ir) ++ c_dot :: f).
  rewrite split_on_one by (apply digits_not_in; [assumption|unfold is_digit, c_dot; lia]).
  destruct f as [|f0 fr]; [cbn in Lf; lia|].
  rewrite Lf. rewrite Nat.ltb_irrefl, Nat.sub_diag. cbn [repeat]. rewrite List.app_nil_r.
  rewrite set_string10_digits; [|apply Forall_app; split; assumption|discriminate].
  rewrite V. reflexivity.
Qed.
Lemma dec_body_head : forall prec a, (0 < prec)%nat -> 0 <= a -> exists c r, dec_body prec a = c :: r /\ is_digit c.
Proof.
  intros prec a Hp Ha. destruct (dec_body_shape prec a Hp Ha) as (i & f & Eb & Di & Df & Ni & Lf & V).
  rewrite Eb. destruct i as [|c r]; [contradiction|]. inversion Di; subst. eexists; eexists; split; [reflexivity|assumption].
Qed.
Lemma dec_from_str_string : forall prec fits d, (0 < prec)%nat ->
  dec_from_str prec fits (dec_string prec d) = if fits (Z.abs d) then DOk d else DErr.
Proof.
  intros prec fits d Hp. rewrite dec_string_body.
  destruct (dec_body_head prec (Z.abs d) Hp (Z.abs_nonneg d)) as (c & r & Ehd & Dc).
  destruct (Z.ltb_spec d 0) as [Hneg|Hpos].
  - unfold dec_from_str. rewrite Z.eqb_refl. rewrite parse_unsigned_body by (auto; lia).
    destruct (fits (Z.abs d)); [f_equal; lia|reflexivity].
  - unfold dec_from_str. rewrite Ehd.
    destruct (Z.eqb_spec c c_minus); [unfold is_digit, c_minus in *; lia|]. rewrite <- Ehd.
    rewrite parse_unsigned_body by (auto; lia).
    destruct (fits (Z.abs d)); [f_equal; lia|reflexivity].
Qed.
Theorem dec_roundtrip : forall prec fits d, (0 < prec)%nat -> fits (Z.abs d) = true ->
  dec_from_str prec fits (dec_string prec d) = DOk d.
Proof. intros prec fits d Hp Hf. rewrite dec_from_str_string by assumption. rewrite Hf. reflexivity. Qed.
(* values the decoder's range check refuses do not come back: the general form of finding F8 *)
Theorem dec_no_roundtrip : forall prec fits d, (0 < prec)%nat -> fits (Z.abs d) = false ->
  dec_from_str prec fits (dec_string prec d) = DErr.
Proof. intros prec fits d Hp Hf. rewrite dec_from_str_string by assumption. rewrite Hf. reflexivity. Qed.

(* ---- Marshal / Unmarshal (big.Int text, base-0 scanner) ---- *)
Lemma existsb_underscore_digits : forall s, Forall is_digit s -> existsb (Z.eqb c_underscore) s = false.
Proof.
  induction 1; cbn [existsb]; [reflexivity|]. destruct (Z.eqb_spec c_underscore x); [unfold is_digit, c_underscore in *; lia|assumption].
Qed.
Lemma scan_mag0_nat_text : forall a, 0 <= a -> scan_mag 0 (nat_text a) = SOk a.
Proof.
  intros a Ha. unfold scan_mag. cbn [Z.eqb]. rewrite existsb_underscore_digits by apply nat_text_digits.
  pose proof (digits_val_nat_text a Ha) as V. pose proof (nat_text_nonnil a) as N.
  destruct (Z.eq_dec a 0) as [->|Hnz].
  - reflexivity.
  - destruct (nat_text_head a ltac:(lia)) as (c & r & E & Hc). rewrite E in *.
    assert (G : nonempty_digits 10 (c :: r) = Some a) by exact V.
    destruct c as [|p|p]; try (rewrite G; reflexivity).
    do 6 (destruct p as [p|p|]; try (rewrite G; reflexivity)). contradiction.
Qed.
Lemma nat_text_first_not_sign : forall a, 0 <= a -> exists c r, nat_text a = c :: r /\ is_digit c.
Proof.
  intros a Ha. pose proof (nat_text_digits a) as D. pose proof (nat_text_nonnil a) as N.
  destruct (nat_text a) as [|c r]; [contradiction|]. inversion D; subst. eauto.
Qed.
Lemma set_string0_int_text : forall z, set_string 0 (int_text z) = SOk z.
Proof.
  intros z. unfold int_text. destruct (Z.ltb_spec z 0).
  - unfold set_string. rewrite Z.eqb_refl. rewrite scan_mag0_nat_text by lia. cbn. f_equal. lia.
  - destruct (nat_text_first_not_sign z H) as (c & r & E & Dc). unfold set_string. rewrite E.
    destruct (Z.eqb_spec c c_minus); [unfold is_digit, c_minus in *; lia|].
    destruct (Z.eqb_spec c c_plus); [unfold is_digit, c_plus in *; lia|].
    rewrite <- E. apply scan_mag0_nat_text; assumption.
Qed.
Lemma int_text_nonnil : forall z, int_text z <> [].
Proof. intros z. unfold int_text. destruct (z <? 0); [discriminate|apply nat_text_nonnil]. Qed.
Theorem int_roundtrip : forall fits z, fits z = true -> int_unmarshal fits (int_text z) = DOk z.
Proof.
  intros fits z Hf. unfold int_unmarshal. pose proof (int_text_nonnil z) as N.
  destruct (int_text z) eqn:E; [contradiction|]. rewrite <- E, set_string0_int_text. cbn. rewrite Hf. reflexivity.
Qed.
Theorem int_no_roundtrip : forall fits z, fits z = false -> int_unmarshal fits (int_text z) = DErr.
Proof.
  intros fits z Hf. unfold int_unmarshal. pose proof (int_text_nonnil z) as N.
  destruct (int_text z) eqn:E; [contradiction|]. rewrite <- E, set_string0_int_text. cbn. rewrite Hf. reflexivity.
Qed.

(* ---- JSON ---- *)
Definition json_plain (c : Z) : Prop := 32 <= c < 128 /\ c <> c_quote /\ c <> c_backslash.
Lemma json_body_plain : forall s acc, Forall json_plain s -> json_body (s ++ [c_quote]) acc = JOk (rev acc ++ s).
Proof.
  induction s; intros acc F; cbn [app json_body].
  - rewrite Z.eqb_refl. cbn. rewrite List.app_nil_r. reflexivity.
  - inversion F as [|? ? (B & Q & S) F']; subst.
    destruct (Z.eqb_spec a c_quote); [contradiction|].
    destruct (Z.eqb_spec a c_backslash); [contradiction|]. cbn [orb].
    destruct (Z.leb_spec 128 a); [lia|]. destruct (Z.ltb_spec a 32); [lia|].
    rewrite IHs by assumption. cbn [rev]. rewrite <- List.app_assoc. reflexivity.
Qed.
Lemma json_string_quote : forall s, Forall json_plain s -> json_string (json_quote s) = JOk s.
Proof.
  intros s F. unfold json_string, json_quote. cbn [drop_ws].
  change (is_ws c_quote) with false. cbv iota. rewrite Z.eqb_refl. apply (json_body_plain s []); assumption.
Qed.
Lemma digit_plain : forall c, is_digit c -> json_plain c.
Proof. intros c [A B]. unfold json_plain, c_quote, c_backslash. lia. Qed.
Lemma Forall_impl' : forall A (P Q : A -> Prop) l, (forall x, P x -> Q x) -> Forall P l -> Forall Q l.
Proof. intros; eapply Forall_impl; eauto. Qed.
Lemma dec_string_plain : forall prec d, Forall json_plain (dec_string prec d).
Proof.
  intros prec d. rewrite dec_string_body.
  assert (B : Forall json_plain (dec_body prec (Z.abs d))).
  { unfold dec_body. pose proof (Forall_impl' _ _ _ _ digit_plain (nat_text_digits (Z.abs d))) as D.
    assert (Z0 : json_plain c_zero) by (unfold json_plain, c_zero, c_quote, c_backslash; lia).
    assert (Dt : json_plain c_dot) by (unfold json_plain, c_dot, c_quote, c_backslash; lia).
    destruct (_ <=? _)%nat.
    - constructor; [exact Z0|]. constructor; [exact Dt|]. apply Forall_app; split; [apply Forall_repeat; exact Z0|exact D].
    - apply Forall_app; split; [apply Forall_firstn; exact D|]. constructor; [exact Dt|apply Forall_skipn; exact D]. }
  destruct (d <? 0); [constructor; [unfold json_plain, c_minus, c_quote, c_backslash; lia|exact B]|exact B].
Qed.
Lemma int_text_plain : forall z, Forall json_plain (int_text z).
Proof.
  intros z. unfold int_text.
  pose proof (fun a => Forall_impl' _ _ _ _ digit_plain (nat_text_digits a)) as D.
  destruct (z <? 0); [constructor; [unfold json_plain, c_minus, c_quote, c_backslash; lia|apply D]|apply D].
Qed.

(* ---- the three encodings of the three types ---- *)
Lemma abs_bitlen : forall d, bitlen (Z.abs d) = bitlen d.
Proof. intros d. unfold bitlen. rewrite Z.abs_involutive. destruct d; reflexivity. Qed.
Lemma d_fits_abs : forall d, d_fits (Z.abs d) = d_fits d.
Proof.
  intros d. unfold d_fits. destruct (Z.abs_spec d) as [[? ->]|[? ->]]; [reflexivity|].
  destruct (Z.leb_spec (- d) upper_limit18), (Z.leb_spec (- upper_limit18) (- d)),
    (Z.leb_spec d upper_limit18), (Z.leb_spec (- upper_limit18) d); try reflexivity; try lia;
    assert (0 < upper_limit18) by reflexivity; lia.
Qed.

Theorem bd_text_roundtrip : forall d, bitlen d <= max_bit_len -> bd_from_str (bd_string d) = DOk d.
Proof.
  intros d H. apply dec_roundtrip; [lia|]. unfold fits_bd_parse. rewrite abs_bitlen. apply Z.leb_le; assumption.
Qed.
Theorem bd_binary_roundtrip : forall d, bitlen d <= max_bit_len -> bd_unmarshal (bd_marshal d) = DOk d.
Proof. intros d H. apply int_roundtrip. unfold fits_bd_parse. apply Z.leb_le; assumption. Qed.
Theorem bd_json_roundtrip : forall d, bitlen d <= max_bit_len -> bd_unmarshal_json (bd_marshal_json d) = DOk d.
Proof.
  intros d H. unfold bd_unmarshal_json, unmarshal_json_with, bd_marshal_json.
  rewrite json_string_quote by apply dec_string_plain. apply bd_text_roundtrip; assumption.
Qed.
(* F8: every value above the parsers' bound is rejected by all three decoders *)
Theorem bd_text_no_roundtrip : forall d, max_bit_len < bitlen d -> bd_from_str (bd_string d) = DErr.
Proof.
  intros d H. apply dec_no_roundtrip; [lia|]. unfold fits_bd_parse. rewrite abs_bitlen. apply Z.leb_gt; assumption.
Qed.
Theorem bd_binary_no_roundtrip : forall d, max_bit_len < bitlen d -> bd_unmarshal (bd_marshal d) = DErr.
Proof. intros d H. apply int_no_roundtrip. unfold fits_bd_parse. apply Z.leb_gt; assumption. Qed.
Theorem bd_json_no_roundtrip : forall d, max_bit_len < bitlen d -> bd_unmarshal_json (bd_marshal_json d) = DErr.
Proof.
  intros d H. unfold bd_unmarshal_json, unmarshal_json_with, bd_marshal_json.
  rewrite json_string_quote by apply dec_string_plain. apply bd_text_no_roundtrip; assumption.
Qed.

Theorem d_text_roundtrip : forall d, d_fits d = true -> d_from_str (d_string d) = DOk d.
Proof. intros d H. apply dec_roundtrip; [lia|]. rewrite d_fits_abs. assumption. Qed.
Theorem d_binary_roundtrip : forall d, d_fits d = true -> d_unmarshal (int_text d) = DOk d.
Proof. intros d H. apply int_roundtrip; assumption. Qed.
Theorem d_json_roundtrip : forall d, d_fits d = true -> d_unmarshal_json (d_marshal_json d) = DOk d.
Proof.
  intros d H. unfold d_unmarshal_json, unmarshal_json_with, d_marshal_json.
  rewrite json_string_quote by apply dec_string_plain. apply d_text_roundtrip; assumption.
Qed.

Theorem bi_text_roundtrip : forall i, bitlen i <= max_bit_len -> bi_from_string (int_text i) = DOk i.
Proof.
  intros i H. unfold bi_from_string. rewrite set_string0_int_text. cbn. unfold fits_bi.
  destruct (Z.leb_spec (bitlen i) max_bit_len); [reflexivity|lia].
Qed.
Theorem bi_binary_roundtrip : forall i, bitlen i <= max_bit_len -> bi_unmarshal (int_text i) = DOk i.
Proof. intros i H. apply int_roundtrip. unfold fits_bi. apply Z.leb_le; assumption. Qed.
Theorem bi_json_roundtrip : forall i, bitlen i <= max_bit_len -> bi_unmarshal_json (bi_marshal_json i) = DOk i.
Proof.
  intros i H. unfold bi_unmarshal_json, bi_marshal_json. rewrite json_string_quote by apply int_text_plain.
  rewrite set_string0_int_text. cbn. unfold fits_bi. destruct (Z.leb_spec (bitlen i) max_bit_len); [reflexivity|lia].
Qed.

(* ---- malformed text is rejected ---- *)
Lemma reject_empty : forall prec fits, dec_from_str prec fits [] = DErr.
Proof. reflexivity. Qed.
Lemma reject_lone_minus : forall prec fits, dec_from_str prec fits [c_minus] = DErr.
Proof. reflexivity. Qed.
Lemma split_on_length : forall c s cur, length (split_on c s cur) = Datatypes.S (count_occ Z.eq_dec s c).
Proof.
  induction s; intros cur; cbn [split_on count_occ length]; [reflexivity|].
  destruct (Z.eqb_spec a c), (Z.eq_dec a c); try contradiction; cbn [length]; rewrite IHs; reflexivity.
Qed.
Lemma parse_unsigned_two_dots : forall prec fits neg s,
  (2 <= count_occ Z.eq_dec s c_dot)%nat -> dec_parse_unsigned prec fits neg s = DErr.
Proof.
  intros prec fits neg s H. unfold dec_parse_unsigned. destruct s as [|x r]; [reflexivity|]. cbv zeta.
  pose proof (split_on_length c_dot (x :: r) []) as L.
  destruct (split_on c_dot (x :: r) []) as [|p1 [|p2 [|p3 t]]]; cbn [length] in L; try lia; reflexivity.
Qed.
Theorem reject_two_dots : forall prec fits s,
  (2 <= count_occ Z.eq_dec s c_dot)%nat -> dec_from_str prec fits s = DErr.
Proof.
  intros prec fits s H. unfold dec_from_str. destruct s as [|c0 r0]; [reflexivity|].
  destruct (Z.eqb_spec c0 c_minus) as [->|N].
  - apply parse_unsigned_two_dots. cbn [count_occ] in H. destruct (Z.eq_dec c_minus c_dot); [discriminate|assumption].
  - apply parse_unsigned_two_dots; assumption.
Qed.
Lemma parse_unsigned_too_precise : forall prec fits neg i f,
  Forall is_digit i -> i <> [] -> Forall is_digit f -> (prec < length f)%nat ->
  dec_parse_unsigned prec fits neg (i ++ c_dot :: f) = DErr.
Proof.
  intros prec fits neg i f Di Ni Df L. unfold dec_parse_unsigned.
  destruct i as [|i0 ir]; [contradiction|]. cbn [app]. cbv zeta.
  change (i0 :: ir ++ c_dot :: f) with ((i0 :: ir) ++ c_dot :: f).
  rewrite split_on_one by (apply digits_not_in; [assumption|unfold is_digit, c_dot; lia]).
  destruct f as [|f0 fr]; [reflexivity|].
  destruct (Nat.ltb_spec prec (length (f0 :: fr))); [reflexivity|lia].
Qed.
Theorem reject_too_many_decimals : forall prec fits i f,
  Forall is_digit i -> i <> [] -> Forall is_digit f -> (prec < length f)%nat ->
  dec_from_str prec fits (i ++ c_dot :: f) = DErr /\ dec_from_str prec fits (c_minus :: i ++ c_dot :: f) = DErr.
Proof.
  intros prec fits i f Di Ni Df L. split.
  - unfold dec_from_str. destruct i as [|c r] eqn:E; [contradiction|]. cbn [app].
    inversion Di; subst. destruct (Z.eqb_spec c c_minus); [unfold is_digit, c_minus in *; lia|].
    change (c :: r ++ c_dot :: f) with ((c :: r) ++ c_dot :: f). apply parse_unsigned_too_precise; assumption.
  - unfold dec_from_str. rewrite Z.eqb_refl. apply parse_unsigned_too_precise; assumption.
Qed.
(* F8 witness: 2^1024 is representable (1025 <= 1144 bits, arithmetic accepts it) and no decoder takes it back *)
Lemma f8_witness : bd_fits (2 ^ 1024) = true /\ bd_from_str (bd_string (2 ^ 1024)) = DErr /\
  bd_unmarshal (bd_marshal (2 ^ 1024)) = DErr /\ bd_unmarshal_json (bd_marshal_json (2 ^ 1024)) = DErr.
Proof. repeat split; vm_compute; reflexivity. Qed.
