(* C12/Refine.v - the cell-level programs of C12/Model.v compute the value-level functions of
   Base/DecModel.v (for calls whose receiver and argument are different cells), fail exactly when the
   result does not fit, and the non-mutating forms return the same value as the mutating ones. *)
From Coq Require Import ZArith List Bool Lia.
Import ListNotations.
From Osmo Require Import Base.DecModel C12.Model C12.Heap C12.Frame.
Open Scope Z_scope.

Lemma sgn_eqb_0 : forall r, (Z.sgn r =? 0) = (r =? 0).
Proof. intros r. destruct r; reflexivity. Qed.
Lemma sgn_eqb_m1 : forall r, (Z.sgn r =? -1) = (r <? 0).
Proof. intros r. destruct r; reflexivity. Qed.
Lemma even_negb_odd : forall q, Z.even q = negb (Z.odd q).
Proof. intros; rewrite <- Z.negb_odd. reflexivity. Qed.

Definition never (e : perr) (h : heap) : Prop := False.

(* combine a value spec with the frame judgement of the same program *)
Lemma spec_pres : forall A (m : M A) h n S (R : A -> Prop) (Q : heap -> A -> Prop) (E : perr -> heap -> Prop),
  pres n S m R -> (n <= next h)%nat -> spec m h Q E ->
  spec m h (fun h' a => Q h' a /\ frame n S h h' /\ R a) (fun e h' => E e h' /\ frame n S h h').
Proof.
  intros A m h n S R Q E Hp Hn Hs. specialize (Hp h Hn). unfold spec in *.
  destruct (m h); intuition.
Qed.

(* ---- chopPrecisionAndRound ---- *)
Lemma chopPR_core_ok : forall p half h d, p <> 0 -> half = Z.quot p 2 -> (d < next h)%nat ->
  spec (chopPR_core p half d) h (fun h' r => r = d /\ rd h' d = chop_round_nonneg p (rd h d)) never.
Proof.
  intros p half h d Hp Hh Hd. unfold chopPR_core.
  ssteps. sdiv; [intros; contradiction|intros _].
  heap_simp. ssteps. unfold chop_round_nonneg. rewrite sgn_eqb_0. subst half.
  destruct (Z.rem (rd h d) p =? 0).
  - ssteps. auto.
  - destruct (Z.rem (rd h d) p ?= Z.quot p 2).
    + ssteps. rewrite even_negb_odd. destruct (Z.odd (Z.quot (rd h d) p)); cbn [negb]; ssteps; auto.
    + ssteps. auto.
    + ssteps. auto.
Qed.

Lemma chopPrecisionAndRoundP_ok : forall p half h d, p <> 0 -> half = Z.quot p 2 -> (d < next h)%nat ->
  spec (chopPrecisionAndRoundP p half d) h (fun h' r => r = d /\ rd h' d = chop_round p (rd h d)) never.
Proof.
  intros p half h d Hp Hh Hd. unfold chopPrecisionAndRoundP, chop_round.
  ssteps. rewrite sgn_eqb_m1. destruct (rd h d <? 0).
  - ssteps. repeat sbind. eapply spec_weaken; [apply (chopPR_core_ok p half); auto| |intros ? ? []].
    cbn beta. intros h1 r [-> V]. heap_simp_in V. ssteps. split; [reflexivity|]. rewrite V. reflexivity.
  - apply chopPR_core_ok; auto.
Qed.

Lemma assertMaxBitLen_ok : forall h i (Q : heap -> unit -> Prop) (E : perr -> heap -> Prop),
  (bd_fits (rd h i) = true -> Q h tt) -> (bd_fits (rd h i) = false -> E EOverflow h) ->
  spec (assertMaxBitLen i) h Q E.
Proof.
  intros h i Q E H1 H2. unfold assertMaxBitLen. ssteps. unfold bd_fits in *.
  destruct (bitlen (rd h i) <=? max_dec_bit_len); ssteps; auto.
Qed.
Lemma assertInValidRange_ok : forall h i (Q : heap -> unit -> Prop) (E : perr -> heap -> Prop),
  (d_fits (rd h i) = true -> Q h tt) -> (d_fits (rd h i) = false -> E EOverflow h) ->
  spec (assertInValidRange i) h Q E.
Proof.
  intros h i Q E H1 H2. unfold assertInValidRange. ssteps.
  destruct (d_fits (rd h i)); ssteps; auto.
Qed.

(* ---- specification shapes ---- *)
(* outcome of a call as the harness observes it: (panic enum, result value) *)
Definition perr_code (e : perr) : Z :=
  match e with EOverflow => 1 | EDivZero => 2 | EPrec => 3 | EFuel => 8 | EOther => 9 end.
Definition obs_of (r : res nat) : Z * Z :=
  match r with Ok h l => (0, rd h l) | Panic e _ => (perr_code e, 0) end.
(* the outcome the value-level function f with guard chk prescribes; dv: the argument is a divisor *)
Definition expected (f : Z -> Z -> Z) (chk : Z -> bool) (dv : bool) (a b : Z) : Z * Z :=
  if dv && (b =? 0) then (2, 0) else if chk (f a b) then (0, f a b) else (1, 0).

(* mutating form on distinct cells: result is the receiver, which holds f a b *)
Definition mut_spec (m : nat -> nat -> M nat) (f : Z -> Z -> Z) (chk : Z -> bool) (dv : bool) : Prop :=
  forall h d d2, (d < next h)%nat -> (d2 < next h)%nat -> d <> d2 ->
  spec (m d d2) h
    (fun h' r => r = d /\ obs_of (Ok h' r) = expected f chk dv (rd h d) (rd h d2))
    (fun e h' => obs_of (Panic e h') = expected f chk dv (rd h d) (rd h d2)).
(* non-mutating form, receiver and argument possibly the same cell: result is a fresh cell holding f a b *)
Definition nonmut_spec (m : nat -> nat -> M nat) (f : Z -> Z -> Z) (chk : Z -> bool) (dv : bool) : Prop :=
  forall h d d2, (d < next h)%nat -> (d2 < next h)%nat ->
  spec (m d d2) h
    (fun h' r => (next h <= r)%nat /\ obs_of (Ok h' r) = expected f chk dv (rd h d) (rd h d2))
    (fun e h' => obs_of (Panic e h') = expected f chk dv (rd h d) (rd h d2)).

(* op_mut_eq: both forms return the same outcome on the same operand values *)
Lemma mut_eq : forall m n f chk dv, mut_spec m f chk dv -> nonmut_spec n f chk dv ->
  forall h d d2, (d < next h)%nat -> (d2 < next h)%nat -> d <> d2 -> obs_of (m d d2 h) = obs_of (n d d2 h).
Proof.
  intros m n f chk dv Hm Hn h d d2 H1 H2 H3. specialize (Hm h d d2 H1 H2 H3). specialize (Hn h d d2 H1 H2).
  unfold spec in *. destruct (m d d2 h), (n d d2 h); intuition congruence.
Qed.

(* non-mutating wrappers: copy := d.Clone(); copy.XMut(d2); return copy *)
Lemma clone_wrapper : forall m f chk dv, mut_spec m f chk dv ->
  nonmut_spec (fun d d2 => c <- Clone d ;; _ <- m c d2 ;; ret c) f chk dv.
Proof.
  intros m f chk dv Hm h d d2 Hd Hd2. unfold Clone. ssteps.
  repeat sbind. eapply spec_weaken; [apply Hm; heap_simp; lia| |].
  - cbn beta. intros h2 r [-> Hr]. heap_simp_in Hr. ssteps. split; [lia|exact Hr].
  - cbn beta. intros e h2 Hr. heap_simp_in Hr. exact Hr.
Qed.
(* LegacyDec.ImmutOp: op(d.Clone(), d2) *)
Lemma immutop_wrapper : forall m f chk dv, mut_spec m f chk dv -> nonmut_spec (ImmutOp m) f chk dv.
Proof.
  intros m f chk dv Hm h d d2 Hd Hd2. unfold ImmutOp, Clone. ssteps.
  eapply spec_weaken; [apply Hm; heap_simp; lia| |].
  - cbn beta. intros h2 r [-> Hr]. heap_simp_in Hr. split; [lia|exact Hr].
  - cbn beta. intros e h2 Hr. heap_simp_in Hr. exact Hr.
Qed.

Lemma expected_ok : forall f chk dv a b, (dv = true -> b <> 0) -> chk (f a b) = true -> expected f chk dv a b = (0, f a b).
Proof.
  intros f chk dv a b Hb Hc. unfold expected. rewrite Hc.
  destruct dv; cbn; [|reflexivity]. destruct (Z.eqb_spec b 0); [exfalso; apply Hb; auto|reflexivity].
Qed.
Lemma expected_ovf : forall f chk dv a b, (dv = true -> b <> 0) -> chk (f a b) = false -> expected f chk dv a b = (1, 0).
Proof.
  intros f chk dv a b Hb Hc. unfold expected. rewrite Hc.
  destruct dv; cbn; [|reflexivity]. destruct (Z.eqb_spec b 0); [exfalso; apply Hb; auto|reflexivity].
Qed.
Lemma expected_div0 : forall f chk a, expected f chk true a 0 = (2, 0).
Proof. reflexivity. Qed.

(* common tail: assert the bound on the cell holding the result, return it *)
Lemma finish_bd : forall h c f dv a b, (dv = true -> b <> 0) -> rd h c = f a b ->
  spec (assertMaxBitLen c ;;; ret c) h
    (fun h' r => r = c /\ obs_of (Ok h' r) = expected f bd_fits dv a b)
    (fun e h' => obs_of (Panic e h') = expected f bd_fits dv a b).
Proof.
  intros h c f dv a b Hb Hv. apply spec_bind. apply assertMaxBitLen_ok; rewrite Hv; intros Hf.
  - ssteps. split; [reflexivity|]. cbn [obs_of]. rewrite Hv. symmetry; apply expected_ok; assumption.
  - cbn [obs_of perr_code]. symmetry; apply expected_ovf; assumption.
Qed.
Lemma finish_d : forall h c f dv a b, (dv = true -> b <> 0) -> rd h c = f a b ->
  spec (assertInValidRange c ;;; ret c) h
    (fun h' r => r = c /\ obs_of (Ok h' r) = expected f d_fits dv a b)
    (fun e h' => obs_of (Panic e h') = expected f d_fits dv a b).
Proof.
  intros h c f dv a b Hb Hv. apply spec_bind. apply assertInValidRange_ok; rewrite Hv; intros Hf.
  - ssteps. split; [reflexivity|]. cbn [obs_of]. rewrite Hv. symmetry; apply expected_ok; assumption.
  - cbn [obs_of perr_code]. symmetry; apply expected_ovf; assumption.
Qed.
Lemma nodiv : forall b : Z, false = true -> b <> 0.
Proof. discriminate. Qed.

(* ---- BigDec mutating forms ---- *)
Lemma AddMut_spec : mut_spec AddMut bd_add bd_fits false.
Proof.
  intros h d d2 Hd Hd2 Hne. unfold AddMut. ssteps.
  apply finish_bd; [apply nodiv|heap_simp; reflexivity].
Qed.
Lemma SubMut_spec : mut_spec SubMut bd_sub bd_fits false.
Proof.
  intros h d d2 Hd Hd2 Hne. unfold SubMut. ssteps.
  apply finish_bd; [apply nodiv|heap_simp; reflexivity].
Qed.
Lemma MulMutP_spec : forall p half, p <> 0 -> half = Z.quot p 2 ->
  mut_spec (fun d d2 => bmul d (L d) (L d2) ;;; d' <- chopPrecisionAndRoundP p half d ;; assertMaxBitLen d' ;;; ret d')
           (fun a b => chop_round p (a * b)) bd_fits false.
Proof.
  intros p half Hp Hh h d d2 Hd Hd2 Hne. ssteps.
  repeat sbind. eapply spec_weaken; [apply (chopPrecisionAndRoundP_ok p half); auto| |intros ? ? []].
  cbn beta. intros h1 r [-> V]. heap_simp_in V.
  apply finish_bd; [apply nodiv|exact V].
Qed.
Lemma MulMut_spec : mut_spec MulMut bd_mul bd_fits false.
Proof. apply (MulMutP_spec P36 five36); [discriminate|reflexivity]. Qed.
Lemma MulDecMut_spec : mut_spec MulDecMut bd_mul_dec bd_fits false.
Proof. apply (MulMutP_spec P18 five18); [discriminate|reflexivity]. Qed.

Lemma sq36_P72 : sq36 = P72. Proof. reflexivity. Qed.

Ltac div0 H := (* goal: E EDivZero on a heap, H : divisor = 0 *)
  cbn [obs_of perr_code]; heap_simp_in H; rewrite H; symmetry; apply expected_div0.

Lemma QuoMut_spec : mut_spec QuoMut bd_quo bd_fits true.
Proof.
  intros h d d2 Hd Hd2 Hne. unfold QuoMut. ssteps.
  sdiv; intros Hz; [div0 Hz|].
  repeat sbind. eapply spec_weaken; [apply (chopPrecisionAndRoundP_ok P36 five36); [discriminate|reflexivity|heap_simp; lia]| |intros ? ? []].
  cbn beta. intros h1 r [-> V]. heap_simp_in V.
  apply finish_bd; [intros _; exact Hz|]. rewrite V. unfold bd_quo. rewrite sq36_P72. reflexivity.
Qed.
Lemma QuoTruncateMutP_spec : forall p,
  mut_spec (QuoTruncateMutP p) (fun a b => Z.quot (a * p) b) bd_fits true.
Proof.
  intros p h d d2 Hd Hd2 Hne. unfold QuoTruncateMutP. ssteps.
  sdiv; intros Hz; [div0 Hz|].
  apply finish_bd; [intros _; exact Hz|heap_simp; reflexivity].
Qed.
Lemma QuoTruncateMut_spec : mut_spec QuoTruncateMut bd_quo_truncate bd_fits true.
Proof. apply QuoTruncateMutP_spec. Qed.
Lemma QuoTruncateDecMut_spec : mut_spec QuoTruncateDecMut bd_quo_truncate_dec bd_fits true.
Proof. apply QuoTruncateMutP_spec. Qed.

Lemma incBasedOnRemAndDivisor_ok : forall h rem dv d,
  spec (incBasedOnRemAndDivisor rem dv d) h
    (fun h' r => r = d /\ rd h' d = inc_rem_div (rd h rem) (val h dv) (rd h d) /\
                 forall l, l <> d -> rd h' l = rd h l) never.
Proof.
  intros h rem dv d. unfold incBasedOnRemAndDivisor, inc_rem_div. ssteps. rewrite sgn_eqb_0.
  destruct ((rd h rem =? 0) || negb (Z.sgn (rd h rem) =? Z.sgn (val h dv))); ssteps.
  - auto.
  - split; [reflexivity|]. split; [reflexivity|]. intros l Hl. heap_simp. reflexivity.
Qed.

Lemma QuoRoundUpMut_spec : mut_spec QuoRoundUpMut bd_quo_round_up_mut bd_fits true.
Proof.
  intros h d d2 Hd Hd2 Hne. unfold QuoRoundUpMut. ssteps.
  sdiv; intros Hz; [div0 Hz|].
  repeat sbind. eapply spec_weaken; [apply incBasedOnRemAndDivisor_ok| |intros ? ? []].
  cbn beta. intros h1 r (-> & V & _). cbn [val] in V. heap_simp_in V.
  apply finish_bd; [intros _; exact Hz|]. rewrite V. reflexivity.
Qed.
Lemma QuoRoundUpNextIntMut_spec : mut_spec QuoRoundUpNextIntMut bd_quo_round_up_next_int_mut bd_fits true.
Proof.
  intros h d d2 Hd Hd2 Hne. unfold QuoRoundUpNextIntMut. ssteps.
  sdiv; intros Hz; [div0 Hz|].
  repeat sbind. eapply spec_weaken; [apply incBasedOnRemAndDivisor_ok| |intros ? ? []].
  cbn beta. intros h1 r (-> & V & _). cbn [val] in V. heap_simp_in V. ssteps.
  apply finish_bd; [intros _; exact Hz|]. heap_simp. rewrite V. reflexivity.
Qed.

(* ---- BigDec non-mutating forms ---- *)
Lemma Add_spec : nonmut_spec Add bd_add bd_fits false.
Proof. apply (clone_wrapper AddMut). apply AddMut_spec. Qed.
Lemma Sub_spec : nonmut_spec Sub bd_sub bd_fits false.
Proof. apply (clone_wrapper SubMut). apply SubMut_spec. Qed.
Lemma Mul_spec : nonmut_spec Mul bd_mul bd_fits false.
Proof. apply (clone_wrapper MulMut). apply MulMut_spec. Qed.
Lemma MulDec_spec : nonmut_spec MulDec bd_mul_dec bd_fits false.
Proof. apply (clone_wrapper MulDecMut). apply MulDecMut_spec. Qed.
Lemma Quo_spec : nonmut_spec Quo bd_quo bd_fits true.
Proof. apply (clone_wrapper QuoMut). apply QuoMut_spec. Qed.

Lemma finish_bd_fresh : forall h h0 c f dv a b, (dv = true -> b <> 0) -> rd h c = f a b -> (next h0 <= c)%nat ->
  spec (assertMaxBitLen c ;;; ret c) h
    (fun h' r => (next h0 <= r)%nat /\ obs_of (Ok h' r) = expected f bd_fits dv a b)
    (fun e h' => obs_of (Panic e h') = expected f bd_fits dv a b).
Proof.
  intros. eapply spec_weaken; [apply (finish_bd h c f dv a b); assumption| |auto].
  cbn beta. intros h' r [-> Hr]. auto.
Qed.

Lemma MulTruncateP_spec : forall p, p <> 0 -> nonmut_spec (MulTruncateP p) (fun a b => chop_trunc p (a * b)) bd_fits false.
Proof.
  intros p Hp h d d2 Hd Hd2. unfold MulTruncateP, chopPrecisionAndTruncateMut. ssteps.
  sdiv; [intros; contradiction|intros _]. ssteps.
  apply finish_bd_fresh; [apply nodiv|heap_simp; reflexivity|lia].
Qed.
Lemma MulTruncate_spec : nonmut_spec MulTruncate bd_mul_truncate bd_fits false.
Proof. apply MulTruncateP_spec; discriminate. Qed.
Lemma MulTruncateDec_spec : nonmut_spec MulTruncateDec bd_mul_truncate_dec bd_fits false.
Proof. apply MulTruncateP_spec; discriminate. Qed.

Lemma chopPrecisionAndRoundUpMut_ok : forall p h d, p <> 0 -> (d < next h)%nat ->
  spec (chopPrecisionAndRoundUpMut d p) h (fun h' r => r = d /\ rd h' d = chop_round_up p (rd h d)) never.
Proof.
  intros p h d Hp Hd. unfold chopPrecisionAndRoundUpMut, chopPrecisionAndTruncateMut, incBasedOnRem, chop_round_up, inc_based_on_rem.
  ssteps. rewrite sgn_eqb_m1. destruct (rd h d <? 0).
  - ssteps. sdiv; [intros; contradiction|intros _].
    ssteps. auto.
  - ssteps. sdiv; [intros; contradiction|intros _].
    ssteps. rewrite sgn_eqb_0. destruct (Z.rem (rd h d) p =? 0); ssteps; auto.
Qed.

Lemma MulRoundUpP_spec : forall p, p <> 0 -> nonmut_spec (MulRoundUpP p) (fun a b => chop_round_up p (a * b)) bd_fits false.
Proof.
  intros p Hp h d d2 Hd Hd2. unfold MulRoundUpP. ssteps.
  repeat sbind. eapply spec_weaken; [apply (chopPrecisionAndRoundUpMut_ok p); [assumption|heap_simp; lia]| |intros ? ? []].
  cbn beta. intros h1 r [-> V]. heap_simp_in V.
  apply finish_bd_fresh; [apply nodiv|exact V|lia].
Qed.
Lemma MulRoundUp_spec : nonmut_spec MulRoundUp bd_mul_round_up bd_fits false.
Proof. apply MulRoundUpP_spec; discriminate. Qed.
Lemma MulRoundUpDec_spec : nonmut_spec MulRoundUpDec bd_mul_round_up_dec bd_fits false.
Proof. apply MulRoundUpP_spec; discriminate. Qed.
Lemma MulInt_spec : nonmut_spec MulInt bd_mul_int bd_fits false.
Proof.
  intros h d d2 Hd Hd2. unfold MulInt. ssteps.
  apply finish_bd_fresh; [apply nodiv|heap_simp; reflexivity|lia].
Qed.

Lemma QuoTruncateP_spec : forall p, nonmut_spec (QuoTruncateP p) (fun a b => Z.quot (a * p) b) bd_fits true.
Proof.
  intros p h d d2 Hd Hd2. unfold QuoTruncateP. ssteps.
  sdiv; intros Hz; [div0 Hz|].
  apply finish_bd_fresh; [intros _; exact Hz|heap_simp; reflexivity|lia].
Qed.
Lemma QuoTruncate_spec : nonmut_spec QuoTruncate bd_quo_truncate bd_fits true.
Proof. apply QuoTruncateP_spec. Qed.
Lemma QuoTruncateDec_spec : nonmut_spec QuoTruncateDec bd_quo_truncate_dec bd_fits true.
Proof. apply QuoTruncateP_spec. Qed.
Lemma QuoRoundUpP_spec : forall p,
  nonmut_spec (QuoRoundUpP p) (fun a b => inc_rem_div (Z.rem (a * p) b) b (Z.quot (a * p) b)) bd_fits true.
Proof.
  intros p h d d2 Hd Hd2. unfold QuoRoundUpP. ssteps.
  sdiv; intros Hz; [div0 Hz|].
  repeat sbind. eapply spec_weaken; [apply incBasedOnRemAndDivisor_ok| |intros ? ? []].
  cbn beta. intros h1 r (-> & V & _). cbn [val] in V. heap_simp_in V.
  apply finish_bd_fresh; [intros _; exact Hz|exact V|lia].
Qed.
Lemma QuoRoundUp_spec : nonmut_spec QuoRoundUp bd_quo_round_up bd_fits true.
Proof. apply QuoRoundUpP_spec. Qed.
Lemma QuoByDecRoundUp_spec : nonmut_spec QuoByDecRoundUp bd_quo_by_dec_round_up bd_fits true.
Proof. apply QuoRoundUpP_spec. Qed.
Definition always_fits (z : Z) : bool := true.
Lemma QuoInt_spec : nonmut_spec QuoInt bd_quo_int always_fits true.
Proof.
  intros h d d2 Hd Hd2. unfold QuoInt. ssteps.
  sdiv; intros Hz; [div0 Hz|].
  ssteps. split; [lia|]. cbn [obs_of]. heap_simp. symmetry. apply expected_ok; [intros _; exact Hz|reflexivity].
Qed.

(* ---- one-operand forms (and forms with an immediate int64 / precision argument) ---- *)
Definition un_nonmut_spec (m : nat -> M nat) (out : Z -> Z * Z) : Prop :=
  forall h d, (d < next h)%nat ->
  spec (m d) h (fun h' r => (next h <= r)%nat /\ obs_of (Ok h' r) = out (rd h d))
               (fun e h' => obs_of (Panic e h') = out (rd h d)).
Definition un_mut_spec (m : nat -> M nat) (out : Z -> Z * Z) : Prop :=
  forall h d, (d < next h)%nat ->
  spec (m d) h (fun h' r => r = d /\ obs_of (Ok h' r) = out (rd h d))
               (fun e h' => obs_of (Panic e h') = out (rd h d)).
Lemma un_mut_eq : forall m n out, un_mut_spec m out -> un_nonmut_spec n out ->
  forall h d, (d < next h)%nat -> obs_of (m d h) = obs_of (n d h).
Proof.
  intros m n out Hm Hn h d H1. specialize (Hm h d H1). specialize (Hn h d H1).
  unfold spec in *. destruct (m d h), (n d h); intuition congruence.
Qed.

Lemma MulInt64_spec : forall i, un_nonmut_spec (fun d => MulInt64 d i) (fun a => expected bd_mul_int bd_fits false a i).
Proof.
  intros i h d Hd. unfold MulInt64. ssteps.
  apply finish_bd_fresh; [apply nodiv|heap_simp; reflexivity|lia].
Qed.
Lemma QuoRaw_spec : forall i, un_nonmut_spec (fun d => QuoRaw d i) (fun a => expected bd_quo_raw bd_fits true a i).
Proof.
  intros i h d Hd. unfold QuoRaw. ssteps.
  sdiv; intros Hz; [cbn [obs_of perr_code]; rewrite Hz; reflexivity|].
  repeat sbind. eapply spec_weaken; [apply (chopPrecisionAndRoundP_ok P36 five36); [discriminate|reflexivity|heap_simp; lia]| |intros ? ? []].
  cbn beta. intros h1 r [-> V]. heap_simp_in V.
  apply finish_bd_fresh; [intros _; exact Hz|exact V|lia].
Qed.
Lemma QuoInt64_spec : forall i, un_nonmut_spec (fun d => QuoInt64 d i) (fun a => expected bd_quo_int always_fits true a i).
Proof.
  intros i h d Hd. unfold QuoInt64. ssteps.
  sdiv; intros Hz; [cbn [obs_of perr_code]; rewrite Hz; reflexivity|].
  ssteps. split; [lia|]. cbn [obs_of]. heap_simp. symmetry. apply expected_ok; [intros _; exact Hz|reflexivity].
Qed.

Lemma precisionMultiplier_0 : precisionMultiplier 0 = ret P36. Proof. reflexivity. Qed.
Lemma precisionMultiplier_18 : precisionMultiplier 18 = ret P18. Proof. reflexivity. Qed.
Definition ok_out (v : Z) : Z * Z := (0, v).
Definition chk_out (chk : Z -> bool) (v : Z) : Z * Z := if chk v then (0, v) else (1, 0).

Lemma NegMut_spec : un_mut_spec NegMut (fun a => ok_out (- a)).
Proof. intros h d Hd. unfold NegMut. ssteps. split; [reflexivity|]. cbn [obs_of]. heap_simp. reflexivity. Qed.
Lemma Neg_spec : un_nonmut_spec Neg (fun a => ok_out (- a)).
Proof. intros h d Hd. unfold Neg. ssteps. split; [lia|]. cbn [obs_of]. heap_simp. reflexivity. Qed.
Lemma AbsMut_spec : un_mut_spec AbsMut (fun a => ok_out (Z.abs a)).
Proof. intros h d Hd. unfold AbsMut. ssteps. split; [reflexivity|]. cbn [obs_of]. heap_simp. reflexivity. Qed.
Lemma Abs_spec : un_nonmut_spec Abs (fun a => ok_out (Z.abs a)).
Proof. intros h d Hd. unfold Abs. ssteps. split; [lia|]. cbn [obs_of]. heap_simp. reflexivity. Qed.

Lemma CeilMut_spec : un_mut_spec CeilMut (fun a => ok_out (bd_ceil a)).
Proof.
  intros h d Hd. unfold CeilMut, NewBigDecFromBigIntMutWithPrec, bd_ceil. rewrite precisionMultiplier_0. ssteps.
  sdiv; [intros; discriminate|intros _]. ssteps.
  destruct (Z.rem (rd h d) P36) eqn:Er; cbn [Z.sgn Z.leb Z.compare]; ssteps;
    (split; [reflexivity|]); unfold ok_out; cbn [obs_of val]; heap_simp; reflexivity.
Qed.
Lemma Ceil_spec : un_nonmut_spec Ceil (fun a => ok_out (bd_ceil a)).
Proof.
  intros h d Hd. unfold Ceil. ssteps.
  eapply spec_weaken; [apply CeilMut_spec; heap_simp; lia| |auto].
  - cbn beta. intros h' r [-> Hr]. heap_simp_in Hr. split; [lia|exact Hr].
  - cbn beta. intros e h' Hr. heap_simp_in Hr. exact Hr.
Qed.

Definition fits1024 (v : Z) : bool := negb (max_bit_len <? bitlen v).
Lemma TruncateInt_spec : un_nonmut_spec TruncateInt (fun a => chk_out fits1024 (bd_truncate_int a)).
Proof.
  intros h d Hd. unfold TruncateInt, chopPrecisionAndTruncate, NewBigIntFromBigInt, chk_out, fits1024, bd_truncate_int. ssteps.
  sdiv; [intros; discriminate|intros _]. ssteps.
  destruct (max_bit_len <? bitlen (Z.quot (rd h d) P36)); cbn [negb]; ssteps.
  - reflexivity.
  - split; [lia|]. cbn [obs_of]. heap_simp. reflexivity.
Qed.
Lemma TruncateDec_spec : un_nonmut_spec TruncateDec (fun a => ok_out (bd_truncate_dec a)).
Proof.
  intros h d Hd. unfold TruncateDec, chopPrecisionAndTruncate, NewBigDecFromBigIntWithPrec, bd_truncate_dec. rewrite precisionMultiplier_0. ssteps.
  sdiv; [intros; discriminate|intros _]. ssteps.
  split; [lia|]. cbn [obs_of]. heap_simp. reflexivity.
Qed.
Lemma RoundInt_spec : un_nonmut_spec RoundInt (fun a => chk_out fits1024 (bd_round_int a)).
Proof.
  intros h d Hd. unfold RoundInt, chopPrecisionAndRoundNonMutative, NewBigIntFromBigInt, chk_out, fits1024, bd_round_int. ssteps.
  repeat sbind. eapply spec_weaken; [apply (chopPrecisionAndRoundP_ok P36 five36); [discriminate|reflexivity|heap_simp; lia]| |intros ? ? []].
  cbn beta. intros h1 r [-> V]. heap_simp_in V. ssteps. rewrite V.
  destruct (max_bit_len <? bitlen (chop_round P36 (rd h d))); cbn [negb]; ssteps.
  - reflexivity.
  - split; [lia|]. cbn [obs_of]. rewrite V. reflexivity.
Qed.
Lemma ToDec_spec : un_nonmut_spec ToDec (fun a => ok_out (bd_to_dec a)).
Proof.
  intros h d Hd. unfold ToDec, bd_to_dec. ssteps.
  sdiv; [intros; discriminate|intros _]. ssteps.
  split; [lia|]. cbn [obs_of]. heap_simp. reflexivity.
Qed.
Lemma DecRoundUp_spec : un_nonmut_spec DecRoundUp (fun a => ok_out (bd_to_dec_round_up a)).
Proof.
  intros h d Hd. unfold DecRoundUp, bd_to_dec_round_up. ssteps.
  sdiv; [intros; discriminate|intros _].
  repeat sbind. eapply spec_weaken; [apply incBasedOnRemAndDivisor_ok| |intros ? ? []].
  cbn beta. intros h1 r (-> & V & _). cbn [val] in V. heap_simp_in V. ssteps.
  split; [lia|]. cbn [obs_of]. rewrite V. reflexivity.
Qed.
Lemma ChopPrecisionMut_spec : forall k, 0 <= k ->
  un_mut_spec (fun d => ChopPrecisionMut d k) (fun a => if 36 <? k then (3, 0) else ok_out (bd_chop_precision k a)).
Proof.
  intros k Hk h d Hd. unfold ChopPrecisionMut, bd_chop_precision. destruct (Z.ltb_spec 36 k); ssteps; [reflexivity|].
  assert (Hp : 10 ^ (36 - k) <> 0) by (apply Z.pow_nonzero; lia).
  sdiv; [intros; contradiction|intros _]. ssteps.
  split; [reflexivity|]. cbn [obs_of]. heap_simp. reflexivity.
Qed.
Lemma ChopPrecision_spec : forall k, 0 <= k ->
  un_nonmut_spec (fun d => ChopPrecision d k) (fun a => if 36 <? k then (3, 0) else ok_out (bd_chop_precision k a)).
Proof.
  intros k Hk h d Hd. unfold ChopPrecision, Clone. ssteps.
  eapply spec_weaken; [apply (ChopPrecisionMut_spec k Hk); heap_simp; lia| |].
  - cbn beta. intros h' r [-> Hr]. heap_simp_in Hr. split; [lia|exact Hr].
  - cbn beta. intros e h' Hr. heap_simp_in Hr. exact Hr.
Qed.
Lemma DecWithPrecision_spec : forall k, 0 <= k ->
  un_nonmut_spec (fun d => DecWithPrecision d k) (fun a => if 18 <? k then (3, 0) else ok_out (bd_dec_with_precision k a)).
Proof.
  intros k Hk h d Hd. unfold DecWithPrecision, legacyPrecisionMultiplier, bd_dec_with_precision.
  destruct (Z.ltb_spec 18 k); ssteps; [reflexivity|].
  assert (Hp : 10 ^ (36 - k) <> 0) by (apply Z.pow_nonzero; lia).
  sdiv; [intros; contradiction|intros _].
  destruct (Z.ltb_spec k 0); [lia|]. cbn [orb]. destruct (Z.ltb_spec 18 k); [lia|]. ssteps.
  split; [lia|]. cbn [obs_of]. heap_simp. reflexivity.
Qed.
Lemma BigDecFromDec_spec : un_nonmut_spec BigDecFromDec (fun a => ok_out (bd_from_dec a)).
Proof.
  intros h d Hd. unfold BigDecFromDec, NewBigDecFromBigIntMutWithPrec, bd_from_dec. rewrite precisionMultiplier_18. ssteps.
  split; [lia|]. cbn [obs_of]. heap_simp. reflexivity.
Qed.
Lemma BigDecFromDecMut_spec : un_mut_spec BigDecFromDecMut (fun a => ok_out (bd_from_dec a)).
Proof.
  intros h d Hd. unfold BigDecFromDecMut, NewBigDecFromBigIntMutWithPrec, bd_from_dec. rewrite precisionMultiplier_18. ssteps.
  split; [reflexivity|]. cbn [obs_of]. heap_simp. reflexivity.
Qed.
Lemma NewBigDecFromDecMulDec_spec : nonmut_spec NewBigDecFromDecMulDec bd_from_dec_mul_dec always_fits false.
Proof.
  intros h d d2 Hd Hd2. unfold NewBigDecFromDecMulDec. ssteps. split; [lia|]. cbn [obs_of]. heap_simp. reflexivity.
Qed.

(* ---- LegacyDec (18 decimals) ---- *)
Lemma D_AddMut_spec : mut_spec D_AddMut Z.add d_fits false.
Proof. intros h d d2 Hd Hd2 Hne. unfold D_AddMut. ssteps. apply finish_d; [apply nodiv|heap_simp; reflexivity]. Qed.
Lemma D_SubMut_spec : mut_spec D_SubMut Z.sub d_fits false.
Proof. intros h d d2 Hd Hd2 Hne. unfold D_SubMut. ssteps. apply finish_d; [apply nodiv|heap_simp; reflexivity]. Qed.
Lemma D_MulMut_spec : mut_spec D_MulMut d_mul d_fits false.
Proof.
  intros h d d2 Hd Hd2 Hne. unfold D_MulMut. ssteps.
  scall (chopPrecisionAndRoundP_ok P18 five18); [discriminate|reflexivity|heap_simp; lia|].
  intros h1 r [-> V]. heap_simp_in V. ssteps.
  apply finish_d; [apply nodiv|heap_simp; exact V].
Qed.
Lemma D_MulTruncateMut_spec : mut_spec D_MulTruncateMut d_mul_truncate d_fits false.
Proof.
  intros h d d2 Hd Hd2 Hne. unfold D_MulTruncateMut. ssteps.
  sdiv; [intros; discriminate|intros _].
  apply finish_d; [apply nodiv|heap_simp; reflexivity].
Qed.
Lemma D_chopPrecisionAndRoundUp_ok : forall h d, (d < next h)%nat ->
  spec (D_chopPrecisionAndRoundUp d) h (fun h' r => r = d /\ rd h' d = d_chop_round_up (rd h d)) never.
Proof.
  intros h d Hd. unfold D_chopPrecisionAndRoundUp, d_chop_round_up.
  ssteps. rewrite sgn_eqb_m1. destruct (rd h d <? 0).
  - ssteps. sdiv; [intros; discriminate|intros _]. ssteps. auto.
  - ssteps. sdiv; [intros; discriminate|intros _]. ssteps. rewrite sgn_eqb_0.
    destruct (Z.rem (rd h d) P18 =? 0); ssteps; auto.
Qed.
Lemma D_MulRoundUpMut_spec : mut_spec D_MulRoundUpMut d_mul_round_up d_fits false.
Proof.
  intros h d d2 Hd Hd2 Hne. unfold D_MulRoundUpMut. ssteps.
  scall D_chopPrecisionAndRoundUp_ok; [heap_simp; lia|].
  intros h1 r [-> V]. heap_simp_in V.
  apply finish_d; [apply nodiv|exact V].
Qed.
Lemma D_MulIntMut_spec : mut_spec D_MulIntMut d_mul_int d_fits false.
Proof. intros h d d2 Hd Hd2 Hne. unfold D_MulIntMut. ssteps. apply finish_d; [apply nodiv|heap_simp; reflexivity]. Qed.
Lemma D_QuoMut_spec : mut_spec D_QuoMut d_quo d_fits true.
Proof.
  intros h d d2 Hd Hd2 Hne. unfold D_QuoMut. ssteps.
  sdiv; intros Hz; [div0 Hz|].
  scall (chopPrecisionAndRoundP_ok P18 five18); [discriminate|reflexivity|heap_simp; lia|].
  intros h1 r [-> V]. heap_simp_in V.
  apply finish_d; [intros _; exact Hz|]. rewrite V. reflexivity.
Qed.
Lemma D_QuoTruncateMut_spec : mut_spec D_QuoTruncateMut d_quo_truncate d_fits true.
Proof.
  intros h d d2 Hd Hd2 Hne. unfold D_QuoTruncateMut. ssteps.
  sdiv; intros Hz; [div0 Hz|].
  apply finish_d; [intros _; exact Hz|heap_simp; reflexivity].
Qed.
Lemma D_QuoRoundupMut_spec : mut_spec D_QuoRoundupMut d_quo_round_up d_fits true.
Proof.
  intros h d d2 Hd Hd2 Hne. unfold D_QuoRoundupMut, d_quo_round_up. ssteps.
  sdiv; intros Hz; [div0 Hz|]. ssteps.
  match goal with |- context [if ?c then _ else _] => destruct c eqn:Ec end; ssteps.
  - apply finish_d; [intros _; exact Hz|]. heap_simp. cbv zeta. rewrite Ec. reflexivity.
  - apply finish_d; [intros _; exact Hz|]. heap_simp. cbv zeta. rewrite Ec. reflexivity.
Qed.
Lemma D_QuoIntMut_spec : mut_spec D_QuoIntMut d_quo_int always_fits true.
Proof.
  intros h d d2 Hd Hd2 Hne. unfold D_QuoIntMut. ssteps.
  sdiv; intros Hz; [div0 Hz|]. ssteps. split; [reflexivity|].
  cbn [obs_of]. heap_simp. symmetry. apply expected_ok; [intros _; exact Hz|reflexivity].
Qed.

Lemma D_Add_spec : nonmut_spec (ImmutOp D_AddMut) Z.add d_fits false. Proof. apply immutop_wrapper, D_AddMut_spec. Qed.
Lemma D_Sub_spec : nonmut_spec (ImmutOp D_SubMut) Z.sub d_fits false. Proof. apply immutop_wrapper, D_SubMut_spec. Qed.
Lemma D_Mul_spec : nonmut_spec (ImmutOp D_MulMut) d_mul d_fits false. Proof. apply immutop_wrapper, D_MulMut_spec. Qed.
Lemma D_MulTruncate_spec : nonmut_spec (ImmutOp D_MulTruncateMut) d_mul_truncate d_fits false. Proof. apply immutop_wrapper, D_MulTruncateMut_spec. Qed.
Lemma D_MulRoundUp_spec : nonmut_spec (ImmutOp D_MulRoundUpMut) d_mul_round_up d_fits false. Proof. apply immutop_wrapper, D_MulRoundUpMut_spec. Qed.
Lemma D_MulInt_spec : nonmut_spec (ImmutOp D_MulIntMut) d_mul_int d_fits false. Proof. apply immutop_wrapper, D_MulIntMut_spec. Qed.
Lemma D_Quo_spec : nonmut_spec (ImmutOp D_QuoMut) d_quo d_fits true. Proof. apply immutop_wrapper, D_QuoMut_spec. Qed.
Lemma D_QuoTruncate_spec : nonmut_spec (ImmutOp D_QuoTruncateMut) d_quo_truncate d_fits true. Proof. apply immutop_wrapper, D_QuoTruncateMut_spec. Qed.
Lemma D_QuoRoundUp_spec : nonmut_spec (ImmutOp D_QuoRoundupMut) d_quo_round_up d_fits true. Proof. apply immutop_wrapper, D_QuoRoundupMut_spec. Qed.
Lemma D_QuoInt_spec : nonmut_spec (ImmutOp D_QuoIntMut) d_quo_int always_fits true. Proof. apply immutop_wrapper, D_QuoIntMut_spec. Qed.

Lemma D_Ceil_spec : un_nonmut_spec D_Ceil (fun a => chk_out d_fits (d_ceil a)).
Proof.
  intros h d Hd. unfold D_Ceil, LegacyNewDecFromBigInt, d_ceil, chk_out. ssteps.
  sdiv; [intros; discriminate|intros _]. ssteps.
  assert (Hs : (0 <? Z.sgn (Z.rem (rd h d) P18)) = (0 <? Z.rem (rd h d) P18)) by (destruct (Z.rem (rd h d) P18); reflexivity).
  rewrite Hs. cbv zeta. destruct (0 <? Z.rem (rd h d) P18); ssteps.
  - apply spec_bind. apply assertInValidRange_ok; heap_simp; intros Hf; rewrite Hf; ssteps.
    + split; [lia|]. cbn [obs_of]. heap_simp. reflexivity.
    + reflexivity.
  - apply spec_bind. apply assertInValidRange_ok; heap_simp; intros Hf; rewrite Hf; ssteps.
    + split; [lia|]. cbn [obs_of]. heap_simp. reflexivity.
    + reflexivity.
Qed.
Definition fits256 (v : Z) : bool := negb (max_int_bit_len <? bitlen v).
Lemma D_TruncateInt_spec : un_nonmut_spec D_TruncateInt (fun a => chk_out fits256 (d_truncate_int a)).
Proof.
  intros h d Hd. unfold D_TruncateInt, D_copy, NewIntFromBigIntMut, chk_out, fits256, d_truncate_int. ssteps.
  sdiv; [intros; discriminate|intros _]. ssteps.
  destruct (max_int_bit_len <? bitlen (Z.quot (rd h d) P18)); cbn [negb]; ssteps.
  - reflexivity.
  - split; [lia|]. cbn [obs_of]. heap_simp. reflexivity.
Qed.
Lemma D_RoundInt_spec : un_nonmut_spec D_RoundInt (fun a => chk_out fits256 (d_round_int a)).
Proof.
  intros h d Hd. unfold D_RoundInt, D_copy, NewIntFromBigIntMut, chk_out, fits256, d_round_int. ssteps.
  scall (chopPrecisionAndRoundP_ok P18 five18); [discriminate|reflexivity|heap_simp; lia|].
  intros h1 r [-> V]. heap_simp_in V. ssteps. rewrite V.
  destruct (max_int_bit_len <? bitlen (chop_round P18 (rd h d))); cbn [negb]; ssteps.
  - reflexivity.
  - split; [lia|]. cbn [obs_of]. rewrite V. reflexivity.
Qed.
Lemma D_TruncateDec_spec : un_nonmut_spec D_TruncateDec (fun a => ok_out (d_truncate_dec a)).
Proof.
  intros h d Hd. unfold D_TruncateDec, D_copy, LegacyNewDecFromBigInt, d_truncate_dec. ssteps.
  sdiv; [intros; discriminate|intros _]. ssteps.
  split; [lia|]. unfold ok_out. cbn [obs_of]. heap_simp. reflexivity.
Qed.

(* ---- BigInt ---- *)
Lemma checkBI_ok : forall h0 h c f dv a b, (dv = true -> b <> 0) -> rd h c = f a b -> (next h0 <= c)%nat ->
  spec (checkBI c) h
    (fun h' r => (next h0 <= r)%nat /\ obs_of (Ok h' r) = expected f fits1024 dv a b)
    (fun e h' => obs_of (Panic e h') = expected f fits1024 dv a b).
Proof.
  intros h0 h c f dv a b Hb Hv Hc. unfold checkBI. ssteps. rewrite Hv.
  destruct (max_bit_len <? bitlen (f a b)) eqn:Ef; ssteps.
  - cbn [obs_of perr_code]. symmetry. apply expected_ovf; [assumption|]. unfold fits1024. rewrite Ef. reflexivity.
  - split; [assumption|]. cbn [obs_of]. rewrite Hv. symmetry. apply expected_ok; [assumption|]. unfold fits1024. rewrite Ef. reflexivity.
Qed.
Lemma BI_Add_spec : nonmut_spec BI_Add Z.add fits1024 false.
Proof. intros h d d2 Hd Hd2. unfold BI_Add. ssteps. apply (checkBI_ok h); [apply nodiv|heap_simp; reflexivity|lia]. Qed.
Lemma BI_Sub_spec : nonmut_spec BI_Sub Z.sub fits1024 false.
Proof. intros h d d2 Hd Hd2. unfold BI_Sub. ssteps. apply (checkBI_ok h); [apply nodiv|heap_simp; reflexivity|lia]. Qed.
Lemma BI_Quo_spec : nonmut_spec BI_Quo Z.quot always_fits true.
Proof.
  intros h d d2 Hd Hd2. unfold BI_Quo. ssteps. rewrite sgn_eqb_0.
  destruct (Z.eqb_spec (rd h d2) 0) as [Hz|Hz]; ssteps.
  - cbn [obs_of perr_code]. rewrite Hz. reflexivity.
  - sdiv; intros Hz'; [contradiction|]. ssteps. split; [lia|]. cbn [obs_of]. heap_simp.
    symmetry. apply expected_ok; [intros _; exact Hz|reflexivity].
Qed.
Definition emod (a b : Z) : Z := a mod (Z.abs b).
Lemma BI_Mod_spec : nonmut_spec BI_Mod emod always_fits true.
Proof.
  intros h d d2 Hd Hd2. unfold BI_Mod. ssteps. rewrite sgn_eqb_0.
  destruct (Z.eqb_spec (rd h d2) 0) as [Hz|Hz]; ssteps.
  - cbn [obs_of perr_code]. rewrite Hz. reflexivity.
  - sdiv; intros Hz'; [contradiction|]. ssteps. split; [lia|]. cbn [obs_of]. heap_simp.
    symmetry. apply (expected_ok emod always_fits true (rd h d) (rd h d2)); [intros _; exact Hz|reflexivity].
Qed.

(* BigInt.Mul: the pre-check on the operands' bit lengths never rejects a representable product *)
Lemma bitlen_mul_lower : forall a b, a <> 0 -> b <> 0 -> bitlen a + bitlen b - 1 <= bitlen (a * b).
Proof.
  intros a b Ha Hb. unfold bitlen.
  destruct (Z.eqb_spec a 0); [contradiction|]. destruct (Z.eqb_spec b 0); [contradiction|].
  destruct (Z.eqb_spec (a * b) 0); [nia|].
  rewrite Z.abs_mul. pose proof (Z.log2_mul_below (Z.abs a) (Z.abs b) ltac:(lia) ltac:(lia)). lia.
Qed.
Lemma BI_Mul_spec : forall h d d2, (d < next h)%nat -> (d2 < next h)%nat ->
  bitlen (rd h d) <= max_bit_len -> bitlen (rd h d2) <= max_bit_len ->
  spec (BI_Mul d d2) h
    (fun h' r => (next h <= r)%nat /\ obs_of (Ok h' r) = expected Z.mul fits1024 false (rd h d) (rd h d2))
    (fun e h' => obs_of (Panic e h') = expected Z.mul fits1024 false (rd h d) (rd h d2)).
Proof.
  intros h d d2 Hd Hd2 Ba Bb. unfold BI_Mul. ssteps.
  destruct (Z.ltb_spec max_bit_len (bitlen (rd h d) + bitlen (rd h d2) - 1)) as [Hpre|Hpre]; ssteps.
  - cbn [obs_of perr_code]. symmetry. apply expected_ovf; [apply nodiv|]. unfold fits1024.
    assert (Hnz : rd h d <> 0 /\ rd h d2 <> 0).
    { split; intro E; rewrite E in *; change (bitlen 0) with 0 in *; lia. }
    destruct Hnz as [Ha Hb]. pose proof (bitlen_mul_lower _ _ Ha Hb).
    destruct (Z.ltb_spec max_bit_len (bitlen (rd h d * rd h d2))); [reflexivity|lia].
  - apply (checkBI_ok h); [apply nodiv|heap_simp; reflexivity|lia].
Qed.

(* ---- constructors and int64 conversions ---- *)
Definition prec_out (k : Z) (v : Z) : Z * Z := if 36 <? k then (3, 0) else (0, v).
Lemma NewBigDecFromBigIntWithPrec_spec : forall k,
  un_nonmut_spec (fun i => NewBigDecFromBigIntWithPrec (L i) k) (fun a => prec_out k (a * 10 ^ (36 - k))).
Proof.
  intros k h d Hd. unfold NewBigDecFromBigIntWithPrec, precisionMultiplier, prec_out.
  destruct (36 <? k); ssteps; [reflexivity|]. split; [lia|]. cbn [obs_of]. heap_simp. reflexivity.
Qed.
Lemma NewBigDecFromBigIntMutWithPrec_spec : forall k,
  un_mut_spec (fun i => NewBigDecFromBigIntMutWithPrec i k) (fun a => prec_out k (a * 10 ^ (36 - k))).
Proof.
  intros k h d Hd. unfold NewBigDecFromBigIntMutWithPrec, precisionMultiplier, prec_out.
  destruct (36 <? k); ssteps; [reflexivity|]. split; [reflexivity|]. cbn [obs_of]. heap_simp. reflexivity.
Qed.
Lemma NewBigDecWithPrec_spec : forall i k h,
  spec (NewBigDecWithPrec i k) h (fun h' r => (next h <= r)%nat /\ obs_of (Ok h' r) = prec_out k (i * 10 ^ (36 - k)))
                                 (fun e h' => obs_of (Panic e h') = prec_out k (i * 10 ^ (36 - k))).
Proof.
  intros i k h. unfold NewBigDecWithPrec, precisionMultiplier, prec_out.
  destruct (36 <? k); ssteps; [reflexivity|]. split; [lia|]. cbn [obs_of]. heap_simp. reflexivity.
Qed.
Definition fits_i64 (v : Z) : bool := is_int64 v.
Lemma TruncateInt64_spec : un_nonmut_spec TruncateInt64 (fun a => chk_out fits_i64 (bd_truncate_int a)).
Proof.
  intros h d Hd. unfold TruncateInt64, chopPrecisionAndTruncate, assertInt64, chk_out, fits_i64, bd_truncate_int. ssteps.
  sdiv; [intros; discriminate|intros _]. ssteps.
  destruct (is_int64 (Z.quot (rd h d) P36)); ssteps.
  - split; [lia|]. cbn [obs_of]. heap_simp. reflexivity.
  - reflexivity.
Qed.
Lemma RoundInt64_spec : un_nonmut_spec RoundInt64 (fun a => chk_out fits_i64 (bd_round_int a)).
Proof.
  intros h d Hd. unfold RoundInt64, chopPrecisionAndRoundNonMutative, assertInt64, chk_out, fits_i64, bd_round_int. ssteps.
  scall (chopPrecisionAndRoundP_ok P36 five36); [discriminate|reflexivity|heap_simp; lia|].
  intros h1 r [-> V]. heap_simp_in V. ssteps. rewrite V.
  destruct (is_int64 (chop_round P36 (rd h d))); ssteps.
  - split; [lia|]. cbn [obs_of]. rewrite V. reflexivity.
  - reflexivity.
Qed.
Lemma BI_ToDec_spec : un_nonmut_spec BI_ToDec (fun a => ok_out (bd_from_int a)).
Proof.
  intros h d Hd. unfold BI_ToDec, D_copy, NewBigDecFromBigIntWithPrec, bd_from_int. rewrite precisionMultiplier_0. ssteps.
  split; [lia|]. unfold ok_out. cbn [obs_of]. heap_simp. reflexivity.
Qed.

(* ---- PowerInteger / Power: square and multiply, with the aliased call d.MulMut(d) the code itself makes ---- *)
Definition alias_spec (m : nat -> nat -> M nat) (f : Z -> Z -> Z) (chk : Z -> bool) (dv : bool) : Prop :=
  forall h d, (d < next h)%nat ->
  spec (m d d) h (fun h' r => r = d /\ obs_of (Ok h' r) = expected f chk dv (rd h d) (rd h d))
                 (fun e h' => obs_of (Panic e h') = expected f chk dv (rd h d) (rd h d)).

(* value level: the loop of PowerIntegerMut / PowerMut with the range assertion of every multiplication *)
Fixpoint power_loop_v (mul : Z -> Z -> Z) (fits : Z -> bool) (fuel : nat) (d tmp i : Z) : option (Z * Z) :=
  match fuel with
  | O => None
  | S f =>
      if 1 <? i then
        match (if Z.odd i then (if fits (mul tmp d) then Some (mul tmp d) else None) else Some tmp) with
        | None => None
        | Some tmp' => if fits (mul d d) then power_loop_v mul fits f (mul d d) tmp' (Z.quot i 2) else None
        end
      else Some (d, tmp)
  end.

Lemma expected_inv_ok : forall f chk a b v, (0, v) = expected f chk false a b -> chk (f a b) = true /\ v = f a b.
Proof. intros f chk a b v H. unfold expected in H. cbn in H. destruct (chk (f a b)); inversion H; auto. Qed.
Lemma expected_inv_err : forall f chk a b e, (perr_code e, 0) = expected f chk false a b -> chk (f a b) = false.
Proof.
  intros f chk a b e H. unfold expected in H. cbn in H. destruct (chk (f a b)); [|reflexivity].
  inversion H. destruct e; discriminate.
Qed.

Section PowerLoop.
Variables (mulmut : nat -> nat -> M nat) (mul : Z -> Z -> Z) (fits : Z -> bool).
Hypothesis Hm : mut_spec mulmut mul fits false.
Hypothesis Ha : alias_spec mulmut mul fits false.
Hypothesis Hp : forall n S d d2, W n S d -> pres n S (mulmut d d2) (W n S).

(* one multiplication x.MulMut(y) with its frame: only x changes *)
Lemma mulmut_step : forall h x y, (x < next h)%nat -> (y < next h)%nat ->
  spec (mulmut x y) h
    (fun h' r => r = x /\ fits (mul (rd h x) (rd h y)) = true /\ rd h' x = mul (rd h x) (rd h y) /\
                 (next h <= next h')%nat /\ forall l, (l < next h)%nat -> l <> x -> rd h' l = rd h l)
    (fun e h' => fits (mul (rd h x) (rd h y)) = false).
Proof.
  intros h x y Hx Hy.
  assert (P : pres (next h) (eq x) (mulmut x y) (W (next h) (eq x))) by (apply Hp; left; reflexivity).
  destruct (Nat.eq_dec x y) as [<-|Ne].
  - pose proof (spec_pres _ _ h _ _ _ _ _ P (le_n _) (Ha h x Hx)) as Sp.
    eapply spec_weaken; [exact Sp| |]; cbn beta.
    + intros h' r ((-> & O) & (N & F) & _). cbn [obs_of] in O. apply expected_inv_ok in O. destruct O as [C V].
      repeat split; auto; intros l Hl Hne; apply F; auto.
    + intros e h' (O & _). cbn [obs_of] in O. apply expected_inv_err in O. exact O.
  - pose proof (spec_pres _ _ h _ _ _ _ _ P (le_n _) (Hm h x y Hx Hy Ne)) as Sp.
    eapply spec_weaken; [exact Sp| |]; cbn beta.
    + intros h' r ((-> & O) & (N & F) & _). cbn [obs_of] in O. apply expected_inv_ok in O. destruct O as [C V].
      repeat split; auto; intros l Hl Hne; apply F; auto.
    + intros e h' (O & _). cbn [obs_of] in O. apply expected_inv_err in O. exact O.
Qed.

Lemma power_loop_ok : forall fuel h d tmp i, (d < next h)%nat -> (tmp < next h)%nat -> d <> tmp ->
  spec (power_loop mulmut fuel d tmp i) h
    (fun h' r => r = d /\ power_loop_v mul fits fuel (rd h d) (rd h tmp) i = Some (rd h' d, rd h' tmp) /\
                 (next h <= next h')%nat /\ forall l, (l < next h)%nat -> l <> d -> l <> tmp -> rd h' l = rd h l)
    (fun e h' => power_loop_v mul fits fuel (rd h d) (rd h tmp) i = None).
Proof.
  induction fuel as [|f IH]; intros h d tmp i Hd Ht Hne; cbn [power_loop power_loop_v].
  - apply spec_panic. reflexivity.
  - destruct (1 <? i); [|apply spec_ret; repeat split; auto].
    apply spec_bind. destruct (Z.odd i).
    + apply spec_bind. eapply spec_weaken; [apply (mulmut_step h tmp d Ht Hd)| |]; cbn beta.
      * intros h1 r (-> & C & V & N & F). apply spec_ret. rewrite C.
        assert (Ed : rd h1 d = rd h d) by (apply F; auto).
        apply spec_bind. eapply spec_weaken; [apply (mulmut_step h1 d d); lia| |]; cbn beta.
        -- intros h2 r2 (-> & C2 & V2 & N2 & F2). rewrite Ed in C2, V2. rewrite C2.
           assert (Et : rd h2 tmp = mul (rd h tmp) (rd h d)) by (rewrite F2 by (auto; lia); exact V).
           eapply spec_weaken; [apply (IH h2 d tmp (Z.quot i 2)); lia| |]; cbn beta.
           ++ intros h3 r3 (-> & L & N3 & F3). rewrite V2, Et in L. repeat split; auto; [lia|].
              intros l Hl H1 H2. rewrite F3 by (auto; lia). rewrite F2 by (auto; lia). apply F; auto.
           ++ intros e h3 L. rewrite V2, Et in L. exact L.
        -- intros e h2 C2. rewrite Ed in C2. rewrite C2. reflexivity.
      * intros e h1 C. rewrite C. reflexivity.
    + apply spec_ret.
      apply spec_bind. eapply spec_weaken; [apply (mulmut_step h d d); lia| |]; cbn beta.
      * intros h2 r2 (-> & C2 & V2 & N2 & F2). rewrite C2.
        assert (Et : rd h2 tmp = rd h tmp) by (apply F2; auto).
        eapply spec_weaken; [apply (IH h2 d tmp (Z.quot i 2)); lia| |]; cbn beta.
        -- intros h3 r3 (-> & L & N3 & F3). rewrite V2, Et in L. repeat split; auto; [lia|].
           intros l Hl H1 H2. rewrite F3 by (auto; lia). apply F2; auto.
        -- intros e h3 L. rewrite V2, Et in L. exact L.
      * intros e h2 C2. rewrite C2. reflexivity.
Qed.
End PowerLoop.

Lemma MulMut_alias : alias_spec MulMut bd_mul bd_fits false.
Proof.
  intros h d Hd. unfold MulMut. ssteps.
  scall (chopPrecisionAndRoundP_ok P36 five36); [discriminate|reflexivity|heap_simp; lia|].
  intros h1 r [-> V]. heap_simp_in V.
  apply finish_bd; [apply nodiv|exact V].
Qed.
Lemma D_MulMut_alias : alias_spec D_MulMut d_mul d_fits false.
Proof.
  intros h d Hd. unfold D_MulMut. ssteps.
  scall (chopPrecisionAndRoundP_ok P18 five18); [discriminate|reflexivity|heap_simp; lia|].
  intros h1 r [-> V]. heap_simp_in V. ssteps.
  apply finish_d; [apply nodiv|heap_simp; exact V].
Qed.

Definition chk_opt (fits : Z -> bool) (v : Z) : option Z := if fits v then Some v else None.
(* BigDec.PowerIntegerMut / PowerInteger at the value level (None: some multiplication exceeded the bound) *)
Definition bd_power_v (d p : Z) : option Z :=
  if p =? 0 then Some P36 else if p =? 1 then Some d else if p =? 2 then chk_opt bd_fits (bd_mul d d)
  else match power_loop_v bd_mul bd_fits 65 d P36 p with
       | Some (d', tmp) => chk_opt bd_fits (bd_mul d' tmp)
       | None => None
       end.
Definition d_power_v (d p : Z) : option Z :=
  if p =? 0 then Some P18
  else match power_loop_v d_mul d_fits 65 d P18 p with
       | Some (d', tmp) => chk_opt d_fits (d_mul d' tmp)
       | None => None
       end.

Lemma PowerIntegerMut_spec : forall k h d, (d < next h)%nat ->
  spec (PowerIntegerMut d k) h
    (fun h' r => bd_power_v (rd h d) k = Some (rd h' r) /\ (k <> 0 -> r = d))
    (fun e h' => bd_power_v (rd h d) k = None).
Proof.
  intros k h d Hd. unfold PowerIntegerMut, bd_power_v, OneBigDec.
  destruct (Z.eqb_spec k 0); [ssteps; split; [reflexivity|contradiction]|].
  destruct (k =? 1); [ssteps; auto|].
  destruct (k =? 2).
  - eapply spec_weaken; [apply (mulmut_step MulMut bd_mul bd_fits MulMut_spec MulMut_alias MulMut_pres h d d Hd Hd)| |]; cbn beta.
    + intros h' r (-> & C & V & _). unfold chk_opt. rewrite C, V. auto.
    + intros e h' C. unfold chk_opt. rewrite C. reflexivity.
  - ssteps. apply spec_bind.
    eapply spec_weaken; [apply (power_loop_ok MulMut bd_mul bd_fits MulMut_spec MulMut_alias MulMut_pres 65 (halloc h P36) d (next h) k); heap_simp; lia| |]; cbn beta.
    + intros h1 r (-> & L & N & F). heap_simp_in L. rewrite L.
      eapply spec_weaken; [apply (mulmut_step MulMut bd_mul bd_fits MulMut_spec MulMut_alias MulMut_pres h1 d (next h)); heap_simp_in N; lia| |]; cbn beta.
      * intros h2 r2 (-> & C & V & _). unfold chk_opt. rewrite C, V. auto.
      * intros e h2 C. unfold chk_opt. rewrite C. reflexivity.
    + intros e h1 L. heap_simp_in L. rewrite L. reflexivity.
Qed.
Lemma PowerInteger_spec : forall k h d, (d < next h)%nat ->
  spec (PowerInteger d k) h (fun h' r => bd_power_v (rd h d) k = Some (rd h' r)) (fun e h' => bd_power_v (rd h d) k = None).
Proof.
  intros k h d Hd. unfold PowerInteger, Clone. ssteps.
  eapply spec_weaken; [apply PowerIntegerMut_spec; heap_simp; lia| |]; cbn beta.
  - intros h' r [V R]. heap_simp_in V. exact V.
  - intros e h' V. heap_simp_in V. exact V.
Qed.
Lemma D_PowerMut_spec : forall k h d, (d < next h)%nat ->
  spec (D_PowerMut d k) h (fun h' r => d_power_v (rd h d) k = Some (rd h' r) /\ r = d) (fun e h' => d_power_v (rd h d) k = None).
Proof.
  intros k h d Hd. unfold D_PowerMut, d_power_v.
  destruct (k =? 0); [ssteps; split; [heap_simp; reflexivity|reflexivity]|].
  ssteps. apply spec_bind.
  eapply spec_weaken; [apply (power_loop_ok D_MulMut d_mul d_fits D_MulMut_spec D_MulMut_alias D_MulMut_pres 65 (halloc h P18) d (next h) k); heap_simp; lia| |]; cbn beta.
  - intros h1 r (-> & L & N & F). heap_simp_in L. rewrite L.
    eapply spec_weaken; [apply (mulmut_step D_MulMut d_mul d_fits D_MulMut_spec D_MulMut_alias D_MulMut_pres h1 d (next h)); heap_simp_in N; lia| |]; cbn beta.
    + intros h2 r2 (-> & C & V & _). unfold chk_opt. rewrite C, V. auto.
    + intros e h2 C. unfold chk_opt. rewrite C. reflexivity.
  - intros e h1 L. heap_simp_in L. rewrite L. reflexivity.
Qed.
Lemma D_Power_spec : forall k h d, (d < next h)%nat ->
  spec (D_Power d k) h (fun h' r => d_power_v (rd h d) k = Some (rd h' r)) (fun e h' => d_power_v (rd h d) k = None).
Proof.
  intros k h d Hd. unfold D_Power, D_copy. ssteps.
  eapply spec_weaken; [apply D_PowerMut_spec; heap_simp; lia| |]; cbn beta.
  - intros h' r [V R]. heap_simp_in V. exact V.
  - intros e h' V. heap_simp_in V. exact V.
Qed.

(* when no multiplication overflows, the checked loop is DecModel's unchecked [d_power] (power a uint64) *)
Lemma power_loop_v_unchecked : forall f g d t i d' t', 0 <= i < 2 ^ Z.of_nat g ->
  power_loop_v d_mul d_fits f d t i = Some (d', t') -> d_power_loop g d t i = (d', t').
Proof.
  induction f as [|f IH]; intros g d t i d' t' Hi H; cbn [power_loop_v] in H; [discriminate|].
  destruct g as [|g].
  - cbn in Hi. destruct (Z.ltb_spec 1 i); [lia|]. inversion H; subst. reflexivity.
  - cbn [d_power_loop]. destruct (Z.ltb_spec 1 i) as [L|L]; [|inversion H; subst; reflexivity].
    assert (Hq : 0 <= Z.quot i 2 < 2 ^ Z.of_nat g).
    { rewrite Nat2Z.inj_succ, Z.pow_succ_r in Hi by lia. rewrite Z.quot_div_nonneg by lia.
      split; [apply Z.div_pos; lia|]. apply Z.div_lt_upper_bound; lia. }
    destruct (Z.odd i).
    + destruct (d_fits (d_mul t d)); [|discriminate]. destruct (d_fits (d_mul d d)); [|discriminate].
      apply (IH g _ _ _ _ _ Hq H).
    + destruct (d_fits (d_mul d d)); [|discriminate]. apply (IH g _ _ _ _ _ Hq H).
Qed.
Theorem d_power_v_unchecked : forall d p v, 0 <= p < 2 ^ 64 -> d_power_v d p = Some v -> v = d_power d p.
Proof.
  intros d p v Hp H. unfold d_power_v, d_power in *. destruct (p =? 0); [inversion H; reflexivity|].
  destruct (power_loop_v d_mul d_fits 65 d P18 p) as [[d' t']|] eqn:E; [|discriminate].
  rewrite (power_loop_v_unchecked 65 64 d P18 p d' t' Hp E).
  unfold chk_opt in H. destruct (d_fits (d_mul d' t')); inversion H. reflexivity.
Qed.
