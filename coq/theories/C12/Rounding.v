(* C12/Rounding.v - the three rounding operators on an exact rational n/d and their
   characterising lemmas; bridges from the executable helpers of Base/DecModel.v
   (chop_round, chop_trunc, chop_round_up, inc_rem_div, ...) to these operators.

   Reusable interface: other properties should [Require Import Osmo.C12.Rounding] and use only the
   lemmas below (never unfold the helpers).

     rfloor n d, rceil n d   floor / ceiling of the rational n/d, any d <> 0
     rtz n d                 n/d rounded toward zero (Go big.Int.Quo)
     rhe n d                 n/d rounded to nearest, ties to even (d > 0)

   For each: *_spec (bounds), *_unique (the bounds determine the value), *_mono, *_exact
   (exact when d | n), sign / negation lemmas. *)
From Coq Require Import ZArith Lia Bool.
From Osmo Require Import Base.DecModel.
Open Scope Z_scope.

Definition rfloor (n d : Z) : Z := n / d.
Definition rceil (n d : Z) : Z := - ((- n) / d).
Definition rtz (n d : Z) : Z := Z.quot n d.
Definition rhe (n d : Z) : Z :=
  let q := n / d in let r := n mod d in
  match 2 * r ?= d with
  | Lt => q
  | Gt => q + 1
  | Eq => if Z.even q then q else q + 1
  end.

(* ---------------------------------------------------------------- floor *)
Lemma rfloor_spec : forall n d, 0 < d -> d * rfloor n d <= n < d * (rfloor n d + 1).
Proof.
  intros n d Hd. unfold rfloor.
  pose proof (Z.div_mod n d ltac:(lia)). pose proof (Z.mod_pos_bound n d Hd). nia.
Qed.

Lemma rfloor_unique : forall n d r, 0 < d -> d * r <= n < d * (r + 1) -> r = rfloor n d.
Proof.
  intros n d r Hd H. pose proof (rfloor_spec n d Hd). nia.
Qed.

Lemma rfloor_spec_neg : forall n d, d < 0 -> d * (rfloor n d + 1) < n <= d * rfloor n d.
Proof.
  intros n d Hd. unfold rfloor.
  pose proof (Z.div_mod n d ltac:(lia)). pose proof (Z.mod_neg_bound n d Hd). nia.
Qed.

Lemma rfloor_mono : forall n m d, 0 < d -> n <= m -> rfloor n d <= rfloor m d.
Proof. intros; unfold rfloor; apply Z.div_le_mono; lia. Qed.

Lemma rfloor_exact : forall k d, d <> 0 -> rfloor (k * d) d = k.
Proof. intros; unfold rfloor; apply Z.div_mul; assumption. Qed.

(* ---------------------------------------------------------------- ceiling *)
Lemma rceil_spec : forall n d, 0 < d -> d * (rceil n d - 1) < n <= d * rceil n d.
Proof.
  intros n d Hd. unfold rceil. pose proof (rfloor_spec (- n) d Hd). unfold rfloor in *. nia.
Qed.

Lemma rceil_spec_neg : forall n d, d < 0 -> d * rceil n d <= n < d * (rceil n d - 1).
Proof.
  intros n d Hd. unfold rceil. pose proof (rfloor_spec_neg (- n) d Hd). unfold rfloor in *. nia.
Qed.

Lemma rceil_unique : forall n d r, 0 < d -> d * (r - 1) < n <= d * r -> r = rceil n d.
Proof. intros n d r Hd H. pose proof (rceil_spec n d Hd). nia. Qed.

Lemma rceil_unique_neg : forall n d r, d < 0 -> d * r <= n < d * (r - 1) -> r = rceil n d.
Proof. intros n d r Hd H. pose proof (rceil_spec_neg n d Hd). nia. Qed.

Lemma rceil_mono : forall n m d, 0 < d -> n <= m -> rceil n d <= rceil m d.
Proof.
  intros n m d Hd H. unfold rceil.
  assert ((- m) / d <= (- n) / d) by (apply Z.div_le_mono; lia). lia.
Qed.

Lemma rceil_exact : forall k d, d <> 0 -> rceil (k * d) d = k.
Proof.
  intros k d Hd. unfold rceil. replace (- (k * d)) with ((- k) * d) by ring.
  rewrite Z.div_mul by assumption. lia.
Qed.

(* the ceiling is the floor, plus one exactly when the division is inexact *)
Lemma rceil_floor : forall n d, d <> 0 ->
  rceil n d = if n mod d =? 0 then rfloor n d else rfloor n d + 1.
Proof.
  intros n d Hd. unfold rceil, rfloor.
  destruct (Z.eqb_spec (n mod d) 0) as [E|E].
  - rewrite Z.div_opp_l_z by assumption. lia.
  - rewrite Z.div_opp_l_nz by assumption. lia.
Qed.

Lemma rceil_ge_floor : forall n d, d <> 0 -> rfloor n d <= rceil n d <= rfloor n d + 1.
Proof. intros n d Hd. rewrite rceil_floor by assumption. destruct (n mod d =? 0); lia. Qed.

(* ceiling of the opposite = opposite of the floor *)
Lemma rceil_opp : forall n d, rceil (- n) d = - rfloor n d.
Proof. intros; unfold rceil, rfloor. rewrite Z.opp_involutive. reflexivity. Qed.
Lemma rfloor_opp : forall n d, rfloor (- n) d = - rceil n d.
Proof. intros; unfold rceil, rfloor. lia. Qed.
(* n/d = (-n)/(-d) *)
Lemma rfloor_opp_opp : forall n d, d <> 0 -> rfloor (- n) (- d) = rfloor n d.
Proof. intros; unfold rfloor. apply Z.div_opp_opp; assumption. Qed.
Lemma rceil_opp_opp : forall n d, d <> 0 -> rceil (- n) (- d) = rceil n d.
Proof. intros; unfold rceil. rewrite Z.div_opp_opp by assumption. reflexivity. Qed.

(* ---------------------------------------------------------------- toward zero *)
Lemma quot_as_div : forall n d, 0 < d ->
  Z.quot n d = if 0 <=? n then n / d else - ((- n) / d).
Proof.
  intros n d Hd. destruct (Z.leb_spec 0 n).
  - apply Z.quot_div_nonneg; lia.
  - rewrite <- (Z.opp_involutive n) at 1. rewrite Z.quot_opp_l by lia.
    rewrite Z.quot_div_nonneg by lia. reflexivity.
Qed.

Lemma rtz_floor_ceil : forall n d, 0 < d ->
  rtz n d = if 0 <=? n then rfloor n d else rceil n d.
Proof. intros; unfold rtz, rfloor, rceil; apply quot_as_div; assumption. Qed.

Lemma rtz_spec : forall n d, 0 < d ->
  (0 <= n -> d * rtz n d <= n < d * (rtz n d + 1)) /\
  (n <= 0 -> d * (rtz n d - 1) < n <= d * rtz n d).
Proof.
  intros n d Hd. rewrite rtz_floor_ceil by assumption.
  pose proof (rfloor_spec n d Hd). pose proof (rceil_spec n d Hd).
  destruct (Z.leb_spec 0 n); split; intros; try lia.
  assert (n = 0) by lia; subst.
  assert (rfloor 0 d = 0) by (unfold rfloor; apply Z.div_0_l; lia). lia.
Qed.

Lemma rtz_abs : forall n d, 0 < d ->
  d * Z.abs (rtz n d) <= Z.abs n < d * (Z.abs (rtz n d) + 1) /\ 0 <= n * rtz n d.
Proof.
  intros n d Hd. destruct (rtz_spec n d Hd) as [H1 H2].
  destruct (Z.le_ge_cases 0 n) as [H|H].
  - specialize (H1 H). assert (0 <= rtz n d) by nia. rewrite !Z.abs_eq by lia. nia.
  - assert (H' : n <= 0) by lia. specialize (H2 H'). assert (rtz n d <= 0) by nia.
    rewrite !Z.abs_neq by lia. nia.
Qed.

Lemma rtz_unique : forall n d r, 0 < d ->
  (0 <= n -> d * r <= n < d * (r + 1)) -> (n <= 0 -> d * (r - 1) < n <= d * r) -> r = rtz n d.
Proof.
  intros n d r Hd H1 H2. destruct (rtz_spec n d Hd) as [S1 S2].
  destruct (Z.le_ge_cases 0 n) as [H|H].
  - specialize (H1 H); specialize (S1 H). nia.
  - assert (H' : n <= 0) by lia. specialize (H2 H'); specialize (S2 H'). nia.
Qed.

Lemma rtz_mono : forall n m d, 0 < d -> n <= m -> rtz n d <= rtz m d.
Proof. intros; unfold rtz; apply Z.quot_le_mono; lia. Qed.

Lemma rtz_exact : forall k d, d <> 0 -> rtz (k * d) d = k.
Proof. intros; unfold rtz; apply Z.quot_mul; assumption. Qed.

Lemma rtz_opp : forall n d, d <> 0 -> rtz (- n) d = - rtz n d.
Proof. intros; unfold rtz; apply Z.quot_opp_l; assumption. Qed.

Lemma rtz_opp_opp : forall n d, d <> 0 -> rtz (- n) (- d) = rtz n d.
Proof. intros; unfold rtz; apply Z.quot_opp_opp; assumption. Qed.

(* truncated division in terms of the exact rational for a divisor of either sign:
   toward zero = floor when the quotient is >= 0, ceiling when it is <= 0 *)
Lemma rtz_any_sign : forall n d, d <> 0 ->
  rtz n d = if 0 <=? n * d then rfloor n d else rceil n d.
Proof.
  intros n d Hd. destruct (Z.lt_total d 0) as [Hn|[?|Hp]]; [|lia|].
  - rewrite <- (rtz_opp_opp n d), <- (rfloor_opp_opp n d), <- (rceil_opp_opp n d) by assumption.
    rewrite rtz_floor_ceil by lia.
    destruct (Z.leb_spec 0 (- n)), (Z.leb_spec 0 (n * d)); try reflexivity; try nia.
  - rewrite rtz_floor_ceil by lia.
    destruct (Z.leb_spec 0 n), (Z.leb_spec 0 (n * d)); try reflexivity; try nia.
Qed.

(* the remainder of truncated division *)
Lemma rem_as_rtz : forall n d, d <> 0 -> Z.rem n d = n - d * rtz n d.
Proof. intros n d Hd. unfold rtz. pose proof (Z.quot_rem' n d). lia. Qed.

(* ---------------------------------------------------------------- half-even *)
Lemma rhe_spec : forall n d, 0 < d ->
  2 * Z.abs (d * rhe n d - n) <= d /\
  (2 * Z.abs (d * rhe n d - n) = d -> Z.even (rhe n d) = true).
Proof.
  intros n d Hd. unfold rhe.
  pose proof (Z.div_mod n d ltac:(lia)) as E. pose proof (Z.mod_pos_bound n d Hd) as B.
  set (q := n / d) in *. set (r := n mod d) in *.
  destruct (Z.compare_spec (2 * r) d) as [C|C|C].
  - destruct (Z.even q) eqn:Ev.
    + split; [|intros; assumption]. rewrite Z.abs_neq by nia. nia.
    + split. { rewrite Z.abs_eq by nia. nia. }
      intros _. rewrite Z.even_add, Ev. reflexivity.
  - split. { rewrite Z.abs_neq by nia. nia. }
    intros H. rewrite Z.abs_neq in H by nia. nia.
  - split. { rewrite Z.abs_eq by nia. nia. }
    intros H. rewrite Z.abs_eq in H by nia. nia.
Qed.

Lemma even_succ_false : forall r, Z.even r = true -> Z.even (r + 1) = false.
Proof. intros r H. rewrite Z.even_add, H. reflexivity. Qed.

Lemma rhe_unique : forall n d r, 0 < d ->
  2 * Z.abs (d * r - n) <= d -> (2 * Z.abs (d * r - n) = d -> Z.even r = true) -> r = rhe n d.
Proof.
  intros n d r Hd H1 H2. destruct (rhe_spec n d Hd) as [S1 S2].
  set (s := rhe n d) in *.
  assert (Hc : r = s \/ r = s + 1 \/ s = r + 1).
  { destruct (Z.abs_spec (d * r - n)) as [[? Ea]|[? Ea]], (Z.abs_spec (d * s - n)) as [[? Eb]|[? Eb]];
      rewrite Ea in *; rewrite Eb in *; nia. }
  destruct Hc as [?|[Hc|Hc]]; [assumption| |]; exfalso.
  - (* r = s + 1: both at distance exactly d/2 *)
    assert (E1 : 2 * Z.abs (d * r - n) = d /\ 2 * Z.abs (d * s - n) = d).
    { subst r. destruct (Z.abs_spec (d * (s + 1) - n)) as [[? Ea]|[? Ea]],
        (Z.abs_spec (d * s - n)) as [[? Eb]|[? Eb]]; rewrite Ea in *; rewrite Eb in *; nia. }
    destruct E1 as [Ea Eb]. specialize (H2 Ea). specialize (S2 Eb). subst r.
    rewrite (even_succ_false _ S2) in H2. discriminate.
  - assert (E1 : 2 * Z.abs (d * r - n) = d /\ 2 * Z.abs (d * s - n) = d).
    { rewrite Hc in *. destruct (Z.abs_spec (d * (r + 1) - n)) as [[? Ea]|[? Ea]],
        (Z.abs_spec (d * r - n)) as [[? Eb]|[? Eb]]; rewrite Ea in *; rewrite Eb in *; nia. }
    destruct E1 as [Ea Eb]. specialize (H2 Ea). specialize (S2 Eb). rewrite Hc in S2.
    rewrite (even_succ_false _ H2) in S2. discriminate.
Qed.

Lemma rhe_exact : forall k d, 0 < d -> rhe (k * d) d = k.
Proof.
  intros k d Hd. symmetry. apply rhe_unique; [assumption| |].
  - replace (d * k - k * d) with 0 by ring. simpl. lia.
  - replace (d * k - k * d) with 0 by ring. simpl. lia.
Qed.

Lemma rhe_opp : forall n d, 0 < d -> rhe (- n) d = - rhe n d.
Proof.
  intros n d Hd. symmetry. destruct (rhe_spec n d Hd) as [S1 S2].
  apply rhe_unique; [assumption| |].
  - replace (d * - rhe n d - - n) with (- (d * rhe n d - n)) by ring. rewrite Z.abs_opp. assumption.
  - replace (d * - rhe n d - - n) with (- (d * rhe n d - n)) by ring. rewrite Z.abs_opp.
    intros H. rewrite Z.even_opp. auto.
Qed.

(* nearest-even lies between floor and ceiling *)
Lemma rhe_between : forall n d, 0 < d -> rfloor n d <= rhe n d <= rceil n d.
Proof.
  intros n d Hd. rewrite rceil_floor by lia. unfold rhe, rfloor.
  pose proof (Z.mod_pos_bound n d Hd) as B.
  destruct (Z.eqb_spec (n mod d) 0) as [E|E].
  - rewrite E. destruct (Z.compare_spec (2 * 0) d); try lia.
  - destruct (Z.compare_spec (2 * (n mod d)) d); try lia. destruct (Z.even (n / d)); lia.
Qed.

Lemma rhe_mono : forall n m d, 0 < d -> n <= m -> rhe n d <= rhe m d.
Proof.
  intros n m d Hd H.
  destruct (rhe_spec n d Hd) as [A1 A2]. destruct (rhe_spec m d Hd) as [B1 B2].
  set (r := rhe n d) in *. set (s := rhe m d) in *.
  destruct (Z.le_gt_cases r s) as [|G]; [assumption|exfalso].
  (* s < r: then d*r - n <= d/2 and m - d*s <= d/2 force r = s+1, n = m at the tie, both even *)
  assert (Hr : r = s + 1 /\ n = m /\ 2 * (d * r - n) = d /\ 2 * (m - d * s) = d).
  { destruct (Z.abs_spec (d * r - n)) as [[? Ea]|[? Ea]], (Z.abs_spec (d * s - m)) as [[? Eb]|[? Eb]];
      rewrite Ea in *; rewrite Eb in *; nia. }
  destruct Hr as (Hr & Hnm & Ha & Hb).
  assert (Ea : 2 * Z.abs (d * r - n) = d) by (rewrite Z.abs_eq; lia).
  assert (Eb : 2 * Z.abs (d * s - m) = d) by (rewrite Z.abs_neq; lia).
  specialize (A2 Ea). specialize (B2 Eb). rewrite Hr in A2.
  rewrite (even_succ_false _ B2) in A2. discriminate.
Qed.

(* ---------------------------------------------------------------- bridges to Base/DecModel *)
Lemma chop_trunc_rtz : forall p d, chop_trunc p d = rtz d p.
Proof. reflexivity. Qed.

Lemma inc_based_on_rem_ceil : forall p d, 0 < p -> 0 <= d ->
  inc_based_on_rem (Z.rem d p) (Z.quot d p) = rceil d p.
Proof.
  intros p d Hp Hd. unfold inc_based_on_rem.
  rewrite Z.rem_mod_nonneg, Z.quot_div_nonneg by lia.
  rewrite rceil_floor by lia. reflexivity.
Qed.

(* chopPrecisionAndRoundUpMut: ceiling for both signs *)
Lemma chop_round_up_ceil : forall p d, 0 < p -> chop_round_up p d = rceil d p.
Proof.
  intros p d Hp. unfold chop_round_up. destruct (Z.ltb_spec d 0).
  - rewrite Z.quot_div_nonneg by lia. reflexivity.
  - apply inc_based_on_rem_ceil; lia.
Qed.

(* incBasedOnRemAndDivisor after QuoRem: ceiling of the exact quotient m/b, all four sign combinations *)
Lemma inc_rem_div_ceil : forall m b, b <> 0 ->
  inc_rem_div (Z.rem m b) b (Z.quot m b) = rceil m b.
Proof.
  intros m b Hb. unfold inc_rem_div.
  pose proof (rtz_any_sign m b Hb) as T. unfold rtz in T.
  pose proof (rem_as_rtz m b Hb) as R. unfold rtz in R.
  pose proof (rceil_floor m b Hb) as C.
  assert (Hz : (Z.rem m b =? 0) = (m mod b =? 0)).
  { destruct (Z.eqb_spec (Z.rem m b) 0) as [E|E], (Z.eqb_spec (m mod b) 0) as [F|F]; try reflexivity; exfalso.
    - apply F. apply Z.rem_divide in E; [|assumption]. apply Z.mod_divide; assumption.
    - apply E. apply Z.mod_divide in F; [|assumption]. apply Z.rem_divide; assumption. }
  rewrite Hz. destruct (Z.eqb_spec (m mod b) 0) as [F|F]; cbn [orb].
  - (* exact *) rewrite T, C. destruct (0 <=? m * b); reflexivity.
  - assert (Hr : Z.rem m b <> 0).
    { intro E. apply F. apply Z.rem_divide in E; [|assumption]. apply Z.mod_divide; assumption. }
    pose proof (Z.rem_sign_nz m b Hb Hr) as Sg.   (* sgn (rem m b) = sgn m *)
    rewrite Sg. rewrite T.
    destruct (Z.eqb_spec (Z.sgn m) (Z.sgn b)) as [E|E]; cbn [negb].
    + (* same sign: quotient positive, truncation = floor, so add one *)
      assert (0 <= m * b) by (destruct m, b; cbn in *; try lia; discriminate).
      destruct (Z.leb_spec 0 (m * b)); [|lia].
      rewrite C. reflexivity.
    + assert (m <> 0) by (intro; subst; rewrite Z.rem_0_l in Hr; lia).
      assert (m * b < 0) by (destruct m, b; cbn in *; try lia; exfalso; apply E; reflexivity).
      destruct (Z.leb_spec 0 (m * b)); [lia|reflexivity].
Qed.

(* chopPrecisionAndRound (bankers), p even *)
Lemma chop_round_nonneg_rhe : forall p a, 0 < p -> Z.even p = true -> 0 <= a ->
  chop_round_nonneg p a = rhe a p.
Proof.
  intros p a Hp Ev Ha. unfold chop_round_nonneg, rhe.
  rewrite Z.rem_mod_nonneg, Z.quot_div_nonneg by lia.
  pose proof (Z.mod_pos_bound a p Hp) as B.
  assert (Hh : p = 2 * Z.quot p 2).
  { rewrite Z.quot_div_nonneg by lia. apply Zeven_bool_iff in Ev. apply Zeven_div2 in Ev.
    rewrite Z.div2_div in Ev. exact Ev. }
  set (h := Z.quot p 2) in *.
  destruct (Z.eqb_spec (a mod p) 0) as [E|E].
  - rewrite E. destruct (Z.compare_spec (2 * 0) p); try lia.
  - destruct (Z.compare_spec (a mod p) h), (Z.compare_spec (2 * (a mod p)) p); try lia; reflexivity.
Qed.

Lemma chop_round_rhe : forall p d, 0 < p -> Z.even p = true -> chop_round p d = rhe d p.
Proof.
  intros p d Hp Ev. unfold chop_round. destruct (Z.ltb_spec d 0).
  - rewrite chop_round_nonneg_rhe by (try assumption; lia). rewrite rhe_opp by assumption. lia.
  - apply chop_round_nonneg_rhe; try assumption; lia.
Qed.

(* the constants *)
Lemma P36_pos : 0 < P36. Proof. reflexivity. Qed.
Lemma P18_pos : 0 < P18. Proof. reflexivity. Qed.
Lemma P72_pos : 0 < P72. Proof. reflexivity. Qed.
Lemma P36_even : Z.even P36 = true. Proof. reflexivity. Qed.
Lemma P18_even : Z.even P18 = true. Proof. reflexivity. Qed.
Lemma P72_sq : P72 = P36 * P36. Proof. reflexivity. Qed.
Lemma P36_split : P36 = P18 * P18. Proof. reflexivity. Qed.

(* ---------------------------------------------------------------- further interface lemmas *)
Lemma rfloor_le_rtz_le_rceil : forall n d, 0 < d -> rfloor n d <= rtz n d <= rceil n d.
Proof.
  intros n d Hd. rewrite rtz_floor_ceil by assumption. pose proof (rceil_ge_floor n d ltac:(lia)).
  destruct (0 <=? n); lia.
Qed.
Lemma rfloor_add_multiple : forall n k d, d <> 0 -> rfloor (n + k * d) d = rfloor n d + k.
Proof. intros; unfold rfloor; apply Z.div_add; assumption. Qed.
Lemma rceil_add_multiple : forall n k d, d <> 0 -> rceil (n + k * d) d = rceil n d + k.
Proof.
  intros n k d Hd. unfold rceil. replace (- (n + k * d)) with (- n + (- k) * d) by ring.
  rewrite Z.div_add by assumption. lia.
Qed.
Lemma rtz_nonneg : forall n d, 0 <= n -> 0 < d -> 0 <= rtz n d.
Proof. intros; unfold rtz; apply Z.quot_pos; lia. Qed.
Lemma rtz_nonpos : forall n d, n <= 0 -> 0 < d -> rtz n d <= 0.
Proof. intros n d Hn Hd. destruct (rtz_spec n d Hd) as [_ H]. specialize (H Hn). nia. Qed.
Lemma rceil_pos_iff : forall n d, 0 < d -> (0 < rceil n d <-> 0 < n).
Proof. intros n d Hd. pose proof (rceil_spec n d Hd). split; intros; nia. Qed.
Lemma rfloor_neg_iff : forall n d, 0 < d -> (rfloor n d < 0 <-> n < 0).
Proof. intros n d Hd. pose proof (rfloor_spec n d Hd). split; intros; nia. Qed.
Lemma rhe_zero_iff : forall n d, 0 < d -> (rhe n d = 0 <-> 2 * Z.abs n <= d).
Proof.
  intros n d Hd. split.
  - intros E. destruct (rhe_spec n d Hd) as [S _]. rewrite E in S. replace (d * 0 - n) with (- n) in S by ring.
    rewrite Z.abs_opp in S. exact S.
  - intros H. symmetry. apply rhe_unique; [assumption| |].
    + replace (d * 0 - n) with (- n) by ring. rewrite Z.abs_opp. exact H.
    + reflexivity.
Qed.
(* rounding error of each direction, in units of 1/d *)
Lemma rceil_error : forall n d, 0 < d -> 0 <= d * rceil n d - n < d.
Proof. intros n d Hd. pose proof (rceil_spec n d Hd). lia. Qed.
Lemma rfloor_error : forall n d, 0 < d -> 0 <= n - d * rfloor n d < d.
Proof. intros n d Hd. pose proof (rfloor_spec n d Hd). lia. Qed.
Lemma rtz_error : forall n d, 0 < d -> Z.abs (n - d * rtz n d) < d.
Proof.
  intros n d Hd. destruct (rtz_spec n d Hd) as [A B].
  destruct (Z.le_ge_cases 0 n) as [H|H].
  - specialize (A H). rewrite Z.abs_eq by lia. lia.
  - specialize (B ltac:(lia)). rewrite Z.abs_neq by lia. lia.
Qed.
(* ceil >= trunc >= floor ordering between results of the same exact value, e.g. estimate vs execute directions *)
Lemma rceil_ge_rhe_ge_rfloor : forall n d, 0 < d -> rfloor n d <= rhe n d <= rceil n d.
Proof. exact rhe_between. Qed.
