(* C12/Direction.v - every value-level operation of Base/DecModel.v equals the rounding operator its
   name selects, applied to the exact rational result (op_direction), for operands of either sign. *)
From Coq Require Import ZArith Lia Bool.
From Osmo Require Import Base.DecModel C12.Rounding.
Open Scope Z_scope.

(* exactness: all three roundings return the exact quotient when it is an integer *)
Lemma round_exact : forall n d, 0 < d -> (d | n) ->
  rhe n d = n / d /\ rtz n d = n / d /\ rceil n d = n / d /\ rfloor n d = n / d.
Proof.
  intros n d Hd [k Hk]. subst n. rewrite Z.div_mul by lia.
  rewrite rhe_exact, rtz_exact, rceil_exact, rfloor_exact by lia. auto.
Qed.

(* ---- 36-decimal ---- *)
Lemma bd_mul_dir : forall a b, bd_mul a b = rhe (a * b) P36.
Proof. intros; unfold bd_mul; apply chop_round_rhe; [apply P36_pos|apply P36_even]. Qed.
Lemma bd_mul_dec_dir : forall a b, bd_mul_dec a b = rhe (a * b) P18.
Proof. intros; unfold bd_mul_dec; apply chop_round_rhe; [apply P18_pos|apply P18_even]. Qed.
Lemma bd_mul_truncate_dir : forall a b, bd_mul_truncate a b = rtz (a * b) P36.
Proof. reflexivity. Qed.
Lemma bd_mul_truncate_dec_dir : forall a b, bd_mul_truncate_dec a b = rtz (a * b) P18.
Proof. reflexivity. Qed.
Lemma bd_mul_round_up_dir : forall a b, bd_mul_round_up a b = rceil (a * b) P36.
Proof. intros; unfold bd_mul_round_up; apply chop_round_up_ceil; apply P36_pos. Qed.
Lemma bd_mul_round_up_dec_dir : forall a b, bd_mul_round_up_dec a b = rceil (a * b) P18.
Proof. intros; unfold bd_mul_round_up_dec; apply chop_round_up_ceil; apply P18_pos. Qed.
(* Quo: half-even at 36 decimals of the quotient truncated at 72 decimals *)
Lemma bd_quo_dir : forall a b, bd_quo a b = rhe (rtz (a * P72) b) P36.
Proof. intros; unfold bd_quo, rtz; apply chop_round_rhe; [apply P36_pos|apply P36_even]. Qed.
Lemma bd_quo_raw_dir : forall a i, bd_quo_raw a i = rhe (rtz (a * P36) i) P36.
Proof. intros; unfold bd_quo_raw, rtz; apply chop_round_rhe; [apply P36_pos|apply P36_even]. Qed.
Lemma bd_quo_truncate_dir : forall a b, bd_quo_truncate a b = rtz (a * P36) b.
Proof. reflexivity. Qed.
Lemma bd_quo_truncate_dec_dir : forall a b, bd_quo_truncate_dec a b = rtz (a * P18) b.
Proof. reflexivity. Qed.
(* the round-up divisions: ceiling of the exact quotient for all four sign combinations (F1 repaired) *)
Lemma bd_quo_round_up_dir : forall a b, b <> 0 -> bd_quo_round_up a b = rceil (a * P36) b.
Proof. intros; unfold bd_quo_round_up; apply inc_rem_div_ceil; assumption. Qed.
Lemma bd_quo_by_dec_round_up_dir : forall a b, b <> 0 -> bd_quo_by_dec_round_up a b = rceil (a * P18) b.
Proof. intros; unfold bd_quo_by_dec_round_up; apply inc_rem_div_ceil; assumption. Qed.
Lemma bd_quo_round_up_mut_dir : forall a b, b <> 0 -> bd_quo_round_up_mut a b = rceil (a * P36) b.
Proof. intros; unfold bd_quo_round_up_mut; apply bd_quo_round_up_dir; assumption. Qed.
Lemma bd_quo_round_up_next_int_mut_dir : forall a b, b <> 0 ->
  bd_quo_round_up_next_int_mut a b = rceil a b * P36.
Proof. intros; unfold bd_quo_round_up_next_int_mut; rewrite inc_rem_div_ceil by assumption; reflexivity. Qed.
Lemma bd_quo_int_dir : forall a i, bd_quo_int a i = rtz a i.
Proof. reflexivity. Qed.
Lemma ceil_via_quot_rem : forall a p, 0 < p ->
  (if Z.rem a p <=? 0 then Z.quot a p else Z.quot a p + 1) = rceil a p.
Proof.
  intros a p Hp. pose proof (rtz_floor_ceil a p Hp) as T. unfold rtz in T.
  destruct (Z.leb_spec 0 a) as [Ha|Ha].
  - rewrite Z.rem_mod_nonneg by lia. rewrite T. rewrite rceil_floor by lia.
    pose proof (Z.mod_pos_bound a p Hp).
    destruct (Z.eqb_spec (a mod p) 0); destruct (Z.leb_spec (a mod p) 0); lia.
  - rewrite T. assert (Z.rem a p <= 0) by (apply Z.rem_nonpos; lia).
    destruct (Z.leb_spec (Z.rem a p) 0); lia.
Qed.
Lemma bd_ceil_dir : forall a, bd_ceil a = rceil a P36 * P36.
Proof.
  intros a. unfold bd_ceil. rewrite <- (ceil_via_quot_rem a P36 P36_pos).
  destruct (Z.rem a P36 <=? 0); reflexivity.
Qed.
Lemma bd_truncate_int_dir : forall a, bd_truncate_int a = rtz a P36.
Proof. reflexivity. Qed.
Lemma bd_truncate_dec_dir : forall a, bd_truncate_dec a = rtz a P36 * P36.
Proof. reflexivity. Qed.
Lemma bd_round_int_dir : forall a, bd_round_int a = rhe a P36.
Proof. intros; unfold bd_round_int; apply chop_round_rhe; [apply P36_pos|apply P36_even]. Qed.
(* precision conversions 36 -> 18 decimals *)
Lemma bd_to_dec_dir : forall a, bd_to_dec a = rtz a P18.
Proof. reflexivity. Qed.
Lemma bd_to_dec_round_up_dir : forall a, bd_to_dec_round_up a = rceil a P18.
Proof. intros; unfold bd_to_dec_round_up; apply inc_rem_div_ceil; discriminate. Qed.
Lemma bd_from_dec_exact : forall d, bd_to_dec (bd_from_dec d) = d /\ bd_to_dec_round_up (bd_from_dec d) = d.
Proof.
  intros d. rewrite bd_to_dec_dir, bd_to_dec_round_up_dir. unfold bd_from_dec.
  rewrite rtz_exact, rceil_exact by discriminate. auto.
Qed.
Lemma bd_chop_precision_dir : forall k a, bd_chop_precision k a = rtz a (10 ^ (36 - k)) * 10 ^ (36 - k).
Proof. reflexivity. Qed.
Lemma bd_dec_with_precision_dir : forall k a,
  bd_dec_with_precision k a = rtz a (10 ^ (36 - k)) * 10 ^ (18 - k).
Proof. reflexivity. Qed.

(* ---- 18-decimal (cosmossdk.io/math LegacyDec) ---- *)
Lemma d_mul_dir : forall a b, d_mul a b = rhe (a * b) P18.
Proof. intros; unfold d_mul; apply chop_round_rhe; [apply P18_pos|apply P18_even]. Qed.
Lemma d_mul_truncate_dir : forall a b, d_mul_truncate a b = rtz (a * b) P18.
Proof. reflexivity. Qed.
Lemma d_chop_round_up_ceil : forall d, d_chop_round_up d = rceil d P18.
Proof.
  intros d. rewrite <- (chop_round_up_ceil P18 d P18_pos). unfold d_chop_round_up, chop_round_up, inc_based_on_rem.
  reflexivity.
Qed.
Lemma d_mul_round_up_dir : forall a b, d_mul_round_up a b = rceil (a * b) P18.
Proof. intros; unfold d_mul_round_up; apply d_chop_round_up_ceil. Qed.
Lemma d_quo_dir : forall a b, d_quo a b = rhe (rtz (a * (P18 * P18)) b) P18.
Proof. intros; unfold d_quo, rtz; apply chop_round_rhe; [apply P18_pos|apply P18_even]. Qed.
Lemma d_quo_truncate_dir : forall a b, d_quo_truncate a b = rtz (a * P18) b.
Proof. reflexivity. Qed.
Lemma d_quo_int_dir : forall a i, d_quo_int a i = rtz a i.
Proof. reflexivity. Qed.
Lemma d_ceil_dir : forall a, d_ceil a = rceil a P18 * P18.
Proof.
  intros a. unfold d_ceil. rewrite <- (ceil_via_quot_rem a P18 P18_pos).
  destruct (Z.ltb_spec 0 (Z.rem a P18)), (Z.leb_spec (Z.rem a P18) 0); try lia; reflexivity.
Qed.
Lemma d_truncate_int_dir : forall a, d_truncate_int a = rtz a P18.
Proof. reflexivity. Qed.
Lemma d_truncate_dec_dir : forall a, d_truncate_dec a = rtz a P18 * P18.
Proof. reflexivity. Qed.
Lemma d_round_int_dir : forall a, d_round_int a = rhe a P18.
Proof. intros; unfold d_round_int; apply chop_round_rhe; [apply P18_pos|apply P18_even]. Qed.

(* LegacyDec.QuoRoundUp (dependency) *)
Ltac bool_cases :=
  repeat match goal with
  | |- context [Z.ltb ?x ?y] => destruct (Z.ltb_spec x y)
  | |- context [Z.eqb ?x ?y] => destruct (Z.eqb_spec x y)
  end.

Lemma quot_sign_facts : forall m b, b <> 0 ->
  (0 <= m * b -> 0 <= Z.quot m b) /\ (m * b <= 0 -> Z.quot m b <= 0) /\
  (Z.rem m b <> 0 -> (0 < m <-> 0 < Z.rem m b) /\ (m < 0 <-> Z.rem m b < 0)).
Proof.
  intros m b Hb. pose proof (Z.quot_rem' m b) as E.
  assert (Hr : Z.abs (Z.rem m b) < Z.abs b) by (apply Z.rem_bound_abs; assumption).
  assert (Hs : 0 <= Z.rem m b * m) by (apply Z.rem_sign_mul; assumption).
  assert (H0 : m = 0 -> Z.rem m b = 0) by (intros ->; apply Z.rem_0_l; assumption).
  repeat split; intros; try nia.
Qed.

(* ... ceiling when the exact quotient is >= 0 (operands of the same sign, or a zero dividend) ... *)
Lemma d_quo_round_up_dir_nonneg : forall a b, b <> 0 -> 0 <= a * b ->
  d_quo_round_up a b = rceil (a * P18) b.
Proof.
  intros a b Hb Hab. unfold d_quo_round_up.
  rewrite <- (inc_rem_div_ceil (a * P18) b Hb). unfold inc_rem_div.
  set (m := a * P18). assert (Hm : 0 <= m * b) by (unfold m; pose proof P18_pos; nia).
  destruct (quot_sign_facts m b Hb) as (Q1 & Q2 & Q3). specialize (Q1 Hm).
  pose proof (Z.sgn_spec m) as S1. pose proof (Z.sgn_spec b) as S2. pose proof (Z.sgn_spec (Z.rem m b)) as S3.
  bool_cases; cbn; try lia; try (specialize (Q3 ltac:(lia)); nia).
Qed.
(* ... the ceiling also when the truncated quotient is 0, and one unit above the ceiling for an inexact
   negative quotient of operands of opposite sign (finding F5) *)
Lemma d_quo_round_up_opposite : forall a b, b <> 0 -> a * b < 0 -> Z.rem (a * P18) b <> 0 ->
  Z.quot (a * P18) b <> 0 -> d_quo_round_up a b = rceil (a * P18) b + 1.
Proof.
  intros a b Hb Hab Rnz Qnz. unfold d_quo_round_up.
  rewrite <- (inc_rem_div_ceil (a * P18) b Hb). unfold inc_rem_div.
  set (m := a * P18) in *. assert (Hm : m * b < 0) by (unfold m; pose proof P18_pos; nia).
  destruct (quot_sign_facts m b Hb) as (Q1 & Q2 & Q3). specialize (Q2 ltac:(lia)). specialize (Q3 Rnz).
  pose proof (Z.sgn_spec m) as S1. pose proof (Z.sgn_spec b) as S2. pose proof (Z.sgn_spec (Z.rem m b)) as S3.
  bool_cases; cbn; try lia; try nia.
Qed.
