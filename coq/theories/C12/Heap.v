(* C12/Heap.v - reasoning framework for the cell-level model (C12/Model.v):
   heap lemmas, a weakest-precondition style [spec] judgement with rules for the big.Int
   primitives, and a frame judgement [pres] ("only cells of S, or cells allocated by the program
   itself, are written") with compositional rules and an automation tactic. *)
From Coq Require Import ZArith List Bool Lia.
Import ListNotations.
From Osmo Require Import Base.DecModel C12.Model.
Open Scope Z_scope.

(* ------------------------------------------------------------------ heaps *)
Definition halloc (h : heap) (v : Z) : heap := fst (alloc h v).

Lemma rd_wr_eq : forall h l v, rd (wr h l v) l = v.
Proof. intros; unfold rd, wr; cbn. rewrite Nat.eqb_refl. reflexivity. Qed.
Lemma rd_wr_ne : forall h l l' v, l' <> l -> rd (wr h l v) l' = rd h l'.
Proof. intros h l l' v H; unfold rd, wr; cbn. destruct (Nat.eqb_spec l' l); [contradiction|reflexivity]. Qed.
Lemma next_wr : forall h l v, next (wr h l v) = next h.
Proof. reflexivity. Qed.
Lemma rd_halloc_new : forall h v, rd (halloc h v) (next h) = v.
Proof. intros; unfold rd, halloc, alloc; cbn. rewrite Nat.eqb_refl. reflexivity. Qed.
Lemma rd_halloc_old : forall h v l, l <> next h -> rd (halloc h v) l = rd h l.
Proof. intros h v l H; unfold rd, halloc, alloc; cbn. destruct (Nat.eqb_spec l (next h)); [contradiction|reflexivity]. Qed.
Lemma next_halloc : forall h v, next (halloc h v) = S (next h).
Proof. reflexivity. Qed.
Lemma bnew_eq : forall v h, bnew v h = Ok (halloc h v) (next h).
Proof. reflexivity. Qed.

Global Opaque halloc.

Ltac hs_side := repeat (first [rewrite next_wr | rewrite next_halloc]); first [lia | congruence].
Ltac heap_simp :=
  repeat first
    [ rewrite rd_wr_eq
    | rewrite rd_halloc_new
    | rewrite next_wr
    | rewrite next_halloc
    | rewrite rd_wr_ne by hs_side
    | rewrite rd_halloc_old by hs_side ].
Ltac heap_simp_in H :=
  repeat first
    [ rewrite rd_wr_eq in H
    | rewrite rd_halloc_new in H
    | rewrite next_wr in H
    | rewrite next_halloc in H
    | rewrite rd_wr_ne in H by hs_side
    | rewrite rd_halloc_old in H by hs_side ].

(* ------------------------------------------------------------------ spec: wp-style judgement *)
Definition spec {A} (m : M A) (h : heap) (Q : heap -> A -> Prop) (E : perr -> heap -> Prop) : Prop :=
  match m h with Ok h' a => Q h' a | Panic e h' => E e h' end.

Lemma spec_ret : forall A (a : A) h (Q : heap -> A -> Prop) (E : perr -> heap -> Prop), Q h a -> spec (ret a) h Q E.
Proof. intros; exact H. Qed.
Lemma spec_panic : forall A e h (Q : heap -> A -> Prop) (E : perr -> heap -> Prop), E e h -> spec (panic e) h Q E.
Proof. intros; exact H. Qed.
Lemma spec_bind : forall A B (m : M A) (f : A -> M B) h (Q : heap -> B -> Prop) (E : perr -> heap -> Prop),
  spec m h (fun h1 a => spec (f a) h1 Q E) E -> spec (bind m f) h Q E.
Proof. intros A B m f h Q E H. unfold spec, bind in *. destruct (m h); exact H. Qed.
Lemma spec_weaken : forall A (m : M A) h (Q Q' : heap -> A -> Prop) (E E' : perr -> heap -> Prop),
  spec m h Q E -> (forall h' a, Q h' a -> Q' h' a) -> (forall e h', E e h' -> E' e h') -> spec m h Q' E'.
Proof. intros A m h Q Q' E E' H HQ HE. unfold spec in *. destruct (m h); auto. Qed.
Lemma spec_get : forall s h (Q : heap -> Z -> Prop) (E : perr -> heap -> Prop), Q h (val h s) -> spec (get s) h Q E.
Proof. intros; exact H. Qed.
Lemma spec_bnew : forall v h (Q : heap -> nat -> Prop) (E : perr -> heap -> Prop), Q (halloc h v) (next h) -> spec (bnew v) h Q E.
Proof. intros; exact H. Qed.
Lemma spec_bop1 : forall f z x h (Q : heap -> unit -> Prop) (E : perr -> heap -> Prop), Q (wr h z (f (val h x))) tt -> spec (bop1 f z x) h Q E.
Proof. intros; exact H. Qed.
Lemma spec_bop2 : forall f z x y h (Q : heap -> unit -> Prop) (E : perr -> heap -> Prop), Q (wr h z (f (val h x) (val h y))) tt -> spec (bop2 f z x y) h Q E.
Proof. intros; exact H. Qed.
Lemma spec_bquo : forall z x y h (Q : heap -> unit -> Prop) (E : perr -> heap -> Prop),
  (val h y = 0 -> E EDivZero h) -> (val h y <> 0 -> Q (wr h z (Z.quot (val h x) (val h y))) tt) ->
  spec (bquo z x y) h Q E.
Proof. intros z x y h Q E H0 H1. unfold spec, bquo. destruct (Z.eqb_spec (val h y) 0); auto. Qed.
Lemma spec_brem : forall z x y h (Q : heap -> unit -> Prop) (E : perr -> heap -> Prop),
  (val h y = 0 -> E EDivZero h) -> (val h y <> 0 -> Q (wr h z (Z.rem (val h x) (val h y))) tt) ->
  spec (brem z x y) h Q E.
Proof. intros z x y h Q E H0 H1. unfold spec, brem. destruct (Z.eqb_spec (val h y) 0); auto. Qed.
Lemma spec_bmod : forall z x y h (Q : heap -> unit -> Prop) (E : perr -> heap -> Prop),
  (val h y = 0 -> E EDivZero h) -> (val h y <> 0 -> Q (wr h z (Z.modulo (val h x) (Z.abs (val h y)))) tt) ->
  spec (bmod z x y) h Q E.
Proof. intros z x y h Q E H0 H1. unfold spec, bmod. destruct (Z.eqb_spec (val h y) 0); auto. Qed.
Lemma spec_bquorem : forall z x y r h (Q : heap -> unit -> Prop) (E : perr -> heap -> Prop),
  (val h y = 0 -> E EDivZero h) ->
  (val h y <> 0 -> Q (wr (wr h r (Z.rem (val h x) (val h y))) z (Z.quot (val h x) (val h y))) tt) ->
  spec (bquorem z x y r) h Q E.
Proof. intros z x y r h Q E H0 H1. unfold spec, bquorem. destruct (Z.eqb_spec (val h y) 0); auto. Qed.

(* one symbolic-execution step through a leading primitive *)
Ltac sstep :=
  lazymatch goal with
  | |- spec (bind _ _) _ _ _ => apply spec_bind; sstep
  | |- spec (ret _) _ _ _ => apply spec_ret
  | |- spec (panic _) _ _ _ => apply spec_panic
  | |- spec (get _) _ _ _ => apply spec_get; cbn [val]
  | |- spec (bnew _) _ _ _ => apply spec_bnew
  | |- spec (bset _ _) _ _ _ => apply spec_bop1; cbn [val]
  | |- spec (bneg _ _) _ _ _ => apply spec_bop1; cbn [val]
  | |- spec (babs _ _) _ _ _ => apply spec_bop1; cbn [val]
  | |- spec (badd _ _ _) _ _ _ => apply spec_bop2; cbn [val]
  | |- spec (bsub _ _ _) _ _ _ => apply spec_bop2; cbn [val]
  | |- spec (bmul _ _ _) _ _ _ => apply spec_bop2; cbn [val]
  | |- spec (bop1 _ _ _) _ _ _ => apply spec_bop1; cbn [val]
  | |- spec (bop2 _ _ _ _) _ _ _ => apply spec_bop2; cbn [val]
  end.
Ltac ssteps := repeat (sstep; heap_simp).
(* step through a leading division primitive: two goals (divisor = 0 / divisor <> 0) *)
Ltac sbind := lazymatch goal with |- spec (bind _ _) _ _ _ => apply spec_bind end.
Ltac sdiv :=
  repeat sbind;
  first [apply spec_bquo | apply spec_bquorem | apply spec_brem | apply spec_bmod];
  cbn [val]; heap_simp.
(* call a helper with a proved spec inside a bind *)
Ltac scall lem := repeat sbind; eapply spec_weaken; [apply lem| |intros ? ? []]; cbn beta.

(* ------------------------------------------------------------------ frame judgement *)
(* cells below n that are not in S keep their value; the allocation pointer only grows *)
Definition frame (n : nat) (S : nat -> Prop) (h h' : heap) : Prop :=
  (next h <= next h')%nat /\ forall l, (l < n)%nat -> ~ S l -> rd h' l = rd h l.
(* W: a cell the program may write: in S, or not below n (allocated by the program itself) *)
Definition W (n : nat) (S : nat -> Prop) (z : nat) : Prop := S z \/ (n <= z)%nat.
Definition pres {A} (n : nat) (S : nat -> Prop) (m : M A) (R : A -> Prop) : Prop :=
  forall h, (n <= next h)%nat ->
  match m h with Ok h' a => frame n S h h' /\ R a | Panic _ h' => frame n S h h' end.

Lemma frame_refl : forall n S h, frame n S h h.
Proof. intros; split; [lia|auto]. Qed.
Lemma frame_trans : forall n S h1 h2 h3, frame n S h1 h2 -> frame n S h2 h3 -> frame n S h1 h3.
Proof. intros n S h1 h2 h3 [A1 B1] [A2 B2]. split; [lia|]. intros l Hl HS. rewrite B2, B1; auto. Qed.
Lemma frame_wr : forall n S h z v, W n S z -> frame n S h (wr h z v).
Proof.
  intros n S h z v Hz. split; [rewrite next_wr; lia|]. intros l Hl HS.
  apply rd_wr_ne. intro; subst. destruct Hz; [contradiction|lia].
Qed.

Lemma pres_ret : forall A n S (a : A) (R : A -> Prop), R a -> pres n S (ret a) R.
Proof. intros A n S a R H h Hn. cbn. split; [apply frame_refl|exact H]. Qed.
Lemma pres_panic : forall A n S e (R : A -> Prop), pres n S (panic e) R.
Proof. intros A n S e R h Hn. cbn. apply frame_refl. Qed.
Lemma pres_bind : forall A B n S (m : M A) (f : A -> M B) (R : A -> Prop) (R' : B -> Prop),
  pres n S m R -> (forall a, R a -> pres n S (f a) R') -> pres n S (bind m f) R'.
Proof.
  intros A B n S m f R R' Hm Hf h Hn. specialize (Hm h Hn). unfold bind.
  destruct (m h) as [h1 a|e h1].
  - destruct Hm as [F Ra]. specialize (Hf a Ra h1). destruct F as [F1 F2].
    specialize (Hf ltac:(lia)). destruct (f a h1) as [h2 b|e h2].
    + destruct Hf as [G Rb]. split; [|exact Rb]. eapply frame_trans; [split; eauto|exact G].
    + eapply frame_trans; [split; eauto|exact Hf].
  - exact Hm.
Qed.
Lemma pres_weaken : forall A n S (m : M A) (R R' : A -> Prop),
  pres n S m R -> (forall a, R a -> R' a) -> pres n S m R'.
Proof.
  intros A n S m R R' H HR h Hn. specialize (H h Hn). destruct (m h); [destruct H; split; auto|exact H].
Qed.
Lemma pres_get : forall n S s, pres n S (get s) (fun _ => True).
Proof. intros n S s h Hn. cbn. split; [apply frame_refl|exact I]. Qed.
Lemma pres_bnew : forall n S v, pres n S (bnew v) (fun a => (n <= a)%nat).
Proof.
  intros n S v h Hn. rewrite bnew_eq. split; [|exact Hn].
  split; [rewrite next_halloc; lia|]. intros l Hl _. apply rd_halloc_old. lia.
Qed.
Lemma pres_bop1 : forall n S f z x, W n S z -> pres n S (bop1 f z x) (fun _ => True).
Proof. intros n S f z x Hz h Hn. cbn. split; [apply frame_wr; exact Hz|exact I]. Qed.
Lemma pres_bop2 : forall n S f z x y, W n S z -> pres n S (bop2 f z x y) (fun _ => True).
Proof. intros n S f z x y Hz h Hn. cbn. split; [apply frame_wr; exact Hz|exact I]. Qed.
Lemma pres_bquo : forall n S z x y, W n S z -> pres n S (bquo z x y) (fun _ => True).
Proof.
  intros n S z x y Hz h Hn. unfold bquo. destruct (val h y =? 0); [apply frame_refl|].
  split; [apply frame_wr; exact Hz|exact I].
Qed.
Lemma pres_brem : forall n S z x y, W n S z -> pres n S (brem z x y) (fun _ => True).
Proof.
  intros n S z x y Hz h Hn. unfold brem. destruct (val h y =? 0); [apply frame_refl|].
  split; [apply frame_wr; exact Hz|exact I].
Qed.
Lemma pres_bmod : forall n S z x y, W n S z -> pres n S (bmod z x y) (fun _ => True).
Proof.
  intros n S z x y Hz h Hn. unfold bmod. destruct (val h y =? 0); [apply frame_refl|].
  split; [apply frame_wr; exact Hz|exact I].
Qed.
Lemma pres_bquorem : forall n S z x y r, W n S z -> W n S r -> pres n S (bquorem z x y r) (fun _ => True).
Proof.
  intros n S z x y r Hz Hr h Hn. unfold bquorem. destruct (val h y =? 0); [apply frame_refl|].
  split; [|exact I]. eapply frame_trans; apply frame_wr; assumption.
Qed.

Lemma W_fresh : forall n S z, (n <= z)%nat -> W n S z.
Proof. intros; right; assumption. Qed.
Lemma W_in : forall n (S : nat -> Prop) z, S z -> W n S z.
Proof. intros; left; assumption. Qed.
Global Hint Resolve W_fresh W_in : pres.

(* automation: decompose a program along binds / conditionals; leaves are closed by the primitive rules or
   by lemmas registered in the hint database [pres] *)
Ltac pres_leaf :=
  first
    [ apply pres_ret; auto with pres
    | apply pres_panic
    | eapply pres_weaken; [apply pres_get|intros; exact I]
    | eapply pres_weaken; [apply pres_bnew|cbn beta; intros; auto with pres]
    | eapply pres_weaken; [apply pres_bop1; auto with pres|intros; exact I]
    | eapply pres_weaken; [apply pres_bop2; auto with pres|intros; exact I]
    | eapply pres_weaken; [apply pres_bquo; auto with pres|intros; exact I]
    | eapply pres_weaken; [apply pres_brem; auto with pres|intros; exact I]
    | eapply pres_weaken; [apply pres_bmod; auto with pres|intros; exact I]
    | eapply pres_weaken; [apply pres_bquorem; auto with pres|intros; exact I]
    | solve [eauto with pres] ].
