(* C12/Main.v - the statements used by Properties/C12.v, assembled from Rounding / Direction (values),
   Frame / Refine (cells), CodecProofs (encodings), with the constants of Gen/C12_consts.v. *)
From Coq Require Import ZArith List Bool Lia.
Import ListNotations.
From Osmo Require Import Base.DecModel Base.Obs Gen.C12_consts C12.Rounding C12.Direction C12.Consts
  C12.Model C12.Heap C12.Frame C12.Refine C12.Corr C12.Codec C12.CodecProofs.
Open Scope Z_scope.

(* ------------------------------------------------------------------ operands left untouched *)
Definition untouched (h : heap) (r : res nat) : Prop :=
  match r with Ok h' _ | Panic _ h' => forall l, (l < next h)%nat -> rd h' l = rd h l end.
Definition only_cell (x : nat) (h : heap) (r : res nat) : Prop :=
  match r with Ok h' _ | Panic _ h' => forall l, (l < next h)%nat -> l <> x -> rd h' l = rd h l end.

Lemma pres_untouched : forall (m : M nat) (R : nat -> Prop) h,
  pres (next h) (fun _ => False) m R -> untouched h (m h).
Proof.
  intros m R h H. specialize (H h (le_n _)). unfold untouched.
  destruct (m h) as [h' a|e h']; [destruct H as [[_ F] _]|destruct H as [_ F]]; intros l Hl; apply F; auto.
Qed.
Lemma pres_only_cell : forall (m : M nat) (R : nat -> Prop) h x,
  pres (next h) (eq x) m R -> only_cell x h (m h).
Proof.
  intros m R h x H. specialize (H h (le_n _)). unfold only_cell.
  destruct (m h) as [h' a|e h']; [destruct H as [[_ F] _]|destruct H as [_ F]]; intros l Hl Hne; apply F; auto.
Qed.

(* the non-mutating methods (every public method of the three types that is not named ...Mut, and the constructors) *)
Definition nonmut_op (o : op) : bool :=
  match o with
  | OBD_Add | OBD_Sub | OBD_Neg | OBD_Abs | OBD_Clone | OBD_Mul | OBD_MulDec | OBD_MulTruncate | OBD_MulTruncateDec
  | OBD_MulRoundUp | OBD_MulRoundUpDec | OBD_MulInt | OBD_MulInt64 | OBD_Quo | OBD_QuoRaw | OBD_QuoTruncate
  | OBD_QuoTruncateDec | OBD_QuoRoundUp | OBD_QuoByDecRoundUp | OBD_QuoInt | OBD_QuoInt64 | OBD_Ceil
  | OBD_TruncateInt | OBD_TruncateInt64 | OBD_TruncateDec | OBD_RoundInt | OBD_RoundInt64 | OBD_Dec | OBD_DecRoundUp
  | OBD_DecWithPrecision | OBD_ChopPrecision | OBD_PowerInteger | OBD_IsInteger | OBD_Cmp | OBD_Min | OBD_Max
  | OD_Add | OD_Sub | OD_Neg | OD_Abs | OD_Mul | OD_MulTruncate | OD_MulRoundUp | OD_MulInt | OD_MulInt64
  | OD_Quo | OD_QuoTruncate | OD_QuoRoundUp | OD_QuoInt | OD_QuoInt64 | OD_Ceil | OD_RoundInt | OD_RoundInt64
  | OD_TruncateInt | OD_TruncateInt64 | OD_TruncateDec | OD_Power | OD_IsInteger | OD_ToBigDec | OD_MulDecToBigDec
  | OBI_New | OBI_Add | OBI_AddRaw | OBI_Sub | OBI_SubRaw | OBI_Mul | OBI_MulRaw | OBI_Quo | OBI_QuoRaw | OBI_Mod
  | OBI_ModRaw | OBI_Neg | OBI_Abs | OBI_Min | OBI_Max | OBI_ToDec | OBI_Int64 | OBI_Uint64 | OBI_Cmp
  | OF_NewBigDec | OF_NewBigDecWithPrec | OF_NewBigDecFromBigInt | OF_NewBigDecFromBigIntWithPrec
  | OF_NewBigDecFromInt | OF_NewBigDecFromIntWithPrec | OF_BigDecFromSDKInt | OF_NewBigIntWithDecimal
  | OF_DivIntByU64ToBigDec | OF_Zero | OF_One | OF_Smallest => true
  | _ => false
  end.
(* the mutating methods *)
Definition mut_op (o : op) : bool :=
  match o with
  | OBD_AddMut | OBD_SubMut | OBD_NegMut | OBD_AbsMut | OBD_MulMut | OBD_MulDecMut | OBD_QuoMut | OBD_QuoTruncateMut
  | OBD_QuoTruncateDecMut | OBD_QuoRoundUpMut | OBD_QuoRoundUpNextIntMut | OBD_CeilMut | OBD_ChopPrecisionMut
  | OBD_PowerIntegerMut | OD_AddMut | OD_SubMut | OD_NegMut | OD_AbsMut | OD_MulMut | OD_MulTruncateMut
  | OD_MulRoundUpMut | OD_MulIntMut | OD_MulInt64Mut | OD_QuoMut | OD_QuoTruncateMut | OD_QuoRoundupMut
  | OD_QuoIntMut | OD_QuoInt64Mut | OD_PowerMut | OD_ToBigDecMut | OF_NewBigDecFromBigIntMut
  | OF_NewBigDecFromBigIntMutWithPrec => true
  | _ => false
  end.

Ltac frame_lemma :=
  first
    [ apply Add_pres | apply Sub_pres | apply Neg_pres | apply Abs_pres | apply Clone_pres | apply Mul_pres
    | apply MulDec_pres | apply MulTruncateP_pres | apply MulRoundUpP_pres | apply MulInt_pres | apply MulInt64_pres
    | apply Quo_pres | apply QuoRaw_pres | apply QuoTruncateP_pres | apply QuoRoundUpP_pres | apply QuoInt_pres
    | apply QuoInt64_pres | apply Ceil_pres | apply TruncateInt_pres | apply TruncateInt64_pres | apply TruncateDec_pres
    | apply RoundInt_pres | apply RoundInt64_pres | apply ToDec_pres | apply DecRoundUp_pres | apply DecWithPrecision_pres
    | apply ChopPrecision_pres | apply PowerInteger_pres | apply IsInteger_pres | apply MinBigDec_pres | apply MaxBigDec_pres
    | apply ImmutOp_pres; intros;
        first [ apply D_AddMut_pres | apply D_SubMut_pres | apply D_MulMut_pres | apply D_MulTruncateMut_pres
              | apply D_MulRoundUpMut_pres | apply D_MulIntMut_pres | apply D_QuoMut_pres | apply D_QuoTruncateMut_pres
              | apply D_QuoRoundupMut_pres | apply D_QuoIntMut_pres ]; assumption
    | apply ImmutOpZ_pres; intros; first [apply D_MulInt64Mut_pres | apply D_QuoInt64Mut_pres]; assumption
    | apply D_Ceil_pres | apply D_RoundInt_pres | apply D_RoundInt64_pres | apply D_TruncateInt_pres
    | apply D_TruncateInt64_pres | apply D_TruncateDec_pres | apply D_Power_pres | apply D_IsInteger_pres
    | apply BigDecFromDec_pres | apply NewBigDecFromDecMulDec_pres | apply D_copy_pres
    | apply BI_Add_pres | apply BI_Sub_pres | apply BI_Mul_pres | apply BI_Quo_pres | apply BI_Mod_pres
    | apply BI_Raw_pres; intros; first [apply BI_Add_pres | apply BI_Sub_pres | apply BI_Mul_pres | apply BI_Quo_pres | apply BI_Mod_pres]
    | apply BI_Neg_pres | apply BI_Abs_pres | apply BI_Min_pres | apply BI_Max_pres | apply BI_ToDec_pres
    | apply BI_Int64_pres | apply BI_Uint64_pres | apply NewBigDecWithPrec_pres | apply NewBigDecFromBigIntWithPrec_pres
    | apply NewBigIntWithDecimal_pres | apply DivIntByU64ToBigDec_pres
    | apply AddMut_pres | apply SubMut_pres | apply NegMut_pres | apply AbsMut_pres | apply MulMut_pres | apply MulDecMut_pres
    | apply QuoMut_pres | apply QuoTruncateMutP_pres | apply QuoRoundUpMut_pres | apply QuoRoundUpNextIntMut_pres
    | apply CeilMut_pres | apply ChopPrecisionMut_pres | apply PowerIntegerMut_pres
    | apply D_AddMut_pres | apply D_SubMut_pres | apply D_MulMut_pres | apply D_MulTruncateMut_pres
    | apply D_MulRoundUpMut_pres | apply D_MulIntMut_pres | apply D_MulInt64Mut_pres | apply D_QuoMut_pres
    | apply D_QuoTruncateMut_pres | apply D_QuoRoundupMut_pres | apply D_QuoIntMut_pres | apply D_QuoInt64Mut_pres
    | apply D_PowerMut_pres | apply BigDecFromDecMut_pres | apply NewBigDecFromBigIntMutWithPrec_pres ].

Local Opaque Add AddMut Sub SubMut Neg NegMut Abs AbsMut Clone Mul MulMut MulDec MulDecMut MulTruncateP MulRoundUpP MulInt MulInt64 Quo QuoMut QuoRaw QuoTruncateP QuoTruncateMutP QuoRoundUpP QuoRoundUpMut QuoRoundUpNextIntMut QuoInt QuoInt64 Ceil CeilMut TruncateInt TruncateInt64 TruncateDec RoundInt RoundInt64 ToDec DecRoundUp DecWithPrecision ChopPrecision ChopPrecisionMut PowerInteger PowerIntegerMut IsInteger MinBigDec MaxBigDec ImmutOp ImmutOpZ D_AddMut D_SubMut D_MulMut D_MulTruncateMut D_MulRoundUpMut D_MulIntMut D_MulInt64Mut D_QuoMut D_QuoTruncateMut D_QuoRoundupMut D_QuoIntMut D_QuoInt64Mut D_Ceil D_RoundInt D_RoundInt64 D_TruncateInt D_TruncateInt64 D_TruncateDec D_Power D_PowerMut D_IsInteger BigDecFromDec BigDecFromDecMut NewBigDecFromDecMulDec SigFigRound D_copy BI_Add BI_Sub BI_Mul BI_Quo BI_Mod BI_Raw BI_Neg BI_Abs BI_Min BI_Max BI_ToDec BI_Int64 BI_Uint64 NewBigDecWithPrec NewBigDecFromBigIntWithPrec NewBigDecFromBigIntMutWithPrec NewBigIntWithDecimal DivIntByU64ToBigDec.
(* op_nonmut_frame: whatever a non-mutating method does (return or panic), every cell that existed before the
   call - receiver, argument and everything else - has its value unchanged *)
Theorem nonmut_frame : forall o x y a b k h, nonmut_op o = true -> untouched h (exec o x y a b k h).
Proof.
  intros o x y a b k h Ho.
  destruct o; try discriminate Ho; clear Ho; cbn [exec];
    try (eapply pres_untouched; frame_lemma; fail);
    try (eapply pres_untouched; eapply pres_bind; [apply D_copy_pres|cbn beta; intros; apply NewBigDecFromBigIntWithPrec_pres]; fail);
    try (eapply pres_untouched; eapply pres_bind; [apply pres_get|cbn beta; intros; eapply pres_bind; [apply pres_get|cbn beta; intros; apply pres_bnew]]; fail);
    try (eapply pres_untouched; first [apply pres_bnew | unfold OneBigDec; apply pres_bnew]; fail).
Qed.

(* a mutating method writes its receiver only: the argument (a different cell) and all other cells keep their values *)
Theorem mut_frame : forall o x y a b k h, mut_op o = true -> only_cell x h (exec o x y a b k h).
Proof.
  intros o x y a b k h Ho.
  destruct o; try discriminate Ho; clear Ho; cbn [exec];
    eapply pres_only_cell; frame_lemma; left; reflexivity.
Qed.
Local Transparent Add AddMut Sub SubMut Neg NegMut Abs AbsMut Clone Mul MulMut MulDec MulDecMut MulTruncateP MulRoundUpP MulInt MulInt64 Quo QuoMut QuoRaw QuoTruncateP QuoTruncateMutP QuoRoundUpP QuoRoundUpMut QuoRoundUpNextIntMut QuoInt QuoInt64 Ceil CeilMut TruncateInt TruncateInt64 TruncateDec RoundInt RoundInt64 ToDec DecRoundUp DecWithPrecision ChopPrecision ChopPrecisionMut PowerInteger PowerIntegerMut IsInteger MinBigDec MaxBigDec ImmutOp ImmutOpZ D_AddMut D_SubMut D_MulMut D_MulTruncateMut D_MulRoundUpMut D_MulIntMut D_MulInt64Mut D_QuoMut D_QuoTruncateMut D_QuoRoundupMut D_QuoIntMut D_QuoInt64Mut D_Ceil D_RoundInt D_RoundInt64 D_TruncateInt D_TruncateInt64 D_TruncateDec D_Power D_PowerMut D_IsInteger BigDecFromDec BigDecFromDecMut NewBigDecFromDecMulDec SigFigRound D_copy BI_Add BI_Sub BI_Mul BI_Quo BI_Mod BI_Raw BI_Neg BI_Abs BI_Min BI_Max BI_ToDec BI_Int64 BI_Uint64 NewBigDecWithPrec NewBigDecFromBigIntWithPrec NewBigDecFromBigIntMutWithPrec NewBigIntWithDecimal DivIntByU64ToBigDec.

(* ------------------------------------------------------------------ mutating = non-mutating (distinct cells) *)
Definition valid2 (h : heap) (d d2 : nat) : Prop := (d < next h)%nat /\ (d2 < next h)%nat /\ d <> d2.

Theorem bigdec_mut_forms_agree : forall h d d2, valid2 h d d2 ->
  obs_of (AddMut d d2 h) = obs_of (Add d d2 h) /\
  obs_of (SubMut d d2 h) = obs_of (Sub d d2 h) /\
  obs_of (MulMut d d2 h) = obs_of (Mul d d2 h) /\
  obs_of (MulDecMut d d2 h) = obs_of (MulDec d d2 h) /\
  obs_of (QuoMut d d2 h) = obs_of (Quo d d2 h) /\
  obs_of (QuoTruncateMut d d2 h) = obs_of (QuoTruncate d d2 h) /\
  obs_of (QuoTruncateDecMut d d2 h) = obs_of (QuoTruncateDec d d2 h) /\
  obs_of (QuoRoundUpMut d d2 h) = obs_of (QuoRoundUp d d2 h) /\
  obs_of (NegMut d h) = obs_of (Neg d h) /\
  obs_of (AbsMut d h) = obs_of (Abs d h) /\
  obs_of (CeilMut d h) = obs_of (Ceil d h) /\
  obs_of (BigDecFromDecMut d h) = obs_of (BigDecFromDec d h).
Proof.
  intros h d d2 (H1 & H2 & H3).
  repeat split.
  - exact (mut_eq _ _ _ _ _ AddMut_spec Add_spec h d d2 H1 H2 H3).
  - exact (mut_eq _ _ _ _ _ SubMut_spec Sub_spec h d d2 H1 H2 H3).
  - exact (mut_eq _ _ _ _ _ MulMut_spec Mul_spec h d d2 H1 H2 H3).
  - exact (mut_eq _ _ _ _ _ MulDecMut_spec MulDec_spec h d d2 H1 H2 H3).
  - exact (mut_eq _ _ _ _ _ QuoMut_spec Quo_spec h d d2 H1 H2 H3).
  - exact (mut_eq _ _ _ _ _ QuoTruncateMut_spec QuoTruncate_spec h d d2 H1 H2 H3).
  - exact (mut_eq _ _ _ _ _ QuoTruncateDecMut_spec QuoTruncateDec_spec h d d2 H1 H2 H3).
  - exact (mut_eq _ _ _ _ _ QuoRoundUpMut_spec QuoRoundUp_spec h d d2 H1 H2 H3).
  - exact (un_mut_eq _ _ _ NegMut_spec Neg_spec h d H1).
  - exact (un_mut_eq _ _ _ AbsMut_spec Abs_spec h d H1).
  - exact (un_mut_eq _ _ _ CeilMut_spec Ceil_spec h d H1).
  - exact (un_mut_eq _ _ _ BigDecFromDecMut_spec BigDecFromDec_spec h d H1).
Qed.
Theorem chop_precision_forms_agree : forall k h d, 0 <= k -> (d < next h)%nat ->
  obs_of (ChopPrecisionMut d k h) = obs_of (ChopPrecision d k h).
Proof.
  intros k h d Hk Hd.
  exact (un_mut_eq (fun d => ChopPrecisionMut d k) (fun d => ChopPrecision d k) _ (ChopPrecisionMut_spec k Hk) (ChopPrecision_spec k Hk) h d Hd).
Qed.
Theorem dec_mut_forms_agree : forall h d d2, valid2 h d d2 ->
  obs_of (D_AddMut d d2 h) = obs_of (ImmutOp D_AddMut d d2 h) /\
  obs_of (D_SubMut d d2 h) = obs_of (ImmutOp D_SubMut d d2 h) /\
  obs_of (D_MulMut d d2 h) = obs_of (ImmutOp D_MulMut d d2 h) /\
  obs_of (D_MulTruncateMut d d2 h) = obs_of (ImmutOp D_MulTruncateMut d d2 h) /\
  obs_of (D_MulRoundUpMut d d2 h) = obs_of (ImmutOp D_MulRoundUpMut d d2 h) /\
  obs_of (D_MulIntMut d d2 h) = obs_of (ImmutOp D_MulIntMut d d2 h) /\
  obs_of (D_QuoMut d d2 h) = obs_of (ImmutOp D_QuoMut d d2 h) /\
  obs_of (D_QuoTruncateMut d d2 h) = obs_of (ImmutOp D_QuoTruncateMut d d2 h) /\
  obs_of (D_QuoRoundupMut d d2 h) = obs_of (ImmutOp D_QuoRoundupMut d d2 h) /\
  obs_of (D_QuoIntMut d d2 h) = obs_of (ImmutOp D_QuoIntMut d d2 h).
Proof.
  intros h d d2 (H1 & H2 & H3).
  repeat split.
  - exact (mut_eq _ _ _ _ _ D_AddMut_spec D_Add_spec h d d2 H1 H2 H3).
  - exact (mut_eq _ _ _ _ _ D_SubMut_spec D_Sub_spec h d d2 H1 H2 H3).
  - exact (mut_eq _ _ _ _ _ D_MulMut_spec D_Mul_spec h d d2 H1 H2 H3).
  - exact (mut_eq _ _ _ _ _ D_MulTruncateMut_spec D_MulTruncate_spec h d d2 H1 H2 H3).
  - exact (mut_eq _ _ _ _ _ D_MulRoundUpMut_spec D_MulRoundUp_spec h d d2 H1 H2 H3).
  - exact (mut_eq _ _ _ _ _ D_MulIntMut_spec D_MulInt_spec h d d2 H1 H2 H3).
  - exact (mut_eq _ _ _ _ _ D_QuoMut_spec D_Quo_spec h d d2 H1 H2 H3).
  - exact (mut_eq _ _ _ _ _ D_QuoTruncateMut_spec D_QuoTruncate_spec h d d2 H1 H2 H3).
  - exact (mut_eq _ _ _ _ _ D_QuoRoundupMut_spec D_QuoRoundUp_spec h d d2 H1 H2 H3).
  - exact (mut_eq _ _ _ _ _ D_QuoIntMut_spec D_QuoInt_spec h d d2 H1 H2 H3).
Qed.

(* ------------------------------------------------------------------ aliased calls x.OpMut(x) *)
(* the receiver passed as its own argument: Add, Sub, Mul, QuoRoundUpNextInt are what the non-mutating form gives *)
Lemma AddMut_alias : alias_spec AddMut bd_add bd_fits false.
Proof. intros h d Hd. unfold AddMut. ssteps. apply finish_bd; [apply nodiv|heap_simp; reflexivity]. Qed.
Lemma SubMut_alias : alias_spec SubMut bd_sub bd_fits false.
Proof. intros h d Hd. unfold SubMut. ssteps. apply finish_bd; [apply nodiv|heap_simp; reflexivity]. Qed.
Theorem aliased_mut_agree : forall h d, (d < next h)%nat ->
  obs_of (AddMut d d h) = obs_of (Add d d h) /\ obs_of (SubMut d d h) = obs_of (Sub d d h) /\
  obs_of (MulMut d d h) = obs_of (Mul d d h).
Proof.
  intros h d Hd.
  pose proof (AddMut_alias h d Hd) as A1. pose proof (Add_spec h d d Hd Hd) as A2.
  pose proof (SubMut_alias h d Hd) as S1. pose proof (Sub_spec h d d Hd Hd) as S2.
  pose proof (MulMut_alias h d Hd) as M1. pose proof (Mul_spec h d d Hd Hd) as M2.
  unfold spec in *.
  repeat split.
  - destruct (AddMut d d h), (Add d d h); intuition congruence.
  - destruct (SubMut d d h), (Sub d d h); intuition congruence.
  - destruct (MulMut d d h), (Mul d d h); intuition congruence.
Qed.
(* ... but the mutating divisions scale the shared cell before dividing it by itself (finding C12-ALIAS) *)
Definition h5 : heap := init_heap (5 * P36) 0.
Theorem aliased_quo_mut_refuted :
  obs_of (QuoMut 0 0 h5) = (0, 0) /\ obs_of (Quo 0 0 h5) = (0, P36) /\
  obs_of (QuoTruncateMut 0 0 h5) = (0, 1) /\ obs_of (QuoTruncate 0 0 h5) = (0, P36) /\
  obs_of (QuoRoundUpMut 0 0 h5) = (0, 1) /\ obs_of (QuoRoundUp 0 0 h5) = (0, P36) /\
  obs_of (D_QuoMut 0 0 (init_heap (5 * P18) 0)) = (0, 0) /\ obs_of (ImmutOp D_QuoMut 0 0 (init_heap (5 * P18) 0)) = (0, P18).
Proof. repeat split; vm_compute; reflexivity. Qed.

(* ------------------------------------------------------------------ further refutations (findings) *)
(* SigFigRound multiplies its operand in place *)
Theorem sigfig_mutates_operand_refuted :
  match SigFigRound 0 1 (init_heap (5 * 10 ^ 16) 100) with
  | Ok h' r => rd h' r = 5 * 10 ^ 16 /\ rd h' 0%nat = 5 * 10 ^ 17
  | Panic _ _ => False
  end.
Proof. vm_compute. split; reflexivity. Qed.
(* Ceil and the conversions to 18 decimals return values beyond the bound instead of failing *)
Theorem ceil_unchecked_refuted :
  let a := 2 ^ 1144 - 1 in bd_fits a = true /\ obs_of (Ceil 0 (init_heap a 0)) = (0, bd_ceil a) /\ bd_fits (bd_ceil a) = false.
Proof. repeat split; vm_compute; reflexivity. Qed.
Theorem dec_conversion_unchecked_refuted :
  let a := 2 ^ 400 in bd_fits a = true /\ obs_of (ToDec 0 (init_heap a 0)) = (0, bd_to_dec a) /\ d_fits (bd_to_dec a) = false.
Proof. repeat split; vm_compute; reflexivity. Qed.
(* DivIntByU64ToBigDec converts its uint64 divisor with int64(u) *)
Theorem div_u64_wraps_refuted :
  obs_of (DivIntByU64ToBigDec 0 (2 ^ 63) 1 (init_heap 10 0)) = (0, -1084202172485504434) /\
  rceil (10 * P36) (2 ^ 63) = 1084202172485504435.
Proof. split; vm_compute; reflexivity. Qed.
(* LegacyDec.QuoRoundUp (dependency): one unit above the ceiling for operands of opposite sign (finding F5) *)
Theorem d_quo_round_up_refuted : exists a b, b <> 0 /\ d_quo_round_up a b <> rceil (a * P18) b.
Proof. exists P18, (-3 * P18). split; [discriminate|]. vm_compute. discriminate. Qed.

(* ------------------------------------------------------------------ the cell programs compute the value functions *)
(* [expected f chk dv a b]: division by zero fails with the division panic; otherwise the call returns f a b when
   chk accepts it and fails with the overflow panic when it does not - never a wrapped or truncated value *)
Theorem bigdec_cells_refine_values :
  mut_spec AddMut bd_add bd_fits false /\ nonmut_spec Add bd_add bd_fits false /\
  mut_spec SubMut bd_sub bd_fits false /\ nonmut_spec Sub bd_sub bd_fits false /\
  mut_spec MulMut bd_mul bd_fits false /\ nonmut_spec Mul bd_mul bd_fits false /\
  mut_spec MulDecMut bd_mul_dec bd_fits false /\ nonmut_spec MulDec bd_mul_dec bd_fits false /\
  nonmut_spec MulTruncate bd_mul_truncate bd_fits false /\ nonmut_spec MulTruncateDec bd_mul_truncate_dec bd_fits false /\
  nonmut_spec MulRoundUp bd_mul_round_up bd_fits false /\ nonmut_spec MulRoundUpDec bd_mul_round_up_dec bd_fits false /\
  nonmut_spec MulInt bd_mul_int bd_fits false /\
  mut_spec QuoMut bd_quo bd_fits true /\ nonmut_spec Quo bd_quo bd_fits true /\
  mut_spec QuoTruncateMut bd_quo_truncate bd_fits true /\ nonmut_spec QuoTruncate bd_quo_truncate bd_fits true /\
  mut_spec QuoTruncateDecMut bd_quo_truncate_dec bd_fits true /\ nonmut_spec QuoTruncateDec bd_quo_truncate_dec bd_fits true /\
  mut_spec QuoRoundUpMut bd_quo_round_up_mut bd_fits true /\ nonmut_spec QuoRoundUp bd_quo_round_up bd_fits true /\
  nonmut_spec QuoByDecRoundUp bd_quo_by_dec_round_up bd_fits true /\
  mut_spec QuoRoundUpNextIntMut bd_quo_round_up_next_int_mut bd_fits true /\
  nonmut_spec QuoInt bd_quo_int always_fits true /\
  nonmut_spec NewBigDecFromDecMulDec bd_from_dec_mul_dec always_fits false.
Proof.
  exact (conj AddMut_spec (conj Add_spec (conj SubMut_spec (conj Sub_spec (conj MulMut_spec (conj Mul_spec (conj MulDecMut_spec (conj MulDec_spec (conj MulTruncate_spec (conj MulTruncateDec_spec (conj MulRoundUp_spec (conj MulRoundUpDec_spec (conj MulInt_spec (conj QuoMut_spec (conj Quo_spec (conj QuoTruncateMut_spec (conj QuoTruncate_spec (conj QuoTruncateDecMut_spec (conj QuoTruncateDec_spec (conj QuoRoundUpMut_spec (conj QuoRoundUp_spec (conj QuoByDecRoundUp_spec (conj QuoRoundUpNextIntMut_spec (conj QuoInt_spec NewBigDecFromDecMulDec_spec)))))))))))))))))))))))).
Qed.
Theorem bigdec_unary_cells_refine_values :
  un_mut_spec NegMut (fun a => ok_out (- a)) /\ un_nonmut_spec Neg (fun a => ok_out (- a)) /\
  un_mut_spec AbsMut (fun a => ok_out (Z.abs a)) /\ un_nonmut_spec Abs (fun a => ok_out (Z.abs a)) /\
  un_mut_spec CeilMut (fun a => ok_out (bd_ceil a)) /\ un_nonmut_spec Ceil (fun a => ok_out (bd_ceil a)) /\
  un_nonmut_spec TruncateInt (fun a => chk_out fits1024 (bd_truncate_int a)) /\
  un_nonmut_spec TruncateDec (fun a => ok_out (bd_truncate_dec a)) /\
  un_nonmut_spec RoundInt (fun a => chk_out fits1024 (bd_round_int a)) /\
  un_nonmut_spec ToDec (fun a => ok_out (bd_to_dec a)) /\
  un_nonmut_spec DecRoundUp (fun a => ok_out (bd_to_dec_round_up a)) /\
  un_nonmut_spec BigDecFromDec (fun a => ok_out (bd_from_dec a)) /\
  un_mut_spec BigDecFromDecMut (fun a => ok_out (bd_from_dec a)) /\
  (forall i, un_nonmut_spec (fun d => MulInt64 d i) (fun a => expected bd_mul_int bd_fits false a i)) /\
  (forall i, un_nonmut_spec (fun d => QuoRaw d i) (fun a => expected bd_quo_raw bd_fits true a i)) /\
  (forall i, un_nonmut_spec (fun d => QuoInt64 d i) (fun a => expected bd_quo_int always_fits true a i)) /\
  (forall k, 0 <= k -> un_mut_spec (fun d => ChopPrecisionMut d k) (fun a => if 36 <? k then (3, 0) else ok_out (bd_chop_precision k a))) /\
  (forall k, 0 <= k -> un_nonmut_spec (fun d => ChopPrecision d k) (fun a => if 36 <? k then (3, 0) else ok_out (bd_chop_precision k a))) /\
  (forall k, 0 <= k -> un_nonmut_spec (fun d => DecWithPrecision d k) (fun a => if 18 <? k then (3, 0) else ok_out (bd_dec_with_precision k a))).
Proof.
  exact (conj NegMut_spec (conj Neg_spec (conj AbsMut_spec (conj Abs_spec (conj CeilMut_spec (conj Ceil_spec (conj TruncateInt_spec (conj TruncateDec_spec (conj RoundInt_spec (conj ToDec_spec (conj DecRoundUp_spec (conj BigDecFromDec_spec (conj BigDecFromDecMut_spec (conj MulInt64_spec (conj QuoRaw_spec (conj QuoInt64_spec (conj ChopPrecisionMut_spec (conj ChopPrecision_spec DecWithPrecision_spec)))))))))))))))))).
Qed.
Theorem dec_cells_refine_values :
  mut_spec D_AddMut Z.add d_fits false /\ nonmut_spec (ImmutOp D_AddMut) Z.add d_fits false /\
  mut_spec D_SubMut Z.sub d_fits false /\ nonmut_spec (ImmutOp D_SubMut) Z.sub d_fits false /\
  mut_spec D_MulMut d_mul d_fits false /\ nonmut_spec (ImmutOp D_MulMut) d_mul d_fits false /\
  mut_spec D_MulTruncateMut d_mul_truncate d_fits false /\ nonmut_spec (ImmutOp D_MulTruncateMut) d_mul_truncate d_fits false /\
  mut_spec D_MulRoundUpMut d_mul_round_up d_fits false /\ nonmut_spec (ImmutOp D_MulRoundUpMut) d_mul_round_up d_fits false /\
  mut_spec D_MulIntMut d_mul_int d_fits false /\ nonmut_spec (ImmutOp D_MulIntMut) d_mul_int d_fits false /\
  mut_spec D_QuoMut d_quo d_fits true /\ nonmut_spec (ImmutOp D_QuoMut) d_quo d_fits true /\
  mut_spec D_QuoTruncateMut d_quo_truncate d_fits true /\ nonmut_spec (ImmutOp D_QuoTruncateMut) d_quo_truncate d_fits true /\
  mut_spec D_QuoRoundupMut d_quo_round_up d_fits true /\ nonmut_spec (ImmutOp D_QuoRoundupMut) d_quo_round_up d_fits true /\
  mut_spec D_QuoIntMut d_quo_int always_fits true /\ nonmut_spec (ImmutOp D_QuoIntMut) d_quo_int always_fits true /\
  un_nonmut_spec D_Ceil (fun a => chk_out d_fits (d_ceil a)) /\
  un_nonmut_spec D_TruncateInt (fun a => chk_out fits256 (d_truncate_int a)) /\
  un_nonmut_spec D_RoundInt (fun a => chk_out fits256 (d_round_int a)) /\
  un_nonmut_spec D_TruncateDec (fun a => ok_out (d_truncate_dec a)).
Proof.
  exact (conj D_AddMut_spec (conj D_Add_spec (conj D_SubMut_spec (conj D_Sub_spec (conj D_MulMut_spec (conj D_Mul_spec (conj D_MulTruncateMut_spec (conj D_MulTruncate_spec (conj D_MulRoundUpMut_spec (conj D_MulRoundUp_spec (conj D_MulIntMut_spec (conj D_MulInt_spec (conj D_QuoMut_spec (conj D_Quo_spec (conj D_QuoTruncateMut_spec (conj D_QuoTruncate_spec (conj D_QuoRoundupMut_spec (conj D_QuoRoundUp_spec (conj D_QuoIntMut_spec (conj D_QuoInt_spec (conj D_Ceil_spec (conj D_TruncateInt_spec (conj D_RoundInt_spec D_TruncateDec_spec))))))))))))))))))))))).
Qed.
Theorem bigint_cells_refine_values :
  nonmut_spec BI_Add Z.add fits1024 false /\ nonmut_spec BI_Sub Z.sub fits1024 false /\
  nonmut_spec BI_Quo Z.quot always_fits true /\ nonmut_spec BI_Mod emod always_fits true /\
  (forall h d d2, (d < next h)%nat -> (d2 < next h)%nat -> bitlen (rd h d) <= max_bit_len -> bitlen (rd h d2) <= max_bit_len ->
     spec (BI_Mul d d2) h
       (fun h' r => (next h <= r)%nat /\ obs_of (Ok h' r) = expected Z.mul fits1024 false (rd h d) (rd h d2))
       (fun e h' => obs_of (Panic e h') = expected Z.mul fits1024 false (rd h d) (rd h d2))).
Proof.
  exact (conj BI_Add_spec (conj BI_Sub_spec (conj BI_Quo_spec (conj BI_Mod_spec BI_Mul_spec)))).
Qed.

(* PowerInteger / Power: the square-and-multiply loops (which call d.MulMut(d) on purpose) compute the value-level
   loop [power_loop_v] with a range assertion after every multiplication; both forms return the same value or both fail *)
Definition same_outcome (r1 r2 : res nat) : Prop :=
  match r1, r2 with
  | Ok h1 l1, Ok h2 l2 => rd h1 l1 = rd h2 l2
  | Panic _ _, Panic _ _ => True
  | _, _ => False
  end.
Theorem power_cells_refine_values : forall k h d, (d < next h)%nat ->
  spec (PowerIntegerMut d k) h (fun h' r => bd_power_v (rd h d) k = Some (rd h' r) /\ (k <> 0 -> r = d))
                               (fun e h' => bd_power_v (rd h d) k = None) /\
  spec (PowerInteger d k) h (fun h' r => bd_power_v (rd h d) k = Some (rd h' r)) (fun e h' => bd_power_v (rd h d) k = None) /\
  spec (D_PowerMut d k) h (fun h' r => d_power_v (rd h d) k = Some (rd h' r) /\ r = d) (fun e h' => d_power_v (rd h d) k = None) /\
  spec (D_Power d k) h (fun h' r => d_power_v (rd h d) k = Some (rd h' r)) (fun e h' => d_power_v (rd h d) k = None) /\
  same_outcome (PowerIntegerMut d k h) (PowerInteger d k h) /\ same_outcome (D_PowerMut d k h) (D_Power d k h).
Proof.
  intros k h d Hd.
  pose proof (PowerIntegerMut_spec k h d Hd) as A. pose proof (PowerInteger_spec k h d Hd) as B.
  pose proof (D_PowerMut_spec k h d Hd) as C. pose proof (D_Power_spec k h d Hd) as D.
  repeat split; try assumption; unfold spec, same_outcome in *.
  - destruct (PowerIntegerMut d k h) as [h1 l1|e1 h1], (PowerInteger d k h) as [h2 l2|e2 h2]; try exact I.
    + destruct A as [A _]. rewrite A in B. inversion B. reflexivity.
    + destruct A as [A _]. rewrite A in B. discriminate B.
    + rewrite A in B. discriminate B.
  - destruct (D_PowerMut d k h) as [h1 l1|e1 h1], (D_Power d k h) as [h2 l2|e2 h2]; try exact I.
    + destruct C as [C _]. rewrite C in D. inversion D. reflexivity.
    + destruct C as [C _]. rewrite C in D. discriminate D.
    + rewrite C in D. discriminate D.
Qed.

(* ------------------------------------------------------------------ directions, with the constants read from the source *)
Definition U36 : Z := 10 ^ BigDecPrecision.
Definition U18 : Z := 10 ^ DecPrecision.
Definition UDiff : Z := 10 ^ (BigDecPrecision - DecPrecision).
Lemma U36_P36 : U36 = P36. Proof. reflexivity. Qed.
Lemma U18_P18 : U18 = P18. Proof. reflexivity. Qed.
Lemma UDiff_P18 : UDiff = P18. Proof. reflexivity. Qed.
Lemma U36_sq : U36 * U36 = P72. Proof. reflexivity. Qed.

Theorem bigdec_binary_directions : forall a b,
  bd_add a b = a + b /\ bd_sub a b = a - b /\ bd_mul_int a b = a * b /\
  bd_mul a b = rhe (a * b) U36 /\ bd_mul_dec a b = rhe (a * b) U18 /\
  bd_mul_truncate a b = rtz (a * b) U36 /\ bd_mul_truncate_dec a b = rtz (a * b) U18 /\
  bd_mul_round_up a b = rceil (a * b) U36 /\ bd_mul_round_up_dec a b = rceil (a * b) U18 /\
  bd_quo a b = rhe (rtz (a * (U36 * U36)) b) U36 /\ bd_quo_raw a b = rhe (rtz (a * U36) b) U36 /\
  bd_quo_truncate a b = rtz (a * U36) b /\ bd_quo_truncate_dec a b = rtz (a * U18) b /\
  bd_quo_int a b = rtz a b /\ bd_from_dec_mul_dec a b = a * b.
Proof.
  intros a b. rewrite U36_sq, U36_P36, U18_P18.
  exact (conj eq_refl (conj eq_refl (conj eq_refl (conj (bd_mul_dir a b) (conj (bd_mul_dec_dir a b) (conj eq_refl (conj eq_refl (conj (bd_mul_round_up_dir a b) (conj (bd_mul_round_up_dec_dir a b) (conj (bd_quo_dir a b) (conj (bd_quo_raw_dir a b) (conj eq_refl (conj eq_refl (conj eq_refl eq_refl)))))))))))))).
Qed.
Theorem bigdec_round_up_division_all_signs : forall a b, b <> 0 ->
  bd_quo_round_up a b = rceil (a * U36) b /\ bd_quo_by_dec_round_up a b = rceil (a * U18) b /\
  bd_quo_round_up_mut a b = rceil (a * U36) b /\ bd_quo_round_up_next_int_mut a b = rceil a b * U36.
Proof.
  intros a b Hb. rewrite U36_P36, U18_P18. repeat split;
    [apply bd_quo_round_up_dir|apply bd_quo_by_dec_round_up_dir|apply bd_quo_round_up_mut_dir|apply bd_quo_round_up_next_int_mut_dir]; assumption.
Qed.
Theorem bigdec_unary_directions : forall a,
  bd_ceil a = rceil a U36 * U36 /\ bd_truncate_int a = rtz a U36 /\ bd_truncate_dec a = rtz a U36 * U36 /\
  bd_round_int a = rhe a U36 /\ bd_to_dec a = rtz a UDiff /\ bd_to_dec_round_up a = rceil a UDiff /\
  bd_from_dec a = a * UDiff /\ bd_from_int a = a * U36 /\
  (forall k, bd_chop_precision k a = rtz a (10 ^ (BigDecPrecision - k)) * 10 ^ (BigDecPrecision - k)) /\
  (forall k, bd_dec_with_precision k a = rtz a (10 ^ (BigDecPrecision - k)) * 10 ^ (DecPrecision - k)).
Proof.
  intros a. rewrite U36_P36, UDiff_P18.
  exact (conj (bd_ceil_dir a) (conj eq_refl (conj eq_refl (conj (bd_round_int_dir a) (conj eq_refl (conj (bd_to_dec_round_up_dir a) (conj eq_refl (conj eq_refl (conj (fun k => eq_refl) (fun k => eq_refl)))))))))).
Qed.
Theorem dec_directions : forall a b,
  d_mul a b = rhe (a * b) U18 /\ d_mul_truncate a b = rtz (a * b) U18 /\ d_mul_round_up a b = rceil (a * b) U18 /\
  d_mul_int a b = a * b /\ d_quo a b = rhe (rtz (a * (U18 * U18)) b) U18 /\ d_quo_truncate a b = rtz (a * U18) b /\
  d_quo_int a b = rtz a b /\ d_ceil a = rceil a U18 * U18 /\ d_truncate_int a = rtz a U18 /\
  d_truncate_dec a = rtz a U18 * U18 /\ d_round_int a = rhe a U18.
Proof.
  intros a b. rewrite U18_P18.
  exact (conj (d_mul_dir a b) (conj eq_refl (conj (d_mul_round_up_dir a b) (conj eq_refl (conj (d_quo_dir a b) (conj eq_refl (conj eq_refl (conj (d_ceil_dir a) (conj eq_refl (conj eq_refl (d_round_int_dir a))))))))))).
Qed.
Theorem dec_quo_round_up_partial : forall a b, b <> 0 -> 0 <= a * b -> d_quo_round_up a b = rceil (a * U18) b.
Proof. intros; rewrite U18_P18; apply d_quo_round_up_dir_nonneg; assumption. Qed.
Theorem dec_quo_round_up_opposite_signs : forall a b, b <> 0 -> a * b < 0 -> Z.rem (a * U18) b <> 0 ->
  Z.quot (a * U18) b <> 0 -> d_quo_round_up a b = rceil (a * U18) b + 1.
Proof. intros a b; rewrite U18_P18; apply d_quo_round_up_opposite. Qed.
(* the precision conversions are exact inverses where they can be *)
Theorem precision_conversion_exact : forall d, bd_to_dec (bd_from_dec d) = d /\ bd_to_dec_round_up (bd_from_dec d) = d.
Proof. exact bd_from_dec_exact. Qed.

(* ------------------------------------------------------------------ codecs, with the bounds read from the source *)
Theorem codec_roundtrip_partial : forall d, bitlen d <= from_str_bound -> bitlen d <= unmarshal_bound ->
  bd_from_str (bd_string d) = DOk d /\ bd_unmarshal (bd_marshal d) = DOk d /\ bd_unmarshal_json (bd_marshal_json d) = DOk d.
Proof.
  intros d H1 H2. rewrite from_str_bound_gen in H1.
  repeat split; [apply bd_text_roundtrip|apply bd_binary_roundtrip|apply bd_json_roundtrip]; assumption.
Qed.
Theorem codec_roundtrip_above_bound_refuted : forall d, from_str_bound < bitlen d ->
  bd_from_str (bd_string d) = DErr /\ bd_unmarshal (bd_marshal d) = DErr /\ bd_unmarshal_json (bd_marshal_json d) = DErr.
Proof.
  intros d H. rewrite from_str_bound_gen in H.
  repeat split; [apply bd_text_no_roundtrip|apply bd_binary_no_roundtrip|apply bd_json_no_roundtrip]; assumption.
Qed.
Theorem codec_roundtrip_refuted : exists d, bitlen d <= assert_bound /\ bd_from_str (bd_string d) <> DOk d.
Proof. exists (2 ^ 1024). split; [vm_compute; discriminate|]. vm_compute. discriminate. Qed.
Theorem dec_codec_roundtrip : forall d, d_fits d = true ->
  d_from_str (d_string d) = DOk d /\ d_unmarshal (int_text d) = DOk d /\ d_unmarshal_json (d_marshal_json d) = DOk d.
Proof. intros d H. repeat split; [apply d_text_roundtrip|apply d_binary_roundtrip|apply d_json_roundtrip]; assumption. Qed.
Theorem bigint_codec_roundtrip : forall i, bitlen i <= maxBitLen ->
  bi_from_string (int_text i) = DOk i /\ bi_unmarshal (int_text i) = DOk i /\ bi_unmarshal_json (bi_marshal_json i) = DOk i.
Proof.
  intros i H. rewrite <- max_bit_len_gen in H.
  repeat split; [apply bi_text_roundtrip|apply bi_binary_roundtrip|apply bi_json_roundtrip]; assumption.
Qed.

(* ------------------------------------------------------------------ the full statement fails clause by clause *)
Lemma full_refuted :
  ~ ((forall a b, b <> 0 -> d_quo_round_up a b = rceil (a * U18) b) /\
     (forall a b, b <> 0 -> bd_quo_round_up a b = rceil (a * U36) b)) /\
  ~ (forall h d d2, (d < next h)%nat -> (d2 < next h)%nat ->
       obs_of (QuoMut d d2 h) = obs_of (Quo d d2 h) /\ obs_of (MulMut d d2 h) = obs_of (Mul d d2 h)) /\
  ~ (forall h d t, (d < next h)%nat -> (t < next h)%nat -> untouched h (SigFigRound d t h)) /\
  ~ (forall h d, (d < next h)%nat -> bd_fits (rd h d) = true ->
       match Ceil d h with Ok h' r => bd_fits (rd h' r) = true | Panic _ _ => True end) /\
  ~ (forall d, bd_fits d = true -> bd_from_str (bd_string d) = DOk d).
Proof.
  repeat split.
  - intros [H _]. specialize (H P18 (-3 * P18) ltac:(discriminate)). vm_compute in H. discriminate H.
  - intros H. specialize (H h5 0%nat 0%nat ltac:(cbn; lia) ltac:(cbn; lia)). destruct H as [H _].
    vm_compute in H. discriminate H.
  - intros H. specialize (H (init_heap (5 * 10 ^ 16) 100) 0%nat 1%nat ltac:(cbn; lia) ltac:(cbn; lia)).
    pose proof sigfig_mutates_operand_refuted as W. unfold untouched in H.
    destruct (SigFigRound 0 1 (init_heap (5 * 10 ^ 16) 100)) as [h' r|]; [|contradiction].
    destruct W as [_ W]. specialize (H 0%nat ltac:(cbn; lia)). rewrite W in H. vm_compute in H. discriminate H.
  - intros H. specialize (H (init_heap (2 ^ 1144 - 1) 0) 0%nat ltac:(cbn; lia) ltac:(vm_compute; reflexivity)).
    destruct (Ceil 0 (init_heap (2 ^ 1144 - 1) 0)) as [h' r|e h'] eqn:E.
    + assert (V : rd h' r = bd_ceil (2 ^ 1144 - 1)).
      { pose proof (f_equal obs_of E) as O. destruct ceil_unchecked_refuted as (_ & C & _). cbv zeta in C.
        rewrite C in O. cbn [obs_of] in O. congruence. }
      rewrite V in H. vm_compute in H. discriminate H.
    + pose proof (f_equal obs_of E) as O. destruct ceil_unchecked_refuted as (_ & C & _). cbv zeta in C.
      rewrite C in O. cbn [obs_of] in O. destruct e; discriminate O.
  - intros H. specialize (H (2 ^ 1024) ltac:(vm_compute; reflexivity)).
    destruct f8_witness as (_ & W & _). rewrite W in H. discriminate H.
Qed.
