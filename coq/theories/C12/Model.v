(* C12 model: osmomath.BigDec / BigInt (osmomath/decimal.go, int.go, rounding_direction.go,
   sigfig_round.go) and the aliased cosmossdk.io/math LegacyDec, *with Go's pointer semantics*.

   A decimal is a struct holding a pointer to a big.Int; a method with a value receiver gets a copy
   of the struct, i.e. the same pointer.  We model a heap of big.Int cells ([heap]); every Go method
   is transcribed statement by statement into a program over the big.Int primitives below
   (math/big semantics: operands are read before the receiver is written, so aliased operands are
   well defined).  A panic keeps the heap it happened in, so operand values after a failed call are
   observable too.  Package-level big.Int constants (precisionReuse, oneInt ...) are never written by
   the code and are modelled as immediate operands.

   The value-level functions of Base/DecModel.v are the *specification* of these programs for
   non-aliased calls; C12/Refine.v proves the refinement.  No proofs in this file. *)
From Coq Require Import ZArith List Bool.
Import ListNotations.
From Osmo Require Import Base.DecModel Base.Obs.
Open Scope Z_scope.

(* ------------------------------------------------------------------ heap of big.Int cells *)
Record heap := mkHeap { next : nat; mem : nat -> Z }.
Definition rd (h : heap) (l : nat) : Z := mem h l.
Definition wr (h : heap) (l : nat) (v : Z) : heap :=
  mkHeap (next h) (fun l' => if Nat.eqb l' l then v else mem h l').
Definition alloc (h : heap) (v : Z) : heap * nat :=
  (mkHeap (S (next h)) (fun l' => if Nat.eqb l' (next h) then v else mem h l'), next h).

Inductive perr := EOverflow | EDivZero | EPrec | EFuel | EOther.
Inductive res (A : Type) := Ok (h : heap) (a : A) | Panic (e : perr) (h : heap).
Arguments Ok {A}. Arguments Panic {A}.
Definition M (A : Type) := heap -> res A.
Definition ret {A} (a : A) : M A := fun h => Ok h a.
Definition bind {A B} (m : M A) (f : A -> M B) : M B :=
  fun h => match m h with Ok h' a => f a h' | Panic e h' => Panic e h' end.
Definition panic {A} (e : perr) : M A := fun h => Panic e h.
Notation "x <- m ;; k" := (bind m (fun x => k)) (at level 61, m at next level, right associativity).
Notation "m ;;; k" := (bind m (fun _ => k)) (at level 61, right associativity).

(* an operand: a cell or an immediate (package-level constant / literal) *)
Inductive src := L (l : nat) | K (v : Z).
Definition val (h : heap) (s : src) : Z := match s with L l => rd h l | K v => v end.

(* big.Int primitives *)
Definition get (s : src) : M Z := fun h => Ok h (val h s).
Definition bnew (v : Z) : M nat := fun h => let '(h', l) := alloc h v in Ok h' l.   (* new(big.Int) / big.NewInt(v) *)
Definition bop1 (f : Z -> Z) (z : nat) (x : src) : M unit := fun h => Ok (wr h z (f (val h x))) tt.
Definition bop2 (f : Z -> Z -> Z) (z : nat) (x y : src) : M unit :=
  fun h => Ok (wr h z (f (val h x) (val h y))) tt.
Definition bset := bop1 (fun x => x).
Definition bneg := bop1 Z.opp.
Definition babs := bop1 Z.abs.
Definition badd := bop2 Z.add.
Definition bsub := bop2 Z.sub.
Definition bmul := bop2 Z.mul.
(* z.Quo(x, y): truncated division, panics for y = 0 *)
Definition bquo (z : nat) (x y : src) : M unit :=
  fun h => if val h y =? 0 then Panic EDivZero h else Ok (wr h z (Z.quot (val h x) (val h y))) tt.
Definition brem (z : nat) (x y : src) : M unit :=
  fun h => if val h y =? 0 then Panic EDivZero h else Ok (wr h z (Z.rem (val h x) (val h y))) tt.
(* z.Mod(x, y): Euclidean modulus, 0 <= result < |y| *)
Definition bmod (z : nat) (x y : src) : M unit :=
  fun h => if val h y =? 0 then Panic EDivZero h else Ok (wr h z (Z.modulo (val h x) (Z.abs (val h y)))) tt.
(* z.QuoRem(x, y, r): z := x quot y, r := x rem y (z and r distinct cells) *)
Definition bquorem (z : nat) (x y : src) (r : nat) : M unit :=
  fun h => if val h y =? 0 then Panic EDivZero h else
           let q := Z.quot (val h x) (val h y) in let m := Z.rem (val h x) (val h y) in
           Ok (wr (wr h r m) z q) tt.

(* ------------------------------------------------------------------ constants of decimal.go / int.go *)
Definition five36 : Z := Z.quot P36 2.          (* fivePrecision *)
Definition five18 : Z := Z.quot P18 2.          (* fivePrecisionSDKDec / legacy fivePrecision *)
Definition sq36 : Z := P36 * P36.               (* squaredPrecisionReuse *)
Definition sq18 : Z := P18 * P18.               (* legacy squaredPrecisionReuse *)
Definition factor_diff : Z := 10 ^ (36 - 18).   (* bigDecDecPrecisionFactorDiff *)
Definition max_int_bit_len : Z := 256.          (* cosmossdk.io/math MaxBitLen *)
Definition is_int64 (v : Z) : bool := (- 2 ^ 63 <=? v) && (v <? 2 ^ 63).
Definition is_uint64 (v : Z) : bool := (0 <=? v) && (v <? 2 ^ 64).
Definition wrap_int64 (u : Z) : Z := if u <? 2 ^ 63 then u else u - 2 ^ 64.   (* int64(u) for a uint64 u *)

Definition assertMaxBitLen (i : nat) : M unit :=
  v <- get (L i) ;; if bitlen v <=? max_dec_bit_len then ret tt else panic EOverflow.
(* BigDec precisionMultiplier(prec): 10^(36-prec), panics when prec > 36 *)
Definition precisionMultiplier (prec : Z) : M Z :=
  if 36 <? prec then panic EPrec else ret (10 ^ (36 - prec)).
Definition legacyPrecisionMultiplier (prec : Z) : M Z :=
  if (prec <? 0) || (18 <? prec) then panic EPrec else ret (10 ^ (18 - prec)).

(* ------------------------------------------------------------------ rounding helpers, as written *)
(* chopPrecisionAndRound / chopPrecisionAndRoundSdkDec / legacy chopPrecisionAndRound: p = precision, half = p/2 *)
Definition chopPR_core (p half : Z) (d : nat) : M nat :=
  rem <- bnew 0 ;;
  bquorem d (L d) (K p) rem ;;;           (* quo := d *)
  r <- get (L rem) ;;
  if Z.sgn r =? 0 then ret d else
  match r ?= half with
  | Lt => ret d
  | Gt => badd d (L d) (K 1) ;;; ret d
  | Eq => q <- get (L d) ;; if Z.odd q then badd d (L d) (K 1) ;;; ret d else ret d
  end.
Definition chopPrecisionAndRoundP (p half : Z) (d : nat) : M nat :=
  v <- get (L d) ;;
  if Z.sgn v =? -1 then
    bneg d (L d) ;;; d' <- chopPR_core p half d ;; bneg d' (L d') ;;; ret d'
  else chopPR_core p half d.
Definition chopPrecisionAndRound := chopPrecisionAndRoundP P36 five36.
Definition chopPrecisionAndRoundSdkDec := chopPrecisionAndRoundP P18 five18.

Definition incBasedOnRem (rem d : nat) : M nat :=
  r <- get (L rem) ;; if Z.sgn r =? 0 then ret d else badd d (L d) (K 1) ;;; ret d.
Definition incBasedOnRemAndDivisor (rem : nat) (divisor : src) (d : nat) : M nat :=
  r <- get (L rem) ;; dv <- get divisor ;;
  if (Z.sgn r =? 0) || negb (Z.sgn r =? Z.sgn dv) then ret d else badd d (L d) (K 1) ;;; ret d.
Definition chopPrecisionAndTruncateMut (d : nat) (p : Z) : M nat := bquo d (L d) (K p) ;;; ret d.
Definition chopPrecisionAndRoundUpMut (d : nat) (p : Z) : M nat :=
  v <- get (L d) ;;
  if Z.sgn v =? -1 then
    bneg d (L d) ;;; d' <- chopPrecisionAndTruncateMut d p ;; bneg d' (L d') ;;; ret d'
  else
    rem <- bnew 0 ;; bquorem d (L d) (K p) rem ;;; incBasedOnRem rem d.

(* ------------------------------------------------------------------ BigDec methods (receiver d, argument d2: cells) *)
Definition Clone (d : nat) : M nat := c <- bnew 0 ;; bset c (L d) ;;; ret c.
Definition NewBigDecFromBigIntMutWithPrec (i : nat) (prec : Z) : M nat :=
  m <- precisionMultiplier prec ;; bmul i (L i) (K m) ;;; ret i.
Definition NewBigDecFromBigIntWithPrec (i : src) (prec : Z) : M nat :=
  m <- precisionMultiplier prec ;; c <- bnew 0 ;; bmul c i (K m) ;;; ret c.
Definition OneBigDec : M nat := bnew P36.

Definition AddMut (d d2 : nat) : M nat := badd d (L d) (L d2) ;;; assertMaxBitLen d ;;; ret d.
Definition Add (d d2 : nat) : M nat := c <- Clone d ;; _ <- AddMut c d2 ;; ret c.
Definition SubMut (d d2 : nat) : M nat := bsub d (L d) (L d2) ;;; assertMaxBitLen d ;;; ret d.
Definition Sub (d d2 : nat) : M nat := c <- Clone d ;; _ <- SubMut c d2 ;; ret c.
Definition Neg (d : nat) : M nat := c <- bnew 0 ;; bneg c (L d) ;;; ret c.
Definition NegMut (d : nat) : M nat := bneg d (L d) ;;; ret d.
Definition Abs (d : nat) : M nat := c <- bnew 0 ;; babs c (L d) ;;; ret c.
Definition AbsMut (d : nat) : M nat := babs d (L d) ;;; ret d.

Definition MulMut (d d2 : nat) : M nat :=
  bmul d (L d) (L d2) ;;; d' <- chopPrecisionAndRound d ;; assertMaxBitLen d' ;;; ret d'.
Definition Mul (d d2 : nat) : M nat := c <- Clone d ;; _ <- MulMut c d2 ;; ret c.
Definition MulDecMut (d d2 : nat) : M nat :=
  bmul d (L d) (L d2) ;;; d' <- chopPrecisionAndRoundSdkDec d ;; assertMaxBitLen d' ;;; ret d'.
Definition MulDec (d d2 : nat) : M nat := c <- Clone d ;; _ <- MulDecMut c d2 ;; ret c.
Definition MulTruncateP (p : Z) (d d2 : nat) : M nat :=
  mul <- bnew 0 ;; bmul mul (L d) (L d2) ;;;
  chopped <- chopPrecisionAndTruncateMut mul p ;; assertMaxBitLen chopped ;;; ret chopped.
Definition MulTruncate := MulTruncateP P36.
Definition MulTruncateDec := MulTruncateP P18.
Definition MulRoundUpP (p : Z) (d d2 : nat) : M nat :=
  mul <- bnew 0 ;; bmul mul (L d) (L d2) ;;;
  chopped <- chopPrecisionAndRoundUpMut mul p ;; assertMaxBitLen chopped ;;; ret chopped.
Definition MulRoundUp := MulRoundUpP P36.
Definition MulRoundUpDec := MulRoundUpP P18.
Definition MulInt (d i : nat) : M nat :=
  mul <- bnew 0 ;; bmul mul (L d) (L i) ;;; assertMaxBitLen mul ;;; ret mul.
Definition MulInt64 (d : nat) (i : Z) : M nat :=
  b <- bnew i ;; bmul b (L d) (L b) ;;; assertMaxBitLen b ;;; ret b.

Definition QuoMut (d d2 : nat) : M nat :=
  bmul d (L d) (K sq36) ;;; bquo d (L d) (L d2) ;;; _ <- chopPrecisionAndRound d ;; assertMaxBitLen d ;;; ret d.
Definition Quo (d d2 : nat) : M nat := c <- Clone d ;; _ <- QuoMut c d2 ;; ret c.
Definition QuoRaw (d : nat) (i : Z) : M nat :=
  mul <- bnew 0 ;; bmul mul (L d) (K P36) ;;; t <- bnew i ;; bquo mul (L mul) (L t) ;;;
  chopped <- chopPrecisionAndRound mul ;; assertMaxBitLen chopped ;;; ret chopped.
Definition QuoTruncateP (p : Z) (d d2 : nat) : M nat :=
  mul <- bnew 0 ;; bmul mul (L d) (K p) ;;; bquo mul (L mul) (L d2) ;;; assertMaxBitLen mul ;;; ret mul.
Definition QuoTruncate := QuoTruncateP P36.
Definition QuoTruncateDec := QuoTruncateP P18.
Definition QuoTruncateMutP (p : Z) (d d2 : nat) : M nat :=
  bmul d (L d) (K p) ;;; bquo d (L d) (L d2) ;;; assertMaxBitLen d ;;; ret d.
Definition QuoTruncateMut := QuoTruncateMutP P36.
Definition QuoTruncateDecMut := QuoTruncateMutP P18.
Definition QuoRoundUpP (p : Z) (d d2 : nat) : M nat :=
  mul <- bnew 0 ;; bmul mul (L d) (K p) ;;;
  rem <- bnew 0 ;; bquorem mul (L mul) (L d2) rem ;;;
  chopped <- incBasedOnRemAndDivisor rem (L d2) mul ;; assertMaxBitLen chopped ;;; ret chopped.
Definition QuoRoundUp := QuoRoundUpP P36.
Definition QuoByDecRoundUp := QuoRoundUpP P18.
Definition QuoRoundUpMut (d d2 : nat) : M nat :=
  bmul d (L d) (K P36) ;;; rem <- bnew 0 ;; bquorem d (L d) (L d2) rem ;;;
  d' <- incBasedOnRemAndDivisor rem (L d2) d ;; assertMaxBitLen d' ;;; ret d'.
Definition QuoRoundUpNextIntMut (d d2 : nat) : M nat :=
  rem <- bnew 0 ;; bquorem d (L d) (L d2) rem ;;;
  d' <- incBasedOnRemAndDivisor rem (L d2) d ;; bmul d' (L d') (K P36) ;;; assertMaxBitLen d' ;;; ret d'.
Definition QuoInt (d i : nat) : M nat := mul <- bnew 0 ;; bquo mul (L d) (L i) ;;; ret mul.
Definition QuoInt64 (d : nat) (i : Z) : M nat :=
  t <- bnew i ;; mul <- bnew 0 ;; bquo mul (L d) (L t) ;;; ret mul.

Definition CeilMut (d : nat) : M nat :=
  rem <- bnew 0 ;; bquorem d (L d) (K P36) rem ;;;
  r <- get (L rem) ;;
  if Z.sgn r <=? 0 then NewBigDecFromBigIntMutWithPrec d 0
  else badd d (L d) (K 1) ;;; NewBigDecFromBigIntMutWithPrec d 0.
Definition Ceil (d : nat) : M nat := tmp <- bnew 0 ;; bset tmp (L d) ;;; CeilMut tmp.

(* NewBigIntFromBigInt *)
Definition NewBigIntFromBigInt (i : nat) : M nat :=
  v <- get (L i) ;; if max_bit_len <? bitlen v then panic EOverflow else ret i.
Definition chopPrecisionAndTruncate (d : nat) (p : Z) : M nat := c <- bnew 0 ;; bquo c (L d) (K p) ;;; ret c.
Definition chopPrecisionAndRoundNonMutative (d : nat) : M nat :=
  tmp <- bnew 0 ;; bset tmp (L d) ;;; chopPrecisionAndRound tmp.
Definition assertInt64 (c : nat) : M nat := v <- get (L c) ;; if is_int64 v then ret c else panic EOverflow.
Definition TruncateInt (d : nat) : M nat := c <- chopPrecisionAndTruncate d P36 ;; NewBigIntFromBigInt c.
Definition TruncateInt64 (d : nat) : M nat := c <- chopPrecisionAndTruncate d P36 ;; assertInt64 c.
Definition TruncateDec (d : nat) : M nat := c <- chopPrecisionAndTruncate d P36 ;; NewBigDecFromBigIntWithPrec (L c) 0.
Definition RoundInt (d : nat) : M nat := c <- chopPrecisionAndRoundNonMutative d ;; NewBigIntFromBigInt c.
Definition RoundInt64 (d : nat) : M nat := c <- chopPrecisionAndRoundNonMutative d ;; assertInt64 c.

(* LegacyNewDec(0) / LegacyZeroDec(): a fresh zero cell *)
Definition ToDec (d : nat) : M nat := dec <- bnew 0 ;; bquo dec (L d) (K factor_diff) ;;; ret dec.
Definition DecRoundUp (d : nat) : M nat :=
  dec <- bnew 0 ;; rem <- bnew 0 ;; bquorem dec (L d) (K factor_diff) rem ;;;
  _ <- incBasedOnRemAndDivisor rem (K factor_diff) dec ;; ret dec.
Definition DecWithPrecision (d : nat) (prec : Z) : M nat :=
  if 18 <? prec then panic EPrec else
  ir <- bnew 0 ;; bquo ir (L d) (K (10 ^ (36 - prec))) ;;;
  m <- legacyPrecisionMultiplier prec ;; c <- bnew 0 ;; bmul c (L ir) (K m) ;;; ret c.
Definition ChopPrecisionMut (d : nat) (prec : Z) : M nat :=
  if 36 <? prec then panic EPrec else
  let f := 10 ^ (36 - prec) in bquo d (L d) (K f) ;;; bmul d (L d) (K f) ;;; ret d.
Definition ChopPrecision (d : nat) (prec : Z) : M nat := c <- Clone d ;; ChopPrecisionMut c prec.
Definition IsInteger (d : nat) : M nat :=
  c <- bnew 0 ;; brem c (L d) (K P36) ;;; v <- get (L c) ;; bnew (if Z.sgn v =? 0 then 1 else 0).

(* PowerIntegerMut: square and multiply; the loop halves a uint64, so 64 iterations suffice *)
Fixpoint power_loop (mulmut : nat -> nat -> M nat) (fuel : nat) (d tmp : nat) (i : Z) : M nat :=
  match fuel with
  | O => panic EFuel
  | S f =>
      if 1 <? i then
        (if Z.odd i then _ <- mulmut tmp d ;; ret tt else ret tt) ;;;
        d' <- mulmut d d ;; power_loop mulmut f d' tmp (Z.quot i 2)
      else ret d
  end.
Definition PowerIntegerMut (d : nat) (power : Z) : M nat :=
  if power =? 0 then OneBigDec
  else if power =? 1 then ret d
  else if power =? 2 then MulMut d d
  else tmp <- OneBigDec ;; d' <- power_loop MulMut 65 d tmp power ;; MulMut d' tmp.
Definition PowerInteger (d : nat) (power : Z) : M nat := c <- Clone d ;; PowerIntegerMut c power.

Definition BigDecFromDec (d : nat) : M nat :=
  c <- bnew 0 ;; bset c (L d) ;;; NewBigDecFromBigIntMutWithPrec c 18.
Definition BigDecFromDecMut (d : nat) : M nat := NewBigDecFromBigIntMutWithPrec d 18.
Definition NewBigDecFromDecMulDec (a b : nat) : M nat := c <- bnew 0 ;; bmul c (L a) (L b) ;;; ret c.
Definition MinBigDec (d1 d2 : nat) : M nat :=
  a <- get (L d1) ;; b <- get (L d2) ;; if a <? b then ret d1 else ret d2.
Definition MaxBigDec (d1 d2 : nat) : M nat :=
  a <- get (L d1) ;; b <- get (L d2) ;; if a <? b then ret d2 else ret d1.

(* ------------------------------------------------------------------ LegacyDec (cosmossdk.io/math v1.5.3) *)
Definition assertInValidRange (d : nat) : M unit := v <- get (L d) ;; if d_fits v then ret tt else panic EOverflow.
Definition ImmutOp (op : nat -> nat -> M nat) (d d2 : nat) : M nat := c <- Clone d ;; op c d2.
Definition D_AddMut (d d2 : nat) : M nat := badd d (L d) (L d2) ;;; assertInValidRange d ;;; ret d.
Definition D_SubMut (d d2 : nat) : M nat := bsub d (L d) (L d2) ;;; assertInValidRange d ;;; ret d.
Definition D_MulMut (d d2 : nat) : M nat :=
  bmul d (L d) (L d2) ;;; chopped <- chopPrecisionAndRoundSdkDec d ;; bset d (L chopped) ;;; assertInValidRange d ;;; ret d.
Definition D_MulTruncateMut (d d2 : nat) : M nat :=
  bmul d (L d) (L d2) ;;; bquo d (L d) (K P18) ;;; assertInValidRange d ;;; ret d.
Definition D_chopPrecisionAndRoundUp (d : nat) : M nat :=
  v <- get (L d) ;;
  if Z.sgn v =? -1 then bneg d (L d) ;;; bquo d (L d) (K P18) ;;; bneg d (L d) ;;; ret d
  else rem <- bnew 0 ;; bquorem d (L d) (K P18) rem ;;; r <- get (L rem) ;;
       if Z.sgn r =? 0 then ret d else badd d (L d) (K 1) ;;; ret d.
Definition D_MulRoundUpMut (d d2 : nat) : M nat :=
  bmul d (L d) (L d2) ;;; _ <- D_chopPrecisionAndRoundUp d ;; assertInValidRange d ;;; ret d.
Definition D_MulIntMut (d i : nat) : M nat := bmul d (L d) (L i) ;;; assertInValidRange d ;;; ret d.
Definition D_MulInt64Mut (d : nat) (i : Z) : M nat :=
  t <- bnew i ;; bmul d (L d) (L t) ;;; assertInValidRange d ;;; ret d.
Definition D_QuoMut (d d2 : nat) : M nat :=
  bmul d (L d) (K sq18) ;;; bquo d (L d) (L d2) ;;; _ <- chopPrecisionAndRoundSdkDec d ;; assertInValidRange d ;;; ret d.
Definition D_QuoTruncateMut (d d2 : nat) : M nat :=
  bmul d (L d) (K P18) ;;; bquo d (L d) (L d2) ;;; assertInValidRange d ;;; ret d.
Definition D_QuoRoundupMut (d d2 : nat) : M nat :=
  bmul d (L d) (K P18) ;;; rem <- bnew 0 ;; bquorem d (L d) (L d2) rem ;;;
  r <- get (L rem) ;; dv <- get (L d) ;; d2v <- get (L d2) ;;
  (if ((0 <? r) && Bool.eqb (dv <? 0) (d2v <? 0)) || ((r <? 0) && negb (Bool.eqb (dv <? 0) (d2v <? 0)))
   then badd d (L d) (K 1) else ret tt) ;;;
  assertInValidRange d ;;; ret d.
Definition D_QuoIntMut (d i : nat) : M nat := bquo d (L d) (L i) ;;; ret d.
Definition D_QuoInt64Mut (d : nat) (i : Z) : M nat := t <- bnew i ;; bquo d (L d) (L t) ;;; ret d.
Definition ImmutOpZ (op : nat -> Z -> M nat) (d : nat) (i : Z) : M nat := c <- Clone d ;; op c i.
Definition LegacyNewDecFromBigInt (i : nat) : M nat := c <- bnew 0 ;; bmul c (L i) (K P18) ;;; ret c.
Definition D_Ceil (d : nat) : M nat :=
  tmp <- bnew 0 ;; bset tmp (L d) ;;; rem <- bnew 0 ;; bquorem tmp (L tmp) (K P18) rem ;;;
  r <- get (L rem) ;;
  x <- (if 0 <? Z.sgn r then badd tmp (L tmp) (K 1) ;;; LegacyNewDecFromBigInt tmp else LegacyNewDecFromBigInt tmp) ;;
  assertInValidRange x ;;; ret x.
Definition NewIntFromBigIntMut (i : nat) : M nat :=
  v <- get (L i) ;; if max_int_bit_len <? bitlen v then panic EOverflow else ret i.
Definition D_copy (d : nat) : M nat := tmp <- bnew 0 ;; bset tmp (L d) ;;; ret tmp.
Definition D_RoundInt (d : nat) : M nat := tmp <- D_copy d ;; c <- chopPrecisionAndRoundSdkDec tmp ;; NewIntFromBigIntMut c.
Definition D_RoundInt64 (d : nat) : M nat := tmp <- D_copy d ;; c <- chopPrecisionAndRoundSdkDec tmp ;; assertInt64 c.
Definition D_TruncateInt (d : nat) : M nat := tmp <- D_copy d ;; bquo tmp (L tmp) (K P18) ;;; NewIntFromBigIntMut tmp.
Definition D_TruncateInt64 (d : nat) : M nat := tmp <- D_copy d ;; bquo tmp (L tmp) (K P18) ;;; assertInt64 tmp.
Definition D_TruncateDec (d : nat) : M nat := tmp <- D_copy d ;; bquo tmp (L tmp) (K P18) ;;; LegacyNewDecFromBigInt tmp.
Definition D_PowerMut (d : nat) (power : Z) : M nat :=
  if power =? 0 then bset d (K P18) ;;; ret d
  else tmp <- bnew P18 ;; d' <- power_loop D_MulMut 65 d tmp power ;; D_MulMut d' tmp.
Definition D_Power (d : nat) (power : Z) : M nat := res <- D_copy d ;; D_PowerMut res power.
Definition D_IsInteger (d : nat) : M nat :=
  c <- bnew 0 ;; brem c (L d) (K P18) ;;; v <- get (L c) ;; bnew (if Z.sgn v =? 0 then 1 else 0).

(* sigfig_round.go SigFigRound(d Dec, tenToSigFig Int): [dTimesK := d] copies the struct, i.e. shares d's cell *)
Definition point_one : Z := Z.quot P18 10.
Fixpoint sigfig_loop (fuel : nat) (d : nat) (k : Z) : M Z :=
  match fuel with
  | O => panic EFuel
  | S f => v <- get (L d) ;;
           if v <? point_one then _ <- D_MulInt64Mut d 10 ;; sigfig_loop f d (k + 1) else ret k
  end.
Definition SigFigRound (d : nat) (tenToSigFig : nat) : M nat :=
  v <- get (L d) ;;
  if v =? 0 then ret d else
  k <- sigfig_loop 400 d 0 ;;
  dk <- ImmutOp D_MulIntMut d tenToSigFig ;;
  ri <- D_RoundInt dk ;;
  numerator <- LegacyNewDecFromBigInt ri ;;                 (* Int.ToLegacyDec *)
  ten <- bnew 10 ;; tend <- LegacyNewDecFromBigInt ten ;;
  tenToK <- D_Power tend k ;;
  tk <- D_TruncateInt tenToK ;;
  (* Int.Mul: SafeMul, overflow above 256 bits *)
  den <- bnew 0 ;; bmul den (L tenToSigFig) (L tk) ;;; _ <- NewIntFromBigIntMut den ;;
  D_QuoIntMut numerator den.

(* ------------------------------------------------------------------ BigInt (osmomath/int.go) *)
Definition checkBI (c : nat) : M nat :=
  v <- get (L c) ;; if max_bit_len <? bitlen v then panic EOverflow else ret c.
Definition BI_Add (i i2 : nat) : M nat := c <- bnew 0 ;; badd c (L i) (L i2) ;;; checkBI c.
Definition BI_Sub (i i2 : nat) : M nat := c <- bnew 0 ;; bsub c (L i) (L i2) ;;; checkBI c.
Definition BI_Mul (i i2 : nat) : M nat :=
  a <- get (L i) ;; b <- get (L i2) ;;
  if max_bit_len <? bitlen a + bitlen b - 1 then panic EOverflow else
  c <- bnew 0 ;; bmul c (L i) (L i2) ;;; checkBI c.
Definition BI_Quo (i i2 : nat) : M nat :=
  b <- get (L i2) ;; if Z.sgn b =? 0 then panic EDivZero else c <- bnew 0 ;; bquo c (L i) (L i2) ;;; ret c.
Definition BI_Mod (i i2 : nat) : M nat :=
  b <- get (L i2) ;; if Z.sgn b =? 0 then panic EDivZero else c <- bnew 0 ;; bmod c (L i) (L i2) ;;; ret c.
Definition BI_Neg (i : nat) : M nat := c <- bnew 0 ;; bneg c (L i) ;;; ret c.
Definition BI_Abs (i : nat) : M nat := c <- bnew 0 ;; babs c (L i) ;;; ret c.
Definition BI_Raw (op : nat -> nat -> M nat) (i : nat) (i2 : Z) : M nat := t <- bnew i2 ;; op i t.
Definition BI_Min (i i2 : nat) : M nat :=
  a <- D_copy i ;; b <- D_copy i2 ;; x <- get (L a) ;; y <- get (L b) ;;
  c <- bnew 0 ;; (if y <? x then bset c (L b) else bset c (L a)) ;;; ret c.
Definition BI_Max (i i2 : nat) : M nat :=
  a <- D_copy i ;; b <- D_copy i2 ;; x <- get (L a) ;; y <- get (L b) ;;
  c <- bnew 0 ;; (if x <? y then bset c (L b) else bset c (L a)) ;;; ret c.
Definition BI_ToDec (i : nat) : M nat := c <- D_copy i ;; NewBigDecFromBigIntWithPrec (L c) 0.
Definition BI_Int64 (i : nat) : M nat := v <- get (L i) ;; if is_int64 v then bnew v else panic EOverflow.
Definition BI_Uint64 (i : nat) : M nat := v <- get (L i) ;; if is_uint64 v then bnew v else panic EOverflow.
Definition NewBigIntWithDecimal (n dec : Z) : M nat :=
  if dec <? 0 then panic EOverflow else
  c <- bnew (n * 10 ^ dec) ;; checkBI c.

(* comparisons packed like the driver: Equal GT GTE LT LTE IsZero IsNegative IsPositive *)
Definition cmp_bits (x y : Z) : Z :=
  b2z (x =? y) + 2 * b2z (y <? x) + 4 * b2z (y <=? x) + 8 * b2z (x <? y) + 16 * b2z (x <=? y)
  + 32 * b2z (x =? 0) + 64 * b2z (x <? 0) + 128 * b2z (0 <? x).

(* rounding_direction.go DivIntByU64ToBigDec(i Int, u uint64, round): int64(u) wraps for u >= 2^63 *)
Definition NewBigDecWithPrec (i prec : Z) : M nat :=       (* bi := big.NewInt(i); bi.Mul(bi, precisionMultiplier(prec)) *)
  m <- precisionMultiplier prec ;; c <- bnew i ;; bmul c (L c) (K m) ;;; ret c.
Definition DivIntByU64ToBigDec (i : nat) (u round : Z) : M nat :=
  if u =? 0 then panic EDivZero else
  dec <- LegacyNewDecFromBigInt i ;;                       (* i.ToLegacyDec() *)
  d <- BigDecFromDecMut dec ;;
  if round =? 1 then y <- NewBigDecWithPrec (wrap_int64 u) 0 ;; QuoRoundUp d y
  else if round =? 2 then QuoInt64 d (wrap_int64 u)
  else if round =? 3 then y <- NewBigDecWithPrec (wrap_int64 u) 0 ;; Quo d y
  else panic EOther.
