(* C12/Codec.v - text, binary (gogoproto custom type) and JSON encodings of BigDec, Dec (LegacyDec)
   and BigInt, over lists of bytes (a byte is its code as a Z).  Mirrors String / NewBigDecFromStr /
   Marshal / Unmarshal / MarshalJSON / UnmarshalJSON of osmomath/decimal.go, int.go and
   cosmossdk.io/math legacy_dec.go, plus the parts of math/big they call:
     big.Int.MarshalText / String  = [int_text]      (decimal, '-' prefix)
     big.Int.SetString(s, 10)      = [set_string 10] (optional sign, then digits only)
     big.Int.UnmarshalText         = [set_string 0]  (base prefixes 0x 0b 0o, leading 0 = octal; '_' not modelled)
   Definitions only. *)
From Coq Require Import ZArith List Bool DecimalN.
Import ListNotations.
From Osmo Require Import Base.DecModel.
Open Scope Z_scope.

Definition c_minus : Z := 45.
Definition c_plus : Z := 43.
Definition c_dot : Z := 46.
Definition c_zero : Z := 48.
Definition c_quote : Z := 34.
Definition c_backslash : Z := 92.
Definition c_underscore : Z := 95.

(* ---- printing ---- *)
(* decimal digits of n >= 0 (big.Int text form): the standard library's binary -> decimal conversion
   (N.to_uint, proved inverse to N.of_uint in DecimalN), mapped to ASCII codes *)
Fixpoint uint_bytes (u : Decimal.uint) : list Z :=
  match u with
  | Decimal.Nil => []
  | Decimal.D0 r => 48 :: uint_bytes r | Decimal.D1 r => 49 :: uint_bytes r
  | Decimal.D2 r => 50 :: uint_bytes r | Decimal.D3 r => 51 :: uint_bytes r
  | Decimal.D4 r => 52 :: uint_bytes r | Decimal.D5 r => 53 :: uint_bytes r
  | Decimal.D6 r => 54 :: uint_bytes r | Decimal.D7 r => 55 :: uint_bytes r
  | Decimal.D8 r => 56 :: uint_bytes r | Decimal.D9 r => 57 :: uint_bytes r
  end.
Definition nat_text (n : Z) : list Z := uint_bytes (N.to_uint (Z.to_N n)).
Definition int_text (z : Z) : list Z := if z <? 0 then c_minus :: nat_text (- z) else nat_text z.

(* BigDec.String / LegacyDec.String with [prec] decimals *)
Definition dec_string (prec : nat) (d : Z) : list Z :=
  let bz := nat_text (Z.abs d) in
  let n := length bz in
  let body := if (n <=? prec)%nat then [c_zero; c_dot] ++ repeat c_zero (prec - n) ++ bz
              else firstn (n - prec) bz ++ [c_dot] ++ skipn (n - prec) bz in
  if d <? 0 then c_minus :: body else body.

(* ---- scanning ---- *)
Definition digit_val (c : Z) : option Z :=
  if (48 <=? c) && (c <=? 57) then Some (c - 48)
  else if (97 <=? c) && (c <=? 122) then Some (c - 97 + 10)
  else if (65 <=? c) && (c <=? 90) then Some (c - 65 + 10)
  else None.
Fixpoint digits_val (base : Z) (s : list Z) (acc : Z) : option Z :=
  match s with
  | [] => Some acc
  | c :: r => match digit_val c with
              | Some v => if v <? base then digits_val base r (acc * base + v) else None
              | None => None
              end
  end.
Definition nonempty_digits (base : Z) (s : list Z) : option Z :=
  match s with [] => None | _ => digits_val base s 0 end.

Inductive scan := SOk (z : Z) | SErr | SUnmodelled.
Definition of_opt (o : option Z) : scan := match o with Some z => SOk z | None => SErr end.
Definition scan_neg (s : scan) : scan := match s with SOk z => SOk (- z) | x => x end.

(* magnitude part of big.Int.SetString(s, base), base = 10 or 0 *)
Definition scan_mag (base : Z) (s : list Z) : scan :=
  if base =? 10 then of_opt (nonempty_digits 10 s) else
  if existsb (Z.eqb c_underscore) s then SUnmodelled else
  match s with
  | 48 :: c :: r =>
      if (c =? 120) || (c =? 88) then of_opt (nonempty_digits 16 r)          (* 0x *)
      else if (c =? 98) || (c =? 66) then of_opt (nonempty_digits 2 r)       (* 0b *)
      else if (c =? 111) || (c =? 79) then of_opt (nonempty_digits 8 r)      (* 0o *)
      else of_opt (nonempty_digits 8 (c :: r))                               (* leading 0: octal *)
  | _ => of_opt (nonempty_digits 10 s)
  end.
Definition set_string (base : Z) (s : list Z) : scan :=
  match s with
  | [] => SErr
  | c :: r => if c =? c_minus then scan_neg (scan_mag base r)
              else if c =? c_plus then scan_mag base r
              else scan_mag base s
  end.

(* strings.Split(s, ".") *)
Fixpoint split_on (c : Z) (s : list Z) (cur : list Z) : list (list Z) :=
  match s with
  | [] => [rev cur]
  | x :: r => if x =? c then rev cur :: split_on c r [] else split_on c r (x :: cur)
  end.

(* result of a decoder: value, error, nil receiver (Unmarshal of empty data), or outside the modelled fragment *)
Inductive dres := DOk (z : Z) | DErr | DNil | DUnmodelled.
Definition check_range (fits : Z -> bool) (s : scan) : dres :=
  match s with SOk z => if fits z then DOk z else DErr | SErr => DErr | SUnmodelled => DUnmodelled end.

(* NewBigDecFromStr (bound on the magnitude before the sign is applied) and LegacyNewDecFromStr
   (range check after the sign): both are [fits] on a symmetric range, so one definition serves *)
Definition dec_parse_unsigned (prec : nat) (fits : Z -> bool) (neg : bool) (s1 : list Z) : dres :=
  match s1 with
  | [] => DErr
  | _ =>
      let finish (comb : list Z) (lendecs : nat) : dres :=
        if (prec <? lendecs)%nat then DErr else
        match set_string 10 (comb ++ repeat c_zero (prec - lendecs)) with
        | SOk v => if fits v then DOk (if neg then - v else v) else DErr
        | _ => DErr
        end in
      match split_on c_dot s1 [] with
      | [i] => finish i 0%nat
      | [i; f] => match f, i with
                  | [], _ => DErr
                  | _, [] => DErr
                  | _, _ => finish (i ++ f) (length f)
                  end
      | _ => DErr
      end
  end.
Definition dec_from_str (prec : nat) (fits : Z -> bool) (s : list Z) : dres :=
  match s with
  | [] => DErr
  | c0 :: r0 => if c0 =? c_minus then dec_parse_unsigned prec fits true r0
                else dec_parse_unsigned prec fits false s
  end.

(* Unmarshal (gogoproto custom type): empty data leaves a nil receiver *)
Definition int_unmarshal (fits : Z -> bool) (s : list Z) : dres :=
  match s with [] => DNil | _ => check_range fits (set_string 0 s) end.

(* json.Unmarshal(bz, &text) restricted to the fragment: optional JSON whitespace, a double quote, bytes
   other than double quote, backslash and control characters, all ASCII, a double quote, optional
   whitespace.  A text with a backslash or a byte >= 128 inside the quotes is outside the modelled
   fragment; anything else is an error. *)
Definition is_ws (c : Z) : bool := (c =? 32) || (c =? 9) || (c =? 10) || (c =? 13).
Fixpoint drop_ws (s : list Z) : list Z :=
  match s with c :: r => if is_ws c then drop_ws r else s | [] => [] end.
Inductive jres := JOk (s : list Z) | JErr | JUnmodelled.
Fixpoint json_body (s : list Z) (acc : list Z) : jres :=
  match s with
  | [] => JErr
  | c :: r =>
      if c =? c_quote then (match drop_ws r with [] => JOk (rev acc) | _ => JErr end)
      else if (c =? c_backslash) || (128 <=? c) then JUnmodelled
      else if c <? 32 then JErr
      else json_body r (c :: acc)
  end.
Definition json_string (s : list Z) : jres :=
  match drop_ws s with
  | c :: r => if c =? c_quote then json_body r [] else JErr   (* numbers, objects ...: type error; null: empty text, rejected by every parser *)
  | [] => JErr
  end.
Definition json_quote (s : list Z) : list Z := c_quote :: s ++ [c_quote].

Definition fits_bd_parse (v : Z) : bool := bitlen v <=? max_bit_len.     (* maxBitLen in both BigDec parsers *)
Definition fits_bi (v : Z) : bool := bitlen v <=? max_bit_len.

(* BigDec *)
Definition bd_string := dec_string 36.
Definition bd_from_str := dec_from_str 36 fits_bd_parse.
Definition bd_marshal := int_text.
Definition bd_unmarshal := int_unmarshal fits_bd_parse.
Definition bd_marshal_json (d : Z) := json_quote (bd_string d).
Definition unmarshal_json_with (from_str : list Z -> dres) (bz : list Z) : dres :=
  match json_string bz with JOk s => from_str s | JErr => DErr | JUnmodelled => DUnmodelled end.
Definition bd_unmarshal_json := unmarshal_json_with bd_from_str.
(* Dec *)
Definition d_string := dec_string 18.
Definition d_from_str := dec_from_str 18 d_fits.
Definition d_unmarshal := int_unmarshal d_fits.
Definition d_marshal_json (d : Z) := json_quote (d_string d).
Definition d_unmarshal_json := unmarshal_json_with d_from_str.
(* BigInt: NewBigIntFromString uses SetString(s, 0); JSON goes through UnmarshalText *)
Definition bi_from_string (s : list Z) : dres := check_range fits_bi (set_string 0 s).
Definition bi_unmarshal := int_unmarshal fits_bi.
Definition bi_marshal_json (i : Z) := json_quote (int_text i).
Definition bi_unmarshal_json (bz : list Z) : dres :=
  match json_string bz with JOk s => check_range fits_bi (set_string 0 s) | JErr => DErr | JUnmodelled => DUnmodelled end.
