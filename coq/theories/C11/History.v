(* C11/History.v - stake tracks locks over whole histories (exchange rate 1:1 at the start, hence always). *)
From Coq Require Import ZArith List Bool Lia.
Import ListNotations.
From Osmo Require Import Base.DecModel C11.Model C11.Arith C11.Basics C11.LInv C11.LStep C11.SInv C11.Drift C11.Proofs.
Open Scope Z_scope.
Local Opaque P18.

(* validators start with exchange rate 1 (tokens * 10^18 = delegator shares) and multipliers are not negative *)
Definition init_ok (vals : list (Z * validator)) (mults : list (Z * Z)) : Prop :=
  Forall (fun x => v_shares (snd x) = v_tokens (snd x) * P18 /\ 0 <= v_tokens (snd x)) vals /\
  Forall (fun x => 0 <= snd x) mults.

Lemma init_sinv : forall cfg t0 vals mults sup off bnd, init_ok vals mults ->
  sinv cfg (init_state t0 vals mults sup off bnd).
Proof.
  intros cfg t0 vals mults sup off bnd [Hv Hm]. constructor; cbn.
  - intros v val H. unfold vals_of in H. destruct (find (fun x => fst x =? v) vals) as [x|] eqn:E; [|discriminate].
    injection H as <-. apply find_some in E. destruct E as [E _]. rewrite Forall_forall in Hv. apply (Hv _ E).
  - intros; discriminate.
  - intros d v [].
  - constructor.
  - intros v val H. unfold vals_of in H. destruct (find (fun x => fst x =? v) vals) as [x|] eqn:E; [|discriminate].
    injection H as <-. apply find_some in E. destruct E as [E _]. rewrite Forall_forall in Hv. destruct (Hv _ E) as [-> Ht]. pose proof P18_pos. nia.
  - intros; discriminate.
  - intros d v [].
  - intros d. unfold mults_of. destruct (find (fun x => fst x =? d) mults) as [x|] eqn:E; [|lia].
    apply find_some in E. destruct E as [E _]. rewrite Forall_forall in Hm. apply (Hm _ E).
Qed.

Lemma init_dinv : forall cfg t0 vals mults sup off bnd, init_ok vals mults ->
  dinv cfg (init_state t0 vals mults sup off bnd) (fun _ _ => 0).
Proof.
  intros. split; [apply init_sinv; assumption|]. intros d v. reflexivity.
Qed.

(* the state and the drift budget after a history *)
Fixpoint grun (cfg : config) (st : state) (B : Z -> Z -> Z) (ops : list op) : state * (Z -> Z -> Z) :=
  match ops with
  | [] => (st, B)
  | o :: r =>
    match step cfg st o with
    | Ok (st', _) => grun cfg st' (budget_next cfg st B o st') r
    | Err _ => grun cfg st B r
    end
  end.

Lemma grun_run : forall cfg ops st B, fst (grun cfg st B ops) = run cfg st ops.
Proof.
  intros cfg. induction ops as [|o r IH]; intros st B; [reflexivity|].
  change (run cfg st (o :: r)) with (run cfg (next cfg st o) r). cbn [grun]. unfold next, apply.
  destruct (step cfg st o) as [[st' n]|e]; apply IH.
Qed.

Theorem grun_inv : forall cfg ops st B, wf_cfg cfg -> linv cfg st -> dinv cfg st B ->
  linv cfg (fst (grun cfg st B ops)) /\ dinv cfg (fst (grun cfg st B ops)) (snd (grun cfg st B ops)).
Proof.
  intros cfg. induction ops as [|o r IH]; intros st B W I D; [split; assumption|].
  cbn [grun]. destruct (step cfg st o) as [[st' n]|e] eqn:E; [|apply IH; assumption].
  apply IH; [assumption|eapply step_linv; eassumption|eapply step_dinv; eassumption].
Qed.

Lemma run_sinv : forall cfg ops st B, wf_cfg cfg -> linv cfg st -> dinv cfg st B -> sinv cfg (run cfg st ops).
Proof. intros cfg ops st B W I D. rewrite <- (grun_run cfg ops st B). apply (grun_inv cfg ops st B W I D). Qed.

(* refresh_exact over histories *)
Theorem refresh_exact_history : forall cfg t0 vals mults sup off bnd ops ins order st' n,
  wf_cfg cfg -> 0 < t0 -> init_ok vals mults ->
  step cfg (run cfg (init_state t0 vals mults sup off bnd) ops) (OEpoch ins order) = Ok (st', n) ->
  forall d v, In (d, v) (s_accs st') ->
    delegation_tokens st' d v = Ok (value (s_mult st' d) (c_rf cfg) (conn_amt st' d v)) /\
    expected_delegation cfg st' d v = Ok (value (s_mult st' d) (c_rf cfg) (conn_amt st' d v)).
Proof.
  intros cfg t0 vals mults sup off bnd ops ins order st' n W Ht Hi H d v Hin.
  set (st0 := init_state t0 vals mults sup off bnd) in *.
  pose proof (run_linv cfg ops st0 W (init_linv cfg t0 vals mults sup off bnd Ht)) as I.
  pose proof (run_sinv cfg ops st0 _ W (init_linv cfg t0 vals mults sup off bnd Ht) (init_dinv cfg t0 vals mults sup off bnd Hi)) as S.
  cbn [step] in H. unfold bind in H. destruct (epoch cfg (run cfg st0 ops) ins order) as [s|] eqn:E; [|discriminate]. injection H as <- _.
  destruct (epoch_spec cfg _ ins order s W I S E) as [_ [_ [X _]]]. apply X. assumption.
Qed.

(* the drift bound over histories *)
Theorem drift_history : forall cfg t0 vals mults sup off bnd ops,
  wf_cfg cfg -> 0 < t0 -> init_ok vals mults ->
  let r := grun cfg (init_state t0 vals mults sup off bnd) (fun _ _ => 0) ops in
  fst r = run cfg (init_state t0 vals mults sup off bnd) ops /\
  forall d v, delegation_tokens (fst r) d v = Ok (dtok (fst r) d v) /\
              Z.abs (dtok (fst r) d v - conn_val cfg (fst r) d v) <= snd r d v.
Proof.
  intros cfg t0 vals mults sup off bnd ops W Ht Hi r. split; [apply grun_run|].
  destruct (grun_inv cfg ops _ _ W (init_linv cfg t0 vals mults sup off bnd Ht) (init_dinv cfg t0 vals mults sup off bnd Hi)) as [I [S D]].
  intros d v. split; [apply (dtok_spec cfg); assumption|apply D].
Qed.
