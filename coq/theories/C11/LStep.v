(* C11/LStep.v - every operation of the model preserves the structural invariant [linv]. *)
From Coq Require Import ZArith List Bool Lia.
Import ListNotations.
From Osmo Require Import Base.DecModel C11.Model C11.Arith C11.Basics C11.LInv.
Open Scope Z_scope.

Ltac rsplit := repeat match goal with |- _ /\ _ => split end.
Ltac fields H := apply lproj_fields in H; destruct H as [?F1 [?F2 [?F3 [?F4 [?F5 [?F6 ?F7]]]]]].

(* ---- beginUnlock on a lock that is not connected ---- *)
Lemma begin_unlock_core_linv : forall cfg st id l amt st' nid,
  linv cfg st -> s_locks st id = Some l -> s_conn st id = None ->
  (forall x, amt = Some x -> 0 < x) ->
  begin_unlock_core st id l amt = Ok (st', nid) ->
  linv cfg st' /\ s_now st' = s_now st /\ s_synths st' = s_synths st /\ s_conn st' = s_conn st /\ s_accs st' = s_accs st /\
  s_mult st' = s_mult st /\ s_deleg st' = s_deleg st /\ s_vals st' = s_vals st /\ s_supply st' = s_supply st /\
  s_offset st' = s_offset st /\ s_bonded st' = s_bonded st /\ s_accum st' = s_accum st /\
  ((nid = id /\ s_last st' = s_last st /\
    s_locks st' = upd1 (s_locks st) id (Some (mkLock (l_owner l) (l_denom l) (l_amt l) (l_dur l) (s_now st + l_dur l)))) \/
   (exists x, amt = Some x /\ x < l_amt l /\ nid = s_last st + 1 /\ s_last st' = s_last st + 1 /\ l_end l = 0 /\
    s_locks st' = upd1 (upd1 (s_locks st) id (Some (mkLock (l_owner l) (l_denom l) (l_amt l - x) (l_dur l) 0)))
                       (s_last st + 1) (Some (mkLock (l_owner l) (l_denom l) x (l_dur l) (s_now st + l_dur l))))).
Proof.
  intros cfg st id l amt st' nid I Hl Hc Hpos H. unfold begin_unlock_core in H.
  destruct (match amt with Some x => l_amt l <? x | None => false end) eqn:Ex; [discriminate|].
  destruct (Z.eqb_spec (l_end l) 0) as [He|]; [|discriminate]. cbn [negb] in H.
  pose proof (L_lock_wf _ _ I _ _ Hl) as [Wa [Wd We]]. pose proof (L_now _ _ I) as Hn.
  assert (Whole : forall st' nid,
    Ok (put_lock st id (mkLock (l_owner l) (l_denom l) (l_amt l) (l_dur l) (s_now st + l_dur l)), id) = Ok (st', nid) ->
    linv cfg st' /\ nid = id /\ st' = put_lock st id (mkLock (l_owner l) (l_denom l) (l_amt l) (l_dur l) (s_now st + l_dur l))).
  { intros s n E. injection E as <- <-. split; [|split; reflexivity].
    apply (put_lock_unconnected_linv cfg st id l); cbn; try assumption; try reflexivity; try lia.
    intros y Hy. right. pose proof (L_marker _ _ I id) as M. unfold marker in M. rewrite Hy in M.
    destruct M as [_ M]. destruct (y_kind y).
    - destruct M as [M _]. congruence.
    - destruct M as [_ [M2 M3]]. destruct (M3 _ Hl) as [_ M5]. lia. }
  destruct amt as [x|].
  - destruct (Z.eqb_spec x (l_amt l)) as [Exa|Nxa].
    + apply Whole in H. destruct H as [I' [-> ->]]. split; [assumption|]. ssimpl. repeat split. left. repeat split.
    + injection H as <- <-. specialize (Hpos x eq_refl). apply Z.ltb_ge in Ex.
      set (old := mkLock (l_owner l) (l_denom l) (l_amt l - x) (l_dur l) (l_end l)).
      set (new := mkLock (l_owner l) (l_denom l) x (l_dur l) (s_now st + l_dur l)).
      assert (I1 : linv cfg (put_lock st id old)).
      { apply (put_lock_unconnected_linv cfg st id l); cbn; try assumption; try reflexivity; try lia. }
      split.
      * apply (new_lock_linv cfg (put_lock st id old) new I1); cbn; lia.
      * ssimpl. repeat split. right. exists x. subst old new. rewrite He. repeat split; try lia.
  - apply Whole in H. destruct H as [I' [-> ->]]. split; [assumption|]. ssimpl. repeat split. left. repeat split.
Qed.

(* ---- lockup BeginUnlock, BeginUnlockAllNotUnlockings, ForceUnlock ---- *)
Lemma begin_unlock_spec : forall st id amt st' n, begin_unlock st id amt = Ok (st', n) ->
  exists l, s_locks st id = Some l /\ s_synths st id = [] /\ begin_unlock_core st id l amt = Ok (st', n).
Proof.
  intros st id amt st' n H. unfold begin_unlock in H. destruct (s_locks st id) as [l|]; [|discriminate].
  destruct (s_synths st id); [|discriminate]. cbn [negb] in H. exists l. auto.
Qed.

Lemma begin_unlock_linv : forall cfg st id amt st' nid,
  linv cfg st -> (forall x, amt = Some x -> 0 < x) -> begin_unlock st id amt = Ok (st', nid) ->
  exists l, s_locks st id = Some l /\ s_conn st id = None /\ s_synths st id = [] /\
  linv cfg st' /\ s_now st' = s_now st /\ s_synths st' = s_synths st /\ s_conn st' = s_conn st /\ s_accs st' = s_accs st /\
  s_mult st' = s_mult st /\ s_deleg st' = s_deleg st /\ s_vals st' = s_vals st /\ s_supply st' = s_supply st /\
  s_offset st' = s_offset st /\ s_bonded st' = s_bonded st /\ s_accum st' = s_accum st /\
  ((nid = id /\ s_last st' = s_last st /\
    s_locks st' = upd1 (s_locks st) id (Some (mkLock (l_owner l) (l_denom l) (l_amt l) (l_dur l) (s_now st + l_dur l)))) \/
   (exists x, amt = Some x /\ x < l_amt l /\ nid = s_last st + 1 /\ s_last st' = s_last st + 1 /\ l_end l = 0 /\
    s_locks st' = upd1 (upd1 (s_locks st) id (Some (mkLock (l_owner l) (l_denom l) (l_amt l - x) (l_dur l) 0)))
                       (s_last st + 1) (Some (mkLock (l_owner l) (l_denom l) x (l_dur l) (s_now st + l_dur l))))).
Proof.
  intros cfg st id amt st' nid I Hpos H. apply begin_unlock_spec in H. destruct H as [l [Hl [Hs H]]].
  pose proof (L_marker _ _ I id) as M. unfold marker in M. rewrite Hs in M.
  exists l. split; [assumption|]. split; [assumption|]. split; [assumption|].
  apply (begin_unlock_core_linv cfg st id l amt st' nid I Hl M Hpos H).
Qed.

Lemma begin_unlock_all_linv : forall cfg owner ids st st', linv cfg st -> begin_unlock_all st owner ids = Ok st' ->
  linv cfg st' /\ s_conn st' = s_conn st /\ s_accs st' = s_accs st /\ s_mult st' = s_mult st /\ s_deleg st' = s_deleg st /\
  s_vals st' = s_vals st /\ s_supply st' = s_supply st /\ s_offset st' = s_offset st /\ s_last st' = s_last st /\
  s_synths st' = s_synths st /\ s_now st' = s_now st /\
  (forall id, s_conn st id <> None -> s_locks st' id = s_locks st id).
Proof.
  intros cfg owner. induction ids as [|id r IH]; intros st st' I H; cbn [begin_unlock_all] in H.
  - injection H as <-. split; [assumption|]. repeat split; reflexivity.
  - destruct (s_locks st id) as [l|] eqn:Hl; [|apply IH; assumption].
    destruct ((l_owner l =? owner) && (l_end l =? 0)); [|apply IH; assumption].
    unfold bind in H. destruct (begin_unlock st id None) as [[st1 n1]|] eqn:E; [|discriminate]. cbn [fst] in H.
    apply (begin_unlock_linv cfg) in E; [|assumption|discriminate].
    destruct E as [l0 [_ [Hc [_ [I1 [N1 [S1 [C1 [A1 [M1 [D1 [V1 [Su1 [Of1 [_ [_ Cases]]]]]]]]]]]]]]]].
    destruct Cases as [[_ [T1 K1]]|[x [Ex _]]]; [|discriminate].
    apply IH in H; [|assumption]. destruct H as [I' [C' [A' [M' [D' [V' [Su' [Of' [T' [S' [N' K']]]]]]]]]]].
    split; [assumption|]. repeat split; try congruence.
    intros id0 Hn. rewrite K' by (rewrite C1; assumption). rewrite K1. apply upd1_other. intros ->. contradiction.
Qed.

Lemma begin_unlock_all_refuses : forall owner ids st id l, In id ids -> s_locks st id = Some l -> l_owner l = owner ->
  l_end l = 0 -> s_synths st id <> [] -> exists e, begin_unlock_all st owner ids = Err e.
Proof.
  intros owner. induction ids as [|id0 r IH]; intros st id l Hin Hl Ho He Hs; [contradiction|]. cbn [begin_unlock_all].
  destruct (Z.eq_dec id0 id) as [->|N].
  - rewrite Hl, Ho, He, !Z.eqb_refl. cbn [andb]. unfold bind, begin_unlock. rewrite Hl.
    destruct (s_synths st id); [contradiction|]. cbn. eexists; reflexivity.
  - destruct Hin as [E|Hin]; [contradiction|].
    destruct (s_locks st id0) as [l0|] eqn:Hl0; [|eapply IH; eassumption].
    destruct ((l_owner l0 =? owner) && (l_end l0 =? 0)); [|eapply IH; eassumption].
    unfold bind. destruct (begin_unlock st id0 None) as [[st1 n1]|e] eqn:E; [|eexists; reflexivity]. cbn [fst].
    apply begin_unlock_spec in E. destruct E as [l1 [_ [_ E]]]. unfold begin_unlock_core in E.
    destruct (negb (l_end l1 =? 0)); [discriminate|]. cbn in E. injection E as <- _.
    apply (IH _ id l); ssimpl; try assumption. rewrite upd1_other by (intros X; apply N; congruence). assumption.
Qed.

Lemma force_unlock_linv : forall cfg st sender id st', linv cfg st -> force_unlock cfg st sender id = Ok st' ->
  linv cfg st' /\ s_conn st id = None /\ s_synths st id = [] /\
  s_conn st' = s_conn st /\ s_accs st' = s_accs st /\ s_mult st' = s_mult st /\ s_deleg st' = s_deleg st /\
  s_vals st' = s_vals st /\ s_supply st' = s_supply st /\ s_offset st' = s_offset st /\ s_last st' = s_last st /\
  (forall id0, id0 <> id -> s_locks st' id0 = s_locks st id0) /\ s_synths st' = s_synths st /\ s_now st' = s_now st.
Proof.
  intros cfg st sender id st' I H. unfold force_unlock in H.
  destruct (s_locks st id) as [l|] eqn:Hl; [|discriminate].
  destruct (negb (l_owner l =? sender)); [discriminate|]. destruct (negb (existsb (Z.eqb sender) (c_force cfg))); [discriminate|].
  unfold bind in H. destruct (synth_by_lock_spec cfg st id _ I eq_refl) as [[Hs Er]|[y [Hs Er]]]; rewrite Er in H; [|discriminate].
  pose proof (L_marker _ _ I id) as M. unfold marker in M. rewrite Hs in M.
  destruct (Z.eqb_spec (l_end l) 0) as [He|Ne].
  - destruct (begin_unlock st id None) as [[st1 n1]|] eqn:E; [|discriminate]. cbn [fst] in H. injection H as <-.
    apply (begin_unlock_linv cfg) in E; [|assumption|discriminate].
    destruct E as [l0 [Hl0 [_ [_ [I1 [N1 [S1 [C1 [A1 [M1 [D1 [V1 [Su1 [Of1 [_ [_ Cases]]]]]]]]]]]]]]]].
    rewrite Hl in Hl0. injection Hl0 as <-.
    destruct Cases as [[_ [T1 K1]]|[x [Ex _]]]; [|discriminate].
    pose proof (L_now _ _ I) as Hn. pose proof (L_lock_wf _ _ I _ _ Hl) as [_ [Wd _]].
    split.
    + apply (del_lock_linv cfg st1 id (mkLock (l_owner l) (l_denom l) (l_amt l) (l_dur l) (s_now st + l_dur l))); [assumption| |cbn; lia].
      rewrite K1, upd1_same. reflexivity.
    + ssimpl. repeat split; try congruence. intros id0 N. rewrite upd1_other by assumption. rewrite K1. apply upd1_other. assumption.
  - injection H as <-. split; [apply (del_lock_linv cfg st id l); assumption|].
    ssimpl. repeat split; try congruence. intros id0 N. apply upd1_other. assumption.
Qed.

(* ---- SuperfluidDelegate ---- *)
Lemma superfluid_delegate_linv : forall cfg st sender id v st',
  linv cfg st -> superfluid_delegate cfg st sender id v = Ok st' ->
  linv cfg st' /\ exists l, s_locks st id = Some l /\ s_conn st id = None /\ s_synths st id = [] /\
    l_end l = 0 /\ l_owner l = sender /\
    s_conn st' id = Some (l_denom l, v) /\ s_locks st' = s_locks st /\ s_now st' = s_now st /\ s_last st' = s_last st /\
    s_mult st' = s_mult st /\ In (l_denom l, v) (s_accs st') /\
    (forall id', id' <> id -> s_conn st' id' = s_conn st id' /\ s_synths st' id' = s_synths st id') /\
    (forall k, In k (s_accs st) -> In k (s_accs st')) /\
    (forall k, In k (s_accs st') -> In k (s_accs st) \/ k = (l_denom l, v)).
Proof.
  intros cfg st sender id v st' I H. unfold superfluid_delegate in H.
  destruct (s_locks st id) as [l|] eqn:Hl; [|discriminate].
  destruct (Z.eqb_spec (l_owner l) sender) as [Ho|]; [|discriminate]. cbn [negb] in H.
  destruct (is_sf cfg (l_denom l)); [|discriminate]. cbn [negb] in H.
  destruct (Z.eqb_spec (l_end l) 0) as [He|]; [|discriminate]. cbn [negb] in H.
  destruct (Z.ltb_spec (l_dur l) (c_unb cfg)); [discriminate|].
  destruct (already_sf_staking st id) eqn:Ea; [discriminate|].
  unfold already_sf_staking in Ea. destruct (s_conn st id) eqn:Hc; [discriminate|].
  assert (Hs : s_synths st id = []).
  { destruct (synth_by_lock_spec cfg st id _ I eq_refl) as [[Hs _]|[y [_ Ey]]]; [assumption|]. rewrite Ey in Ea. discriminate. }
  unfold bind in H.
  match type of H with match ?c with _ => _ end = _ => destruct c as [st3|] eqn:E3; [|discriminate] end.
  pose proof E3 as E3'. apply create_synth_ok in E3'. destruct E3' as [_ [l0 [e [_ [_ E3']]]]].
  apply (add_staking_linv cfg st id l (l_denom l) v st3 I Hl eq_refl He) in E3; try assumption.
  destruct E3 as [I3 [C3 [K3 [M3 [_ [_ [_ [_ [_ [A3 [N3 [T3 [O3 [G3 G4]]]]]]]]]]]]]].
  destruct (sf_osmo_tokens cfg st3 (l_denom l) (l_amt l)) as [amount|]; [|discriminate].
  destruct (amount =? 0); [discriminate|].
  apply mint_and_delegate_frame in H. destruct H as [H Hm]. pose proof H as H'. fields H'.
  split; [apply (linv_ext cfg st3); assumption|].
  exists l. repeat split; try congruence.
  - rewrite F5. apply O3. assumption.
  - rewrite F4, E3'. ssimpl. rewrite upd1_other by assumption.
    unfold get_or_create_acc. destruct (mem_pair _ _); reflexivity.
  - intros k Hk. rewrite F6. apply G3. assumption.
  - intros k Hk. rewrite F6 in Hk. apply G4. assumption.
Qed.

(* ---- SuperfluidUndelegate ---- *)
Lemma superfluid_undelegate_linv : forall cfg st sender id st',
  linv cfg st -> wf_cfg cfg -> superfluid_undelegate cfg st sender id = Ok st' ->
  linv cfg st' /\ exists l d v, s_locks st id = Some l /\ s_conn st id = Some (d, v) /\ l_denom l = d /\ l_owner l = sender /\
    l_end l = 0 /\ c_unb cfg <= l_dur l /\
    s_conn st' id = None /\ s_synths st' id = [mkSynth Unstaking d v (s_now st + c_unb cfg) (c_unb cfg)] /\
    s_locks st' = s_locks st /\ s_now st' = s_now st /\ s_last st' = s_last st /\ s_mult st' = s_mult st /\
    s_accs st' = s_accs st /\
    (forall id', id' <> id -> s_conn st' id' = s_conn st id' /\ s_synths st' id' = s_synths st id').
Proof.
  intros cfg st sender id st' I W H. unfold superfluid_undelegate in H.
  destruct (s_locks st id) as [l|] eqn:Hl; [|discriminate].
  destruct (Z.eqb_spec (l_owner l) sender) as [Ho|]; [|discriminate]. cbn [negb] in H.
  destruct (s_conn st id) as [[d v]|] eqn:Hc; [|discriminate].
  unfold bind in H.
  match type of H with match ?c with _ => _ end = _ => destruct c as [st2|] eqn:E2; [|discriminate] end.
  pose proof E2 as E2'. apply delete_synth_ok in E2'. destruct E2' as [_ [l0 [_ E2']]].
  apply (remove_staking_linv cfg st id l d v st2 I Hl Hc) in E2.
  destruct E2 as [I2 [C2 [S2 [K2 [Hd [He [Hdur [M2 [A2 [_ [_ [_ [_ [_ [N2 [T2 O2]]]]]]]]]]]]]]]].
  destruct (sf_osmo_tokens cfg st2 d (l_amt l)) as [amount|]; [|discriminate].
  match type of H with match ?c with _ => _ end = _ => destruct c as [st3|] eqn:E3; [|discriminate] end.
  apply force_undelegate_frame in E3. destruct E3 as [E3 Em3]. pose proof E3 as E3'. fields E3'.
  assert (I3 : linv cfg st3) by (apply (linv_ext cfg st2); assumption).
  pose proof H as H'. apply create_synth_ok in H'. destruct H' as [_ [l1 [e1 [_ [_ H']]]]].
  apply (add_unstaking_linv cfg st3 id l d v st' I3 W) in H; try congruence; [|left; assumption].
  destruct H as [I' [S' [_ [M' [_ [_ [_ [_ [_ [C' [K' [A' [N' T']]]]]]]]]]]]].
  split; [assumption|]. exists l, d, v. repeat split; try congruence.
  - rewrite C', F5. apply O2. assumption.
  - rewrite H'. ssimpl. rewrite upd1_other by assumption. rewrite F4, E2'. ssimpl. rewrite upd1_other by assumption. reflexivity.
Qed.

(* ---- unbondLock ---- *)
Lemma unbond_lock_linv : forall cfg st id sender amt st' nid,
  linv cfg st -> (forall x, amt = Some x -> 0 < x) -> unbond_lock st id sender amt = Ok (st', nid) ->
  exists l y, s_locks st id = Some l /\ s_synths st id = [y] /\ y_kind y = Unstaking /\ s_conn st id = None /\ l_owner l = sender /\
  begin_unlock_core st id l amt = Ok (st', nid).
Proof.
  intros cfg st id sender amt st' nid I Hpos H. unfold unbond_lock in H.
  destruct (s_locks st id) as [l|] eqn:Hl; [|discriminate].
  destruct (Z.eqb_spec (l_owner l) sender) as [Ho|]; [|discriminate]. cbn [negb] in H.
  unfold bind in H. destruct (synth_by_lock_spec cfg st id _ I eq_refl) as [[Hs Er]|[y [Hs Er]]]; rewrite Er in H; [discriminate|].
  destruct (Z.eqb_spec (y_end y) 0) as [|Ne]; [discriminate|].
  pose proof (L_marker _ _ I id) as M. unfold marker in M. rewrite Hs in M. destruct M as [_ M].
  exists l, y. destruct (y_kind y).
  - destruct M as [_ [M _]]. contradiction.
  - destruct M as [M _]. repeat split; assumption.
Qed.

(* ---- AddTokensToLockByID ---- *)
Lemma add_tokens_linv : forall cfg st owner id amt st',
  linv cfg st -> add_tokens_to_lock cfg st owner id amt = Ok st' -> linv cfg st'.
Proof.
  intros cfg st owner id amt st' I H. unfold add_tokens_to_lock in H.
  destruct (s_locks st id) as [l|] eqn:Hl; [|discriminate].
  destruct (Z.eqb_spec (l_owner l) owner) as [Ho|]; [|discriminate]. cbn [negb] in H.
  destruct (Z.leb_spec amt 0); [discriminate|].
  unfold bind in H.
  set (l' := mkLock (l_owner l) (l_denom l) (l_amt l + amt) (l_dur l) (l_end l)) in *.
  pose proof (L_lock_wf _ _ I _ _ Hl) as [Wa [Wd We]].
  pose proof (L_marker _ _ I id) as M. unfold marker in M.
  unfold synth_by_lock in H. ssimpl.
  destruct (s_synths st id) as [|y [|]] eqn:Hs; [| |discriminate].
  - injection H as <-. eapply linv_ext; [apply increase_sf_frame|].
    apply (put_lock_unconnected_linv cfg st id l); cbn; try assumption; try reflexivity; try lia.
    intros y Hy. congruence.
  - injection H as <-. eapply linv_ext; [apply increase_sf_frame|].
    destruct M as [_ M].
    apply (put_lock_linv cfg st id l l'); cbn; try assumption; try reflexivity; try lia.
    + rewrite Hs. destruct (y_kind y).
      * destruct M as [_ [_ [l0 [E0 [_ [E1 _]]]]]]. congruence.
      * destruct M as [_ [_ M3]]. destruct (M3 _ Hl) as [M4 _]. assumption.
    + intros d v. unfold delta_for. destruct (y_kind y).
      * destruct M as [Hc _]. rewrite Hc.
        destruct (pair_eqb (y_denom y, y_val y) (d, v)) eqn:E.
        -- apply pair_eqb_eq in E. injection E as <- <-. rewrite upd3_same. lia.
        -- apply pair_eqb_neq in E. rewrite upd3_other_key by congruence. lia.
      * destruct M as [Hc _]. rewrite Hc. rewrite upd3_other_kind by discriminate. lia.
Qed.

(* ---- lockup end blocker ---- *)
Lemma delete_matured_in_linv : forall cfg ys st id st',
  linv cfg st -> Forall (fun y => y_kind y = Staking -> y_end y = 0) ys ->
  delete_matured_in st id ys = Ok st' ->
  linv cfg st' /\ s_now st' = s_now st /\ s_last st' = s_last st /\ s_locks st' = s_locks st /\ s_conn st' = s_conn st /\
  (forall id', id' <> id -> s_synths st' id' = s_synths st id').
Proof.
  induction ys as [|y r IH]; intros st id st' I Hf H; cbn [delete_matured_in] in H.
  - injection H as <-. split; [assumption|]. repeat split; auto.
  - inversion Hf as [|? ? Hy Hr]; subst.
    destruct (matured st (y_end y)) eqn:Em.
    + destruct (delete_synth st id (y_kind y) (y_denom y) (y_val y)) as [st1|] eqn:E1; [|discriminate].
      destruct (y_kind y) eqn:Ek.
      * rewrite (Hy eq_refl) in Em. unfold matured in Em. cbn in Em. discriminate.
      * apply (remove_unstaking_linv cfg st id) in E1; [|assumption].
        destruct E1 as [I1 [_ [C1 [K1 [_ [_ [_ [_ [_ [_ [_ [N1 [T1 [O1 _]]]]]]]]]]]]]].
        apply IH in H; try assumption. destruct H as [I' [N' [T' [K' [C' O']]]]].
        split; [assumption|]. repeat split; try congruence.
        intros id' Hne. rewrite O' by assumption. apply O1. assumption.
    + apply IH in H; assumption.
Qed.

Lemma marker_staking_end : forall cfg st id, linv cfg st ->
  Forall (fun y => y_kind y = Staking -> y_end y = 0) (s_synths st id).
Proof.
  intros cfg st id I. pose proof (L_marker _ _ I id) as M. unfold marker in M.
  destruct (s_synths st id) as [|y [|]]; [constructor| |contradiction].
  constructor; [|constructor]. intros Ek. rewrite Ek in M. destruct M as [_ [_ [M _]]]. assumption.
Qed.

Lemma delete_matured_synths_linv : forall cfg ids st st',
  linv cfg st -> delete_matured_synths st ids = Ok st' ->
  linv cfg st' /\ s_now st' = s_now st /\ s_last st' = s_last st /\ s_locks st' = s_locks st /\ s_conn st' = s_conn st /\
  (forall id', ~ In id' ids -> s_synths st' id' = s_synths st id').
Proof.
  induction ids as [|id r IH]; intros st st' I H; cbn [delete_matured_synths] in H.
  - injection H as <-. split; [assumption|]. repeat split; auto.
  - unfold bind in H. destruct (delete_matured_in st id (s_synths st id)) as [st1|] eqn:E1; [|discriminate].
    apply (delete_matured_in_linv cfg) in E1; [|assumption|apply (marker_staking_end cfg); assumption].
    destruct E1 as [I1 [N1 [T1 [K1 [C1 O1]]]]].
    apply IH in H; [|assumption]. destruct H as [I' [N' [T' [K' [C' O']]]]].
    split; [assumption|]. repeat split; try congruence.
    intros id' Hni. rewrite O'; [apply O1|]; intros E; apply Hni; [left; congruence|right; assumption].
Qed.

Lemma withdraw_matured_linv : forall cfg st, linv cfg st -> linv cfg (withdraw_matured st).
Proof.
  intros cfg st I. unfold withdraw_matured.
  assert (Hm : forall e, matured st e = true -> e <> 0).
  { intros e H. unfold matured in H. apply andb_true_iff in H. destruct H as [H _]. apply negb_true_iff in H. apply Z.eqb_neq in H. assumption. }
  constructor; ssimpl.
  - apply (L_now _ _ I).
  - apply (L_last _ _ I).
  - intros id l H. destruct (s_locks st id) as [l0|] eqn:E; [|discriminate]. apply (L_lock_rng _ _ I _ _ E).
  - intros id l H. destruct (s_locks st id) as [l0|] eqn:E; [|discriminate].
    destruct (matured st (l_end l0)); [discriminate|]. injection H as <-. apply (L_lock_wf _ _ I _ _ E).
  - apply (L_synth_rng _ _ I).
  - intros id. pose proof (L_marker _ _ I id) as M. unfold marker in *. ssimpl.
    destruct (s_synths st id) as [|y [|]]; try assumption.
    destruct M as [Hd M]. split; [assumption|]. destruct (y_kind y).
    + destruct M as [M1 [M2 [l [E [M3 [M4 M5]]]]]]. repeat split; try assumption. exists l. rewrite E.
      destruct (matured st (l_end l)) eqn:Em; [apply Hm in Em; contradiction|]. repeat split; assumption.
    + destruct M as [M1 [M2 M3]]. split; [assumption|]. split; [assumption|].
      intros l H. destruct (s_locks st id) as [l0|] eqn:E; [|discriminate].
      destruct (matured st (l_end l0)); [discriminate|]. injection H as <-. apply M3. reflexivity.
  - apply (L_acc _ _ I).
  - intros d v. rewrite (L_accum _ _ I). symmetry. apply conn_amt_ext; ssimpl; [reflexivity|].
    intros id _. unfold term_amt. ssimpl. destruct (s_conn st id) as [[d0 v0]|] eqn:Ec; [|reflexivity].
    destruct (conn_marker _ _ _ _ _ I Ec) as [_ [l [E [_ [He _]]]]]. rewrite E, He.
    unfold matured. cbn. reflexivity.
Qed.

(* ---- MsgLockTokens and the composite messages ---- *)
Lemma lock_tokens_cases : forall cfg st owner d amt dur st' id, lock_tokens cfg st owner d amt dur = Ok (st', id) ->
  (find_existing st owner d dur (ids_upto (s_last st)) = Some id /\ add_tokens_to_lock cfg st owner id amt = Ok st') \/
  (find_existing st owner d dur (ids_upto (s_last st)) = None /\ 0 < amt /\ 0 <= dur /\ id = s_last st + 1 /\
   st' = set_last (put_lock st (s_last st + 1) (mkLock owner d amt dur 0)) (s_last st + 1)).
Proof.
  intros cfg st owner d amt dur st' id H. unfold lock_tokens in H.
  destruct ((amt <=? 0) || (dur <? 0)) eqn:E; [discriminate|]. apply orb_false_iff in E. destruct E as [E1 E2].
  apply Z.leb_gt in E1. apply Z.ltb_ge in E2.
  destruct (find_existing st owner d dur (ids_upto (s_last st))) as [id0|].
  - unfold bind in H. destruct (add_tokens_to_lock cfg st owner id0 amt) as [s|] eqn:E; [|discriminate].
    injection H as <- <-. left. auto.
  - injection H as <- <-. right. repeat split; assumption.
Qed.

Lemma lock_tokens_linv : forall cfg st owner d amt dur st' id, linv cfg st ->
  lock_tokens cfg st owner d amt dur = Ok (st', id) -> linv cfg st'.
Proof.
  intros cfg st owner d amt dur st' id I H. apply lock_tokens_cases in H.
  destruct H as [[_ H]|[_ [Ha [Hd [_ ->]]]]].
  - eapply add_tokens_linv; eassumption.
  - apply new_lock_linv; cbn; try assumption; lia.
Qed.

Lemma add_tokens_frame : forall cfg st owner id amt st', add_tokens_to_lock cfg st owner id amt = Ok st' ->
  s_synths st' = s_synths st /\ s_now st' = s_now st /\ s_conn st' = s_conn st /\ s_last st' = s_last st.
Proof.
  intros cfg st owner id amt st' E. unfold add_tokens_to_lock in E. destruct (s_locks st id) as [l|]; [|discriminate].
  destruct (negb (l_owner l =? owner)); [discriminate|]. destruct (amt <=? 0); [discriminate|].
  unfold bind in E. destruct (synth_by_lock _ id) as [found|]; [|discriminate]. injection E as <-.
  match goal with |- s_synths (increase_sf_delegation ?c ?s ?i ?l ?a) = _ /\ _ =>
    destruct (increase_sf_frame c s i l a) as [Fr _]; apply lproj_fields in Fr; destruct Fr as [F1 [_ [F3 [F4 [F5 _]]]]]; rewrite F1, F3, F4, F5 end.
  destruct found; repeat split; reflexivity.
Qed.

(* ---- MsgUnbondConvertAndStake ---- *)
Lemma external_delegate_frame : forall st v x st', external_delegate st v x = Ok st' ->
  lproj st' = lproj st /\ s_mult st' = s_mult st /\ s_deleg st' = s_deleg st /\ s_supply st' = s_supply st /\ s_offset st' = s_offset st.
Proof.
  intros st v x st' H. unfold external_delegate in H. destruct (s_vals st v) as [val|]; [|discriminate].
  destruct (x <? 0); [discriminate|]. destruct ((v_tokens val =? 0) && (0 <? v_shares val)); [discriminate|].
  injection H as <-. repeat split; reflexivity.
Qed.

Lemma undelegate_common_linv : forall cfg st sender id st',
  linv cfg st -> undelegate_common cfg st sender id = Ok st' ->
  linv cfg st' /\ exists l d v, s_locks st id = Some l /\ s_conn st id = Some (d, v) /\ l_denom l = d /\ l_owner l = sender /\
    l_end l = 0 /\ c_unb cfg <= l_dur l /\
    s_conn st' id = None /\ s_synths st' id = [] /\
    s_locks st' = s_locks st /\ s_now st' = s_now st /\ s_last st' = s_last st /\ s_mult st' = s_mult st /\
    s_accs st' = s_accs st /\
    (forall id', id' <> id -> s_conn st' id' = s_conn st id' /\ s_synths st' id' = s_synths st id').
Proof.
  intros cfg st sender id st' I H. unfold undelegate_common in H.
  destruct (s_locks st id) as [l|] eqn:Hl; [|discriminate].
  destruct (Z.eqb_spec (l_owner l) sender) as [Ho|]; [|discriminate]. cbn [negb] in H.
  destruct (s_conn st id) as [[d v]|] eqn:Hc; [|discriminate].
  unfold bind in H.
  match type of H with match ?c with _ => _ end = _ => destruct c as [st2|] eqn:E2; [|discriminate] end.
  pose proof E2 as E2'. apply delete_synth_ok in E2'. destruct E2' as [_ [l0 [_ E2']]].
  apply (remove_staking_linv cfg st id l d v st2 I Hl Hc) in E2.
  destruct E2 as [I2 [C2 [S2 [K2 [Hd [He [Hdur [M2 [A2 [_ [_ [_ [_ [_ [N2 [T2 O2]]]]]]]]]]]]]]]].
  destruct (sf_osmo_tokens cfg st2 d (l_amt l)) as [amount|]; [|discriminate].
  apply force_undelegate_frame in H. destruct H as [E3 Em3]. pose proof E3 as E3'. fields E3'.
  split; [apply (linv_ext cfg st2); assumption|].
  exists l, d, v. repeat split; try congruence.
  - rewrite F5. apply O2. assumption.
  - rewrite F4, E2'. ssimpl. rewrite upd1_other by assumption. reflexivity.
Qed.

Lemma convert_trace : forall cfg st sender id v x env_ok st', wf_cfg cfg -> linv cfg st ->
  convert cfg st sender id v x env_ok = Ok st' ->
  exists st1 st2 st3 l3,
    (st1 = st \/ undelegate_common cfg st sender id = Ok st1) /\ linv cfg st1 /\
    (st2 = st1 \/ exists d0 v0, delete_synth st1 id Unstaking d0 v0 = Ok st2) /\ linv cfg st2 /\
    (st3 = st2 \/ exists n, begin_unlock st2 id None = Ok (st3, n)) /\ linv cfg st3 /\
    s_locks st3 id = Some l3 /\ l_end l3 <> 0 /\ external_delegate (del_lock st3 id) v x = Ok st' /\
    linv cfg st' /\ s_locks st' id = None /\ s_synths st' id = [] /\
    s_now st' = s_now st /\ (forall id', id' <> id -> s_synths st' id' = s_synths st id' /\ s_locks st' id' = s_locks st id').
Proof.
  intros cfg st sender id v x env_ok st' W I H. unfold convert, bind in H.
  (* the part before convertLockToStake *)
  assert (P1 : exists st1, (match synth_by_lock st id with
                            | Ok found => match (match found with
                                                 | Some y => match y_kind y with Staking => undelegate_common cfg st sender id | Unstaking => Ok st end
                                                 | None => Ok st end) with Ok a => Ok a | Err e => Err e end
                            | Err e => Err e end) = Ok st1 /\
               (st1 = st \/ undelegate_common cfg st sender id = Ok st1) /\
               linv cfg st1 /\ s_locks st1 = s_locks st /\ s_now st1 = s_now st /\ s_last st1 = s_last st /\
               (forall id', id' <> id -> s_synths st1 id' = s_synths st id') /\
               (s_synths st1 id = [] \/ exists y, s_synths st1 id = [y] /\ y_kind y = Unstaking)).
  { destruct (synth_by_lock_spec cfg st id _ I eq_refl) as [[Hs Er]|[y [Hs Er]]]; rewrite Er in *.
    - exists st. rsplit; auto.
    - destruct (y_kind y) eqn:Ek.
      + destruct (undelegate_common cfg st sender id) as [s1|] eqn:E1; [|discriminate]. pose proof E1 as E1c.
        apply (undelegate_common_linv cfg) in E1; [|assumption].
        destruct E1 as [I1 [l0 [d0 [v0 [_ [_ [_ [_ [_ [_ [_ [S1 [K1 [N1 [T1 [_ [_ O1]]]]]]]]]]]]]]]]].
        exists s1. rsplit; auto. intros id' N. apply O1. assumption.
      + exists st. rsplit; auto. right. exists y. auto. }
  destruct P1 as [st1 [E1 [J1 [I1 [K1 [N1 [T1 [O1 S1]]]]]]]].
  destruct (synth_by_lock st id) as [found|]; [|discriminate].
  match type of E1 with match ?c with _ => _ end = _ => destruct c as [s1|] eqn:E1'; [|discriminate] end.
  injection E1 as ->.
  destruct (s_locks st1 id) as [l|] eqn:Hl; [|discriminate].
  destruct (negb (l_owner l =? sender)); [discriminate|]. destruct (negb (existsb (Z.eqb (l_denom l)) (c_gamm cfg))); [discriminate|].
  (* ForceUnlock: drop the synthetic lock *)
  assert (P2 : exists st2, (match synth_by_lock st1 id with
                            | Ok found1 => match (match found1 with Some y => delete_synth st1 id (y_kind y) (y_denom y) (y_val y) | None => Ok st1 end)
                                           with Ok a => Ok a | Err e => Err e end
                            | Err e => Err e end) = Ok st2 /\
               (st2 = st1 \/ exists d0 v0, delete_synth st1 id Unstaking d0 v0 = Ok st2) /\
               linv cfg st2 /\ s_locks st2 = s_locks st1 /\ s_now st2 = s_now st1 /\ s_last st2 = s_last st1 /\ s_synths st2 id = [] /\
               (forall id', id' <> id -> s_synths st2 id' = s_synths st1 id')).
  { destruct S1 as [Hs|[y [Hs Hk]]].
    - unfold synth_by_lock. rewrite Hs. exists st1. rsplit; auto.
    - unfold synth_by_lock in *. rewrite Hs in *. rewrite Hk in *.
      destruct (delete_synth st1 id Unstaking (y_denom y) (y_val y)) as [s2|] eqn:E2; [|discriminate]. pose proof E2 as E2c.
      apply (remove_unstaking_linv cfg) in E2; [|assumption].
      destruct E2 as [I2 [S2 [C2 [K2 [_ [_ [_ [_ [_ [_ [_ [N2 [T2 [O2 _]]]]]]]]]]]]]].
      exists s2. rsplit; eauto. }
  destruct P2 as [st2 [E2 [J2 [I2 [K2 [N2 [T2 [S2 O2]]]]]]]].
  destruct (synth_by_lock st1 id) as [found1|]; [|discriminate].
  match type of E2 with match ?c with _ => _ end = _ => destruct c as [s2|] eqn:E2'; [|discriminate] end.
  injection E2 as ->.
  assert (Hl2 : s_locks st2 id = Some l) by (rewrite K2; assumption).
  pose proof (L_lock_wf _ _ I2 _ _ Hl2) as [_ [Wd We]]. pose proof (L_now _ _ I2) as Hn.
  (* begin unlocking if necessary, then release *)
  assert (P3 : exists st3 l3, (if l_end l =? 0 then match begin_unlock st2 id None with Ok r => Ok (fst r) | Err e => Err e end else Ok st2) = Ok st3 /\
               (st3 = st2 \/ exists n, begin_unlock st2 id None = Ok (st3, n)) /\
               linv cfg st3 /\ s_locks st3 id = Some l3 /\ l_end l3 <> 0 /\ s_synths st3 = s_synths st2 /\ s_now st3 = s_now st2 /\
               (forall id', id' <> id -> s_locks st3 id' = s_locks st2 id')).
  { destruct (Z.eqb_spec (l_end l) 0) as [He|Ne].
    - destruct (begin_unlock st2 id None) as [[s3 n3]|] eqn:E3; [|discriminate]. cbn [fst] in *. pose proof E3 as E3c.
      apply (begin_unlock_linv cfg) in E3; [|assumption|discriminate].
      destruct E3 as [l0 [Hl0 [_ [_ [I3 [N3 [S3 [_ [_ [_ [_ [_ [_ [_ [_ [_ Cases]]]]]]]]]]]]]]]].
      rewrite Hl2 in Hl0. injection Hl0 as <-.
      destruct Cases as [[_ [_ K3]]|[y [Ey _]]]; [|discriminate].
      exists s3. eexists. split; [reflexivity|]. split; [right; exists n3; reflexivity|]. split; [assumption|]. split; [rewrite K3, upd1_same; reflexivity|].
      split; [cbn; lia|]. split; [assumption|]. split; [assumption|]. intros id' N. rewrite K3. apply upd1_other. assumption.
    - exists st2, l. rsplit; auto. }
  destruct P3 as [st3 [l3 [E3 [J3 [I3 [Hl3 [Ne3 [S3 [N3 O3]]]]]]]]].
  match type of H with match ?c with _ => _ end = _ => destruct c as [s3|] eqn:E3'; [|discriminate] end.
  injection E3 as ->.
  destruct (negb env_ok); [discriminate|].
  pose proof (del_lock_linv cfg st3 id l3 I3 Hl3 Ne3) as I4. pose proof H as Hx.
  apply external_delegate_frame in H. destruct H as [Fr _]. pose proof Fr as Fr'. fields Fr'.
  exists st1, st2, st3, l3. rsplit; try assumption.
  apply (linv_ext cfg (del_lock st3 id)); assumption.
  all: rewrite ?F2, ?F4, ?F1; ssimpl; rewrite ?upd1_same; try reflexivity; try (rewrite S3; assumption); try congruence.
  intros id' N. split.
  - rewrite S3, O2, O1 by assumption. reflexivity.
  - rewrite upd1_other by assumption. rewrite O3, K2, K1 by assumption. reflexivity.
Qed.

Lemma convert_linv : forall cfg st sender id v x env_ok st', wf_cfg cfg -> linv cfg st ->
  convert cfg st sender id v x env_ok = Ok st' -> linv cfg st' /\ s_locks st' id = None /\ s_synths st' id = [] /\
  s_now st' = s_now st /\ (forall id', id' <> id -> s_synths st' id' = s_synths st id' /\ s_locks st' id' = s_locks st id').
Proof.
  intros cfg st sender id v x env_ok st' W I H. apply (convert_trace cfg) in H; try assumption.
  destruct H as [st1 [st2 [st3 [l3 [_ [_ [_ [_ [_ [_ [_ [_ [_ H]]]]]]]]]]]]]. exact H.
Qed.


(* ---- slashing preserves the structural invariant (fractions below 1) ---- *)
Lemma slash_lock_linv : forall cfg st id d v f, linv cfg st -> 0 <= f < P18 -> linv cfg (slash_lock st id d v f).
Proof.
  intros cfg st id d v f I Hf. unfold slash_lock.
  destruct (s_locks st id) as [l|] eqn:Hl; [|assumption].
  destruct (negb (l_denom l =? d)); [assumption|]. destruct (negb (existsb _ (s_synths st id))); [assumption|].
  set (s := d_truncate_int (d_mul (d_from_int (l_amt l)) f)).
  destruct ((s <=? 0) || (l_amt l <? s)) eqn:Es; [assumption|]. apply orb_false_iff in Es. destruct Es as [E1 E2].
  apply Z.leb_gt in E1. apply Z.ltb_ge in E2.
  pose proof (L_lock_wf _ _ I _ _ Hl) as [Wa [Wd We]].
  assert (Hlt : s < l_amt l).
  { (* trunc(round(amt * P18 * f / P18)) = trunc(amt * f) <= amt * f / P18 < amt *)
    unfold s, d_truncate_int, d_mul, d_from_int. pose proof P18_pos as HP.
    replace (l_amt l * P18 * f) with ((l_amt l * f) * P18) by ring.
    fold (rnd (l_amt l * f * P18)). rewrite rnd_exact by nia.
    apply Z.quot_lt_upper_bound; nia. }
  destruct (synth_by_lock_spec cfg st id _ I eq_refl) as [[Hs Er]|[y [Hs Er]]]; rewrite Er; [assumption|].
  pose proof (L_marker _ _ I id) as M. unfold marker in M. rewrite Hs in M. destruct M as [_ M].
  apply (put_lock_linv cfg st id l (mkLock (l_owner l) (l_denom l) (l_amt l - s) (l_dur l) (l_end l))); cbn; try assumption; try reflexivity; try lia.
  - rewrite Hs. destruct (y_kind y).
    + destruct M as [_ [_ [l0 [E0 [_ [E3 _]]]]]]. congruence.
    + destruct M as [_ [_ M3]]. destruct (M3 _ Hl) as [M4 _]. assumption.
  - intros d0 v0. unfold delta_for. destruct (y_kind y).
    + destruct M as [Hc _]. rewrite Hc. destruct (pair_eqb (y_denom y, y_val y) (d0, v0)) eqn:E.
      * apply pair_eqb_eq in E. injection E as <- <-. rewrite upd3_same. lia.
      * apply pair_eqb_neq in E. rewrite upd3_other_key by congruence. lia.
    + destruct M as [Hc _]. rewrite Hc. rewrite upd3_other_kind by discriminate. lia.
Qed.

Lemma slash_account_linv : forall cfg st k f, linv cfg st -> 0 <= f < P18 -> linv cfg (slash_account st k f).
Proof.
  intros cfg st k f I Hf. unfold slash_account. destruct (negb (mem_pair k (s_accs st))); [assumption|].
  generalize (ids_upto (s_last st)). intros ids. revert st I. induction ids as [|id r IH]; intros st I; cbn [fold_left]; [assumption|].
  apply IH. apply slash_lock_linv; assumption.
Qed.

(* effective fraction handed to the superfluid hook: below 1 when the slash fraction is at most 1/2 *)
Lemma eff_fraction_bound : forall T f, 0 < T -> 0 <= 2 * f <= P18 ->
  let power := Z.quot T power_reduction in
  let slash_amount := d_truncate_int (d_mul (d_from_int (power * power_reduction)) f) in
  let burn := Z.max 0 (Z.min slash_amount T) in
  0 <= Z.min P18 (d_quo_round_up (d_from_int burn) (d_from_int T)) < P18.
Proof.
  intros T f HT Hf power slash_amount burn. pose proof P18_pos as HP.
  assert (Hpow : 0 <= power * power_reduction <= T).
  { unfold power, power_reduction. pose proof (Z.quot_pos T 1000000 ltac:(lia) ltac:(lia)).
    pose proof (Z.mul_quot_le T 1000000 ltac:(lia) ltac:(lia)). lia. }
  assert (Hsa : 0 <= slash_amount /\ 2 * slash_amount <= T).
  { unfold slash_amount, d_truncate_int, d_mul, d_from_int.
    replace (power * power_reduction * P18 * f) with ((power * power_reduction * f) * P18) by ring.
    fold (rnd (power * power_reduction * f * P18)). rewrite rnd_exact by nia.
    set (x := power * power_reduction * f). assert (0 <= x) by (unfold x; nia).
    pose proof (Z.quot_pos x P18 ltac:(lia) ltac:(lia)). pose proof (Z.mul_quot_le x P18 ltac:(lia) ltac:(lia)).
    split; [assumption|]. assert (2 * x <= T * P18) by (unfold x; nia). nia. }
  assert (Hb : 0 <= burn /\ 2 * burn <= T) by (unfold burn; lia).
  unfold d_quo_round_up, d_from_int. clearbody burn. clear slash_amount Hsa power Hpow.
  set (m := burn * P18 * P18). set (dv := T * P18).
  assert (Hm : 0 <= m) by (unfold m; nia). assert (Hdv : 0 < dv) by (unfold dv; nia).
  pose proof (Z.quot_rem' m dv) as QR. pose proof (Z.rem_bound_pos m dv Hm Hdv) as RB.
  pose proof (Z.quot_pos m dv Hm Hdv) as QP.
  set (q := Z.quot m dv) in *. set (rr := Z.rem m dv) in *.
  assert (Hq : 2 * q <= P18).
  { assert (2 * m <= dv * P18) by (unfold m, dv; nia). nia. }
  assert (HP2 : 4 <= P18) by (vm_compute; discriminate).
  destruct (((0 <? rr) && _) || _); lia.
Qed.

Lemma slash_linv : forall cfg st order v f st', linv cfg st -> 0 <= 2 * f <= P18 -> slash st order v f = Ok st' -> linv cfg st'.
Proof.
  intros cfg st order v f st' I Hf H. unfold slash in H.
  destruct (s_vals st v) as [val|]; [|injection H as <-; assumption].
  destruct (f <? 0); [discriminate|].
  match type of H with (if ?c then _ else _) = _ => destruct c; [injection H as <-; assumption|] end.
  injection H as <-.
  match goal with |- linv cfg (set_bank (set_vals ?s _) _ _ _) => assert (I1 : linv cfg s); [|apply (linv_ext cfg s); [reflexivity|assumption]] end.
  destruct (Z.ltb_spec 0 (v_tokens val)) as [HT|HT]; [|assumption].
  pose proof (eff_fraction_bound (v_tokens val) f HT Hf) as He. cbv zeta in He.
  match goal with |- linv cfg (if ?e =? 0 then _ else _) => destruct (e =? 0); [assumption|] end.
  match goal with |- linv cfg (fold_left _ ?l st) => generalize l end. intros accs. revert st I.
  induction accs as [|k r IH]; intros st I; cbn [fold_left]; [assumption|]. apply IH.
  apply slash_account_linv; assumption.
Qed.

(* ---- every operation preserves the invariant ---- *)
Theorem step_linv : forall cfg st o st' nid,
  wf_cfg cfg -> linv cfg st -> step cfg st o = Ok (st', nid) -> linv cfg st'.
Proof.
  intros cfg st o st' nid W I H. destruct o; cbn [step] in H; unfold bind in H.
  - (* OLock *)
    destruct ((amt <=? 0) || (dur <? 0)) eqn:E; [discriminate|]. apply orb_false_iff in E. destruct E as [E1 E2].
    apply Z.leb_gt in E1. apply Z.ltb_ge in E2. injection H as <- _.
    apply new_lock_linv; cbn; try assumption; lia.
  - (* OTopUp *)
    destruct (add_tokens_to_lock cfg st owner id amt) as [s|] eqn:E; [|discriminate]. injection H as <- _.
    eapply add_tokens_linv; eassumption.
  - (* OLockTokens *) eapply lock_tokens_linv; eassumption.
  - (* OLockAndDelegate *)
    unfold lock_and_delegate, bind in H. destruct (lock_tokens cfg st owner denom amt (c_unb cfg)) as [[s1 i1]|] eqn:E1; [|discriminate].
    cbn [fst snd] in H. destruct (superfluid_delegate cfg s1 owner i1 v) as [s|] eqn:E; [|discriminate]. injection H as <- _.
    apply (lock_tokens_linv cfg) in E1; [|assumption]. eapply superfluid_delegate_linv; eassumption.
  - (* OCreateAndDelegate *)
    unfold create_and_delegate, bind in H. destruct (Z.leb_spec amt 0); [discriminate|].
    match type of H with match ?c with _ => _ end = _ => destruct c as [s|] eqn:E; [|discriminate] end. injection H as <- _.
    apply (superfluid_delegate_linv cfg) in E; [tauto|]. apply new_lock_linv; cbn; try assumption; try lia. apply W.
  - (* ODelegate *)
    destruct (superfluid_delegate cfg st sender id v) as [s|] eqn:E; [|discriminate]. injection H as <- _.
    eapply superfluid_delegate_linv; eassumption.
  - (* OUndelegate *)
    destruct (superfluid_undelegate cfg st sender id) as [s|] eqn:E; [|discriminate]. injection H as <- _.
    eapply superfluid_undelegate_linv; eassumption.
  - (* OUnbondLock *)
    destruct (unbond_lock st id sender None) as [[s n]|] eqn:E; [|discriminate]. injection H as <- _. cbn [fst].
    apply (unbond_lock_linv cfg) in E; [|assumption|discriminate].
    destruct E as [l [y [Hl [_ [_ [Hc [_ E]]]]]]].
    apply (begin_unlock_core_linv cfg) in E; try assumption; [tauto|discriminate].
  - (* OUndelegateAndUnbond *)
    unfold superfluid_undelegate_and_unbond in H.
    destruct (s_locks st id) as [l|] eqn:Hl; [|discriminate].
    destruct (Z.ltb_spec amt 0); [discriminate|]. destruct (Z.eqb_spec amt 0); [discriminate|].
    destruct (Z.ltb_spec (l_amt l) amt); [discriminate|].
    destruct (s_conn st id) as [[d v]|] eqn:Hc; [|discriminate].
    unfold bind in H.
    destruct (superfluid_undelegate cfg st sender id) as [st1|] eqn:E1; [|discriminate].
    apply (superfluid_undelegate_linv cfg) in E1; try assumption.
    destruct E1 as [I1 [l0 [d0 [v0 [Hl0 [Hc0 [Hd0 [Ho0 [He0 [Hdur0 [C1 [S1 [K1 [N1 [T1 [M1 [A1 O1]]]]]]]]]]]]]]]]].
    rewrite Hl in Hl0. injection Hl0 as <-. rewrite Hc in Hc0. injection Hc0 as <- <-.
    destruct (unbond_lock st1 id sender (Some amt)) as [[st2 n2]|] eqn:E2; [|discriminate].
    apply (unbond_lock_linv cfg) in E2; [|assumption|intros x Ex; injection Ex as <-; lia].
    destruct E2 as [l1 [y1 [Hl1 [Hs1 [_ [_ [_ E2]]]]]]]. rewrite K1, Hl in Hl1. injection Hl1 as <-.
    apply (begin_unlock_core_linv cfg) in E2; try assumption; [|congruence|intros x Ex; injection Ex as <-; lia].
    destruct E2 as [I2 [N2 [S2 [C2 [A2 [M2 [_ [_ [_ [_ [_ [U2 Cases]]]]]]]]]]]].
    destruct (Z.eqb_spec (l_amt l) amt) as [Ea|Na].
    + destruct (n2 =? id); [|discriminate]. injection H as <- _. assumption.
    + destruct (Z.eqb_spec n2 id) as [|Nn]; [discriminate|].
      destruct Cases as [[Hn _]|[x [Ex [Hx [Hn [T2 [_ K2]]]]]]]; [contradiction|]. injection Ex as <-.
      destruct (delete_synth st2 id Unstaking (l_denom l) v) as [st3|] eqn:E3; [|discriminate].
      apply (remove_unstaking_linv cfg) in E3; [|assumption].
      destruct E3 as [I3 [S3 [C3 [K3 [M3 [_ [_ [_ [_ [_ [A3 [N3 [T3 [O3 _]]]]]]]]]]]]]].
      destruct (superfluid_delegate cfg st3 sender id v) as [st4|] eqn:E4; [|discriminate].
      apply (superfluid_delegate_linv cfg) in E4; [|assumption].
      destruct E4 as [I4 [l4 [Hl4 [_ [_ [_ [_ [C4 [K4 [N4 [T4 [M4 [_ [O4 _]]]]]]]]]]]]]].
      destruct (create_synth cfg st4 n2 Unstaking d v) as [st5|] eqn:E5; [|discriminate]. injection H as <- _.
      assert (Hl5 : s_locks st4 n2 = Some (mkLock (l_owner l) (l_denom l) amt (l_dur l) (s_now st1 + l_dur l))).
      { rewrite K4, K3, K2, Hn. rewrite upd1_same. reflexivity. }
      apply (add_unstaking_linv cfg st4 n2 _ d v st5 I4 W Hl5) in E5.
      * tauto.
      * destruct (O4 n2 Nn) as [O4c _]. rewrite O4c, C3, C2.
        pose proof (fresh_id cfg st1 n2 I1 ltac:(lia)) as [_ [_ Fc]]. assumption.
      * right. cbn. rewrite N4, N3, N2. lia.
  - (* OBeginUnlock *)
    destruct (s_locks st id) as [l|] eqn:Hl; [|discriminate].
    destruct (Z.eqb_spec (l_owner l) sender); [|discriminate]. cbn [negb] in H.
    destruct (begin_unlock st id None) as [[s n]|] eqn:E; [|discriminate]. injection H as <- _. cbn [fst].
    apply (begin_unlock_linv cfg) in E; [|assumption|discriminate]. destruct E as [l0 [_ [_ [_ [I' _]]]]]. assumption.
  - (* OBeginUnlockPartial *)
    destruct (s_locks st id) as [l|] eqn:Hl; [|discriminate].
    destruct (Z.eqb_spec (l_owner l) sender); [|discriminate]. cbn [negb] in H.
    destruct (Z.leb_spec amt 0); [discriminate|].
    apply (begin_unlock_linv cfg) in H; [|assumption|intros x Ex; injection Ex as <-; assumption].
    destruct H as [l0 [_ [_ [_ [I' _]]]]]. assumption.
  - (* OBeginUnlockAll *)
    destruct (begin_unlock_all st owner (ids_upto (s_last st))) as [s|] eqn:E; [|discriminate]. injection H as <- _.
    apply (begin_unlock_all_linv cfg) in E; [tauto|assumption].
  - (* OForceUnlock *)
    destruct (force_unlock cfg st sender id) as [s|] eqn:E; [|discriminate]. injection H as <- _.
    apply (force_unlock_linv cfg) in E; [tauto|assumption].
  - (* OConvert *)
    destruct (convert cfg st sender id v x env_ok) as [s|] eqn:E; [|discriminate]. injection H as <- _.
    apply (convert_linv cfg) in E; [tauto|assumption|assumption].
  - (* OWithdraw *)
    unfold unlock_matured_lock in H. destruct (s_locks st id) as [l|] eqn:Hl; [|discriminate].
    destruct (Z.eqb_spec (l_end l) 0); [discriminate|]. destruct (s_now st <? l_end l); [discriminate|].
    injection H as <- _. eapply del_lock_linv; eassumption.
  - (* OAdvance *)
    destruct (Z.ltb_spec dt 0); [discriminate|]. injection H as <- _. apply advance_linv; assumption.
  - (* OCleanup *)
    destruct (delete_matured_synths st (ids_upto (s_last st))) as [st1|] eqn:E; [|discriminate]. injection H as <- _.
    apply (delete_matured_synths_linv cfg) in E; [|assumption]. apply withdraw_matured_linv. tauto.
  - (* OEpoch *)
    unfold epoch, bind in H. destruct (set_mults st ins) as [st1|] eqn:E1; [|discriminate].
    destruct (refresh_list cfg st1 (refresh_order st1 order)) as [st2|] eqn:E2; [|discriminate]. injection H as <- _.
    apply set_mults_frame in E1. destruct E1 as [E1 _]. apply refresh_list_frame in E2. destruct E2 as [E2 _].
    apply (linv_ext cfg st1); [assumption|]. apply (linv_ext cfg st); assumption.
Qed.
