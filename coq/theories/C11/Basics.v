(* C11/Basics.v - bookkeeping lemmas used by the invariant proofs: finite-map updates, sums over the
   lock ids issued so far, frame properties of the staking/bank functions. *)
From Coq Require Import ZArith List Bool Lia.
Import ListNotations.
From Osmo Require Import Base.DecModel C11.Model C11.Arith.
Open Scope Z_scope.

(* ---- simplification of projections of setters ---- *)
Ltac ssimpl :=
  cbn [s_now s_locks s_last s_synths s_conn s_accs s_deleg s_vals s_mult s_accum s_supply s_offset s_bonded
       set_now set_locks set_last set_synths set_conn set_accs set_deleg set_vals set_mult set_accum set_bank
       put_lock del_lock fst snd] in *.

Lemma upd1_same : forall A (f : Z -> A) k x, upd1 f k x k = x.
Proof. intros. unfold upd1. rewrite Z.eqb_refl. reflexivity. Qed.
Lemma upd1_other : forall A (f : Z -> A) k x k', k' <> k -> upd1 f k x k' = f k'.
Proof. intros. unfold upd1. destruct (Z.eqb_spec k' k); [contradiction|reflexivity]. Qed.
Lemma upd2_same : forall A (f : Z -> Z -> A) a b x, upd2 f a b x a b = x.
Proof. intros. unfold upd2. rewrite !Z.eqb_refl. reflexivity. Qed.
Lemma upd2_other : forall A (f : Z -> Z -> A) a b x a' b', (a', b') <> (a, b) -> upd2 f a b x a' b' = f a' b'.
Proof.
  intros. unfold upd2. destruct (Z.eqb_spec a' a), (Z.eqb_spec b' b); cbn; try reflexivity.
  subst. contradiction.
Qed.
Lemma skind_eqb_refl : forall k, skind_eqb k k = true. Proof. destruct k; reflexivity. Qed.
Lemma skind_eqb_eq : forall a b, skind_eqb a b = true <-> a = b.
Proof. destruct a, b; cbn; split; congruence. Qed.
Lemma upd3_same : forall f k a b x, upd3 f k a b x k a b = x.
Proof. intros. unfold upd3. rewrite skind_eqb_refl, !Z.eqb_refl. reflexivity. Qed.
Lemma upd3_other_kind : forall f k a b x k' a' b', k' <> k -> upd3 f k a b x k' a' b' = f k' a' b'.
Proof.
  intros. unfold upd3. destruct (skind_eqb k' k) eqn:E; [apply skind_eqb_eq in E; contradiction|reflexivity].
Qed.
Lemma upd3_other_key : forall f k a b x k' a' b', (a', b') <> (a, b) -> upd3 f k a b x k' a' b' = f k' a' b'.
Proof.
  intros. unfold upd3. destruct (skind_eqb k' k), (Z.eqb_spec a' a), (Z.eqb_spec b' b); cbn; try reflexivity.
  subst. contradiction.
Qed.

Lemma pair_eqb_eq : forall a b, pair_eqb a b = true <-> a = b.
Proof.
  intros [a1 a2] [b1 b2]. unfold pair_eqb. cbn. rewrite andb_true_iff, !Z.eqb_eq. split; [intros [-> ->]; reflexivity|].
  intros E; inversion E; auto.
Qed.
Lemma pair_eqb_refl : forall a, pair_eqb a a = true. Proof. intros; apply pair_eqb_eq; reflexivity. Qed.
Lemma pair_eqb_neq : forall a b, pair_eqb a b = false <-> a <> b.
Proof. intros. rewrite <- pair_eqb_eq. destruct (pair_eqb a b); split; congruence. Qed.
Lemma mem_pair_In : forall k l, mem_pair k l = true <-> In k l.
Proof.
  intros k l. unfold mem_pair. rewrite existsb_exists. split.
  - intros [x [Hx E]]. apply pair_eqb_eq in E. subst. assumption.
  - intros H. exists k. split; [assumption|apply pair_eqb_refl].
Qed.
Lemma mem_pair_false : forall k l, mem_pair k l = false <-> ~ In k l.
Proof. intros. rewrite <- mem_pair_In. destruct (mem_pair k l); split; congruence. Qed.

(* ---- ids_upto and sums ---- *)
Lemma ids_upto_In : forall n id, In id (ids_upto n) <-> 1 <= id <= n.
Proof.
  intros n id. unfold ids_upto. rewrite in_map_iff. split.
  - intros [k [<- Hk]]. apply in_seq in Hk. lia.
  - intros H. exists (Z.to_nat id). split; [lia|]. apply in_seq. lia.
Qed.
Lemma ids_upto_NoDup : forall n, NoDup (ids_upto n).
Proof.
  intros. unfold ids_upto. generalize (seq_NoDup (Z.to_nat n) 1). generalize (seq 1 (Z.to_nat n)).
  induction 1 as [|a l Ha ND IH]; cbn [map]; constructor; [|assumption].
  rewrite in_map_iff. intros [b [E Hb]]. apply Nat2Z.inj in E. subst. contradiction.
Qed.
Lemma ids_upto_succ : forall n, 0 <= n -> ids_upto (n + 1) = ids_upto n ++ [n + 1].
Proof.
  intros n Hn. unfold ids_upto. replace (Z.to_nat (n + 1)) with (S (Z.to_nat n)) by lia.
  rewrite seq_S, map_app. cbn [map]. f_equal. f_equal. lia.
Qed.

Lemma zsum_app : forall a b, zsum (a ++ b) = zsum a + zsum b.
Proof. induction a; intros; cbn [app zsum]; [reflexivity|rewrite IHa; lia]. Qed.
Lemma zsum_map_ext : forall (f g : Z -> Z) l, (forall x, In x l -> f x = g x) -> zsum (map f l) = zsum (map g l).
Proof.
  induction l as [|a r IH]; intros H; cbn [map zsum]; [reflexivity|].
  rewrite (H a (or_introl eq_refl)), IH; [reflexivity|]. intros; apply H; right; assumption.
Qed.
Lemma zsum_map_upd : forall (f g : Z -> Z) l i, NoDup l -> In i l -> (forall x, x <> i -> g x = f x) ->
  zsum (map g l) = zsum (map f l) - f i + g i.
Proof.
  induction l as [|a r IH]; intros i ND Hi Hg; [contradiction|].
  inversion ND as [|? ? Hna ND']; subst. cbn [map zsum]. destruct Hi as [->|Hi].
  - rewrite (zsum_map_ext g f r); [lia|]. intros x Hx. apply Hg. intros ->. contradiction.
  - rewrite (IH i ND' Hi Hg). rewrite (Hg a); [lia|]. intros ->. contradiction.
Qed.
Lemma zsum_map_nonneg : forall (f : Z -> Z) l, (forall x, In x l -> 0 <= f x) -> 0 <= zsum (map f l).
Proof.
  induction l as [|a r IH]; intros H; cbn [map zsum]; [lia|].
  pose proof (H a (or_introl eq_refl)). assert (0 <= zsum (map f r)) by (apply IH; intros; apply H; right; assumption). lia.
Qed.
Lemma zsum_map_le : forall (f : Z -> Z) l i, (forall x, In x l -> 0 <= f x) -> In i l -> f i <= zsum (map f l).
Proof.
  induction l as [|a r IH]; intros i H Hi; [contradiction|]. cbn [map zsum].
  assert (0 <= zsum (map f r)) by (apply zsum_map_nonneg; intros; apply H; right; assumption).
  pose proof (H a (or_introl eq_refl)).
  destruct Hi as [->|Hi]; [lia|]. specialize (IH i (fun x Hx => H x (or_intror Hx)) Hi). lia.
Qed.

(* ---- the lockup / superfluid part of the state, untouched by the staking and bank functions ---- *)
Definition lproj (st : state) :=
  (s_now st, s_locks st, s_last st, s_synths st, s_conn st, s_accs st, s_accum st).

Lemma lproj_fields : forall a b, lproj a = lproj b ->
  s_now a = s_now b /\ s_locks a = s_locks b /\ s_last a = s_last b /\ s_synths a = s_synths b /\
  s_conn a = s_conn b /\ s_accs a = s_accs b /\ s_accum a = s_accum b.
Proof. intros a b H. unfold lproj in H. inversion H. repeat split; assumption. Qed.

Ltac inv_ok H := first [ discriminate H | injection H as H; try subst ].

Lemma staking_delegate_frame : forall st d v val a st',
  staking_delegate st d v val a = Ok st' -> lproj st' = lproj st /\ s_mult st' = s_mult st.
Proof.
  intros st d v val a st' H. unfold staking_delegate in H.
  destruct ((v_tokens val =? 0) && (0 <? v_shares val)); [discriminate|]. injection H as <-. split; reflexivity.
Qed.

Lemma mint_and_delegate_frame : forall st d v a st',
  mint_and_delegate st d v a = Ok st' -> lproj st' = lproj st /\ s_mult st' = s_mult st.
Proof.
  intros st d v a st' H. unfold mint_and_delegate in H.
  destruct (s_vals st v); [|discriminate]. destruct (a <=? 0); [discriminate|].
  apply staking_delegate_frame in H. exact H.
Qed.

Lemma force_undelegate_frame : forall st d v a st',
  force_undelegate_and_burn st d v a = Ok st' -> lproj st' = lproj st /\ s_mult st' = s_mult st.
Proof.
  intros st d v a st' H. unfold force_undelegate_and_burn in H.
  destruct (s_vals st v) as [val|]; [|discriminate].
  destruct (s_deleg st d v) as [dsh|]; [|injection H as <-; split; reflexivity].
  destruct (v_tokens val =? 0); [discriminate|].
  match type of H with (if ?c then _ else _) = _ => destruct c; [discriminate|] end.
  match type of H with (if ?c then _ else _) = _ => destruct c; [discriminate|] end.
  unfold bind in H.
  match type of H with match ?x with _ => _ end = _ => destruct x as [[issued tk]|]; [|discriminate] end.
  injection H as <-. split; reflexivity.
Qed.

Lemma increase_sf_frame : forall cfg st id l a,
  lproj (increase_sf_delegation cfg st id l a) = lproj st /\ s_mult (increase_sf_delegation cfg st id l a) = s_mult st.
Proof.
  intros. unfold increase_sf_delegation.
  destruct (s_conn st id) as [[d v]|]; [|split; reflexivity].
  destruct (sf_osmo_tokens cfg st d _) as [osmo|]; [|split; reflexivity].
  destruct (osmo =? 0); [split; reflexivity|].
  destruct (mint_and_delegate st d v osmo) eqn:E; [|split; reflexivity].
  apply mint_and_delegate_frame in E. exact E.
Qed.

Lemma refresh_one_frame : forall cfg st k st',
  refresh_one cfg st k = Ok st' -> lproj st' = lproj st /\ s_mult st' = s_mult st.
Proof.
  intros cfg st [d v] st' H. unfold refresh_one in H.
  destruct (negb (mem_pair (d, v) (s_accs st))); [injection H as <-; split; reflexivity|].
  destruct (s_vals st v); [|injection H as <-; split; reflexivity].
  unfold bind in H. destruct (delegation_tokens st d v) as [cur|]; [|discriminate].
  destruct (expected_delegation cfg st d v) as [refreshed|]; [|discriminate].
  destruct (cur <? refreshed).
  - destruct (mint_and_delegate st d v (refreshed - cur)) eqn:E; injection H as <-; [|split; reflexivity].
    apply mint_and_delegate_frame in E. exact E.
  - destruct (refreshed <? cur); [|injection H as <-; split; reflexivity].
    destruct (force_undelegate_and_burn st d v (cur - refreshed)) eqn:E; injection H as <-; [|split; reflexivity].
    apply force_undelegate_frame in E. exact E.
Qed.

Lemma refresh_list_frame : forall cfg ks st st',
  refresh_list cfg st ks = Ok st' -> lproj st' = lproj st /\ s_mult st' = s_mult st.
Proof.
  induction ks as [|k r IH]; intros st st' H; cbn [refresh_list] in H.
  - injection H as <-. split; reflexivity.
  - unfold bind in H. destruct (refresh_one cfg st k) as [st1|] eqn:E; [|discriminate].
    apply refresh_one_frame in E. apply IH in H. destruct E as [E1 E2], H as [H1 H2]. split; congruence.
Qed.

Lemma set_mults_frame : forall ins st st', set_mults st ins = Ok st' ->
  lproj st' = lproj st /\ s_deleg st' = s_deleg st /\ s_vals st' = s_vals st /\
  s_supply st' = s_supply st /\ s_offset st' = s_offset st /\ s_bonded st' = s_bonded st.
Proof.
  induction ins as [|[d i] r IH]; intros st st' H; cbn [set_mults] in H.
  - injection H as <-. repeat split; reflexivity.
  - unfold bind in H. destruct (multiplier_of i) as [m|]; [|discriminate].
    apply IH in H. ssimpl. exact H.
Qed.
