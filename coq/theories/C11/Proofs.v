(* C11/Proofs.v - statements over whole histories: the invariants hold in every reachable state; markers;
   a delegated lock cannot start unlocking; an undelegating lock cannot be withdrawn before maturity. *)
From Coq Require Import ZArith List Bool Lia.
Import ListNotations.
From Osmo Require Import Base.DecModel C11.Model C11.Arith C11.Basics C11.LInv C11.LStep C11.Supply.
Open Scope Z_scope.

(* ---- histories ---- *)
Lemma next_cases : forall cfg st o,
  (exists st' n, step cfg st o = Ok (st', n) /\ next cfg st o = st') \/ (exists e, step cfg st o = Err e /\ next cfg st o = st).
Proof.
  intros. unfold next, apply. destruct (step cfg st o) as [[st' n]|e]; [left; exists st', n|right; exists e]; split; reflexivity.
Qed.

Lemma run_app : forall cfg st a b, run cfg st (a ++ b) = run cfg (run cfg st a) b.
Proof. intros. unfold run. apply fold_left_app. Qed.

Lemma run_ind : forall cfg (P : state -> Prop), (forall st o, P st -> P (next cfg st o)) ->
  forall ops st, P st -> P (run cfg st ops).
Proof. intros cfg P Hs. induction ops as [|o r IH]; intros st H; cbn; [assumption|]. apply IH. apply Hs. assumption. Qed.

Lemma init_linv : forall cfg t0 vals mults sup off bnd, 0 < t0 -> linv cfg (init_state t0 vals mults sup off bnd).
Proof.
  intros. constructor; cbn; try lia; try discriminate; try reflexivity.
  intros id H0. contradiction.
Qed.

Lemma next_linv : forall cfg st o, wf_cfg cfg -> linv cfg st -> linv cfg (next cfg st o).
Proof.
  intros cfg st o W I. destruct (next_cases cfg st o) as [[st' [n [E ->]]]|[e [_ ->]]]; [|assumption].
  eapply step_linv; eassumption.
Qed.

Lemma run_linv : forall cfg ops st, wf_cfg cfg -> linv cfg st -> linv cfg (run cfg st ops).
Proof. intros cfg ops st W. apply run_ind. intros; apply next_linv; assumption. Qed.

(* reachable states: any history from an initial state (no locks, no accounts; any validators, multipliers, supply), in which
   validators may also be slashed (by fractions up to 1/2) at any point *)
Definition eop_ok (e : eop) : Prop := match e with EOp _ => True | ESlash _ _ f => 0 <= 2 * f <= P18 end.
Definition reachable (cfg : config) (st : state) : Prop :=
  exists t0 vals mults sup off bnd es, 0 < t0 /\ Forall eop_ok es /\ st = erun cfg (init_state t0 vals mults sup off bnd) es.

Lemma enext_linv : forall cfg st e, wf_cfg cfg -> eop_ok e -> linv cfg st -> linv cfg (enext cfg st e).
Proof.
  intros cfg st e W He I. destruct e as [o|order v f]; unfold enext, eapply.
  - apply next_linv; assumption.
  - destruct (slash st order v f) as [st'|x] eqn:E; cbn [fst]; [|assumption]. eapply slash_linv; eassumption.
Qed.

Lemma erun_linv : forall cfg es st, wf_cfg cfg -> Forall eop_ok es -> linv cfg st -> linv cfg (erun cfg st es).
Proof.
  intros cfg. induction es as [|e r IH]; intros st W Hf I; [assumption|]. inversion Hf; subst.
  change (erun cfg st (e :: r)) with (erun cfg (enext cfg st e) r). apply IH; try assumption. apply enext_linv; assumption.
Qed.

Lemma erun_map_EOp : forall cfg ops st, erun cfg st (map EOp ops) = run cfg st ops.
Proof. intros cfg. induction ops as [|o r IH]; intros st; [reflexivity|]. cbn [map]. apply IH. Qed.

Lemma run_reachable : forall cfg t0 vals mults sup off bnd ops, 0 < t0 ->
  reachable cfg (run cfg (init_state t0 vals mults sup off bnd) ops).
Proof.
  intros. exists t0, vals, mults, sup, off, bnd, (map EOp ops). split; [assumption|]. split.
  - apply Forall_forall. intros e He. apply in_map_iff in He. destruct He as [o [<- _]]. exact Logic.I.
  - symmetry. apply erun_map_EOp.
Qed.

Lemma reachable_linv : forall cfg st, wf_cfg cfg -> reachable cfg st -> linv cfg st.
Proof.
  intros cfg st W [t0 [vals [mults [sup [off [bnd [es [H [Hf ->]]]]]]]]]. apply erun_linv; try assumption. apply init_linv. assumption.
Qed.

(* ---- supply ---- *)
Lemma next_tot : forall cfg st o, tot (next cfg st o) = tot st.
Proof.
  intros. destruct (next_cases cfg st o) as [[st' [n [E ->]]]|[e [_ ->]]]; [|reflexivity]. eapply step_tot; eassumption.
Qed.
Lemma run_tot : forall cfg ops st, tot (run cfg st ops) = tot st.
Proof.
  intros cfg. induction ops as [|o r IH]; intros st; [reflexivity|].
  change (run cfg st (o :: r)) with (run cfg (next cfg st o) r). rewrite IH. apply next_tot.
Qed.

(* ---- markers ---- *)
Lemma marker_delegated_iff : forall cfg st id d v, linv cfg st ->
  (s_conn st id = Some (d, v) <-> s_synths st id = [mkSynth Staking d v 0 (c_unb cfg)]).
Proof.
  intros cfg st id d v I. split.
  - intros H. apply (conn_marker _ _ _ _ _ I H).
  - intros H. pose proof (L_marker _ _ I id) as M. unfold marker in M. rewrite H in M. cbn in M. tauto.
Qed.

Lemma marker_at_most_one : forall cfg st id, linv cfg st -> (length (s_synths st id) <= 1)%nat.
Proof.
  intros cfg st id I. pose proof (L_marker _ _ I id) as M. unfold marker in M.
  destruct (s_synths st id) as [|y [|]]; cbn; try lia; contradiction.
Qed.

Lemma marker_kinds : forall cfg st id y, linv cfg st -> In y (s_synths st id) ->
  s_synths st id = [y] /\ y_dur y = c_unb cfg /\
  match y_kind y with
  | Staking => s_conn st id = Some (y_denom y, y_val y) /\ y_end y = 0
  | Unstaking => s_conn st id = None /\ 0 < y_end y <= s_now st + c_unb cfg
  end.
Proof.
  intros cfg st id y I H. pose proof (L_marker _ _ I id) as M. unfold marker in M.
  destruct (s_synths st id) as [|y0 [|]]; [contradiction| |contradiction].
  destruct H as [<-|[]]. split; [reflexivity|]. destruct M as [Hd M]. split; [assumption|].
  destruct (y_kind y0); tauto.
Qed.

(* undelegation puts the unstaking marker, ending exactly one unbonding period later *)
Lemma undelegate_marks : forall cfg st sender id st' n, wf_cfg cfg -> linv cfg st ->
  step cfg st (OUndelegate sender id) = Ok (st', n) ->
  exists d v, s_conn st id = Some (d, v) /\ s_conn st' id = None /\
    s_synths st' id = [mkSynth Unstaking d v (s_now st + c_unb cfg) (c_unb cfg)].
Proof.
  intros cfg st sender id st' n W I H. cbn [step] in H. unfold bind in H.
  destruct (superfluid_undelegate cfg st sender id) as [s|] eqn:E; [|discriminate]. injection H as <- _.
  apply (superfluid_undelegate_linv cfg) in E; try assumption.
  destruct E as [_ [l [d [v [_ [Hc [_ [_ [_ [_ [C1 [S1 _]]]]]]]]]]]]. exists d, v. auto.
Qed.

Lemma undelegate_and_unbond_marks : forall cfg st sender id amt st' n, wf_cfg cfg -> linv cfg st ->
  step cfg st (OUndelegateAndUnbond sender id amt) = Ok (st', n) ->
  exists d v, s_conn st id = Some (d, v) /\ s_conn st' n = None /\
    s_synths st' n = [mkSynth Unstaking d v (s_now st + c_unb cfg) (c_unb cfg)] /\
    exists l, s_locks st' n = Some l /\ l_end l = s_now st + l_dur l.
Proof.
  intros cfg st sender id amt st' n W I H. cbn [step] in H.
  unfold superfluid_undelegate_and_unbond in H.
  destruct (s_locks st id) as [l|] eqn:Hl; [|discriminate].
  destruct (Z.ltb_spec amt 0); [discriminate|]. destruct (Z.eqb_spec amt 0); [discriminate|].
  destruct (Z.ltb_spec (l_amt l) amt); [discriminate|].
  destruct (s_conn st id) as [[d v]|] eqn:Hc; [|discriminate].
  unfold bind in H.
  destruct (superfluid_undelegate cfg st sender id) as [st1|] eqn:E1; [|discriminate].
  apply (superfluid_undelegate_linv cfg) in E1; try assumption.
  destruct E1 as [I1 [l0 [d0 [v0 [Hl0 [Hc0 [Hd0 [Ho0 [He0 [Hdur0 [C1 [S1 [K1 [N1 [T1 [M1 [A1 O1]]]]]]]]]]]]]]]]].
  rewrite Hl in Hl0. injection Hl0 as <-. rewrite Hc in Hc0. injection Hc0 as <- <-.
  destruct (unbond_lock st1 id sender (Some amt)) as [[st2 n2]|] eqn:E2; [|discriminate].
  apply (unbond_lock_linv cfg) in E2; [|assumption|intros x Ex; injection Ex as <-; lia].
  destruct E2 as [l1 [y1 [Hl1 [Hs1 [_ [_ [_ E2]]]]]]]. rewrite K1, Hl in Hl1. injection Hl1 as <-.
  apply (begin_unlock_core_linv cfg) in E2; try assumption; [|congruence|intros x Ex; injection Ex as <-; lia].
  destruct E2 as [I2 [N2 [S2 [C2 [A2 [M2 [_ [_ [_ [_ [_ [U2 Cases]]]]]]]]]]]].
  exists d, v. split; [reflexivity|].
  destruct (Z.eqb_spec (l_amt l) amt) as [Ea|Na].
  - destruct (Z.eqb_spec n2 id) as [->|]; [|discriminate]. injection H as <- <-.
    destruct Cases as [[_ [_ K2]]|[x [Ex [Hx _]]]]; [|injection Ex as <-; lia].
    rewrite C2, S2. split; [assumption|]. split; [rewrite S1; reflexivity|].
    eexists. rewrite K2, upd1_same. split; [reflexivity|]. cbn. rewrite N1. reflexivity.
  - destruct (Z.eqb_spec n2 id) as [|Nn]; [discriminate|].
    destruct Cases as [[Hn _]|[x [Ex [Hx [Hn [T2 [_ K2]]]]]]]; [contradiction|]. injection Ex as <-.
    destruct (delete_synth st2 id Unstaking (l_denom l) v) as [st3|] eqn:E3; [|discriminate].
    apply (remove_unstaking_linv cfg) in E3; [|assumption].
    destruct E3 as [I3 [S3 [C3 [K3 [M3 [_ [_ [_ [_ [_ [A3 [N3 [T3 [O3 _]]]]]]]]]]]]]].
    destruct (superfluid_delegate cfg st3 sender id v) as [st4|] eqn:E4; [|discriminate].
    apply (superfluid_delegate_linv cfg) in E4; [|assumption].
    destruct E4 as [I4 [l4 [Hl4 [_ [_ [_ [_ [C4 [K4 [N4 [T4 [M4 [_ [O4 _]]]]]]]]]]]]]].
    destruct (create_synth cfg st4 n2 Unstaking d v) as [st5|] eqn:E5; [|discriminate]. injection H as <- <-.
    assert (Hl5 : s_locks st4 n2 = Some (mkLock (l_owner l) (l_denom l) amt (l_dur l) (s_now st1 + l_dur l))).
    { rewrite K4, K3, K2, Hn. rewrite upd1_same. reflexivity. }
    assert (Hc5 : s_conn st4 n2 = None).
    { destruct (O4 n2 Nn) as [O4c _]. rewrite O4c, C3, C2.
      pose proof (fresh_id cfg st1 n2 I1 ltac:(lia)) as [_ [_ Fc]]. assumption. }
    apply (add_unstaking_linv cfg st4 n2 _ d v st5 I4 W Hl5 Hc5) in E5; [|right; cbn; rewrite N4, N3, N2; lia].
    destruct E5 as [_ [S5 [_ [_ [_ [_ [_ [_ [_ [C5 [K5 _]]]]]]]]]]].
    rewrite C5, S5, K5. split; [assumption|]. split; [rewrite N4, N3, N2, N1; reflexivity|].
    eexists. split; [eassumption|]. cbn. rewrite N1. reflexivity.
Qed.

(* ---- a lock cannot start unlocking while it is superfluid-delegated (or carries any marker) ---- *)
Lemma delegated_lock_bonded : forall cfg st id k, linv cfg st -> s_conn st id = Some k ->
  exists l, s_locks st id = Some l /\ l_end l = 0.
Proof.
  intros cfg st id [d v] I H. destruct (conn_marker _ _ _ _ _ I H) as [_ [l [Hl [_ [He _]]]]]. exists l. auto.
Qed.

Lemma begin_unlock_refused : forall cfg st id sender, linv cfg st -> s_synths st id <> [] ->
  exists e, step cfg st (OBeginUnlock sender id) = Err e.
Proof.
  intros cfg st id sender I H. cbn [step]. unfold begin_unlock.
  destruct (s_locks st id) as [l|]; [|eexists; reflexivity].
  destruct (negb (l_owner l =? sender)); [eexists; reflexivity|].
  destruct (s_synths st id); [contradiction|]. cbn. eexists; reflexivity.
Qed.

(* the same for every other way of starting to unlock: part of a lock, all locks of an owner, force unlock *)
Lemma begin_unlock_partial_refused : forall cfg st id sender amt, s_synths st id <> [] ->
  exists e, step cfg st (OBeginUnlockPartial sender id amt) = Err e.
Proof.
  intros cfg st id sender amt H. cbn [step]. unfold begin_unlock.
  destruct (s_locks st id) as [l|]; [|eexists; reflexivity].
  destruct (negb (l_owner l =? sender)); [eexists; reflexivity|]. destruct (amt <=? 0); [eexists; reflexivity|].
  destruct (s_synths st id); [contradiction|]. cbn. eexists; reflexivity.
Qed.

Lemma begin_unlock_all_refused : forall cfg st id l, linv cfg st -> s_locks st id = Some l -> s_synths st id <> [] -> l_end l = 0 ->
  exists e, step cfg st (OBeginUnlockAll (l_owner l)) = Err e.
Proof.
  intros cfg st id l I Hl Hs He. cbn [step]. unfold bind.
  destruct (begin_unlock_all_refuses (l_owner l) (ids_upto (s_last st)) st id l) as [e E]; try assumption; try reflexivity.
  - apply ids_upto_In. apply (L_lock_rng _ _ I _ _ Hl).
  - rewrite E. eexists; reflexivity.
Qed.

Lemma force_unlock_refused : forall cfg st id sender, linv cfg st -> s_synths st id <> [] ->
  exists e, step cfg st (OForceUnlock sender id) = Err e.
Proof.
  intros cfg st id sender I Hs. cbn [step]. unfold bind, force_unlock.
  destruct (s_locks st id) as [l|]; [|eexists; reflexivity].
  destruct (negb (l_owner l =? sender)); [eexists; reflexivity|].
  destruct (negb (existsb (Z.eqb sender) (c_force cfg))); [eexists; reflexivity|].
  unfold bind. destruct (synth_by_lock_spec cfg st id _ I eq_refl) as [[Hs' _]|[y [_ Er]]]; [contradiction|].
  rewrite Er. eexists; reflexivity.
Qed.

Lemma begin_unlock_refused_delegated : forall cfg st id k sender, linv cfg st -> s_conn st id = Some k ->
  next cfg st (OBeginUnlock sender id) = st /\ exists e, step cfg st (OBeginUnlock sender id) = Err e.
Proof.
  intros cfg st id [d v] sender I H. destruct (conn_marker _ _ _ _ _ I H) as [Hs _].
  destruct (begin_unlock_refused cfg st id sender I) as [e E]; [rewrite Hs; discriminate|].
  split; [|exists e; assumption]. unfold next, apply. rewrite E. reflexivity.
Qed.

(* ---- an undelegating lock cannot be withdrawn before its undelegation has matured ---- *)
Lemma withdraw_refused : forall cfg st id y, linv cfg st -> In y (s_synths st id) -> y_kind y = Unstaking ->
  s_now st < y_end y -> exists e, step cfg st (OWithdraw id) = Err e.
Proof.
  intros cfg st id y I Hy Hk Hn. cbn [step]. unfold unlock_matured_lock, bind.
  destruct (s_locks st id) as [l|] eqn:Hl; [|eexists; reflexivity].
  pose proof (L_marker _ _ I id) as M. unfold marker in M.
  destruct (s_synths st id) as [|y0 [|]]; [contradiction| |contradiction]. destruct Hy as [<-|[]].
  rewrite Hk in M. destruct M as [_ [_ [_ M3]]]. destruct (M3 _ Hl) as [[He|He] _].
  - rewrite He. cbn. eexists; reflexivity.
  - destruct (l_end l =? 0); [eexists; reflexivity|]. destruct (Z.ltb_spec (s_now st) (l_end l)); [eexists; reflexivity|lia].
Qed.

Lemma cleanup_keeps_undelegating : forall cfg st id y st' n, linv cfg st -> In y (s_synths st id) -> y_kind y = Unstaking ->
  s_now st < y_end y -> step cfg st OCleanup = Ok (st', n) -> s_locks st' id = s_locks st id.
Proof.
  intros cfg st id y st' n I Hy Hk Hn H. cbn [step] in H. unfold bind in H.
  destruct (delete_matured_synths st (ids_upto (s_last st))) as [st1|] eqn:E; [|discriminate]. injection H as <- _.
  apply (delete_matured_synths_linv cfg) in E; [|assumption]. destruct E as [_ [N1 [_ [K1 _]]]].
  unfold withdraw_matured. ssimpl. rewrite K1.
  destruct (s_locks st id) as [l|] eqn:Hl; [|reflexivity].
  pose proof (L_marker _ _ I id) as M. unfold marker in M.
  destruct (s_synths st id) as [|y0 [|]]; [contradiction| |contradiction]. destruct Hy as [<-|[]].
  rewrite Hk in M. destruct M as [_ [_ [_ M3]]]. destruct (M3 _ Hl) as [[He|He] _].
  - rewrite He. reflexivity.
  - unfold matured. rewrite N1. destruct (Z.leb_spec (l_end l) (s_now st)); [lia|]. rewrite andb_false_r. reflexivity.
Qed.

(* ---- the unstaking marker lasts: no operation removes or alters it before its end time ---- *)
Lemma delete_matured_in_noop : forall ys st id st', (forall y, In y ys -> matured st (y_end y) = false) ->
  delete_matured_in st id ys = Ok st' -> st' = st.
Proof.
  induction ys as [|y r IH]; intros st id st' Hn H; cbn [delete_matured_in] in H; [injection H as <-; reflexivity|].
  rewrite (Hn y (or_introl eq_refl)) in H. apply IH in H; [assumption|]. intros y0 Hy0. apply Hn. right. assumption.
Qed.

Lemma delete_matured_synths_keeps : forall cfg ids st st' id y, linv cfg st -> delete_matured_synths st ids = Ok st' ->
  s_synths st id = [y] -> matured st (y_end y) = false -> s_synths st' id = [y].
Proof.
  intros cfg. induction ids as [|id0 r IH]; intros st st' id y I H Hs Hm; cbn [delete_matured_synths] in H.
  - injection H as <-. assumption.
  - unfold bind in H. destruct (delete_matured_in st id0 (s_synths st id0)) as [st1|] eqn:E1; [|discriminate].
    assert (X : linv cfg st1 /\ s_now st1 = s_now st /\ s_synths st1 id = [y]).
    { destruct (Z.eq_dec id0 id) as [->|N].
      - rewrite Hs in E1. apply delete_matured_in_noop in E1; [subst st1; auto|].
        intros y0 [<-|[]]. assumption.
      - apply (delete_matured_in_linv cfg) in E1; [|assumption|apply (marker_staking_end cfg); assumption].
        destruct E1 as [I1 [N1 [_ [_ [_ O1]]]]]. split; [assumption|]. split; [assumption|]. rewrite O1 by congruence. assumption. }
    destruct X as [I1 [N1 S1]]. apply (IH st1 st' id y I1 H S1). unfold matured in *. rewrite N1. assumption.
Qed.

Lemma unstaking_marker_lasts0 : forall cfg st o st' n id y, wf_cfg cfg -> linv cfg st ->
  (forall s i v x e, o <> OConvert s i v x e) ->
  step cfg st o = Ok (st', n) -> s_synths st id = [y] -> y_kind y = Unstaking -> s_now st' < y_end y ->
  s_synths st' id = [y].
Proof.
  intros cfg st o st' n id y W I Hnc H Hs Hk Hn.
  assert (Hc : s_conn st id = None).
  { pose proof (L_marker _ _ I id) as M. unfold marker in M. rewrite Hs, Hk in M. tauto. }
  destruct o; cbn [step] in H; unfold bind in H.
  - (* OLock *) destruct ((amt <=? 0) || (dur <? 0)); [discriminate|]. injection H as <- _. assumption.
  - (* OTopUp *)
    destruct (add_tokens_to_lock cfg st owner id0 amt) as [s|] eqn:E; [|discriminate]. injection H as <- _.
    apply add_tokens_frame in E. destruct E as [-> _]. assumption.
  - (* OLockTokens *)
    apply lock_tokens_cases in H. destruct H as [[_ H]|[_ [_ [_ [_ ->]]]]]; [|assumption].
    apply add_tokens_frame in H. destruct H as [-> _]. assumption.
  - (* OLockAndDelegate *)
    unfold lock_and_delegate, bind in H. destruct (lock_tokens cfg st owner denom amt (c_unb cfg)) as [[s1 i1]|] eqn:E1; [|discriminate].
    cbn [fst snd] in H. destruct (superfluid_delegate cfg s1 owner i1 v) as [s|] eqn:E; [|discriminate]. injection H as <- _.
    pose proof (lock_tokens_linv cfg _ _ _ _ _ _ _ I E1) as I1.
    assert (S1 : s_synths s1 = s_synths st).
    { apply lock_tokens_cases in E1. destruct E1 as [[_ E1]|[_ [_ [_ [_ ->]]]]]; [|reflexivity]. apply add_tokens_frame in E1. tauto. }
    apply (superfluid_delegate_linv cfg) in E; [|assumption].
    destruct E as [_ [l [_ [_ [Hs0 [_ [_ [_ [_ [_ [_ [_ [_ [O _]]]]]]]]]]]]]].
    assert (id <> i1) by (intros ->; rewrite S1 in Hs0; congruence). destruct (O id H) as [_ ->]. rewrite S1. assumption.
  - (* OCreateAndDelegate *)
    unfold create_and_delegate, bind in H. destruct (Z.leb_spec amt 0); [discriminate|].
    match type of H with match ?c with _ => _ end = _ => destruct c as [s|] eqn:E; [|discriminate] end. injection H as <- _.
    apply (superfluid_delegate_linv cfg) in E; [|apply new_lock_linv; cbn; try assumption; try lia; apply W].
    destruct E as [_ [l [_ [_ [Hs0 [_ [_ [_ [_ [_ [_ [_ [_ [O _]]]]]]]]]]]]]]. ssimpl.
    assert (id <> s_last st + 1) by (intros ->; congruence). destruct (O id H) as [_ ->]. assumption.
  - (* ODelegate *)
    destruct (superfluid_delegate cfg st sender id0 v) as [s|] eqn:E; [|discriminate]. injection H as <- _.
    apply (superfluid_delegate_linv cfg) in E; [|assumption].
    destruct E as [_ [l [_ [_ [Hs0 [_ [_ [_ [_ [_ [_ [_ [_ [O _]]]]]]]]]]]]]].
    assert (id <> id0) by (intros ->; congruence). destruct (O id H) as [_ ->]. assumption.
  - (* OUndelegate *)
    destruct (superfluid_undelegate cfg st sender id0) as [s|] eqn:E; [|discriminate]. injection H as <- _.
    apply (superfluid_undelegate_linv cfg) in E; try assumption.
    destruct E as [_ [l [d [v [_ [Hc0 [_ [_ [_ [_ [_ [_ [_ [_ [_ [_ [_ O]]]]]]]]]]]]]]]]].
    assert (id <> id0) by (intros ->; congruence). destruct (O id H) as [_ ->]. assumption.
  - (* OUnbondLock *)
    destruct (unbond_lock st id0 sender None) as [[s m]|] eqn:E; [|discriminate]. injection H as <- _. cbn [fst].
    apply (unbond_lock_linv cfg) in E; [|assumption|discriminate].
    destruct E as [l [y0 [Hl [_ [_ [Hc0 [_ E]]]]]]].
    apply (begin_unlock_core_linv cfg) in E; try assumption; [|discriminate].
    destruct E as [_ [_ [S _]]]. rewrite S. assumption.
  - (* OUndelegateAndUnbond *)
    unfold superfluid_undelegate_and_unbond in H.
    destruct (s_locks st id0) as [l|] eqn:Hl; [|discriminate].
    destruct (Z.ltb_spec amt 0); [discriminate|]. destruct (Z.eqb_spec amt 0); [discriminate|].
    destruct (Z.ltb_spec (l_amt l) amt); [discriminate|].
    destruct (s_conn st id0) as [[d v]|] eqn:Hc0; [|discriminate].
    assert (Nid : id <> id0) by (intros ->; congruence).
    unfold bind in H.
    destruct (superfluid_undelegate cfg st sender id0) as [st1|] eqn:E1; [|discriminate].
    apply (superfluid_undelegate_linv cfg) in E1; try assumption.
    destruct E1 as [I1 [l0 [d0 [v0 [Hl0 [Hc1 [Hd0 [Ho0 [He0 [Hdur0 [C1 [S1 [K1 [N1 [T1 [M1 [A1 O1]]]]]]]]]]]]]]]]].
    rewrite Hl in Hl0. injection Hl0 as <-. rewrite Hc0 in Hc1. injection Hc1 as <- <-.
    destruct (O1 id Nid) as [_ Hs1]. rewrite Hs in Hs1.
    destruct (unbond_lock st1 id0 sender (Some amt)) as [[st2 n2]|] eqn:E2; [|discriminate].
    apply (unbond_lock_linv cfg) in E2; [|assumption|intros x Ex; injection Ex as <-; lia].
    destruct E2 as [l1 [y1 [Hl1 [Hs1' [_ [_ [_ E2]]]]]]]. rewrite K1, Hl in Hl1. injection Hl1 as <-.
    apply (begin_unlock_core_linv cfg) in E2; try assumption; [|congruence|intros x Ex; injection Ex as <-; lia].
    destruct E2 as [I2 [N2 [S2 [C2 [A2 [M2 [_ [_ [_ [_ [_ [U2 Cases]]]]]]]]]]]].
    destruct (Z.eqb_spec (l_amt l) amt) as [Ea|Na].
    + destruct (n2 =? id0); [|discriminate]. injection H as <- _. rewrite S2. assumption.
    + destruct (Z.eqb_spec n2 id0) as [|Nn]; [discriminate|].
      destruct Cases as [[Hn2 _]|[x [Ex [Hx [Hn2 [T2 [_ K2]]]]]]]; [contradiction|]. injection Ex as <-.
      destruct (delete_synth st2 id0 Unstaking (l_denom l) v) as [st3|] eqn:E3; [|discriminate].
      apply (remove_unstaking_linv cfg) in E3; [|assumption].
      destruct E3 as [I3 [S3 [C3 [K3 [M3 [_ [_ [_ [_ [_ [A3 [N3 [T3 [O3 _]]]]]]]]]]]]]].
      destruct (superfluid_delegate cfg st3 sender id0 v) as [st4|] eqn:E4; [|discriminate].
      apply (superfluid_delegate_linv cfg) in E4; [|assumption].
      destruct E4 as [I4 [l4 [Hl4 [_ [_ [_ [_ [C4 [K4 [N4 [T4 [M4 [_ [O4 _]]]]]]]]]]]]]].
      destruct (create_synth cfg st4 n2 Unstaking d v) as [st5|] eqn:E5; [|discriminate]. injection H as <- _.
      apply create_synth_ok in E5. destruct E5 as [_ [l5 [e5 [_ [_ ->]]]]]. ssimpl.
      assert (id <> n2).
      { assert (s_synths st id <> []) by congruence. pose proof (L_synth_rng _ _ I _ H). lia. }
      rewrite upd1_other by assumption. destruct (O4 id Nid) as [_ ->]. rewrite O3 by assumption. rewrite S2. assumption.
  - (* OBeginUnlock *)
    destruct (s_locks st id0) as [l|]; [|discriminate]. destruct (negb (l_owner l =? sender)); [discriminate|].
    destruct (begin_unlock st id0 None) as [[s m]|] eqn:E; [|discriminate]. injection H as <- _. cbn [fst].
    apply (begin_unlock_linv cfg) in E; [|assumption|discriminate].
    destruct E as [l0 [_ [_ [_ [_ [_ [S _]]]]]]]. rewrite S. assumption.
  - (* OBeginUnlockPartial *)
    destruct (s_locks st id0) as [l|]; [|discriminate]. destruct (negb (l_owner l =? sender)); [discriminate|].
    destruct (Z.leb_spec amt 0); [discriminate|].
    apply (begin_unlock_linv cfg) in H; [|assumption|intros x Ex; injection Ex as <-; assumption].
    destruct H as [l0 [_ [_ [_ [_ [_ [S _]]]]]]]. rewrite S. assumption.
  - (* OBeginUnlockAll *)
    destruct (begin_unlock_all st owner (ids_upto (s_last st))) as [s|] eqn:E; [|discriminate]. injection H as <- _.
    apply (begin_unlock_all_linv cfg) in E; [|assumption].
    destruct E as [_ [_ [_ [_ [_ [_ [_ [_ [_ [S _]]]]]]]]]]. rewrite S. assumption.
  - (* OForceUnlock *)
    destruct (force_unlock cfg st sender id0) as [s|] eqn:E; [|discriminate]. injection H as <- _.
    apply (force_unlock_linv cfg) in E; [|assumption].
    destruct E as [_ [_ [_ [_ [_ [_ [_ [_ [_ [_ [_ [_ [S _]]]]]]]]]]]]]. rewrite S. assumption.
  - (* OConvert *) exfalso. eapply Hnc. reflexivity.
  - (* OWithdraw *)
    unfold unlock_matured_lock in H. destruct (s_locks st id0) as [l|]; [|discriminate].
    destruct (l_end l =? 0); [discriminate|]. destruct (s_now st <? l_end l); [discriminate|]. injection H as <- _. assumption.
  - (* OAdvance *)
    destruct (dt <? 0); [discriminate|]. injection H as <- _. assumption.
  - (* OCleanup *)
    destruct (delete_matured_synths st (ids_upto (s_last st))) as [st1|] eqn:E; [|discriminate]. injection H as <- _.
    pose proof E as E'. apply (delete_matured_synths_linv cfg) in E'; [|assumption]. destruct E' as [_ [N1 _]].
    unfold withdraw_matured in *. ssimpl.
    apply (delete_matured_synths_keeps cfg _ st st1 id y I E Hs).
    unfold matured. destruct (Z.leb_spec (y_end y) (s_now st)); [lia|]. apply andb_false_r.
  - (* OEpoch *)
    unfold epoch, bind in H. destruct (set_mults st ins) as [st1|] eqn:E1; [|discriminate].
    destruct (refresh_list cfg st1 (refresh_order st1 order)) as [st2|] eqn:E2; [|discriminate]. injection H as <- _.
    apply set_mults_frame in E1. destruct E1 as [E1 _]. apply refresh_list_frame in E2. destruct E2 as [E2 _].
    apply lproj_fields in E1. apply lproj_fields in E2.
    destruct E1 as [_ [_ [_ [F4 _]]]]. destruct E2 as [_ [_ [_ [G4 _]]]]. rewrite G4, F4. assumption.
Qed.

(* ... with one exception by design: MsgUnbondConvertAndStake takes the lock itself out of lockup (pool exit, swap to OSMO)
   and stakes the proceeds as the owner's own delegation; the lock and its marker disappear together *)
Theorem unstaking_marker_lasts : forall cfg st o st' n id y, wf_cfg cfg -> linv cfg st ->
  step cfg st o = Ok (st', n) -> s_synths st id = [y] -> y_kind y = Unstaking -> s_now st' < y_end y ->
  s_synths st' id = [y] \/
  (exists sender v x e, o = OConvert sender id v x e /\ s_locks st' id = None /\ s_synths st' id = []).
Proof.
  intros cfg st o st' n id y W I H Hs Hk Hn.
  destruct o; try (left; eapply unstaking_marker_lasts0; try eassumption; intros; discriminate).
  cbn [step] in H. unfold bind in H.
  destruct (convert cfg st sender id0 v x env_ok) as [s|] eqn:E; [|discriminate]. injection H as <- _.
  apply (convert_linv cfg) in E; try assumption. destruct E as [_ [K [S [_ O]]]].
  destruct (Z.eq_dec id0 id) as [->|N].
  - right. exists sender, v, x, env_ok. auto.
  - left. destruct (O id) as [-> _]; [congruence|assumption].
Qed.

(* the proceeds of a conversion are staked: the validator's tokens grow by the reported amount *)
Lemma convert_stakes : forall cfg st sender id v x e st' n, wf_cfg cfg -> linv cfg st ->
  step cfg st (OConvert sender id v x e) = Ok (st', n) ->
  n = x /\ 0 <= x /\ exists val val', s_vals st' v = Some val' /\
    (s_conn st id = None -> s_vals st v = Some val /\ v_tokens val' = v_tokens val + x).
Proof.
  intros cfg st sender id v x e st' n W I H. cbn [step] in H. unfold bind in H.
  destruct (convert cfg st sender id v x e) as [s|] eqn:E; [|discriminate]. injection H as <- <-.
  split; [reflexivity|]. apply (convert_trace cfg) in E; try assumption.
  destruct E as [st1 [st2 [st3 [l3 [J1 [I1 [J2 [I2 [J3 [I3 [Hl3 [Ne3 [Hx _]]]]]]]]]]]]].
  unfold external_delegate in Hx. ssimpl.
  destruct (s_vals st3 v) as [val3|] eqn:Hv3; [|discriminate].
  destruct (Z.ltb_spec x 0); [discriminate|]. destruct (_ && _); [discriminate|]. injection Hx as <-.
  split; [assumption|]. exists val3. eexists. ssimpl. rewrite upd1_same. split; [reflexivity|].
  intros Hc. cbn [v_tokens]. split; [|reflexivity].
  (* no undelegation happened: the validators are untouched up to st3 *)
  assert (V1 : s_vals st1 = s_vals st).
  { destruct J1 as [->|E1]; [reflexivity|]. unfold undelegate_common in E1. destruct (s_locks st id); [|discriminate].
    destruct (negb _); [discriminate|]. rewrite Hc in E1. discriminate. }
  assert (V2 : s_vals st2 = s_vals st1).
  { destruct J2 as [->|[d0 [v0 E2]]]; [reflexivity|]. apply delete_synth_ok in E2. destruct E2 as [_ [l [_ ->]]]. reflexivity. }
  assert (V3 : s_vals st3 = s_vals st2).
  { destruct J3 as [->|[n3 E3]]; [reflexivity|]. apply (begin_unlock_linv cfg) in E3; [|assumption|discriminate].
    destruct E3 as [l0 [_ [_ [_ [_ [_ [_ [_ [_ [_ [_ [V _]]]]]]]]]]]]. assumption. }
  rewrite <- V1, <- V2, <- V3. assumption.
Qed.
