(* C11/Drift.v - stake tracks locks (exchange rate 1:1):
     - the epoch refresh sets every intermediary account's delegation to the risk-adjusted value of the total
       amount of exactly the locks connected to it (= GetExpectedDelegationAmount);
     - in between, |delegation - sum of the per-lock values| stays within a budget that is the number of locks
       connected at the last refresh plus 2 for every top-up since. *)
From Coq Require Import ZArith List Bool Lia.
Import ListNotations.
From Osmo Require Import Base.DecModel C11.Model C11.Arith C11.Basics C11.LInv C11.LStep C11.SInv.
Open Scope Z_scope.
Local Opaque P18.

(* ---- sums over the lock ids issued so far ---- *)
Definition rsum (f : Z -> Z) (n : Z) : Z := zsum (map f (ids_upto n)).

Lemma rsum_ext : forall f g n, (forall id, 1 <= id <= n -> g id = f id) -> rsum g n = rsum f n.
Proof. intros. unfold rsum. apply zsum_map_ext. intros x Hx. apply H. apply ids_upto_In. assumption. Qed.
Lemma rsum_upd : forall f g n i, 1 <= i <= n -> (forall id, id <> i -> g id = f id) -> rsum g n = rsum f n - f i + g i.
Proof. intros. unfold rsum. apply zsum_map_upd; [apply ids_upto_NoDup|apply ids_upto_In; assumption|assumption]. Qed.
Lemma rsum_grow : forall f g n, 0 <= n -> (forall id, 1 <= id <= n -> g id = f id) -> rsum g (n + 1) = rsum f n + g (n + 1).
Proof.
  intros. unfold rsum. rewrite ids_upto_succ, map_app, zsum_app by assumption. cbn [map zsum]. rewrite Z.add_0_r. f_equal.
  apply zsum_map_ext. intros x Hx. apply H0. apply ids_upto_In. assumption.
Qed.
Lemma rsum_nonneg : forall f n, (forall id, 0 <= f id) -> 0 <= rsum f n.
Proof. intros. unfold rsum. apply zsum_map_nonneg. intros; apply H. Qed.

(* ---- per-lock value, number of connected locks, drift ---- *)
Definition term_val (cfg : config) (st : state) (d v id : Z) : Z :=
  match s_conn st id, s_locks st id with
  | Some k, Some l => if pair_eqb k (d, v) then value (s_mult st d) (c_rf cfg) (l_amt l) else 0
  | _, _ => 0
  end.
Definition conn_val (cfg : config) (st : state) (d v : Z) : Z := rsum (term_val cfg st d v) (s_last st).
Definition term_cnt (st : state) (d v id : Z) : Z :=
  match s_conn st id, s_locks st id with
  | Some k, Some l => if pair_eqb k (d, v) then 1 else 0
  | _, _ => 0
  end.
Definition conn_cnt (st : state) (d v : Z) : Z := rsum (term_cnt st d v) (s_last st).
Definition drift (cfg : config) (st : state) (d v : Z) : Z := dtok st d v - conn_val cfg st d v.

Lemma conn_amt_rsum : forall st d v, conn_amt st d v = rsum (term_amt st d v) (s_last st).
Proof. reflexivity. Qed.

(* GetSuperfluidOSMOTokens computes [value] *)
Lemma sf_osmo_value : forall cfg st d a, wf_cfg cfg -> is_sf cfg d = true -> 0 <= s_mult st d -> 0 <= a ->
  sf_osmo_tokens cfg st d a = Ok (value (s_mult st d) (c_rf cfg) a).
Proof.
  intros cfg st d a [_ W] Hsf Hm Ha. unfold sf_osmo_tokens. destruct (Z.eqb_spec (s_mult st d) 0) as [E|N].
  - rewrite E, value_m0. reflexivity.
  - rewrite Hsf. cbn [negb]. f_equal. unfold risk_adjust, value, d_round_int, d_mul, d_from_int. fold (rnd (s_mult st d * (a * P18))).
    assert (E1 : rnd (s_mult st d * (a * P18)) = s_mult st d * a).
    { replace (s_mult st d * (a * P18)) with (s_mult st d * a * P18) by ring. apply rnd_exact. nia. }
    rewrite E1. fold (rnd (s_mult st d * a)).
    destruct (rnd_bound (s_mult st d * a) ltac:(nia)) as [Hx _]. set (x := rnd (s_mult st d * a)) in *.
    fold (rnd (x * P18 * c_rf cfg)).
    assert (E2 : rnd (x * P18 * c_rf cfg) = x * c_rf cfg).
    { replace (x * P18 * c_rf cfg) with (x * c_rf cfg * P18) by ring. apply rnd_exact. nia. }
    rewrite E2. reflexivity.
Qed.

(* value of the total vs total of the values, over the locks connected to one account *)
Lemma conn_sum_bound : forall cfg st d v, wf_cfg cfg -> linv cfg st -> 0 <= s_mult st d ->
  Z.abs (value (s_mult st d) (c_rf cfg) (conn_amt st d v) - conn_val cfg st d v) <= conn_cnt st d v.
Proof.
  intros cfg st d v [_ W] I Hm.
  set (amts := fun ids => flat_map (fun id => match s_conn st id, s_locks st id with
                                            | Some k, Some l => if pair_eqb k (d, v) then [l_amt l] else []
                                            | _, _ => [] end) ids).
  assert (H : forall ids, zsum (amts ids) = zsum (map (term_amt st d v) ids) /\
                          zsum (map (value (s_mult st d) (c_rf cfg)) (amts ids)) = zsum (map (term_val cfg st d v) ids) /\
                          Z.of_nat (length (amts ids)) = zsum (map (term_cnt st d v) ids) /\
                          Forall (fun a => 0 <= a) (amts ids)).
  { induction ids as [|id r [IH1 [IH2 [IH3 IH4]]]]; [cbn; repeat split; constructor|].
    unfold amts in *. cbn [flat_map map zsum]. unfold term_amt at 1, term_val at 1, term_cnt at 1.
    destruct (s_conn st id) as [k|]; [|cbn [app]; repeat split; assumption].
    destruct (s_locks st id) as [l|] eqn:Hl; [|cbn [app]; repeat split; assumption].
    destruct (pair_eqb k (d, v)); [|cbn [app]; repeat split; assumption].
    cbn [app map zsum length]. rewrite IH1, IH2, Nat2Z.inj_succ, IH3. repeat split; try lia.
    constructor; [|assumption]. pose proof (L_lock_wf _ _ I _ _ Hl). lia. }
  destruct (H (ids_upto (s_last st))) as [H1 [H2 [H3 H4]]].
  unfold conn_amt, conn_val, conn_cnt, rsum. rewrite <- H1, <- H2, <- H3.
  apply value_sum_bound; assumption.
Qed.

Lemma term_val_nonneg : forall cfg st d v id, wf_cfg cfg -> linv cfg st -> 0 <= s_mult st d -> 0 <= term_val cfg st d v id.
Proof.
  intros cfg st d v id [_ W] I Hm. unfold term_val. destruct (s_conn st id); [|lia]. destruct (s_locks st id) as [l|] eqn:Hl; [|lia].
  destruct (pair_eqb _ _); [|lia]. apply value_nonneg; try assumption. pose proof (L_lock_wf _ _ I _ _ Hl). lia.
Qed.

(* ---- the invariant carried along a history: staking invariant + drift within budget ---- *)
Definition dinv (cfg : config) (st : state) (B : Z -> Z -> Z) : Prop :=
  sinv cfg st /\ forall d v, Z.abs (drift cfg st d v) <= B d v.

(* changes confined to locks that are not connected (and to fresh lock ids) do not move the drift *)
Lemma conn_val_unconn : forall cfg st st' d v,
  s_mult st' = s_mult st -> s_conn st' = s_conn st ->
  (s_last st' = s_last st \/ (s_last st' = s_last st + 1 /\ 0 <= s_last st /\ s_conn st (s_last st + 1) = None)) ->
  (forall id, s_conn st id <> None -> s_locks st' id = s_locks st id) ->
  conn_val cfg st' d v = conn_val cfg st d v.
Proof.
  intros cfg st st' d v Hm Hc Hl Hk.
  assert (T : forall id, term_val cfg st' d v id = term_val cfg st d v id).
  { intros id. unfold term_val. rewrite Hm, Hc. destruct (s_conn st id) eqn:E; [|reflexivity]. rewrite Hk by congruence. reflexivity. }
  unfold conn_val. destruct Hl as [->|[-> [H0 Hn]]].
  - apply rsum_ext. intros; apply T.
  - rewrite (rsum_grow (term_val cfg st d v)); [|assumption|intros; apply T].
    rewrite T. unfold term_val. rewrite Hn. lia.
Qed.

Lemma dinv_unconn : forall cfg st st' B, dinv cfg st B -> sproj st' = sproj st ->
  (s_last st' = s_last st \/ (s_last st' = s_last st + 1 /\ 0 <= s_last st /\ s_conn st (s_last st + 1) = None)) ->
  (forall id, s_conn st id <> None -> s_locks st' id = s_locks st id) ->
  dinv cfg st' B.
Proof.
  intros cfg st st' B [S D] Hp Hl Hk. split; [apply (sinv_ext cfg st); assumption|].
  unfold sproj in Hp. inversion Hp as [[H1 H2 H3 H4 H5]].
  intros d v. unfold drift. rewrite (conn_val_unconn cfg st st') by assumption.
  unfold dtok, shares_of. rewrite H1. apply D.
Qed.

Lemma NoDup_snoc : forall A (l : list A) x, NoDup l -> ~ In x l -> NoDup (l ++ [x]).
Proof.
  induction l as [|a r IH]; intros x ND Hn; cbn [app]; [constructor; [intros []|constructor]|].
  inversion ND; subst. constructor.
  - intros H. apply in_app_or in H. destruct H as [H|[<-|[]]]; [contradiction|]. apply Hn. left. reflexivity.
  - apply IH; [assumption|]. intros H. apply Hn. right. assumption.
Qed.

(* ---- sinv under (dis)connection of a lock ---- *)
Lemma shares_not_acc : forall cfg st d v, sinv cfg st -> ~ In (d, v) (s_accs st) -> shares_of st d v = 0.
Proof.
  intros cfg st d v S H. unfold shares_of. destruct (s_deleg st d v) as [sh|] eqn:E; [|reflexivity].
  destruct (S_deleg _ _ S _ _ _ E) as [_ Hin]. contradiction.
Qed.

Lemma sinv_connect : forall cfg st st3 id d v, sinv cfg st -> is_sf cfg d = true -> s_vals st v <> None ->
  s_deleg st3 = s_deleg st -> s_vals st3 = s_vals st -> s_mult st3 = s_mult st ->
  s_accs st3 = s_accs (get_or_create_acc st d v) -> s_conn st3 = upd1 (s_conn st) id (Some (d, v)) ->
  sinv cfg st3.
Proof.
  intros cfg st st3 id d v S Hsf Hval Hd Hv Hm Ha Hc.
  assert (Acc : s_accs st3 = s_accs st \/ (s_accs st3 = s_accs st ++ [(d, v)] /\ ~ In (d, v) (s_accs st))).
  { rewrite Ha. unfold get_or_create_acc. destruct (mem_pair (d, v) (s_accs st)) eqn:E; ssimpl; [left; reflexivity|].
    right. split; [reflexivity|]. apply mem_pair_false. assumption. }
  assert (Sub : forall k, In k (s_accs st) -> In k (s_accs st3)).
  { intros k Hk. destruct Acc as [->|[-> _]]; [assumption|apply in_or_app; left; assumption]. }
  assert (Sup : forall k, In k (s_accs st3) -> In k (s_accs st) \/ k = (d, v)).
  { intros k Hk. destruct Acc as [E|[E _]]; rewrite E in Hk; [left; assumption|].
    apply in_app_or in Hk. destruct Hk as [Hk|[Hk|[]]]; auto. }
  constructor.
  - intros v0 val. rewrite Hv. apply (S_vals _ _ S).
  - intros d0 v0 sh. rewrite Hd. intros H. destruct (S_deleg _ _ S _ _ _ H) as [H1 H2]. split; [assumption|apply Sub; assumption].
  - intros d0 v0 H. rewrite Hv. destruct (Sup _ H) as [H0|H0]; [apply (S_accval _ _ S _ _ H0)|injection H0 as -> ->; assumption].
  - destruct Acc as [->|[-> Hn]]; [apply (S_nodup _ _ S)|].
    apply NoDup_snoc; [apply (S_nodup _ _ S)|assumption].
  - intros v0 val. rewrite Hv. intros H. pose proof (S_sum _ _ S _ _ H) as Hs.
    assert (E : vsum st3 v0 = vsum st v0).
    { unfold vsum. assert (T : forall k, vterm st3 v0 k = vterm st v0 k) by (intros k; unfold vterm, shares_of; rewrite Hd; reflexivity).
      destruct Acc as [->|[-> Hn]]; [apply zsum_mapA_ext; intros; apply T|].
      rewrite map_app, zsum_app. cbn [map zsum]. rewrite T. unfold vterm at 2. cbn [fst snd].
      rewrite (shares_not_acc cfg st d v S Hn). rewrite (zsum_mapA_ext _ (vterm st3 v0) (vterm st v0)) by (intros; apply T).
      destruct (v =? v0); lia. }
    lia.
  - intros id0 d0 v0. rewrite Hc. unfold upd1. destruct (id0 =? id); [intros H; injection H as <- <-; assumption|apply (S_sf _ _ S)].
  - intros d0 v0 H. destruct (Sup _ H) as [H0|H0]; [apply (S_accsf _ _ S _ _ H0)|injection H0 as -> ->; assumption].
  - intros d0. rewrite Hm. apply (S_mult _ _ S).
Qed.

Lemma sinv_disconnect : forall cfg st st2 id, sinv cfg st ->
  s_deleg st2 = s_deleg st -> s_vals st2 = s_vals st -> s_mult st2 = s_mult st -> s_accs st2 = s_accs st ->
  s_conn st2 = upd1 (s_conn st) id None -> sinv cfg st2.
Proof.
  intros cfg st st2 id S Hd Hv Hm Ha Hc. constructor.
  - rewrite Hv. apply (S_vals _ _ S).
  - rewrite Hd, Ha. apply (S_deleg _ _ S).
  - rewrite Hv, Ha. apply (S_accval _ _ S).
  - rewrite Ha. apply (S_nodup _ _ S).
  - intros v0 val. unfold vsum, vterm, shares_of. rewrite Hd, Hv, Ha. apply (S_sum _ _ S).
  - intros id0 d0 v0. rewrite Hc. unfold upd1. destruct (id0 =? id); [discriminate|apply (S_sf _ _ S)].
  - rewrite Ha. apply (S_accsf _ _ S).
  - rewrite Hm. apply (S_mult _ _ S).
Qed.

(* ---- SuperfluidDelegate: the account's delegation and the per-lock total both grow by the lock's value ---- *)
Lemma superfluid_delegate_dinv : forall cfg st B sender id v st',
  wf_cfg cfg -> linv cfg st -> dinv cfg st B -> superfluid_delegate cfg st sender id v = Ok st' -> dinv cfg st' B.
Proof.
  intros cfg st B sender id v st' W I [S D] H. pose proof H as H0. unfold superfluid_delegate in H.
  destruct (s_locks st id) as [l|] eqn:Hl; [|discriminate].
  destruct (Z.eqb_spec (l_owner l) sender) as [Ho|]; [|discriminate]. cbn [negb] in H.
  destruct (is_sf cfg (l_denom l)) eqn:Hsf; [|discriminate]. cbn [negb] in H.
  destruct (Z.eqb_spec (l_end l) 0) as [He|]; [|discriminate]. cbn [negb] in H.
  destruct (Z.ltb_spec (l_dur l) (c_unb cfg)); [discriminate|].
  destruct (already_sf_staking st id) eqn:Ea; [discriminate|].
  unfold already_sf_staking in Ea. destruct (s_conn st id) eqn:Hc; [discriminate|].
  unfold bind in H.
  match type of H with match ?c with _ => _ end = _ => destruct c as [st3|] eqn:E3; [|discriminate] end.
  pose proof E3 as E3'. apply create_synth_ok in E3'. destruct E3' as [_ [l0 [e [_ [_ E3']]]]].
  set (d := l_denom l) in *.
  pose proof (L_lock_wf _ _ I _ _ Hl) as [Wa _].
  assert (Hm3 : s_mult st3 = s_mult st) by (rewrite E3'; ssimpl; unfold get_or_create_acc; destruct (mem_pair _ _); reflexivity).
  rewrite (sf_osmo_value cfg st3 d (l_amt l) W Hsf) in H; [|rewrite Hm3; apply (S_mult _ _ S)|lia]. rewrite Hm3 in H.
  set (val := value (s_mult st d) (c_rf cfg) (l_amt l)) in *.
  destruct (Z.eqb_spec val 0) as [|Nz]; [discriminate|].
  assert (Hvpos : 0 < val).
  { assert (0 <= val); [|lia]. apply value_nonneg; [apply (S_mult _ _ S)|apply W|lia]. }
  assert (Hval : s_vals st v <> None).
  { unfold mint_and_delegate in H. rewrite E3' in H. ssimpl.
    assert (Ev : s_vals (get_or_create_acc st d v) = s_vals st) by (unfold get_or_create_acc; destruct (mem_pair _ _); reflexivity).
    rewrite Ev in H. destruct (s_vals st v); [discriminate|discriminate]. }
  assert (S3 : sinv cfg st3).
  { apply (sinv_connect cfg st st3 id d v S Hsf Hval); rewrite E3'; ssimpl; try reflexivity;
      unfold get_or_create_acc; destruct (mem_pair _ _); reflexivity. }
  assert (Hin3 : In (d, v) (s_accs st3)).
  { rewrite E3'. ssimpl. unfold get_or_create_acc. destruct (mem_pair (d, v) (s_accs st)) eqn:E; ssimpl;
      [apply mem_pair_In; assumption|apply in_or_app; right; left; reflexivity]. }
  destruct (mint_spec cfg st3 d v val S3 Hin3 Hvpos) as [st'' [Em [S' [Dt [Do [_ [Ha' Hc']]]]]]].
  rewrite Em in H. injection H as ->.
  pose proof Em as Fr. apply mint_and_delegate_frame in Fr. destruct Fr as [Fr Frm]. apply lproj_fields in Fr.
  destruct Fr as [F1 [F2 [F3 [F4 [F5 [F6 F7]]]]]].
  assert (Hd3 : s_deleg st3 = s_deleg st) by (rewrite E3'; ssimpl; unfold get_or_create_acc; destruct (mem_pair _ _); reflexivity).
  assert (Hk3 : s_locks st3 = s_locks st) by (rewrite E3'; ssimpl; unfold get_or_create_acc; destruct (mem_pair _ _); reflexivity).
  assert (Hl3 : s_last st3 = s_last st) by (rewrite E3'; ssimpl; unfold get_or_create_acc; destruct (mem_pair _ _); reflexivity).
  assert (Hc3 : s_conn st3 = upd1 (s_conn st) id (Some (d, v))) by (rewrite E3'; ssimpl; unfold get_or_create_acc; destruct (mem_pair _ _); reflexivity).
  pose proof (L_lock_rng _ _ I _ _ Hl) as Hr.
  split; [assumption|]. intros d0 v0. unfold drift.
  assert (Tv : forall id0, id0 <> id -> term_val cfg st' d0 v0 id0 = term_val cfg st d0 v0 id0).
  { intros id0 N. unfold term_val. rewrite Frm, Hm3, F5, Hc3, F2, Hk3. rewrite upd1_other by assumption. reflexivity. }
  assert (Cv : conn_val cfg st' d0 v0 = conn_val cfg st d0 v0 - term_val cfg st d0 v0 id + term_val cfg st' d0 v0 id).
  { unfold conn_val. rewrite F3, Hl3. apply rsum_upd; assumption. }
  assert (T0 : term_val cfg st d0 v0 id = 0) by (unfold term_val; rewrite Hc; reflexivity).
  assert (T1 : term_val cfg st' d0 v0 id = if pair_eqb (d, v) (d0, v0) then value (s_mult st d0) (c_rf cfg) (l_amt l) else 0).
  { unfold term_val. rewrite Frm, Hm3, F5, Hc3, F2, Hk3, upd1_same, Hl. reflexivity. }
  rewrite Cv, T0, T1. specialize (D d0 v0). unfold drift in D.
  destruct (pair_eqb (d, v) (d0, v0)) eqn:E.
  - apply pair_eqb_eq in E. injection E as <- <-. rewrite Dt. unfold dtok at 1, shares_of. rewrite Hd3.
    fold (shares_of st d v). fold (dtok st d v). fold val. lia.
  - apply pair_eqb_neq in E. unfold dtok, shares_of. rewrite Do by congruence. rewrite Hd3.
    fold (shares_of st d0 v0). fold (dtok st d0 v0). lia.
Qed.

(* ---- SuperfluidUndelegate: both sides shrink by the lock's value (or the delegation is already gone) ---- *)
Lemma superfluid_undelegate_dinv : forall cfg st B sender id st',
  wf_cfg cfg -> linv cfg st -> dinv cfg st B -> superfluid_undelegate cfg st sender id = Ok st' -> dinv cfg st' B.
Proof.
  intros cfg st B sender id st' W I [S D] H.
  destruct (superfluid_undelegate_linv cfg st sender id st' I W H) as [I' _].
  unfold superfluid_undelegate in H.
  destruct (s_locks st id) as [l|] eqn:Hl; [|discriminate].
  destruct (Z.eqb_spec (l_owner l) sender) as [Ho|]; [|discriminate]. cbn [negb] in H.
  destruct (s_conn st id) as [[d v]|] eqn:Hc; [|discriminate].
  destruct (conn_marker _ _ _ _ _ I Hc) as [_ [l0 [Hl0 [Hden _]]]]. rewrite Hl in Hl0. injection Hl0 as <-.
  unfold bind in H.
  match type of H with match ?c with _ => _ end = _ => destruct c as [st2|] eqn:E2; [|discriminate] end.
  apply delete_synth_ok in E2. destruct E2 as [_ [l0 [_ E2]]]. ssimpl.
  pose proof (L_lock_wf _ _ I _ _ Hl) as [Wa _].
  assert (Hsf : is_sf cfg d = true) by (apply (S_sf _ _ S _ _ _ Hc)).
  assert (Hm2 : s_mult st2 = s_mult st) by (rewrite E2; reflexivity).
  rewrite (sf_osmo_value cfg st2 d (l_amt l) W Hsf) in H; [|rewrite Hm2; apply (S_mult _ _ S)|lia]. rewrite Hm2 in H.
  set (val := value (s_mult st d) (c_rf cfg) (l_amt l)) in *.
  assert (Hv0 : 0 <= val) by (apply value_nonneg; [apply (S_mult _ _ S)|apply W|lia]).
  assert (S2 : sinv cfg st2) by (apply (sinv_disconnect cfg st st2 id S); rewrite E2; reflexivity).
  assert (Hd2 : s_deleg st2 = s_deleg st) by (rewrite E2; reflexivity).
  assert (Hin : In (d, v) (s_accs st)) by (apply (L_acc _ _ I _ _ Hc)).
  match type of H with match ?c with _ => _ end = _ => destruct c as [st3|] eqn:E3; [|discriminate] end.
  pose proof H as H3. apply create_synth_ok in H3. destruct H3 as [_ [l1 [e1 [_ [_ H3]]]]].
  pose proof E3 as Fr. apply force_undelegate_frame in Fr. destruct Fr as [Fr Frm]. apply lproj_fields in Fr.
  destruct Fr as [F1 [F2 [F3 [F4 [F5 [F6 F7]]]]]].
  pose proof (L_lock_rng _ _ I _ _ Hl) as Hr.
  (* per-lock totals *)
  assert (Tv : forall d0 v0 id0, id0 <> id -> term_val cfg st' d0 v0 id0 = term_val cfg st d0 v0 id0).
  { intros d0 v0 id0 N. unfold term_val. rewrite H3. ssimpl. rewrite Frm, Hm2, F5, F2, E2. ssimpl. rewrite upd1_other by assumption. reflexivity. }
  assert (Cv : forall d0 v0, conn_val cfg st' d0 v0 = conn_val cfg st d0 v0 - term_val cfg st d0 v0 id + term_val cfg st' d0 v0 id).
  { intros d0 v0. unfold conn_val. replace (s_last st') with (s_last st) by (rewrite H3; ssimpl; rewrite F3, E2; reflexivity).
    apply rsum_upd; [assumption|apply Tv]. }
  assert (T1 : forall d0 v0, term_val cfg st' d0 v0 id = 0).
  { intros. unfold term_val. rewrite H3. ssimpl. rewrite F5, E2. ssimpl. rewrite upd1_same. reflexivity. }
  assert (T0 : forall d0 v0, term_val cfg st d0 v0 id = if pair_eqb (d, v) (d0, v0) then value (s_mult st d0) (c_rf cfg) (l_amt l) else 0).
  { intros. unfold term_val. rewrite Hc, Hl. reflexivity. }
  assert (Dk : forall d0 v0, dtok st' d0 v0 = dtok st3 d0 v0) by (intros; unfold dtok, shares_of; rewrite H3; reflexivity).
  assert (Cnn : forall d0 v0, 0 <= conn_val cfg st' d0 v0).
  { intros. apply rsum_nonneg. intros. apply term_val_nonneg; try assumption.
    rewrite H3. ssimpl. rewrite Frm, Hm2. apply (S_mult _ _ S). }
  destruct (force_spec cfg st2 d v val S2 Hv0) as [[Dn [Ef _]]|[Vn|[[_ [_ Ef]]|[Dn [Hle [st3' [Ef [S3 [Dt [Do _]]]]]]]]]].
  - (* no delegation left *)
    rewrite Ef in E3. injection E3 as <-. split.
    + apply (sinv_ext cfg st2); [rewrite H3; reflexivity|assumption].
    + intros d0 v0. unfold drift. rewrite Cv, T1, T0, Dk. specialize (D d0 v0). unfold drift in D.
      destruct (pair_eqb (d, v) (d0, v0)) eqn:E.
      * apply pair_eqb_eq in E. injection E as <- <-. fold val.
        assert (Z0 : dtok st2 d v = 0) by (unfold dtok, shares_of; rewrite Dn; reflexivity).
        assert (Z1 : dtok st d v = 0) by (unfold dtok, shares_of; rewrite <- Hd2, Dn; reflexivity).
        pose proof (Cnn d v) as Cn. rewrite Cv, T1, T0, pair_eqb_refl in Cn. fold val in Cn. rewrite Z0. rewrite Z1 in D. lia.
      * unfold dtok, shares_of. rewrite Hd2. fold (shares_of st d0 v0). fold (dtok st d0 v0). lia.
  - exfalso. apply (S_accval _ _ S2 d v); [rewrite E2; assumption|assumption].
  - rewrite Ef in E3. discriminate.
  - rewrite Ef in E3. injection E3 as ->. split.
    + apply (sinv_ext cfg st3); [rewrite H3; reflexivity|assumption].
    + intros d0 v0. unfold drift. rewrite Cv, T1, T0, Dk. specialize (D d0 v0). unfold drift in D.
      destruct (pair_eqb (d, v) (d0, v0)) eqn:E.
      * apply pair_eqb_eq in E. injection E as <- <-. fold val. rewrite Dt.
        unfold dtok at 1, shares_of. rewrite Hd2. fold (shares_of st d v). fold (dtok st d v). lia.
      * apply pair_eqb_neq in E. unfold dtok, shares_of. rewrite Do by congruence. rewrite Hd2.
        fold (shares_of st d0 v0). fold (dtok st d0 v0). lia.
Qed.

(* undelegateCommon alone (used by the conversion message): as SuperfluidUndelegate without the marker *)
Lemma undelegate_common_dinv : forall cfg st B sender id st',
  wf_cfg cfg -> linv cfg st -> dinv cfg st B -> undelegate_common cfg st sender id = Ok st' -> dinv cfg st' B.
Proof.
  intros cfg st B sender id st' W I [S D] H.
  destruct (undelegate_common_linv cfg st sender id st' I H) as [I' _].
  unfold undelegate_common in H.
  destruct (s_locks st id) as [l|] eqn:Hl; [|discriminate].
  destruct (Z.eqb_spec (l_owner l) sender) as [Ho|]; [|discriminate]. cbn [negb] in H.
  destruct (s_conn st id) as [[d v]|] eqn:Hc; [|discriminate].
  destruct (conn_marker _ _ _ _ _ I Hc) as [_ [l0 [Hl0 [Hden _]]]]. rewrite Hl in Hl0. injection Hl0 as <-.
  unfold bind in H.
  match type of H with match ?c with _ => _ end = _ => destruct c as [st2|] eqn:E2; [|discriminate] end.
  apply delete_synth_ok in E2. destruct E2 as [_ [l0 [_ E2]]]. ssimpl.
  pose proof (L_lock_wf _ _ I _ _ Hl) as [Wa _].
  assert (Hsf : is_sf cfg d = true) by (apply (S_sf _ _ S _ _ _ Hc)).
  assert (Hm2 : s_mult st2 = s_mult st) by (rewrite E2; reflexivity).
  rewrite (sf_osmo_value cfg st2 d (l_amt l) W Hsf) in H; [|rewrite Hm2; apply (S_mult _ _ S)|lia]. rewrite Hm2 in H.
  set (val := value (s_mult st d) (c_rf cfg) (l_amt l)) in *.
  assert (Hv0 : 0 <= val) by (apply value_nonneg; [apply (S_mult _ _ S)|apply W|lia]).
  assert (S2 : sinv cfg st2) by (apply (sinv_disconnect cfg st st2 id S); rewrite E2; reflexivity).
  assert (Hd2 : s_deleg st2 = s_deleg st) by (rewrite E2; reflexivity).
  assert (Hin : In (d, v) (s_accs st)) by (apply (L_acc _ _ I _ _ Hc)).
  rename H into E3.
  pose proof E3 as Fr. apply force_undelegate_frame in Fr. destruct Fr as [Fr Frm]. apply lproj_fields in Fr.
  destruct Fr as [F1 [F2 [F3 [F4 [F5 [F6 F7]]]]]].
  pose proof (L_lock_rng _ _ I _ _ Hl) as Hr.
  assert (Tv : forall d0 v0 id0, id0 <> id -> term_val cfg st' d0 v0 id0 = term_val cfg st d0 v0 id0).
  { intros d0 v0 id0 N. unfold term_val. rewrite Frm, Hm2, F5, F2, E2. ssimpl. rewrite upd1_other by assumption. reflexivity. }
  assert (Cv : forall d0 v0, conn_val cfg st' d0 v0 = conn_val cfg st d0 v0 - term_val cfg st d0 v0 id + term_val cfg st' d0 v0 id).
  { intros d0 v0. unfold conn_val. replace (s_last st') with (s_last st) by (rewrite F3, E2; reflexivity).
    apply rsum_upd; [assumption|apply Tv]. }
  assert (T1 : forall d0 v0, term_val cfg st' d0 v0 id = 0).
  { intros. unfold term_val. rewrite F5, E2. ssimpl. rewrite upd1_same. reflexivity. }
  assert (T0 : forall d0 v0, term_val cfg st d0 v0 id = if pair_eqb (d, v) (d0, v0) then value (s_mult st d0) (c_rf cfg) (l_amt l) else 0).
  { intros. unfold term_val. rewrite Hc, Hl. reflexivity. }
  assert (Cnn : forall d0 v0, 0 <= conn_val cfg st' d0 v0).
  { intros. apply rsum_nonneg. intros. apply term_val_nonneg; try assumption. rewrite Frm, Hm2. apply (S_mult _ _ S). }
  destruct (force_spec cfg st2 d v val S2 Hv0) as [[Dn [Ef _]]|[Vn|[[_ [_ Ef]]|[Dn [Hle [st3' [Ef [S3 [Dt [Do _]]]]]]]]]].
  - rewrite Ef in E3. injection E3 as <-. split; [assumption|].
    intros d0 v0. unfold drift. rewrite Cv, T1, T0. specialize (D d0 v0). unfold drift in D.
    destruct (pair_eqb (d, v) (d0, v0)) eqn:E.
    + apply pair_eqb_eq in E. injection E as <- <-. fold val.
      assert (Z0 : dtok st2 d v = 0) by (unfold dtok, shares_of; rewrite Dn; reflexivity).
      assert (Z1 : dtok st d v = 0) by (unfold dtok, shares_of; rewrite <- Hd2, Dn; reflexivity).
      pose proof (Cnn d v) as Cn. rewrite Cv, T1, T0, pair_eqb_refl in Cn. fold val in Cn. rewrite Z0. rewrite Z1 in D. lia.
    + unfold dtok, shares_of. rewrite Hd2. fold (shares_of st d0 v0). fold (dtok st d0 v0). lia.
  - exfalso. apply (S_accval _ _ S2 d v); [rewrite E2; assumption|assumption].
  - rewrite Ef in E3. discriminate.
  - rewrite Ef in E3. injection E3 as ->. split; [assumption|].
    intros d0 v0. unfold drift. rewrite Cv, T1, T0. specialize (D d0 v0). unfold drift in D.
    destruct (pair_eqb (d, v) (d0, v0)) eqn:E.
    + apply pair_eqb_eq in E. injection E as <- <-. fold val. rewrite Dt.
      unfold dtok at 1, shares_of. rewrite Hd2. fold (shares_of st d v). fold (dtok st d v). lia.
    + apply pair_eqb_neq in E. unfold dtok, shares_of. rewrite Do by congruence. rewrite Hd2.
      fold (shares_of st d0 v0). fold (dtok st d0 v0). lia.
Qed.

(* a delegation by an ordinary account keeps the exchange rate at 1 and does not touch the intermediary accounts *)
Lemma external_delegate_dinv : forall cfg st B v x st', dinv cfg st B -> external_delegate st v x = Ok st' -> dinv cfg st' B.
Proof.
  intros cfg st B v x st' [S D] H. pose proof H as Fr. apply external_delegate_frame in Fr.
  destruct Fr as [Fr [Frm [Frd _]]]. pose proof Fr as Fr'. apply lproj_fields in Fr'. destruct Fr' as [F1 [F2 [F3 [F4 [F5 [F6 F7]]]]]].
  unfold external_delegate in H. destruct (s_vals st v) as [val|] eqn:Hv; [|discriminate].
  destruct (Z.ltb_spec x 0) as [|Hx]; [discriminate|].
  destruct ((v_tokens val =? 0) && (0 <? v_shares val)); [discriminate|].
  destruct (S_vals _ _ S _ _ Hv) as [Hs Ht]. pose proof P18_pos as HP.
  assert (Hiss : (if v_shares val =? 0 then d_from_int x else d_quo_int (d_mul_int (v_shares val) x) (v_tokens val)) = x * P18).
  { destruct (Z.eqb_spec (v_shares val) 0) as [E|N]; [reflexivity|]. unfold d_quo_int, d_mul_int. rewrite Hs.
    replace (v_tokens val * P18 * x) with (v_tokens val * (x * P18)) by ring. apply quot_mul_l. nia. }
  rewrite Hiss in H. injection H as <-.
  split.
  - constructor; ssimpl.
    + intros v0 val0 H. unfold upd1 in H. destruct (Z.eqb_spec v0 v); [injection H as <-; cbn [v_shares v_tokens]; split; nia|apply (S_vals _ _ S _ _ H)].
    + apply (S_deleg _ _ S).
    + intros d0 v0 H. unfold upd1. destruct (v0 =? v); [discriminate|apply (S_accval _ _ S _ _ H)].
    + apply (S_nodup _ _ S).
    + intros v0 val0 H. unfold upd1 in H. destruct (Z.eqb_spec v0 v) as [->|N].
      * injection H as <-. cbn [v_shares]. pose proof (S_sum _ _ S _ _ Hv). unfold vsum, vterm, shares_of in *. ssimpl. nia.
      * pose proof (S_sum _ _ S _ _ H). unfold vsum, vterm, shares_of in *. ssimpl. assumption.
    + apply (S_sf _ _ S).
    + apply (S_accsf _ _ S).
    + apply (S_mult _ _ S).
  - intros d0 v0. specialize (D d0 v0). unfold drift, dtok, shares_of, conn_val, term_val in *. ssimpl. assumption.
Qed.

(* ---- top-up of a lock: at most 2 more units of drift on the account it is connected to ---- *)
Definition budget_topup (st : state) (B : Z -> Z -> Z) (id : Z) : Z -> Z -> Z :=
  match s_conn st id with Some (d, v) => upd2 B d v (B d v + 2) | None => B end.

Lemma add_tokens_dinv : forall cfg st B owner id amt st',
  wf_cfg cfg -> linv cfg st -> dinv cfg st B -> add_tokens_to_lock cfg st owner id amt = Ok st' ->
  dinv cfg st' (budget_topup st B id).
Proof.
  intros cfg st B owner id amt st' W I [S D] H. unfold add_tokens_to_lock in H.
  destruct (s_locks st id) as [l|] eqn:Hl; [|discriminate].
  destruct (Z.eqb_spec (l_owner l) owner) as [Ho|]; [|discriminate]. cbn [negb] in H.
  destruct (Z.leb_spec amt 0) as [|Hamt]; [discriminate|].
  unfold bind in H.
  set (l' := mkLock (l_owner l) (l_denom l) (l_amt l + amt) (l_dur l) (l_end l)) in *.
  pose proof (L_lock_wf _ _ I _ _ Hl) as [Wa _]. pose proof (L_lock_rng _ _ I _ _ Hl) as Hr.
  destruct (synth_by_lock (put_lock st id l') id) as [found|]; [|discriminate]. injection H as <-.
  set (st2 := match found with Some y => _ | None => _ end).
  assert (P2 : sproj st2 = sproj st /\ s_locks st2 = upd1 (s_locks st) id (Some l') /\ s_last st2 = s_last st).
  { subst st2. destruct found; repeat split; reflexivity. }
  destruct P2 as [P2 [K2 T2]]. clearbody st2.
  assert (S2 : sinv cfg st2) by (apply (sinv_ext cfg st); assumption).
  unfold sproj in P2. inversion P2 as [[Hd2 Hv2 Ha2 Hc2 Hm2]].
  unfold budget_topup, increase_sf_delegation. rewrite Hc2.
  destruct (s_conn st id) as [[d v]|] eqn:Hc.
  - destruct (conn_marker _ _ _ _ _ I Hc) as [_ [l0 [Hl0 [Hden _]]]]. rewrite Hl in Hl0. injection Hl0 as <-.
    assert (Hsf : is_sf cfg d = true) by (apply (S_sf _ _ S _ _ _ Hc)).
    replace (l_denom l' =? d) with true by (symmetry; apply Z.eqb_eq; assumption).
    rewrite (sf_osmo_value cfg st2 d amt W Hsf) by (try lia; rewrite Hm2; apply (S_mult _ _ S)). rewrite Hm2.
    set (m := s_mult st d) in *. set (rf := c_rf cfg) in *. set (va := value m rf amt) in *.
    assert (Hm0 : 0 <= m) by apply (S_mult _ _ S).
    assert (Hva : 0 <= va) by (apply value_nonneg; [assumption|apply W|lia]).
    assert (Hin : In (d, v) (s_accs st2)) by (rewrite Ha2; apply (L_acc _ _ I _ _ Hc)).
    (* the state after the hook, whether or not anything was minted *)
    assert (X : exists st', (if va =? 0 then st2 else match mint_and_delegate st2 d v va with Ok s => s | Err _ => st2 end) = st' /\
                sinv cfg st' /\ dtok st' d v = dtok st2 d v + va /\
                (forall d' v', (d', v') <> (d, v) -> s_deleg st' d' v' = s_deleg st2 d' v') /\
                s_conn st' = s_conn st2 /\ s_locks st' = s_locks st2 /\ s_last st' = s_last st2 /\ s_mult st' = s_mult st2).
    { destruct (Z.eqb_spec va 0) as [E|N].
      - exists st2. split; [reflexivity|]. split; [assumption|]. split; [lia|]. repeat split; reflexivity.
      - destruct (mint_spec cfg st2 d v va S2 Hin ltac:(lia)) as [s [Em [S' [Dt [Do [_ [_ Hc']]]]]]].
        rewrite Em. exists s. pose proof Em as Fr. apply mint_and_delegate_frame in Fr. destruct Fr as [Fr Frm]. apply lproj_fields in Fr.
        destruct Fr as [F1 [F2 [F3 [F4 [F5 [F6 F7]]]]]]. split; [reflexivity|]. split; [assumption|]. repeat split; assumption. }
    destruct X as [st' [-> [S' [Dt [Do [C' [K' [T' M']]]]]]]].
    split; [assumption|]. intros d0 v0. unfold drift.
    assert (Tv : forall id0, id0 <> id -> term_val cfg st' d0 v0 id0 = term_val cfg st d0 v0 id0).
    { intros id0 N. unfold term_val. rewrite M', Hm2, C', Hc2, K', K2. rewrite upd1_other by assumption. reflexivity. }
    assert (Cv : conn_val cfg st' d0 v0 = conn_val cfg st d0 v0 - term_val cfg st d0 v0 id + term_val cfg st' d0 v0 id).
    { unfold conn_val. rewrite T', T2. apply rsum_upd; assumption. }
    assert (T0 : term_val cfg st d0 v0 id = if pair_eqb (d, v) (d0, v0) then value (s_mult st d0) rf (l_amt l) else 0).
    { unfold term_val. rewrite Hc, Hl. reflexivity. }
    assert (T1 : term_val cfg st' d0 v0 id = if pair_eqb (d, v) (d0, v0) then value (s_mult st d0) rf (l_amt l + amt) else 0).
    { unfold term_val. rewrite M', Hm2, C', Hc2, K', K2, Hc, upd1_same. reflexivity. }
    rewrite Cv, T0, T1. specialize (D d0 v0). unfold drift in D.
    destruct (pair_eqb (d, v) (d0, v0)) eqn:E.
    + apply pair_eqb_eq in E. injection E as <- <-. rewrite upd2_same, Dt. fold m.
      unfold dtok at 1, shares_of. rewrite Hd2. fold (shares_of st d v). fold (dtok st d v).
      pose proof (value_add_bound m rf (l_amt l) amt Hm0 (proj2 W) ltac:(lia) ltac:(lia)) as Hb. fold va in Hb. lia.
    + apply pair_eqb_neq in E. rewrite upd2_other by congruence. unfold dtok, shares_of. rewrite Do by congruence. rewrite Hd2.
      fold (shares_of st d0 v0). fold (dtok st d0 v0). lia.
  - apply (dinv_unconn cfg st st2 B); [split; assumption|assumption|left; assumption|].
    intros id0 Hn. rewrite K2. rewrite upd1_other; [reflexivity|]. intros ->. contradiction.
Qed.

(* ---- epoch refresh ---- *)
Definition target (cfg : config) (st : state) (d v : Z) : Z := value (s_mult st d) (c_rf cfg) (conn_amt st d v).

Lemma conn_amt_nonneg : forall cfg st d v, linv cfg st -> 0 <= conn_amt st d v.
Proof.
  intros cfg st d v I. rewrite conn_amt_rsum. apply rsum_nonneg. intros id. unfold term_amt.
  destruct (s_conn st id); [|lia]. destruct (s_locks st id) as [l|] eqn:Hl; [|lia]. destruct (pair_eqb _ _); [|lia].
  pose proof (L_lock_wf _ _ I _ _ Hl). lia.
Qed.

Lemma target_ext : forall cfg st st' d v, lproj st' = lproj st -> s_mult st' = s_mult st -> target cfg st' d v = target cfg st d v.
Proof.
  intros cfg st st' d v H Hm. apply lproj_fields in H. destruct H as [H1 [H2 [H3 [H4 [H5 [H6 H7]]]]]].
  unfold target, conn_amt, term_amt. rewrite Hm, H2, H3, H5. reflexivity.
Qed.

Lemma refresh_one_spec : forall cfg st d v, wf_cfg cfg -> linv cfg st -> sinv cfg st ->
  exists st', refresh_one cfg st (d, v) = Ok st' /\ sinv cfg st' /\
    (In (d, v) (s_accs st) -> dtok st' d v = target cfg st d v) /\
    (forall d' v', (d', v') <> (d, v) -> s_deleg st' d' v' = s_deleg st d' v').
Proof.
  intros cfg st d v W I S. unfold refresh_one.
  destruct (mem_pair (d, v) (s_accs st)) eqn:Em; cbn [negb].
  2:{ exists st. split; [reflexivity|]. split; [assumption|]. split; [|intros; reflexivity].
      intros Hin. apply mem_pair_false in Em. contradiction. }
  apply mem_pair_In in Em.
  destruct (s_vals st v) as [val|] eqn:Hv; [|exfalso; apply (S_accval _ _ S _ _ Em); assumption].
  unfold bind. rewrite (dtok_spec cfg st d v S). unfold expected_delegation.
  rewrite (L_accum _ _ I).
  rewrite (sf_osmo_value cfg st d (conn_amt st d v) W (S_accsf _ _ S _ _ Em) (S_mult _ _ S d) (conn_amt_nonneg cfg st d v I)).
  fold (target cfg st d v). set (r := target cfg st d v). set (cur := dtok st d v).
  assert (Hr : 0 <= r) by (apply value_nonneg; [apply (S_mult _ _ S)|apply W|apply (conn_amt_nonneg cfg); assumption]).
  destruct (Z.ltb_spec cur r) as [Hlt|Hge].
  - destruct (mint_spec cfg st d v (r - cur) S Em ltac:(lia)) as [s [Em' [S' [Dt [Do _]]]]].
    rewrite Em'. exists s. split; [reflexivity|]. split; [assumption|]. split; [|assumption]. intros _. fold cur in Dt. lia.
  - destruct (Z.ltb_spec r cur) as [Hlt|Hge'].
    + destruct (force_spec cfg st d v (cur - r) S ltac:(lia)) as [[Dn _]|[Vn|[[_ [Hx _]]|[_ [_ [s [Ef [S' [Dt [Do _]]]]]]]]]].
      * exfalso. unfold cur, dtok, shares_of in Hlt. rewrite Dn in Hlt. cbn in Hlt. lia.
      * congruence.
      * fold cur in Hx. lia.
      * rewrite Ef. exists s. split; [reflexivity|]. split; [assumption|]. split; [|assumption]. intros _. fold cur in Dt. lia.
    + exists st. split; [reflexivity|]. split; [assumption|]. split; [|intros; reflexivity]. intros _. fold cur. lia.
Qed.

Lemma pair_in_dec : forall (k : Z * Z) l, {In k l} + {~ In k l}.
Proof. intros. apply in_dec. intros [a b] [c e]. destruct (Z.eq_dec a c), (Z.eq_dec b e); [left; congruence|right; congruence..]. Qed.

Lemma refresh_list_spec : forall cfg ks st, wf_cfg cfg -> linv cfg st -> sinv cfg st ->
  exists st', refresh_list cfg st ks = Ok st' /\ sinv cfg st' /\
    (forall d v, In (d, v) ks -> In (d, v) (s_accs st) -> dtok st' d v = target cfg st d v) /\
    (forall d v, ~ In (d, v) ks -> s_deleg st' d v = s_deleg st d v).
Proof.
  intros cfg. induction ks as [|[d v] r IH]; intros st W I S; cbn [refresh_list].
  - exists st. split; [reflexivity|]. split; [assumption|]. split; [intros d v []|intros; reflexivity].
  - destruct (refresh_one_spec cfg st d v W I S) as [st1 [E1 [S1 [X1 O1]]]]. rewrite E1. unfold bind.
    pose proof E1 as Fr. apply refresh_one_frame in Fr. destruct Fr as [Fr Frm].
    assert (I1 : linv cfg st1) by (apply (linv_ext cfg st); assumption).
    destruct (IH st1 W I1 S1) as [st' [E' [S' [X' O']]]]. exists st'. split; [assumption|]. split; [assumption|].
    pose proof Fr as Fr'. apply lproj_fields in Fr'. destruct Fr' as [F1 [F2 [F3 [F4 [F5 [F6 F7]]]]]].
    split.
    + intros d0 v0 Hin Hacc. destruct (pair_in_dec (d0, v0) r) as [Hr|Hr].
      * rewrite (X' d0 v0 Hr) by (rewrite F6; assumption). apply target_ext; assumption.
      * destruct Hin as [E|Hin]; [|contradiction]. injection E as <- <-.
        unfold dtok, shares_of. rewrite (O' d v Hr). fold (shares_of st1 d v). fold (dtok st1 d v). apply X1. assumption.
    + intros d0 v0 Hn. rewrite O' by (intros Hx; apply Hn; right; assumption).
      apply O1. intros E. apply Hn. left. congruence.
Qed.

Lemma d_quo_nonneg : forall a b, 0 <= a -> 0 < b -> 0 <= d_quo a b.
Proof.
  intros a b Ha Hb. unfold d_quo. pose proof P18_pos.
  apply (chop_round_bound P18 P18_pos P18_even). apply Z.quot_pos; nia.
Qed.

Lemma set_mults_sinv : forall cfg ins st st', sinv cfg st -> set_mults st ins = Ok st' -> sinv cfg st'.
Proof.
  intros cfg. induction ins as [|[d i] r IH]; intros st st' S H; cbn [set_mults] in H.
  - injection H as <-. assumption.
  - unfold bind in H. destruct (multiplier_of i) as [m|] eqn:Em; [|discriminate].
    apply IH in H; [assumption|].
    assert (Hm : 0 <= m).
    { unfold multiplier_of in Em. pose proof P18_pos. destruct i as [m0|osmo shares|osmo liq].
      - destruct (Z.ltb_spec m0 0); [discriminate|]. injection Em as <-. assumption.
      - destruct ((osmo <=? 0) || (shares <=? 0)) eqn:E; [discriminate|]. injection Em as <-.
        apply orb_false_iff in E. destruct E as [E1 E2]. apply Z.leb_gt in E1, E2. unfold d_from_int. apply d_quo_nonneg; nia.
      - destruct ((osmo <=? 0) || (liq <=? 0)) eqn:E; [discriminate|]. injection Em as <-.
        apply orb_false_iff in E. destruct E as [E1 E2]. apply Z.leb_gt in E1, E2. unfold d_from_int. apply d_quo_nonneg; nia. }
    constructor; ssimpl.
    + apply (S_vals _ _ S). + apply (S_deleg _ _ S). + apply (S_accval _ _ S). + apply (S_nodup _ _ S).
    + apply (S_sum _ _ S). + apply (S_sf _ _ S). + apply (S_accsf _ _ S).
    + intros d0. unfold upd1. destruct (d0 =? d); [assumption|apply (S_mult _ _ S)].
Qed.

Lemma refresh_order_covers : forall st order k, In k (s_accs st) -> In k (refresh_order st order).
Proof.
  intros st order k H. unfold refresh_order. apply in_or_app. destruct (mem_pair k order) eqn:E.
  - left. apply mem_pair_In. assumption.
  - right. apply filter_In. split; [assumption|]. rewrite E. reflexivity.
Qed.

(* after the epoch: every intermediary account's delegation is exactly the value of the total of its locks, which is
   what GetExpectedDelegationAmount reports; and the drift budget is the number of connected locks *)
Theorem epoch_spec : forall cfg st ins order st', wf_cfg cfg -> linv cfg st -> sinv cfg st ->
  epoch cfg st ins order = Ok st' ->
  sinv cfg st' /\ linv cfg st' /\
  (forall d v, In (d, v) (s_accs st') ->
     delegation_tokens st' d v = Ok (target cfg st' d v) /\ expected_delegation cfg st' d v = Ok (target cfg st' d v)) /\
  dinv cfg st' (conn_cnt st').
Proof.
  intros cfg st ins order st' W I S H. unfold epoch, bind in H.
  destruct (set_mults st ins) as [st1|] eqn:E1; [|discriminate].
  pose proof (set_mults_sinv cfg ins st st1 S E1) as S1.
  apply set_mults_frame in E1. destruct E1 as [E1 _].
  assert (I1 : linv cfg st1) by (apply (linv_ext cfg st); assumption).
  destruct (refresh_list_spec cfg (refresh_order st1 order) st1 W I1 S1) as [s [E2 [S2 [X2 O2]]]].
  rewrite E2 in H. injection H as <-.
  pose proof E2 as Fr. apply refresh_list_frame in Fr. destruct Fr as [Fr Frm].
  assert (I2 : linv cfg s) by (apply (linv_ext cfg st1); assumption).
  pose proof Fr as Fr'. apply lproj_fields in Fr'. destruct Fr' as [F1 [F2 [F3 [F4 [F5 [F6 F7]]]]]].
  assert (Ex : forall d v, In (d, v) (s_accs s) -> dtok s d v = target cfg s d v).
  { intros d v Hin. rewrite F6 in Hin. rewrite (X2 d v (refresh_order_covers st1 order _ Hin) Hin).
    symmetry. apply target_ext; assumption. }
  split; [assumption|]. split; [assumption|]. split.
  - intros d v Hin. split.
    + rewrite (dtok_spec cfg s d v S2). f_equal. apply Ex. assumption.
    + unfold expected_delegation. rewrite (L_accum _ _ I2).
      apply (sf_osmo_value cfg s d (conn_amt s d v) W (S_accsf _ _ S2 _ _ Hin) (S_mult _ _ S2 d) (conn_amt_nonneg cfg s d v I2)).
  - split; [assumption|]. intros d v. unfold drift. destruct (pair_in_dec (d, v) (s_accs s)) as [Hin|Hn].
    + rewrite (Ex d v Hin). unfold target. apply conn_sum_bound; [assumption|assumption|apply (S_mult _ _ S2)].
    + assert (Z0 : dtok s d v = 0) by (unfold dtok; rewrite (shares_not_acc cfg s d v S2 Hn); reflexivity).
      assert (Z1 : conn_val cfg s d v = 0).
      { unfold conn_val. rewrite <- (Z.add_0_r (rsum _ _)). unfold rsum.
        assert (T : forall id, term_val cfg s d v id = 0).
        { intros id. unfold term_val. destruct (s_conn s id) as [k|] eqn:Ec; [|reflexivity].
          destruct (s_locks s id); [|reflexivity]. destruct (pair_eqb k (d, v)) eqn:Ek; [|reflexivity].
          apply pair_eqb_eq in Ek. subst k. exfalso. apply Hn. apply (L_acc _ _ I2 _ _ Ec). }
        rewrite (zsum_map_ext _ (fun _ => 0)) by (intros; apply T).
        induction (ids_upto (s_last s)); cbn [map zsum]; lia. }
      rewrite Z0, Z1. cbn. apply rsum_nonneg. intros id. unfold term_cnt.
      destruct (s_conn s id); [|lia]. destruct (s_locks s id); [|lia]. destruct (pair_eqb _ _); lia.
Qed.

(* ---- frames of the synthetic-lock primitives and of the end-block cleanup ---- *)
Definition cproj (st : state) := (s_locks st, s_last st, s_conn st, s_accs st, s_deleg st, s_vals st, s_mult st).

Lemma cproj_fields : forall a b, cproj a = cproj b ->
  s_locks a = s_locks b /\ s_last a = s_last b /\ sproj a = sproj b.
Proof. intros a b H. unfold cproj in H. inversion H as [[H1 H2 H3 H4 H5 H6 H7]]. unfold sproj. rewrite H3, H4, H5, H6, H7. auto. Qed.

Lemma create_synth_cproj : forall cfg st id k d v st', create_synth cfg st id k d v = Ok st' -> cproj st' = cproj st.
Proof. intros. apply create_synth_ok in H. destruct H as [_ [l [e [_ [_ ->]]]]]. reflexivity. Qed.
Lemma delete_synth_cproj : forall st id k d v st', delete_synth st id k d v = Ok st' -> cproj st' = cproj st.
Proof. intros. apply delete_synth_ok in H. destruct H as [_ [l [_ ->]]]. reflexivity. Qed.

Lemma delete_matured_in_cproj : forall ys st id st', delete_matured_in st id ys = Ok st' -> cproj st' = cproj st.
Proof.
  induction ys as [|y r IH]; intros st id st' H; cbn [delete_matured_in] in H; [injection H as <-; reflexivity|].
  destruct (matured st (y_end y)); [|apply IH in H; assumption].
  destruct (delete_synth st id (y_kind y) (y_denom y) (y_val y)) eqn:E; [|discriminate].
  apply delete_synth_cproj in E. apply IH in H. congruence.
Qed.
Lemma delete_matured_synths_cproj : forall ids st st', delete_matured_synths st ids = Ok st' -> cproj st' = cproj st.
Proof.
  induction ids as [|id r IH]; intros st st' H; cbn [delete_matured_synths] in H; [injection H as <-; reflexivity|].
  unfold bind in H. destruct (delete_matured_in st id (s_synths st id)) eqn:E; [|discriminate].
  apply delete_matured_in_cproj in E. apply IH in H. congruence.
Qed.

Lemma dinv_cproj : forall cfg st st' B, dinv cfg st B -> cproj st' = cproj st -> dinv cfg st' B.
Proof.
  intros cfg st st' B D H. apply cproj_fields in H. destruct H as [H1 [H2 H3]].
  apply (dinv_unconn cfg st st' B D H3); [left; assumption|intros; rewrite H1; reflexivity].
Qed.

Lemma begin_unlock_dinv : forall cfg st B id amt st' n, linv cfg st -> dinv cfg st B ->
  begin_unlock st id amt = Ok (st', n) -> (forall x, amt = Some x -> 0 < x) -> dinv cfg st' B.
Proof.
  intros cfg st B id amt st' n I D E Hpos.
  apply (begin_unlock_linv cfg) in E; [|assumption|assumption].
  destruct E as [l [Hl [Hc [_ [_ [_ [_ [C [A [M [Dg [V [_ [_ [_ [_ Cases]]]]]]]]]]]]]]]].
  apply (dinv_unconn cfg st st' B D); [unfold sproj; congruence| |].
  - destruct Cases as [[_ [T _]]|[x [_ [_ [_ [T _]]]]]]; [left; assumption|].
    right. repeat split; [assumption|apply (L_last _ _ I)|]. apply (fresh_id cfg st _ I). lia.
  - intros id0 Hn. assert (id0 <> id) by (intros ->; contradiction).
    assert (id0 <> s_last st + 1).
    { destruct (s_conn st id0) as [k|] eqn:Ec; [|contradiction]. pose proof (conn_rng _ _ _ _ I Ec). lia. }
    destruct Cases as [[_ [_ K]]|[x [_ [_ [_ [_ [_ K]]]]]]]; rewrite K; rewrite ?upd1_other by assumption; reflexivity.
Qed.

(* ---- the budget along a history ---- *)
Definition budget_locktokens (st : state) (B : Z -> Z -> Z) (owner d dur : Z) : Z -> Z -> Z :=
  match find_existing st owner d dur (ids_upto (s_last st)) with Some id => budget_topup st B id | None => B end.

Definition budget_next (cfg : config) (st : state) (B : Z -> Z -> Z) (o : op) (st' : state) : Z -> Z -> Z :=
  match o with
  | OEpoch _ _ => conn_cnt st'
  | OTopUp _ id _ => budget_topup st B id
  | OLockTokens owner d _ dur => budget_locktokens st B owner d dur          (* a top-up when a matching lock exists *)
  | OLockAndDelegate owner d _ _ => budget_locktokens st B owner d (c_unb cfg)
  | _ => B
  end.

Lemma new_lock_dinv : forall cfg st B l, linv cfg st -> dinv cfg st B ->
  dinv cfg (set_last (put_lock st (s_last st + 1) l) (s_last st + 1)) B.
Proof.
  intros cfg st B l I D. pose proof (fresh_id _ _ (s_last st + 1) I ltac:(lia)) as [_ [_ F3]].
  apply (dinv_unconn cfg st _ B D); [reflexivity|right; ssimpl; repeat split; [apply (L_last _ _ I)|assumption]|].
  intros id0 Hn. ssimpl. apply upd1_other. destruct (s_conn st id0) as [k|] eqn:Ec; [|contradiction].
  pose proof (conn_rng _ _ _ _ I Ec). lia.
Qed.

Lemma lock_tokens_dinv : forall cfg st B owner d amt dur st' id, wf_cfg cfg -> linv cfg st -> dinv cfg st B ->
  lock_tokens cfg st owner d amt dur = Ok (st', id) -> dinv cfg st' (budget_locktokens st B owner d dur).
Proof.
  intros cfg st B owner d amt dur st' id W I D H. apply lock_tokens_cases in H. unfold budget_locktokens.
  destruct H as [[-> H]|[-> [Ha [Hd [_ ->]]]]].
  - eapply add_tokens_dinv; eassumption.
  - apply new_lock_dinv; assumption.
Qed.

Lemma convert_dinv : forall cfg st B sender id v x env_ok st', wf_cfg cfg -> linv cfg st -> dinv cfg st B ->
  convert cfg st sender id v x env_ok = Ok st' -> dinv cfg st' B.
Proof.
  intros cfg st B sender id v x env_ok st' W I D H. apply (convert_trace cfg) in H; try assumption.
  destruct H as [st1 [st2 [st3 [l3 [J1 [I1 [J2 [I2 [J3 [I3 [Hl3 [Ne3 [Hx _]]]]]]]]]]]]].
  assert (D1 : dinv cfg st1 B).
  { destruct J1 as [->|E1]; [assumption|]. apply (undelegate_common_dinv cfg st B sender id st1 W I D E1). }
  assert (D2 : dinv cfg st2 B).
  { destruct J2 as [->|[d0 [v0 E2]]]; [assumption|]. apply (dinv_cproj cfg st1 st2 B D1). eapply delete_synth_cproj; eassumption. }
  assert (D3 : dinv cfg st3 B).
  { destruct J3 as [->|[n E3]]; [assumption|]. apply (begin_unlock_dinv cfg st2 B id None st3 n I2 D2 E3). discriminate. }
  assert (D4 : dinv cfg (del_lock st3 id) B).
  { apply (dinv_unconn cfg st3 _ B D3); [reflexivity|left; reflexivity|].
    intros id0 Hn. ssimpl. apply upd1_other. intros ->.
    destruct (s_conn st3 id) as [[d0 v0]|] eqn:Ec; [|contradiction].
    destruct (conn_marker _ _ _ _ _ I3 Ec) as [_ [l0 [E0 [_ [E1 _]]]]]. congruence. }
  apply (external_delegate_dinv cfg (del_lock st3 id) B v x st' D4 Hx).
Qed.

Theorem step_dinv : forall cfg st B o st' nid,
  wf_cfg cfg -> linv cfg st -> dinv cfg st B -> step cfg st o = Ok (st', nid) -> dinv cfg st' (budget_next cfg st B o st').
Proof.
  intros cfg st B o st' nid W I D H. destruct o; cbn [step] in H; unfold bind in H; cbn [budget_next].
  - (* OLock *)
    destruct ((amt <=? 0) || (dur <? 0)) eqn:E; [discriminate|]. injection H as <- _. apply new_lock_dinv; assumption.
  - (* OTopUp *)
    destruct (add_tokens_to_lock cfg st owner id amt) as [s|] eqn:E; [|discriminate]. injection H as <- _.
    eapply add_tokens_dinv; eassumption.
  - (* OLockTokens *) eapply lock_tokens_dinv; eassumption.
  - (* OLockAndDelegate *)
    unfold lock_and_delegate, bind in H. destruct (lock_tokens cfg st owner denom amt (c_unb cfg)) as [[s1 i1]|] eqn:E1; [|discriminate].
    cbn [fst snd] in H. destruct (superfluid_delegate cfg s1 owner i1 v) as [s|] eqn:E; [|discriminate]. injection H as <- _.
    pose proof (lock_tokens_dinv cfg st B owner denom amt (c_unb cfg) s1 i1 W I D E1) as D1.
    apply (lock_tokens_linv cfg) in E1; [|assumption].
    eapply superfluid_delegate_dinv; eassumption.
  - (* OCreateAndDelegate *)
    unfold create_and_delegate, bind in H. destruct (Z.leb_spec amt 0); [discriminate|].
    match type of H with match ?c with _ => _ end = _ => destruct c as [s|] eqn:E; [|discriminate] end. injection H as <- _.
    eapply superfluid_delegate_dinv; [eassumption| |apply new_lock_dinv; eassumption|eassumption].
    apply new_lock_linv; cbn; try assumption; try lia. apply W.
  - (* ODelegate *)
    destruct (superfluid_delegate cfg st sender id v) as [s|] eqn:E; [|discriminate]. injection H as <- _.
    eapply superfluid_delegate_dinv; eassumption.
  - (* OUndelegate *)
    destruct (superfluid_undelegate cfg st sender id) as [s|] eqn:E; [|discriminate]. injection H as <- _.
    eapply superfluid_undelegate_dinv; eassumption.
  - (* OUnbondLock *)
    destruct (unbond_lock st id sender None) as [[s n]|] eqn:E; [|discriminate]. injection H as <- _. cbn [fst].
    apply (unbond_lock_linv cfg) in E; [|assumption|discriminate].
    destruct E as [l [y [Hl [_ [_ [Hc [_ E]]]]]]].
    apply (begin_unlock_core_linv cfg) in E; try assumption; [|discriminate].
    destruct E as [_ [_ [_ [C [A [M [Dg [V [_ [_ [_ [_ Cases]]]]]]]]]]]].
    destruct Cases as [[_ [T K]]|[x [Ex _]]]; [|discriminate].
    apply (dinv_unconn cfg st s B D); [unfold sproj; congruence|left; assumption|].
    intros id0 Hn. rewrite K. apply upd1_other. intros ->. contradiction.
  - (* OUndelegateAndUnbond *)
    unfold superfluid_undelegate_and_unbond in H.
    destruct (s_locks st id) as [l|] eqn:Hl; [|discriminate].
    destruct (Z.ltb_spec amt 0); [discriminate|]. destruct (Z.eqb_spec amt 0); [discriminate|].
    destruct (Z.ltb_spec (l_amt l) amt); [discriminate|].
    destruct (s_conn st id) as [[d v]|] eqn:Hc; [|discriminate].
    unfold bind in H.
    destruct (superfluid_undelegate cfg st sender id) as [st1|] eqn:E1; [|discriminate].
    pose proof (superfluid_undelegate_dinv cfg st B sender id st1 W I D E1) as D1.
    apply (superfluid_undelegate_linv cfg) in E1; try assumption.
    destruct E1 as [I1 [l0 [d0 [v0 [Hl0 [Hc0 [Hd0 [Ho0 [He0 [Hdur0 [C1 [S1 [K1 [N1 [T1 [M1 [A1 O1]]]]]]]]]]]]]]]]].
    rewrite Hl in Hl0. injection Hl0 as <-. rewrite Hc in Hc0. injection Hc0 as <- <-.
    destruct (unbond_lock st1 id sender (Some amt)) as [[st2 n2]|] eqn:E2; [|discriminate].
    apply (unbond_lock_linv cfg) in E2; [|assumption|intros x Ex; injection Ex as <-; lia].
    destruct E2 as [l1 [y1 [Hl1 [Hs1 [_ [_ [_ E2]]]]]]]. rewrite K1, Hl in Hl1. injection Hl1 as <-.
    apply (begin_unlock_core_linv cfg) in E2; try assumption; [|congruence|intros x Ex; injection Ex as <-; lia].
    destruct E2 as [I2 [N2 [S2 [C2 [A2 [M2 [Dg2 [V2 [_ [_ [_ [U2 Cases]]]]]]]]]]]].
    assert (D2 : dinv cfg st2 B).
    { apply (dinv_unconn cfg st1 st2 B D1); [unfold sproj; congruence| |].
      - destruct Cases as [[_ [T2 _]]|[x [_ [_ [_ [T2 _]]]]]]; [left; assumption|].
        right. repeat split; [assumption|apply (L_last _ _ I1)|]. apply (fresh_id cfg st1 _ I1). lia.
      - intros id0 Hn. assert (id0 <> id) by (intros ->; contradiction).
        assert (id0 <> s_last st1 + 1).
        { destruct (s_conn st1 id0) as [k|] eqn:Ec; [|contradiction]. pose proof (conn_rng _ _ _ _ I1 Ec). lia. }
        destruct Cases as [[_ [_ K2]]|[x [_ [_ [_ [_ [_ K2]]]]]]]; rewrite K2; rewrite ?upd1_other by assumption; reflexivity. }
    destruct (Z.eqb_spec (l_amt l) amt) as [Ea|Na].
    + destruct (n2 =? id); [|discriminate]. injection H as <- _. assumption.
    + destruct (Z.eqb_spec n2 id) as [|Nn]; [discriminate|].
      destruct Cases as [[Hn _]|[x [Ex [Hx [Hn [T2 [_ K2]]]]]]]; [contradiction|]. injection Ex as <-.
      destruct (delete_synth st2 id Unstaking (l_denom l) v) as [st3|] eqn:E3; [|discriminate].
      pose proof (dinv_cproj cfg st2 st3 B D2 (delete_synth_cproj _ _ _ _ _ _ E3)) as D3.
      apply (remove_unstaking_linv cfg) in E3; [|assumption]. destruct E3 as [I3 _].
      destruct (superfluid_delegate cfg st3 sender id v) as [st4|] eqn:E4; [|discriminate].
      pose proof (superfluid_delegate_dinv cfg st3 B sender id v st4 W I3 D3 E4) as D4.
      destruct (create_synth cfg st4 n2 Unstaking d v) as [st5|] eqn:E5; [|discriminate]. injection H as <- _.
      apply (dinv_cproj cfg st4 st5 B D4 (create_synth_cproj _ _ _ _ _ _ _ E5)).
  - (* OBeginUnlock *)
    destruct (s_locks st id) as [l|] eqn:Hl; [|discriminate].
    destruct (Z.eqb_spec (l_owner l) sender); [|discriminate]. cbn [negb] in H.
    destruct (begin_unlock st id None) as [[s n]|] eqn:E; [|discriminate]. injection H as <- _. cbn [fst].
    apply (begin_unlock_dinv cfg st B id None s n I D E). discriminate.
  - (* OBeginUnlockPartial *)
    destruct (s_locks st id) as [l|] eqn:Hl; [|discriminate].
    destruct (Z.eqb_spec (l_owner l) sender); [|discriminate]. cbn [negb] in H.
    destruct (Z.leb_spec amt 0); [discriminate|].
    apply (begin_unlock_dinv cfg st B id (Some amt) st' nid I D H). intros x Ex. injection Ex as <-. assumption.
  - (* OBeginUnlockAll *)
    destruct (begin_unlock_all st owner (ids_upto (s_last st))) as [s|] eqn:E; [|discriminate]. injection H as <- _.
    apply (begin_unlock_all_linv cfg) in E; [|assumption].
    destruct E as [_ [C [A [M [Dg [V [_ [_ [T [_ [_ K]]]]]]]]]]].
    apply (dinv_unconn cfg st s B D); [unfold sproj; congruence|left; assumption|assumption].
  - (* OForceUnlock *)
    destruct (force_unlock cfg st sender id) as [s|] eqn:E; [|discriminate]. injection H as <- _.
    apply (force_unlock_linv cfg) in E; [|assumption].
    destruct E as [_ [Hc [_ [C [A [M [Dg [V [_ [_ [T K]]]]]]]]]]].
    apply (dinv_unconn cfg st s B D); [unfold sproj; congruence|left; assumption|].
    intros id0 Hn. apply K. intros ->. contradiction.
  - (* OConvert *)
    destruct (convert cfg st sender id v x env_ok) as [s|] eqn:E; [|discriminate]. injection H as <- _.
    eapply convert_dinv; eassumption.
  - (* OWithdraw *)
    unfold unlock_matured_lock in H. destruct (s_locks st id) as [l|] eqn:Hl; [|discriminate].
    destruct (Z.eqb_spec (l_end l) 0) as [|Ne]; [discriminate|]. destruct (s_now st <? l_end l); [discriminate|].
    injection H as <- _.
    apply (dinv_unconn cfg st _ B D); [reflexivity|left; reflexivity|].
    intros id0 Hn. ssimpl. apply upd1_other. intros ->.
    destruct (s_conn st id) as [[d v]|] eqn:Ec; [|contradiction].
    destruct (conn_marker _ _ _ _ _ I Ec) as [_ [l0 [E0 [_ [E1 _]]]]]. congruence.
  - (* OAdvance *)
    destruct (Z.ltb_spec dt 0); [discriminate|]. injection H as <- _.
    apply (dinv_cproj cfg st _ B D). reflexivity.
  - (* OCleanup *)
    destruct (delete_matured_synths st (ids_upto (s_last st))) as [st1|] eqn:E; [|discriminate]. injection H as <- _.
    pose proof (dinv_cproj cfg st st1 B D (delete_matured_synths_cproj _ _ _ E)) as D1.
    apply (delete_matured_synths_linv cfg) in E; [|assumption]. destruct E as [I1 _].
    apply (dinv_unconn cfg st1 _ B D1); [reflexivity|left; reflexivity|].
    intros id0 Hn. unfold withdraw_matured. ssimpl.
    destruct (s_conn st1 id0) as [[d v]|] eqn:Ec; [|contradiction].
    destruct (conn_marker _ _ _ _ _ I1 Ec) as [_ [l0 [E0 [_ [E1 _]]]]]. rewrite E0, E1. reflexivity.
  - (* OEpoch *)
    destruct (epoch cfg st ins order) as [s|] eqn:E; [|discriminate]. injection H as <- _.
    destruct D as [S _]. apply (epoch_spec cfg st ins order s W I S E).
Qed.
