(* C11/LInv.v - the structural invariant of the lockup / superfluid tables (markers, connections,
   accumulators) and its preservation by the primitive functions of the model. *)
From Coq Require Import ZArith List Bool Lia.
Import ListNotations.
From Osmo Require Import Base.DecModel C11.Model C11.Arith C11.Basics.
Open Scope Z_scope.

Definition wf_cfg (cfg : config) : Prop := 0 <= c_unb cfg /\ 0 <= c_rf cfg <= P18.

(* amount of lock [id] if it is connected to the intermediary account (d, v) *)
Definition term_amt (st : state) (d v id : Z) : Z :=
  match s_conn st id, s_locks st id with
  | Some k, Some l => if pair_eqb k (d, v) then l_amt l else 0
  | _, _ => 0
  end.
(* total amount of the locks connected to (d, v) *)
Definition conn_amt (st : state) (d v : Z) : Z := zsum (map (term_amt st d v) (ids_upto (s_last st))).

(* status markers of lock [id]: none <-> not connected; a single staking synthetic lock <-> connected
   (to the same denom / validator, lock bonded and long enough); a single unstaking synthetic lock:
   not connected, ends within the unbonding period, and the lock cannot end before it *)
Definition marker (cfg : config) (st : state) (id : Z) : Prop :=
  match s_synths st id with
  | [] => s_conn st id = None
  | [y] => y_dur y = c_unb cfg /\
      match y_kind y with
      | Staking => s_conn st id = Some (y_denom y, y_val y) /\ y_end y = 0 /\
                   exists l, s_locks st id = Some l /\ l_denom l = y_denom y /\ l_end l = 0 /\ c_unb cfg <= l_dur l
      | Unstaking => s_conn st id = None /\ 0 < y_end y <= s_now st + c_unb cfg /\
                   forall l, s_locks st id = Some l -> (l_end l = 0 \/ y_end y <= l_end l) /\ c_unb cfg <= l_dur l
      end
  | _ => False
  end.

Record linv (cfg : config) (st : state) : Prop := {
  L_now : 0 < s_now st;
  L_last : 0 <= s_last st;
  L_lock_rng : forall id l, s_locks st id = Some l -> 1 <= id <= s_last st;
  L_lock_wf : forall id l, s_locks st id = Some l -> 0 < l_amt l /\ 0 <= l_dur l /\ 0 <= l_end l;
  L_synth_rng : forall id, s_synths st id <> [] -> 1 <= id <= s_last st;
  L_marker : forall id, marker cfg st id;
  L_acc : forall id k, s_conn st id = Some k -> In k (s_accs st);
  L_accum : forall d v, s_accum st Staking d v = conn_amt st d v }.

Lemma marker_local : forall cfg st st' id,
  s_synths st' id = s_synths st id -> s_conn st' id = s_conn st id -> s_now st <= s_now st' ->
  s_locks st' id = s_locks st id -> marker cfg st id -> marker cfg st' id.
Proof.
  intros cfg st st' id Hs Hc Hn Hl M. unfold marker in *. rewrite Hs, Hc, Hl.
  destruct (s_synths st id) as [|y [|]]; try assumption.
  destruct M as [Hd M]. split; [assumption|]. destruct (y_kind y); [assumption|].
  destruct M as [M1 [M2 M3]]. split; [assumption|]. split; [lia|assumption].
Qed.

Lemma conn_amt_ext : forall st st' d v, s_last st' = s_last st ->
  (forall id, 1 <= id <= s_last st -> term_amt st' d v id = term_amt st d v id) ->
  conn_amt st' d v = conn_amt st d v.
Proof.
  intros st st' d v Hl H. unfold conn_amt. rewrite Hl. apply zsum_map_ext.
  intros x Hx. apply H. apply ids_upto_In. assumption.
Qed.

Lemma conn_amt_upd : forall st st' d v i, s_last st' = s_last st -> 1 <= i <= s_last st ->
  (forall id, id <> i -> term_amt st' d v id = term_amt st d v id) ->
  conn_amt st' d v = conn_amt st d v - term_amt st d v i + term_amt st' d v i.
Proof.
  intros st st' d v i Hl Hi H. unfold conn_amt. rewrite Hl.
  apply zsum_map_upd; [apply ids_upto_NoDup|apply ids_upto_In; assumption|assumption].
Qed.

Lemma conn_amt_grow : forall st st' d v, s_last st' = s_last st + 1 -> 0 <= s_last st ->
  (forall id, 1 <= id <= s_last st -> term_amt st' d v id = term_amt st d v id) ->
  conn_amt st' d v = conn_amt st d v + term_amt st' d v (s_last st + 1).
Proof.
  intros st st' d v Hl H0 H. unfold conn_amt. rewrite Hl, ids_upto_succ by assumption.
  rewrite map_app, zsum_app. cbn [map zsum]. rewrite Z.add_0_r. f_equal.
  apply zsum_map_ext. intros x Hx. apply H. apply ids_upto_In. assumption.
Qed.

Lemma linv_ext : forall cfg st st', lproj st' = lproj st -> linv cfg st -> linv cfg st'.
Proof.
  intros cfg st st' H I. apply lproj_fields in H. destruct H as [H1 [H2 [H3 [H4 [H5 [H6 H7]]]]]].
  destruct I. constructor; try (rewrite ?H1, ?H2, ?H3, ?H4, ?H5, ?H6, ?H7; assumption).
  - intros id. unfold marker. rewrite H1, H2, H4, H5. apply L_marker0.
  - intros d v. unfold conn_amt, term_amt. rewrite H2, H3, H5, H7. apply L_accum0.
Qed.

(* consequences of the marker invariant *)
Lemma conn_marker : forall cfg st id d v, linv cfg st -> s_conn st id = Some (d, v) ->
  s_synths st id = [mkSynth Staking d v 0 (c_unb cfg)] /\
  exists l, s_locks st id = Some l /\ l_denom l = d /\ l_end l = 0 /\ c_unb cfg <= l_dur l.
Proof.
  intros cfg st id d v I H. pose proof (L_marker _ _ I id) as M. unfold marker in M.
  destruct (s_synths st id) as [|y [|]]; [congruence| |contradiction].
  destruct M as [Hd M]. destruct y as [k yd yv ye ydur]. cbn in *. destruct k.
  - destruct M as [Hc [He [l Hl]]]. rewrite H in Hc. inversion Hc; subst. split; [reflexivity|].
    exists l. assumption.
  - destruct M as [Hc _]. congruence.
Qed.

Lemma conn_rng : forall cfg st id k, linv cfg st -> s_conn st id = Some k -> 1 <= id <= s_last st.
Proof.
  intros cfg st id [d v] I H. destruct (conn_marker _ _ _ _ _ I H) as [Hs _].
  apply (L_synth_rng _ _ I). rewrite Hs. discriminate.
Qed.

Lemma fresh_id : forall cfg st id, linv cfg st -> s_last st < id ->
  s_locks st id = None /\ s_synths st id = [] /\ s_conn st id = None.
Proof.
  intros cfg st id I H. repeat split.
  - destruct (s_locks st id) eqn:E; [|reflexivity]. apply (L_lock_rng _ _ I) in E. lia.
  - destruct (s_synths st id) eqn:E; [reflexivity|]. assert (s_synths st id <> []) by congruence.
    apply (L_synth_rng _ _ I) in H0. lia.
  - destruct (s_conn st id) eqn:E; [|reflexivity]. apply (conn_rng _ _ _ _ I) in E. lia.
Qed.

Lemma synth_by_lock_spec : forall cfg st id r, linv cfg st -> synth_by_lock st id = r ->
  (s_synths st id = [] /\ r = Ok None) \/ (exists y, s_synths st id = [y] /\ r = Ok (Some y)).
Proof.
  intros cfg st id r I H. pose proof (L_marker _ _ I id) as M. unfold marker in M. unfold synth_by_lock in H.
  destruct (s_synths st id) as [|y [|]]; [left; auto|right; eauto|contradiction].
Qed.

(* ---- primitive: a new lock ---- *)
Lemma new_lock_linv : forall cfg st l, linv cfg st -> 0 < l_amt l -> 0 <= l_dur l -> 0 <= l_end l ->
  linv cfg (set_last (put_lock st (s_last st + 1) l) (s_last st + 1)).
Proof.
  intros cfg st l I Ha Hd He. pose proof (fresh_id _ _ (s_last st + 1) I ltac:(lia)) as [F1 [F2 F3]].
  pose proof (L_last _ _ I) as H0.
  constructor; ssimpl.
  - apply (L_now _ _ I).
  - lia.
  - intros id l0 H. unfold upd1 in H. destruct (Z.eqb_spec id (s_last st + 1)); [lia|].
    apply (L_lock_rng _ _ I) in H. lia.
  - intros id l0 H. unfold upd1 in H. destruct (Z.eqb_spec id (s_last st + 1)).
    + injection H as <-. auto.
    + apply (L_lock_wf _ _ I) in H. assumption.
  - intros id H. apply (L_synth_rng _ _ I) in H. lia.
  - intros id. destruct (Z.eq_dec id (s_last st + 1)) as [->|N].
    + unfold marker. ssimpl. rewrite F2. assumption.
    + apply (marker_local cfg st); ssimpl; try reflexivity; try lia; [rewrite upd1_other by assumption; reflexivity|apply (L_marker _ _ I)].
  - apply (L_acc _ _ I).
  - intros d v. rewrite (L_accum _ _ I).
    rewrite (conn_amt_grow st) with (st' := set_last (put_lock st (s_last st + 1) l) (s_last st + 1)); ssimpl; try lia.
    + unfold term_amt. ssimpl. rewrite F3. lia.
    + intros id Hid. unfold term_amt. ssimpl. rewrite upd1_other by lia. reflexivity.
Qed.

(* ---- primitive: overwrite an existing lock (amount and/or end time) with a matching accumulator ---- *)
Definition delta_for (st : state) (id d v : Z) (x : Z) : Z :=
  match s_conn st id with Some k => if pair_eqb k (d, v) then x else 0 | None => 0 end.

Lemma put_lock_linv : forall cfg st id l l' acc',
  linv cfg st -> s_locks st id = Some l ->
  l_denom l' = l_denom l -> l_dur l' = l_dur l -> 0 < l_amt l' -> 0 <= l_end l' ->
  (match s_synths st id with
   | [y] => match y_kind y with Staking => l_end l' = 0 | Unstaking => l_end l' = 0 \/ y_end y <= l_end l' end
   | _ => True end) ->
  (forall d v, acc' Staking d v = s_accum st Staking d v + delta_for st id d v (l_amt l' - l_amt l)) ->
  linv cfg (set_accum (put_lock st id l') acc').
Proof.
  intros cfg st id l l' acc' I Hl Hden Hdur Ha He Hm Hacc.
  pose proof (L_lock_rng _ _ I _ _ Hl) as Hr.
  constructor; ssimpl.
  - apply (L_now _ _ I).
  - apply (L_last _ _ I).
  - intros id0 l0 H. unfold upd1 in H. destruct (Z.eqb_spec id0 id); [subst; assumption|]. apply (L_lock_rng _ _ I _ _ H).
  - intros id0 l0 H. unfold upd1 in H. destruct (Z.eqb_spec id0 id).
    + injection H as <-. pose proof (L_lock_wf _ _ I _ _ Hl). lia.
    + apply (L_lock_wf _ _ I _ _ H).
  - apply (L_synth_rng _ _ I).
  - intros id0. destruct (Z.eq_dec id0 id) as [->|N].
    + pose proof (L_marker _ _ I id) as M. unfold marker in *. ssimpl. rewrite upd1_same.
      destruct (s_synths st id) as [|y [|]]; try assumption.
      destruct M as [Hd M]. split; [assumption|]. destruct (y_kind y).
      * destruct M as [M1 [M2 [l0 [E0 [M3 [M4 M5]]]]]]. rewrite Hl in E0. injection E0 as <-.
        repeat split; try assumption. exists l'. repeat split; congruence.
      * destruct M as [M1 [M2 M3]]. split; [assumption|]. split; [lia|].
        intros l0 E0; injection E0 as <-; destruct (M3 _ Hl) as [_ M5]. split; [assumption|lia].
    + apply (marker_local cfg st); ssimpl; try reflexivity; try lia; [rewrite upd1_other by assumption; reflexivity|apply (L_marker _ _ I)].
  - apply (L_acc _ _ I).
  - intros d v. rewrite Hacc, (L_accum _ _ I).
    rewrite (conn_amt_upd st (set_accum (put_lock st id l') acc') d v id); ssimpl; try reflexivity; try assumption.
    + unfold term_amt, delta_for. ssimpl. rewrite upd1_same, Hl.
      destruct (s_conn st id) as [k|]; [|lia]. destruct (pair_eqb k (d, v)); lia.
    + intros id0 N. unfold term_amt. ssimpl. rewrite upd1_other by assumption. reflexivity.
Qed.

(* the same without touching the accumulators, for locks that are not connected *)
Lemma put_lock_unconnected_linv : forall cfg st id l l',
  linv cfg st -> s_locks st id = Some l -> s_conn st id = None ->
  l_denom l' = l_denom l -> l_dur l' = l_dur l -> 0 < l_amt l' -> 0 <= l_end l' ->
  (forall y, s_synths st id = [y] -> l_end l' = 0 \/ y_end y <= l_end l') ->
  linv cfg (put_lock st id l').
Proof.
  intros cfg st id l l' I Hl Hc Hden Hdur Ha He Hm.
  apply (linv_ext cfg (set_accum (put_lock st id l') (s_accum st))); [reflexivity|].
  apply (put_lock_linv cfg st id l l'); try assumption.
  - pose proof (L_marker _ _ I id) as M. unfold marker in M.
    destruct (s_synths st id) as [|y [|]] eqn:E; try exact Logic.I.
    destruct M as [_ M]. destruct (y_kind y).
    + destruct M as [M _]. congruence.
    + apply Hm. reflexivity.
  - intros d v. unfold delta_for. rewrite Hc. lia.
Qed.

(* ---- primitive: advance the clock ---- *)
Lemma advance_linv : forall cfg st dt, linv cfg st -> 0 <= dt -> linv cfg (set_now st (s_now st + dt)).
Proof.
  intros cfg st dt I Hdt. destruct I. constructor; ssimpl; try assumption; try lia.
  intros id. apply (marker_local cfg st); ssimpl; try reflexivity; try lia. apply L_marker0.
Qed.

(* ---- primitive: delete an unlocking lock ---- *)
Lemma del_lock_linv : forall cfg st id l, linv cfg st -> s_locks st id = Some l -> l_end l <> 0 ->
  linv cfg (del_lock st id).
Proof.
  intros cfg st id l I Hl He.
  assert (Hc : s_conn st id = None).
  { destruct (s_conn st id) as [[d v]|] eqn:E; [|reflexivity].
    destruct (conn_marker _ _ _ _ _ I E) as [_ [l0 [E0 [_ [E1 _]]]]]. congruence. }
  constructor; ssimpl.
  - apply (L_now _ _ I).
  - apply (L_last _ _ I).
  - intros id0 l0 H. unfold upd1 in H. destruct (Z.eqb_spec id0 id); [discriminate|]. apply (L_lock_rng _ _ I _ _ H).
  - intros id0 l0 H. unfold upd1 in H. destruct (Z.eqb_spec id0 id); [discriminate|]. apply (L_lock_wf _ _ I _ _ H).
  - apply (L_synth_rng _ _ I).
  - intros id0. destruct (Z.eq_dec id0 id) as [->|N].
    + pose proof (L_marker _ _ I id) as M. unfold marker in *. ssimpl. rewrite upd1_same.
      destruct (s_synths st id) as [|y [|]]; try assumption.
      destruct M as [Hd M]. split; [assumption|]. destruct (y_kind y).
      * destruct M as [M1 _]. congruence.
      * destruct M as [M1 [M2 M3]]. split; [assumption|]. split; [lia|]. intros l0 E0; discriminate.
    + apply (marker_local cfg st); ssimpl; try reflexivity; try lia; [rewrite upd1_other by assumption; reflexivity|apply (L_marker _ _ I)].
  - apply (L_acc _ _ I).
  - intros d v. rewrite (L_accum _ _ I). symmetry. apply conn_amt_ext; ssimpl; [reflexivity|].
    intros id0 _. unfold term_amt. ssimpl. unfold upd1. destruct (Z.eqb_spec id0 id); [subst; rewrite Hc; reflexivity|reflexivity].
Qed.

(* ---- primitives on synthetic locks ---- *)
Lemma create_synth_ok : forall cfg st id k d v st', create_synth cfg st id k d v = Ok st' ->
  s_synths st id = [] /\ exists l e, s_locks st id = Some l /\
    (match k with Staking => e = 0 | Unstaking => c_unb cfg <= l_dur l /\ e = s_now st + c_unb cfg end) /\
    st' = set_accum (set_synths st (upd1 (s_synths st) id [mkSynth k d v e (c_unb cfg)]))
                    (upd3 (s_accum st) k d v (s_accum st k d v + l_amt l)).
Proof.
  intros cfg st id k d v st' H. unfold create_synth, bind, synth_by_lock in H.
  destruct (s_synths st id) as [|y [|]] eqn:Es; try discriminate. split; [reflexivity|].
  destruct (s_locks st id) as [l|]; [|discriminate]. destruct k.
  - injection H as <-. exists l, 0. repeat split.
  - destruct (Z.ltb_spec (l_dur l) (c_unb cfg)); [discriminate|]. injection H as <-.
    exists l, (s_now st + c_unb cfg). repeat split. assumption.
Qed.

Lemma delete_synth_ok : forall st id k d v st', delete_synth st id k d v = Ok st' ->
  existsb (synth_is k d v) (s_synths st id) = true /\ exists l, s_locks st id = Some l /\
    st' = set_accum (set_synths st (upd1 (s_synths st) id (filter (fun y => negb (synth_is k d v y)) (s_synths st id))))
                    (upd3 (s_accum st) k d v (s_accum st k d v - l_amt l)).
Proof.
  intros st id k d v st' H. unfold delete_synth in H.
  destruct (existsb (synth_is k d v) (s_synths st id)); [|discriminate]. split; [reflexivity|].
  destruct (s_locks st id) as [l|]; [|discriminate]. injection H as <-. exists l. split; reflexivity.
Qed.

Lemma synth_is_spec : forall k d v y, synth_is k d v y = true <-> y_kind y = k /\ y_denom y = d /\ y_val y = v.
Proof.
  intros. unfold synth_is. rewrite !andb_true_iff, skind_eqb_eq, !Z.eqb_eq. tauto.
Qed.

Lemma synth_is_refl : forall k d v e u, synth_is k d v (mkSynth k d v e u) = true.
Proof. intros. apply synth_is_spec. cbn. auto. Qed.

(* connect lock [id] to (d, v) and mark it with a staking synthetic lock *)
Lemma add_staking_linv : forall cfg st id l d v st3,
  linv cfg st -> s_locks st id = Some l -> l_denom l = d -> l_end l = 0 -> c_unb cfg <= l_dur l ->
  s_conn st id = None -> s_synths st id = [] ->
  create_synth cfg (set_conn (get_or_create_acc st d v) (upd1 (s_conn (get_or_create_acc st d v)) id (Some (d, v)))) id Staking d v = Ok st3 ->
  linv cfg st3 /\ s_conn st3 id = Some (d, v) /\ s_locks st3 = s_locks st /\ s_mult st3 = s_mult st /\
  s_deleg st3 = s_deleg st /\ s_vals st3 = s_vals st /\ s_supply st3 = s_supply st /\ s_offset st3 = s_offset st /\
  s_bonded st3 = s_bonded st /\ In (d, v) (s_accs st3) /\ s_now st3 = s_now st /\ s_last st3 = s_last st /\
  (forall id', id' <> id -> s_conn st3 id' = s_conn st id') /\ (forall k, In k (s_accs st) -> In k (s_accs st3)) /\
  (forall k, In k (s_accs st3) -> In k (s_accs st) \/ k = (d, v)).
Proof.
  intros cfg st id l d v st3 I Hl Hden Hend Hdur Hc Hs H.
  assert (Ga : forall k, In k (s_accs st) -> In k (s_accs (get_or_create_acc st d v))).
  { intros k Hk. unfold get_or_create_acc. destruct (mem_pair (d, v) (s_accs st)); ssimpl; [assumption|apply in_or_app; left; assumption]. }
  assert (Gb : In (d, v) (s_accs (get_or_create_acc st d v))).
  { unfold get_or_create_acc. destruct (mem_pair (d, v) (s_accs st)) eqn:E; ssimpl; [apply mem_pair_In; assumption|apply in_or_app; right; left; reflexivity]. }
  assert (Gd : forall k, In k (s_accs (get_or_create_acc st d v)) -> In k (s_accs st) \/ k = (d, v)).
  { intros k. unfold get_or_create_acc. destruct (mem_pair (d, v) (s_accs st)); ssimpl; [auto|].
    intros Hk. apply in_app_or in Hk. destruct Hk as [Hk|[Hk|[]]]; auto. }
  assert (Gc : lproj (set_accs st (s_accs (get_or_create_acc st d v))) = lproj (get_or_create_acc st d v) /\
               get_or_create_acc st d v = set_accs st (s_accs (get_or_create_acc st d v))).
  { unfold get_or_create_acc. destruct (mem_pair (d, v) (s_accs st)); ssimpl; split; try reflexivity. destruct st; reflexivity. }
  destruct Gc as [_ Gc]. set (accs' := s_accs (get_or_create_acc st d v)) in *. rewrite Gc in H. clear Gc.
  apply create_synth_ok in H. ssimpl. destruct H as [_ [l0 [e [E0 [Ee ->]]]]]. rewrite Hl in E0. injection E0 as <-. subst e.
  pose proof (L_lock_rng _ _ I _ _ Hl) as Hr.
  split; [|ssimpl; rewrite upd1_same; repeat split; try reflexivity; try assumption; intros; rewrite upd1_other by assumption; reflexivity].
  constructor; ssimpl.
  - apply (L_now _ _ I).
  - apply (L_last _ _ I).
  - apply (L_lock_rng _ _ I).
  - apply (L_lock_wf _ _ I).
  - intros id0 H. unfold upd1 in H. destruct (Z.eqb_spec id0 id); [subst; assumption|apply (L_synth_rng _ _ I _ H)].
  - intros id0. destruct (Z.eq_dec id0 id) as [->|N].
    + unfold marker. ssimpl. rewrite !upd1_same. cbn. repeat split. exists l. repeat split; assumption.
    + apply (marker_local cfg st); ssimpl; try reflexivity; try lia; try (rewrite upd1_other by assumption; reflexivity). apply (L_marker _ _ I).
  - intros id0 k H. unfold upd1 in H. destruct (Z.eqb_spec id0 id); [injection H as <-; assumption|].
    apply Ga. apply (L_acc _ _ I _ _ H).
  - intros d0 v0. set (st3 := set_accum _ _).
    rewrite (conn_amt_upd st st3 d0 v0 id); subst st3; ssimpl; try reflexivity; try assumption.
    + unfold term_amt. ssimpl. rewrite upd1_same, Hl, Hc.
      destruct (pair_eqb (d, v) (d0, v0)) eqn:E.
      * apply pair_eqb_eq in E. injection E as <- <-. rewrite upd3_same, (L_accum _ _ I). lia.
      * apply pair_eqb_neq in E. rewrite upd3_other_key by congruence. rewrite (L_accum _ _ I). lia.
    + intros id0 N. unfold term_amt. ssimpl. rewrite upd1_other by assumption. reflexivity.
Qed.

(* disconnect lock [id] and drop its staking synthetic lock *)
Lemma remove_staking_linv : forall cfg st id l d v st2,
  linv cfg st -> s_locks st id = Some l -> s_conn st id = Some (d, v) ->
  delete_synth (set_conn st (upd1 (s_conn st) id None)) id Staking (l_denom l) v = Ok st2 ->
  linv cfg st2 /\ s_conn st2 id = None /\ s_synths st2 id = [] /\ s_locks st2 = s_locks st /\ l_denom l = d /\
  l_end l = 0 /\ c_unb cfg <= l_dur l /\ s_mult st2 = s_mult st /\ s_accs st2 = s_accs st /\
  s_deleg st2 = s_deleg st /\ s_vals st2 = s_vals st /\ s_supply st2 = s_supply st /\ s_offset st2 = s_offset st /\
  s_bonded st2 = s_bonded st /\ s_now st2 = s_now st /\ s_last st2 = s_last st /\
  (forall id', id' <> id -> s_conn st2 id' = s_conn st id').
Proof.
  intros cfg st id l d v st2 I Hl Hc H.
  destruct (conn_marker _ _ _ _ _ I Hc) as [Hs [l0 [E0 [Hden [Hend Hdur]]]]]. rewrite Hl in E0. injection E0 as <-.
  apply delete_synth_ok in H. ssimpl. destruct H as [_ [l0 [E0 ->]]]. rewrite Hl in E0. injection E0 as <-.
  rewrite Hs, Hden. cbn [filter]. rewrite synth_is_refl. cbn [negb].
  pose proof (L_lock_rng _ _ I _ _ Hl) as Hr.
  split; [|ssimpl; rewrite !upd1_same; repeat split; try reflexivity; try assumption; intros; rewrite upd1_other by assumption; reflexivity].
  constructor; ssimpl.
  - apply (L_now _ _ I).
  - apply (L_last _ _ I).
  - apply (L_lock_rng _ _ I).
  - apply (L_lock_wf _ _ I).
  - intros id0 H. unfold upd1 in H. destruct (Z.eqb_spec id0 id); [congruence|apply (L_synth_rng _ _ I _ H)].
  - intros id0. destruct (Z.eq_dec id0 id) as [->|N].
    + unfold marker. ssimpl. rewrite !upd1_same. reflexivity.
    + apply (marker_local cfg st); ssimpl; try reflexivity; try lia; try (rewrite upd1_other by assumption; reflexivity). apply (L_marker _ _ I).
  - intros id0 k H. unfold upd1 in H. destruct (Z.eqb_spec id0 id); [discriminate|]. apply (L_acc _ _ I _ _ H).
  - intros d0 v0. set (st2 := set_accum _ _).
    rewrite (conn_amt_upd st st2 d0 v0 id); subst st2; ssimpl; try reflexivity; try assumption.
    + unfold term_amt. ssimpl. rewrite upd1_same, Hl, Hc.
      destruct (pair_eqb (d, v) (d0, v0)) eqn:E.
      * apply pair_eqb_eq in E. injection E as <- <-. rewrite upd3_same, (L_accum _ _ I). lia.
      * apply pair_eqb_neq in E. rewrite upd3_other_key by congruence. rewrite (L_accum _ _ I). lia.
    + intros id0 N. unfold term_amt. ssimpl. rewrite upd1_other by assumption. reflexivity.
Qed.

(* mark an unconnected lock with an unstaking synthetic lock *)
Lemma add_unstaking_linv : forall cfg st id l d v st',
  linv cfg st -> wf_cfg cfg -> s_locks st id = Some l -> s_conn st id = None ->
  (l_end l = 0 \/ s_now st + c_unb cfg <= l_end l) ->
  create_synth cfg st id Unstaking d v = Ok st' ->
  linv cfg st' /\ s_synths st' id = [mkSynth Unstaking d v (s_now st + c_unb cfg) (c_unb cfg)] /\
  lproj (set_accum (set_synths st' (s_synths st)) (s_accum st)) = lproj st /\
  s_mult st' = s_mult st /\ s_deleg st' = s_deleg st /\ s_vals st' = s_vals st /\ s_supply st' = s_supply st /\
  s_offset st' = s_offset st /\ s_bonded st' = s_bonded st /\ s_conn st' = s_conn st /\ s_locks st' = s_locks st /\
  s_accs st' = s_accs st /\ s_now st' = s_now st /\ s_last st' = s_last st.
Proof.
  intros cfg st id l d v st' I [W1 W2] Hl Hc He H.
  apply create_synth_ok in H. destruct H as [Hs [l0 [e [E0 [[Hdur ->] ->]]]]]. rewrite Hl in E0. injection E0 as <-.
  pose proof (L_lock_rng _ _ I _ _ Hl) as Hr. pose proof (L_now _ _ I) as Hn.
  split; [|ssimpl; rewrite upd1_same; repeat split; reflexivity].
  constructor; ssimpl.
  - assumption.
  - apply (L_last _ _ I).
  - apply (L_lock_rng _ _ I).
  - apply (L_lock_wf _ _ I).
  - intros id0 H. unfold upd1 in H. destruct (Z.eqb_spec id0 id); [subst; assumption|apply (L_synth_rng _ _ I _ H)].
  - intros id0. destruct (Z.eq_dec id0 id) as [->|N].
    + unfold marker. ssimpl. rewrite !upd1_same. cbn. split; [reflexivity|]. split; [assumption|]. split; [lia|].
      intros l0 E0; rewrite Hl in E0; injection E0 as <-. split; assumption.
    + apply (marker_local cfg st); ssimpl; try reflexivity; try lia; try (rewrite upd1_other by assumption; reflexivity). apply (L_marker _ _ I).
  - apply (L_acc _ _ I).
  - intros d0 v0. rewrite upd3_other_kind by discriminate. rewrite (L_accum _ _ I). apply conn_amt_ext; reflexivity.
Qed.

(* drop an unstaking synthetic lock *)
Lemma remove_unstaking_linv : forall cfg st id d v st',
  linv cfg st -> delete_synth st id Unstaking d v = Ok st' ->
  linv cfg st' /\ s_synths st' id = [] /\ s_conn st' = s_conn st /\ s_locks st' = s_locks st /\
  s_mult st' = s_mult st /\ s_deleg st' = s_deleg st /\ s_vals st' = s_vals st /\ s_supply st' = s_supply st /\
  s_offset st' = s_offset st /\ s_bonded st' = s_bonded st /\ s_accs st' = s_accs st /\ s_now st' = s_now st /\
  s_last st' = s_last st /\ (forall id', id' <> id -> s_synths st' id' = s_synths st id') /\
  (forall dd vv, s_accum st' Staking dd vv = s_accum st Staking dd vv).
Proof.
  intros cfg st id d v st' I H.
  apply delete_synth_ok in H. destruct H as [Hex [l [Hl ->]]].
  pose proof (L_marker _ _ I id) as M. unfold marker in M.
  destruct (s_synths st id) as [|y [|]] eqn:Es; [discriminate| |contradiction].
  cbn [existsb] in Hex. rewrite orb_false_r in Hex. cbn [filter]. rewrite Hex. cbn [negb].
  apply synth_is_spec in Hex. destruct Hex as [Hk _]. rewrite Hk in M. destruct M as [_ [Hc _]].
  split; [|ssimpl; rewrite upd1_same; repeat split; try reflexivity; intros;
            first [rewrite upd1_other by assumption; reflexivity|rewrite upd3_other_kind by discriminate; reflexivity]].
  constructor; ssimpl.
  - apply (L_now _ _ I).
  - apply (L_last _ _ I).
  - apply (L_lock_rng _ _ I).
  - apply (L_lock_wf _ _ I).
  - intros id0 H. unfold upd1 in H. destruct (Z.eqb_spec id0 id); [congruence|apply (L_synth_rng _ _ I _ H)].
  - intros id0. destruct (Z.eq_dec id0 id) as [->|N].
    + unfold marker. ssimpl. rewrite !upd1_same. assumption.
    + apply (marker_local cfg st); ssimpl; try reflexivity; try lia; try (rewrite upd1_other by assumption; reflexivity). apply (L_marker _ _ I).
  - apply (L_acc _ _ I).
  - intros d0 v0. rewrite upd3_other_kind by discriminate. rewrite (L_accum _ _ I). apply conn_amt_ext; reflexivity.
Qed.
