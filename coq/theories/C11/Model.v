(* C11 model: superfluid staking (x/superfluid/keeper/{stake,epoch,intermediary_account,
   synthetic_lock_wrapper,twap_price,superfluid_asset,hooks}.go), the part of x/lockup it drives
   (lock.go: CreateLock, AddTokensToLockByID, BeginUnlock, BeginForceUnlock, beginUnlock, SplitLock,
   UnlockMaturedLock, WithdrawMaturedLocks; synthetic_lock.go: Create/DeleteSyntheticLockup,
   GetSyntheticLockupByUnderlyingLockId, DeleteAllMaturedSyntheticLocks) and a deliberately small model
   of the SDK modules it calls (x/staking: Delegate, ValidateUnbondAmount, InstantUndelegate/Unbond and the
   validator share arithmetic of types/validator.go; x/bank: supply and supply offset of the bond denom).

   NOT modelled (see SCOPE in props/c11.py): slashing inside the theorem scope (the function [slash] below mirrors slash.go
   for gamm-share locks and is tied to the code by the correspondence run only), staking unbonding queue / validator
   status changes (validators stay bonded), distribution rewards and gauges, LP-token balances of owners,
   removal of superfluid assets, governance parameter changes, LegacyDec range panics.

   Conventions: identifiers (owners, denoms, validators) are integers; times are integer nanoseconds,
   0 = the zero time (lock not unlocking / staking synthetic lock); Dec values are raw 10^18 mantissas
   (Base/DecModel.v).  Errors are small integers (the enum of harness/c11drv classify); [Err] also stands
   for a Go panic (code 98).  Every message is all-or-nothing (DESIGN.md 1.5): see [apply].
   No proofs in this file. *)
From Coq Require Import ZArith List Bool.
Import ListNotations.
From Osmo Require Import Base.DecModel.
Open Scope Z_scope.

Inductive result (A : Type) := Ok (a : A) | Err (e : Z).
Arguments Ok {A} a.
Arguments Err {A} e.
Definition bind {A B} (r : result A) (f : A -> result B) : result B :=
  match r with Ok a => f a | Err e => Err e end.
Notation "'do' x <- r ; k" := (bind r (fun x => k)) (at level 200, x pattern, r at level 100, k at level 200).

(* error enum *)
Definition ELockNotFound := 1.
Definition ENotOwner := 2.
Definition ENotSuperfluidAsset := 3.
Definition EUnbondingLockup := 4.
Definition ENotEnoughDuration := 5.
Definition EAlreadyUsed := 6.
Definition EOsmoZero := 7.
Definition ENoValidator := 8.
Definition ENotSuperfluidUsed := 9.
Definition EBondingLockup := 10.
Definition EInvalidShares := 11.
Definition EAmountZero := 12.
Definition EExceeds := 13.
Definition EHasSynth := 14.
Definition EAlreadyUnlocking := 15.
Definition ENotUnlocking := 16.
Definition ENotMatured := 17.
Definition ESynthExists := 18.
Definition ESynthNotFound := 19.
Definition ENotAllowed := 21.
Definition ESuperfluidExists := 22.
Definition ENotGamm := 23.
Definition EOther := 97.
Definition EPanic := 98.

Record config := mkCfg {
  c_unb : Z;          (* staking UnbondingTime (ns) *)
  c_rf : Z;           (* superfluid MinimumRiskFactor (Dec raw) *)
  c_sf : list Z;      (* denoms registered as superfluid assets *)
  c_force : list Z;   (* owners on lockup's ForceUnlockAllowedAddresses list *)
  c_gamm : list Z }.  (* denoms that are gamm pool shares (the others are concentrated-liquidity shares) *)

Record lock := mkLock {
  l_owner : Z; l_denom : Z; l_amt : Z; l_dur : Z;
  l_end : Z }.        (* 0 = not unlocking *)

Inductive skind := Staking | Unstaking.       (* ".../superbonding/val" | ".../superunbonding/val" *)
Definition skind_eqb (a b : skind) : bool :=
  match a, b with Staking, Staking => true | Unstaking, Unstaking => true | _, _ => false end.

Record synth := mkSynth {
  y_kind : skind; y_denom : Z; y_val : Z;
  y_end : Z;          (* 0 for staking synthetic locks *)
  y_dur : Z }.

Record validator := mkVal { v_tokens : Z; v_shares : Z (* Dec raw *) }.

Record state := mkSt {
  s_now : Z;
  s_locks : Z -> option lock;          (* lock store: id -> lock *)
  s_last : Z;                          (* lockup LastLockID *)
  s_synths : Z -> list synth;          (* synthetic lock store: underlying lock id -> its synthetic locks *)
  s_conn : Z -> option (Z * Z);        (* lock id -> intermediary account (denom, validator) *)
  s_accs : list (Z * Z);               (* intermediary accounts (denom, validator), creation order *)
  s_deleg : Z -> Z -> option Z;        (* staking delegation shares (Dec raw) of account (denom, validator) *)
  s_vals : Z -> option validator;
  s_mult : Z -> Z;                     (* osmo equivalent multiplier per denom (Dec raw), 0 if unset *)
  s_accum : skind -> Z -> Z -> Z;      (* lockup accumulation store of the synthetic denom, durations >= unbonding *)
  s_supply : Z;                        (* bank supply of the bond denom *)
  s_offset : Z;                        (* bank supply offset of the bond denom *)
  s_bonded : Z }.                      (* bonded pool balance *)

Definition set_now (st : state) x := mkSt x (s_locks st) (s_last st) (s_synths st) (s_conn st) (s_accs st) (s_deleg st) (s_vals st) (s_mult st) (s_accum st) (s_supply st) (s_offset st) (s_bonded st).
Definition set_locks (st : state) x := mkSt (s_now st) x (s_last st) (s_synths st) (s_conn st) (s_accs st) (s_deleg st) (s_vals st) (s_mult st) (s_accum st) (s_supply st) (s_offset st) (s_bonded st).
Definition set_last (st : state) x := mkSt (s_now st) (s_locks st) x (s_synths st) (s_conn st) (s_accs st) (s_deleg st) (s_vals st) (s_mult st) (s_accum st) (s_supply st) (s_offset st) (s_bonded st).
Definition set_synths (st : state) x := mkSt (s_now st) (s_locks st) (s_last st) x (s_conn st) (s_accs st) (s_deleg st) (s_vals st) (s_mult st) (s_accum st) (s_supply st) (s_offset st) (s_bonded st).
Definition set_conn (st : state) x := mkSt (s_now st) (s_locks st) (s_last st) (s_synths st) x (s_accs st) (s_deleg st) (s_vals st) (s_mult st) (s_accum st) (s_supply st) (s_offset st) (s_bonded st).
Definition set_accs (st : state) x := mkSt (s_now st) (s_locks st) (s_last st) (s_synths st) (s_conn st) x (s_deleg st) (s_vals st) (s_mult st) (s_accum st) (s_supply st) (s_offset st) (s_bonded st).
Definition set_deleg (st : state) x := mkSt (s_now st) (s_locks st) (s_last st) (s_synths st) (s_conn st) (s_accs st) x (s_vals st) (s_mult st) (s_accum st) (s_supply st) (s_offset st) (s_bonded st).
Definition set_vals (st : state) x := mkSt (s_now st) (s_locks st) (s_last st) (s_synths st) (s_conn st) (s_accs st) (s_deleg st) x (s_mult st) (s_accum st) (s_supply st) (s_offset st) (s_bonded st).
Definition set_mult (st : state) x := mkSt (s_now st) (s_locks st) (s_last st) (s_synths st) (s_conn st) (s_accs st) (s_deleg st) (s_vals st) x (s_accum st) (s_supply st) (s_offset st) (s_bonded st).
Definition set_accum (st : state) x := mkSt (s_now st) (s_locks st) (s_last st) (s_synths st) (s_conn st) (s_accs st) (s_deleg st) (s_vals st) (s_mult st) x (s_supply st) (s_offset st) (s_bonded st).
Definition set_bank (st : state) sup off bnd := mkSt (s_now st) (s_locks st) (s_last st) (s_synths st) (s_conn st) (s_accs st) (s_deleg st) (s_vals st) (s_mult st) (s_accum st) sup off bnd.

(* ---- small finite-map helpers ---- *)
Definition upd1 {A} (f : Z -> A) (k : Z) (x : A) : Z -> A := fun k' => if k' =? k then x else f k'.
Definition upd2 {A} (f : Z -> Z -> A) (k1 k2 : Z) (x : A) : Z -> Z -> A :=
  fun a b => if (a =? k1) && (b =? k2) then x else f a b.
Definition upd3 (f : skind -> Z -> Z -> Z) (k : skind) (k1 k2 : Z) (x : Z) : skind -> Z -> Z -> Z :=
  fun c a b => if skind_eqb c k && (a =? k1) && (b =? k2) then x else f c a b.
Definition pair_eqb (a b : Z * Z) : bool := (fst a =? fst b) && (snd a =? snd b).
Definition mem_pair (k : Z * Z) (l : list (Z * Z)) : bool := existsb (pair_eqb k) l.

Definition put_lock (st : state) (id : Z) (l : lock) : state := set_locks st (upd1 (s_locks st) id (Some l)).
Definition del_lock (st : state) (id : Z) : state := set_locks st (upd1 (s_locks st) id None).

Definition synth_is (k : skind) (d v : Z) (y : synth) : bool :=
  skind_eqb (y_kind y) k && (y_denom y =? d) && (y_val y =? v).
Definition ids_upto (n : Z) : list Z := map Z.of_nat (seq 1 (Z.to_nat n)).

(* ---- x/superfluid: osmo value of an LP amount (twap_price.go, superfluid_asset.go) ---- *)
Definition is_sf (cfg : config) (d : Z) : bool := existsb (Z.eqb d) (c_sf cfg).
(* GetRiskAdjustedOsmoValue: amount - (amount * MinimumRiskFactor).RoundInt() *)
Definition risk_adjust (cfg : config) (x : Z) : Z := x - d_round_int (d_mul (d_from_int x) (c_rf cfg)).
(* GetSuperfluidOSMOTokens *)
Definition sf_osmo_tokens (cfg : config) (st : state) (d amt : Z) : result Z :=
  let m := s_mult st d in
  if m =? 0 then Ok 0 else
  let dec_amt := d_mul m (d_from_int amt) in
  if negb (is_sf cfg d) then Err ENotSuperfluidAsset else
  Ok (risk_adjust cfg (d_round_int dec_amt)).

(* ---- x/staking (model of an SDK module) ---- *)
(* Validator.TokensFromShares; division by zero panics *)
Definition tokens_from_shares (v : validator) (sh : Z) : result Z :=
  if v_shares v =? 0 then Err EPanic else Ok (d_quo (d_mul_int sh (v_tokens v)) (v_shares v)).

(* keeper.Delegate(delAddr, amt, Unbonded, validator, subtractAccount = true), validator bonded *)
Definition staking_delegate (st : state) (d v : Z) (val : validator) (amt : Z) : result state :=
  if (v_tokens val =? 0) && (0 <? v_shares val) then Err EOther (* ErrDelegatorShareExRateInvalid *) else
  let issued := if v_shares val =? 0 then d_from_int amt
                else d_quo_int (d_mul_int (v_shares val) amt) (v_tokens val) in    (* AddTokensFromDel *)
  let val' := mkVal (v_tokens val + amt) (v_shares val + issued) in
  let old := match s_deleg st d v with Some s => s | None => 0 end in
  let st1 := set_vals st (upd1 (s_vals st) v (Some val')) in
  let st2 := set_deleg st1 (upd2 (s_deleg st1) d v (Some (old + issued))) in
  Ok (set_bank st2 (s_supply st2) (s_offset st2) (s_bonded st2 + amt)).

(* mintOsmoTokensAndDelegate: validateValAddrForDelegate, then (ApplyFuncIfNoError, all-or-nothing)
   MintCoins + AddSupplyOffset(-amt) + send to the intermediary account + Delegate *)
Definition mint_and_delegate (st : state) (d v : Z) (amt : Z) : result state :=
  match s_vals st v with
  | None => Err ENoValidator
  | Some val =>
      if amt <=? 0 then Err EPanic (* sdk.NewCoin / invalid coins *) else
      let st1 := set_bank st (s_supply st + amt) (s_offset st - amt) (s_bonded st) in
      staking_delegate st1 d v val amt
  end.

(* forceUndelegateAndBurnOsmoTokens: ValidateUnbondAmount, then (all-or-nothing) InstantUndelegate,
   send to module, BurnCoins, AddSupplyOffset(+burnt) *)
Definition force_undelegate_and_burn (st : state) (d v : Z) (amt : Z) : result state :=
  match s_vals st v with
  | None => Err ENoValidator
  | Some val =>
    match s_deleg st d v with
    | None => Ok st                                      (* ErrNoDelegation -> nil *)
    | Some dsh =>
      if v_tokens val =? 0 then Err EOther (* ErrInsufficientShares *) else
      let shares0 := d_quo_int (d_mul_int (v_shares val) amt) (v_tokens val) in           (* SharesFromTokens *)
      let shares_tr := d_quo_truncate (d_mul_int (v_shares val) amt) (d_from_int (v_tokens val)) in
      if dsh <? shares_tr then Err EInvalidShares else
      let shares := if dsh <? shares0 then dsh else shares0 in
      (* Unbond *)
      if dsh <? shares then Err EOther else
      let dsh' := dsh - shares in
      let remaining := v_shares val - shares in                                          (* RemoveDelShares *)
      do it <- (if remaining =? 0 then Ok (v_tokens val, 0)
                else do tfs <- tokens_from_shares val shares;
                     let issued := d_truncate_int tfs in
                     if v_tokens val - issued <? 0 then Err EPanic else Ok (issued, v_tokens val - issued));
      let '(issued, tokens') := it in
      let st1 := set_deleg st (upd2 (s_deleg st) d v (if dsh' =? 0 then None else Some dsh')) in
      let st2 := set_vals st1 (upd1 (s_vals st1) v (Some (mkVal tokens' remaining))) in
      Ok (set_bank st2 (s_supply st2 - issued) (s_offset st2 + issued) (s_bonded st2 - issued))
    end
  end.

(* ---- x/lockup synthetic locks ---- *)
(* GetSyntheticLockupByUnderlyingLockId: error when more than one *)
Definition synth_by_lock (st : state) (id : Z) : result (option synth) :=
  match s_synths st id with
  | [] => Ok None
  | [y] => Ok (Some y)
  | _ => Err EOther
  end.

(* CreateSyntheticLockup (called through createSyntheticLockup with duration = unbonding time) *)
Definition create_synth (cfg : config) (st : state) (id : Z) (k : skind) (d v : Z) : result state :=
  do found <- synth_by_lock st id;
  match found with
  | Some _ => Err ESynthExists
  | None =>
    match s_locks st id with
    | None => Err ELockNotFound
    | Some l =>
      do e <- (match k with
               | Unstaking => if l_dur l <? c_unb cfg then Err EOther (* ErrSyntheticDurationLongerThanNative *)
                              else Ok (s_now st + c_unb cfg)
               | Staking => Ok 0
               end);
      let st1 := set_synths st (upd1 (s_synths st) id (s_synths st id ++ [mkSynth k d v e (c_unb cfg)])) in
      Ok (set_accum st1 (upd3 (s_accum st1) k d v (s_accum st1 k d v + l_amt l)))
    end
  end.

(* DeleteSyntheticLockup(lockID, synthdenom) *)
Definition delete_synth (st : state) (id : Z) (k : skind) (d v : Z) : result state :=
  if negb (existsb (synth_is k d v) (s_synths st id)) then Err ESynthNotFound else
  match s_locks st id with
  | None => Err ELockNotFound
  | Some l =>
    let st1 := set_synths st (upd1 (s_synths st) id (filter (fun y => negb (synth_is k d v y)) (s_synths st id))) in
    Ok (set_accum st1 (upd3 (s_accum st1) k d v (s_accum st1 k d v - l_amt l)))
  end.

(* beginUnlock(lock, coins): [amt = None] is the empty coin list (whole lock).  Returns the id that is unlocking. *)
Definition begin_unlock_core (st : state) (id : Z) (l : lock) (amt : option Z) : result (state * Z) :=
  if (match amt with Some x => l_amt l <? x | None => false end) then Err EExceeds else
  if negb (l_end l =? 0) then Err EAlreadyUnlocking else
  let whole := Ok (put_lock st id (mkLock (l_owner l) (l_denom l) (l_amt l) (l_dur l) (s_now st + l_dur l)), id) in
  match amt with
  | Some x =>
    if x =? l_amt l then whole
    else
      (* SplitLock: the old lock keeps amt - x, a new lock (LastLockID + 1) takes x and starts unlocking *)
      let nid := s_last st + 1 in
      let old := mkLock (l_owner l) (l_denom l) (l_amt l - x) (l_dur l) (l_end l) in
      let new := mkLock (l_owner l) (l_denom l) x (l_dur l) (s_now st + l_dur l) in
      Ok (set_last (put_lock (put_lock st id old) nid new) nid, nid)
  | None => whole
  end.

(* ---- x/superfluid messages ---- *)
(* GetOrCreateIntermediaryAccount (the gauge it creates is not modelled) *)
Definition get_or_create_acc (st : state) (d v : Z) : state :=
  if mem_pair (d, v) (s_accs st) then st else set_accs st (s_accs st ++ [(d, v)]).

(* alreadySuperfluidStaking *)
Definition already_sf_staking (st : state) (id : Z) : bool :=
  match s_conn st id with
  | Some _ => true
  | None => match synth_by_lock st id with Ok (Some _) => true | _ => false end
  end.

(* SuperfluidDelegate(sender, lockID, valAddr) *)
Definition superfluid_delegate (cfg : config) (st : state) (sender id v : Z) : result state :=
  match s_locks st id with
  | None => Err ELockNotFound
  | Some l =>
    (* validateLockForSFDelegate *)
    if negb (l_owner l =? sender) then Err ENotOwner else
    if negb (is_sf cfg (l_denom l)) then Err ENotSuperfluidAsset else
    if negb (l_end l =? 0) then Err EUnbondingLockup else
    if l_dur l <? c_unb cfg then Err ENotEnoughDuration else
    if already_sf_staking st id then Err EAlreadyUsed else
    let d := l_denom l in
    let st1 := get_or_create_acc st d v in
    let st2 := set_conn st1 (upd1 (s_conn st1) id (Some (d, v))) in
    do st3 <- create_synth cfg st2 id Staking d v;
    do amount <- sf_osmo_tokens cfg st3 d (l_amt l);
    if amount =? 0 then Err EOsmoZero else
    mint_and_delegate st3 d v amount
  end.

(* undelegateCommon + SuperfluidUndelegate *)
Definition superfluid_undelegate (cfg : config) (st : state) (sender id : Z) : result state :=
  match s_locks st id with
  | None => Err ELockNotFound
  | Some l =>
    if negb (l_owner l =? sender) then Err ENotOwner else
    match s_conn st id with
    | None => Err ENotSuperfluidUsed
    | Some (d, v) =>
      let st1 := set_conn st (upd1 (s_conn st) id None) in
      do st2 <- delete_synth st1 id Staking (l_denom l) v;
      do amount <- sf_osmo_tokens cfg st2 d (l_amt l);
      do st3 <- force_undelegate_and_burn st2 d v amount;
      create_synth cfg st3 id Unstaking d v
    end
  end.

(* unbondLock(lockId, sender, coins) *)
Definition unbond_lock (st : state) (id sender : Z) (amt : option Z) : result (state * Z) :=
  match s_locks st id with
  | None => Err ELockNotFound
  | Some l =>
    if negb (l_owner l =? sender) then Err ENotOwner else
    do found <- synth_by_lock st id;
    match found with
    | None => Err ENotSuperfluidUsed
    | Some y =>
      if (y_end y =? 0) then Err EBondingLockup else       (* !synthLock.IsUnlocking() *)
      begin_unlock_core st id l amt                         (* BeginForceUnlock *)
    end
  end.

(* SuperfluidUndelegateAndUnbondLock(lockID, sender, amount) -> id of the unlocking lock *)
Definition superfluid_undelegate_and_unbond (cfg : config) (st : state) (sender id amt : Z) : result (state * Z) :=
  match s_locks st id with
  | None => Err ELockNotFound
  | Some l =>
    if amt <? 0 then Err EPanic else
    if amt =? 0 then Err EAmountZero else
    if l_amt l <? amt then Err EExceeds else
    match s_conn st id with
    | None => Err ENotSuperfluidUsed
    | Some (d, v) =>
      do st1 <- superfluid_undelegate cfg st sender id;
      do r <- unbond_lock st1 id sender (Some amt);
      let '(st2, nid) := r in
      if l_amt l =? amt then
        (if nid =? id then Ok (st2, id) else Err EPanic)
      else
        if nid =? id then Err EPanic else
        do st3 <- delete_synth st2 id Unstaking (l_denom l) v;
        do st4 <- superfluid_delegate cfg st3 sender id v;
        do st5 <- create_synth cfg st4 nid Unstaking d v;
        Ok (st5, nid)
    end
  end.

(* IncreaseSuperfluidDelegation, as called by the lockup hook AfterAddTokensToLock (errors are logged and dropped) *)
Definition increase_sf_delegation (cfg : config) (st : state) (id : Z) (l : lock) (amt : Z) : state :=
  match s_conn st id with
  | None => st
  | Some (d, v) =>
    match sf_osmo_tokens cfg st d (if l_denom l =? d then amt else 0) with
    | Err _ => st
    | Ok osmo =>
      if osmo =? 0 then st else
      match mint_and_delegate st d v osmo with Ok st' => st' | Err _ => st end
    end
  end.

(* lockup AddTokensToLockByID(lockID, owner, coin) *)
Definition add_tokens_to_lock (cfg : config) (st : state) (owner id amt : Z) : result state :=
  match s_locks st id with
  | None => Err ELockNotFound
  | Some l =>
    if negb (l_owner l =? owner) then Err ENotOwner else
    if amt <=? 0 then Err EPanic (* zero / negative top-ups are outside the modelled domain *) else
    let l' := mkLock (l_owner l) (l_denom l) (l_amt l + amt) (l_dur l) (l_end l) in
    let st1 := put_lock st id l' in
    do found <- synth_by_lock st1 id;
    let st2 := match found with
               | Some y => set_accum st1 (upd3 (s_accum st1) (y_kind y) (y_denom y) (y_val y)
                                               (s_accum st1 (y_kind y) (y_denom y) (y_val y) + amt))
               | None => st1
               end in
    Ok (increase_sf_delegation cfg st2 id l' amt)
  end.

(* lockup MsgLockTokens: add to the owner's first bonded lock of the same denom and duration (ids ascending, as the
   lock-reference index iterates), else create a new lock *)
Fixpoint find_existing (st : state) (owner d dur : Z) (ids : list Z) : option Z :=
  match ids with
  | [] => None
  | id :: r =>
    match s_locks st id with
    | Some l => if (l_owner l =? owner) && (l_denom l =? d) && (l_dur l =? dur) && (l_end l =? 0) then Some id
                else find_existing st owner d dur r
    | None => find_existing st owner d dur r
    end
  end.
Definition lock_tokens (cfg : config) (st : state) (owner d amt dur : Z) : result (state * Z) :=
  if (amt <=? 0) || (dur <? 0) then Err EPanic else
  match find_existing st owner d dur (ids_upto (s_last st)) with
  | Some id => do st' <- add_tokens_to_lock cfg st owner id amt; Ok (st', id)
  | None => let id := s_last st + 1 in Ok (set_last (put_lock st id (mkLock owner d amt dur 0)) id, id)
  end.

(* MsgLockAndSuperfluidDelegate: LockTokens with the unbonding time as duration, then SuperfluidDelegate of that lock *)
Definition lock_and_delegate (cfg : config) (st : state) (owner d amt v : Z) : result (state * Z) :=
  do r <- lock_tokens cfg st owner d amt (c_unb cfg);
  do st' <- superfluid_delegate cfg (fst r) owner (snd r) v;
  Ok (st', snd r).

(* MsgCreateFullRangePositionAndSuperfluidDelegate: a fresh lock holding the position's shares (the amount is an input:
   the concentrated pool is not modelled), then SuperfluidDelegate *)
Definition create_and_delegate (cfg : config) (st : state) (owner d amt v : Z) : result (state * Z) :=
  if amt <=? 0 then Err EPanic else
  let id := s_last st + 1 in
  do st' <- superfluid_delegate cfg (set_last (put_lock st id (mkLock owner d amt (c_unb cfg) 0)) id) owner id v;
  Ok (st', id).

(* ---- epoch ---- *)
(* how a multiplier is obtained (epoch.go UpdateOsmoEquivalentMultipliers / twap_price.go) *)
Inductive minput :=
| MDirect (m : Z)                    (* SetOsmoEquivalentMultiplier with a given Dec *)
| MPool (osmo shares : Z)            (* gamm: osmoInPool.ToLegacyDec().Quo(totalShares.ToLegacyDec()) *)
| MCL (osmo liq : Z).                (* concentrated: osmo.ToLegacyDec().Quo(fullRangeLiquidity), liq a Dec raw *)

Definition multiplier_of (i : minput) : result Z :=
  match i with
  | MDirect m => if m <? 0 then Err EPanic else Ok m
  | MPool osmo shares => if (osmo <=? 0) || (shares <=? 0) then Err EOther else Ok (d_quo (d_from_int osmo) (d_from_int shares))
  | MCL osmo liq => if (osmo <=? 0) || (liq <=? 0) then Err EOther else Ok (d_quo (d_from_int osmo) liq)
  end.

Fixpoint set_mults (st : state) (ins : list (Z * minput)) : result state :=
  match ins with
  | [] => Ok st
  | (d, i) :: r => do m <- multiplier_of i; set_mults (set_mult st (upd1 (s_mult st) d m)) r
  end.

(* GetExpectedDelegationAmount *)
Definition expected_delegation (cfg : config) (st : state) (d v : Z) : result Z :=
  sf_osmo_tokens cfg st d (s_accum st Staking d v).

(* current delegation of an account in tokens: validator.TokensFromShares(shares).RoundInt() *)
Definition delegation_tokens (st : state) (d v : Z) : result Z :=
  match s_deleg st d v, s_vals st v with
  | Some sh, Some val => do t <- tokens_from_shares val sh; Ok (d_round_int t)
  | _, _ => Ok 0
  end.

(* one iteration of RefreshIntermediaryDelegationAmounts *)
Definition refresh_one (cfg : config) (st : state) (k : Z * Z) : result state :=
  let '(d, v) := k in
  if negb (mem_pair k (s_accs st)) then Ok st else
  match s_vals st v with
  | None => Ok st                                      (* validator not found: continue *)
  | Some val =>
    do cur <- delegation_tokens st d v;
    match expected_delegation cfg st d v with
    | Err _ => Err EPanic                              (* nil Int compared: panic *)
    | Ok refreshed =>
      if cur <? refreshed then
        match mint_and_delegate st d v (refreshed - cur) with Ok st' => Ok st' | Err _ => Ok st end
      else if refreshed <? cur then
        match force_undelegate_and_burn st d v (cur - refreshed) with Ok st' => Ok st' | Err _ => Ok st end
      else Ok st
    end
  end.

Fixpoint refresh_list (cfg : config) (st : state) (ks : list (Z * Z)) : result state :=
  match ks with
  | [] => Ok st
  | k :: r => do st1 <- refresh_one cfg st k; refresh_list cfg st1 r
  end.

(* the refresh order: the store order reported by the implementation ([order]) followed by any account it
   does not mention - every intermediary account is refreshed *)
Definition refresh_order (st : state) (order : list (Z * Z)) : list (Z * Z) :=
  order ++ filter (fun k => negb (mem_pair k order)) (s_accs st).

(* AfterEpochStartBeginBlock restricted to: update multipliers, RefreshIntermediaryDelegationAmounts *)
Definition epoch (cfg : config) (st : state) (ins : list (Z * minput)) (order : list (Z * Z)) : result state :=
  do st1 <- set_mults st ins;
  refresh_list cfg st1 (refresh_order st1 order).

(* ---- lockup end blocker pieces ---- *)
Definition matured (st : state) (e : Z) : bool := negb (e =? 0) && (e <=? s_now st).

(* DeleteAllMaturedSyntheticLocks: a failing DeleteSyntheticLockup panics.  [ys]: the synthetic locks of lock [id] when the
   iteration reaches it; the outer loop runs over all lock ids ever issued *)
Fixpoint delete_matured_in (st : state) (id : Z) (ys : list synth) : result state :=
  match ys with
  | [] => Ok st
  | y :: r =>
    if matured st (y_end y) then
      match delete_synth st id (y_kind y) (y_denom y) (y_val y) with
      | Ok st1 => delete_matured_in st1 id r
      | Err _ => Err EPanic
      end
    else delete_matured_in st id r
  end.
Fixpoint delete_matured_synths (st : state) (ids : list Z) : result state :=
  match ids with
  | [] => Ok st
  | id :: r => do st1 <- delete_matured_in st id (s_synths st id); delete_matured_synths st1 r
  end.

(* UnlockMaturedLock *)
Definition unlock_matured_lock (st : state) (id : Z) : result state :=
  match s_locks st id with
  | None => Err ELockNotFound
  | Some l =>
    if l_end l =? 0 then Err ENotUnlocking else
    if s_now st <? l_end l then Err ENotMatured else
    Ok (del_lock st id)
  end.

(* WithdrawMaturedLocks (the bound of 1000 locks per block is not modelled) *)
Definition withdraw_matured (st : state) : state :=
  set_locks st (fun id => match s_locks st id with
                          | Some l => if matured st (l_end l) then None else Some l
                          | None => None
                          end).

(* lockup BeginUnlock(lockID, coins): refuses locks that carry a synthetic lock *)
Definition begin_unlock (st : state) (id : Z) (amt : option Z) : result (state * Z) :=
  match s_locks st id with
  | None => Err ELockNotFound
  | Some l =>
    if negb (match s_synths st id with [] => true | _ => false end) then Err EHasSynth else  (* HasAnySyntheticLockups *)
    begin_unlock_core st id l amt
  end.

(* lockup BeginUnlockAllNotUnlockings(owner): BeginUnlock(id, nil) for every not-unlocking lock of the owner; the first error
   aborts (ids in ascending order; the store iterates by duration, which only matters for which error is reported) *)
Fixpoint begin_unlock_all (st : state) (owner : Z) (ids : list Z) : result state :=
  match ids with
  | [] => Ok st
  | id :: r =>
    match s_locks st id with
    | Some l =>
      if (l_owner l =? owner) && (l_end l =? 0) then
        do x <- begin_unlock st id None; begin_unlock_all (fst x) owner r
      else begin_unlock_all st owner r
    | None => begin_unlock_all st owner r
    end
  end.

(* lockup MsgForceUnlock (whole lock): only for whitelisted owners, refused when a synthetic lock exists; otherwise the lock
   is released at once *)
Definition force_unlock (cfg : config) (st : state) (sender id : Z) : result state :=
  match s_locks st id with
  | None => Err ELockNotFound
  | Some l =>
    if negb (l_owner l =? sender) then Err ENotOwner else
    if negb (existsb (Z.eqb sender) (c_force cfg)) then Err ENotAllowed else
    do found <- synth_by_lock st id;
    match found with
    | Some _ => Err ESuperfluidExists
    | None =>
      (* PartialForceUnlock -> ForceUnlock: BeginUnlock if not yet unlocking, then unlockMaturedLockInternalLogic *)
      do st1 <- (if l_end l =? 0 then do x <- begin_unlock st id None; Ok (fst x) else Ok st);
      Ok (del_lock st1 id)
    end
  end.

(* undelegateCommon (the part of SuperfluidUndelegate before the unstaking marker is created) *)
Definition undelegate_common (cfg : config) (st : state) (sender id : Z) : result state :=
  match s_locks st id with
  | None => Err ELockNotFound
  | Some l =>
    if negb (l_owner l =? sender) then Err ENotOwner else
    match s_conn st id with
    | None => Err ENotSuperfluidUsed
    | Some (d, v) =>
      let st1 := set_conn st (upd1 (s_conn st) id None) in
      do st2 <- delete_synth st1 id Staking (l_denom l) v;
      do amount <- sf_osmo_tokens cfg st2 d (l_amt l);
      force_undelegate_and_burn st2 d v amount
    end
  end.

(* x/staking Delegate by an ordinary account (here: the lock owner staking the proceeds of a conversion) *)
Definition external_delegate (st : state) (v amt : Z) : result state :=
  match s_vals st v with
  | None => Err ENoValidator
  | Some val =>
    if amt <? 0 then Err EOther else                                  (* a dust lock may convert to 0 OSMO: staking 0 is accepted *)
    if (v_tokens val =? 0) && (0 <? v_shares val) then Err EOther else
    let issued := if v_shares val =? 0 then d_from_int amt
                  else d_quo_int (d_mul_int (v_shares val) amt) (v_tokens val) in
    let st1 := set_vals st (upd1 (s_vals st) v (Some (mkVal (v_tokens val + amt) (v_shares val + issued)))) in
    Ok (set_bank st1 (s_supply st1) (s_offset st1) (s_bonded st1 + amt))
  end.

(* MsgUnbondConvertAndStake of a lock (superfluid bonded, superfluid unbonding or plain): undelegate if bonded, force the lock
   out of lockup (ForceUnlock deletes its synthetic lock whatever its end time), exit the pool and swap to OSMO (environment:
   [x] = the OSMO obtained, [env_ok] = those steps succeeded), and stake x with validator v as the owner's own delegation *)
Definition convert (cfg : config) (st : state) (sender id v x : Z) (env_ok : bool) : result state :=
  do found <- synth_by_lock st id;
  do st1 <- (match found with
             | Some y => match y_kind y with Staking => undelegate_common cfg st sender id | Unstaking => Ok st end
             | None => Ok st
             end);
  match s_locks st1 id with
  | None => Err ELockNotFound
  | Some l =>
    if negb (l_owner l =? sender) then Err ENotOwner else
    if negb (existsb (Z.eqb (l_denom l)) (c_gamm cfg)) then Err ENotGamm else
    do found1 <- synth_by_lock st1 id;
    do st2 <- (match found1 with Some y => delete_synth st1 id (y_kind y) (y_denom y) (y_val y) | None => Ok st1 end);
    do st3 <- (if l_end l =? 0 then do r <- begin_unlock st2 id None; Ok (fst r) else Ok st2);
    if negb env_ok then Err EOther else
    external_delegate (del_lock st3 id) v x
  end.

(* ---- slashing (environment transition; NOT part of [op]: the theorems of Properties/C11.v are about histories without
   slashing, the correspondence run also covers this function) ----
   x/staking Slash(validator v, infraction height = now, power = current consensus power, slashFactor) with the superfluid
   hook BeforeValidatorSlashed -> SlashLockupsForValidatorSlash (slash.go) -> lockup SlashTokensFromLockByID. *)
Definition power_reduction : Z := 1000000.

(* slashSynthLock for a gamm-share lock: amount * factor truncated leaves the lock (to the community pool) and the
   accumulator of its synthetic denom; a failure inside ApplyFuncIfNoError (nothing to slash, more than the lock) changes nothing *)
Definition slash_lock (st : state) (id d v factor : Z) : state :=
  match s_locks st id with
  | Some l =>
    if negb (l_denom l =? d) then st else
    if negb (existsb (fun y => synth_is Staking d v y || synth_is Unstaking d v y) (s_synths st id)) then st else
    let s := d_truncate_int (d_mul (d_from_int (l_amt l)) factor) in
    if (s <=? 0) || (l_amt l <? s) then st else
    match synth_by_lock st id with
    | Ok (Some y) =>
      let st1 := put_lock st id (mkLock (l_owner l) (l_denom l) (l_amt l - s) (l_dur l) (l_end l)) in
      set_accum st1 (upd3 (s_accum st1) (y_kind y) (y_denom y) (y_val y) (s_accum st1 (y_kind y) (y_denom y) (y_val y) - s))
    | _ => st
    end
  | None => st
  end.

Definition slash_account (st : state) (k : Z * Z) (factor : Z) : state :=
  if negb (mem_pair k (s_accs st)) then st else
  fold_left (fun s id => slash_lock s id (fst k) (snd k) factor) (ids_upto (s_last st)) st.

Definition slash (st : state) (order : list (Z * Z)) (v factor : Z) : result state :=
  match s_vals st v with
  | None => Ok st
  | Some val =>
    if factor <? 0 then Err EOther else
    let power := Z.quot (v_tokens val) power_reduction in                       (* the driver slashes at the current power *)
    let slash_amount := d_truncate_int (d_mul (d_from_int (power * power_reduction)) factor) in
    let burn := Z.max 0 (Z.min slash_amount (v_tokens val)) in
    if burn =? 0 then Ok st else
    let eff := if 0 <? v_tokens val then Z.min P18 (d_quo_round_up (d_from_int burn) (d_from_int (v_tokens val))) else 0 in
    (* BeforeValidatorSlashed: every intermediary account of the validator, in store order *)
    let accs := filter (fun k => snd k =? v) (order ++ filter (fun k => negb (mem_pair k order)) (s_accs st)) in
    let st1 := if eff =? 0 then st else fold_left (fun s k => slash_account s k eff) accs st in
    (* RemoveValidatorTokens, burnBondedTokens *)
    let st2 := set_vals st1 (upd1 (s_vals st1) v (Some (mkVal (v_tokens val - burn) (v_shares val)))) in
    Ok (set_bank st2 (s_supply st2 - burn) (s_offset st2) (s_bonded st2 - burn))
  end.

(* ---- operations ---- *)
Inductive op :=
| OLock (owner denom amt dur : Z)                 (* lockup CreateLock *)
| OTopUp (owner id amt : Z)                       (* lockup AddTokensToLockByID (+ superfluid hook) *)
| OLockTokens (owner denom amt dur : Z)           (* lockup MsgLockTokens *)
| OLockAndDelegate (owner denom amt v : Z)        (* MsgLockAndSuperfluidDelegate *)
| OCreateAndDelegate (owner denom amt v : Z)      (* MsgCreateFullRangePositionAndSuperfluidDelegate *)
| ODelegate (sender id v : Z)                     (* MsgSuperfluidDelegate *)
| OUndelegate (sender id : Z)                     (* MsgSuperfluidUndelegate *)
| OUnbondLock (sender id : Z)                     (* MsgSuperfluidUnbondLock *)
| OUndelegateAndUnbond (sender id amt : Z)        (* MsgSuperfluidUndelegateAndUnbondLock *)
| OBeginUnlock (sender id : Z)                    (* lockup MsgBeginUnlocking (whole lock) *)
| OBeginUnlockPartial (sender id amt : Z)         (* lockup MsgBeginUnlocking with coins: part of a lock *)
| OBeginUnlockAll (owner : Z)                     (* lockup MsgBeginUnlockingAll *)
| OForceUnlock (sender id : Z)                    (* lockup MsgForceUnlock (whole lock) *)
| OConvert (sender id v x : Z) (env_ok : bool)    (* MsgUnbondConvertAndStake of a lock; reports the amount staked *)
| OWithdraw (id : Z)                              (* lockup UnlockMaturedLock *)
| OAdvance (dt : Z)                               (* next block, dt later *)
| OCleanup                                        (* lockup EndBlocker: DeleteAllMaturedSyntheticLocks; WithdrawMaturedLocks *)
| OEpoch (ins : list (Z * minput)) (order : list (Z * Z)).

(* result: new state and the lock id the message reports (0 if none) *)
Definition step (cfg : config) (st : state) (o : op) : result (state * Z) :=
  match o with
  | OLock owner d amt dur =>
      if (amt <=? 0) || (dur <? 0) then Err EPanic else
      let id := s_last st + 1 in
      Ok (set_last (put_lock st id (mkLock owner d amt dur 0)) id, id)
  | OTopUp owner id amt => do st' <- add_tokens_to_lock cfg st owner id amt; Ok (st', 0)
  | OLockTokens owner d amt dur => lock_tokens cfg st owner d amt dur
  | OLockAndDelegate owner d amt v => lock_and_delegate cfg st owner d amt v
  | OCreateAndDelegate owner d amt v => create_and_delegate cfg st owner d amt v
  | ODelegate sender id v => do st' <- superfluid_delegate cfg st sender id v; Ok (st', 0)
  | OUndelegate sender id => do st' <- superfluid_undelegate cfg st sender id; Ok (st', 0)
  | OUnbondLock sender id => do r <- unbond_lock st id sender None; Ok (fst r, 0)
  | OUndelegateAndUnbond sender id amt => superfluid_undelegate_and_unbond cfg st sender id amt
  | OBeginUnlock sender id =>
      match s_locks st id with
      | None => Err ELockNotFound
      | Some l =>
        if negb (l_owner l =? sender) then Err ENotOwner else
        do r <- begin_unlock st id None; Ok (fst r, 0)
      end
  | OBeginUnlockPartial sender id amt =>
      match s_locks st id with
      | None => Err ELockNotFound
      | Some l =>
        if negb (l_owner l =? sender) then Err ENotOwner else
        if amt <=? 0 then Err EPanic else
        begin_unlock st id (Some amt)
      end
  | OBeginUnlockAll owner => do st' <- begin_unlock_all st owner (ids_upto (s_last st)); Ok (st', 0)
  | OForceUnlock sender id => do st' <- force_unlock cfg st sender id; Ok (st', 0)
  | OConvert sender id v x env_ok => do st' <- convert cfg st sender id v x env_ok; Ok (st', x)
  | OWithdraw id => do st' <- unlock_matured_lock st id; Ok (st', 0)
  | OAdvance dt => if dt <? 0 then Err EPanic else Ok (set_now st (s_now st + dt), 0)
  | OCleanup => do st1 <- delete_matured_synths st (ids_upto (s_last st)); Ok (withdraw_matured st1, 0)
  | OEpoch ins order => do st' <- epoch cfg st ins order; Ok (st', 0)
  end.

(* baseapp atomicity: a failing message leaves the state as it was *)
Definition apply (cfg : config) (st : state) (o : op) : state * Z * Z :=
  match step cfg st o with
  | Ok (st', id) => (st', 0, id)
  | Err e => (st, e, 0)
  end.

Definition next (cfg : config) (st : state) (o : op) : state := fst (fst (apply cfg st o)).
Definition run (cfg : config) (st : state) (ops : list op) : state := fold_left (next cfg) ops st.

(* histories that also contain validator slashes (environment transitions) *)
Inductive eop := EOp (o : op) | ESlash (order : list (Z * Z)) (v factor : Z).
Definition eapply (cfg : config) (st : state) (e : eop) : state * Z * Z :=
  match e with
  | EOp o => apply cfg st o
  | ESlash order v f => match slash st order v f with Ok st' => (st', 0, 0) | Err x => (st, x, 0) end
  end.
Definition enext (cfg : config) (st : state) (e : eop) : state := fst (fst (eapply cfg st e)).
Definition erun (cfg : config) (st : state) (es : list eop) : state := fold_left (enext cfg) es st.

(* initial state: no locks, no accounts; validators, supply and offset as the chain has them after setup *)
Definition vals_of (l : list (Z * validator)) : Z -> option validator :=
  fun v => match find (fun x => fst x =? v) l with Some x => Some (snd x) | None => None end.
Definition mults_of (l : list (Z * Z)) : Z -> Z :=
  fun d => match find (fun x => fst x =? d) l with Some x => snd x | None => 0 end.
Definition init_state (t0 : Z) (vals : list (Z * validator)) (mults : list (Z * Z)) (supply offset bonded : Z) : state :=
  mkSt t0 (fun _ => None) 0 (fun _ => []) (fun _ => None) [] (fun _ _ => None) (vals_of vals) (mults_of mults) (fun _ _ _ => 0) supply offset bonded.
