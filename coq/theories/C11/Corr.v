(* C11 correspondence glue: run the model on a harness case and flatten its observables exactly as
   props/c11.py flattens the observations of harness/c11drv (one row after setup, one row per operation). *)
From Coq Require Import ZArith List Bool.
Import ListNotations.
From Osmo Require Import Base.Obs Base.DecModel C11.Model.
Open Scope Z_scope.

Record case := mkCase {
  c_cfg : config;
  c_t0 : Z;
  c_vals : list (Z * validator);     (* validators after setup: index -> tokens, shares *)
  c_mults : list (Z * Z);            (* multipliers after setup *)
  c_supply : Z; c_offset : Z; c_bonded : Z;
  c_denoms : list Z;                 (* denom indices observed *)
  c_ops : list eop;
  c_expect : list Z }.

Definition kindz (k : skind) : Z := match k with Staking => 0 | Unstaking => 1 end.
Definition res_or {A} (r : result A) (f : A -> Z) (dflt : Z) : Z := match r with Ok a => f a | Err _ => dflt end.

Definition flat_acc (cfg : config) (st : state) (d v : Z) : list Z :=
  let ex := mem_pair (d, v) (s_accs st) in
  [ b2z ex;
    match s_deleg st d v with Some s => s | None => 0 end;
    res_or (delegation_tokens st d v) (fun x => x) (-1);
    if ex then res_or (expected_delegation cfg st d v) (fun x => x) (-1) else 0;
    s_accum st Staking d v;
    s_accum st Unstaking d v ].

Definition flat_conns (st : state) : list Z :=
  let l := flat_map (fun id => match s_conn st id with Some (d, v) => [[id; d; v]] | None => [] end) (ids_upto (s_last st)) in
  Z.of_nat (length l) :: concat l.

(* all synthetic locks, by underlying lock id (a lock never carries two: see the marker invariant) *)
Definition flat_synths (st : state) : list Z :=
  let l := flat_map (fun id => map (fun y => [id; kindz (y_kind y); y_denom y; y_val y; y_end y; y_dur y]) (s_synths st id))
                    (ids_upto (s_last st)) in
  Z.of_nat (length l) :: concat l.

Definition flat_locks (st : state) : list Z :=
  let l := flat_map (fun id => match s_locks st id with
                               | Some l => [[id; l_owner l; l_denom l; l_amt l; l_dur l; l_end l]]
                               | None => []
                               end) (ids_upto (s_last st)) in
  Z.of_nat (length l) :: concat l.

(* query TotalSuperfluidDelegations: sum over accounts of (shares / validator shares * validator tokens).RoundInt() *)
Definition total_sf (st : state) : Z :=
  fold_left (fun acc k =>
    match s_deleg st (fst k) (snd k), s_vals st (snd k) with
    | Some sh, Some val => acc + d_round_int (d_mul_int (d_quo sh (v_shares val)) (v_tokens val))
    | _, _ => acc
    end) (s_accs st) 0.

Definition flat_row (cfg : config) (denoms vals : list Z) (st : state) (code newid : Z) : list Z :=
  [code; newid; s_now st; s_supply st; s_offset st; s_bonded st]
  ++ map (s_mult st) denoms
  ++ flat_map (fun v => match s_vals st v with Some x => [v_tokens x; v_shares x] | None => [-1; -1] end) vals
  ++ flat_map (fun d => flat_map (fun v => flat_acc cfg st d v) vals) denoms
  ++ flat_conns st ++ flat_synths st ++ flat_locks st ++ [total_sf st].

Fixpoint scan (cfg : config) (denoms vals : list Z) (st : state) (ops : list eop) : list (list Z) :=
  match ops with
  | [] => []
  | o :: r =>
    let '(st', code, id) := eapply cfg st o in
    flat_row cfg denoms vals st' code id :: scan cfg denoms vals st' r
  end.

Definition case_init (c : case) : state :=
  init_state (c_t0 c) (c_vals c) (c_mults c) (c_supply c) (c_offset c) (c_bonded c).

(* one row after setup, one row per operation *)
Definition model_rows (c : case) : list (list Z) :=
  let vals := map fst (c_vals c) in
  flat_row (c_cfg c) (c_denoms c) vals (case_init c) 0 0
  :: scan (c_cfg c) (c_denoms c) vals (case_init c) (c_ops c).
Definition model_obs (c : case) : list Z := concat (model_rows c).

(* result codes agree; code 97 of the implementation = "an error whose text the driver could not classify": a generic rejection,
   compatible with any rejection the model predicts (error wording is not an observable); accepted-vs-rejected always matters *)
Definition code_ok (m i : Z) : bool := (m =? i) || ((i =? 97) && negb (m =? 0)).
Definition row_ok (m e : list Z) : bool :=
  match m, e with
  | mc :: mt, ec :: et => code_ok mc ec && zlist_eqb mt et
  | _, _ => false
  end.
Fixpoint rows_eqb (rows : list (list Z)) (e : list Z) : bool :=
  match rows with
  | [] => match e with [] => true | _ => false end
  | r :: rs => let n := length r in row_ok r (firstn n e) && rows_eqb rs (skipn n e)
  end.

Definition case_ok (c : case) : bool := rows_eqb (model_rows c) (c_expect c).

(* index of the first differing position (debugging aid for the harness) *)
Fixpoint first_diff (a b : list Z) (i : Z) : Z :=
  match a, b with
  | [], [] => -1
  | x :: a', y :: b' => if x =? y then first_diff a' b' (i + 1) else i
  | _, _ => i
  end.
Definition case_diff (c : case) : Z := first_diff (model_obs c) (c_expect c) 0.
