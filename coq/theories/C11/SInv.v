(* C11/SInv.v - the staking side under exchange rate 1:1: invariant [sinv], exact effect of
   mintOsmoTokensAndDelegate / forceUndelegateAndBurnOsmoTokens on delegations, validators and supply. *)
From Coq Require Import ZArith List Bool Lia.
Import ListNotations.
From Osmo Require Import Base.DecModel C11.Model C11.Arith C11.Basics C11.LInv.
Open Scope Z_scope.
Local Opaque P18.

Definition shares_of (st : state) (d v : Z) : Z := match s_deleg st d v with Some s => s | None => 0 end.
(* delegated tokens of the intermediary account (d, v) when the validator's exchange rate is 1 *)
Definition dtok (st : state) (d v : Z) : Z := shares_of st d v / P18.
(* shares held by intermediary accounts on validator v *)
Definition vterm (st : state) (v : Z) (k : Z * Z) : Z := if snd k =? v then shares_of st (fst k) (snd k) else 0.
Definition vsum (st : state) (v : Z) : Z := zsum (map (vterm st v) (s_accs st)).

Record sinv (cfg : config) (st : state) : Prop := {
  S_vals : forall v val, s_vals st v = Some val -> v_shares val = v_tokens val * P18 /\ 0 <= v_tokens val;
  S_deleg : forall d v sh, s_deleg st d v = Some sh -> (exists k, 0 < k /\ sh = k * P18) /\ In (d, v) (s_accs st);
  S_accval : forall d v, In (d, v) (s_accs st) -> s_vals st v <> None;
  S_nodup : NoDup (s_accs st);
  S_sum : forall v val, s_vals st v = Some val -> vsum st v <= v_shares val;
  S_sf : forall id d v, s_conn st id = Some (d, v) -> is_sf cfg d = true;
  S_accsf : forall d v, In (d, v) (s_accs st) -> is_sf cfg d = true;
  S_mult : forall d, 0 <= s_mult st d }.

Definition sproj (st : state) := (s_deleg st, s_vals st, s_accs st, s_conn st, s_mult st).

Lemma sinv_ext : forall cfg st st', sproj st' = sproj st -> sinv cfg st -> sinv cfg st'.
Proof.
  intros cfg st st' H I. unfold sproj in H. inversion H as [[H1 H2 H3 H4 H5]]. destruct I.
  constructor; try (rewrite ?H1, ?H2, ?H3, ?H4, ?H5; assumption).
  - intros v val. unfold vsum, vterm, shares_of. rewrite H1, H2, H3. apply S_sum0.
Qed.

(* ---- generic sums ---- *)
Lemma zsum_mapA_ext : forall A (f g : A -> Z) l, (forall x, In x l -> f x = g x) -> zsum (map f l) = zsum (map g l).
Proof.
  induction l as [|a r IH]; intros H; cbn [map zsum]; [reflexivity|].
  rewrite (H a (or_introl eq_refl)), IH; [reflexivity|]. intros; apply H; right; assumption.
Qed.
Lemma zsum_mapA_upd : forall A (f g : A -> Z) l i, NoDup l -> In i l -> (forall x, x <> i -> g x = f x) ->
  zsum (map g l) = zsum (map f l) - f i + g i.
Proof.
  induction l as [|a r IH]; intros i ND Hi Hg; [contradiction|].
  inversion ND as [|? ? Hna ND']; subst. cbn [map zsum]. destruct Hi as [->|Hi].
  - rewrite (zsum_mapA_ext A g f r); [lia|]. intros x Hx. apply Hg. intros ->. contradiction.
  - rewrite (IH i ND' Hi Hg). rewrite (Hg a); [lia|]. intros ->. contradiction.
Qed.
Lemma zsum_mapA_le : forall A (f : A -> Z) l i, (forall x, In x l -> 0 <= f x) -> In i l -> f i <= zsum (map f l).
Proof.
  induction l as [|a r IH]; intros i H Hi; [contradiction|]. cbn [map zsum].
  assert (0 <= zsum (map f r)).
  { clear IH Hi. induction r as [|b r IHr]; cbn [map zsum]; [lia|].
    pose proof (H b (or_intror (or_introl eq_refl))).
    assert (0 <= zsum (map f r)) by (apply IHr; intros x [->|Hx]; apply H; [left|right; right]; auto). lia. }
  pose proof (H a (or_introl eq_refl)).
  destruct Hi as [->|Hi]; [lia|]. specialize (IH i (fun x Hx => H x (or_intror Hx)) Hi). lia.
Qed.

(* ---- consequences ---- *)
Lemma shares_nonneg : forall cfg st d v, sinv cfg st -> 0 <= shares_of st d v.
Proof.
  intros cfg st d v I. unfold shares_of. destruct (s_deleg st d v) as [sh|] eqn:E; [|lia].
  destruct (S_deleg _ _ I _ _ _ E) as [[k [Hk ->]] _]. pose proof P18_pos. nia.
Qed.

Lemma deleg_le_val : forall cfg st d v sh val, sinv cfg st -> s_deleg st d v = Some sh -> s_vals st v = Some val ->
  sh <= v_shares val.
Proof.
  intros cfg st d v sh val I Hd Hv. pose proof (S_sum _ _ I _ _ Hv) as Hs.
  destruct (S_deleg _ _ I _ _ _ Hd) as [_ Hin].
  assert (vterm st v (d, v) <= vsum st v).
  { unfold vsum. apply zsum_mapA_le; [|assumption]. intros [d0 v0] _. unfold vterm. cbn.
    destruct (v0 =? v); [apply (shares_nonneg cfg); assumption|lia]. }
  unfold vterm, shares_of in H. cbn in H. rewrite Z.eqb_refl, Hd in H. lia.
Qed.

Lemma vsum_upd : forall st st' d v, NoDup (s_accs st) -> In (d, v) (s_accs st) -> s_accs st' = s_accs st ->
  (forall d' v', (d', v') <> (d, v) -> s_deleg st' d' v' = s_deleg st d' v') ->
  vsum st' v = vsum st v - shares_of st d v + shares_of st' d v /\
  (forall v', v' <> v -> vsum st' v' = vsum st v').
Proof.
  intros st st' d v ND Hin Ha Ho. split.
  - unfold vsum. rewrite Ha.
    rewrite (zsum_mapA_upd _ (vterm st v) (vterm st' v) (s_accs st) (d, v)); try assumption.
    + unfold vterm. cbn. rewrite Z.eqb_refl. lia.
    + intros [d0 v0] N. unfold vterm, shares_of. cbn. rewrite Ho by assumption. reflexivity.
  - intros v' N. unfold vsum. rewrite Ha. apply zsum_mapA_ext. intros [d0 v0] _. unfold vterm, shares_of. cbn.
    destruct (Z.eqb_spec v0 v'); [|reflexivity]. rewrite Ho; [reflexivity|]. intros E. inversion E. congruence.
Qed.

(* ---- 1:1 arithmetic ---- *)
Lemma quot_mul_l : forall a b, b <> 0 -> Z.quot (b * a) b = a.
Proof. intros. rewrite Z.mul_comm. apply Z.quot_mul. assumption. Qed.

Lemma d_quo_11 : forall k T, 0 < T -> 0 <= k -> d_quo (d_mul_int (k * P18) T) (T * P18) = k * P18.
Proof.
  intros k T HT Hk. unfold d_quo, d_mul_int. pose proof P18_pos.
  replace (k * P18 * T * (P18 * P18)) with ((k * P18 * P18) * (T * P18)) by ring.
  rewrite Z.quot_mul by nia. apply (rnd_exact (k * P18)). nia.
Qed.

Lemma dtok_spec : forall cfg st d v, sinv cfg st -> delegation_tokens st d v = Ok (dtok st d v).
Proof.
  intros cfg st d v I. unfold delegation_tokens, dtok, shares_of.
  destruct (s_deleg st d v) as [sh|] eqn:Hd; [|reflexivity].
  destruct (S_deleg _ _ I _ _ _ Hd) as [[k [Hk ->]] Hin].
  destruct (s_vals st v) as [val|] eqn:Hv; [|exfalso; apply (S_accval _ _ I _ _ Hin); assumption].
  destruct (S_vals _ _ I _ _ Hv) as [Hs Ht]. pose proof (deleg_le_val _ _ _ _ _ _ I Hd Hv) as Hle.
  pose proof P18_pos as HP. assert (0 < v_tokens val) by nia.
  unfold tokens_from_shares, bind. rewrite Hs. destruct (Z.eqb_spec (v_tokens val * P18) 0); [nia|].
  rewrite d_quo_11 by lia. unfold d_round_int. fold (rnd (k * P18)). rewrite rnd_exact by lia.
  rewrite Z.div_mul by lia. reflexivity.
Qed.

Lemma dtok_nonneg : forall cfg st d v, sinv cfg st -> 0 <= dtok st d v.
Proof. intros. unfold dtok. apply Z.div_pos; [eapply shares_nonneg; eassumption|apply P18_pos]. Qed.

Lemma dtok_shares : forall cfg st d v, sinv cfg st -> shares_of st d v = dtok st d v * P18.
Proof.
  intros cfg st d v I. unfold dtok, shares_of. destruct (s_deleg st d v) as [sh|] eqn:E; [|reflexivity].
  destruct (S_deleg _ _ I _ _ _ E) as [[k [Hk ->]] _]. rewrite Z.div_mul by (pose proof P18_pos; lia). reflexivity.
Qed.

(* ---- mintOsmoTokensAndDelegate ---- *)
Lemma mint_spec : forall cfg st d v a, sinv cfg st -> In (d, v) (s_accs st) -> 0 < a ->
  exists st', mint_and_delegate st d v a = Ok st' /\ sinv cfg st' /\
    dtok st' d v = dtok st d v + a /\
    (forall d' v', (d', v') <> (d, v) -> s_deleg st' d' v' = s_deleg st d' v') /\
    s_supply st' + s_offset st' = s_supply st + s_offset st /\
    s_accs st' = s_accs st /\ s_conn st' = s_conn st.
Proof.
  intros cfg st d v a I Hin Ha. unfold mint_and_delegate.
  destruct (s_vals st v) as [val|] eqn:Hv; [|exfalso; apply (S_accval _ _ I _ _ Hin); assumption].
  destruct (Z.leb_spec a 0) as [Hle0|Hgt0]; [lia|]. clear Hgt0. destruct (S_vals _ _ I _ _ Hv) as [Hs Ht]. pose proof P18_pos as HP.
  unfold staking_delegate.
  assert (Ex : (v_tokens val =? 0) && (0 <? v_shares val) = false).
  { destruct (Z.eqb_spec (v_tokens val) 0) as [E|]; [|reflexivity]. rewrite Hs, E. reflexivity. }
  rewrite Ex.
  assert (Hiss : (if v_shares val =? 0 then d_from_int a else d_quo_int (d_mul_int (v_shares val) a) (v_tokens val)) = a * P18).
  { destruct (Z.eqb_spec (v_shares val) 0) as [E|N]; [reflexivity|]. unfold d_quo_int, d_mul_int. rewrite Hs.
    replace (v_tokens val * P18 * a) with (v_tokens val * (a * P18)) by ring. apply quot_mul_l. nia. }
  rewrite Hiss. eexists. split; [reflexivity|]. ssimpl.
  assert (Hold : match s_deleg st d v with Some s => s | None => 0 end = shares_of st d v) by reflexivity.
  rewrite Hold. pose proof (shares_nonneg cfg st d v I) as Hsn. pose proof (dtok_shares cfg st d v I) as Hds.
  pose proof (dtok_nonneg cfg st d v I) as Hdn.
  set (st' := set_bank _ _ _ _).
  assert (Hd' : s_deleg st' = upd2 (s_deleg st) d v (Some (shares_of st d v + a * P18))) by reflexivity.
  assert (Hv' : s_vals st' = upd1 (s_vals st) v (Some (mkVal (v_tokens val + a) (v_shares val + a * P18)))) by reflexivity.
  assert (Ha' : s_accs st' = s_accs st) by reflexivity.
  assert (Hsh' : shares_of st' d v = shares_of st d v + a * P18).
  { unfold shares_of at 1. rewrite Hd', upd2_same. reflexivity. }
  assert (Ho' : forall d' v', (d', v') <> (d, v) -> s_deleg st' d' v' = s_deleg st d' v').
  { intros d' v' N. rewrite Hd'. apply upd2_other. assumption. }
  destruct (vsum_upd st st' d v (S_nodup _ _ I) Hin Ha' Ho') as [Vs Vo].
  split; [|split; [|split; [assumption|split; [subst st'; ssimpl; lia|split; reflexivity]]]].
  - constructor.
    + intros v0 val0 H. rewrite Hv' in H. unfold upd1 in H. destruct (Z.eqb_spec v0 v).
      * injection H as <-. cbn [v_shares v_tokens]. split; nia.
      * apply (S_vals _ _ I _ _ H).
    + intros d0 v0 sh H. rewrite Hd' in H. unfold upd2 in H.
      destruct (Z.eqb_spec d0 d), (Z.eqb_spec v0 v); cbn [andb] in H; try (rewrite Ha'; apply (S_deleg _ _ I _ _ _ H)).
      subst d0 v0. injection H as <-. split; [|rewrite Ha'; assumption]. exists (dtok st d v + a). split; [lia|]. rewrite Hds. ring.
    + intros d0 v0 H. rewrite Ha' in H. rewrite Hv'. unfold upd1. destruct (v0 =? v); [discriminate|]. apply (S_accval _ _ I _ _ H).
    + rewrite Ha'. apply (S_nodup _ _ I).
    + intros v0 val0 H. rewrite Hv' in H. unfold upd1 in H. destruct (Z.eqb_spec v0 v) as [Ev|Nv].
      * injection H as <-. subst v0. cbn [v_shares v_tokens]. rewrite Vs, Hsh'. pose proof (S_sum _ _ I _ _ Hv). lia.
      * rewrite (Vo _ Nv). apply (S_sum _ _ I _ _ H).
    + apply (S_sf _ _ I).
    + rewrite Ha'. apply (S_accsf _ _ I).
    + apply (S_mult _ _ I).
  - unfold dtok. rewrite Hsh', Hds. rewrite <- Z.mul_add_distr_r, !Z.div_mul by lia. reflexivity.
Qed.

(* ---- forceUndelegateAndBurnOsmoTokens ---- *)
Lemma force_spec : forall cfg st d v a, sinv cfg st -> 0 <= a ->
  (s_deleg st d v = None /\ force_undelegate_and_burn st d v a = Ok st /\ (s_vals st v <> None)) \/
  (s_vals st v = None) \/
  (s_deleg st d v <> None /\ dtok st d v < a /\ force_undelegate_and_burn st d v a = Err EInvalidShares) \/
  (s_deleg st d v <> None /\ a <= dtok st d v /\
   exists st', force_undelegate_and_burn st d v a = Ok st' /\ sinv cfg st' /\
     dtok st' d v = dtok st d v - a /\
     (forall d' v', (d', v') <> (d, v) -> s_deleg st' d' v' = s_deleg st d' v') /\
     s_supply st' + s_offset st' = s_supply st + s_offset st /\
     s_accs st' = s_accs st /\ s_conn st' = s_conn st).
Proof.
  intros cfg st d v a I Ha. unfold force_undelegate_and_burn.
  destruct (s_vals st v) as [val|] eqn:Hv; [|right; left; reflexivity].
  destruct (s_deleg st d v) as [dsh|] eqn:Hd; [|left; repeat split; congruence].
  right. right.
  destruct (S_deleg _ _ I _ _ _ Hd) as [[k [Hk ->]] Hin]. destruct (S_vals _ _ I _ _ Hv) as [Hs Ht].
  pose proof (deleg_le_val _ _ _ _ _ _ I Hd Hv) as Hle. pose proof P18_pos as HP.
  set (T := v_tokens val) in *. assert (HT : 0 < T) by nia. assert (HkT : k <= T) by nia.
  assert (Hdt : dtok st d v = k). { unfold dtok, shares_of. rewrite Hd. apply Z.div_mul. lia. }
  destruct (Z.eqb_spec T 0) as [Hx0|Hx0]; [lia|]. clear Hx0.
  assert (E0 : d_quo_int (d_mul_int (v_shares val) a) T = a * P18).
  { unfold d_quo_int, d_mul_int. rewrite Hs. replace (T * P18 * a) with (T * (a * P18)) by ring. apply quot_mul_l. lia. }
  assert (E1 : d_quo_truncate (d_mul_int (v_shares val) a) (d_from_int T) = a * P18).
  { unfold d_quo_truncate, d_mul_int, d_from_int. rewrite Hs. replace (T * P18 * a * P18) with ((a * P18) * (T * P18)) by ring.
    apply Z.quot_mul. nia. }
  rewrite E0, E1. rewrite Hdt.
  destruct (Z.ltb_spec (k * P18) (a * P18)) as [Hlt|Hge].
  - left. repeat split; try congruence. nia.
  - right. split; [congruence|]. split; [nia|]. assert (Hak : a <= k) by nia.
    destruct (Z.ltb_spec (k * P18) (a * P18)) as [Hx1|Hx1]; [lia|]. clear Hx1.
    unfold bind.
    assert (Eit : (if v_shares val - a * P18 =? 0 then Ok (T, 0)
                   else match tokens_from_shares val (a * P18) with
                        | Ok tfs => if T - d_truncate_int tfs <? 0 then Err EPanic else Ok (d_truncate_int tfs, T - d_truncate_int tfs)
                        | Err e => Err e end) = Ok (a, T - a)).
    { destruct (Z.eqb_spec (v_shares val - a * P18) 0) as [E|N].
      - assert (a = T) by nia. subst a. f_equal. f_equal. lia.
      - unfold tokens_from_shares. rewrite Hs. destruct (Z.eqb_spec (T * P18) 0); [nia|].
        fold T. rewrite d_quo_11 by lia. unfold d_truncate_int. rewrite Z.quot_mul by lia.
        destruct (Z.ltb_spec (T - a) 0); [lia|]. reflexivity. }
    rewrite Eit. eexists. split; [reflexivity|]. ssimpl.
    set (st' := set_bank _ _ _ _).
    assert (Hd' : s_deleg st' = upd2 (s_deleg st) d v (if k * P18 - a * P18 =? 0 then None else Some (k * P18 - a * P18))) by reflexivity.
    assert (Hv' : s_vals st' = upd1 (s_vals st) v (Some (mkVal (T - a) (v_shares val - a * P18)))) by reflexivity.
    assert (Ha' : s_accs st' = s_accs st) by reflexivity.
    assert (Hsh' : shares_of st' d v = (k - a) * P18).
    { unfold shares_of at 1. rewrite Hd', upd2_same. destruct (Z.eqb_spec (k * P18 - a * P18) 0); lia. }
    assert (Ho' : forall d' v', (d', v') <> (d, v) -> s_deleg st' d' v' = s_deleg st d' v').
    { intros d' v' N. rewrite Hd'. apply upd2_other. assumption. }
    destruct (vsum_upd st st' d v (S_nodup _ _ I) Hin Ha' Ho') as [Vs Vo].
    assert (Hsh : shares_of st d v = k * P18) by (unfold shares_of; rewrite Hd; reflexivity).
    split; [|split; [|split; [assumption|split; [subst st'; ssimpl; lia|split; reflexivity]]]].
    + constructor.
      * intros v0 val0 H. rewrite Hv' in H. unfold upd1 in H. destruct (Z.eqb_spec v0 v).
        -- injection H as <-. cbn [v_shares v_tokens]. split; nia.
        -- apply (S_vals _ _ I _ _ H).
      * intros d0 v0 sh H. rewrite Hd' in H. unfold upd2 in H.
        destruct (Z.eqb_spec d0 d), (Z.eqb_spec v0 v); cbn [andb] in H; try (rewrite Ha'; apply (S_deleg _ _ I _ _ _ H)).
        subst d0 v0. destruct (Z.eqb_spec (k * P18 - a * P18) 0); [discriminate|]. injection H as <-.
        split; [|rewrite Ha'; assumption]. exists (k - a). split; [nia|ring].
      * intros d0 v0 H. rewrite Ha' in H. rewrite Hv'. unfold upd1. destruct (v0 =? v); [discriminate|]. apply (S_accval _ _ I _ _ H).
      * rewrite Ha'. apply (S_nodup _ _ I).
      * intros v0 val0 H. rewrite Hv' in H. unfold upd1 in H. destruct (Z.eqb_spec v0 v) as [Ev|Nv].
        -- injection H as <-. subst v0. cbn [v_shares v_tokens]. rewrite Vs, Hsh', Hsh. pose proof (S_sum _ _ I _ _ Hv). lia.
        -- rewrite (Vo _ Nv). apply (S_sum _ _ I _ _ H).
      * apply (S_sf _ _ I).
      * rewrite Ha'. apply (S_accsf _ _ I).
      * apply (S_mult _ _ I).
    + unfold dtok. rewrite Hsh'. rewrite Z.div_mul by lia. reflexivity.
Qed.
