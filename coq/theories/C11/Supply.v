(* C11/Supply.v - the OSMO supply reported to users (bank supply + supply offset) is unchanged by every
   operation of the model, whatever the validators' exchange rates.  No invariant is needed: every mint is
   paired with an equal negative offset and every burn with an equal positive one. *)
From Coq Require Import ZArith List Bool Lia.
Import ListNotations.
From Osmo Require Import Base.DecModel C11.Model C11.Arith C11.Basics C11.LInv.
Open Scope Z_scope.

Definition tot (st : state) : Z := s_supply st + s_offset st.

Ltac dcase H :=
  match type of H with
  | (if ?c then _ else _) = _ => destruct c eqn:?; try discriminate H
  | match ?x with _ => _ end = _ => destruct x eqn:?; try discriminate H
  end.

Lemma staking_delegate_tot : forall st d v val a st', staking_delegate st d v val a = Ok st' -> tot st' = tot st.
Proof. intros st d v val a st' H. unfold staking_delegate in H. dcase H. injection H as <-. reflexivity. Qed.

Lemma mint_tot : forall st d v a st', mint_and_delegate st d v a = Ok st' -> tot st' = tot st.
Proof.
  intros st d v a st' H. unfold mint_and_delegate in H. dcase H. dcase H.
  apply staking_delegate_tot in H. rewrite H. unfold tot. ssimpl. lia.
Qed.

Lemma force_tot : forall st d v a st', force_undelegate_and_burn st d v a = Ok st' -> tot st' = tot st.
Proof.
  intros st d v a st' H. unfold force_undelegate_and_burn in H. dcase H. dcase H; [|injection H as <-; reflexivity].
  dcase H. dcase H. dcase H. unfold bind in H. dcase H. destruct a0 as [issued tk]. injection H as <-.
  unfold tot. ssimpl. lia.
Qed.

Lemma increase_tot : forall cfg st id l a, tot (increase_sf_delegation cfg st id l a) = tot st.
Proof.
  intros. unfold increase_sf_delegation. destruct (s_conn st id) as [[d v]|]; [|reflexivity].
  destruct (sf_osmo_tokens cfg st d _); [|reflexivity]. destruct (a0 =? 0); [reflexivity|].
  destruct (mint_and_delegate st d v a0) eqn:E; [|reflexivity]. apply mint_tot in E. assumption.
Qed.

Lemma refresh_one_tot : forall cfg st k st', refresh_one cfg st k = Ok st' -> tot st' = tot st.
Proof.
  intros cfg st [d v] st' H. unfold refresh_one in H. dcase H; [injection H as <-; reflexivity|].
  dcase H; [|injection H as <-; reflexivity]. unfold bind in H. dcase H. dcase H. dcase H.
  - destruct (mint_and_delegate st d v (a0 - a)) eqn:E; injection H as <-; [apply mint_tot in E; assumption|reflexivity].
  - dcase H; [|injection H as <-; reflexivity].
    destruct (force_undelegate_and_burn st d v (a - a0)) eqn:E; injection H as <-; [apply force_tot in E; assumption|reflexivity].
Qed.

Lemma refresh_list_tot : forall cfg ks st st', refresh_list cfg st ks = Ok st' -> tot st' = tot st.
Proof.
  induction ks as [|k r IH]; intros st st' H; cbn [refresh_list] in H; [injection H as <-; reflexivity|].
  unfold bind in H. destruct (refresh_one cfg st k) eqn:E; [|discriminate]. apply refresh_one_tot in E. apply IH in H. lia.
Qed.

Lemma create_synth_tot : forall cfg st id k d v st', create_synth cfg st id k d v = Ok st' -> tot st' = tot st.
Proof. intros. apply create_synth_ok in H. destruct H as [_ [l [e [_ [_ ->]]]]]. reflexivity. Qed.
Lemma delete_synth_tot : forall st id k d v st', delete_synth st id k d v = Ok st' -> tot st' = tot st.
Proof. intros. apply delete_synth_ok in H. destruct H as [_ [l [_ ->]]]. reflexivity. Qed.

Lemma begin_unlock_core_tot : forall st id l amt st' n, begin_unlock_core st id l amt = Ok (st', n) -> tot st' = tot st.
Proof.
  intros st id l amt st' n H. unfold begin_unlock_core in H. dcase H. dcase H.
  destruct amt as [x|]; [destruct (x =? l_amt l)|]; injection H as <- _; reflexivity.
Qed.

Lemma superfluid_delegate_tot : forall cfg st sender id v st', superfluid_delegate cfg st sender id v = Ok st' -> tot st' = tot st.
Proof.
  intros cfg st sender id v st' H. unfold superfluid_delegate in H. repeat dcase H. unfold bind in H.
  dcase H. dcase H. dcase H. apply mint_tot in H. apply create_synth_tot in Heqr. rewrite H, Heqr.
  unfold get_or_create_acc. destruct (mem_pair _ _); reflexivity.
Qed.

Lemma superfluid_undelegate_tot : forall cfg st sender id st', superfluid_undelegate cfg st sender id = Ok st' -> tot st' = tot st.
Proof.
  intros cfg st sender id st' H. unfold superfluid_undelegate in H. dcase H. dcase H. dcase H. destruct p as [d v].
  unfold bind in H. dcase H. dcase H. dcase H.
  apply create_synth_tot in H. apply force_tot in Heqr1. apply delete_synth_tot in Heqr. rewrite H, Heqr1, Heqr. reflexivity.
Qed.

Lemma unbond_lock_tot : forall st id sender amt st' n, unbond_lock st id sender amt = Ok (st', n) -> tot st' = tot st.
Proof.
  intros st id sender amt st' n H. unfold unbond_lock in H. dcase H. dcase H. unfold bind in H. dcase H. dcase H. dcase H.
  apply begin_unlock_core_tot in H. assumption.
Qed.

Lemma add_tokens_tot : forall cfg st owner id amt st', add_tokens_to_lock cfg st owner id amt = Ok st' -> tot st' = tot st.
Proof.
  intros cfg st owner id amt st' H. unfold add_tokens_to_lock in H. dcase H. dcase H. dcase H. unfold bind in H. dcase H.
  injection H as <-. rewrite increase_tot. destruct a; reflexivity.
Qed.

Lemma delete_matured_in_tot : forall ys st id st', delete_matured_in st id ys = Ok st' -> tot st' = tot st.
Proof.
  induction ys as [|y r IH]; intros st id st' H; cbn [delete_matured_in] in H; [injection H as <-; reflexivity|].
  destruct (matured st (y_end y)); [|apply IH in H; assumption].
  destruct (delete_synth st id (y_kind y) (y_denom y) (y_val y)) eqn:E; [|discriminate].
  apply delete_synth_tot in E. apply IH in H. lia.
Qed.

Lemma delete_matured_synths_tot : forall ids st st', delete_matured_synths st ids = Ok st' -> tot st' = tot st.
Proof.
  induction ids as [|id r IH]; intros st st' H; cbn [delete_matured_synths] in H; [injection H as <-; reflexivity|].
  unfold bind in H. destruct (delete_matured_in st id (s_synths st id)) eqn:E; [|discriminate].
  apply delete_matured_in_tot in E. apply IH in H. lia.
Qed.

Lemma begin_unlock_tot : forall st id amt st' n, begin_unlock st id amt = Ok (st', n) -> tot st' = tot st.
Proof.
  intros st id amt st' n H. unfold begin_unlock in H. dcase H. dcase H. eapply begin_unlock_core_tot; eassumption.
Qed.

Lemma begin_unlock_all_tot : forall owner ids st st', begin_unlock_all st owner ids = Ok st' -> tot st' = tot st.
Proof.
  intros owner. induction ids as [|id r IH]; intros st st' H; cbn [begin_unlock_all] in H; [injection H as <-; reflexivity|].
  destruct (s_locks st id) as [l|]; [|apply IH; assumption].
  destruct ((l_owner l =? owner) && (l_end l =? 0)); [|apply IH; assumption].
  unfold bind in H. destruct (begin_unlock st id None) as [[st1 n1]|] eqn:E; [|discriminate]. cbn [fst] in H.
  apply begin_unlock_tot in E. apply IH in H. lia.
Qed.

Lemma force_unlock_tot : forall cfg st sender id st', force_unlock cfg st sender id = Ok st' -> tot st' = tot st.
Proof.
  intros cfg st sender id st' H. unfold force_unlock in H.
  destruct (s_locks st id) as [l|]; [|discriminate].
  destruct (negb (l_owner l =? sender)); [discriminate|].
  destruct (negb (existsb (Z.eqb sender) (c_force cfg))); [discriminate|].
  unfold bind in H. destruct (synth_by_lock st id) as [[y|]|]; try discriminate.
  destruct (l_end l =? 0).
  - destruct (begin_unlock st id None) as [[st1 n1]|] eqn:E; [|discriminate]. cbn [fst] in H. injection H as <-.
    apply begin_unlock_tot in E. unfold tot in *. ssimpl. assumption.
  - injection H as <-. reflexivity.
Qed.

Lemma undelegate_common_tot : forall cfg st sender id st', undelegate_common cfg st sender id = Ok st' -> tot st' = tot st.
Proof.
  intros cfg st sender id st' H. unfold undelegate_common in H.
  destruct (s_locks st id) as [l|]; [|discriminate]. destruct (negb (l_owner l =? sender)); [discriminate|].
  destruct (s_conn st id) as [[d v]|]; [|discriminate]. unfold bind in H.
  match type of H with match ?c with _ => _ end = _ => destruct c as [st2|] eqn:E2; [|discriminate] end.
  destruct (sf_osmo_tokens cfg st2 d (l_amt l)); [|discriminate].
  apply force_tot in H. apply delete_synth_tot in E2. rewrite H, E2. reflexivity.
Qed.

Lemma external_delegate_tot : forall st v x st', external_delegate st v x = Ok st' -> tot st' = tot st.
Proof.
  intros st v x st' H. unfold external_delegate in H. destruct (s_vals st v); [|discriminate].
  destruct (x <? 0); [discriminate|]. destruct (_ && _); [discriminate|]. injection H as <-. reflexivity.
Qed.

Lemma convert_tot : forall cfg st sender id v x env_ok st', convert cfg st sender id v x env_ok = Ok st' -> tot st' = tot st.
Proof.
  intros cfg st sender id v x env_ok st' H. unfold convert, bind in H.
  destruct (synth_by_lock st id) as [found|]; [|discriminate].
  match type of H with match ?c with _ => _ end = _ => destruct c as [st1|] eqn:E1; [|discriminate] end.
  assert (T1 : tot st1 = tot st).
  { destruct found as [y|]; [destruct (y_kind y)|]; try (injection E1 as <-; reflexivity). eapply undelegate_common_tot; eassumption. }
  destruct (s_locks st1 id) as [l|]; [|discriminate]. destruct (negb (l_owner l =? sender)); [discriminate|].
  destruct (negb (existsb _ (c_gamm cfg))); [discriminate|].
  destruct (synth_by_lock st1 id) as [found1|]; [|discriminate].
  match type of H with match ?c with _ => _ end = _ => destruct c as [st2|] eqn:E2; [|discriminate] end.
  assert (T2 : tot st2 = tot st1).
  { destruct found1 as [y|]; [|injection E2 as <-; reflexivity]. eapply delete_synth_tot; eassumption. }
  match type of H with match ?c with _ => _ end = _ => destruct c as [st3|] eqn:E3; [|discriminate] end.
  assert (T3 : tot st3 = tot st2).
  { destruct (l_end l =? 0); [|injection E3 as <-; reflexivity].
    destruct (begin_unlock st2 id None) as [[s n]|] eqn:E; [|discriminate]. injection E3 as <-. eapply begin_unlock_tot; eassumption. }
  destruct (negb env_ok); [discriminate|]. apply external_delegate_tot in H. rewrite H. unfold tot in *. ssimpl. lia.
Qed.

Theorem step_tot : forall cfg st o st' n, step cfg st o = Ok (st', n) -> tot st' = tot st.
Proof.
  intros cfg st o st' n H. destruct o; cbn [step] in H; unfold bind in H.
  - dcase H. injection H as <- _. reflexivity.
  - dcase H. injection H as <- _. eapply add_tokens_tot; eassumption.
  - unfold lock_tokens in H. dcase H. dcase H; [unfold bind in H; dcase H; injection H as <- _; eapply add_tokens_tot; eassumption|injection H as <- _; reflexivity].
  - unfold lock_and_delegate, bind in H. destruct (lock_tokens cfg st owner denom amt (c_unb cfg)) as [[s1 i1]|] eqn:E1; [|discriminate].
    cbn [fst snd] in H. destruct (superfluid_delegate cfg s1 owner i1 v) as [s|] eqn:E; [|discriminate]. injection H as <- _.
    apply superfluid_delegate_tot in E. rewrite E. unfold lock_tokens in E1. dcase E1.
    dcase E1; [unfold bind in E1; dcase E1; injection E1 as <- _; eapply add_tokens_tot; eassumption|injection E1 as <- _; reflexivity].
  - unfold create_and_delegate, bind in H. dcase H.
    match type of H with match ?c with _ => _ end = _ => destruct c as [s|] eqn:E; [|discriminate] end. injection H as <- _.
    apply superfluid_delegate_tot in E. rewrite E. reflexivity.
  - dcase H. injection H as <- _. eapply superfluid_delegate_tot; eassumption.
  - dcase H. injection H as <- _. eapply superfluid_undelegate_tot; eassumption.
  - dcase H. destruct a as [s m]. injection H as <- _. eapply unbond_lock_tot; eassumption.
  - unfold superfluid_undelegate_and_unbond in H. dcase H. dcase H. dcase H. dcase H. dcase H. destruct p as [d v].
    unfold bind in H. dcase H. dcase H. destruct a0 as [st2 n2].
    apply superfluid_undelegate_tot in Heqr. apply unbond_lock_tot in Heqr0.
    dcase H.
    + dcase H. injection H as <- _. lia.
    + dcase H. dcase H. dcase H. dcase H. injection H as <- _.
      apply delete_synth_tot in Heqr1. apply superfluid_delegate_tot in Heqr2. apply create_synth_tot in Heqr3. lia.
  - dcase H. dcase H. dcase H. destruct a as [s m]. injection H as <- _. eapply begin_unlock_tot; eassumption.
  - dcase H. dcase H. dcase H. eapply begin_unlock_tot; eassumption.
  - dcase H. injection H as <- _. eapply begin_unlock_all_tot; eassumption.
  - dcase H. injection H as <- _. eapply force_unlock_tot; eassumption.
  - dcase H. injection H as <- _. eapply convert_tot; eassumption.
  - dcase H. unfold unlock_matured_lock in Heqr. dcase Heqr. dcase Heqr. dcase Heqr. injection Heqr as <-. injection H as <- _. reflexivity.
  - dcase H. injection H as <- _. reflexivity.
  - dcase H. injection H as <- _. apply delete_matured_synths_tot in Heqr. assumption.
  - dcase H. injection H as <- _. unfold epoch, bind in Heqr. dcase Heqr.
    apply refresh_list_tot in Heqr. apply set_mults_frame in Heqr0. destruct Heqr0 as [_ [_ [_ [Hs [Ho _]]]]].
    unfold tot in *. lia.
Qed.
