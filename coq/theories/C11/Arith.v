(* C11/Arith.v - arithmetic of the risk-adjusted OSMO value of an LP amount:
     value m rf a = x - round(x * rf),  x = round(m * a)          (round = half-even to an integer)
   which is what GetSuperfluidOSMOTokens computes (twap_price.go, superfluid_asset.go).
   Main results: value >= 0; the value of a sum differs from the sum of the values by at most the
   number of summands (this is the whole content of the "drift" between an intermediary account's
   delegation and its locks). *)
From Coq Require Import ZArith List Bool Lia.
Import ListNotations.
From Osmo Require Import Base.DecModel.
Open Scope Z_scope.

(* ---- chop_round on non-negative arguments, generic precision p ---- *)
Section Round.
Variable p : Z.
Hypothesis Hp : 0 < p.
Hypothesis Hev : Z.even p = true.

Lemma p_half : p = 2 * Z.quot p 2.
Proof.
  rewrite Z.quot_div_nonneg by lia. apply Zeven_bool_iff in Hev. apply Zeven_div2 in Hev.
  rewrite Z.div2_div in Hev. exact Hev.
Qed.

Lemma chop_round_nonneg_bound : forall a, 0 <= a ->
  let q := chop_round_nonneg p a in 0 <= q /\ - p <= 2 * (p * q - a) <= p.
Proof.
  intros a Ha. unfold chop_round_nonneg.
  rewrite Z.rem_mod_nonneg, Z.quot_div_nonneg by lia.
  pose proof (Z.div_mod a p ltac:(lia)) as E. pose proof (Z.mod_pos_bound a p Hp) as B.
  pose proof p_half as Hh. set (h := Z.quot p 2) in *.
  assert (0 <= a / p) by (apply Z.div_pos; lia).
  set (q := a / p) in *. set (r := a mod p) in *.
  destruct (Z.eqb_spec r 0).
  - cbn zeta. split; [assumption|]. nia.
  - destruct (Z.compare_spec r h); [destruct (Z.even q)| |]; cbn zeta; split; try lia; nia.
Qed.

Lemma chop_round_bound : forall a, 0 <= a ->
  0 <= chop_round p a /\ - p <= 2 * (p * chop_round p a - a) <= p.
Proof.
  intros a Ha. unfold chop_round. destruct (Z.ltb_spec a 0); [lia|]. apply chop_round_nonneg_bound; assumption.
Qed.

Lemma chop_round_exact : forall k, 0 <= k -> chop_round p (k * p) = k.
Proof.
  intros k Hk. unfold chop_round. destruct (Z.ltb_spec (k * p) 0); [nia|].
  unfold chop_round_nonneg. rewrite Z.rem_mod_nonneg, Z.quot_div_nonneg by nia.
  rewrite Z.mod_mul, Z.div_mul by lia. reflexivity.
Qed.
End Round.

Lemma P18_pos : 0 < P18. Proof. reflexivity. Qed.
Lemma P18_even : Z.even P18 = true. Proof. reflexivity. Qed.

Definition rnd (y : Z) : Z := chop_round P18 y.

Lemma rnd_bound : forall y, 0 <= y -> 0 <= rnd y /\ - P18 <= 2 * (P18 * rnd y - y) <= P18.
Proof. intros. apply chop_round_bound; [apply P18_pos|apply P18_even|assumption]. Qed.
Lemma rnd_exact : forall k, 0 <= k -> rnd (k * P18) = k.
Proof. intros. apply chop_round_exact; [apply P18_pos|assumption]. Qed.
Lemma rnd_0 : rnd 0 = 0. Proof. reflexivity. Qed.

(* ---- the value function ---- *)
Definition value (m rf a : Z) : Z := let x := rnd (m * a) in x - rnd (x * rf).

(* scaled rounding error against the linear ideal m * a * (1 - rf) *)
Definition verr (m rf a : Z) : Z := value m rf a * (P18 * P18) - m * a * (P18 - rf).

Lemma value_0 : forall m rf, value m rf 0 = 0.
Proof. intros. unfold value. rewrite Z.mul_0_r, rnd_0, Z.mul_0_l, rnd_0. reflexivity. Qed.
Lemma value_m0 : forall rf a, value 0 rf a = 0.
Proof. intros. unfold value. rewrite Z.mul_0_l, rnd_0, Z.mul_0_l, rnd_0. reflexivity. Qed.

Section Value.
Variables m rf : Z.
Hypothesis Hm : 0 <= m.
Hypothesis Hrf : 0 <= rf <= P18.

Lemma value_nonneg : forall a, 0 <= a -> 0 <= value m rf a.
Proof.
  intros a Ha. unfold value.
  destruct (rnd_bound (m * a) ltac:(nia)) as [Hx Bx]. set (x := rnd (m * a)) in *.
  destruct (rnd_bound (x * rf) ltac:(nia)) as [Hr Br]. set (r := rnd (x * rf)) in *.
  pose proof P18_pos. cbn zeta.
  (* P18 * r <= x * rf + P18/2 <= x * P18 + P18/2  =>  r <= x *)
  assert (2 * P18 * r <= 2 * P18 * x + P18) by nia.
  assert (2 * r <= 2 * x + 1) by nia. lia.
Qed.

(* |2 * verr| <= 2 * P18^2 - P18 * rf, and <= P18^2 when rf = 0 *)
Lemma verr_bound : forall a, 0 <= a ->
  - (2 * P18 * P18 - P18 * rf) <= 2 * verr m rf a <= 2 * P18 * P18 - P18 * rf.
Proof.
  intros a Ha. unfold verr, value.
  destruct (rnd_bound (m * a) ltac:(nia)) as [Hx Bx]. set (x := rnd (m * a)) in *.
  destruct (rnd_bound (x * rf) ltac:(nia)) as [Hr Br]. set (r := rnd (x * rf)) in *.
  pose proof P18_pos. cbn zeta.
  set (d1 := P18 * x - m * a) in *. set (d2 := P18 * r - x * rf) in *.
  assert (E : (x - r) * (P18 * P18) - m * a * (P18 - rf) = d1 * (P18 - rf) - P18 * d2).
  { unfold d1, d2. ring. }
  rewrite E. clearbody d1 d2. clear E. set (P := P18) in *. clearbody P. nia.
Qed.

Lemma verr_bound_rf0 : rf = 0 -> forall a, 0 <= a ->
  - (P18 * P18) <= 2 * verr m rf a <= P18 * P18.
Proof.
  intros E a Ha. subst rf. unfold verr, value.
  destruct (rnd_bound (m * a) ltac:(nia)) as [Hx Bx]. set (x := rnd (m * a)) in *.
  rewrite Z.mul_0_r, rnd_0. cbn zeta. pose proof P18_pos.
  set (P := P18) in *. clearbody P. nia.
Qed.

Fixpoint zsum (l : list Z) : Z := match l with [] => 0 | x :: r => x + zsum r end.

Lemma verr_sum : forall l,
  value m rf (zsum l) * (P18 * P18) - zsum (map (value m rf) l) * (P18 * P18)
  = verr m rf (zsum l) - zsum (map (verr m rf) l).
Proof.
  intros l. unfold verr at 1.
  assert (H : forall l, zsum (map (verr m rf) l) = zsum (map (value m rf) l) * (P18 * P18) - m * zsum l * (P18 - rf)).
  { induction l0 as [|x r IH]; cbn [map zsum]; [ring|]. rewrite IH. unfold verr. ring. }
  rewrite H. ring.
Qed.

Lemma verr_sum_bound : forall l B, (forall a, 0 <= a -> - B <= 2 * verr m rf a <= B) ->
  Forall (fun a => 0 <= a) l ->
  - (Z.of_nat (length l) * B) <= 2 * zsum (map (verr m rf) l) <= Z.of_nat (length l) * B.
Proof.
  intros l B HB. induction 1 as [|x r Hx Hr IH]; cbn [map zsum length]; [lia|].
  specialize (HB x Hx). rewrite Nat2Z.inj_succ. nia.
Qed.

Lemma zsum_nonneg : forall l, Forall (fun a => 0 <= a) l -> 0 <= zsum l.
Proof. induction 1; cbn [zsum]; lia. Qed.

(* the value of a sum is within one unit per summand of the sum of the values *)
Theorem value_sum_bound : forall l, Forall (fun a => 0 <= a) l ->
  Z.abs (value m rf (zsum l) - zsum (map (value m rf) l)) <= Z.of_nat (length l).
Proof.
  intros l Hl. destruct l as [|a0 l'].
  { cbn [zsum map length]. rewrite value_0. cbn. lia. }
  set (l := a0 :: l') in *. set (n := Z.of_nat (length l)).
  assert (Hn : 1 <= n) by (unfold n, l; cbn [length]; lia).
  pose proof (verr_sum l) as E. pose proof (zsum_nonneg l Hl) as HA. pose proof P18_pos as HP.
  set (D := value m rf (zsum l) - zsum (map (value m rf) l)) in *.
  assert (E' : D * (P18 * P18) = verr m rf (zsum l) - zsum (map (verr m rf) l)) by (unfold D; lia).
  destruct (Z.eq_dec rf 0) as [R0|R0].
  - pose proof (verr_bound_rf0 R0 (zsum l) HA) as B1.
    pose proof (verr_sum_bound l (P18 * P18) (verr_bound_rf0 R0) Hl) as B2. fold n in B2.
    set (PP := P18 * P18) in *. assert (0 < PP) by (unfold PP; nia). clearbody PP.
    assert (- ((n + 1) * PP) <= 2 * D * PP <= (n + 1) * PP) by nia.
    apply Z.abs_le. nia.
  - pose proof (verr_bound (zsum l) HA) as B1.
    pose proof (verr_sum_bound l (2 * P18 * P18 - P18 * rf) verr_bound Hl) as B2. fold n in B2.
    assert (Hlt : 2 * P18 * P18 - P18 * rf < 2 * (P18 * P18)) by nia.
    set (PP := P18 * P18) in *. assert (0 < PP) by (unfold PP; nia).
    set (B := 2 * P18 * P18 - P18 * rf) in *. assert (0 <= B) by (unfold B; nia). clearbody PP B.
    assert (- ((n + 1) * B) <= 2 * D * PP <= (n + 1) * B) by nia.
    apply Z.abs_le. nia.
Qed.
End Value.

(* two-summand instance used for top-ups: value (a + b) vs value a + value b *)
Lemma value_add_bound : forall m rf a b, 0 <= m -> 0 <= rf <= P18 -> 0 <= a -> 0 <= b ->
  Z.abs (value m rf (a + b) - (value m rf a + value m rf b)) <= 2.
Proof.
  intros m rf a b Hm Hrf Ha Hb.
  pose proof (value_sum_bound m rf Hm Hrf [a; b] ltac:(repeat constructor; assumption)) as H.
  cbn [zsum map length] in H. replace (a + (b + 0)) with (a + b) in H by lia.
  replace (value m rf a + (value m rf b + 0)) with (value m rf a + value m rf b) in H by lia. exact H.
Qed.
