(* C16 proofs, layer 3b: on a well-formed store the recursive three-way split (ptr.accumulationSplit) returns the sums
   of the leaves to the left of / at / to the right of the query key. *)
From Coq Require Import ZArith List Bool Lia Sorted.
Import ListNotations.
From Osmo Require Import C16.Model C16.Spec C16.Statement C16.Keys C16.Assoc C16.StoreLemmas C16.Views C16.Flat C16.Upper
  C16.SumLemmas.
Open Scope Z_scope.

(* generic list facts *)
Lemma flat_map_flat : forall {A B C} (f : A -> list B) (g : B -> list C) (l : list A),
  flat_map g (flat_map f l) = flat_map (fun x => flat_map g (f x)) l.
Proof. induction l as [|x l IH]; simpl; auto. rewrite flat_map_app, IH; auto. Qed.
Lemma flat_map_map : forall {A B C} (h : A -> B) (g : B -> list C) (l : list A),
  flat_map g (map h l) = flat_map (fun x => g (h x)) l.
Proof. induction l as [|x l IH]; simpl; auto. rewrite IH; auto. Qed.

Lemma flat_map_ext_in' : forall {A B} (f g : A -> list B) (l : list A),
  (forall a, In a l -> f a = g a) -> flat_map f l = flat_map g l.
Proof. induction l as [|x l IH]; simpl; intros Hx; auto. rewrite Hx, IH; auto. Qed.

Lemma accumulate_flat_map : forall (f : key -> list (key * Z)) (n : list (key * Z)),
  (forall c s, In (c, s) n -> s = sm_sum (f c)) ->
  accumulate n = sm_sum (flat_map (fun c => f (fst c)) n).
Proof.
  induction n as [|[c s] n IH]; simpl; intros Hall; auto.
  rewrite sm_sum_app, <- IH by (intros; apply Hall; auto). rewrite <- (Hall c s) by auto. reflexivity.
Qed.

Lemma leaves_flat_sums : forall (lv : list (key * list (key * Z))), Forall leaf_ok lv -> flat lv = sums lv.
Proof.
  induction lv as [|[k n] lv IH]; intros Hl; [reflexivity|]. inversion Hl as [|? ? (v & E) Hl']; subst.
  simpl in E; subst n. unfold flat, sums in *; simpl. rewrite IH by auto. rewrite Z.add_0_r. reflexivity.
Qed.

(* Node.find on a sorted child list, relative to the floor decomposition *)
Lemma find_decomp : forall (pre : list (key * Z)) c s post q,
  @asorted Z (pre ++ (c, s) :: post) -> kle c q -> (forall y, In y (akeys post) -> klt q y) ->
  find (pre ++ (c, s) :: post) q = if key_eqb c q then (length pre, true) else (S (length pre), false).
Proof.
  induction pre as [|[p ps] pre IH]; intros c s post q Hs Hle Hpost.
  - cbn [app]. rewrite find_cons. destruct (key_eqb c q) eqn:E; auto.
    apply key_eqb_false in E. assert (klt c q) as Hlt by (apply kle_cases in Hle; destruct Hle; [congruence|auto]).
    replace (key_cmp c q) with Lt by (symmetry; exact Hlt).
    destruct post as [|[y ys] post]; [reflexivity|].
    rewrite find_cons. assert (klt q y) as Hy by (apply Hpost; simpl; auto).
    replace (key_eqb y q) with false by (symmetry; apply key_eqb_false; intros ->; eapply klt_irrefl; eauto).
    replace (key_cmp y q) with Gt by (symmetry; apply key_cmp_gt_lt; auto). reflexivity.
  - cbn [app] in *. rewrite find_cons.
    destruct (asorted_cons_inv _ _ _ Hs) as [Hs' Hf].
    assert (klt p c) as Hpc. { eapply Forall_forall; [exact Hf|]. rewrite akeys_app; apply in_or_app; right; simpl; auto. }
    assert (klt p q) as Hpq by (eapply klt_le_trans; eauto).
    replace (key_eqb p q) with false by (symmetry; apply key_eqb_false; intros ->; eapply klt_irrefl; eauto).
    replace (key_cmp p q) with Lt by (symmetry; exact Hpq).
    rewrite (IH c s post q Hs' Hle Hpost). destruct (key_eqb c q); reflexivity.
Qed.

Lemma nth_error_mid : forall {A} (pre : list A) x post, nth_error (pre ++ x :: post) (length pre) = Some x.
Proof. induction pre; simpl; auto. Qed.
Lemma firstn_mid : forall {A} (pre : list A) x post, firstn (length pre) (pre ++ x :: post) = pre.
Proof. induction pre; simpl; intros; auto. f_equal; auto. Qed.
Lemma skipn_mid : forall {A} (pre : list A) x post, skipn (S (length pre)) (pre ++ x :: post) = post.
Proof. induction pre as [|a pre IH]; intros; [reflexivity|]. cbn [length app]. change (skipn (S (S (length pre))) (a :: pre ++ x :: post)) with (skipn (S (length pre)) (pre ++ x :: post)). apply IH. Qed.

Section Query.
Variable st : list ((nat * key) * list (key * Z)).
Variable H : nat.
Hypothesis Hs : sorted_store st.
Hypothesis HH : (1 <= H)%nat.
Hypothesis Hleaves : Forall leaf_ok (nodes_at st 0).
Hypothesis Hcons : forall J, (1 <= J <= H)%nat -> flat (nodes_at st J) = sums (nodes_at st (J - 1)).
Hypothesis Hheaded : forall J, (1 <= J <= H)%nat -> Forall headed (nodes_at st J).
Hypothesis Htop : akeys (nodes_at st H) = [[]].
Hypothesis Habove : forall L, (H < L)%nat -> nodes_at st L = [].

(* the leaves below node (J, k) *)
Fixpoint under (J : nat) (k : key) : list (key * Z) :=
  match J with
  | O => match st_get st (0%nat, k) with Some n => n | None => [] end
  | S j => flat_map (fun c => under j (fst c)) (node_of st (mkPtr (S j) k false))
  end.

Lemma under_in_0 : forall k n, In (k, n) (nodes_at st 0) -> under 0 k = n.
Proof.
  intros k n Hin. simpl. rewrite st_get_nodes_at by auto.
  rewrite (al_in_get _ _ _ (nodes_at_sorted st 0 Hs) Hin). reflexivity.
Qed.
Lemma under_in_S : forall j k n, In (k, n) (nodes_at st (S j)) ->
  under (S j) k = flat_map (fun c => under j (fst c)) n.
Proof. intros j k n Hin. simpl. rewrite (node_of_in st (S j) k false n Hs Hin). reflexivity. Qed.

Lemma flat_sorted : forall J, (1 <= J <= H)%nat -> @asorted Z (flat (nodes_at st J)).
Proof. intros J HJ. rewrite Hcons by auto. apply asorted_sums. apply nodes_at_sorted; auto. Qed.

Lemma entry_ok : forall J k n c s, (1 <= J <= H)%nat -> In (k, n) (nodes_at st J) -> In (c, s) n ->
  exists nc, In (c, nc) (nodes_at st (J - 1)) /\ s = accumulate nc.
Proof.
  intros J k n c s HJ Hin Hc.
  assert (In (c, s) (flat (nodes_at st J))) as Hf.
  { unfold flat. apply in_flat_map. exists (k, n); auto. }
  rewrite Hcons in Hf by auto. unfold sums in Hf. apply in_map_iff in Hf. destruct Hf as ([c' nc] & E & Hin').
  simpl in E. inversion E; subst. exists nc; auto.
Qed.

Lemma node_facts : forall J k n, (1 <= J <= H)%nat -> In (k, n) (nodes_at st J) ->
  exists l1 l2, nodes_at st J = l1 ++ (k, n) :: l2 /\ @asorted Z n /\ headed (k, n) /\
    (forall x y, In x (akeys n) -> In y (akeys (flat l2)) -> klt x y).
Proof.
  intros J k n HJ Hin. pose proof Hin as Hin'. apply in_split in Hin'. destruct Hin' as (l1 & l2 & E).
  exists l1, l2. split; auto. pose proof (flat_sorted J HJ) as Hfs. rewrite E in Hfs.
  destruct (node_sorted_in_level _ _ _ _ Hfs) as (Hn & _ & Hafter).
  pose proof (Hheaded J HJ) as Hh. eapply Forall_forall in Hh; eauto.
Qed.

(* sums: the entries of a node add up to the leaves below it *)
Lemma acc_under : forall J k n, (J <= H)%nat -> In (k, n) (nodes_at st J) -> accumulate n = sm_sum (under J k).
Proof.
  induction J as [|j IH]; intros k n HJ Hin.
  - rewrite (under_in_0 k n Hin). reflexivity.
  - rewrite (under_in_S j k n Hin). apply accumulate_flat_map. intros c s Hc.
    destruct (entry_ok (S j) k n c s ltac:(lia) Hin Hc) as (nc & Hnc & ->).
    replace (S j - 1)%nat with j in Hnc by lia. apply IH; auto; lia.
Qed.

(* order: the leaves below (J, k) lie at or above k ... *)
Lemma under_lb : forall J k n x, (J <= H)%nat -> In (k, n) (nodes_at st J) -> In x (akeys (under J k)) -> kle k x.
Proof.
  induction J as [|j IH]; intros k n x HJ Hin Hx.
  - rewrite (under_in_0 k n Hin) in Hx. eapply Forall_forall in Hleaves; eauto. destruct Hleaves as (v & E); simpl in E; subst n.
    destruct Hx as [<-|[]]. apply kle_refl.
  - rewrite (under_in_S j k n Hin) in Hx. unfold akeys in Hx. apply in_map_iff in Hx. destruct Hx as ([x' v] & E & Hx); simpl in E; subst x'.
    apply in_flat_map in Hx. destruct Hx as ([c s] & Hc & Hx); simpl in Hx.
    destruct (entry_ok (S j) k n c s ltac:(lia) Hin Hc) as (nc & Hnc & _). replace (S j - 1)%nat with j in Hnc by lia.
    assert (kle c x) as Hcx by (eapply (IH c nc); eauto; [lia|apply in_map_iff; exists (x, v); auto]).
    destruct (node_facts (S j) k n ltac:(lia) Hin) as (l1 & l2 & _ & Hn & (a0 & r0 & E0) & _). simpl in E0; subst n.
    destruct Hc as [Ec|Hc]; [inversion Ec; subst; auto|].
    apply asorted_cons_inv in Hn. destruct Hn as [_ Hf].
    eapply Forall_forall in Hf; [|apply in_map_iff; exists (c, s); split; [reflexivity|exact Hc]].
    eapply kle_trans; [apply klt_kle; exact Hf|exact Hcx].
Qed.

(* ... and below every later node key of the same level *)
Lemma under_ub : forall J k n k' x, (J <= H)%nat -> In (k, n) (nodes_at st J) ->
  In k' (akeys (nodes_at st J)) -> klt k k' -> In x (akeys (under J k)) -> klt x k'.
Proof.
  induction J as [|j IH]; intros k n k' x HJ Hin Hk' Hlt Hx.
  - rewrite (under_in_0 k n Hin) in Hx. eapply Forall_forall in Hleaves; eauto. destruct Hleaves as (v & E); simpl in E; subst n.
    destruct Hx as [<-|[]]. auto.
  - rewrite (under_in_S j k n Hin) in Hx. unfold akeys in Hx. apply in_map_iff in Hx. destruct Hx as ([x' v] & E & Hx); simpl in E; subst x'.
    apply in_flat_map in Hx. destruct Hx as ([c s] & Hc & Hx); simpl in Hx.
    destruct (entry_ok (S j) k n c s ltac:(lia) Hin Hc) as (nc & Hnc & _). replace (S j - 1)%nat with j in Hnc by lia.
    destruct (node_facts (S j) k n ltac:(lia) Hin) as (l1 & l2 & Elv & Hn & Hhn & Hafter).
    pose proof (Hheaded (S j) ltac:(lia)) as Hh.
    assert (In k' (akeys (nodes_at st j))) as Hk'j.
    { rewrite <- akeys_sums. replace j with (S j - 1)%nat at 1 by lia. rewrite <- Hcons by lia. apply akeys_flat_in; auto. }
    assert (klt c k') as Hck'.
    { apply Hafter; [apply in_map_iff; exists (c, s); auto|].
      pose proof (nodes_at_sorted st (S j) Hs) as Hsl. rewrite Elv in Hsl, Hk', Hh.
      destruct (asorted_app _ _ Hsl) as (_ & _ & H12).
      rewrite akeys_app in Hk'. apply in_app_or in Hk'. destruct Hk' as [Hk'|[Hk'|Hk']].
      - exfalso. specialize (H12 k' k Hk' (or_introl eq_refl)). eapply klt_irrefl. eapply klt_trans; eauto.
      - simpl in Hk'; subst. exfalso. eapply klt_irrefl; eauto.
      - apply akeys_flat_in; auto. apply Forall_app in Hh. destruct Hh as [_ Hh]. inversion Hh; auto. }
    eapply (IH c nc k' x); eauto; [lia|apply in_map_iff; exists (x, v); auto].
Qed.

(* the leaves below a whole level, read left to right, are all the leaves *)
Lemma unders_flat : forall J, (J <= H)%nat -> flat_map (fun kn => under J (fst kn)) (nodes_at st J) = abs st.
Proof.
  induction J as [|j IH]; intros HJ.
  - rewrite (flat_map_ext_in' _ snd).
    + fold (flat (nodes_at st 0)). rewrite leaves_flat_sums; auto.
    + intros [k n] Hin. apply under_in_0; auto.
  - rewrite (flat_map_ext_in' _ (fun kn => flat_map (fun c => under j (fst c)) (snd kn))).
    + rewrite <- (flat_map_flat snd). fold (flat (nodes_at st (S j))). rewrite Hcons by lia.
      replace (S j - 1)%nat with j by lia. unfold sums. rewrite flat_map_map. simpl. apply IH; lia.
    + intros [k n] Hin. apply under_in_S; auto.
Qed.

(* ptr.accumulationSplit *)
Lemma acc_split_under : forall J k n q, (J <= H)%nat -> In (k, n) (nodes_at st J) -> kle k q ->
  acc_split st J k q = Ok (sm_left (under J k) q, sm_exact' (under J k) q, sm_right (under J k) q).
Proof.
  induction J as [|j IH]; intros k n q HJ Hin Hkq.
  - rewrite (under_in_0 k n Hin). simpl. rewrite st_get_nodes_at by auto.
    rewrite (al_in_get _ _ _ (nodes_at_sorted st 0 Hs) Hin).
    eapply Forall_forall in Hleaves; eauto. destruct Hleaves as (v & E); simpl in E; subst n.
    unfold sm_left, sm_exact', sm_right, sm_filter. simpl.
    kcase k q; simpl; f_equal; f_equal; try f_equal; lia.
  - rewrite (under_in_S j k n Hin). cbn [acc_split]. rewrite (node_of_in st (S j) k false n Hs Hin).
    destruct (node_facts (S j) k n ltac:(lia) Hin) as (l1 & l2 & Elv & Hn & (a0 & r0 & E0) & _). simpl in E0.
    destruct (floor_split n q Hn) as (pre & c & s & post & En & Hcq & Hpost).
    { exists k, a0, r0; auto. }
    clear E0. subst n.
    rewrite (find_decomp pre c s post q) by auto.
    assert (In (c, s) (pre ++ (c, s) :: post)) as Hc by (apply in_or_app; right; simpl; auto).
    destruct (entry_ok (S j) k _ c s ltac:(lia) Hin Hc) as (nc & Hnc & Es). replace (S j - 1)%nat with j in Hnc by lia.
    assert (forall x, In x (akeys (flat_map (fun c0 => under j (fst c0)) pre)) -> klt x q) as Hpre_lt.
    { intros x Hx; unfold akeys in Hx; apply in_map_iff in Hx; destruct Hx as ([x' v] & E & Hx); simpl in E; subst x'.
      apply in_flat_map in Hx; destruct Hx as ([c' s'] & Hc' & Hx); simpl in Hx.
      assert (In (c', s') (pre ++ (c, s) :: post)) as Hc'n by (apply in_or_app; left; auto).
      destruct (entry_ok (S j) k _ c' s' ltac:(lia) Hin Hc'n) as (nc' & Hnc' & _); replace (S j - 1)%nat with j in Hnc' by lia.
      assert (klt c' c) as Hc'c.
      { destruct (asorted_app _ _ Hn) as (_ & _ & H12). apply H12; [apply in_map_iff; exists (c', s'); auto|simpl; auto]. }
      eapply klt_le_trans; [|exact Hcq].
      apply (under_ub j c' nc' c x); auto; try lia;
        [apply in_map_iff; exists (c, nc); auto|apply in_map_iff; exists (x, v); auto]. }
    assert (forall x, In x (akeys (flat_map (fun c0 => under j (fst c0)) post)) -> klt q x) as Hpost_gt.
    { intros x Hx; unfold akeys in Hx; apply in_map_iff in Hx; destruct Hx as ([x' v] & E & Hx); simpl in E; subst x'.
      apply in_flat_map in Hx; destruct Hx as ([c' s'] & Hc' & Hx); simpl in Hx.
      assert (In (c', s') (pre ++ (c, s) :: post)) as Hc'n by (apply in_or_app; right; simpl; auto).
      destruct (entry_ok (S j) k _ c' s' ltac:(lia) Hin Hc'n) as (nc' & Hnc' & _); replace (S j - 1)%nat with j in Hnc' by lia.
      eapply klt_le_trans; [apply Hpost; apply in_map_iff; exists (c', s'); auto|].
      apply (under_lb j c' nc' x); auto; try lia. apply in_map_iff; exists (x, v); auto. }
    assert (accumulate pre = sm_sum (flat_map (fun c0 => under j (fst c0)) pre)) as Epre.
    { apply accumulate_flat_map; intros c' s' Hc'.
      assert (In (c', s') (pre ++ (c, s) :: post)) as Hc'n by (apply in_or_app; left; auto).
      destruct (entry_ok (S j) k _ c' s' ltac:(lia) Hin Hc'n) as (nc' & Hnc' & ->); replace (S j - 1)%nat with j in Hnc' by lia.
      apply acc_under; auto; lia. }
    assert (accumulate post = sm_sum (flat_map (fun c0 => under j (fst c0)) post)) as Epost.
    { apply accumulate_flat_map; intros c' s' Hc'.
      assert (In (c', s') (pre ++ (c, s) :: post)) as Hc'n by (apply in_or_app; right; simpl; auto).
      destruct (entry_ok (S j) k _ c' s' ltac:(lia) Hin Hc'n) as (nc' & Hnc' & ->); replace (S j - 1)%nat with j in Hnc' by lia.
      apply acc_under; auto; lia. }
    destruct (split_block_below _ q Hpre_lt) as (Ea1 & Ea2 & Ea3).
    destruct (split_block_above _ q Hpost_gt) as (Eb1 & Eb2 & Eb3).
    rewrite !flat_map_app. cbn [flat_map fst]. rewrite !sm_left_app, !sm_exact'_app, !sm_right_app.
    rewrite Ea1, Ea2, Ea3, Eb1, Eb2, Eb3, <- Epre, <- Epost.
    destruct (key_eqb c q) eqn:Ecq; cbn [fst snd].
    all: rewrite nth_error_mid; rewrite (IH c nc q ltac:(lia) Hnc Hcq); cbn [bind];
         rewrite firstn_mid, skipn_mid; f_equal; f_equal; try f_equal; lia.
Qed.

(* Tree.SplitAcc: t.root().accumulationSplit(key) *)
Lemma split_acc_abs : forall q, split_acc st q = Ok (sm_split (abs st) q).
Proof.
  intros q. unfold split_acc. rewrite (root_top st H) by (auto; rewrite level_keys_nodes_at; auto). cbn [p_level p_key].
  destruct (nodes_at st H) as [|[k0 n0] r] eqn:Elv; [discriminate|]. simpl in Htop. inversion Htop as [[E1 E2]]; subst k0.
  destruct r; [|discriminate].
  assert (In ([], n0) (nodes_at st H)) as Hin by (rewrite Elv; simpl; auto).
  rewrite (acc_split_under H [] n0 q (le_n H) Hin (kle_nil q)).
  pose proof (unders_flat H (le_n H)) as Hu. rewrite Elv in Hu. simpl in Hu. rewrite app_nil_r in Hu. rewrite Hu.
  unfold sm_split, sm_exact. rewrite sm_exact'_get; auto.
  unfold abs, sums_at. fold (sums (nodes_at st 0)). apply asorted_sums. apply nodes_at_sorted; auto.
Qed.

End Query.
