(* C16 model: osmoutils/sumtree (tree.go, node.go, constants.go) over a key-value store.
   Mirrors the Go code function by function, as written.  No proofs in this file.

   Store: strictly sorted association list keyed by (level, key), keys = byte strings ([list Z]) in
   lexicographic order - the order of the real store's raw keys "node/" ++ be16(level) ++ key
   (see [raw_key] below and C16/Layout.v for the order isomorphism).
   Values are unbounded [Z] (sdk Int).  Panics / out-of-fuel are explicit errors. *)
From Coq Require Import ZArith List Bool.
Import ListNotations.
From Osmo Require Import Gen.C16_consts.   (* regenerated from /repo's constants.go / node.go on every run *)
Open Scope Z_scope.

(* ------------------------------------------------------------------------------------------ *)
(* keys, bytes.Compare *)
Definition key := list Z.

Fixpoint key_cmp (a b : key) : comparison :=
  match a, b with
  | [], [] => Eq
  | [], _ :: _ => Lt
  | _ :: _, [] => Gt
  | x :: a', y :: b' => match Z.compare x y with Eq => key_cmp a' b' | c => c end
  end.
Definition key_eqb (a b : key) : bool := match key_cmp a b with Eq => true | _ => false end.
Definition key_ltb (a b : key) : bool := match key_cmp a b with Lt => true | _ => false end.
Definition key_leb (a b : key) : bool := match key_cmp a b with Gt => false | _ => true end.

(* store keys: (level, key), ordered by level first (be16 level precedes the key bytes) *)
Notation skey := (nat * key)%type (only parsing).
Definition skey_cmp (a b : skey) : comparison :=
  match Nat.compare (fst a) (fst b) with Eq => key_cmp (snd a) (snd b) | c => c end.

(* the raw byte layout of tree.nodeKey: nodeKeyPrefix ++ BigEndian.PutUint16(level) ++ key *)
Definition node_prefix : list Z := gen_node_prefix.            (* "node/" *)
Definition raw_key (level : nat) (k : key) : list Z :=
  node_prefix ++ [Z.of_nat level / 256; Z.of_nat level mod 256] ++ k.

(* ------------------------------------------------------------------------------------------ *)
(* Child, Node, Leaf.  A Leaf{Leaf: &Child{Index, Accumulation}} is stored as a one-entry node. *)
(* (notations, not definitions: aliases that unfold to the same product / list types everywhere) *)
Notation child := (key * Z)%type (only parsing).
Notation node := (list (key * Z)) (only parsing).
Notation store := (list ((nat * key) * list (key * Z))) (only parsing).

Inductive err :=
| EFuel          (* model ran out of fuel (never for fuel = root level + 3) *)
| EIndex         (* runtime error: index out of range *)
| ENilDeref      (* runtime error: nil pointer dereference *)
| EPushMissing   (* panic("non existing key pushed from the child") *)
| EPullMissing.  (* panic("pulling non existing child") *)

Inductive result (A : Type) := Ok (a : A) | Err (e : err).
Arguments Ok {A} a.
Arguments Err {A} e.
Definition bind {A B} (r : result A) (f : A -> result B) : result B :=
  match r with Ok a => f a | Err e => Err e end.
Notation "x <- r ;; k" := (bind r (fun x => k)) (at level 61, r at next level, right associativity).

(* ------------------------------------------------------------------------------------------ *)
(* KVStore: Has / Get / Set / Delete on the sorted list *)
Fixpoint st_get (st : store) (k : skey) : option node :=
  match st with
  | [] => None
  | (k', n) :: r => match skey_cmp k k' with Eq => Some n | Lt => None | Gt => st_get r k end
  end.
Definition st_has (st : store) (k : skey) : bool := match st_get st k with Some _ => true | None => false end.
Fixpoint st_set (st : store) (k : skey) (n : node) : store :=
  match st with
  | [] => [(k, n)]
  | (k', n') :: r => match skey_cmp k k' with
                     | Eq => (k, n) :: r
                     | Lt => (k, n) :: st
                     | Gt => (k', n') :: st_set r k n
                     end
  end.
Fixpoint st_del (st : store) (k : skey) : store :=
  match st with
  | [] => []
  | (k', n') :: r => match skey_cmp k k' with
                     | Eq => r
                     | Lt => st
                     | Gt => (k', n') :: st_del r k
                     end
  end.

(* the keys of one level, in store order: what ptrIterator(level, nil, nil) walks *)
Definition level_keys (st : store) (level : nat) : list key :=
  map (fun e => snd (fst e)) (filter (fun e => Nat.eqb (fst (fst e)) level) st).

(* ------------------------------------------------------------------------------------------ *)
(* ptr.  [p_nil]: the Go slice ptr.key is nil (as opposed to empty but non-nil): ptrIterator and
   ptrReverseIterator test [end != nil]. *)
Record ptr := mkPtr { p_level : nat; p_key : key; p_nil : bool }.
Definition ptr_get (level : nat) (k : key) (isnil : bool) : ptr := mkPtr level k isnil.
Definition p_skey (p : ptr) : skey := (p_level p, p_key p).

(* ptr.exists (on a non-nil *ptr) *)
Definition exists_ (st : store) (p : ptr) : bool := st_has st (p_skey p).
(* ptr.exists on a possibly nil *ptr *)
Definition exists_opt (st : store) (p : option ptr) : bool :=
  match p with None => false | Some p => exists_ st p end.

(* ptr.node(): an absent entry gives the empty Node *)
Definition node_of (st : store) (p : ptr) : node :=
  match st_get st (p_skey p) with Some n => n | None => [] end.

(* ptrReverseIterator(level, nil, end).ptr(): last key of the level that is < end (all keys if end is nil);
   the resulting ptr's key comes from iter.Key()[7:] - a non-nil slice *)
Fixpoint last_lt (ks : list key) (e : option key) (acc : option key) : option key :=
  match ks with
  | [] => acc
  | k :: r => match e with
              | None => last_lt r e (Some k)
              | Some e' => if key_ltb k e' then last_lt r e (Some k) else acc
              end
  end.
Definition left_sibling (st : store) (p : ptr) : option ptr :=
  match last_lt (level_keys st (p_level p)) (if p_nil p then None else Some (p_key p)) None with
  | None => None
  | Some k => Some (mkPtr (p_level p) k false)
  end.

(* ptrIterator(level, key, nil): the keys of the level that are >= key *)
Fixpoint keys_ge (ks : list key) (b : key) : list key :=
  match ks with
  | [] => []
  | k :: r => if key_ltb k b then keys_ge r b else ks
  end.
Definition right_sibling (st : store) (p : ptr) : option ptr :=
  match keys_ge (level_keys st (p_level p)) (p_key p) with
  | [] => None                                           (* !iter.Valid() *)
  | k :: r =>
      if exists_ st p then                               (* exclude ptr itself: iter.Next() *)
        match r with [] => None | k' :: _ => Some (mkPtr (p_level p) k' false) end
      else Some (mkPtr (p_level p) k false)
  end.

(* ptr.parent() *)
Definition parent_of (st : store) (p : ptr) : ptr :=
  let parent := ptr_get (S (p_level p)) (p_key p) (p_nil p) in
  if exists_ st parent then parent
  else
    let parent' := left_sibling st parent in
    if exists_opt st parent' then match parent' with Some q => q | None => parent end
    else ptr_get (S (p_level p)) [] true.

(* Tree.root(): the last entry of the store (reverse prefix iterator over "node/") *)
Fixpoint last_entry (st : store) : option skey :=
  match st with
  | [] => None
  | [(k, _)] => Some k
  | _ :: r => last_entry r
  end.
Definition root (st : store) : option ptr :=
  match last_entry st with None => None | Some (l, k) => Some (mkPtr l k false) end.

(* ------------------------------------------------------------------------------------------ *)
(* Node methods *)
Fixpoint accumulate (n : node) : Z :=
  match n with [] => 0 | (_, a) :: r => a + accumulate r end.

(* node.find: (idx, match) *)
Fixpoint find_from (n : node) (k : key) (idx : nat) : nat * bool :=
  match n with
  | [] => (idx, false)
  | (ck, _) :: r =>
      if key_eqb ck k then (idx, true)
      else match key_cmp ck k with Gt => (idx, false) | _ => find_from r k (S idx) end
  end.
Definition find (n : node) (k : key) : nat * bool := find_from n k 0.

Fixpoint set_acc (n : node) (idx : nat) (a : Z) : node :=
  match n, idx with
  | [], _ => []
  | (k, _) :: r, O => (k, a) :: r
  | c :: r, S i => c :: set_acc r i a
  end.
Definition insert (n : node) (idx : nat) (c : child) : node := firstn idx n ++ c :: skipn idx n.
Definition delete (n : node) (idx : nat) : node := firstn idx n ++ skipn (S idx) n.
Definition split (n : node) (idx : nat) : node * node := (firstn idx n, skipn idx n).
Definition merge (n n2 : node) : node := n ++ n2.

(* ------------------------------------------------------------------------------------------ *)
(* ptr.updateAccumulation *)
Fixpoint update_acc (fuel : nat) (st : store) (p : ptr) (c : child) : result store :=
  match fuel with
  | O => Err EFuel
  | S f =>
      if negb (exists_ st p) then Ok st          (* reached at the root *)
      else
        let nd := node_of st p in
        let '(idx, mt) := find nd (fst c) in
        if negb mt then Err EPushMissing
        else
          let nd := set_acc nd idx (snd c) in
          let st := st_set st (p_skey p) nd in
          update_acc f st (parent_of st p) (p_key p, accumulate nd)
  end.

(* split := ptr.tree.m/2 + 1 *)
Definition split_at (m : nat) : nat := (m / gen_split_div + gen_split_add)%nat.

(* ptr.push; m = tree.m (uint8) *)
Fixpoint push (fuel : nat) (m : nat) (st : store) (p : ptr) (c : child) : result store :=
  match fuel with
  | O => Err EFuel
  | S f =>
      if negb (exists_ st p) then Ok (st_set st (p_skey p) [c])      (* ptr.create(NewNode(c)) *)
      else
        let cs := node_of st p in
        let '(idx, mt) := find cs (fst c) in
        if mt then update_acc f st p c
        else
          let cs := insert cs idx c in
          let parent := parent_of st p in
          if Nat.ltb m (length cs) then
            let sp := split_at m in
            let '(leftnode, rightnode) := split cs sp in
            match nth_error cs sp with
            | None => Err EIndex
            | Some (sk, _) =>
                let st := st_set st (p_level p, sk) rightnode in
                if negb (exists_ st parent) then
                  let st := st_set st (p_skey parent)
                                   [(p_key p, accumulate leftnode); (sk, accumulate rightnode)] in
                  Ok (st_set st (p_skey p) leftnode)
                else
                  st <- push f m st parent (sk, accumulate rightnode) ;;
                  let cs := leftnode in
                  let parent := parent_of st p in       (* parent might be changed during the pushing process *)
                  st <- update_acc f st parent (p_key p, accumulate cs) ;;
                  Ok (st_set st (p_skey p) cs)
            end
          else
            st <- update_acc f st parent (p_key p, accumulate cs) ;;
            Ok (st_set st (p_skey p) cs)
  end.

(* ptr.pull *)
Fixpoint pull (fuel : nat) (m : nat) (st : store) (p : ptr) (k : key) : result store :=
  match fuel with
  | O => Err EFuel
  | S f =>
      if negb (exists_ st p) then Ok st          (* reached at the root *)
      else
        let nd := node_of st p in
        let '(idx, mt) := find nd k in
        if negb mt then Err EPullMissing
        else
          let nd := delete nd idx in
          if Nat.ltb 0 (length nd) then
            let st := st_set st (p_skey p) nd in
            update_acc f st (parent_of st p) (p_key p, accumulate nd)
          else
            (* merge if possible *)
            let lft := left_sibling st p in
            let rgt := right_sibling st p in
            let parent := parent_of st p in
            let st := st_del st (p_skey p) in
            st <- pull f m st parent (p_key p) ;;
            if exists_opt st lft && exists_opt st rgt then
              match lft, rgt with
              | Some lp, Some rp =>
                  (* parent might be deleted, retrieve from left *)
                  let parent := parent_of st lp in
                  if key_eqb (p_key parent) (p_key (parent_of st rp)) then
                    let leftnode := node_of st lp in
                    let rightnode := node_of st rp in
                    if Nat.ltb (length leftnode + length rightnode) m then
                      let st := st_set st (p_skey lp) (merge leftnode rightnode) in
                      let st := st_del st (p_skey rp) in
                      st <- pull f m st parent (p_key rp) ;;
                      (* leftnode.accumulate(): [merge]'s append leaves leftnode's own length untouched,
                         so this is the sum of the node as it was before the merge *)
                      update_acc f st parent (p_key lp, accumulate leftnode)
                    else Ok st
                  else Ok st
              | _, _ => Ok st
              end
            else Ok st
  end.

(* ------------------------------------------------------------------------------------------ *)
(* Tree *)
Definition fuel_of (st : store) : nat :=
  match root st with None => 3%nat | Some r => (p_level r + 3)%nat end.

(* Tree.Set(key, acc); [isnil]: key is the nil slice *)
Definition tree_set (m : nat) (st : store) (k : key) (isnil : bool) (v : Z) : result store :=
  let p := ptr_get 0 k isnil in
  let st := st_set st (p_skey p) [(k, v)] in               (* ptr.setLeaf(leaf) *)
  push (fuel_of st) m st (parent_of st p) (k, v).

(* Tree.Get *)
Definition tree_get (st : store) (k : key) : Z :=
  match st_get st (0%nat, k) with
  | None => 0
  | Some n => match n with (_, v) :: _ => v | [] => 0 end
  end.

Definition tree_remove (m : nat) (st : store) (k : key) (isnil : bool) : result store :=
  let nd := ptr_get 0 k isnil in
  if negb (exists_ st nd) then Ok st
  else
    let parent := parent_of st nd in
    let st' := st_del st (p_skey nd) in
    pull (fuel_of st) m st' parent k.

Definition tree_increase (m : nat) (st : store) (k : key) (isnil : bool) (amt : Z) : result store :=
  tree_set m st k isnil (tree_get st k + amt).
Definition tree_decrease (m : nat) (st : store) (k : key) (isnil : bool) (amt : Z) : result store :=
  tree_increase m st k isnil (- amt).

(* NewTree on an empty store: tree.Set(nil, 0) *)
Definition new_tree (m : nat) : result store := tree_set m [] [] true 0.

(* ptr.accumulationSplit - recursion on the level (ptr.level-1) *)
Fixpoint acc_split (st : store) (level : nat) (pkey : key) (k : key) : result (Z * Z * Z) :=
  match level with
  | O =>
      match st_get st (0%nat, pkey) with
      | Some ((_, v) :: _) =>
          match key_cmp pkey k with
          | Lt => Ok (v, 0, 0)
          | Eq => Ok (0, v, 0)
          | Gt => Ok (0, 0, v)
          end
      | _ => Err ENilDeref                       (* leaf.Leaf is nil *)
      end
  | S l =>
      let nd := node_of st (mkPtr level pkey false) in
      let '(idx, mt) := find nd k in
      match (if mt then Some idx else match idx with O => None | S i => Some i end) with
      | None => Err EIndex                       (* node.Children[-1] *)
      | Some i =>
          match nth_error nd i with
          | None => Err EIndex
          | Some (ck, _) =>
              r <- acc_split st l ck k ;;
              let '(lft, ex, rgt) := r in
              Ok (lft + accumulate (firstn i nd), ex, rgt + accumulate (skipn (S i) nd))
          end
      end
  end.

(* t.root().accumulationSplit(key) *)
Definition split_acc (st : store) (k : key) : result (Z * Z * Z) :=
  match root st with
  | None => Err ENilDeref
  | Some r => acc_split st (p_level r) (p_key r) k
  end.

(* Tree.SubsetAccumulation(start, end); None = nil *)
Definition subset_acc (st : store) (s e : option key) : result Z :=
  match s, e with
  | None, _ =>
      r <- split_acc st (match e with None => [] | Some k => k end) ;;
      let '(l, x, _) := r in Ok (l + x)
  | Some s', None =>
      r <- split_acc st s' ;;
      let '(_, x, rt) := r in Ok (x + rt)
  | Some s', Some e' =>
      r1 <- split_acc st s' ;;
      r2 <- split_acc st e' ;;
      let '(_, lx, lr) := r1 in
      let '(_, _, rr) := r2 in
      Ok (lx + lr - rr)
  end.

Definition prefix_sum (st : store) (e : option key) : result Z := subset_acc st None e.
(* Tree.TotalAccumulatedValue (as repaired by /repo commit 9b85b1164c): left + exact + right of a root split at nil *)
Definition total_acc (st : store) : result Z :=
  r <- split_acc st [] ;;
  let '(l, x, rt) := r in Ok (l + x + rt).

(* Tree.Iterator(begin, end) / ReverseIterator: the level-0 entries with begin <= key < end (end = None: to the
   end of the level), with the stored Leaf's accumulation *)
Definition in_range (b : key) (e : option key) (k : key) : bool :=
  key_leb b k && match e with None => true | Some e' => key_ltb k e' end.
Definition iterate (st : store) (b : key) (e : option key) : list (key * Z) :=
  map (fun k => (k, tree_get st k)) (filter (in_range b e) (level_keys st 0)).
Definition rev_iterate (st : store) (b : key) (e : option key) : list (key * Z) := rev (iterate st b e).

(* ------------------------------------------------------------------------------------------ *)
(* operations and histories *)
Inductive op :=
| OSet (k : key) (isnil : bool) (v : Z)
| OInc (k : key) (isnil : bool) (v : Z)
| ODec (k : key) (isnil : bool) (v : Z)
| ORemove (k : key) (isnil : bool).

Definition apply_op (m : nat) (st : store) (o : op) : result store :=
  match o with
  | OSet k n v => tree_set m st k n v
  | OInc k n v => tree_increase m st k n v
  | ODec k n v => tree_decrease m st k n v
  | ORemove k n => tree_remove m st k n
  end.

Fixpoint run (m : nat) (st : store) (ops : list op) : result store :=
  match ops with
  | [] => Ok st
  | o :: r => st' <- apply_op m st o ;; run m st' r
  end.
