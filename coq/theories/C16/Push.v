(* C16 proofs, layer 2c: ptr.push (insert, split at m/2+1, root creation, re-fetched parent) re-establishes the invariant
   from its level upwards and changes the level's child entries exactly by one sorted insert / replace. *)
From Coq Require Import ZArith List Bool Lia Sorted.
Import ListNotations.
From Osmo Require Import Gen.C16_consts.
From Osmo Require Import C16.Model C16.Spec C16.Statement C16.Keys C16.Assoc C16.StoreLemmas C16.Views C16.Flat C16.Upper.

(* every child key of later nodes is at or above one of those nodes' keys *)
Lemma flat_keys_ge_node : forall (l2 : al node) y, Forall headed l2 -> @asorted Z (flat l2) -> In y (akeys (flat l2)) ->
  exists k2, In k2 (akeys l2) /\ kle k2 y.
Proof.
  intros l2 y Hh Hs Hin. unfold akeys, flat in Hin. apply in_map_iff in Hin. destruct Hin as ([k1 a1] & E & Hin); simpl in E; subst k1.
  apply in_flat_map in Hin. destruct Hin as ([k2 n2] & Hin2 & Hin); simpl in Hin.
  exists k2. split; [apply in_map_iff; exists (k2, n2); auto|].
  pose proof Hin2 as Hin2'. apply in_split in Hin2'. destruct Hin2' as (la & lb & ->).
  eapply Forall_forall in Hh; [|exact Hin2]. destruct Hh as (a2 & r2 & E); simpl in E; subst n2.
  destruct Hin as [E|Hin]; [inversion E; subst; apply kle_refl|].
  destruct (node_sorted_in_level _ _ _ _ Hs) as (Hn & _ & _).
  apply asorted_cons_inv in Hn. destruct Hn as [_ Hf].
  eapply Forall_forall in Hf; [|apply in_map_iff; exists (y, a1); split; [reflexivity|exact Hin]].
  apply klt_kle; exact Hf.
Qed.

(* inserting / replacing a child entry in the node that owns its key = inserting / replacing it in the level's child list *)
Lemma flat_set_node : forall (l1 : al node) k n l2 ck a,
  Forall headed (l1 ++ (k, n) :: l2) -> @asorted Z (flat (l1 ++ (k, n) :: l2)) ->
  kle k ck -> (forall y, In y (akeys l2) -> klt ck y) ->
  al_set (flat (l1 ++ (k, n) :: l2)) ck a = flat l1 ++ al_set n ck a ++ flat l2.
Proof.
  intros l1 k n l2 ck a Hh Hs Hle Hl2.
  destruct (node_sorted_in_level _ _ _ _ Hs) as (Hn & Hbefore & Hafter).
  apply Forall_app in Hh. destruct Hh as [Hh1 Hh2]. inversion Hh2 as [|? ? Hh0 Hh3]; subst.
  destruct Hh0 as (a0 & r0 & E0); simpl in E0; subst n.
  rewrite flat_mid. apply al_set_app_mid.
  - intros x Hx. eapply klt_le_trans; [apply (Hbefore x k); simpl; auto|auto].
  - intros y Hy. rewrite flat_mid in Hs. destruct (asorted_app _ _ Hs) as (_ & Hs2 & _).
    destruct (asorted_app _ _ Hs2) as (_ & Hs3 & _).
    destruct (flat_keys_ge_node l2 y Hh3 Hs3 Hy) as (k2 & Hk2 & Hle2).
    eapply klt_le_trans; eauto.
Qed.

Lemma headed_set : forall k (n : node) ck a, headed (k, n) -> kle k ck -> headed (k, al_set n ck a).
Proof.
  intros k n ck a (a0 & r0 & E0) Hle; simpl in E0.
  destruct (al_set_head n k a0 r0 ck a E0 Hle) as (v' & r' & E'). exists v', r'; simpl; auto.
Qed.

(* firstn / skipn of a headed sorted child list *)
Lemma split_facts : forall (cs : node) k sp sk x,
  headed (k, cs) -> @asorted Z cs -> (1 <= sp)%nat -> nth_error cs sp = Some (sk, x) ->
  headed (k, firstn sp cs) /\ headed (sk, skipn sp cs) /\ length (firstn sp cs) = sp /\
  length (skipn sp cs) = (length cs - sp)%nat /\ klt k sk /\ In sk (akeys cs) /\
  (forall y, In y (akeys (firstn sp cs)) -> klt y sk).
Proof.
  intros cs k sp sk x (a0 & r0 & E0) Hs Hsp Hnth; simpl in E0.
  assert (sp < length cs)%nat as Hlt by (apply nth_error_Some; congruence).
  pose proof (firstn_skipn sp cs) as Hfs.
  assert (skipn sp cs = (sk, x) :: skipn (S sp) cs) as Esk.
  { clear -Hnth. revert cs Hnth. induction sp as [|sp IH]; intros [|c cs] Hnth; simpl in *; try discriminate.
    - inversion Hnth; auto.
    - apply IH; auto. }
  repeat split.
  - destruct sp as [|sp']; [lia|]. subst cs. exists a0, (firstn sp' r0); simpl; auto.
  - exists x, (skipn (S sp) cs); simpl; auto.
  - apply firstn_length_le; lia.
  - apply skipn_length.
  - rewrite <- Hfs in Hs. destruct (asorted_app _ _ Hs) as (_ & _ & H12). apply H12.
    + destruct sp as [|sp']; [lia|]. subst cs; simpl; auto.
    + rewrite Esk; simpl; auto.
  - apply nth_error_In in Hnth. apply in_map_iff. exists (sk, x); auto.
  - intros y Hy. rewrite <- Hfs in Hs. destruct (asorted_app _ _ Hs) as (_ & _ & H12). apply H12; auto.
    rewrite Esk; simpl; auto.
Qed.

Lemma split_at_bounds : forall m, (2 <= m)%nat -> (1 <= split_at m <= m)%nat.
Proof.
  intros m Hm. unfold split_at, gen_split_div, gen_split_add.
  pose proof (Nat.div_lt m 2 ltac:(lia) ltac:(lia)). lia.
Qed.

(* the top level holds one node, keyed by the empty key *)
Lemma top_level_single : forall m st H (l1 : al node) (k : key) (n : node) (l2 : al node), Upper m st H H -> nodes_at st H = l1 ++ (k, n) :: l2 ->
  l1 = [] /\ l2 = [] /\ k = [].
Proof.
  intros m st H l1 k n l2 U Elv. pose proof (up_top _ _ _ _ U) as Ht. rewrite Elv, akeys_app in Ht. simpl in Ht.
  destruct l1 as [|[k1 n1] l1]; simpl in Ht.
  - inversion Ht as [[E1 E2]]. destruct l2; [auto|discriminate].
  - inversion Ht as [[E1 E2]]. destruct (akeys l1); discriminate.
Qed.

Lemma push_spec : forall m d fuel st J H (l1 : al node) (k : key) (n : node) (l2 : al node) b (ck : key) (a : Z),
  (2 <= m)%nat -> (H - J = d)%nat -> (1 <= J <= H)%nat -> (d + 3 <= fuel)%nat ->
  Upper m st J H -> (b = true -> k = []) ->
  nodes_at st J = l1 ++ (k, n) :: l2 -> kle k ck -> (forall y, In y (akeys l2) -> klt ck y) ->
  exists st' H', push fuel m st (mkPtr J k b) (ck, a) = Ok st' /\ (H' = H \/ H' = S H) /\
    Upper m st' J H' /\
    flat (nodes_at st' J) = al_set (flat (nodes_at st J)) ck a /\
    (forall L, (L < J)%nat -> nodes_at st' L = nodes_at st L).
Proof.
  intros m d. induction d as [|d IH]; intros fuel st J H l1 k n l2 b ck a Hm Hd HJ Hfuel U Hnil Elv Hle Hl2;
    (destruct fuel as [|f]; [lia|]).
  all: pose proof (up_sorted _ _ _ _ U) as Hs.
  all: pose proof (up_fsorted _ _ _ _ U) as Hfs; rewrite Elv in Hfs.
  all: destruct (node_sorted_in_level _ _ _ _ Hfs) as (Hns & Hbefore & Hafter).
  all: pose proof (up_headed _ _ _ _ U J ltac:(lia)) as HhJ; rewrite Elv in HhJ.
  all: pose proof (up_size _ _ _ _ U J ltac:(lia)) as HzJ; rewrite Elv in HzJ.
  all: assert (headed (k, n)) as Hhn by (apply Forall_app in HhJ; destruct HhJ as [_ X]; inversion X; auto).
  all: assert (length n <= m)%nat as Hzn by (apply Forall_app in HzJ; destruct HzJ as [_ X]; inversion X; auto).
  all: assert (In (k, n) (nodes_at st J)) as Hknin by (rewrite Elv; apply in_or_app; right; simpl; auto).
  all: assert (In k (akeys (nodes_at st J))) as Hkin by (rewrite Elv, akeys_app; apply in_or_app; right; simpl; auto).
  all: pose proof (flat_set_node l1 k n l2 ck a HhJ Hfs Hle Hl2) as Hflat.
  all: cbn [push]; rewrite (exists_in st (mkPtr J k b)) by auto; cbn [negb];
       rewrite (node_of_in st J k b n) by auto; cbn [fst snd];
       destruct (find n ck) as [idx mt] eqn:Ef; destruct mt.
  - (* top level, existing child: updateAccumulation *)
    assert (In ck (akeys n)) as Hck by (apply (find_match_iff n ck Hns); rewrite Ef; auto).
    destruct (update_acc_spec m 0 f st J H l1 k n l2 b ck a) as (st' & Eu & U' & Elv' & Hlow & _); auto; try lia.
    exists st', H. split; [exact Eu|]. split; [auto|]. split; [exact U'|]. split; [|exact Hlow].
    rewrite Elv', Elv, Hflat, flat_mid; auto.
  - (* top level, new child *)
    assert (J = H) by lia; subst J.
    destruct (top_level_single _ _ _ _ _ _ _ U Elv) as (-> & -> & ->).
    assert (~ In ck (akeys n)) as Hnck.
    { intros Hc. apply (find_match_iff n ck Hns) in Hc. rewrite Ef in Hc; discriminate. }
    rewrite (find_nomatch_insert n ck idx a Ef). set (cs := al_set n ck a).
    assert (length cs = S (length n)) as Hlen by (apply al_set_length_notin; auto).
    assert (@asorted Z cs) as Hcs by (apply al_set_sorted; auto).
    assert (headed ([], cs)) as Hhcs by (apply headed_set; auto).
    destruct (parent_of_empty_level st (mkPtr H [] b)) as [Ep Ee].
    { simpl. apply (up_above _ _ _ _ U); lia. }
    clear Hflat. simpl app in *.
    destruct (Nat.ltb m (length cs)) eqn:Elt.
    + (* split and create a new root *)
      apply Nat.ltb_lt in Elt. assert (length cs = S m) as Hlen' by lia.
      destruct (split_at_bounds m Hm) as [Hsp1 Hsp2]. set (sp := split_at m) in *.
      unfold split.
      destruct (nth_error cs sp) as [[sk x]|] eqn:Enth; [|apply nth_error_None in Enth; lia].
      destruct (split_facts cs [] sp sk x Hhcs Hcs Hsp1 Enth) as (Hhl & Hhr & Hll & Hlr & Hksk & Hskin & Hlsk).
      set (leftnode := firstn sp cs) in *. set (rightnode := skipn sp cs) in *.
      set (st1 := st_set st (p_level (mkPtr H [] b), sk) rightnode).
      assert (sorted_store st1) as Hs1 by (apply st_set_sorted; auto).
      assert (nodes_at st1 H = [([], n); (sk, rightnode)]) as Elv1.
      { unfold st1; simpl. rewrite nodes_at_set_same by auto. rewrite Elv.
        apply (al_set_insert [([], n)] []); simpl; [intros ? [<-|[]]; auto|intros ? []]. }
      assert (forall L, L <> H -> nodes_at st1 L = nodes_at st L) as Hoth1.
      { intros; unfold st1; simpl. apply nodes_at_set_other; auto. }
      assert (exists_ st1 (parent_of st (mkPtr H [] b)) = false) as Ee1.
      { rewrite Ep. apply exists_not_in; auto. simpl. rewrite Hoth1 by lia. rewrite (up_above _ _ _ _ U) by lia. simpl; auto. }
      rewrite Ee1. cbn [negb]. rewrite Ep. unfold p_skey; cbn [p_level p_key].
      set (rootnode := [([], accumulate leftnode); (sk, accumulate rightnode)]).
      set (st2 := st_set st1 (S H, []) rootnode).
      assert (sorted_store st2) as Hs2 by (apply st_set_sorted; auto).
      assert (nodes_at st2 (S H) = [([], rootnode)]) as Elv2.
      { unfold st2. rewrite nodes_at_set_same by auto. rewrite Hoth1 by lia. rewrite (up_above _ _ _ _ U) by lia. auto. }
      assert (forall L, L <> S H -> nodes_at st2 L = nodes_at st1 L) as Hoth2.
      { intros; unfold st2. apply nodes_at_set_other; auto. }
      set (st3 := st_set st2 (H, []) leftnode).
      assert (sorted_store st3) as Hs3 by (apply st_set_sorted; auto).
      assert (nodes_at st3 H = [([], leftnode); (sk, rightnode)]) as Elv3.
      { unfold st3. rewrite nodes_at_set_same by auto. rewrite Hoth2 by lia. rewrite Elv1. simpl. auto. }
      assert (forall L, L <> H -> nodes_at st3 L = nodes_at st2 L) as Hoth3.
      { intros; unfold st3. apply nodes_at_set_other; auto. }
      exists st3, (S H). split; [reflexivity|]. split; [auto|].
      assert (flat (nodes_at st3 H) = cs) as Hfl3.
      { rewrite Elv3. unfold flat; simpl. rewrite app_nil_r. apply firstn_skipn. }
      split; [|split].
      * constructor; auto.
        -- rewrite Hoth3 by lia. rewrite Elv2; auto.
        -- intros L HL. rewrite Hoth3 by lia. rewrite Hoth2 by lia. rewrite Hoth1 by lia. apply (up_above _ _ _ _ U); lia.
        -- intros J' HJ'. assert (J' = S H) by lia; subst. replace (S H - 1)%nat with H by lia.
           rewrite Hoth3 by lia. rewrite Elv2, Elv3. reflexivity.
        -- intros J' HJ'. assert (J' = H \/ J' = S H) as [->| ->] by lia.
           ++ rewrite Elv3. repeat constructor; auto.
           ++ rewrite Hoth3 by lia. rewrite Elv2. repeat constructor. exists (accumulate leftnode), [(sk, accumulate rightnode)]; auto.
        -- intros J' HJ'. assert (J' = H \/ J' = S H) as [->| ->] by lia.
           ++ rewrite Elv3. repeat constructor; unfold size_ok; simpl; fold leftnode rightnode; lia.
           ++ rewrite Hoth3 by lia. rewrite Elv2. repeat constructor. unfold size_ok; simpl; lia.
        -- rewrite Hfl3; auto.
      * rewrite Hfl3, Elv. unfold flat at 1; simpl. rewrite app_nil_r. reflexivity.
      * intros L HL. rewrite Hoth3 by lia. rewrite Hoth2 by lia. apply Hoth1; lia.
    + (* no split *)
      apply Nat.ltb_ge in Elt.
      destruct f as [|f']; [lia|]. cbn [update_acc]. rewrite Ee. cbn [negb bind].
      set (st1 := st_set st (p_skey (mkPtr H [] b)) cs).
      assert (sorted_store st1) as Hs1 by (apply st_set_sorted; auto).
      assert (nodes_at st1 H = [([], cs)]) as Elv1.
      { unfold st1, p_skey; simpl. rewrite nodes_at_set_same by auto. rewrite Elv. simpl. auto. }
      assert (forall L, L <> H -> nodes_at st1 L = nodes_at st L) as Hoth1.
      { intros; unfold st1, p_skey; simpl. apply nodes_at_set_other; auto. }
      exists st1, H. split; [reflexivity|]. split; [auto|].
      assert (flat (nodes_at st1 H) = cs) as Hfl1 by (rewrite Elv1; unfold flat; simpl; apply app_nil_r).
      split; [|split].
      * constructor; auto.
        -- rewrite Elv1; auto.
        -- intros L HL. rewrite Hoth1 by lia. apply (up_above _ _ _ _ U); lia.
        -- intros; lia.
        -- intros J' HJ'. assert (J' = H) by lia; subst. rewrite Elv1. repeat constructor; auto.
        -- intros J' HJ'. assert (J' = H) by lia; subst. rewrite Elv1. repeat constructor. unfold size_ok; simpl; lia.
        -- rewrite Hfl1; auto.
      * rewrite Hfl1, Elv. unfold flat at 1; simpl. rewrite app_nil_r. reflexivity.
      * intros L HL. apply Hoth1; lia.
  - (* below the top, existing child: updateAccumulation *)
    assert (In ck (akeys n)) as Hck by (apply (find_match_iff n ck Hns); rewrite Ef; auto).
    destruct (update_acc_spec m (S d) f st J H l1 k n l2 b ck a) as (st' & Eu & U' & Elv' & Hlow & _); auto; try lia.
    exists st', H. split; [exact Eu|]. split; [auto|]. split; [exact U'|]. split; [|exact Hlow].
    rewrite Elv', Elv, Hflat, flat_mid; auto.
  - (* below the top, new child *)
    assert (~ In ck (akeys n)) as Hnck.
    { intros Hc. apply (find_match_iff n ck Hns) in Hc. rewrite Ef in Hc; discriminate. }
    rewrite (find_nomatch_insert n ck idx a Ef). set (cs := al_set n ck a).
    assert (length cs = S (length n)) as Hlen by (apply al_set_length_notin; auto).
    assert (@asorted Z cs) as Hcs by (apply al_set_sorted; auto).
    assert (headed (k, cs)) as Hhcs by (apply headed_set; auto).
    assert (Upper m st (S J) H) as US by (apply upper_weaken; auto; lia).
    destruct (upper_head_nil _ _ _ _ US (H - S J)%nat (S J) eq_refl ltac:(lia)) as (n0 & r0 & Ehead).
    destruct (parent_of_floor st (mkPtr J k b) n0 r0 Hs Hnil Ehead) as (l1' & k'' & n'' & l2' & b'' & Elv' & Hle' & Hl2' & Epar & Hnil').
    simpl in Elv', Hle', Hl2', Epar. rewrite Epar.
    pose proof (up_cons _ _ _ _ U (S J) ltac:(lia)) as HcS. replace (S J - 1)%nat with J in HcS by lia.
    pose proof (up_headed _ _ _ _ US (S J) ltac:(lia)) as HhS. pose proof (up_fsorted _ _ _ _ US) as HfS.
    assert (In k (akeys (flat (nodes_at st (S J))))) as HkflatS by (rewrite HcS, akeys_sums; auto).
    assert (asorted (nodes_at st J)) as HsJ by (apply nodes_at_sorted; auto).
    assert (forall x, In x (akeys l1) -> klt x k) as Hl1k.
    { rewrite Elv in HsJ. destruct (asorted_app _ _ HsJ) as (_ & _ & H12). intros x Hx; apply H12; simpl; auto. }
    destruct (Nat.ltb m (length cs)) eqn:Elt.
    + (* split *)
      apply Nat.ltb_lt in Elt. assert (length cs = S m) as Hlen' by lia.
      destruct (split_at_bounds m Hm) as [Hsp1 Hsp2]. set (sp := split_at m) in *.
      unfold split.
      destruct (nth_error cs sp) as [[sk x]|] eqn:Enth; [|apply nth_error_None in Enth; lia].
      destruct (split_facts cs k sp sk x Hhcs Hcs Hsp1 Enth) as (Hhl & Hhr & Hll & Hlr & Hksk & Hskin & Hlsk).
      set (leftnode := firstn sp cs) in *. set (rightnode := skipn sp cs) in *.
      assert (forall y, In y (akeys l2) -> klt sk y) as Hskl2.
      { intros y Hy. unfold cs in Hskin. apply akeys_al_set in Hskin. destruct Hskin as [->|Hskin]; auto.
        apply Hafter; auto. apply akeys_flat_in; auto.
        apply Forall_app in HhJ. destruct HhJ as [_ X]. inversion X; auto. }
      set (st1 := st_set st (p_level (mkPtr J k b), sk) rightnode).
      assert (sorted_store st1) as Hs1 by (apply st_set_sorted; auto).
      assert (nodes_at st1 J = al_set (nodes_at st J) sk rightnode) as Elv1'.
      { unfold st1; simpl. rewrite nodes_at_set_same by auto. auto. }
      assert (nodes_at st1 J = l1 ++ (k, n) :: (sk, rightnode) :: l2) as Elv1.
      { rewrite Elv1', Elv. replace (l1 ++ (k, n) :: l2) with ((l1 ++ [(k, n)]) ++ l2) by (rewrite <- app_assoc; auto).
        rewrite al_set_insert; [rewrite <- app_assoc; auto| |auto].
        intros y Hy. rewrite akeys_app in Hy. apply in_app_or in Hy. destruct Hy as [Hy|[<-|[]]]; auto.
        eapply klt_trans; eauto. }
      assert (forall L, L <> J -> nodes_at st1 L = nodes_at st L) as Hoth1.
      { intros; unfold st1; simpl. apply nodes_at_set_other; auto. }
      assert (exists_ st1 (mkPtr (S J) k'' b'') = true) as Ee1.
      { apply exists_in; auto. simpl. rewrite Hoth1 by lia. rewrite Elv', akeys_app. apply in_or_app; right; simpl; auto. }
      rewrite Ee1. cbn [negb].
      assert (Upper m st1 (S J) H) as U1.
      { apply (upper_ext m st); auto; [lia|intros; apply Hoth1; lia]. }
      destruct (IH f st1 (S J) H l1' k'' n'' l2' b'' sk (accumulate rightnode)) as (st2 & H2 & Ep & HH2 & U2 & Hfl2 & Hlow2); auto; try lia.
      { rewrite Hoth1 by lia; auto. }
      { apply klt_kle. eapply kle_lt_trans; eauto. }
      { intros y Hy. pose proof (Hl2' y Hy) as Hky.
        assert (In y (akeys (nodes_at st J))) as HyJ.
        { rewrite <- akeys_sums, <- HcS. apply akeys_flat_in; auto. rewrite Elv', akeys_app. apply in_or_app; right; simpl; auto. }
        rewrite Elv, akeys_app in HyJ. apply in_app_or in HyJ. destruct HyJ as [HyJ|[HyJ|HyJ]]; auto.
        - exfalso. eapply klt_irrefl. eapply klt_trans; [exact Hky|apply Hl1k; auto].
        - subst y. exfalso. eapply klt_irrefl; eauto. }
      rewrite Ep. cbn [bind].
      assert (S J <= H2)%nat as HSJ2 by (destruct HH2; lia).
      destruct (upper_head_nil _ _ _ _ U2 (H2 - S J)%nat (S J) eq_refl ltac:(lia)) as (n0b & r0b & Ehead2).
      assert (sorted_store st2) as Hs2 by (apply (up_sorted _ _ _ _ U2)).
      destruct (parent_of_floor st2 (mkPtr J k b) n0b r0b Hs2 Hnil Ehead2) as (l1b & k3 & n3 & l2b & b3 & Elvb & Hleb & Hl2b & Eparb & Hnilb).
      simpl in Elvb, Hleb, Hl2b, Eparb. rewrite Eparb.
      pose proof (up_headed _ _ _ _ U2 (S J) ltac:(lia)) as Hh2. pose proof (up_fsorted _ _ _ _ U2) as Hf2.
      assert (In k (akeys n3)) as Hkn3.
      { eapply (floor_contains (nodes_at st2 (S J))); eauto.
        rewrite Hfl2. apply akeys_al_set. right. rewrite Hoth1 by lia. auto. }
      destruct (update_acc_spec m (H2 - S J)%nat f st2 (S J) H2 l1b k3 n3 l2b b3 k (accumulate leftnode)) as (st3 & Eu & U3 & Elv3 & Hlow3 & Hkeys3); auto; try lia.
      cbn [p_key]. rewrite Eu. cbn [bind].
      set (st4 := st_set st3 (p_skey (mkPtr J k b)) leftnode).
      assert (sorted_store st3) as Hs3 by (apply (up_sorted _ _ _ _ U3)).
      assert (sorted_store st4) as Hs4 by (apply st_set_sorted; auto).
      assert (nodes_at st3 J = nodes_at st1 J) as E31 by (rewrite Hlow3 by lia; apply Hlow2; lia).
      assert (nodes_at st4 J = al_set (nodes_at st1 J) k leftnode) as Elv4'.
      { unfold st4, p_skey; simpl. rewrite nodes_at_set_same by auto. rewrite E31; auto. }
      assert (nodes_at st4 J = l1 ++ (k, leftnode) :: (sk, rightnode) :: l2) as Elv4.
      { rewrite Elv4', Elv1. apply al_set_mid. rewrite <- Elv1. apply nodes_at_sorted; auto. }
      assert (forall L, L <> J -> nodes_at st4 L = nodes_at st3 L) as Hoth4.
      { intros; unfold st4, p_skey; simpl. apply nodes_at_set_other; auto. }
      assert (flat (nodes_at st4 J) = al_set (flat (nodes_at st J)) ck a) as Hfl4.
      { rewrite Elv4, Elv, Hflat. rewrite flat_app. simpl.
        rewrite (app_assoc leftnode rightnode). unfold leftnode, rightnode. rewrite firstn_skipn. reflexivity. }
      exists st4, H2. split; [reflexivity|]. split; [exact HH2|]. split; [|split; [exact Hfl4|]].
      * apply upper_extend; auto.
        -- apply (upper_ext m st3); auto. intros; apply Hoth4; lia.
        -- (* cons at S J *)
           rewrite Hoth4 by lia. rewrite Elv3, flat_mid, <- (flat_set_node l1b k3 n3 l2b k (accumulate leftnode)); auto;
             try (rewrite <- Elvb; auto).
           rewrite Hfl2. rewrite Hoth1 by lia. rewrite HcS.
           rewrite Elv4', Elv1', !sums_al_set. reflexivity.
        -- rewrite Elv4. apply Forall_app in HhJ. destruct HhJ as [X1 X2]. inversion X2; subst.
           apply Forall_app; split; auto.
        -- rewrite Elv4. apply Forall_app in HzJ. destruct HzJ as [X1 X2]. inversion X2; subst.
           apply Forall_app; split; auto. constructor; [|constructor; auto]; unfold size_ok; simpl; fold leftnode rightnode; lia.
        -- rewrite Hfl4. apply al_set_sorted. apply (up_fsorted _ _ _ _ U).
      * intros L HL. rewrite Hoth4 by lia. rewrite Hlow3 by lia. rewrite Hlow2 by lia. apply Hoth1; lia.
    + (* no split *)
      apply Nat.ltb_ge in Elt.
      assert (In k (akeys n'')) as Hkn''.
      { eapply (floor_contains (nodes_at st (S J))); eauto. }
      destruct (update_acc_spec m d f st (S J) H l1' k'' n'' l2' b'' k (accumulate cs)) as (st2 & Eu & U2 & Elv2 & Hlow2 & Hkeys2); auto; try lia.
      cbn [p_key]. rewrite Eu. cbn [bind].
      set (st3 := st_set st2 (p_skey (mkPtr J k b)) cs).
      assert (sorted_store st2) as Hs2 by (apply (up_sorted _ _ _ _ U2)).
      assert (sorted_store st3) as Hs3 by (apply st_set_sorted; auto).
      assert (nodes_at st3 J = al_set (nodes_at st J) k cs) as Elv3'.
      { unfold st3, p_skey; simpl. rewrite nodes_at_set_same by auto. rewrite Hlow2 by lia; auto. }
      assert (nodes_at st3 J = l1 ++ (k, cs) :: l2) as Elv3.
      { rewrite Elv3', Elv. apply al_set_mid. rewrite <- Elv; auto. }
      assert (forall L, L <> J -> nodes_at st3 L = nodes_at st2 L) as Hoth3.
      { intros; unfold st3, p_skey; simpl. apply nodes_at_set_other; auto. }
      assert (flat (nodes_at st3 J) = al_set (flat (nodes_at st J)) ck a) as Hfl3.
      { rewrite Elv3, Elv, Hflat, flat_mid. reflexivity. }
      exists st3, H. split; [reflexivity|]. split; [auto|]. split; [|split; [exact Hfl3|]].
      * apply upper_extend; auto; try lia.
        -- apply (upper_ext m st2); auto; [lia|]. intros; apply Hoth3; lia.
        -- rewrite Hoth3 by lia. rewrite Elv2, flat_mid, <- (flat_set_node l1' k'' n'' l2' k (accumulate cs)); auto;
             try (rewrite <- Elv'; auto).
           rewrite HcS. rewrite Elv3', sums_al_set. reflexivity.
        -- rewrite Elv3. apply Forall_app in HhJ. destruct HhJ as [X1 X2]. inversion X2; subst.
           apply Forall_app; split; auto.
        -- rewrite Elv3. apply Forall_app in HzJ. destruct HzJ as [X1 X2]. inversion X2; subst.
           apply Forall_app; split; auto.
        -- rewrite Hfl3. apply al_set_sorted. apply (up_fsorted _ _ _ _ U).
      * intros L HL. rewrite Hoth3 by lia. apply Hlow2; lia.
Qed.
