(* C16 proofs, layer 3a: arithmetic of the sorted map's sums (left / exact / right, subset, prefix, total). *)
From Coq Require Import ZArith List Bool Lia Sorted.
Import ListNotations.
From Osmo Require Import C16.Model C16.Spec C16.Statement C16.Keys C16.Assoc.
Open Scope Z_scope.

(* "exact" as a filtered sum: additive over concatenation, equal to the point lookup on a sorted map *)
Definition sm_exact' (s : smap) (q : key) : Z := sm_sum (sm_filter (fun k => key_eqb q k) s).

Lemma sm_sum_app : forall a b, sm_sum (a ++ b) = sm_sum a + sm_sum b.
Proof. induction a as [|[k v] a IH]; simpl; intros; auto. rewrite IH; lia. Qed.
Lemma sm_filter_app : forall f a b, sm_filter f (a ++ b) = sm_filter f a ++ sm_filter f b.
Proof. intros; unfold sm_filter; apply filter_app. Qed.

Lemma sm_left_app : forall a b q, sm_left (a ++ b) q = sm_left a q + sm_left b q.
Proof. intros; unfold sm_left; rewrite sm_filter_app, sm_sum_app; auto. Qed.
Lemma sm_right_app : forall a b q, sm_right (a ++ b) q = sm_right a q + sm_right b q.
Proof. intros; unfold sm_right; rewrite sm_filter_app, sm_sum_app; auto. Qed.
Lemma sm_exact'_app : forall a b q, sm_exact' (a ++ b) q = sm_exact' a q + sm_exact' b q.
Proof. intros; unfold sm_exact'; rewrite sm_filter_app, sm_sum_app; auto. Qed.

Lemma sm_filter_all : forall f (s : smap), (forall x, In x (akeys s) -> f x = true) -> sm_filter f s = s.
Proof.
  induction s as [|[k v] s IH]; simpl; intros H; auto. rewrite H by auto. f_equal. apply IH; auto.
Qed.
Lemma sm_filter_none : forall f (s : smap), (forall x, In x (akeys s) -> f x = false) -> sm_filter f s = [].
Proof.
  induction s as [|[k v] s IH]; simpl; intros H; auto. rewrite H by auto. apply IH; auto.
Qed.

(* a block entirely below / above the query key *)
Lemma split_block_below : forall (s : smap) q, (forall x, In x (akeys s) -> klt x q) ->
  sm_left s q = sm_sum s /\ sm_exact' s q = 0 /\ sm_right s q = 0.
Proof.
  intros s q H. unfold sm_left, sm_exact', sm_right. repeat split.
  - rewrite sm_filter_all; auto. intros; apply key_ltb_true; auto.
  - rewrite sm_filter_none; auto. intros x Hx. apply key_eqb_false. intros ->. eapply klt_irrefl; eauto.
  - rewrite sm_filter_none; auto. intros x Hx. apply key_ltb_false. apply klt_kle; auto.
Qed.
Lemma split_block_above : forall (s : smap) q, (forall x, In x (akeys s) -> klt q x) ->
  sm_left s q = 0 /\ sm_exact' s q = 0 /\ sm_right s q = sm_sum s.
Proof.
  intros s q H. unfold sm_left, sm_exact', sm_right. repeat split.
  - rewrite sm_filter_none; auto. intros x Hx. apply key_ltb_false. apply klt_kle; auto.
  - rewrite sm_filter_none; auto. intros x Hx. apply key_eqb_false. intros ->. eapply klt_irrefl; eauto.
  - rewrite sm_filter_all; auto. intros; apply key_ltb_true; auto.
Qed.

Lemma sm_exact'_get : forall (s : smap) q, asorted s -> sm_exact' s q = sm_get s q.
Proof.
  induction s as [|[k v] s IH]; intros q Hs; [reflexivity|].
  destruct (asorted_cons_inv _ _ _ Hs) as [Hs' Hf].
  unfold sm_exact', sm_get in *. simpl. destruct (key_eqb q k) eqn:E.
  - apply key_eqb_true in E; subst. simpl.
    fold (sm_filter (fun k0 => key_eqb k k0) s). rewrite sm_filter_none; [simpl; lia|].
    intros x Hx. apply key_eqb_false. intros <-. eapply Forall_forall in Hf; eauto. eapply klt_irrefl; eauto.
  - apply IH; auto.
Qed.

(* the six boolean tests between two keys, from one comparison *)
Lemma cmp_lt_facts : forall a b, key_cmp a b = Lt ->
  key_ltb a b = true /\ key_leb a b = true /\ key_eqb a b = false /\
  key_eqb b a = false /\ key_ltb b a = false /\ key_leb b a = false.
Proof.
  intros a b E. unfold key_ltb, key_leb, key_eqb. rewrite (key_cmp_antisym a b), E. simpl. repeat split; auto.
Qed.
Lemma cmp_refl_facts : forall a, key_ltb a a = false /\ key_leb a a = true /\ key_eqb a a = true.
Proof. intros a. unfold key_ltb, key_leb, key_eqb. rewrite key_cmp_refl. auto. Qed.

Ltac krw a b E :=
  let F1 := fresh "F" in let F2 := fresh "F" in let F3 := fresh "F" in
  let F4 := fresh "F" in let F5 := fresh "F" in let F6 := fresh "F" in
  destruct (cmp_lt_facts a b E) as (F1 & F2 & F3 & F4 & F5 & F6);
  rewrite ?F1, ?F2, ?F3, ?F4, ?F5, ?F6.
Ltac kcase a b :=
  let E := fresh "E" in
  destruct (key_cmp a b) eqn:E;
  [ apply key_cmp_eq in E; subst;
    repeat match goal with |- context [key_ltb ?x ?x] => rewrite (proj1 (cmp_refl_facts x))
                         | |- context [key_leb ?x ?x] => rewrite (proj1 (proj2 (cmp_refl_facts x)))
                         | |- context [key_eqb ?x ?x] => rewrite (proj2 (proj2 (cmp_refl_facts x))) end
  | krw a b E
  | apply key_cmp_gt_lt in E; krw b a E ].

(* left + exact + right = total *)
Lemma split_total : forall (s : smap) q, sm_left s q + sm_exact' s q + sm_right s q = sm_sum s.
Proof.
  induction s as [|[k v] s IH]; intros q; [reflexivity|].
  unfold sm_left, sm_exact', sm_right, sm_filter in *. simpl. specialize (IH q).
  kcase k q; simpl; lia.
Qed.

(* subset sums in terms of the three parts *)
Lemma subset_none_some : forall (s : smap) h, sm_subset s None (Some h) = sm_left s h + sm_exact' s h.
Proof.
  induction s as [|[k v] s IH]; intros h; [reflexivity|].
  unfold sm_subset, sm_left, sm_exact', sm_filter in *. simpl. specialize (IH h).
  kcase k h; simpl in *; lia.
Qed.
Lemma subset_some_none : forall (s : smap) l, sm_subset s (Some l) None = sm_exact' s l + sm_right s l.
Proof.
  induction s as [|[k v] s IH]; intros l; [reflexivity|].
  unfold sm_subset, sm_right, sm_exact', sm_filter in *. simpl. specialize (IH l).
  kcase l k; simpl in *; lia.
Qed.
Lemma subset_some_some : forall (s : smap) l h, kle l h ->
  sm_subset s (Some l) (Some h) = sm_exact' s l + sm_right s l - sm_right s h.
Proof.
  induction s as [|[k v] s IH]; intros l h Hlh; [reflexivity|].
  unfold sm_subset, sm_right, sm_exact', sm_filter in *. simpl. specialize (IH l h Hlh).
  kcase l k; kcase k h; simpl in *; try lia; exfalso;
    match goal with
    | H1 : key_cmp ?a ?b = Lt, H2 : kle ?b ?a |- _ => exact (klt_not_le _ _ H1 H2)
    | H1 : key_cmp ?a ?b = Lt, H2 : key_cmp ?b ?c = Lt, H3 : kle ?c ?a |- _ =>
        exact (klt_not_le _ _ (klt_trans _ _ _ H1 H2) H3)
    end.
Qed.

(* the empty key is the least key: nothing lies to its left *)
Lemma sm_left_nil : forall (s : smap), sm_left s [] = 0.
Proof.
  intros s. unfold sm_left. rewrite sm_filter_none; auto. intros x _. apply key_ltb_false. apply kle_nil.
Qed.
